#!/bin/bash
# run.sh <Cnn> <quick|thorough> [--replay <path>]
# Rebuilds the monitors against /repo's current working tree (build tag `verif`) and runs one check.
set -u
cd "$(dirname "$0")"
export VERIF_ROOT="$PWD"
export GOFLAGS=-mod=mod GOPROXY=off GOSUMDB=off GOTOOLCHAIN=local GONOSUMDB=* GONOSUMCHECK=1 GOFLAGS=-mod=mod
prop="${1:?usage: run.sh <Cnn> <quick|thorough> [--replay path]}"
tier="${2:-quick}"
shift; shift || true
extra=()
while [ $# -gt 0 ]; do
  case "$1" in
    --replay) extra+=(-replay "$2"); shift 2;;
    *) extra+=("$1"); shift;;
  esac
done
mkdir -p bin evidence replays tmp
# which properties run under the race detector
case "$prop" in
  C01|C02|C05|C08|C09|C10|C14|C16|C18|C19|C20) race=1;;
  *) race=0;;
esac
build() { # $1 = output, rest = flags
  out="$1"; shift
  ( flock 9; go build -tags verif "$@" -o "$out" ./cmd/vcheck ) 9>bin/.lock 2>tmp/build.$$.log
  rc=$?
  if [ $rc -ne 0 ]; then
    echo "BUILD-ERROR: go build failed (infrastructure error, not a verdict)"; cat tmp/build.$$.log; rm -f tmp/build.$$.log; exit 2
  fi
  rm -f tmp/build.$$.log
}
if [ "$race" = 1 ]; then
  build bin/vcheck-race -race
  bin=bin/vcheck-race
else
  build bin/vcheck
  bin=bin/vcheck
fi
# streamsql's go.mod says "go 1.18": built as the main module (its own tests, or an application that
# still declares go < 1.23) it runs with the pre-1.23 timer-channel semantics, where a stale expiry
# can survive Timer.Reset.  The harness module declares go 1.23, so select the library's own semantics.
export GODEBUG="asynctimerchan=1${GODEBUG:+,$GODEBUG}"
export VERIF_BIN="$PWD/$bin"
racelog="$PWD/tmp/race.$prop.$$"
rm -f "$racelog".*
export GORACE="halt_on_error=0 log_path=$racelog"
export VERIF_RACELOG="$racelog"
runlog="$PWD/tmp/run.$prop.$$.log"
"$bin" "$prop" -tier "$tier" -seed "${VERIF_SEED:-1}" "${extra[@]}" 2>&1 | tee "$runlog"
rc=${PIPESTATUS[0]}
rm -f "$racelog".*
if [ "$rc" != 0 ] && [ "$rc" != 1 ] && grep -qE '^(fatal error:|panic:)' "$runlog"; then
  # The monitor process itself died of a Go runtime fault (e.g. "concurrent map read and map write" between the
  # engine and the caller's own map, a panic on an engine goroutine): the engine took the process down, which
  # every property forbids.  The log is the witness.
  mkdir -p "replays/$prop"
  crash="$PWD/replays/$prop/process-crash-$$.log"
  cp "$runlog" "$crash"
  echo "VIOLATION property=$prop replay=$crash"
  echo "  kind=process.crash: the monitor process was killed by a Go runtime fault while driving the engine: $(grep -m1 -E '^(fatal error:|panic:)' "$runlog")"
  rc=1
fi
rm -f "$runlog"
exit $rc
