#!/usr/bin/env python3
"""Regenerates DESIGN.md §7 (trusting the monitors: seeded changes) from seeded/*/meta.json + confirmation.json."""
import json, os, glob, re
p = '/verif/DESIGN.md'
s = open(p).read()
i = s.index('## 7. ')
j = s.index('## 8. ')
STRENGTHENED = {
 'C01-A': 'missed at first (big buffers, fast sink): added back-pressure cases `c01bp` (window output buffer 1, slow sync sink, >100 new-maximum rows, then quiet)',
 'C02-A': 'missed at first (idle probe only checked an idle source): added the busy out-of-order source scenario `execC02IdleBusy`',
 'C04-B': 'missed at first: the key alphabet had no escape characters; added `\\\\`, `\\\\N`, `a\\\\`, `\\\\|` … to `keyAlphabet`',
 'C09-A': 'missed at first: needs an idle gap longer than the block timeout and pre-1.23 timer semantics; added the `gaps` feed (BlockTimeout 30 ms, 45 ms pauses), the dropped-without-back-pressure clause and `GODEBUG=asynctimerchan=1` (the library declares go 1.18)',
 'C10-A': 'missed at first: added the `bridge` arrival pattern (event, earlier event more than a timeout before it, bridging event)',
 'C10-B': 'caught only in thorough at first: added another key\'s event with exactly the boundary timestamp in front of gap==timeout events',
 'C16-A': 'missed at first: numeric keys were all small; added magnitudes ≥ 1e6 in mixed Go types',
 'C18-A': 'missed at first: added several slow synchronous sinks and EmitSync-heavy producers for direct queries',
 'C18-B': 'missed at first (block batches always had a timeout): block-without-timeout batches + bounded wait for calls after Stop (`lifecycle.call_blocked_after_stop`)',
 'C20-A': 'missed at first: added `unnest` query kinds over arrays of objects / scalars',
 'C20-B': 'missed at first: added the literal-variant stream `c20lit` (same built-ins, different literal arguments, 4 instances truly concurrent, 4-8k EmitSync rows each); the race detector reports it first',
 'C03-A': 'missed at first: tolerance scaled with magnitude²; now scaled with magnitude·spread (Welford, as documented) + `offset` value regime',
 'C03-B': 'missed at first: added the compound item `pspread` = percentile(x,1) - percentile(x,0)',
 'C05-A': 'missed at first (load runs used the block strategy only): added expand-strategy load runs',
 'C05-B': 'missed at first (each API path had its own instance): added `c05conc`, Emit and EmitSync concurrently on one instance',
 'C06-B': 'missed at first: added the row-type-order stream over back-quoted column arithmetic / expr() (`c06Order`) and a back-quoted variant in the fresh-process history stream',
 'C07-B': 'missed at first: two-key ORDER BY with a tie-prone first key and an implicit direction on the second is now generated deliberately',
 'C13-B': 'missed at first: single-case alphabet; added the letter-case twin stream `c13case`',
 'C01-D': 'missed at first (only round window sizes, which every alignment origin shares): added 700 ms / 1.3 s / 7 s / 11 s / 13 s sizes with a base timestamp that is a multiple of their lcm (C01, C02, C08)',
 'C02-C': 'missed at first (early firing was judged against the window_end the result claims): a session ends at its latest event + timeout, whatever it claims; added the inner out-of-order generator `genC02SessionInside`',
 'C02-D': 'missed at first: added ahead-of-the-clock garbage cases (sequence 3-20 h in the future, garbage > 24 h ahead of the clock but < 24 h ahead of the accepted events)',
 'C03-D': 'missed at first: added the compound item `sumdiff` = sum(exprA) - sum(exprB) with two different expression arguments',
 'C04-C': 'missed at first: group columns are now selected under aliases in any mix with un-aliased ones (`groupby.tuple_not_under_selected_name`)',
 'C04-D': 'missed at first: added 64-bit integer keys beyond 2^53 (typed keys keep such integers exact)',
 'C05-C': 'missed at first: added the 64-bit column `big` and unparenthesised AND chains of plain comparisons (the shortcut shape)',
 'C05-D': 'missed at first: added the caller-reuses-its-map probe on the EmitSync path (`result.shares_callers_map`)',
 'C06-D': 'missed at first: added unparenthesised mixed AND/OR chains of plain comparisons (`flatMix`)',
 'C08-D': 'missed at first (late rows were "not demanded, not forbidden"): rows too late by every criterion must be aggregated nowhere (`sliding.too_late_row_aggregated`); C02 garbage cases also run under burst feed',
 'C09-C': 'missed at first (block strategy only): added expand-strategy cases with a 4-slot input buffer - which also exposed the uncounted displaced window results repaired in e2598c1',
 'C09-D': 'missed at first: added computed grouping keys (`GROUP BY upper(k1), CountingWindow(N)`) with interleaved spellings',
 'C10-D': 'missed at first (one key column): added two-column session keys over separator / escape characters',
 'C11-D': 'missed at first: added the totality class "well-formed statement with one semantic error" (unknown function buried in expressions of many lengths and spacings)',
 'C13-D': 'missed at first: added the stream `c13aggcase` (LIKE / IS NULL in a CASE condition feeding an aggregate, rows without the column)',
 'C15-D': 'missed at first (every event carried every column): added sparse events where DEFINE semantics are pinned',
 'C16-D': 'missed at first (single join): added two-table statements with every INNER/LEFT combination (`c16multi`)',
 'C17-D': 'missed at first (rows with an UNKNOWN predicate follow the engine): added the isolation re-run - each group fed alone must fire identically (`global.other_groups_influence`)',
 'C18-D': 'missed at first: slow asynchronous sinks now saturate the sink pool in front of the panicking sink, the panicking sink panics on every third call, and counting/global survival batches are owed every result',
 'C19-D': 'missed at first: added refill configurations (8-16 producers, thousands of one-slot expansions from below the trigger threshold)',
 'C20-D': 'missed at first (solo baseline ran in the same process): added case-twin instances checked against a direct reference (`c20case`)',
 'C01-E': 'missed at first: added rows in the last millisecond of a window with the watermark resting exactly there (evTimestamps "boundary")',
 'C02-E': 'missed at first: added `genC02LateOlderSession` (late row for the older of two fired sessions of one key)',
 'C02-F': 'missed at first: added allowances shorter than the window together with rows exactly on window boundaries',
 'C06-F': 'missed at first (text operand left the value open): a NULL operand now pins arithmetic to NULL whatever the other operand is',
 'C07-F': 'missed at first: added a HAVING that consists of one CASE comparison (`CASE WHEN <atom> THEN 1 ELSE 0 END = 1`)',
 'C08-E': 'missed at first: same last-millisecond rows as C01-E',
 'C08-F': 'missed by C08 (which runs with ALLOWEDLATENESS 0): caught by C02 after its late stream got a completeness clause (`late.on_time_row_lost`), burst feeds and frequent delays at the `*.late.unlocked` yield points - which also exposed the sliding late-update eviction race repaired in 7cb9e7e',
 'C09-E': 'missed at first: added a monitoring loop (GetStats / ResetStats every few rows)',
 'C09-F': 'missed at first: added the stream `c09mixed` (one key in several dynamic types; only what holds under either reading is checked)',
 'C10-E': 'missed at first: added back-pressure session cases `c10bp` (window output buffer 1, slow sink, dense burst, then quiet)',
 'C11-E': 'missed at first: added a second JOIN clause to the join family',
 'C11-F': 'missed at first: added literals that contain the other quote character followed by an opening parenthesis',
 'C12-E': 'missed at first: added unparenthesised chains mixing AND and OR',
 'C12-F': 'missed at first: added double-quoted literals with escapes at the package boundary',
 'C14-E': 'missed at first: added the stream `c14nested` (PARTITION BY a nested path, same-named top-level column)',
 'C14-F': 'missed at first: change detection over arrays / objects in `c14nested`',
 'C16-E': 'missed at first: stream rows may carry a top-level field named like the table qualifier',
 'C17-E': 'missed at first: added the stream `c17nested` (selected and trigger aggregates over nested paths with the same last segment)',
 'C17-F': 'missed at first: added the stream `c17ttl` (an active group under STATETTL must not be reaped)',
 'C18-E': 'missed at first: added MATCH_RECOGNIZE survival batches whose DEFINE calls a panicking row function',
 'C18-F': 'missed at first: the analytic query now has an item with an OVER (... WHEN ...) gate; the race detector reports it',
 'C20-E': 'missed at first: added the query kind `merge_objects` (merge_agg / first_value / last_value over nested objects)',
 'C20-F': 'missed at first: added type-twin instances checked against a direct reference (`c20types`)',
 'C01-G': 'missed at first: added processing-time cases in which one delivery is slow (`Stall`), so that the next window boundary passes while the previous result is still being handed over',
 'C08-H': 'missed at first: added sliding back-pressure cases `c08bp` (window output buffer 1, slow sink, dense burst, then quiet)',
 'C12-G': 'missed at first: added zero-padded numeric literals (`007`, `0.50`) on both paths',
 'C14-G': 'missed at first (a wrapper around a gated analytic call followed whatever the engine did): both documented readings are computed and the output must equal one of them on every row',
 'C05-G': 'missed at first: NOT over a comparison with a NULL / missing operand is now judged by a three-valued reference on all three paths',
 'C05-H': 'missed at first: added rows that carry no field at all (compared by position on the three paths)',
 'C06-H': 'missed at first: added the string-ordering site stream (`c06strord`: the same text comparison in WHERE, CASE, HAVING and a function argument must agree; kind `strord.site_differs`)',
 'C04-H': 'missed at first: added an abs() function key that cannot be evaluated on NULL rows, followed by a back-quoted key',
 'C07-G': 'missed at first: added a comparison of the group column with a text that spells a keyword (`k != \'case\' AND …`)',
 'C09-G': 'missed at first: added the stream `c09ttl` (keys fed steadily under STATETTL must not be reaped in the middle of a batch)',
 'C09-H': 'missed at first: the public TriggerWindow hook is now called while keys hold partial batches (a counting window fires on the count only)',
 'C10-G': 'missed at first: the `bridge` pattern now leaves half of the earlier sessions unbridged, so that the session listed last is the first to expire',
 'C10-H': 'missed at first: added sources that stay silent for more than a day of event time (all timestamps far in the past)',
 'C16-H': 'missed at first: added the history step `reload` (the table is registered again under the same name between rows)',
 'C17-G': 'caught by the check as first written (kinds above).  Note: repair 7e333c2 of the engine came with a regression test (TestGlobalWindow_ExpressionArguments) that this change also fails, so the "suite passes" column reads NO at the current HEAD; it passed when the change was seeded',
 'C17-H': 'missed at first: single group column holding NULL next to the texts `\\\\N`, `\\\\\\\\N`, `NULL`',
 'C18-G': 'missed at first (event timestamps never went back): producers now send event-time rows in blocks whose late rows re-emit fired windows while on-time rows keep the watermark moving; reported as `lifecycle.hang`',
 'C20-H': 'missed at first: added MATCH_RECOGNIZE instances whose DEFINE cannot be evaluated on some rows (division by zero), paired with another pattern query over the same field names',
 'C02-I': 'missed at first: the idle-timeout probe now sends stragglers (newer than every event, seconds older than the idle-advanced watermark) after the firing; nothing may be delivered again (`idle.late_straggler_changed_results`)',
 'C03-I': 'missed at first: subtractions written without blanks (`w-1`, `v-1`, `o.x-2.5`) as arguments inside the compound item `sumdiff`',
 'C04-I': 'missed at first: added the stream `c04distinct` (SELECT DISTINCT over grouped rows whose key texts read like a written-out row)',
 'C04-J': 'missed at first: session windows - two rows of one tuple less than a timeout apart must be reported in one result (`groupby.equal_values_split`)',
 'C05-I': 'missed at first: added the stream `c05types` (output of a row after rows of other Go types vs as the first row of fresh column names)',
 'C05-J': 'missed at first: added drop-strategy load runs (what is delivered keeps the emission order; the deficit is bounded by input_dropped_count)',
 'C06-J': 'missed at first: comparison templates (`<>`, `!=`, `==` via expr()) in the row-type-order stream',
 'C07-J': 'missed at first: a second, asynchronous sink reads its batch 1 ms late and must read one of the delivered batches (`batch.altered_before_slow_sink_read`)',
 'C08-J': 'missed at first: event-time generators produce silences of more than a day (windows of 5 s and more)',
 'C09-I': 'missed at first: added the stream `c09prod`; a faulty synchronous sink registered before the recording sink panics on every second batch',
 'C09-J': 'missed at first: `c09prod` - several producers with keys of their own emit concurrently into an 8-slot input buffer that grows on demand',
 'C10-I': 'missed at first: rows arriving many positions late (within the tolerance) and the clause that two reported sessions of one key never interleave (`session.split_without_gap`)',
 'C10-J': 'missed at first: added the `slow` feed (producer pauses longer than the watermark\'s own 200 ms update period)',
 'C11-I': 'missed at first: MATCH_RECOGNIZE ORDER BY keys named like keywords (`timestamp`, `TimeStamp`)',
 'C11-J': 'missed at first: the boundary value LIMIT 0 after whichever clause comes last',
 'C13-I': 'missed at first: added the stream `c13nullpair` (two IS [NOT] NULL tests on different columns joined by AND / OR)',
 'C14-I': 'missed at first: added the stream `c14multi` (had_changed(true, *) next to lag(); an alias that shadows an input column)',
 'C14-J': 'missed at first: `c14multi` - the same call text twice in WHERE with different OVER clauses',
 'C18-J': 'missed at first: window queries with a block timeout of 300 s behind slow / blocked sinks (reported as `lifecycle.hang`)',
 'C19-I': 'missed at first: a configuration with ExpansionTimeout 1 ms and a 20 000-row backlog behind a slow consumer',
 'C19-J': 'missed at first: producers also emit nil maps (a JSON null payload)',
 'C20-I': 'missed at first: added the query kind `cep_all_rows` (ALL ROWS PER MATCH with MEASURES)',
 'C20-J': 'missed at first: added the query kind `array_fns` (array_remove / array_distinct / … over the caller\'s slices)',
 'C01-L': 'missed at first: a quarter of the event-time cases now emit their timestamps as float64 (what a JSON decoder produces)',
 'C02-K': 'missed by C02 at first (caught by the back-pressure cases of C01/C08/C10): added `c02bp` (burst of >100 new-maximum rows behind a slow sink, then silence, all three window kinds)',
 'C03-L': 'missed at first: an aggregate over an expression may now be named like an input column that another item aggregates',
 'C04-K': 'missed at first: added the stream `c04late` (late rows whose key is a prefix / suffix / the empty text of a delivered session\'s key; one result row per session batch)',
 'C04-L': 'missed at first: nth_value(id, 2) and percentile(id, 0) are selected in a third of the cases and must be computed per group',
 'C05-L': 'missed at first: a synchronous sink that panics on every second result is registered in front of the recording sink',
 'C07-L': 'missed at first: added the shape `agg_op_paren_lit` (`sum(v) * (2)`, `sum(v) / (2 + 2)`)',
 'C08-L': 'missed by C08 at first (caught by C02\'s busy-source probe): the probe now also runs inside C08 for sliding windows (`c08idle`)',
 'C09-L': 'missed at first: `c09prod` also runs with the default drop strategy (order per producer, deficit bounded by the drop counter)',
 'C10-L': 'missed at first: float64 timestamps (see C01-L)',
 'C11-L': 'missed at first: totality inputs now include statements cut off right after a word and followed by a lone opening quote / bracket',
 'C12-K': 'missed at first: text literals that differ only in blanks inside the quotes',
 'C13-K': 'missed at first: the LIKE keyword is written in lower / capitalised case in part of the cases',
 'C13-L': 'missed at first: added the stream `c13plain` (patterns without wildcards that contain backslashes, dots, parentheses)',
 'C14-K': 'missed at first: float64 partition keys that differ only beyond single precision',
 'C17-K': 'missed at first: a fifth of the cases carry WITH (STATETTL=\'1h\')',
 'C17-L': 'missed at first (the witness column takes a value on every row): added the stream `c17blank` without a witness, with rows that carry no reading',
 'C18-K': 'missed at first: half of the processing-time sliding batches use a 60 s window (Stop arrives before the first window ends)',
 'C18-L': 'missed at first: Stop-flush batches register faulty sinks in front of the recording sink',
 'C20-K': 'missed at first: added the query kinds `join_analytic` and `join_fn_key`',
 'C20-L': 'missed at first: type twins for an item evaluated after aggregation (`last_value(a) == 7`)',
 'C12-L': 'missed at first for a structural reason: the change moves the parenthesised twin onto the fast path, and the check used to declare such a case inconclusive ("twin not on the general path") and skip it; it now keeps judging both decisions against the reference (literals with parentheses and row values derived by careless normalisation were added too)',
 'C11-K': 'missed at first: the direct family now also writes a HAVING without GROUP BY (only its reflection in the configuration is judged)',
 'C15-K': 'missed at first: a third of the WITHIN cases run on a 500 ns grid with WITHIN written as a fractional number of microseconds (`1.5 US`)',
 'C15-L': 'missed at first: added the stream `c15pause` (sequence-number ORDER BY values, WITHIN \'200ms\', a producer that pauses 450 ms inside a match; the verdict is the content delivered, not a time)',
 'C05-K': 'missed at first (uint64 values near 2^64 were left out because the unchanged engine mis-decides them against integer literals): added the stream `c05unsigned`, which compares them with fractional literals only, where the unchanged engine is right',
}
rows = []
n = caught = 0
for d in sorted(glob.glob('/verif/seeded/*/')):
    sid = os.path.basename(d.rstrip('/'))
    try:
        meta = json.load(open(d + 'meta.json'))
    except Exception:
        continue
    conf = {}
    if os.path.exists(d + 'confirmation.json'):
        try:
            conf = json.load(open(d + 'confirmation.json'))
        except Exception:
            conf = {}
    kinds = []
    for k, v in (conf.get('checks') or {}).items():
        kinds += ['%s×%d' % (kk, vv) for kk, vv in v['kinds'].items()]
    title = meta.get('title') or meta.get('what_breaks', '')[:120]
    title = re.sub(r'\s+', ' ', title).replace('|', '\\|')
    files = ', '.join(meta.get('files', [])) if isinstance(meta.get('files'), list) else str(meta.get('files', ''))
    by = ', '.join(conf.get('caught_by') or []) or '—'
    also = '—'
    if os.path.exists(d + 'matrix.json'):
        try:
            mx = json.load(open(d + 'matrix.json'))
            also = ', '.join(x for x in (mx.get('caught_by') or []) if x not in (conf.get('caught_by') or [])) or '—'
        except Exception:
            also = '?'
    n += 1
    caught += 1 if conf.get('caught_by') else 0
    ok = lambda b: {True: 'yes', False: 'NO', None: '?'}[b]
    rows.append('| %s | %s (`%s`) | %s / %s | %s | %s | %s | %s | %s |' % (
        sid, title, files, ok(conf.get('demo_fails_with_patch')), ok(conf.get('demo_passes_without_patch')), ok(conf.get('suite_passes_with_patch')),
        by, also, ', '.join(kinds)[:160] or '—', STRENGTHENED.get(sid, 'caught by the check as first written')))
new7 = '''## 7. Trusting the monitors: seeded changes

1. Every check was run on the repaired tree from fresh processes until silent apart from the listed known
   findings: quick tier at VERIF_SEED in {1,2,3,7,42} (also from a cold build cache, next to other jobs, and
   twice under 40 spinning processes on the 16 cores) and, on the final tree, at eight further seeds
   (4,5,6,8,9,10,100,12345: 160 runs, silent); thorough tier at seeds 1, 2 and 3.  The thorough runs found
   two harness false alarms (§9: ORDER BY near-ties, the stuck-producer verdict) and one more genuine defect
   (§6: C06-select-or-with-function-over-null) that the quick tier does not reach.
   After the stream `c05unsigned` was added (C05-K), C05 was re-run from fresh processes: quick at seeds
   1, 2, 3, 5, 7, 42 and thorough at seed 1, all silent (1152 unsigned decisions per run); the whole quick tier (20 checks) was then run once more at a
   fresh seed (11): silent apart from the listed known findings.
2. **Seeded changes.**  For every property a fresh sub-agent was given *only* the property text and a scratch
   worktree, and asked for two realistic changes (A, B) that break the property while the library still compiles
   and its suite still passes, each needing something specific to manifest, with a demonstration test.  A second
   round of fresh sub-agents (again only the property text, plus the one-line titles of A and B so as not to
   repeat them) produced two more per property (C, D), a third round two more (E, F), a fourth (G, H), a fifth (I, J) and a sixth (K, L).  Each
   change was kept only after it was confirmed here (`tools/seedcheck.py`, scratch worktree of /repo HEAD): the
   patch applies and builds, the demonstration FAILS with it and PASSES without it, the unedited suite passes
   with it; then the property's quick check was run against the patched tree (a scratch copy of /verif whose
   go.mod points at the worktree).  The changes live in `seeded/<id>/` (patch.diff, demo_test.go, meta.json,
   confirmation.json = what was run and observed).  %d changes, %d caught by the property's own quick check.
   For the changes of the first round (A, B) all 20 quick checks were afterwards run against every change
   (`tools/seedmatrix.sh`, `seeded/<id>/matrix.json`; a '—' in that column for later rounds means "not run"):
   the column "other checks that also fire" lists checks of *other* properties that report a violation too -
   each such cell was looked at and is a consequence of the change reaching that check's workload (for instance
   a group-key change also breaks counting windows with GROUP BY), not noise: no check fires on a change whose
   code its workload does not execute.
   Where a check missed a change at first it was strengthened (last column) - never by special-casing the
   change, always by widening the workload or tightening an over-tolerant oracle - and re-run on the unchanged
   tree at several seeds.

| id | change (files) | demo fails with / passes without | suite passes with it | caught by | other checks that also fire (matrix) | violation kinds reported | how it is caught |
|---|---|---|---|---|---|---|---|
%s

   Twelve further changes (C17-G, C03-K, C04-F, C03-G, C03-H, C04-L, C07-H, C05-H, C03-D, C03-I, C07-C, C17-E) were caught
   when they were seeded but are retired (`seeded_retired/`, with the reasons): seven now fail regression tests that
   later repairs of the engine brought with them, and five no longer change the behaviour because the code they
   edit was reshaped by a repair.

3. If a realistic break leaves no trace in what is recorded, observability is added (another witness column,
   another hook) rather than cleverer inference: examples are `Observe("expand.swap")` for the exact capacity,
   `collect(id)` witnesses everywhere, and the started-Emit counter read inside the sink.

---------------------------------------------------------------------------------------------------

''' % (n, caught, '\n'.join(rows))
open(p, 'w').write(s[:i] + new7 + s[j:])
print(n, caught)
