#!/bin/bash
# seedconfirm.sh [parallelism] : re-validate every seeded change against /repo HEAD (demo both ways, full
# existing suite with the patch, own property's quick check) and store the outcome next to it.
cd /verif
par=${1:-3}
pat=${2:-.}       # optional grep pattern over the seed directory names (e.g. '-[GH]$')
suite=${SUITE---suite}   # SUITE= (empty) skips the full existing suite
ls -d seeded/*/ | sed 's#/$##' | grep -E -- "$pat" | suite=$suite xargs -P "$par" -I{} sh -c 'python3 tools/seedcheck.py {} $suite > {}/confirmation.json.tmp 2> tmp/$(basename {}).confirm.err && python3 tools/seedmerge.py {}/confirmation.json {}/confirmation.json.tmp && mv {}/confirmation.json.tmp {}/confirmation.json; python3 - {} <<PY
import json,sys
d=json.load(open(sys.argv[1]+"/confirmation.json"))
print(sys.argv[1], "applies",d.get("applies"),"demoFail",d.get("demo_fails_with_patch"),"demoPass",d.get("demo_passes_without_patch"),"suite",d.get("suite_passes_with_patch"),"caught",d.get("caught_by"), d.get("suite_bad",""))
PY'
