#!/usr/bin/env python3
"""Regenerates DESIGN.md §6 (repairs and recorded findings) from known_findings.json."""
import json, re
p = '/verif/DESIGN.md'
s = open(p).read()
i = s.index('## 6. ')
j = s.index('## 7. ')
d = json.load(open('/verif/known_findings.json'))
fixed = [f for f in d['findings'] if f['status'] == 'fixed']
known = [f for f in d['findings'] if f['status'] == 'known']
esc = lambda t: t.replace('|', '\\|').replace('\n', ' ')
rows = []
for f in fixed:
    what = re.sub(r'^fixed: property=\S+ \S+ ', '', f['what'])
    rows.append("| %s | `%s` | `%s` | %s |" % (f['property'], f['commit'], f['kind'], esc(what)))
krows = []
for f in known:
    krows.append("| %s | `%s` | `%s` %s | %s |" % (f['property'], f['id'], f['kind'], esc(json.dumps(f['match'])), esc(f['what'])))
new6 = '''## 6. What the monitors found on the pinned tree: repairs and recorded findings

Every alarm a monitor raised on the unchanged tree was triaged as required by the brief: *genuine defect*
(the failing input/schedule/history was reproduced against the real code) -> repaired by a minimal `fix:`
commit in /repo when the repair is a patch a maintainer would accept, otherwise recorded in
`known_findings.json`; *false alarm* (the oracle demanded more than the statement, or misrepresented the
engine) -> the monitor was corrected and the correction is listed in §9.  The repository's own suite
(4275 tests) was re-run unedited after the repairs (`MANIFEST.hooks.baseline_off_cmd`).

**%d repaired defects** (%d `fix:` commits; `known_findings.json` carries one `fixed` entry each - they
suppress nothing, a recurrence is reported again):

| property | commit | violation kind that exposed it | what failed (smallest input) |
|---|---|---|---|
%s

Repairs were made by the author of the monitors and, for the parser / LIKE / CEP / expression / aggregation
clusters, by repair agents working in private clones against the monitors; every commit was cherry-picked
only after the library's suite passed on it.  Three repairs are larger than a one-liner: the session window
now keeps a list of open sessions per key (`de0dee6`); late-data handling is decided from the watermark
instead of trigger-goroutine bookkeeping and window results are ordered by a send mutex (`d246643`); failed
predicates are re-evaluated under SQL three-valued logic (`condition/null_tolerant.go`, `e9ce686` ... `38b9b1c`).

**%d findings recorded, not repaired** (`status: known`; printed as `KNOWN-FINDING`, exit 0; each entry matches
the violation kind *and* the shape attributes shown, so any other violation of the same property is still a
`VIOLATION`):

| property | id | kind + match | what fails |
|---|---|---|---|
%s

Why these were not repaired: the `stddev` value is pinned by three existing tests (the suite must pass
unedited); CASE in WHERE, `cast(x AS t)` and the text/boolean-arithmetic and string-ordering site differences
need a new evaluation path (the WHERE filter is compiled by expr-lang, which has no CASE and no text
coercion), i.e. a redesign rather than a patch; the SELECT-item `!=`-with-NULL class lives in the expression
bridge of the `functions` package, which cannot import the `condition` package where the SQL equality
semantics were implemented - unifying the three evaluators is beyond a minimal commit; indexing a string
value is expr-lang behaviour on the WHERE path.

---------------------------------------------------------------------------------------------------

''' % (len(fixed), len(set(f['commit'] for f in fixed)), '\n'.join(rows), len(known), '\n'.join(krows))
open(p, 'w').write(s[:i] + new6 + s[j:])
print(len(fixed), len(known))
