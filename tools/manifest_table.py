NOT_BUILT = {}
add("C09", "offline checker over recorded emit/sink logs (per-key slicing with unique row ids), race detector",
    "Runs the real engine on PRNG-generated keyed streams and checks every delivery against the per-key slicing reference; held on the executions listed in the evidence, nothing more.",
    "Trusts the sync-sink recorder and collect(id)/first_value/last_value as witnesses; surplus deliveries arriving after the settle period are not seen.",
    "DESIGN.md §5 C09")
