NOT_BUILT = {}

RACE = "; built and run under the Go race detector, reports touching engine frames are violations"
COMMON_NOTE = ("Held on the executions listed in the evidence file, nothing more. Trusted base: the harness recorders (sync-sink deep copies, emit counters), "
               "the reference model written for this check, and the Go runtime/race detector. ")

add("C01", "offline checker over recorded emit/sink logs (exactly-once set algebra on unique row ids) + race detector + hook-observed timestamps",
    "Real engine on PRNG-generated event-time sequences (in order, jittered, late, earlier-than-first, boundary, garbage) closed by a sentinel, and on paced processing-time runs whose assigned timestamps are observed at the window.add.ts hook; every delivered result is checked for membership, alignment, aggregates, exactly-once and no-duplicate-interval" + RACE + ".",
    COMMON_NOTE + "Single producer (emission order = arrival order). A missing window is declared only after the engine stayed quiet with empty buffers and a further wait. Interleavings of ingest vs trigger goroutine are sampled with yield-point perturbation, not enumerated.",
    "DESIGN.md §5 C01")
add("C02", "online watermark-discipline monitor (started-Emit counter at each delivery), late-update chain checker, garbage-insertion metamorphic test, idle-timeout probe" ,
    "Four case streams over tumbling/sliding/session windows: no delivery before an Emit with ts ≥ window_end+MAXOUTOFORDERNESS started; on-time rows never discarded; with ALLOWEDLATENESS late rows aimed at fired windows must be re-delivered under the same window_id with previous contents plus the row, too-late rows must change nothing (also under burst schedules); garbage rows (far future, unusable timestamp, too late) must not change the result multiset; IDLETIMEOUT fires after idle and not before" + RACE + ".",
    COMMON_NOTE + "The no-early-firing condition is necessary, not sufficient (started ≥ processed). The zone where the statement's two lateness criteria disagree is left unconstrained (DESIGN §5 C02).",
    "DESIGN.md §5 C02")
add("C03", "reference-model monitor (per-function mathematical reference) + permutation and state-leak metamorphic tests over CountingWindow batches",
    "Every aggregate column of every delivered CountingWindow(N) batch is compared with an independently written reference applied to the batch's witness rows; shuffled batches and fresh-instance batches must agree; a seventh of the cases form the same batches with GLOBAL WINDOW TRIGGER WHEN count(*) >= N (plain and parameterised numeric aggregates).",
    COMMON_NOTE + "percentile/merge_agg are weakly documented, the oracle accepts every standard reading.",
    "DESIGN.md §5 C03")
add("C04", "partition-by-typed-tuple checker over recorded deliveries (counting, event-time tumbling, event-time session, global windows)",
    "Result rows of each delivered batch are compared with the typed-tuple partition of the batch's witness rows (collect(id)); separator-heavy key alphabet incl. NULL/''/'|'/unit separator, NULL-marker spellings and the ('a|b','c') vs ('a','b|c') pair; rows of one tuple less than a session timeout apart must share a result; SELECT DISTINCT over grouped rows must keep every tuple (c04distinct).",
    COMMON_NOTE + "One scalar type per key column, as the property's quantifier states.",
    "DESIGN.md §5 C04")
add("C05", "reference filter/projection + three-way path equality (EmitSync / sync sink / channel) + order monitor under load" ,
    "Generated direct queries are evaluated by the engine on three API paths and by a row-wise reference; per-id results must agree, must not depend on history (including the Go types of earlier rows, c05types), and a single producer's results must arrive in emission order at a sync sink and on the channel" + RACE + ".",
    COMMON_NOTE + "Constructs whose SQL meaning the statement leaves open are checked for invariance only.",
    "DESIGN.md §5 C05")
add("C06", "independent reference interpreter + layout/site/history invariance (fresh child processes) + built-in function sweep with hostile arguments",
    "Generated expressions (depth ≤ 4) are evaluated through SELECT/WHERE on typed rows and compared with a reference interpreter; the same AST in different layouts and sites must agree; results must not depend on which rows the process-wide caches saw first (checked in fresh child processes); ~86 built-ins are compared with Go-stdlib references and must never panic.",
    COMMON_NOTE + "SQL semantics are applied only where the statement pins them down; text/bool operands in arithmetic are checked for invariance and absence of panic only.",
    "DESIGN.md §5 C06")
add("C07", "relational reference (aggregate → expression → DISTINCT → HAVING → ORDER BY → LIMIT) over recorded batches",
    "Delivered batches of generated aggregate queries (CountingWindow per key, event-time tumbling windows with several groups) are compared with a relational reference; ordering is checked as a property of the output (sorted, length, excluded ≥ last included); hidden helper columns must not be visible; a second, slow asynchronous sink must read one of the delivered batches.",
    COMMON_NOTE + "Ties make the exact sequence non-deterministic; only order properties are checked.",
    "DESIGN.md §5 C07")
add("C08", "offline sliding membership / eviction / order checker over recorded emit and sink logs",
    "Every slide-aligned interval that contains an accepted row and that the watermark passed must be delivered exactly once, in increasing order, with exactly the accepted rows inside (late-kept rows tolerated), for slide dividing size, not dividing, equal and larger" + RACE + ".",
    COMMON_NOTE + "Single producer; a missing interval is declared only after a long engine-quiet wait.",
    "DESIGN.md §5 C08")
add("C09", "offline per-key slicing checker over recorded deliveries (unique row ids, collect/first_value/last_value witnesses)",
    "For every key the i-th delivery must aggregate exactly rows (i-1)N+1..iN of that key in arrival order; no remainder, no duplicate, separator-heavy keys, burst/paced feeding and tiny output buffers, manual TriggerWindow calls, steadily fed keys under STATETTL, and concurrent producers with keys of their own into a growing input buffer behind a faulty sink (c09prod)" + RACE + ".",
    COMMON_NOTE + "Surplus deliveries arriving after the settle period are not seen.",
    "DESIGN.md §5 C09")
add("C10", "offline session partition / gap / bounds / no-early checker + feed-speed metamorphic test",
    "Per key: every accepted row in exactly one session result, consecutive timestamps within the timeout, window_start/window_end equal the witness rows' min / max+timeout, no delivery before the watermark passed the end, identical outcome for in-order input at three feed speeds" + RACE + ".",
    COMMON_NOTE + "Maximality of sessions is not demanded (the statement does not) beyond this: two reported sessions of one key never interleave in time.",
    "DESIGN.md §5 C10")
add("C11", "totality monitor (recover + watchdog, inputs journaled to disk) + generator-AST faithfulness + layout metamorphic test through the public API",
    "rsql.Parse is run on token soup, byte-mutated harvested SQL and raw bytes (no panic, termination, error xor config); generated statements are compared field by field with the returned config; re-rendered layouts must give equal configs and equal query results; keyword-like literals/identifiers must not become clauses.",
    COMMON_NOTE + "Totality over all strings is sampled, not decided.",
    "DESIGN.md §5 C11")
add("C12", "differential monitor: shortcut-shaped predicate vs its parenthesised twin forced onto the general evaluator, at the package boundary and four SQL sites",
    "For every operator / literal / chain shape and a hostile value grid (all int widths, NaN/Inf, 2^53±1, MaxInt64, MaxUint64, strings, bools, NULL, missing) the decision of the shortcut path must equal the general path; failing evaluations must reject, never abort the stream.",
    COMMON_NOTE + "The general expr-lang path is the oracle, exactly as the property states; which path a text takes is read back by reflection.",
    "DESIGN.md §5 C12")
add("C13", "regexp-derived reference over a bounded-exhaustive (pattern, text) space at four SQL sites",
    "All patterns × all texts over {%,_,a,b,.} up to length 3 (quick) / 4 (thorough, exhaustive for that bounded space) plus sampled long patterns with regex metacharacters; IS [NOT] NULL over present/NULL/missing/nested/function operands, two NULL tests on different columns and a NULL test joined with a LIKE by AND/OR; WHERE, HAVING, CASE and SELECT sites must agree with the reference.",
    COMMON_NOTE + "Exhaustive only for the stated bounded space.",
    "DESIGN.md §5 C13")
add("C14", "reference state machines per partition + sync/async parity + solo-vs-interleaved and concurrent isolation",
    "Outputs of lag/latest/had_changed/changed_col(s)/acc_* (OVER PARTITION BY/WHEN, wrappers) are compared row by row with reference state machines; EmitSync and Emit+sink sequences must be identical; a partition's outputs must equal those of a solo run and of a concurrent per-partition feed; several analytic calls in one statement see the input row only and keep their own OVER clauses (c14multi)" + RACE + ".",
    COMMON_NOTE + "Semantics the documentation leaves open are checked for parity/isolation only (listed in c14_ref.go).",
    "DESIGN.md §5 C14")
add("C15", "brute-force reference matcher (pattern-language enumeration) + isolation metamorphic test, incl. Stop-flush deliveries",
    "Every reported match must be a valid match of maximal length for its start, starts leftmost-first under the SKIP rule, MATCH_NUMBER consecutive, nothing omitted, unfinished accepting runs flushed at Stop, and a partition's output must equal its solo output; WITHIN is also written as a fractional number of microseconds on a 500 ns grid, and a producer that pauses inside a match over sequence-number timestamps must not lose it (c15pause).",
    COMMON_NOTE + "≤ 4 variables, ≤ 12 events per partition; SQL:2016 preference among equal-length matches is not checked.",
    "DESIGN.md §5 C15")
add("C16", "sequential reference map over recorded histories + porcupine linearizability check of concurrent Upsert/Delete/lookup histories (child processes)",
    "Sequential histories of EmitSync/Emit interleaved with Upsert/Delete are compared with a typed-tuple reference table (unique version ids identify the row used); concurrent histories of 4 readers + 2 writers are checked per key with porcupine against a register-with-delete model" + RACE + ".",
    COMMON_NOTE + "NULL-vs-NULL key matches are unconstrained; a porcupine timeout is inconclusive.",
    "DESIGN.md §5 C16")
add("C17", "reference running aggregates + own predicate evaluator; per-group fire-sequence checker over the sink log",
    "For each group the expected fire sequence (predicate true on the aggregates since the last fire) is compared with the deliveries: no fire while false, fire when true, aggregates over exactly the rows since the last fire, restart from empty, no influence of other groups.",
    COMMON_NOTE + "Rows where the predicate is UNKNOWN (NULL aggregate) may or may not fire, but every group fed alone must fire exactly as it does when mixed with the others; nested-path aggregates and an active group under STATETTL have their own small streams.",
    "DESIGN.md §5 C17")
add("C18", "lifecycle monitors in isolated child processes under the race detector: process status + log scan, sink-after-Stop flag, goroutine accounting, watchdog with re-run, survival and CEP-flush batches",
    "12 query kinds × 3 strategies × 5 sink behaviours with concurrent Emit/EmitSync/AddSink/GetStats/TriggerWindow/Stop×2 on PRNG schedules with yield-point perturbation: no panic/fatal/race, no hang, no sink invoked after any Stop returned, no engine goroutine left, Emit after Stop silent, rows after a panicking row/sink still processed, CEP flush delivered before Stop returns.",
    COMMON_NOTE + "A hang is a watchdog verdict (120 s, re-run twice). Batches with a forever-blocking sink are exempt from the sink-after-Stop clause until the sink is released.",
    "DESIGN.md §5 C18")
add("C19", "conservation / no-duplicate / per-producer-order checker on unique row ids, capacity observed at the expand.swap hook, one child process per configuration",
    "Producers × buffer × growth/ceiling/threshold × consumer speed × strategy configurations with perturbation at the migration/consumer/sender yield points: processed + input_dropped_count = Emit calls at quiescence, no row twice, block without timeout never drops, capacity ≤ MaxBufferSize, single-producer order preserved; the evidence counts migrations that overlapped a consumer or a sender" + RACE + ".",
    COMMON_NOTE + "Expand configurations without any observed targeted overlap make the run inconclusive rather than passing.",
    "DESIGN.md §5 C19")
add("C20", "deep-equality monitor on caller maps and delivered rows + solo-vs-paired differential over 17 query kinds + twin instances (letter-case twins, operand-type twins) checked against a direct reference",
    "Maps passed to Emit/EmitSync are compared with deep copies at return and after quiescence; rows delivered to a sink are re-compared at the end; an instance's per-id results when paired with a concurrent second instance (same SQL, or different SQL sharing expression texts but differently typed rows) must equal its solo results" + RACE + ".",
    COMMON_NOTE + "A paired difference must survive a re-run of both sides with a long settle period. The solo baseline runs in the same process, so anything a process-wide cache keeps for good is only visible to the twin streams, whose expected values come from a direct reference.",
    "DESIGN.md §5 C20")
