#!/bin/bash
# seedbatch.sh C01 C18 ...  : import /tmp/seedwork/<P>/{$LETTERS, default A B} into seeded/ and validate each against its own property check
cd /verif
for P in "$@"; do
  for X in ${LETTERS:-A B}; do
    src=/tmp/seedwork/$P/$X
    [ -f $src/patch.diff ] || continue
    mkdir -p seeded/$P-$X && cp $src/patch.diff $src/meta.json seeded/$P-$X/ && cp $src/*_test.go seeded/$P-$X/ 2>/dev/null
    [ -f seeded/$P-$X/demo_test.go ] || { f=$(ls seeded/$P-$X/*_test.go 2>/dev/null | head -1); [ -n "$f" ] && mv "$f" seeded/$P-$X/demo_test.go; }
    python3 tools/seedcheck.py seeded/$P-$X ${SEEDARGS:-} > tmp/seed_$P-$X.json 2>tmp/seed_$P-$X.err
    python3 - <<PY
import json
try:
    d=json.load(open('tmp/seed_$P-$X.json'))
    print('$P-$X', 'applies',d.get('applies'),'builds',d.get('builds'),'demoFail',d.get('demo_fails_with_patch'),'demoPass',d.get('demo_passes_without_patch'),'caught',d.get('caught_by'), {k:v['kinds'] for k,v in d.get('checks',{}).items()}, d.get('error','')[:200])
except Exception as e:
    print('$P-$X', 'ERROR', e, open('tmp/seed_$P-$X.err').read()[-300:])
PY
  done
done
