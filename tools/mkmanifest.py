#!/usr/bin/env python3
"""Regenerates /verif/MANIFEST.json from the table below (kept here so the manifest is always valid)."""
import json, os, subprocess, sys
ROOT = os.path.dirname(os.path.dirname(os.path.abspath(__file__)))

# id -> (technique, level text, level note, design ref)
CHECKS = {}
def add(pid, technique, text, note, ref):
    CHECKS[pid] = dict(technique=technique, text=text, note=note, ref=ref)

exec(open(os.path.join(ROOT, "tools", "manifest_table.py")).read())

props = [json.loads(l)["id"] for l in open(os.path.join(ROOT, "properties.jsonl")) if l.strip()]
hooks_commits = [l.strip() for l in open(os.path.join(ROOT, "tools", "hook_commits.txt")) if l.strip() and not l.startswith("#")] if os.path.exists(os.path.join(ROOT, "tools", "hook_commits.txt")) else []
m = {
 "version": 1,
 "setup_cmd": "cd /verif && ./setup.sh",
 "hooks": {
  "guard": "verif",
  "enable": "go build -tags verif (run.sh builds ./cmd/vcheck with -tags verif against /repo's working tree via the go.mod replace directive)",
  "baseline_off_cmd": "cd /repo && GOFLAGS=-mod=mod GOPROXY=off GOSUMDB=off GOTOOLCHAIN=local go test -json -vet=off -count=1 -timeout 25m ./...",
  "source_commits": hooks_commits,
  "add_only": True,
 },
 "engines": [{"name": "vcheck", "path": "cmd/vcheck", "serves_properties": sorted(CHECKS), "kind_free_text": "Go driver: workload generators + reference-model/online monitors over the real engine; race-detector builds; child-process batches"}],
 "checks": [],
 "notes": "Technique family: runtime monitoring and sanitizers. See DESIGN.md. known_findings.json lists genuine defects recorded rather than repaired.",
 "not_applicable": [],
}
for pid in props:
    if pid in CHECKS and os.path.exists(os.path.join(ROOT, "checks", pid.lower() + ".go")):
        c = CHECKS[pid]
        m["checks"].append({
            "property_id": pid,
            "quick_cmd": f"./run.sh {pid} quick",
            "thorough_cmd": f"./run.sh {pid} thorough",
            "evidence_file": f"/verif/evidence/{pid}.json",
            "replay_cmd_template": f"./run.sh {pid} quick --replay {{path}}",
            "engine": "vcheck",
            "level_claimed": {"category": "exploration", "text": c["text"], "design_ref": c["ref"]},
            "level_note": c["note"],
            "technique": c["technique"],
        })
    else:
        m["not_applicable"].append({"property_id": pid, "reason": NOT_BUILT.get(pid, "monitor not built yet (planned in DESIGN.md §5); nothing is claimed for this property until its check exists")})
json.dump(m, open(os.path.join(ROOT, "MANIFEST.json"), "w"), indent=1)
print("checks:", len(m["checks"]), "not_applicable:", len(m["not_applicable"]))
