#!/bin/bash
# seedmatrix.sh [parallelism] : run ALL 20 quick checks against every seeded change (which checks catch which change)
cd /verif
par=${1:-3}
ALL=C01,C02,C03,C04,C05,C06,C07,C08,C09,C10,C11,C12,C13,C14,C15,C16,C17,C18,C19,C20
ls -d seeded/*/ | sed 's#/$##' | xargs -P "$par" -I{} sh -c "python3 tools/seedcheck.py {} --props $ALL > {}/matrix.json.tmp 2> tmp/\$(basename {}).matrix.err && mv {}/matrix.json.tmp {}/matrix.json; python3 -c \"import json,sys; d=json.load(open('{}/matrix.json')); print('{}', d.get('caught_by'))\""
