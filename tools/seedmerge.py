#!/usr/bin/env python3
"""seedmerge.py OLD NEW: a re-check without the full suite keeps the suite outcome recorded earlier."""
import json, sys, os
old, new = sys.argv[1], sys.argv[2]
try:
    n = json.load(open(new))
except Exception:
    sys.exit(0)
if 'suite_passes_with_patch' not in n and os.path.exists(old):
    try:
        o = json.load(open(old))
        for k in ('suite_passes_with_patch', 'suite_bad', 'suite_counts'):
            if k in o:
                n[k] = o[k]
        n['suite_result_from_earlier_confirmation'] = True
        json.dump(n, open(new, 'w'))
    except Exception:
        pass
