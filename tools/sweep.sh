#!/bin/bash
# sweep.sh <tier> <seed> [checks...] : run the named (default: all) checks at one seed; one summary line each.
cd /verif
tier=${1:-quick}; seed=${2:-1}; shift; shift
checks=${@:-C01 C02 C03 C04 C05 C06 C07 C08 C09 C10 C11 C12 C13 C14 C15 C16 C17 C18 C19 C20}
mkdir -p tmp/sweep
for c in $checks; do
  VERIF_SEED=$seed ./run.sh $c $tier > tmp/sweep/$c.$tier.$seed.out 2>&1
  rc=$?
  echo "$c $tier seed=$seed exit=$rc viol=$(grep -c '^VIOLATION' tmp/sweep/$c.$tier.$seed.out) known=$(grep -c '^KNOWN' tmp/sweep/$c.$tier.$seed.out) $(grep "$tier seed" tmp/sweep/$c.$tier.$seed.out | sed 's/.*inconclusive=/inconclusive=/')"
done
