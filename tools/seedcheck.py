#!/usr/bin/env python3
"""Validate a seeded change and run the monitors against it, without touching /repo's working tree.

usage: seedcheck.py <seed dir with patch.diff, demo_test.go, meta.json> [--suite] [--props C01,C02] [--tier quick] [--seeds 1]

1. scratch worktree of /repo HEAD (/tmp/sv-<name>), patch applied, `go build ./...`
2. demonstration: must FAIL with the patch and PASS without it
3. optionally (--suite) the unedited repository test suite must still pass with the patch
4. a scratch copy of /verif whose go.mod points at the worktree runs the named checks; reports which fire
Everything is removed afterwards.  Prints one JSON line with the outcome.
"""
import json, os, re, shutil, subprocess, sys, time

ENV = dict(os.environ, GOFLAGS="-mod=mod", GOPROXY="off", GOSUMDB="off", GOTOOLCHAIN="local")


def sh(cmd, cwd=None, timeout=3600):
    p = subprocess.run(cmd, shell=True, cwd=cwd, env=ENV, stdout=subprocess.PIPE, stderr=subprocess.STDOUT, text=True, timeout=timeout)
    return p.returncode, p.stdout


def main():
    args = sys.argv[1:]
    seed = os.path.abspath(args[0])
    suite = "--suite" in args
    tier = args[args.index("--tier") + 1] if "--tier" in args else "quick"
    seeds = args[args.index("--seeds") + 1].split(",") if "--seeds" in args else ["1"]
    meta = json.load(open(os.path.join(seed, "meta.json")))
    props = args[args.index("--props") + 1].split(",") if "--props" in args else [meta["property"]]
    name = re.sub(r"[^A-Za-z0-9]", "-", os.path.relpath(seed, "/verif/seeded") if seed.startswith("/verif/seeded") else os.path.basename(seed))
    wt = f"/tmp/sv-{name}"
    vv = f"/tmp/vv-{name}"
    out = {"seed": seed, "property": meta["property"]}
    sh(f"git -C /repo worktree remove --force {wt}")
    shutil.rmtree(wt, ignore_errors=True)
    rc, o = sh(f"git -C /repo worktree add --detach {wt} HEAD")
    try:
        rc, o = sh(f"git apply --whitespace=nowarn {seed}/patch.diff", cwd=wt)
        out["applies"] = rc == 0
        if rc != 0:
            out["error"] = o[-800:]
            return out
        rc, o = sh("go build ./... && go vet ./utils/verifhook", cwd=wt)
        out["builds"] = rc == 0
        if rc != 0:
            out["error"] = o[-800:]
            return out
        # demonstration
        demo = os.path.join(seed, "demo_test.go")
        if os.path.exists(demo):
            src = open(demo).read()
            m = re.search(r"^package\s+(\w+)", src, re.M)
            pkg = m.group(1) if m else "streamsql_test"
            pkgdir = meta.get("demo_dir", "")
            if not pkgdir:
                base = pkg[:-5] if pkg.endswith("_test") else pkg
                pkgdir = "." if base == "streamsql" else base
                for cand in [pkgdir, "stream", "window", "rsql", "condition", "functions", "expr", "cep", "aggregator"]:
                    if cand == "." or os.path.isdir(os.path.join(wt, cand)) and re.search(r"^package\s+" + re.escape(base) + r"\b", open(next((os.path.join(wt, cand, f) for f in os.listdir(os.path.join(wt, cand)) if f.endswith(".go") and not f.endswith("_test.go")), demo)).read(), re.M):
                        pkgdir = cand
                        break
            dst = os.path.join(wt, pkgdir, "zz_seed_demo_test.go")
            shutil.copy(demo, dst)
            names = "|".join(re.findall(r"^func (Test\w+)\(", src, re.M)) or "."
            rc1, o1 = sh(f"go test -count=1 -run '^({names})$' ./{pkgdir}/", cwd=wt, timeout=1200)
            out["demo_fails_with_patch"] = rc1 != 0
            sh(f"git apply -R --whitespace=nowarn {seed}/patch.diff", cwd=wt)
            rc2, o2 = sh(f"go test -count=1 -run '^({names})$' ./{pkgdir}/", cwd=wt, timeout=1200)
            out["demo_passes_without_patch"] = rc2 == 0
            if rc2 != 0:
                out["demo_clean_output"] = o2[-600:]
            if rc1 == 0:
                out["demo_patched_output"] = o1[-300:]
            sh(f"git apply --whitespace=nowarn {seed}/patch.diff", cwd=wt)
            os.remove(dst)
        if suite:
            t0 = time.time()
            rc, o = sh("go test -vet=off -count=1 -timeout 25m ./... 2>&1 | grep -v 'no test files'", cwd=wt, timeout=2400)
            bad = [l for l in o.splitlines() if not l.startswith("ok")]
            out["suite_passes_with_patch"] = rc == 0 and not bad
            out["suite_s"] = round(time.time() - t0)
            if bad:
                out["suite_bad"] = bad[:10]
        # monitors
        shutil.rmtree(vv, ignore_errors=True)
        sh(f"rsync -a --exclude bin --exclude tmp --exclude replays --exclude .git --exclude seeded /verif/ {vv}/")
        gm = open(f"{vv}/go.mod").read().replace("=> /repo", f"=> {wt}")
        open(f"{vv}/go.mod", "w").write(gm)
        res = {}
        for p in props:
            for sd in seeds:
                t0 = time.time()
                rc, o = sh(f"VERIF_SEED={sd} ./run.sh {p} {tier}", cwd=vv, timeout=7200)
                kinds = {}
                for k in re.findall(r"^  kind=(\S+)", o, re.M):
                    kinds[k] = kinds.get(k, 0) + 1
                res[f"{p}@{sd}"] = {"exit": rc, "kinds": kinds, "s": round(time.time() - t0)}
        out["checks"] = res
        out["caught_by"] = sorted({k.split("@")[0] for k, v in res.items() if v["exit"] == 1})
        return out
    finally:
        sh(f"git -C /repo worktree remove --force {wt}")
        shutil.rmtree(wt, ignore_errors=True)
        shutil.rmtree(vv, ignore_errors=True)


if __name__ == "__main__":
    print(json.dumps(main()))
