#!/bin/bash
# stress_sweep.sh [rounds] [spinners] : every quick check, repeatedly, while <spinners> busy loops compete for the CPUs.
# A check that is only silent on an idle machine is not silent.
cd /verif
rounds=${1:-3}; spin=${2:-40}
rm -f tmp/stopstress
for k in $(seq 1 $spin); do (while [ ! -f tmp/stopstress ]; do :; done) & done
for r in $(seq 1 $rounds); do ./tools/sweep.sh quick $r; done
touch tmp/stopstress; sleep 1; rm -f tmp/stopstress
