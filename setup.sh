#!/bin/bash
# Builds the monitors from files on disk only (offline).
set -e
cd "$(dirname "$0")"
export GOFLAGS=-mod=mod GOPROXY=off GOSUMDB=off GOTOOLCHAIN=local
mkdir -p bin evidence replays tmp
go build -tags verif -o bin/vcheck ./cmd/vcheck
go build -tags verif -race -o bin/vcheck-race ./cmd/vcheck
echo setup ok
