module verif

go 1.23

require (
	github.com/anishathalye/porcupine v1.3.0
	github.com/rulego/streamsql v0.0.0
)

require github.com/expr-lang/expr v1.17.8

replace github.com/rulego/streamsql => /repo
