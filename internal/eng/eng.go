// Package eng drives the real engine through its public API and records, at the client boundary,
// what was emitted and what the sinks received.
package eng

import (
	"fmt"
	"sync"
	"sync/atomic"
	"time"

	"github.com/rulego/streamsql"
	"github.com/rulego/streamsql/logger"
	"github.com/rulego/streamsql/types"
)

// Row is one input row.
type Row = map[string]any

// Opts configure an engine instance for behavioural checks.
type Opts struct {
	Strategy     string // default "block" (never drops, BlockTimeout 0)
	DataChan     int    // default 4096
	ResultChan   int    // default 4096
	WindowOut    int    // default 4096
	MaxBuffer    int
	Expansion    *types.ExpansionConfig
	BlockTimeout time.Duration
	SinkWorkers  int
	SinkPool     int
	MaxPartition int
	Extra        []streamsql.Option
}

// Perf builds the performance configuration for o.
func (o Opts) Perf() types.PerformanceConfig {
	p := types.DefaultPerformanceConfig()
	p.OverflowConfig.Strategy = "block"
	p.OverflowConfig.BlockTimeout = 0
	p.OverflowConfig.AllowDataLoss = false
	p.BufferConfig.DataChannelSize = 4096
	p.BufferConfig.ResultChannelSize = 4096
	p.BufferConfig.WindowOutputSize = 4096
	p.BufferConfig.MaxBufferSize = 1 << 20
	if o.Strategy != "" {
		p.OverflowConfig.Strategy = o.Strategy
		p.OverflowConfig.AllowDataLoss = o.Strategy == "drop"
	}
	if o.BlockTimeout != 0 {
		p.OverflowConfig.BlockTimeout = o.BlockTimeout
	}
	if o.DataChan > 0 {
		p.BufferConfig.DataChannelSize = o.DataChan
	}
	if o.ResultChan > 0 {
		p.BufferConfig.ResultChannelSize = o.ResultChan
	}
	if o.WindowOut > 0 {
		p.BufferConfig.WindowOutputSize = o.WindowOut
	}
	if o.MaxBuffer > 0 {
		p.BufferConfig.MaxBufferSize = o.MaxBuffer
	}
	if o.Expansion != nil {
		p.OverflowConfig.ExpansionConfig = *o.Expansion
	}
	if o.SinkWorkers > 0 {
		p.WorkerConfig.SinkWorkerCount = o.SinkWorkers
	}
	if o.SinkPool > 0 {
		p.WorkerConfig.SinkPoolSize = o.SinkPool
	}
	return p
}

var discard = logger.NewDiscardLogger()

// New creates and starts an instance for sql.
func New(sql string, o Opts) (*streamsql.Streamsql, error) {
	opts := []streamsql.Option{streamsql.WithLogger(discard), streamsql.WithCustomPerformance(o.Perf())}
	if o.MaxPartition > 0 {
		opts = append(opts, streamsql.WithAnalyticMaxPartitions(o.MaxPartition))
	}
	opts = append(opts, o.Extra...)
	s := streamsql.New(opts...)
	if err := execSafe(s, sql); err != nil {
		return nil, err
	}
	return s, nil
}

func execSafe(s *streamsql.Streamsql, sql string) (err error) {
	defer func() {
		if r := recover(); r != nil {
			err = fmt.Errorf("PANIC in Execute: %v", r)
		}
	}()
	return s.Execute(sql)
}

// Delivery is one sink invocation.
type Delivery struct {
	Index   int   `json:"index"`
	Started int64 `json:"started"` // number of Emit calls started when the delivery was observed
	Rows    []Row `json:"rows"`
}

// Rec records emits and sync-sink deliveries of one instance.
type Rec struct {
	S        *streamsql.Streamsql
	started  int64
	finished int64
	mu       sync.Mutex
	dels     []Delivery
	nrows    int64
}

// Attach registers the recording synchronous sink.
func Attach(s *streamsql.Streamsql) *Rec {
	r := &Rec{S: s}
	s.AddSyncSink(func(batch []map[string]any) {
		started := atomic.LoadInt64(&r.started)
		cp := make([]Row, len(batch))
		for i, m := range batch {
			cp[i] = DeepCopyMap(m)
		}
		r.mu.Lock()
		r.dels = append(r.dels, Delivery{Index: len(r.dels), Started: started, Rows: cp})
		r.mu.Unlock()
		atomic.AddInt64(&r.nrows, int64(len(batch)))
	})
	return r
}

// Emit sends one row and counts it at the boundary (started before, finished after).
func (r *Rec) Emit(row Row) {
	atomic.AddInt64(&r.started, 1)
	r.S.Emit(row)
	atomic.AddInt64(&r.finished, 1)
}

func (r *Rec) Started() int64 { return atomic.LoadInt64(&r.started) }

// Deliveries returns a snapshot of the deliveries recorded so far.
func (r *Rec) Deliveries() []Delivery {
	r.mu.Lock()
	defer r.mu.Unlock()
	out := make([]Delivery, len(r.dels))
	copy(out, r.dels)
	return out
}

func (r *Rec) NDeliveries() int { r.mu.Lock(); defer r.mu.Unlock(); return len(r.dels) }

// Quiesce waits until the engine has nothing left to do: all emitted rows were taken from the input
// buffer, the window output buffer is empty and the sink log did not grow over `polls` consecutive
// polls `gap` apart.  It returns false if that state was not reached within max.
func (r *Rec) Quiesce(polls int, gap, max time.Duration) bool {
	deadline := time.Now().Add(max)
	stable := 0
	last := -1
	for time.Now().Before(deadline) {
		time.Sleep(gap)
		st := r.S.GetStats()
		n := r.NDeliveries()
		busy := st["data_chan_len"] != 0 || st["bufferUsed"] != 0 ||
			atomic.LoadInt64(&r.started) != atomic.LoadInt64(&r.finished)
		if !busy && n == last {
			stable++
			if stable >= polls {
				return true
			}
		} else {
			stable = 0
		}
		last = n
	}
	return false
}

// WaitDeliveries polls until at least n deliveries were recorded or max elapsed.
func (r *Rec) WaitDeliveries(n int, max time.Duration) bool {
	deadline := time.Now().Add(max)
	for {
		if r.NDeliveries() >= n {
			return true
		}
		if time.Now().After(deadline) {
			return false
		}
		time.Sleep(200 * time.Microsecond)
	}
}

// Overloaded reports whether the engine itself declared overload (rows or results dropped).
func (r *Rec) Overloaded() bool {
	st := r.S.GetStats()
	return st["input_dropped_count"] != 0 || st["output_dropped_count"] != 0 || st["droppedCount"] != 0
}

// DeepCopy copies maps and slices recursively.
func DeepCopy(v any) any {
	switch x := v.(type) {
	case map[string]any:
		return DeepCopyMap(x)
	case []any:
		out := make([]any, len(x))
		for i := range x {
			out[i] = DeepCopy(x[i])
		}
		return out
	case []map[string]any:
		out := make([]map[string]any, len(x))
		for i := range x {
			out[i] = DeepCopyMap(x[i])
		}
		return out
	case []string:
		return append([]string(nil), x...)
	case []float64:
		return append([]float64(nil), x...)
	case []int:
		return append([]int(nil), x...)
	}
	return v
}

func DeepCopyMap(m map[string]any) map[string]any {
	if m == nil {
		return nil
	}
	out := make(map[string]any, len(m))
	for k, v := range m {
		out[k] = DeepCopy(v)
	}
	return out
}
