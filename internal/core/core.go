// Package core holds what every check shares: the run context (tier, seed, deterministic case
// PRNGs), violation reporting with known-finding classification, replay files and the evidence
// writer.  Nothing here decides a property; it only records what the monitors observed.
package core

import (
	"crypto/sha1"
	"encoding/hex"
	"encoding/json"
	"fmt"
	"hash/fnv"
	"math/rand"
	"os"
	"path/filepath"
	"regexp"
	"sort"
	"strconv"
	"sync"
	"sync/atomic"
	"time"
)

// Root is the /verif directory (resolved from VERIF_ROOT or the working directory).
func Root() string {
	if r := os.Getenv("VERIF_ROOT"); r != "" {
		return r
	}
	wd, _ := os.Getwd()
	return wd
}

// Violation is one refutation observed by a monitor.
type Violation struct {
	Kind   string            `json:"kind"`   // clause kind, e.g. "session.gap_exceeds_timeout"
	Attrs  map[string]string `json:"attrs"`  // shape attributes known-findings match on
	Detail string            `json:"detail"` // human readable diagnosis
	Case   any               `json:"case"`   // replayable case
}

// Finding is one entry of known_findings.json.
type Finding struct {
	Property string            `json:"property"`
	ID       string            `json:"id"`
	Status   string            `json:"status"` // "known" | "fixed"
	Kind     string            `json:"kind"`
	Match    map[string]string `json:"match"` // attr -> anchored regexp
	What     string            `json:"what"`
	Commit   string            `json:"commit,omitempty"`
	res      map[string]*regexp.Regexp
}

// Ctx is the per-run context of one check.
type Ctx struct {
	Prop   string
	Tier   string // quick | thorough
	Seed   int64
	Replay string // path of a replay file, "" for a normal run
	Ref    CaseRef
	Child  bool

	start time.Time

	mu         sync.Mutex
	evals      int64
	nontrivial map[string]struct{}
	samples    []any
	counters   map[string]int64
	unknown    []Violation
	replays    []string
	knownHits  map[string]int64
	knownWhat  map[string]string
	inconcl    int64
	inconclWhy map[string]int64
	findings   []*Finding
	rule       string
	assume     []string
	exhaustive bool
	extra      map[string]any
	replayN    int64
	sets       map[string]map[string]struct{}
}

func NewCtx(prop, tier string, seed int64) *Ctx {
	c := &Ctx{Prop: prop, Tier: tier, Seed: seed, start: time.Now(),
		nontrivial: map[string]struct{}{}, counters: map[string]int64{},
		knownHits: map[string]int64{}, knownWhat: map[string]string{}, inconclWhy: map[string]int64{},
		extra: map[string]any{}, sets: map[string]map[string]struct{}{}}
	c.loadFindings()
	return c
}

func (c *Ctx) loadFindings() {
	b, err := os.ReadFile(filepath.Join(Root(), "known_findings.json"))
	if err != nil {
		return
	}
	var file struct {
		Findings []*Finding `json:"findings"`
	}
	if err := json.Unmarshal(b, &file); err != nil {
		fmt.Fprintf(os.Stderr, "known_findings.json unreadable: %v\n", err)
		os.Exit(2)
	}
	for _, f := range file.Findings {
		if f.Property != c.Prop || f.Status != "known" {
			continue // "fixed" entries suppress nothing
		}
		f.res = map[string]*regexp.Regexp{}
		for k, v := range f.Match {
			re, err := regexp.Compile("^(?s:" + v + ")$")
			if err != nil {
				fmt.Fprintf(os.Stderr, "known_findings.json: bad regexp for %s/%s: %v\n", f.ID, k, err)
				os.Exit(2)
			}
			f.res[k] = re
		}
		c.findings = append(c.findings, f)
	}
}

// Quick reports whether this is the quick tier.
func (c *Ctx) Quick() bool { return c.Tier != "thorough" }

// N picks the case count by tier.
func (c *Ctx) N(quick, thorough int) int {
	if c.Quick() {
		return quick
	}
	return thorough
}

// Rng returns the PRNG of case i of stream name; a function of (seed, property, name, i) only.
func (c *Ctx) Rng(name string, i int) *rand.Rand {
	h := fnv.New64a()
	fmt.Fprintf(h, "%d|%s|%s|%d", c.Seed, c.Prop, name, i)
	return rand.New(rand.NewSource(int64(h.Sum64())))
}

func (c *Ctx) SetRule(r string)        { c.mu.Lock(); c.rule = r; c.mu.Unlock() }
func (c *Ctx) Assume(a ...string)      { c.mu.Lock(); c.assume = append(c.assume, a...); c.mu.Unlock() }
func (c *Ctx) SetExhaustive(b bool)    { c.mu.Lock(); c.exhaustive = b; c.mu.Unlock() }
func (c *Ctx) Extra(k string, v any)   { c.mu.Lock(); c.extra[k] = v; c.mu.Unlock() }
func (c *Ctx) Count(k string, n int64) { c.mu.Lock(); c.counters[k] += n; c.mu.Unlock() }
func (c *Ctx) Max(k string, n int64) {
	c.mu.Lock()
	if n > c.counters[k] {
		c.counters[k] = n
	}
	c.mu.Unlock()
}
func (c *Ctx) Counter(k string) int64 { c.mu.Lock(); defer c.mu.Unlock(); return c.counters[k] }

// Case records one executed case.  sig identifies it for distinctness; nontrivial says whether it
// satisfies the check's non-triviality rule; sample (may be nil) is kept for the evidence file.
func (c *Ctx) Case(sig string, nontrivial bool, sample any) {
	c.mu.Lock()
	defer c.mu.Unlock()
	c.evals++
	if nontrivial {
		c.nontrivial[shortHash(sig)] = struct{}{}
	}
	if sample != nil && len(c.samples) < 5 {
		c.samples = append(c.samples, sample)
	}
}

// Evals adds n evaluations that are not individually recorded as cases.
func (c *Ctx) Evals(n int64) { atomic.AddInt64(&c.evals, n) }

// Distinct adds a distinct non-trivial signature without counting an evaluation.
func (c *Ctx) Distinct(sig string) {
	c.mu.Lock()
	c.nontrivial[shortHash(sig)] = struct{}{}
	c.mu.Unlock()
}

// Seen adds sig to the named set of observed things (interleaving fingerprints, states, shapes);
// the evidence file reports the size of every set as counter "distinct.<name>".
func (c *Ctx) Seen(name, sig string) {
	h := shortHash(sig)
	c.mu.Lock()
	m := c.sets[name]
	if m == nil {
		m = map[string]struct{}{}
		c.sets[name] = m
	}
	m[h] = struct{}{}
	c.mu.Unlock()
}

func (c *Ctx) Sample(s any) {
	c.mu.Lock()
	if len(c.samples) < 5 {
		c.samples = append(c.samples, s)
	}
	c.mu.Unlock()
}

// Inconclusive records a case whose verdict could not be reached (watchdog, overload declared by
// the engine, targeted overlap not observed).  Never folded into pass or fail.
func (c *Ctx) Inconclusive(why string) {
	c.mu.Lock()
	c.inconcl++
	c.inconclWhy[why]++
	c.mu.Unlock()
}

func shortHash(s string) string {
	h := sha1.Sum([]byte(s))
	return hex.EncodeToString(h[:8])
}

// Violate reports a violation.  It is classified against known_findings.json: a matching "known"
// entry turns it into a KNOWN-FINDING line; anything else is a VIOLATION with a replay file.
func (c *Ctx) Violate(v Violation) {
	if v.Attrs == nil {
		v.Attrs = map[string]string{}
	}
	c.mu.Lock()
	defer c.mu.Unlock()
	for _, f := range c.findings {
		if f.Kind != v.Kind {
			continue
		}
		ok := true
		for k, re := range f.res {
			if !re.MatchString(v.Attrs[k]) {
				ok = false
				break
			}
		}
		if ok {
			c.knownHits[f.ID]++
			c.knownWhat[f.ID] = f.What
			if c.knownHits[f.ID] == 1 {
				c.writeReplayLocked(v, "known-"+f.ID)
			}
			return
		}
	}
	c.unknown = append(c.unknown, v)
	if len(c.unknown) <= 25 {
		p := c.writeReplayLocked(v, "")
		c.replays = append(c.replays, p)
		if !c.Child {
			fmt.Printf("VIOLATION property=%s replay=%s\n", c.Prop, p)
			fmt.Printf("  kind=%s attrs=%v\n  %s\n", v.Kind, v.Attrs, trunc(v.Detail, 1500))
		}
	}
}

func trunc(s string, n int) string {
	if len(s) > n {
		return s[:n] + "…"
	}
	return s
}

type replayFile struct {
	Property string    `json:"property"`
	Seed     int64     `json:"seed"`
	Tier     string    `json:"tier"`
	V        Violation `json:"violation"`
}

func (c *Ctx) writeReplayLocked(v Violation, prefix string) string {
	dir := filepath.Join(Root(), "replays", c.Prop)
	_ = os.MkdirAll(dir, 0o755)
	b, _ := json.MarshalIndent(replayFile{c.Prop, c.Seed, c.Tier, v}, "", " ")
	name := v.Kind + "-" + shortHash(string(b)) + ".json"
	if prefix != "" {
		name = prefix + "-" + name
	}
	p := filepath.Join(dir, sanitize(name))
	_ = os.WriteFile(p, b, 0o644)
	return p
}

func sanitize(s string) string {
	out := []byte(s)
	for i, ch := range out {
		if !(ch >= 'a' && ch <= 'z' || ch >= 'A' && ch <= 'Z' || ch >= '0' && ch <= '9' || ch == '.' || ch == '-' || ch == '_') {
			out[i] = '_'
		}
	}
	return string(out)
}

// CaseRef identifies a generated case: cases are functions of (seed, stream, index), so a replay
// regenerates the identical case (including Go value types that JSON would erase).
type CaseRef struct {
	Stream string `json:"stream"`
	Index  int    `json:"index"`
}

// ReplayRef reads seed, tier and case reference from a replay file.
func ReplayRef(path string) (seed int64, tier string, ref CaseRef, err error) {
	b, err := os.ReadFile(path)
	if err != nil {
		return 0, "", ref, err
	}
	var rf struct {
		Seed int64  `json:"seed"`
		Tier string `json:"tier"`
		V    struct {
			Case json.RawMessage `json:"case"`
		} `json:"violation"`
	}
	if err := json.Unmarshal(b, &rf); err != nil {
		return 0, "", ref, err
	}
	err = json.Unmarshal(rf.V.Case, &ref)
	return rf.Seed, rf.Tier, ref, err
}

// Violations returns the number of violations no known finding explains.
func (c *Ctx) Violations() int { c.mu.Lock(); defer c.mu.Unlock(); return len(c.unknown) }

// ChildResult is what a child process hands back to its parent.
type ChildResult struct {
	Evals      int64               `json:"evals"`
	Nontrivial []string            `json:"nontrivial"`
	Samples    []any               `json:"samples"`
	Counters   map[string]int64    `json:"counters"`
	Violations []Violation         `json:"violations"`
	Inconcl    map[string]int64    `json:"inconclusive"`
	Extra      map[string]any      `json:"extra"`
	KnownHits  map[string]int64    `json:"known_hits"`
	KnownWhat  map[string]string   `json:"known_what"`
	Sets       map[string][]string `json:"sets,omitempty"`
}

// ChildDump serialises everything recorded so far (child side).
func (c *Ctx) ChildDump(path string) error {
	c.mu.Lock()
	defer c.mu.Unlock()
	r := ChildResult{Evals: c.evals, Samples: c.samples, Counters: c.counters, Violations: c.unknown,
		Inconcl: c.inconclWhy, Extra: c.extra, KnownHits: c.knownHits, KnownWhat: c.knownWhat}
	for k := range c.nontrivial {
		r.Nontrivial = append(r.Nontrivial, k)
	}
	if len(c.sets) > 0 {
		r.Sets = map[string][]string{}
		for n, m := range c.sets {
			for k := range m {
				r.Sets[n] = append(r.Sets[n], k)
			}
		}
	}
	b, err := json.Marshal(r)
	if err != nil {
		return err
	}
	return os.WriteFile(path, b, 0o644)
}

// Merge folds a child's result into the parent context.
func (c *Ctx) Merge(r *ChildResult) {
	c.mu.Lock()
	c.evals += r.Evals
	for _, k := range r.Nontrivial {
		c.nontrivial[k] = struct{}{}
	}
	for _, s := range r.Samples {
		if len(c.samples) < 5 {
			c.samples = append(c.samples, s)
		}
	}
	for k, v := range r.Counters {
		if len(k) > 4 && k[:4] == "max." {
			if v > c.counters[k] {
				c.counters[k] = v
			}
		} else {
			c.counters[k] += v
		}
	}
	for k, v := range r.Inconcl {
		c.inconcl += v
		c.inconclWhy[k] += v
	}
	for n, ks := range r.Sets {
		m := c.sets[n]
		if m == nil {
			m = map[string]struct{}{}
			c.sets[n] = m
		}
		for _, k := range ks {
			m[k] = struct{}{}
		}
	}
	for k, v := range r.KnownHits {
		c.knownHits[k] += v
		c.knownWhat[k] = r.KnownWhat[k]
	}
	c.mu.Unlock()
	for _, v := range r.Violations {
		c.Violate(v)
	}
}

// Finish writes the evidence file, prints KNOWN-FINDING lines and returns the exit code.
func (c *Ctx) Finish() int {
	c.ScanRaceLogs()
	c.mu.Lock()
	defer c.mu.Unlock()
	ids := make([]string, 0, len(c.knownHits))
	for id := range c.knownHits {
		ids = append(ids, id)
	}
	sort.Strings(ids)
	for _, id := range ids {
		fmt.Printf("KNOWN-FINDING: property=%s %s [%s, observed %d times]\n", c.Prop, c.knownWhat[id], id, c.knownHits[id])
	}
	for n, m := range c.sets {
		c.counters["distinct."+n] = int64(len(m))
	}
	wall := time.Since(c.start).Seconds()
	cov := map[string]any{
		"evaluations":         c.evals,
		"distinct_nontrivial": len(c.nontrivial),
		"rule":                c.rule,
		"samples":             c.samples,
		"counters":            c.counters,
		"inconclusive":        c.inconcl,
		"inconclusive_why":    c.inconclWhy,
		"known_findings_hit":  c.knownHits,
	}
	if c.exhaustive {
		cov["exhaustive"] = true
	}
	for k, v := range c.extra {
		cov[k] = v
	}
	if len(c.samples) == 0 {
		cov["samples"] = []any{"(no sample recorded)"}
	}
	ev := map[string]any{
		"property_id": c.Prop,
		"tier":        map[bool]string{true: "quick", false: "thorough"}[c.Quick()],
		"seed":        c.Seed,
		"level":       "exploration",
		"coverage":    cov,
		"assumptions": c.assume,
		"wall_s":      wall,
		"violations":  len(c.unknown),
	}
	if c.Replay == "" {
		b, _ := json.MarshalIndent(ev, "", " ")
		dir := filepath.Join(Root(), "evidence")
		_ = os.MkdirAll(dir, 0o755)
		tmp := filepath.Join(dir, c.Prop+".json.tmp")
		if err := os.WriteFile(tmp, b, 0o644); err == nil {
			_ = os.Rename(tmp, filepath.Join(dir, c.Prop+".json"))
		}
	}
	ck := make([]string, 0, len(c.counters))
	for k := range c.counters {
		ck = append(ck, k)
	}
	sort.Strings(ck)
	fmt.Printf("%s %s seed=%d: evaluations=%d distinct_nontrivial=%d violations=%d known=%d inconclusive=%d wall=%.1fs\n",
		c.Prop, c.Tier, c.Seed, c.evals, len(c.nontrivial), len(c.unknown), len(c.knownHits), c.inconcl, wall)
	for _, k := range ck {
		fmt.Printf("  %-40s %d\n", k, c.counters[k])
	}
	for k, v := range c.inconclWhy {
		fmt.Printf("  inconclusive[%s] = %d\n", k, v)
	}
	if len(c.unknown) > 0 {
		if len(c.unknown) > 25 {
			fmt.Printf("  (%d further violations not printed)\n", len(c.unknown)-25)
		}
		return 1
	}
	if c.Replay != "" {
		return 0
	}
	if c.evals == 0 || len(c.nontrivial) < 2 {
		fmt.Printf("INCONCLUSIVE property=%s: the monitors observed too little (evaluations=%d, distinct=%d)\n", c.Prop, c.evals, len(c.nontrivial))
		return 2
	}
	return 0
}

// Cases runs the n cases of a named case stream on the given number of workers; case i gets the
// PRNG Rng(stream, i).  In replay mode only the referenced case of the referenced stream runs.
func (c *Ctx) Cases(stream string, n, workers int, fn func(i int, r *rand.Rand)) {
	if c.Replay != "" {
		if c.Ref.Stream == stream {
			fn(c.Ref.Index, c.Rng(stream, c.Ref.Index))
		}
		return
	}
	Parallel(n, workers, func(i int) { fn(i, c.Rng(stream, i)) })
}

// Parallel runs fn(i) for i in [0,n) on the given number of workers.
func Parallel(n, workers int, fn func(i int)) {
	if workers < 1 {
		workers = 1
	}
	var next int64 = -1
	var wg sync.WaitGroup
	for w := 0; w < workers; w++ {
		wg.Add(1)
		go func() {
			defer wg.Done()
			for {
				i := int(atomic.AddInt64(&next, 1))
				if i >= n {
					return
				}
				fn(i)
			}
		}()
	}
	wg.Wait()
}

// EnvInt reads an integer environment variable.
func EnvInt(name string, def int64) int64 {
	if s := os.Getenv(name); s != "" {
		if v, err := strconv.ParseInt(s, 10, 64); err == nil {
			return v
		}
	}
	return def
}

// J renders v as compact JSON (for details and signatures).
func J(v any) string {
	b, err := json.Marshal(v)
	if err != nil {
		return fmt.Sprintf("%#v", v)
	}
	return string(b)
}
