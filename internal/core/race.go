package core

import (
	"os"
	"path/filepath"
	"regexp"
	"sort"
	"strings"
)

var frameRe = regexp.MustCompile(`(?m)^  (\S+)\(\)\s*$`)

// RaceReport is one de-duplicated data-race report.
type RaceReport struct {
	Pair  string `json:"pair"` // the two innermost streamsql frames, line numbers stripped
	Count int    `json:"count"`
	Text  string `json:"text"`
}

// ParseRaceLogs reads every file matching prefix.* and returns the reports that touch streamsql
// frames (de-duplicated by frame pair) and the number of reports that do not (harness-only).
func ParseRaceLogs(prefix string) (reports []RaceReport, foreign int) {
	files, _ := filepath.Glob(prefix + ".*")
	byPair := map[string]*RaceReport{}
	for _, f := range files {
		b, err := os.ReadFile(f)
		if err != nil {
			continue
		}
		blocks := strings.Split(string(b), "WARNING: DATA RACE")
		for _, blk := range blocks[1:] {
			if i := strings.Index(blk, "=================="); i >= 0 {
				blk = blk[:i]
			}
			// split into the two access stacks (first two paragraphs)
			paras := strings.Split(blk, "\n\n")
			var tops []string
			for _, p := range paras {
				if len(tops) == 2 {
					break
				}
				if !(strings.Contains(p, "by goroutine") || strings.Contains(p, "by main goroutine")) || strings.Contains(p, "created at") {
					continue
				}
				// the accessor is the first frame that is not Go runtime / sync plumbing; the report
				// concerns the engine only if an accessor is engine code (memory touched by the engine)
				top := ""
				for _, m := range frameRe.FindAllStringSubmatch(p, -1) {
					f := m[1]
					if strings.HasPrefix(f, "runtime.") || strings.HasPrefix(f, "sync/atomic.") || strings.HasPrefix(f, "sync.") || strings.HasPrefix(f, "internal/") {
						continue
					}
					if strings.Contains(f, "github.com/rulego/streamsql") {
						top = f
					}
					break
				}
				tops = append(tops, top)
			}
			touches := false
			for _, t := range tops {
				if t != "" {
					touches = true
				}
			}
			if !touches {
				foreign++
				continue
			}
			sort.Strings(tops)
			pair := strings.Join(tops, " <-> ")
			r := byPair[pair]
			if r == nil {
				r = &RaceReport{Pair: pair, Text: "WARNING: DATA RACE" + trunc(blk, 3000)}
				byPair[pair] = r
			}
			r.Count++
		}
	}
	for _, r := range byPair {
		reports = append(reports, *r)
	}
	sort.Slice(reports, func(i, j int) bool { return reports[i].Pair < reports[j].Pair })
	return reports, foreign
}

// ScanRaceLogs turns race reports written by this process (and its children) into violations.
func (c *Ctx) ScanRaceLogs() {
	prefix := os.Getenv("VERIF_RACELOG")
	if prefix == "" || c.Child {
		return
	}
	reports, foreign := ParseRaceLogs(prefix)
	c.Count("race_reports_streamsql_distinct", int64(len(reports)))
	if foreign > 0 {
		c.Count("race_reports_harness_only", int64(foreign))
	}
	for _, r := range reports {
		c.Violate(Violation{Kind: "race", Attrs: map[string]string{"pair": r.Pair},
			Detail: "data race reported by the Go race detector (" + r.Pair + ")\n" + r.Text,
			Case:   map[string]any{"stream": "race", "index": 0, "pair": r.Pair, "count": r.Count}})
	}
}

// RaceSeen reports whether the race detector has already written a report for this run (cheap: file sizes
// only).  Workloads that hammer a racy path use it to stop early; the reports become violations in Finish.
func RaceSeen() bool {
	prefix := os.Getenv("VERIF_RACELOG")
	if prefix == "" {
		return false
	}
	files, _ := filepath.Glob(prefix + ".*")
	for _, f := range files {
		if st, err := os.Stat(f); err == nil && st.Size() > 0 {
			return true
		}
	}
	return false
}
