package core

import (
	"encoding/json"
	"fmt"
	"os"
	"os/exec"
	"path/filepath"
	"strings"
	"sync/atomic"
	"syscall"
	"time"
)

// ChildOutcome describes how an isolated batch ended.
type ChildOutcome struct {
	Result   *ChildResult
	ExitCode int
	TimedOut bool   // the watchdog fired (SIGQUIT sent)
	Log      string // tail of the child's combined output (goroutine dump on a hang, panic text, …)
	LogPath  string
}

var childSeq int64

// RunChild executes one batch in a child process (`vcheck child <prop> case out`).  The batch
// description is on disk before the child starts, its output goes to a file (pipes lose the
// goroutine dump) and a watchdog sends SIGQUIT after timeout.
func (c *Ctx) RunChild(batch any, timeout time.Duration) ChildOutcome {
	bin := os.Getenv("VERIF_BIN")
	if bin == "" {
		bin, _ = os.Executable()
	}
	n := atomic.AddInt64(&childSeq, 1)
	dir := filepath.Join(Root(), "tmp")
	_ = os.MkdirAll(dir, 0o755)
	base := filepath.Join(dir, fmt.Sprintf("%s-%d-%d", c.Prop, os.Getpid(), n))
	casePath, outPath, logPath := base+".case.json", base+".out.json", base+".log"
	b, _ := json.Marshal(batch)
	// the child needs seed and tier next to the batch payload
	var m map[string]any
	if json.Unmarshal(b, &m) == nil {
		m["seed"] = c.Seed
		m["tier"] = c.Tier
		b, _ = json.Marshal(m)
	}
	_ = os.WriteFile(casePath, b, 0o644)
	logf, _ := os.Create(logPath)
	cmd := exec.Command(bin, "child", c.Prop, casePath, outPath)
	cmd.Stdout, cmd.Stderr = logf, logf
	cmd.Env = os.Environ()
	out := ChildOutcome{LogPath: logPath}
	if err := cmd.Start(); err != nil {
		out.ExitCode = -1
		out.Log = err.Error()
		return out
	}
	done := make(chan error, 1)
	go func() { done <- cmd.Wait() }()
	select {
	case <-done:
	case <-time.After(timeout):
		out.TimedOut = true
		_ = cmd.Process.Signal(syscall.SIGQUIT)
		select {
		case <-done:
		case <-time.After(10 * time.Second):
			_ = cmd.Process.Kill()
			<-done
		}
	}
	logf.Close()
	if cmd.ProcessState != nil {
		out.ExitCode = cmd.ProcessState.ExitCode()
	}
	if lb, err := os.ReadFile(logPath); err == nil {
		s := string(lb)
		if len(s) > 20000 {
			s = s[:6000] + "\n…\n" + s[len(s)-12000:]
		}
		out.Log = s
	}
	if rb, err := os.ReadFile(outPath); err == nil {
		var r ChildResult
		if json.Unmarshal(rb, &r) == nil {
			out.Result = &r
		}
	}
	keep := out.TimedOut || out.ExitCode != 0 || out.Result == nil || strings.Contains(out.Log, "panic:") || strings.Contains(out.Log, "fatal error:")
	_ = os.Remove(outPath)
	if !keep {
		_ = os.Remove(casePath)
		_ = os.Remove(logPath)
	}
	return out
}
