//go:build verif

// Package sched is the harness side of the verif hooks compiled into /repo: PRNG-driven
// perturbation (Gosched / short sleeps) at the yield points and dispatch of observations.
package sched

import (
	"hash/fnv"
	"runtime"
	"sort"
	"strings"
	"sync"
	"sync/atomic"
	"time"

	"github.com/rulego/streamsql/utils/verifhook"
)

// Enabled reports that hooks are compiled in.
const Enabled = true

// Perturb describes how yield points are perturbed.
type Perturb struct {
	// Prob maps a point-name prefix to the probability of acting at that point.
	Prob map[string]float64
	// MaxSleep bounds the sleep chosen when the action is "sleep" (default 300µs).
	MaxSleep time.Duration
	// SleepShare is the share of actions that sleep rather than Gosched (default 0.5).
	SleepShare float64
}

type state struct {
	p       *Perturb
	prefixs []string
}

var (
	cur      atomic.Value // *state
	rngMu    sync.Mutex
	rngState uint64   = 0x9E3779B97F4A7C15
	hits     sync.Map // name -> *int64
	acted    int64
	obsMu    sync.RWMutex
	obs      = map[string]func(kv []any){}
	pts      atomic.Value // map[string]func()
	traceMu  sync.Mutex
	traceOn  bool
	traceH   = fnv.New64a()
	traceN   int
	once     sync.Once
)

func next() uint64 {
	rngMu.Lock()
	rngState += 0x9E3779B97F4A7C15
	z := rngState
	rngMu.Unlock()
	z = (z ^ (z >> 30)) * 0xBF58476D1CE4E5B9
	z = (z ^ (z >> 27)) * 0x94D049BB133111EB
	return z ^ (z >> 31)
}

// Seed seeds the perturbation PRNG.
func Seed(s int64) { rngMu.Lock(); rngState = uint64(s)*0x9E3779B97F4A7C15 + 1; rngMu.Unlock() }

// Install installs the process-wide hook handler (idempotent).
func Install() {
	once.Do(func() { verifhook.Set(handle) })
}

// Set activates a perturbation (nil: none).
func Set(p *Perturb) {
	Install()
	if p == nil {
		cur.Store((*state)(nil))
		return
	}
	st := &state{p: p}
	for k := range p.Prob {
		st.prefixs = append(st.prefixs, k)
	}
	sort.Slice(st.prefixs, func(i, j int) bool { return len(st.prefixs[i]) > len(st.prefixs[j]) })
	cur.Store(st)
}

// OnObserve registers fn for observations named name (nil removes).
func OnObserve(name string, fn func(kv []any)) {
	Install()
	obsMu.Lock()
	if fn == nil {
		delete(obs, name)
	} else {
		obs[name] = fn
	}
	obsMu.Unlock()
}

// OnPoint registers callbacks run at yield points (before any perturbation); call it once, before
// engine instances exist.
func OnPoint(m map[string]func()) {
	Install()
	pts.Store(m)
}

// Trace starts (true) or stops (false) hashing the sequence of point names; stopping returns the
// hash and the number of points seen.
func Trace(on bool) (uint64, int) {
	traceMu.Lock()
	defer traceMu.Unlock()
	h, n := traceH.Sum64(), traceN
	traceOn = on
	traceH = fnv.New64a()
	traceN = 0
	return h, n
}

// Hits returns the per-point hit counters.
func Hits() map[string]int64 {
	out := map[string]int64{}
	hits.Range(func(k, v any) bool { out[k.(string)] = atomic.LoadInt64(v.(*int64)); return true })
	return out
}

// Acted returns how many perturbation actions were taken.
func Acted() int64 { return atomic.LoadInt64(&acted) }

func handle(kind, name string, kv []any) {
	if kind == "observe" {
		obsMu.RLock()
		fn := obs[name]
		obsMu.RUnlock()
		if fn != nil {
			fn(kv)
		}
		return
	}
	if m, _ := pts.Load().(map[string]func()); m != nil {
		if fn := m[name]; fn != nil {
			fn()
		}
	}
	c, ok := hits.Load(name)
	if !ok {
		c, _ = hits.LoadOrStore(name, new(int64))
	}
	atomic.AddInt64(c.(*int64), 1)
	if traceOn {
		traceMu.Lock()
		if traceOn {
			traceH.Write([]byte(name))
			traceH.Write([]byte{0})
			traceN++
		}
		traceMu.Unlock()
	}
	st, _ := cur.Load().(*state)
	if st == nil {
		return
	}
	var prob float64
	for _, pre := range st.prefixs {
		if strings.HasPrefix(name, pre) {
			prob = st.p.Prob[pre]
			break
		}
	}
	if prob <= 0 {
		return
	}
	r := next()
	if float64(r>>11)/float64(1<<53) >= prob {
		return
	}
	atomic.AddInt64(&acted, 1)
	share := st.p.SleepShare
	if share == 0 {
		share = 0.5
	}
	r2 := next()
	if float64(r2>>11)/float64(1<<53) < share {
		max := st.p.MaxSleep
		if max <= 0 {
			max = 300 * time.Microsecond
		}
		time.Sleep(time.Duration(next()%uint64(max)) + time.Microsecond)
	} else {
		for i := uint64(0); i <= r2%3; i++ {
			runtime.Gosched()
		}
	}
}
