//go:build !verif

// Package sched (hooks compiled out): every function is a no-op so that the harness still builds.
package sched

import "time"

const Enabled = false

type Perturb struct {
	Prob       map[string]float64
	MaxSleep   time.Duration
	SleepShare float64
}

func Seed(int64)                       {}
func Install()                         {}
func Set(*Perturb)                     {}
func OnObserve(string, func(kv []any)) {}
func OnPoint(map[string]func())        {}
func Trace(bool) (uint64, int)         { return 0, 0 }
func Hits() map[string]int64           { return map[string]int64{} }
func Acted() int64                     { return 0 }
