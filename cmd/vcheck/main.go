// vcheck is the single driver of the /verif monitors: vcheck <Cnn> [-tier quick|thorough]
// [-seed N] [-replay file] ; vcheck child <Cnn> <casefile> <outfile> runs one isolated batch.
package main

import (
	"flag"
	"fmt"
	"os"
	"sort"

	"verif/checks"
	"verif/internal/core"
)

func main() {
	if len(os.Args) < 2 {
		usage()
	}
	if os.Args[1] == "list" {
		ids := make([]string, 0)
		for id := range checks.Registry {
			ids = append(ids, id)
		}
		sort.Strings(ids)
		for _, id := range ids {
			fmt.Println(id)
		}
		return
	}
	if os.Args[1] == "child" {
		if len(os.Args) < 5 {
			usage()
		}
		os.Exit(checks.RunChild(os.Args[2], os.Args[3], os.Args[4]))
	}
	prop := os.Args[1]
	fs := flag.NewFlagSet("vcheck", flag.ExitOnError)
	tier := fs.String("tier", envOr("VERIF_TIER", "quick"), "quick|thorough")
	seed := fs.Int64("seed", core.EnvInt("VERIF_SEED", 1), "seed")
	replay := fs.String("replay", "", "replay file")
	_ = fs.Parse(os.Args[2:])
	c, ok := checks.Registry[prop]
	if !ok {
		fmt.Fprintf(os.Stderr, "unknown property %q\n", prop)
		os.Exit(2)
	}
	var ref core.CaseRef
	if *replay != "" {
		s, t, r, err := core.ReplayRef(*replay)
		if err != nil {
			fmt.Fprintf(os.Stderr, "cannot read replay %s: %v\n", *replay, err)
			os.Exit(2)
		}
		*seed, *tier, ref = s, t, r
	}
	ctx := core.NewCtx(prop, *tier, *seed)
	ctx.Replay = *replay
	ctx.Ref = ref
	c.Run(ctx)
	os.Exit(ctx.Finish())
}

func envOr(k, d string) string {
	if v := os.Getenv(k); v != "" {
		return v
	}
	return d
}

func usage() {
	fmt.Fprintln(os.Stderr, "usage: vcheck <Cnn> [-tier quick|thorough] [-seed N] [-replay file] | vcheck list | vcheck child <Cnn> <case> <out>")
	os.Exit(2)
}
