// vcheck is the single driver of the /verif monitors: vcheck <Cnn> [-tier quick|thorough]
// [-seed N] [-replay file] ; vcheck child <Cnn> <casefile> <outfile> runs one isolated batch.
package main

import (
	"flag"
	"fmt"
	"os"
	"path/filepath"
	"runtime"
	"sort"
	"time"

	"verif/checks"
	"verif/internal/core"
)

func main() {
	if len(os.Args) < 2 {
		usage()
	}
	if os.Args[1] == "list" {
		ids := make([]string, 0)
		for id := range checks.Registry {
			ids = append(ids, id)
		}
		sort.Strings(ids)
		for _, id := range ids {
			fmt.Println(id)
		}
		return
	}
	if os.Args[1] == "child" {
		if len(os.Args) < 5 {
			usage()
		}
		os.Exit(checks.RunChild(os.Args[2], os.Args[3], os.Args[4]))
	}
	prop := os.Args[1]
	fs := flag.NewFlagSet("vcheck", flag.ExitOnError)
	tier := fs.String("tier", envOr("VERIF_TIER", "quick"), "quick|thorough")
	seed := fs.Int64("seed", core.EnvInt("VERIF_SEED", 1), "seed")
	replay := fs.String("replay", "", "replay file")
	_ = fs.Parse(os.Args[2:])
	c, ok := checks.Registry[prop]
	if !ok {
		fmt.Fprintf(os.Stderr, "unknown property %q\n", prop)
		os.Exit(2)
	}
	var ref core.CaseRef
	if *replay != "" {
		s, t, r, err := core.ReplayRef(*replay)
		if err != nil {
			fmt.Fprintf(os.Stderr, "cannot read replay %s: %v\n", *replay, err)
			os.Exit(2)
		}
		*seed, *tier, ref = s, t, r
	}
	ctx := core.NewCtx(prop, *tier, *seed)
	ctx.Replay = *replay
	ctx.Ref = ref
	// global watchdog: an engine that hangs (or crawls under a flood of race reports) must not hang the check.
	// Whatever was observed so far is reported; without a violation the run is inconclusive (exit 2).
	limit := time.Duration(core.EnvInt("VERIF_WATCHDOG_S", map[bool]int64{true: 900, false: 5400}[ctx.Quick()])) * time.Second
	go func() {
		time.Sleep(limit)
		buf := make([]byte, 8<<20)
		n := runtime.Stack(buf, true)
		dump := filepath.Join(core.Root(), "tmp", fmt.Sprintf("watchdog.%s.%d.txt", prop, os.Getpid()))
		_ = os.WriteFile(dump, buf[:n], 0o644)
		fmt.Printf("WATCHDOG: %s did not finish within %v; goroutine dump in %s\n", prop, limit, dump)
		ctx.Inconclusive("global watchdog fired")
		code := ctx.Finish()
		if code == 0 {
			code = 2
		}
		os.Exit(code)
	}()
	c.Run(ctx)
	os.Exit(ctx.Finish())
}

func envOr(k, d string) string {
	if v := os.Getenv(k); v != "" {
		return v
	}
	return d
}

func usage() {
	fmt.Fprintln(os.Stderr, "usage: vcheck <Cnn> [-tier quick|thorough] [-seed N] [-replay file] | vcheck list | vcheck child <Cnn> <case> <out>")
	os.Exit(2)
}
