package checks

import (
	"fmt"
	"math/rand"
	"os"
	"runtime"
	"sort"
	"strings"
	"time"

	"verif/internal/core"
	"verif/internal/eng"
)

// C15 — MATCH_RECOGNIZE reports exactly the valid leftmost-longest matches per partition.
//
// The real engine is driven through Execute/Emit/sync sink/Stop; the oracle is the brute-force
// reference matcher of c15_ref.go.  Per partition the delivered matches are compared, in delivery
// order, with the reference scan: at every admissible start (leftmost first, per AFTER MATCH SKIP)
// that has at least one valid non-empty match the engine must report a valid match of maximal
// length for exactly that start.  The preference order among equal-length matches is not checked.

func init() { register(&Check{ID: "C15", Run: runC15}) }

type c15Case struct {
	core.CaseRef
	SQL        string            `json:"sql"`
	Family     string            `json:"family"` // greedy | lazy
	Skip       string            `json:"skip"`
	SkipSym    string            `json:"skip_symbol,omitempty"`
	RowsPer    string            `json:"rows_per_match"`
	Pattern    string            `json:"pattern"`
	Defines    map[string]string `json:"define"`
	Within     int64             `json:"within"`                      // -1 none (engine default 1 h on ordinal timestamps), else same unit as ts
	FracWithin bool              `json:"fractional_within,omitempty"` // timestamps on a 500 ns grid, WITHIN written as n.5 US
	NParts     int               `json:"partitions"`
	PartBy     bool              `json:"partition_by"`
	Feed       string            `json:"interleaving"`
	Rows       []Row             `json:"rows"`
	spec       *c15Spec
	parts      []string
	partRows   map[string][]Row
	valid      map[string][]map[string]bool // partition -> start -> set of valid labellings
	reach      map[string][]int             // partition -> start -> furthest position of a valid partial labelling
	shape      string
	defKinds   string
	tries      int
	runBound   float64 // upper bound on the engine's simultaneous partial matches per partition (guard: 10000)
}

// ---- generator -----------------------------------------------------------------------------------

func c15GenQuant(r *rand.Rand, p *c15Pat) {
	switch r.Intn(10) {
	case 0, 1:
		p.Min, p.Max = 0, 1
	case 2, 3:
		p.Min, p.Max = 0, -1
	case 4, 5, 6:
		p.Min, p.Max = 1, -1
	case 7:
		p.Min = 1 + r.Intn(3)
		p.Max = p.Min
	case 8:
		p.Min = r.Intn(3)
		p.Max = p.Min + 1 + r.Intn(2)
	default:
		p.Min, p.Max = 2+r.Intn(2), -1
	}
}

func c15GenPat(r *rand.Rand, depth int, syms []byte, lazy bool) *c15Pat {
	lit := func() *c15Pat { return &c15Pat{Kind: "lit", Sym: pick(r, syms)} }
	if depth <= 0 {
		return lit()
	}
	x := r.Intn(100)
	switch {
	case x < 22:
		return lit()
	case x < 52:
		n := 2 + r.Intn(2)
		p := &c15Pat{Kind: "seq"}
		for i := 0; i < n; i++ {
			p.Kids = append(p.Kids, c15GenPat(r, depth-1, syms, lazy))
		}
		return p
	case x < 67:
		n := 2 + r.Intn(2)
		p := &c15Pat{Kind: "alt"}
		for i := 0; i < n; i++ {
			p.Kids = append(p.Kids, c15GenPat(r, depth-1, syms, lazy))
		}
		return p
	case x < 94:
		p := &c15Pat{Kind: "rep", Lazy: lazy}
		if r.Intn(10) < 6 {
			p.Kids = []*c15Pat{lit()}
		} else {
			p.Kids = []*c15Pat{c15GenPat(r, depth-1, syms, lazy)}
		}
		c15GenQuant(r, p)
		return p
	default:
		n := 2 + r.Intn(2)
		p := &c15Pat{Kind: "perm"}
		for i := 0; i < n; i++ {
			if r.Intn(4) == 0 {
				p.Kids = append(p.Kids, c15GenPat(r, depth-1, syms, lazy))
			} else {
				p.Kids = append(p.Kids, lit())
			}
		}
		return p
	}
}

func c15GenAtom(r *rand.Rand, sym byte, syms []byte) *c15Cond {
	field := "v"
	if r.Intn(7) == 0 {
		field = "w"
	}
	cmp := func() string { return pick(r, []string{">", "<", ">=", "<=", "==", "!=", ">", ">=", "<="}) }
	cur := c15Term{Kind: "field", Field: field}
	k := func(n int) c15Term { return c15Term{Kind: "const", K: n} }
	x := r.Intn(100)
	switch {
	case x < 44:
		return &c15Cond{Op: "cmp", Cmp: cmp(), A: cur, B: k(r.Intn(4))}
	case x < 60:
		n := 1
		if r.Intn(5) == 0 {
			n = 2
		}
		return &c15Cond{Op: "cmp", Cmp: cmp(), A: cur, B: c15Term{Kind: "prev", Field: field, N: n}}
	case x < 68:
		return &c15Cond{Op: "cmp", Cmp: cmp(), A: cur, B: c15Term{Kind: "first", Field: field}}
	case x < 71:
		return &c15Cond{Op: "cmp", Cmp: cmp(), A: c15Term{Kind: "last", Field: field}, B: c15Term{Kind: "first", Field: field}}
	case x < 79:
		return &c15Cond{Op: "cmp", Cmp: pick(r, []string{"<=", "<", "<=", ">="}), A: c15Term{Kind: "count"}, B: k(1 + r.Intn(4))}
	case x < 85:
		return &c15Cond{Op: "cmp", Cmp: pick(r, []string{"<=", "<", ">="}), A: c15Term{Kind: "sum", Field: field}, B: k(2 + r.Intn(8))}
	case x < 89:
		return &c15Cond{Op: "cmp", Cmp: pick(r, []string{"<=", ">=", "<", ">"}), A: c15Term{Kind: "avg", Field: field}, B: k(1 + r.Intn(2))}
	case x < 93:
		return &c15Cond{Op: "cmp", Cmp: pick(r, []string{"<=", "<"}), A: c15Term{Kind: "count", Field: field, Sym: sym}, B: k(1 + r.Intn(3))}
	case x < 96:
		return &c15Cond{Op: "cmp", Cmp: pick(r, []string{"<=", "<"}), A: c15Term{Kind: "sum", Field: field, Sym: sym}, B: k(2 + r.Intn(6))}
	default:
		other := pick(r, syms)
		return &c15Cond{Op: "cmp", Cmp: cmp(), A: cur, B: c15Term{Kind: "symref", Field: field, Sym: other}}
	}
}

func c15GenCond(r *rand.Rand, sym byte, syms []byte) *c15Cond {
	a := c15GenAtom(r, sym, syms)
	x := r.Intn(100)
	switch {
	case x < 60:
		return a
	case x < 80:
		return &c15Cond{Op: "and", L: a, R: c15GenAtom(r, sym, syms)}
	case x < 95:
		return &c15Cond{Op: "or", L: a, R: c15GenAtom(r, sym, syms)}
	default:
		return &c15Cond{Op: "and", L: &c15Cond{Op: "or", L: a, R: c15GenAtom(r, sym, syms)}, R: c15GenAtom(r, sym, syms)}
	}
}

// c15RandRow: most events carry both readings; some are sparse (a heartbeat without v, or without w), so a
// DEFINE condition reading the absent column must come out not-true for that event whatever was evaluated before.
// (Not when a DEFINE uses SUM/AVG: whether a running SUM over nothing but NULLs is NULL or 0 is not pinned
// down by the property, so those queries only see complete events.)
func c15RandRow(r *rand.Rand, sparse bool) Row {
	row := Row{"v": r.Intn(4), "w": r.Intn(3)}
	if !sparse {
		return row
	}
	switch r.Intn(14) {
	case 0:
		delete(row, "v")
	case 1:
		delete(row, "w")
	case 2:
		row["v"] = nil
	}
	return row
}

// c15GenPartRows draws the rows of one partition: noise rows mixed with rows steered so that a
// randomly derived pattern word is (likely) matched.
func c15GenPartRows(r *rand.Rand, spec *c15Spec, n int, guided bool) []Row {
	rows := make([]Row, 0, n)
	kinds := map[string]bool{}
	for _, d := range spec.Defs {
		d.kinds(kinds)
	}
	sparse := !kinds["sum"] && !kinds["avg"] && !kinds["sum_scoped"] && !kinds["avg_scoped"]
	for len(rows) < n {
		if !guided || r.Intn(10) < 3 {
			rows = append(rows, c15RandRow(r, sparse))
			continue
		}
		word := c15SampleWord(spec.Pat, r, nil)
		base := len(rows)
		for i, sym := range word {
			if len(rows) >= n {
				break
			}
			var row Row
			for t := 0; t < 6; t++ {
				row = c15RandRow(r, sparse)
				ctxRows := append(append([]Row{}, rows[base:]...), row)
				if spec.defineHolds(sym, ctxRows, word[:i+1]) {
					break
				}
			}
			rows = append(rows, row)
		}
	}
	return rows
}

func genC15(ref core.CaseRef, r *rand.Rand) *c15Case {
	for try := 1; ; try++ {
		c := c15GenOnce(ref, r)
		c.tries = try
		if c15Precompute(c) {
			return c
		}
		if try >= 40 {
			return nil
		}
	}
}

func c15GenOnce(ref core.CaseRef, r *rand.Rand) *c15Case {
	c := &c15Case{CaseRef: ref, Family: "greedy", Within: -1}
	if r.Intn(8) == 0 {
		c.Family = "lazy"
	}
	nv := 1 + r.Intn(4)
	syms := []byte("ABCD")[:nv]
	depth := 1 + r.Intn(3)
	var pat *c15Pat
	for {
		pat = c15GenPat(r, depth, syms, c.Family == "lazy")
		if pat.Kind != "lit" || r.Intn(4) == 0 {
			break
		}
	}
	if c.Family == "lazy" {
		has := false
		pat.walk(func(q *c15Pat) { has = has || q.Kind == "rep" })
		if !has {
			if pat.depth() >= 3 { // keep the nesting depth <= 3
				pat = &c15Pat{Kind: "lit", Sym: pick(r, syms)}
			}
			pat = &c15Pat{Kind: "rep", Kids: []*c15Pat{pat}, Min: 1, Max: -1, Lazy: true}
		}
	}
	used := map[byte]bool{}
	pat.walk(func(q *c15Pat) {
		if q.Kind == "lit" {
			used[q.Sym] = true
		}
	})
	spec := &c15Spec{Pat: pat, Defs: map[byte]*c15Cond{}, Within: -1}
	usedSyms := []byte{}
	for _, s := range syms {
		if used[s] {
			usedSyms = append(usedSyms, s)
		}
	}
	c.Defines = map[string]string{}
	kinds := map[string]bool{}
	for _, s := range usedSyms {
		if r.Intn(100) < 85 {
			cond := c15GenCond(r, s, usedSyms)
			spec.Defs[s] = cond
			c.Defines[string(s)] = cond.sql()
			cond.kinds(kinds)
		}
	}
	kl := []string{}
	for k := range kinds {
		kl = append(kl, k)
	}
	sort.Strings(kl)
	c.defKinds = strings.Join(kl, ",")
	if c.defKinds == "" {
		c.defKinds = "plain"
	}
	c.spec = spec
	c.shape = pat.shape()
	c.Pattern = pat.render(0)

	// clauses
	c.Skip = pick(r, []string{"past_last_row", "past_last_row", "past_last_row", "default", "to_next_row", "to_next_row", "to_first", "to_last", "to_var"})
	if strings.HasPrefix(c.Skip, "to_") && c.Skip != "to_next_row" {
		// prefer a variable that can occur after the first row of a match (otherwise the skip target
		// is always the match's first row, which SQL:2016 treats as an error)
		later := []byte{}
		for t := 0; t < 6; t++ {
			if w := c15SampleWord(pat, r, nil); len(w) > 1 {
				later = append(later, w[1+r.Intn(len(w)-1)])
			}
		}
		if len(later) > 0 && r.Intn(5) > 0 {
			c.SkipSym = string(pick(r, later))
		} else {
			c.SkipSym = string(pick(r, usedSyms))
		}
	}
	c.RowsPer = pick(r, []string{"all", "all", "one"})
	if r.Intn(5) == 0 {
		c.Within = int64(1 + r.Intn(6))
		spec.Within = c.Within
	}

	// partitions and rows
	c.NParts = pick(r, []int{1, 1, 2, 2, 2, 3})
	c.PartBy = c.NParts > 1 || r.Intn(2) == 0
	c.parts = []string{"x", "y", "z"}[:c.NParts]
	c.partRows = map[string][]Row{}
	guided := r.Intn(10) < 7
	seqs := make([][]Row, c.NParts)
	for i := range seqs {
		n := pick(r, []int{1, 2, 3, 4, 5, 6, 7, 8, 9, 10, 11, 12, 12, 10, 8, 6})
		seqs[i] = c15GenPartRows(r, spec, n, guided)
	}
	c.Feed = pick(r, []string{"random", "random", "round_robin", "blocks"})
	if c.NParts == 1 {
		c.Feed = "single"
	}
	idx := make([]int, c.NParts)
	ts := int64(0)
	cur := 0
	for id := 1; ; id++ {
		live := []int{}
		for i := range seqs {
			if idx[i] < len(seqs[i]) {
				live = append(live, i)
			}
		}
		if len(live) == 0 {
			break
		}
		var pi int
		switch c.Feed {
		case "round_robin":
			for {
				cur = (cur + 1) % c.NParts
				if idx[cur] < len(seqs[cur]) {
					break
				}
			}
			pi = cur
		case "blocks":
			if idx[cur] >= len(seqs[cur]) || r.Intn(3) == 0 {
				cur = pick(r, live)
			}
			pi = cur
		default:
			pi = pick(r, live)
		}
		row := seqs[pi][idx[pi]]
		idx[pi]++
		if c.Within >= 0 {
			ts += int64(r.Intn(3))
			if ts == 0 {
				ts = 1
			}
		} else {
			ts++
		}
		row["id"] = id
		row["p"] = c.parts[pi]
		row["ts"] = int(ts)
		c.Rows = append(c.Rows, row)
		c.partRows[c.parts[pi]] = append(c.partRows[c.parts[pi]], row)
	}

	if c.Within >= 0 && r.Intn(3) == 0 {
		// the same case on a 500 ns grid, so that WITHIN can be written as a fractional number of microseconds
		// (1.5 US = 1500 ns = three steps)
		c.FracWithin = true
		for _, row := range c.Rows {
			row["ts"] = row["ts"].(int) * 500
		}
		c.Within *= 500
		spec.Within = c.Within
	}

	// SQL
	var sb strings.Builder
	sb.WriteString("SELECT * FROM stream MATCH_RECOGNIZE (")
	if c.PartBy {
		sb.WriteString("PARTITION BY p ")
	}
	sb.WriteString("ORDER BY ts MEASURES ")
	if c.RowsPer == "all" {
		sb.WriteString("CLASSIFIER() AS cls, MATCH_NUMBER() AS mn, COUNT(*) AS rc, FIRST(id) AS f, LAST(id) AS l ALL ROWS PER MATCH ")
	} else {
		sb.WriteString("FIRST(id) AS f, LAST(id) AS l, COUNT(*) AS c, MATCH_NUMBER() AS mn, FIRST(p) AS pk, SUM(v) AS sv")
		if c.SkipSym != "" {
			fmt.Fprintf(&sb, ", MIN(%s.id) AS xf, MAX(%s.id) AS xl", c.SkipSym, c.SkipSym)
		}
		if r.Intn(2) == 0 {
			sb.WriteString(" ONE ROW PER MATCH ")
		} else {
			sb.WriteString(" ") // ONE ROW PER MATCH is the default
		}
	}
	switch c.Skip {
	case "past_last_row":
		sb.WriteString("AFTER MATCH SKIP PAST LAST ROW ")
	case "to_next_row":
		sb.WriteString("AFTER MATCH SKIP TO NEXT ROW ")
	case "to_first":
		sb.WriteString("AFTER MATCH SKIP TO FIRST " + c.SkipSym + " ")
	case "to_last":
		sb.WriteString("AFTER MATCH SKIP TO LAST " + c.SkipSym + " ")
	case "to_var":
		sb.WriteString("AFTER MATCH SKIP TO " + c.SkipSym + " ")
	}
	sb.WriteString("PATTERN (" + c.Pattern + ")")
	if c.Within >= 0 && c.FracWithin {
		fmt.Fprintf(&sb, " WITHIN %g US", float64(c.Within)/1000)
	} else if c.Within >= 0 {
		if r.Intn(2) == 0 {
			fmt.Fprintf(&sb, " WITHIN %d NS", c.Within)
		} else {
			fmt.Fprintf(&sb, " WITHIN '%dns'", c.Within)
		}
	}
	if len(c.Defines) > 0 {
		ds := []string{}
		for _, s := range usedSyms {
			if d, ok := c.Defines[string(s)]; ok {
				ds = append(ds, string(s)+" AS "+d)
			}
		}
		sb.WriteString(" DEFINE " + strings.Join(ds, ", "))
	}
	sb.WriteString(")")
	c.SQL = sb.String()
	return c
}

// c15Precompute enumerates the valid labellings of every start of every partition.  Cases whose
// enumeration is too large (which would also bring the engine near its run-count guard, which
// cannot be observed from outside) are rejected and redrawn.
func c15Precompute(c *c15Case) bool {
	c.valid = map[string][]map[string]bool{}
	c.reach = map[string][]int{}
	for _, p := range c.parts {
		rows := c.partRows[p]
		total := 0
		vs := make([]map[string]bool, len(rows))
		rs := make([]int, len(rows))
		for s := range rows {
			set, steps, reach, ok := c.spec.validFrom(rows, s, 3000)
			total += steps
			if !ok || total > 3000 || len(set) > 400 {
				return false
			}
			vs[s] = set
			rs[s] = reach
		}
		c.valid[p] = vs
		c.reach[p] = rs
		b, ok := c.spec.c15RunBound(rows)
		if !ok || b > 2000 {
			return false
		}
		if b > c.runBound {
			c.runBound = b
		}
	}
	return true
}

// ---- engine driver -------------------------------------------------------------------------------

type c15Run struct {
	dels    []eng.Delivery
	preStop int // deliveries recorded before Stop was called
	err     error
	incon   string
	panic   string
}

func c15Drive(sql string, rows []Row) (res c15Run) {
	defer func() {
		if r := recover(); r != nil {
			res.panic = fmt.Sprint(r)
		}
	}()
	s, err := eng.New(sql, eng.Opts{})
	if err != nil {
		res.err = err
		return
	}
	rec := eng.Attach(s)
	stopped := false
	stop := func() bool {
		if stopped {
			return true
		}
		stopped = true
		done := make(chan string, 1)
		go func() {
			defer func() {
				if r := recover(); r != nil {
					done <- fmt.Sprint("PANIC in Stop: ", r)
					return
				}
				done <- ""
			}()
			s.Stop()
		}()
		select {
		case msg := <-done:
			if msg != "" {
				res.panic = msg
			}
			return true
		case <-time.After(60 * time.Second):
			res.incon = "Stop watchdog (60 s)"
			return false
		}
	}
	defer stop()
	for _, row := range rows {
		cp := make(Row, len(row))
		for k, v := range row {
			cp[k] = v
		}
		rec.Emit(cp)
	}
	// every emitted row must have been taken by the processor before Stop (rows left in the input
	// channel are legitimately discarded by Stop; a row already taken is processed and joined).
	deadline := time.Now().Add(30 * time.Second)
	for s.GetStats()["data_chan_len"] != 0 {
		if time.Now().After(deadline) {
			res.incon = "input channel not drained (30 s watchdog)"
			return
		}
		time.Sleep(50 * time.Microsecond)
	}
	runtime.Gosched()
	time.Sleep(200 * time.Microsecond)
	res.preStop = rec.NDeliveries()
	if !stop() {
		return
	}
	// the flush delivery must have happened before Stop returned: snapshot immediately
	res.dels = rec.Deliveries()
	if rec.Overloaded() {
		res.incon = "engine declared overload"
	}
	return
}

// c15EM is one match as reported by the engine.
type c15EM struct {
	part      string
	start     int // index in the partition's row list
	n         int
	labels    string // ALL ROWS only
	mn        int64
	xf, xl    int // ONE ROW with SKIP TO <var>: partition index of the first / last row of the variable (-1: none)
	afterStop bool
	raw       []Row
}

func (m *c15EM) String() string {
	return fmt.Sprintf("{partition %s rows[%d..%d] labels=%q mn=%d}", m.part, m.start, m.start+m.n-1, m.labels, m.mn)
}

type c15Loc struct {
	part string
	idx  int
}

type c15Fail struct {
	kind   string
	detail string
	extra  map[string]string
}

// c15Parse splits the deliveries into matches per partition; it reports matches that are not even
// runs of consecutive rows of one partition.
func c15Parse(c *c15Case, run c15Run, loc map[int]c15Loc) (per map[string][]*c15EM, fails []c15Fail) {
	per = map[string][]*c15EM{}
	fail := func(kind, detail string) { fails = append(fails, c15Fail{kind: kind, detail: detail}) }
	if c.RowsPer == "one" {
		for _, d := range run.dels {
			for _, out := range d.Rows {
				f, okf := toI(out["f"])
				l, okl := toI(out["l"])
				cnt, okc := toI(out["c"])
				mn, okm := toI(out["mn"])
				if !okf || !okl || !okc || !okm {
					fail("measures.malformed", fmt.Sprintf("ONE ROW PER MATCH output lacks numeric f/l/c/mn: %s", core.J(out)))
					continue
				}
				lf, ok1 := loc[int(f)]
				ll, ok2 := loc[int(l)]
				if !ok1 || !ok2 {
					fail("match.invalid.unknown_row", fmt.Sprintf("FIRST(id)/LAST(id) name rows that were never emitted: %s", core.J(out)))
					continue
				}
				pk := lf.part
				if c.PartBy {
					if s, ok := out["pk"].(string); !ok || s != lf.part {
						fail("measures.wrong", fmt.Sprintf("FIRST(p)=%v but row id %d belongs to partition %q: %s", out["pk"], f, lf.part, core.J(out)))
						continue
					}
				}
				if c.PartBy && ll.part != lf.part {
					fail("match.invalid.foreign_partition", fmt.Sprintf("match spans partitions %q and %q: %s", lf.part, ll.part, core.J(out)))
					continue
				}
				if !c.PartBy {
					pk = c.parts[0]
				}
				if int64(ll.idx-lf.idx+1) != cnt || cnt < 1 {
					fail("match.invalid.not_consecutive", fmt.Sprintf("partition %q: FIRST(id)=%d (row #%d) LAST(id)=%d (row #%d) but COUNT(*)=%d — not a run of consecutive partition rows: %s", pk, f, lf.idx, l, ll.idx, cnt, core.J(out)))
					continue
				}
				sum := 0.0
				for _, rr := range c.partRows[pk][lf.idx : ll.idx+1] {
					x, _ := toF(rr["v"])
					sum += x
				}
				if !numEq(out["sv"], sum) {
					fail("measures.wrong", fmt.Sprintf("SUM(v)=%v over rows id %d..%d, expected %v: %s", out["sv"], f, l, sum, core.J(out)))
					continue
				}
				em := &c15EM{part: pk, start: lf.idx, n: int(cnt), mn: mn, xf: -1, xl: -1, afterStop: d.Index >= run.preStop, raw: []Row{out}}
				if c.SkipSym != "" {
					bad := false
					for _, key := range []string{"xf", "xl"} {
						if out[key] == nil {
							continue
						}
						id, ok := toI(out[key])
						lx, ok2 := loc[int(id)]
						if !ok || !ok2 || lx.part != pk || lx.idx < lf.idx || lx.idx > ll.idx {
							fail("measures.wrong", fmt.Sprintf("MIN/MAX(%s.id)=%v is not a row of the match %d..%d: %s", c.SkipSym, out[key], f, l, core.J(out)))
							bad = true
							break
						}
						if key == "xf" {
							em.xf = lx.idx
						} else {
							em.xl = lx.idx
						}
					}
					if bad {
						continue
					}
				}
				per[pk] = append(per[pk], em)
			}
		}
		return
	}
	// ALL ROWS PER MATCH: a new match begins with every delivery, partition change, MATCH_NUMBER
	// change or non-increasing id.
	var groups []*c15EM
	var idxs [][]int
	for _, d := range run.dels {
		var cur *c15EM
		var lastID int64
		for _, out := range d.Rows {
			id, okid := toI(out["id"])
			mn, okm := toI(out["mn"])
			cls, okc := out["cls"].(string)
			lc, okl := loc[int(id)]
			if !okid || !okm || !okc || len(cls) != 1 {
				fail("measures.malformed", fmt.Sprintf("ALL ROWS PER MATCH output row lacks id/mn/CLASSIFIER(): %s", core.J(out)))
				cur = nil
				continue
			}
			if !okl {
				fail("match.invalid.unknown_row", fmt.Sprintf("output row id %d was never emitted: %s", id, core.J(out)))
				cur = nil
				continue
			}
			if cur == nil || cur.part != lc.part || cur.mn != mn || id <= lastID {
				cur = &c15EM{part: lc.part, start: lc.idx, mn: mn, xf: -1, xl: -1, afterStop: d.Index >= run.preStop}
				groups = append(groups, cur)
				idxs = append(idxs, nil)
			}
			cur.n++
			cur.labels += cls
			cur.raw = append(cur.raw, out)
			idxs[len(idxs)-1] = append(idxs[len(idxs)-1], lc.idx)
			lastID = id
		}
	}
	for gi, g := range groups {
		ok := true
		for i, x := range idxs[gi] {
			if x != g.start+i {
				ok = false
			}
		}
		if !ok {
			fail("match.invalid.not_consecutive", fmt.Sprintf("partition %q match_number %d: the delivered rows are partition rows #%v (ids %v) — not a run of consecutive rows of the partition", g.part, g.mn, idxs[gi], c15OutIDs(g.raw)))
			continue
		}
		per[g.part] = append(per[g.part], g)
	}
	return
}

func c15OutIDs(rows []Row) []int64 {
	out := make([]int64, len(rows))
	for i, r := range rows {
		out[i], _ = toI(r["id"])
	}
	return out
}

// ---- oracle --------------------------------------------------------------------------------------

func (c *c15Case) attrs() map[string]string {
	w := "generous"
	if c.Within >= 0 {
		w = "tight"
	}
	pp := "single"
	if c.NParts > 1 {
		pp = "interleaved"
	}
	skip := c.Skip
	if skip == "default" {
		skip = "past_last_row"
	}
	return map[string]string{"skip": skip, "rows_per_match": c.RowsPer, "partitions": pp, "within": w,
		"quantifiers": c.Family, "pattern_shape": c.shape, "define_kinds": c.defKinds}
}

func c15Longest(set map[string]bool) (best string, n int) {
	keys := make([]string, 0, len(set))
	for k := range set {
		keys = append(keys, k)
	}
	sort.Strings(keys)
	for _, k := range keys {
		if len(k) > n {
			best, n = k, len(k)
		}
	}
	return
}

func c15IDs(rows []Row) []int {
	out := make([]int, len(rows))
	for i, r := range rows {
		out[i] = r["id"].(int)
	}
	return out
}

// c15CheckMatch checks one reported match for validity (consecutive rows were checked by the parser).
func c15CheckMatch(c *c15Case, m *c15EM) *c15Fail {
	rows := c.partRows[m.part]
	if m.start+m.n > len(rows) {
		return &c15Fail{kind: "match.invalid.not_consecutive", detail: fmt.Sprintf("%v runs past the partition's rows", m)}
	}
	run := rows[m.start : m.start+m.n]
	ids := c15IDs(run)
	if c.Within >= 0 && c15Ts(run[len(run)-1])-c15Ts(run[0]) > c.Within {
		return &c15Fail{kind: "match.invalid.exceeds_within", detail: fmt.Sprintf("%v (ids %v): ts %d..%d spans more than WITHIN %d", m, ids, c15Ts(run[0]), c15Ts(run[len(run)-1]), c.Within)}
	}
	if c.RowsPer == "all" {
		is, ok := c.spec.isWord(m.labels)
		if ok && !is {
			return &c15Fail{kind: "match.invalid.not_pattern_word", detail: fmt.Sprintf("%v (ids %v): the classification %q is not a word of PATTERN (%s)", m, ids, m.labels, c.Pattern)}
		}
		for i := range m.labels {
			if !c.spec.defineHolds(m.labels[i], run[:i+1], []byte(m.labels[:i+1])) {
				return &c15Fail{kind: "match.invalid.define_false", detail: fmt.Sprintf("%v (ids %v): row id %d is classified %c but DEFINE %c AS %s does not hold for it given the match so far (rows %s)",
					m, ids, ids[i], m.labels[i], m.labels[i], c.Defines[string(m.labels[i])], core.J(run[:i+1]))}
			}
		}
		// running measures
		for i, out := range m.raw {
			if !numEq(out["rc"], i+1) || !numEq(out["f"], ids[0]) || !numEq(out["l"], ids[i]) {
				return &c15Fail{kind: "measures.wrong", detail: fmt.Sprintf("%v (ids %v): row %d has running COUNT(*)=%v FIRST(id)=%v LAST(id)=%v, expected %d, %d, %d", m, ids, i, out["rc"], out["f"], out["l"], i+1, ids[0], ids[i])}
			}
			if !valEq(out["p"], run[i]["p"]) || !numEq(out["v"], run[i]["v"]) {
				return &c15Fail{kind: "measures.wrong", detail: fmt.Sprintf("%v: output row %s does not carry the input row's fields %s", m, core.J(out), core.J(run[i]))}
			}
		}
		return nil
	}
	// ONE ROW: some valid labelling of exactly this run must exist (and agree with MIN/MAX(var.id))
	for lab := range c.valid[m.part][m.start] {
		if len(lab) != m.n {
			continue
		}
		if c.SkipSym != "" {
			xf, xl := strings.IndexByte(lab, c.SkipSym[0]), strings.LastIndexByte(lab, c.SkipSym[0])
			if xf >= 0 {
				xf, xl = xf+m.start, xl+m.start
			}
			if xf != m.xf || xl != m.xl {
				continue
			}
		}
		return nil
	}
	return &c15Fail{kind: "match.invalid.no_valid_labelling", detail: fmt.Sprintf("%v (ids %v, MIN/MAX(%s.id) rows %d/%d): no labelling of exactly these rows spells a PATTERN word with every DEFINE true and within WITHIN; valid labellings from this start: %v",
		m, ids, c.SkipSym, m.xf, m.xl, c15Keys(c.valid[m.part][m.start]))}
}

func c15Keys(set map[string]bool) []string {
	out := make([]string, 0, len(set))
	for k := range set {
		out = append(out, k)
	}
	sort.Strings(out)
	if len(out) > 12 {
		out = append(out[:12], "…")
	}
	return out
}

type c15Stats struct {
	expected, reported, longestChecked, flushMatches, openSkip, ambiguous int
	maxLen                                                                int
	lazyShortest, lazyNotShortest                                         int
}

// c15CheckPartition compares the delivered matches of one partition with the reference scan.
func c15CheckPartition(c *c15Case, part string, ems []*c15EM, st *c15Stats) *c15Fail {
	rows := c.partRows[part]
	valid := c.valid[part]
	n := len(rows)
	for _, m := range ems {
		if f := c15CheckMatch(c, m); f != nil {
			return f
		}
	}
	nextExp := func(pos int) int {
		for s := pos; s < n; s++ {
			if len(valid[s]) > 0 {
				return s
			}
		}
		return n
	}
	jumpPos := -1
	omitted := func(exp int, next *c15EM, jumped bool) *c15Fail {
		best, bl := c15Longest(valid[exp])
		ex := map[string]string{"where": "mid_stream", "preempted_by_later_start": "no", "start_is_skip_target": "no", "dead_end_extension": "no"}
		if c.reach[part][exp] > exp+bl {
			ex["dead_end_extension"] = "yes" // a valid partial labelling runs past the longest complete match
		}
		if exp+bl == n {
			ex["where"] = "stream_end"
		}
		if jumped {
			ex["start_is_skip_target"] = "yes"
		}
		if c.Within >= 0 && exp+bl < n && c15Ts(rows[exp+bl])-c15Ts(rows[exp]) > c.Within {
			ex["cut_by_within"] = "yes" // the row after the longest match lies outside WITHIN of its first row
		} else {
			ex["cut_by_within"] = "no"
		}
		kind := "match.omitted"
		if jumped && exp == jumpPos {
			kind = "skip.target_row_not_restart" // SKIP TO FIRST/LAST <var>: matching must resume AT the variable's row
		} else if next == nil && exp+bl == n && c.spec.extendable(best) {
			// the longest match runs to the end of the stream and its word can still be extended: only
			// the flush at Stop can deliver it
			kind = "flush.unfinished_run_not_delivered"
		}
		what := "no further match was delivered for this partition (Stop had returned)"
		if next != nil {
			what = fmt.Sprintf("the next delivered match is %v", next)
			if next.start < exp+bl {
				ex["preempted_by_later_start"] = "yes"
			}
		}
		return &c15Fail{kind: kind, extra: ex, detail: fmt.Sprintf("partition %q: start row #%d (id %d) is admissible and has the valid match %q (ids %v) of length %d, but %s",
			part, exp, rows[exp]["id"], best, c15IDs(rows[exp:exp+bl]), bl, what)}
	}
	pos, strict, jumped := 0, true, false
	prevEnd := -1
	for j, m := range ems {
		if m.mn != int64(j+1) {
			return &c15Fail{kind: "match_number.wrong", detail: fmt.Sprintf("partition %q: delivered match #%d %v carries MATCH_NUMBER()=%d", part, j+1, m, m.mn)}
		}
		if !strict {
			continue
		}
		exp := nextExp(pos)
		if m.start < pos {
			kind := "skip.start_not_admissible"
			if (c.Skip == "past_last_row" || c.Skip == "default") && m.start <= prevEnd {
				kind = "skip.shared_rows"
			}
			return &c15Fail{kind: kind, detail: fmt.Sprintf("partition %q: match %v (ids %v) starts at partition row #%d but after the previous match (rows ..#%d) AFTER MATCH SKIP %s allows the next start only from row #%d on",
				part, m, c15IDs(rows[m.start:m.start+m.n]), m.start, prevEnd, c.Skip, pos)}
		}
		if m.start > exp {
			return omitted(exp, m, jumped)
		}
		// m.start == exp (m.start in [pos,exp) is impossible for a valid match)
		_, maxLen := c15Longest(valid[exp])
		st.expected++
		if maxLen > st.maxLen {
			st.maxLen = maxLen
		}
		nMax := 0
		for lab := range valid[exp] {
			if len(lab) == maxLen {
				nMax++
			}
		}
		if nMax > 1 {
			st.ambiguous++
		}
		if c.Family == "lazy" {
			minLen := maxLen
			for lab := range valid[exp] {
				if len(lab) < minLen {
					minLen = len(lab)
				}
			}
			if m.n == minLen {
				st.lazyShortest++
			} else {
				st.lazyNotShortest++
			}
		}
		if c.Family == "greedy" {
			st.longestChecked++
			if m.n < maxLen {
				best, _ := c15Longest(valid[exp])
				ex := map[string]string{"dead_end_extension": "no", "cut_by_within": "no"}
				if c.reach[part][exp] > exp+maxLen {
					ex["dead_end_extension"] = "yes"
				}
				if c.Within >= 0 && exp+maxLen < n && c15Ts(rows[exp+maxLen])-c15Ts(rows[exp]) > c.Within {
					ex["cut_by_within"] = "yes"
				}
				return &c15Fail{kind: "match.not_longest", extra: ex, detail: fmt.Sprintf("partition %q start row #%d (id %d): delivered %v has %d rows, but the valid match %q (ids %v) has %d",
					part, exp, rows[exp]["id"], m, m.n, best, c15IDs(rows[exp:exp+maxLen]), maxLen)}
			}
		}
		prevEnd = m.start + m.n - 1
		jumped = false
		switch c.Skip {
		case "past_last_row", "default":
			pos = m.start + m.n
		case "to_next_row":
			pos = m.start + 1
		default:
			t := -1
			if c.RowsPer == "all" {
				if c.Skip == "to_first" {
					t = strings.IndexByte(m.labels, c.SkipSym[0])
				} else {
					t = strings.LastIndexByte(m.labels, c.SkipSym[0])
				}
				if t >= 0 {
					t += m.start
				}
			} else if c.Skip == "to_first" {
				t = m.xf
			} else {
				t = m.xl
			}
			if t <= m.start {
				// variable absent from the match, or mapped to its first row: SQL:2016 raises an error
				// here; the statement leaves the continuation open ⇒ only validity/MATCH_NUMBER from now on
				strict = false
				st.openSkip++
			} else {
				pos = t
				jumped = true
				jumpPos = t
			}
		}
	}
	if strict {
		if exp := nextExp(pos); exp < n {
			return omitted(exp, nil, jumped)
		}
	}
	return nil
}

// c15IsoDiff compares partition p's matches of the interleaved run (a) with those of the solo run
// (b) by (MATCH_NUMBER, first row, length).  The engine's choice among equal-length labellings is
// not deterministic (and not constrained by the property); under SKIP TO <variable> a different
// choice legitimately changes the later starts, so the comparison stops there.
func c15IsoDiff(c *c15Case, a, b []*c15EM) string {
	varSkip := c.SkipSym != ""
	for i := 0; i < len(a) || i < len(b); i++ {
		if i >= len(a) {
			return fmt.Sprintf("match #%d %v is missing from the interleaved run", i+1, b[i])
		}
		if i >= len(b) {
			return fmt.Sprintf("match #%d %v appears only in the interleaved run", i+1, a[i])
		}
		if a[i].mn != b[i].mn || a[i].start != b[i].start || a[i].n != b[i].n {
			return fmt.Sprintf("match #%d is %v interleaved but %v alone", i+1, a[i], b[i])
		}
		if varSkip && (a[i].labels != b[i].labels || a[i].xf != b[i].xf || a[i].xl != b[i].xl) {
			return ""
		}
	}
	return ""
}

func c15Norm(ems []*c15EM) []string {
	out := make([]string, len(ems))
	for i, m := range ems {
		out[i] = fmt.Sprintf("mn=%d rows#%d..#%d labels=%s xf=%d xl=%d", m.mn, m.start, m.start+m.n-1, m.labels, m.xf, m.xl)
	}
	return out
}

func runC15(ctx *core.Ctx) {
	ctx.SetRule("case = (pattern AST of depth<=3 over <=4 variables, DEFINE conditions, SKIP mode, ROWS PER MATCH mode, optional tight WITHIN, 1-3 interleaved partitions of <=12 rows) drawn from PRNG(seed,index); " +
		"non-trivial = the reference expects and the engine delivered at least one match, and some match has >=2 rows or there are >=2 matches; distinct by (SQL, rows) hash")
	ctx.Assume("timestamps are small ordinals (<1e9) so that WITHIN is compared in the same unit and the wall-clock sweeper never fires",
		"the engine's run-count/row-count/partition guards (10000 each) cannot be observed through the public API; cases whose path count through the unrolled pattern's position automaton (an upper bound on the engine's partial matches per partition) exceeds 2000 are redrawn, so the guards cannot be reached",
		"empty matches are not considered matches; after SKIP TO FIRST/LAST <var> whose target is the match's first row or absent (an error in SQL:2016) only validity and MATCH_NUMBER are checked for the rest of that partition",
		"the preference order among equal-length matches is not checked; for reluctant quantifiers the length clause is not checked")
	n := ctx.N(3000, 150000)
	ctx.Cases("c15", n, workers(), func(i int, r *rand.Rand) {
		c := genC15(core.CaseRef{Stream: "c15", Index: i}, r)
		if c == nil {
			ctx.Inconclusive("no case within the enumeration budget after 40 draws")
			return
		}
		execC15(ctx, c)
	})
	c15PauseStream(ctx)
}

func execC15(ctx *core.Ctx, c *c15Case) {
	attrs := c.attrs()
	reported := map[string]bool{}
	// fed: "single" when the failing execution saw one partition only (the case's, or a partition of
	// an interleaved case fed alone), "interleaved" otherwise
	viol := func(f c15Fail, fed string) {
		if reported[f.kind+"/"+fed] {
			return
		}
		reported[f.kind+"/"+fed] = true
		a := map[string]string{}
		for k, v := range attrs {
			a[k] = v
		}
		a["partitions"] = fed
		for k, v := range f.extra {
			a[k] = v
		}
		if os.Getenv("VERIF_C15_VERBOSE") != "" {
			fmt.Printf("C15V %s %v | %s | %s\n", f.kind, a, f.detail, c.SQL)
		}
		ctx.Violate(core.Violation{Kind: f.kind, Attrs: a, Detail: f.detail + "\nSQL: " + c.SQL, Case: c})
	}
	fedAll := attrs["partitions"]
	run := c15Drive(c.SQL, c.Rows)
	if run.panic != "" {
		viol(c15Fail{kind: "engine.panic", detail: run.panic}, fedAll)
		return
	}
	if run.err != nil {
		viol(c15Fail{kind: "engine.execute_error", detail: "Execute rejected a query inside the documented syntax: " + run.err.Error()}, fedAll)
		return
	}
	if run.incon != "" {
		ctx.Inconclusive(run.incon)
		return
	}
	loc := map[int]c15Loc{}
	for _, p := range c.parts {
		for i, row := range c.partRows[p] {
			loc[row["id"].(int)] = c15Loc{p, i}
		}
	}
	per, fails := c15Parse(c, run, loc)
	for _, f := range fails {
		viol(f, fedAll)
	}
	st := &c15Stats{}
	nMatches, multiRow, flushed := 0, false, 0
	for _, p := range c.parts {
		for _, m := range per[p] {
			nMatches++
			if m.n >= 2 {
				multiRow = true
			}
			if m.afterStop {
				flushed++
			}
		}
	}
	for _, p := range c.parts {
		var mainFail *c15Fail
		if len(fails) == 0 { // otherwise the split into matches is unreliable
			mainFail = c15CheckPartition(c, p, per[p], st)
		}
		if c.NParts == 1 {
			if mainFail != nil {
				viol(*mainFail, "single")
			}
			continue
		}
		// Interleaved case.  The partition is also fed alone to a fresh instance: (1) the solo output
		// is checked against the reference (a failure there is a single-partition failure with a
		// smaller input); (2) isolation: the interleaved output of p must equal the solo output; only
		// if it does not is the interleaved output's own reference failure reported as well.
		solo := c15Drive(c.SQL, c.partRows[p])
		if solo.panic != "" {
			viol(c15Fail{kind: "engine.panic", detail: solo.panic}, "single")
			continue
		}
		if solo.err != nil || solo.incon != "" {
			ctx.Inconclusive("solo run: " + solo.incon)
			continue
		}
		sper, sfails := c15Parse(c, solo, loc)
		alone := fmt.Sprintf(" [partition %q fed alone, input ids %v]", p, c15IDs(c.partRows[p]))
		if len(sfails) > 0 {
			sfails[0].detail += alone
			viol(sfails[0], "single")
			continue
		}
		if f := c15CheckPartition(c, p, sper[p], &c15Stats{}); f != nil {
			f.detail += alone
			viol(*f, "single")
		}
		ctx.Count("solo_runs_checked", 1)
		if len(fails) > 0 {
			continue
		}
		ctx.Count("isolation_comparisons", 1)
		if d := c15IsoDiff(c, per[p], sper[p]); d != "" {
			viol(c15Fail{kind: "isolation.differs", detail: fmt.Sprintf("partition %q (input ids %v): %s; interleaved run delivered %v, the partition fed alone delivered %v",
				p, c15IDs(c.partRows[p]), d, c15Norm(per[p]), c15Norm(sper[p]))}, "interleaved")
			if mainFail != nil {
				viol(*mainFail, "interleaved")
			}
		}
	}
	ctx.Count("rows_emitted", int64(len(c.Rows)))
	ctx.Count("matches_delivered", int64(nMatches))
	ctx.Count("matches_delivered_by_stop_flush", int64(flushed))
	ctx.Count("starts_compared_with_reference", int64(st.expected))
	ctx.Count("longest_clause_checked", int64(st.longestChecked))
	ctx.Count("starts_with_several_longest_labellings", int64(st.ambiguous))
	ctx.Count("open_skip_target_situations", int64(st.openSkip))
	ctx.Count("reluctant.match_is_shortest_valid(evidence_only)", int64(st.lazyShortest))
	ctx.Count("reluctant.match_is_not_shortest(evidence_only)", int64(st.lazyNotShortest))
	ctx.Count("cases."+c.Family, 1)
	ctx.Count("cases.skip."+attrs["skip"], 1)
	ctx.Count("cases.rows_per_match."+c.RowsPer, 1)
	ctx.Count("cases.within."+attrs["within"], 1)
	ctx.Count("cases.partitions."+fmt.Sprint(c.NParts), 1)
	ctx.Count("cases.redrawn", int64(c.tries-1))
	ctx.Max("max.match_len", int64(st.maxLen))
	ctx.Max("max.engine_partial_match_bound(guard_10000)", int64(c.runBound))
	nontrivial := nMatches >= 1 && st.expected >= 1 && (multiRow || nMatches >= 2)
	var sample any
	if c.Index < 4 {
		sample = map[string]any{"sql": c.SQL, "rows": len(c.Rows), "partitions": c.NParts, "matches": nMatches, "first_rows": c.Rows[:min(3, len(c.Rows))]}
	}
	ctx.Case(c.SQL+core.J(c.Rows), nontrivial, sample)
}
