package checks

import (
	"os"

	"fmt"
	"github.com/rulego/streamsql/window"
	"math/rand"
	"sort"

	"verif/internal/core"
	"verif/internal/eng"
	"verif/internal/sched"
)

// C08 — sliding windows report each slide-aligned interval with exactly its rows.

func init() { register(&Check{ID: "C08", Race: true, Run: runC08}) }

func genEvSliding(ref core.CaseRef, r *rand.Rand) *evCase {
	c := &evCase{CaseRef: ref, Kind: "sliding"}
	ss := pick(r, [][2]int64{{2000, 1000}, {3000, 1000}, {5000, 2000}, {1000, 1000}, {1000, 3000}, {4000, 1000}, {1000, 250}, {2100, 700}, {3900, 1300}, {7000, 11000}, {1300, 1300}})
	c.SizeMs, c.SlideMs = ss[0], ss[1]
	c.MooMs = pick(r, []int64{0, 0, c.SlideMs / 2, c.SizeMs, 3 * c.SizeMs})
	c.Grouped = r.Intn(3) > 0
	keys := evKeyDomain(r, c.Grouped)
	c.Pattern = pick(r, []string{"inorder", "boundary", "jitter", "jitter", "late", "early"})
	if c.MooMs == 0 && (c.Pattern == "jitter" || c.Pattern == "early") {
		c.Pattern = "late"
	}
	n := 15 + r.Intn(100)
	ts := evTimestamps(r, n, c.SlideMs, c.MooMs, c.Pattern)
	var max int64
	for i, t := range ts {
		c.Rows = append(c.Rows, evRow{ID: i + 1, TS: t, K: pick(r, keys), V: r.Intn(200) - 50})
		if t > max {
			max = t
		}
	}
	c.Feed = pick(r, []string{"burst", "burst", "paced", "step"})
	c.Tail = max + c.MooMs + 6*c.SizeMs + 6*c.SlideMs
	c.buildSQL()
	return c
}

func runC08(ctx *core.Ctx) {
	evCtx = ctx
	if os.Getenv("VERIF_ENGINE_DEBUG") != "" {
		window.EnableDebug = true // engine-side trace on stderr (diagnosis of a replayed case only)
	}
	ctx.SetRule("case = ((size,slide) incl. slide∤size, slide=size, slide>size; MAXOUTOFORDERNESS; 0-4 groups; timestamp pattern; feed mode) from PRNG(seed,index), closed by a sentinel; " +
		"non-trivial = at least 3 intervals delivered and some row covered by 2+ intervals or out-of-order/late input; distinct by (SQL, rows, feed) hash")
	ctx.Assume("single producer; block strategy", "a missing interval is declared only after a long engine-quiet wait")
	n := ctx.N(400, 25000)
	ctx.Cases("c08", n, 4*workers(), func(i int, r *rand.Rand) {
		execC08(ctx, genEvSliding(core.CaseRef{Stream: "c08", Index: i}, r))
	})
	// back-pressure: the trigger goroutine is held up by a full window output buffer while more than 100 rows
	// that each advance the watermark are ingested, then the source goes quiet: every due interval is owed
	nbp := ctx.N(2, 24)
	ctx.Cases("c08bp", nbp, 8, func(i int, r *rand.Rand) {
		ss := pick(r, [][2]int64{{2000, 1000}, {3000, 1000}, {1000, 1000}})
		c := &evCase{CaseRef: core.CaseRef{Stream: "c08bp", Index: i}, Kind: "sliding", SizeMs: ss[0], SlideMs: ss[1], Pattern: "backpressure", Feed: "burst", Grouped: r.Intn(2) == 0}
		c.WinOut = 1
		c.SinkDelayMs = 15 + r.Intn(25)
		n := 220 + r.Intn(250)
		t := int64(5000)
		for j := 1; j <= n; j++ {
			t += 40 + int64(r.Intn(120))
			c.Rows = append(c.Rows, evRow{ID: j, TS: t, K: plainKeys[r.Intn(2)], V: r.Intn(50)})
		}
		c.Tail = t + 6*c.SizeMs + 6*c.SlideMs
		c.buildSQL()
		execC08(ctx, c)
	})
	// a sliding-window source that keeps sending on-time rows which never raise the maximum timestamp is busy,
	// not idle (IDLETIMEOUT): nothing fires early, nothing is lost once it really goes idle
	ctx.Cases("c08idle", ctx.N(1, 4), 4, func(i int, r *rand.Rand) {
		execC02IdleBusy(ctx, core.CaseRef{Stream: "c08idle", Index: i}, r, "sliding")
	})
	for k, v := range sched.Hits() {
		ctx.Count("hook_hits."+k, v)
	}
	ctx.Count("perturbation_actions", sched.Acted())
}

func execC08(ctx *core.Ctx, c *evCase) {
	onTime, wmAt := evOnTime(c.Rows, c.MooMs)
	// rows that are too late by every reading of the rules: older than the watermark on arrival AND every
	// interval covering them had already ended at or before that watermark (ALLOWEDLATENESS is 0 here).  They
	// must be aggregated nowhere, however closely they follow the row that advanced the watermark.
	tooLate := map[int]int64{}
	for i, r := range c.Rows {
		if !onTime[i] && r.G == "" {
			lastStart := floorDiv(r.TS, c.SlideMs) * c.SlideMs
			if lastStart+c.SizeMs <= wmAt[i] {
				tooLate[r.ID] = wmAt[i]
			}
		}
	}
	byID := map[int]evRow{}
	minAcc := int64(1 << 62)
	nLate := 0
	for i, r := range c.Rows {
		byID[r.ID] = r
		if onTime[i] {
			if r.TS < minAcc {
				minAcc = r.TS
			}
		} else {
			nLate++
		}
	}
	s0 := floorDiv(minAcc, c.SlideMs) * c.SlideMs
	finalWM := c.Tail - c.MooMs
	// expected intervals: s ≥ s0, s ≡ 0 mod slide, containing an accepted row, end ≤ final watermark
	type exp struct{ acc, all map[string][]int } // per group
	expected := map[int64]*exp{}
	for i, r := range c.Rows {
		lo := floorDiv(r.TS-c.SizeMs, c.SlideMs)*c.SlideMs + c.SlideMs // smallest s with s > ts-size
		for s := lo; s <= r.TS; s += c.SlideMs {
			if s < s0 || s+c.SizeMs > finalWM {
				continue
			}
			e := expected[s]
			if e == nil {
				e = &exp{map[string][]int{}, map[string][]int{}}
				expected[s] = e
			}
			g := tkey(c.keyOf(r))
			e.all[g] = append(e.all[g], r.ID)
			if onTime[i] {
				e.acc[g] = append(e.acc[g], r.ID)
			}
		}
	}
	mustHave := 0
	multi := false
	for _, e := range expected {
		if len(e.acc) > 0 {
			mustHave++
		}
	}
	c.complete = func(dels []eng.Delivery) bool {
		wins, err := evDecode(dels)
		if err != nil {
			return true
		}
		type sg struct {
			s int64
			g string
		}
		got := map[sg]bool{}
		for _, w := range wins {
			got[sg{w.Start, tkey(c.keyOf(evRow{K: w.K}))}] = true
		}
		for s, e := range expected {
			for g := range e.acc {
				if !got[sg{s, g}] {
					return false
				}
			}
		}
		return true
	}
	res := c.run(mustHave)
	attrs := evShape(c)
	attrs["slide_vs_size"] = map[bool]string{true: "divides", false: "not_dividing"}[c.SizeMs%c.SlideMs == 0]
	if c.SlideMs > c.SizeMs {
		attrs["slide_vs_size"] = "slide_gt_size"
	}
	viol := func(kind, detail string) {
		ctx.Violate(core.Violation{Kind: kind, Attrs: attrs, Detail: detail + "\n  sql: " + c.SQL, Case: c})
	}
	if res.Err != nil {
		viol("sliding.execute_error", res.Err.Error())
		return
	}
	if res.Overload {
		ctx.Inconclusive("engine declared overload")
		return
	}
	wins, err := evDecode(res.Dels)
	if err != nil {
		viol("sliding.undecodable_result", err.Error())
		return
	}
	ctx.Count("deliveries_checked", int64(len(res.Dels)))
	ctx.Count("too_late_rows_watched", int64(len(tooLate)))
	ctx.Count("result_rows_checked", int64(len(wins)))
	type gk struct {
		s int64
		g string
	}
	seen := map[gk]bool{}
	firstDel := map[int64]int{}
	lastStart := int64(-1 << 62)
	lastDel := -1
	covered := map[int]int{}
	for _, w := range wins {
		if w.End-w.Start != c.SizeMs || floorDiv(w.Start, c.SlideMs)*c.SlideMs != w.Start {
			viol("sliding.misaligned", fmt.Sprintf("interval [%d,%d) is not [s,s+%d) with s a multiple of slide %d", w.Start, w.End, c.SizeMs, c.SlideMs))
			return
		}
		if w.Start < s0 {
			viol("sliding.interval_before_first", fmt.Sprintf("interval [%d,%d) starts before the slide-aligned start %d of the earliest accepted event (ts %d)", w.Start, w.End, s0, minAcc))
			return
		}
		g := tkey(c.keyOf(evRow{K: w.K}))
		if seen[gk{w.Start, g}] {
			var both []string
			for _, x := range wins {
				if x.Start == w.Start {
					both = append(both, fmt.Sprintf("delivery#%d ids=%v (Emit calls started: %d)", x.Del, x.IDs, x.Start0))
				}
			}
			viol("sliding.interval_twice", fmt.Sprintf("interval [%d,%d) group %s delivered twice (ALLOWEDLATENESS 0): %v", w.Start, w.End, g, both))
			return
		}
		seen[gk{w.Start, g}] = true
		if d, ok := firstDel[w.Start]; ok && d != w.Del {
			viol("sliding.interval_twice", fmt.Sprintf("interval [%d,%d) delivered in two batches", w.Start, w.End))
			return
		}
		firstDel[w.Start] = w.Del
		if w.Del != lastDel {
			if w.Start <= lastStart {
				viol("sliding.out_of_order", fmt.Sprintf("interval starting %d delivered after the one starting %d", w.Start, lastStart))
				return
			}
			lastStart, lastDel = w.Start, w.Del
		}
		if msg := evAggCheck(w, byID); msg != "" {
			viol("sliding.wrong_aggregate", fmt.Sprintf("interval [%d,%d) group %s: %s", w.Start, w.End, g, msg))
			return
		}
		e := expected[w.Start]
		got := sortedInts(w.IDs)
		for i := 1; i < len(got); i++ {
			if got[i] == got[i-1] {
				viol("sliding.row_counted_twice", fmt.Sprintf("id %d twice in interval [%d,%d)", got[i], w.Start, w.End))
				return
			}
		}
		for _, id := range got {
			r := byID[id]
			if r.TS < w.Start || r.TS >= w.End {
				viol("sliding.wrong_interval", fmt.Sprintf("row id=%d ts=%d reported in [%d,%d) which does not cover it", id, r.TS, w.Start, w.End))
				return
			}
			if wm, late := tooLate[id]; late {
				viol("sliding.too_late_row_aggregated", fmt.Sprintf("row id=%d ts=%d arrived when the watermark was already %d: every interval covering it had ended, yet it is aggregated in [%d,%d) (witness %v, Emit calls started at delivery: %d)", id, r.TS, wm, w.Start, w.End, got, w.Start0))
				return
			}
			if tkey(c.keyOf(r)) != g {
				viol("sliding.wrong_group", fmt.Sprintf("row id=%d group %s reported under %s", id, tkey(c.keyOf(r)), g))
				return
			}
			covered[id]++
		}
		if e == nil {
			if w.End > finalWM {
				viol("sliding.early_firing", fmt.Sprintf("interval [%d,%d) delivered although the watermark never passed its end (final watermark %d)", w.Start, w.End, finalWM))
				return
			}
			continue // only late-kept rows inside: not demanded, not forbidden
		}
		acc := sortedInts(e.acc[g])
		gotSet := map[int]bool{}
		for _, id := range got {
			gotSet[id] = true
		}
		for _, id := range acc {
			if !gotSet[id] {
				viol("sliding.row_missing_from_interval", fmt.Sprintf("accepted row id=%d ts=%d is covered by delivered interval [%d,%d) group %s but not aggregated in it (witness %v)", id, byID[id].TS, w.Start, w.End, g, got))
				return
			}
		}
	}
	for s, e := range expected {
		for g := range e.acc {
			if !seen[gk{s, g}] {
				if !res.Quiescent {
					ctx.Inconclusive("not quiescent")
					return
				}
				viol("sliding.interval_missing", fmt.Sprintf("interval [%d,%d) group %s contains accepted rows %v and the watermark (final %d) passed its end, but it was never delivered; %d deliveries seen",
					s, s+c.SizeMs, g, e.acc[g], finalWM, len(res.Dels)))
				return
			}
		}
	}
	for _, n := range covered {
		if n >= 2 {
			multi = true
		}
	}
	starts := make([]int64, 0, len(firstDel))
	for s := range firstDel {
		starts = append(starts, s)
	}
	sort.Slice(starts, func(i, j int) bool { return starts[i] < starts[j] })
	nontrivial := len(starts) >= 3 && (multi || nLate > 0)
	var sample any
	if c.Index < 3 {
		sample = evSample(c, len(res.Dels))
	}
	ctx.Case(c.SQL+core.J(c.Rows)+c.Feed, nontrivial, sample)
}
