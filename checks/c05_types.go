//go:build verif

package checks

import (
	"fmt"
	"math/rand"

	"verif/internal/core"
)

// c05types: a direct query is stateless - what it outputs for a row does not depend on the rows that came
// before, in particular not on their Go types (readings arrive as int from one producer and as float64 from a
// JSON decoder).  For every template the output of each row kind when it is the FIRST row its expression text
// ever sees (every order uses its own column names, so process-wide caches keyed by expression text start
// empty) is compared with its output after rows of other kinds.

type c05TypesCase struct {
	core.CaseRef
	SQL   string   `json:"sql"`
	Order []string `json:"row_kinds_in_order"`
}

func c05TypesStream(ctx *core.Ctx) {
	templates := []string{
		"SELECT id, %[1]s + %[2]s AS m FROM stream",
		"SELECT id, %[1]s * 2 - %[2]s AS m FROM stream WHERE %[1]s + %[2]s > 0",
		"SELECT id, expr('%[1]s == %[2]s') AS m FROM stream",
		"SELECT id, expr('%[1]s != %[2]s and %[1]s >= 0') AS m FROM stream",
		"SELECT id, `%[1]s` != `%[2]s` AS m FROM stream",
		"SELECT id, expr('int(%[1]s) == %[2]s') AS m FROM stream",
		"SELECT id, %[1]s AS a, %[2]s AS b FROM stream WHERE %[1]s <> %[2]s",
	}
	kinds := []string{"int", "float", "int64", "equal_ints", "equal_floats"}
	mk := func(kind, a, b string, id int) Row {
		switch kind {
		case "int":
			return Row{"id": id, a: 3, b: 2}
		case "float":
			return Row{"id": id, a: 3.5, b: 2.25}
		case "int64":
			return Row{"id": id, a: int64(7), b: int64(9)}
		case "equal_ints":
			return Row{"id": id, a: 4, b: 4}
		}
		return Row{"id": id, a: 4.0, b: 4.0}
	}
	orders := [][]int{{0, 1, 2, 3, 4}, {1, 0, 4, 3, 2}, {2, 4, 0, 1, 3}, {3, 1, 0, 2, 4}, {4, 3, 2, 1, 0}}
	ctx.Cases("c05types", len(templates), 4, func(ti int, r *rand.Rand) {
		first := map[string]string{}
		firstSQL := map[string]string{}
		for oi, ord := range orders {
			a, b := fmt.Sprintf("ta%d_%d_%d", ctx.Seed, ti, oi), fmt.Sprintf("tb%d_%d_%d", ctx.Seed, ti, oi)
			sql := fmt.Sprintf(templates[ti], a, b)
			rows := make([]Row, len(ord))
			names := make([]string, len(ord))
			for i, k := range ord {
				rows[i] = mk(kinds[k], a, b, i+1)
				names[i] = kinds[k]
			}
			outs, err := c6Run(sql, rows, c6Rot(len(rows), 0))
			c := &c05TypesCase{CaseRef: core.CaseRef{Stream: "c05types", Index: ti}, SQL: sql, Order: names}
			attrs := map[string]string{"mode": "type_history", "template": fmt.Sprint(ti)}
			if err != nil {
				ctx.Violate(core.Violation{Kind: "projection.execute_error", Attrs: attrs, Detail: err.Error() + "\n  sql: " + sql, Case: c})
				return
			}
			for i, k := range ord {
				if outs[i].Panic != "" {
					ctx.Violate(core.Violation{Kind: "projection.panic", Attrs: attrs, Detail: outs[i].Panic + "\n  sql: " + sql, Case: c})
					return
				}
				// the result without the per-order column names
				v := "rejected"
				if !outs[i].Filtered && outs[i].Err == "" {
					cp := Row{}
					for key, val := range outs[i].Res {
						cp[key] = val
					}
					delete(cp, "id")
					v = core.J(cp)
				} else if outs[i].Err != "" {
					v = "error"
				}
				kind := kinds[k]
				if i == 0 {
					if _, ok := first[kind]; !ok {
						first[kind], firstSQL[kind] = v, sql
					}
					continue
				}
				ctx.Count("type_history.rows_compared", 1)
				if w, ok := first[kind]; ok && w != v {
					ctx.Violate(core.Violation{Kind: "stateless.depends_on_earlier_rows", Attrs: attrs,
						Detail: fmt.Sprintf("a row of kind %s (%s) gives %s when rows of kinds %v came before it, but %s when it is the first row of the same statement over fresh column names (%s)\n  sql: %s",
							kind, core.J(mk(kind, "a", "b", 0)), v, names[:i], w, firstSQL[kind], sql), Case: c})
					return
				}
			}
		}
		ctx.Case(fmt.Sprintf("c05types|%d|%d", ti, ctx.Seed), len(first) == len(kinds), nil)
	})
}
