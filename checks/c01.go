package checks

import (
	"fmt"
	"math/rand"
	"sync"
	"sync/atomic"
	"time"

	"verif/internal/core"
	"verif/internal/eng"
	"verif/internal/sched"
)

// C01 — tumbling windows count every accepted event exactly once, in its own window.

func init() { register(&Check{ID: "C01", Race: true, Run: runC01}) }

func genEvTumbling(ref core.CaseRef, r *rand.Rand, alShare int) *evCase {
	c := &evCase{CaseRef: ref, Kind: "tumbling"}
	c.SizeMs = pick(r, []int64{250, 1000, 1000, 2000, 60000, 700, 1300, 7000, 11000, 13000})
	c.MooMs = pick(r, []int64{0, 0, c.SizeMs / 2, 2 * c.SizeMs, 5 * c.SizeMs})
	if r.Intn(100) < alShare {
		c.AlMs = pick(r, []int64{c.SizeMs, 3 * c.SizeMs, c.SizeMs / 2, c.SizeMs / 4})
	}
	c.Grouped = r.Intn(4) > 0
	keys := evKeyDomain(r, c.Grouped)
	c.Pattern = pick(r, []string{"inorder", "boundary", "jitter", "jitter", "late", "late", "early"})
	if c.MooMs == 0 && (c.Pattern == "jitter" || c.Pattern == "early") {
		c.Pattern = "late"
	}
	n := 20 + r.Intn(120)
	if r.Intn(5) == 0 {
		n = 150 + r.Intn(150)
	}
	ts := evTimestamps(r, n, c.SizeMs, c.MooMs, c.Pattern)
	garbage := r.Intn(5) == 0
	var max int64
	for i, t := range ts {
		row := evRow{ID: i + 1, TS: t, K: pick(r, keys), V: r.Intn(200) - 50}
		if garbage && r.Intn(8) == 0 {
			row.G = pick(r, []string{"future", "missing", "nil", "text"})
		}
		if row.G == "" && t > max {
			max = t
		}
		c.Rows = append(c.Rows, row)
	}
	if garbage && r.Intn(3) == 0 {
		c.Rows[0].G = pick(r, []string{"future", "missing", "nil", "text"})
	}
	c.Feed = pick(r, []string{"burst", "burst", "paced", "step"})
	c.Tail = max + c.MooMs + c.AlMs + 10*c.SizeMs
	c.buildSQL()
	return c
}

func runC01(ctx *core.Ctx) {
	evCtx = ctx
	ctx.SetRule("event time: case = (size, MAXOUTOFORDERNESS, ALLOWEDLATENESS, 0-4 groups, timestamp pattern in {inorder, boundary, jitter, late, early}, optional garbage rows, feed mode) from PRNG(seed,index), closed by a sentinel row; " +
		"processing time: paced producers against real tickers with the assigned timestamps observed at the window.add.ts hook. " +
		"non-trivial = at least 2 windows delivered and (out-of-order or late or multi-group input); distinct by (SQL, rows, feed) hash")
	ctx.Assume("single producer, so emission order is arrival order (block strategy, no drops)",
		"a missing window is declared only after the engine stayed quiet with empty buffers for ≥0.75 s and a further 4 s wait",
		"yield-point perturbation is PRNG driven; interleavings are sampled, not enumerated")
	n := ctx.N(200, 15000)
	ctx.Cases("c01", n, 4*workers(), func(i int, r *rand.Rand) {
		c := genEvTumbling(core.CaseRef{Stream: "c01", Index: i}, r, 10)
		execC01(ctx, c)
	})
	// back-pressure: more than 100 new-maximum rows are ingested while the trigger goroutine is held up by
	// a full window output buffer, then the source goes quiet; every complete window must still be emitted
	nbp := ctx.N(2, 24)
	ctx.Cases("c01bp", nbp, 8, func(i int, r *rand.Rand) {
		c := &evCase{CaseRef: core.CaseRef{Stream: "c01bp", Index: i}, Kind: "tumbling", SizeMs: 1000, Pattern: "backpressure", Feed: "burst", Grouped: r.Intn(2) == 0}
		c.WinOut = 1
		c.SinkDelayMs = 15 + r.Intn(25)
		n := 220 + r.Intn(250)
		t := int64(5000)
		for j := 1; j <= n; j++ {
			t += 40 + int64(r.Intn(120))
			c.Rows = append(c.Rows, evRow{ID: j, TS: t, K: plainKeys[r.Intn(2)], V: r.Intn(50)})
		}
		c.Tail = t + 10*c.SizeMs
		c.buildSQL()
		execC01(ctx, c)
	})
	npt := ctx.N(6, 96)
	ctx.Cases("c01pt", npt, 8, func(i int, r *rand.Rand) {
		execC01PT(ctx, core.CaseRef{Stream: "c01pt", Index: i}, r)
	})
	for k, v := range sched.Hits() {
		ctx.Count("hook_hits."+k, v)
	}
	ctx.Count("perturbation_actions", sched.Acted())
}

func execC01(ctx *core.Ctx, c *evCase) {
	onTime, _ := evOnTime(c.Rows, c.MooMs)
	byID := map[int]evRow{}
	type wkey struct {
		g    string
		slot int64
	}
	expect := map[wkey][]int{}
	slots := map[int64]bool{}
	nLate, nOOO := 0, 0
	var prev int64 = -1 << 62
	for i, r := range c.Rows {
		byID[r.ID] = r
		if r.G != "" {
			continue
		}
		if r.TS < prev {
			nOOO++
		}
		if r.TS > prev {
			prev = r.TS
		}
		if onTime[i] {
			k := wkey{tkey(c.keyOf(r)), floorDiv(r.TS, c.SizeMs)}
			expect[k] = append(expect[k], r.ID)
			slots[k.slot] = true
		} else {
			nLate++
		}
	}
	c.complete = func(dels []eng.Delivery) bool {
		wins, err := evDecode(dels)
		if err != nil {
			return true
		}
		seen := map[wkey]bool{}
		for _, w := range wins {
			g := "N"
			if c.Grouped {
				g = tkey(w.K)
			}
			seen[wkey{g, floorDiv(w.Start, c.SizeMs)}] = true
		}
		for k := range expect {
			if !seen[k] {
				return false
			}
		}
		return true
	}
	res := c.run(len(slots))
	attrs := evShape(c)
	viol := func(kind, detail string) {
		ctx.Violate(core.Violation{Kind: kind, Attrs: attrs, Detail: detail + "\n  sql: " + c.SQL, Case: c})
	}
	if res.Err != nil {
		viol("tumbling.execute_error", res.Err.Error())
		return
	}
	if res.Overload {
		ctx.Inconclusive("engine declared overload")
		return
	}
	wins, err := evDecode(res.Dels)
	if err != nil {
		viol("tumbling.undecodable_result", err.Error())
		return
	}
	ctx.Count("deliveries_checked", int64(len(res.Dels)))
	ctx.Count("result_rows_checked", int64(len(wins)))
	ctx.Count("rows_emitted", int64(len(c.Rows)))
	ctx.Count("rows_late_on_arrival", int64(nLate))
	// per-result checks
	where := map[int]wkey{} // id -> the (group, interval) it was reported in
	seenWin := map[wkey]int{}
	for _, w := range wins {
		if w.End-w.Start != c.SizeMs || floorDiv(w.Start+baseTs, c.SizeMs)*c.SizeMs != w.Start+baseTs {
			viol("tumbling.misaligned", fmt.Sprintf("result interval [%d,%d) (ms rel. base) is not a size-aligned interval of size %d: %s", w.Start, w.End, c.SizeMs, core.J(w.Row)))
			return
		}
		if want := fmt.Sprintf("%d_%d", (w.Start+baseTs)*1e6, (w.End+baseTs)*1e6); w.WinID != want {
			viol("tumbling.window_id_mismatch", fmt.Sprintf("window_id %q but window_start/window_end give %q", w.WinID, want))
			return
		}
		g := "N"
		if c.Grouped {
			g = tkey(w.K)
		}
		k := wkey{g, floorDiv(w.Start, c.SizeMs)}
		// note: baseTs is a multiple of every size used, so relative and absolute slots coincide
		seenWin[k]++
		if seenWin[k] > 1 && c.AlMs == 0 {
			viol("tumbling.interval_twice", fmt.Sprintf("group %s interval [%d,%d) delivered twice with ALLOWEDLATENESS 0", g, w.Start, w.End))
			return
		}
		if msg := evAggCheck(w, byID); msg != "" {
			viol("tumbling.wrong_aggregate", fmt.Sprintf("group %s interval [%d,%d): %s", g, w.Start, w.End, msg))
			return
		}
		dup := map[int]bool{}
		for _, id := range w.IDs {
			r := byID[id]
			if dup[id] {
				viol("tumbling.row_counted_twice", fmt.Sprintf("id %d occurs twice in the result for [%d,%d)", id, w.Start, w.End))
				return
			}
			dup[id] = true
			if r.G != "" && r.G != "toolate" {
				viol("tumbling.garbage_in_result", fmt.Sprintf("row %d without usable timestamp (%s) was aggregated in [%d,%d)", id, r.G, w.Start, w.End))
				return
			}
			if r.TS < w.Start || r.TS >= w.End {
				viol("tumbling.wrong_interval", fmt.Sprintf("row id=%d ts=%d reported in interval [%d,%d)", id, r.TS, w.Start, w.End))
				return
			}
			if c.Grouped && tkey(r.K) != g {
				viol("tumbling.wrong_group", fmt.Sprintf("row id=%d of group %s reported under group %s", id, tkey(r.K), g))
				return
			}
			if prevK, ok := where[id]; ok && prevK != k {
				viol("tumbling.row_in_two_results", fmt.Sprintf("row id=%d reported in two results: %v and %v", id, prevK, k))
				return
			}
			where[id] = k
		}
	}
	// every on-time row must be reported (in its own window — checked above)
	for i, r := range c.Rows {
		if r.G != "" || !onTime[i] {
			continue
		}
		if _, ok := where[r.ID]; !ok {
			if !res.Quiescent {
				ctx.Inconclusive("not quiescent")
				return
			}
			viol("tumbling.row_missing", fmt.Sprintf("on-time row id=%d ts=%d (group %s, interval [%d,%d)) is in no delivered result although the sentinel (ts=%d) pushed the watermark past it; %d deliveries seen",
				r.ID, r.TS, tkey(c.keyOf(r)), floorDiv(r.TS, c.SizeMs)*c.SizeMs, floorDiv(r.TS, c.SizeMs)*c.SizeMs+c.SizeMs, c.Tail, len(res.Dels)))
			return
		}
	}
	nontrivial := len(slots) >= 2 && (nOOO > 0 || nLate > 0 || c.Grouped)
	var sample any
	if c.Index < 3 {
		sample = evSample(c, len(res.Dels))
	}
	ctx.Case(c.SQL+core.J(c.Rows)+c.Feed, nontrivial, sample)
}

func (c *evCase) keyOf(r evRow) any {
	if c.Grouped {
		return r.K
	}
	return nil
}

// ---- processing time ---------------------------------------------------------------------------

type c01ptCase struct {
	core.CaseRef
	Stall     bool   `json:"one_slow_delivery,omitempty"`
	SQL       string `json:"sql"`
	SizeMs    int    `json:"size_ms"`
	Producers int    `json:"producers"`
	Rows      int    `json:"rows"`
	PaceUs    int    `json:"pace_us"`
	Inst      string `json:"inst"`
}

var (
	c01ptOnce sync.Once
	c01ptMu   sync.Mutex
	c01ptTS   = map[string]map[int]time.Time{} // inst -> id -> assigned timestamp
)

func c01ptInstall() {
	c01ptOnce.Do(func() {
		sched.OnObserve("window.add.ts", func(kv []any) {
			if len(kv) != 2 {
				return
			}
			m, ok := kv[0].(map[string]any)
			if !ok {
				return
			}
			inst, ok := m["inst"].(string)
			if !ok {
				return
			}
			id, _ := m["id"].(int)
			ts, _ := kv[1].(time.Time)
			c01ptMu.Lock()
			if mm := c01ptTS[inst]; mm != nil {
				mm[id] = ts
			}
			c01ptMu.Unlock()
		})
	})
}

func execC01PT(ctx *core.Ctx, ref core.CaseRef, r *rand.Rand) {
	c01ptInstall()
	c := &c01ptCase{CaseRef: ref}
	c.SizeMs = pick(r, []int{40, 60, 100, 200, 70, 130})
	c.Producers = 1 + r.Intn(3)
	c.Rows = 150 + r.Intn(300)
	c.PaceUs = 500 + r.Intn(3000)
	c.Inst = fmt.Sprintf("pt-%d-%d", ctx.Seed, ref.Index)
	c.SQL = fmt.Sprintf("SELECT k, count(*) AS c, sum(v) AS s, min(v) AS mn, max(v) AS mx, collect(id) AS ids, window_start() AS ws, window_end() AS we FROM stream GROUP BY k, TumblingWindow('%dms')", c.SizeMs)
	c01ptMu.Lock()
	c01ptTS[c.Inst] = map[int]time.Time{}
	c01ptMu.Unlock()
	defer func() { c01ptMu.Lock(); delete(c01ptTS, c.Inst); c01ptMu.Unlock() }()
	viol := func(kind, detail string) {
		ctx.Violate(core.Violation{Kind: kind, Attrs: map[string]string{"kind": "tumbling", "time": "processing"}, Detail: detail + "\n  sql: " + c.SQL, Case: c})
	}
	opts := eng.Opts{}
	c.Stall = ref.Index%3 == 1
	if c.Stall {
		opts.WindowOut = 1 // block strategy: the trigger goroutine waits for the consumer
	}
	s, err := eng.New(c.SQL, opts)
	if err != nil {
		viol("tumbling.execute_error", err.Error())
		return
	}
	if c.Stall {
		// one slow delivery (a reconnecting consumer) that lasts several window sizes: the processing-time
		// trigger misses ticks, rows keep arriving for windows two and more ahead of the one being emitted
		var calls int32
		stall := time.Duration(c.SizeMs) * time.Millisecond * time.Duration(5+r.Intn(4))
		s.AddSyncSink(func([]map[string]any) {
			if atomic.AddInt32(&calls, 1) == 3 {
				time.Sleep(stall)
			}
		})
	}
	rec := eng.Attach(s)
	type sent struct {
		t0 time.Time
		k  string
		v  int
	}
	var mu sync.Mutex
	emitted := map[int]sent{}
	var wg sync.WaitGroup
	per := c.Rows / c.Producers
	for p := 0; p < c.Producers; p++ {
		wg.Add(1)
		go func(p int, pr *rand.Rand) {
			defer wg.Done()
			for j := 0; j < per; j++ {
				id := p*100000 + j + 1
				k := plainKeys[pr.Intn(3)]
				v := pr.Intn(100)
				mu.Lock()
				emitted[id] = sent{time.Now(), k, v}
				mu.Unlock()
				rec.Emit(Row{"id": id, "k": k, "v": v, "inst": c.Inst})
				time.Sleep(time.Duration(c.PaceUs) * time.Microsecond)
			}
		}(p, rand.New(rand.NewSource(r.Int63())))
	}
	wg.Wait()
	total := per * c.Producers
	// bounded progress: all rows must be delivered once their window ended; wait generously
	deadline := time.Now().Add(15 * time.Second)
	count := func() int {
		n := 0
		for _, d := range rec.Deliveries() {
			for _, row := range d.Rows {
				ids, _ := idList(row["ids"])
				n += len(ids)
			}
		}
		return n
	}
	for count() < total && time.Now().Before(deadline) {
		time.Sleep(time.Duration(c.SizeMs) * time.Millisecond / 2)
	}
	tDone := time.Now()
	dels := rec.Deliveries()
	overload := rec.Overloaded()
	s.Stop()
	if overload {
		ctx.Inconclusive("engine declared overload")
		return
	}
	c01ptMu.Lock()
	assigned := map[int]time.Time{}
	for k, v := range c01ptTS[c.Inst] {
		assigned[k] = v
	}
	c01ptMu.Unlock()
	size := int64(c.SizeMs) * 1e6
	seen := map[int]bool{}
	type gw struct {
		g  string
		ws int64
	}
	seenWin := map[gw]bool{}
	exact := 0
	for _, d := range dels {
		for _, row := range d.Rows {
			ws, _ := toI(row["ws"])
			we, _ := toI(row["we"])
			ids, ok := idList(row["ids"])
			if !ok || we-ws != size || ws%size != 0 {
				viol("tumbling.misaligned", fmt.Sprintf("processing-time result with bounds [%d,%d) (size %dms): %s", ws, we, c.SizeMs, core.J(row)))
				return
			}
			k := gw{tkey(row["k"]), ws}
			if seenWin[k] {
				viol("tumbling.interval_twice", fmt.Sprintf("processing-time interval [%d,%d) group %v delivered twice", ws, we, row["k"]))
				return
			}
			seenWin[k] = true
			sum, mn, mx := 0, 0, 0
			for i, id := range ids {
				e, ok := emitted[id]
				if !ok {
					viol("tumbling.wrong_rows", fmt.Sprintf("unknown id %d in result", id))
					return
				}
				if seen[id] {
					viol("tumbling.row_in_two_results", fmt.Sprintf("processing time: id %d counted twice", id))
					return
				}
				seen[id] = true
				if tkey(e.k) != k.g {
					viol("tumbling.wrong_group", fmt.Sprintf("processing time: id %d of group %s under group %s", id, e.k, k.g))
					return
				}
				if at, ok := assigned[id]; ok {
					exact++
					if n := at.UnixNano(); n < ws || n >= we {
						viol("tumbling.wrong_interval", fmt.Sprintf("processing time: id %d was assigned timestamp %d but reported in [%d,%d)", id, n, ws, we))
						return
					}
				}
				// causal bounds (also valid without the hook): the assigned time is not before Emit started
				if we <= e.t0.UnixNano() {
					viol("tumbling.wrong_interval", fmt.Sprintf("processing time: id %d emitted at %d reported in an interval that ended before, [%d,%d)", id, e.t0.UnixNano(), ws, we))
					return
				}
				sum += e.v
				if i == 0 || e.v < mn {
					mn = e.v
				}
				if i == 0 || e.v > mx {
					mx = e.v
				}
			}
			if ws > tDone.UnixNano() {
				viol("tumbling.wrong_interval", fmt.Sprintf("processing-time interval [%d,%d) starts after its delivery was observed (%d)", ws, we, tDone.UnixNano()))
				return
			}
			if !numEq(row["c"], len(ids)) || !numEq(row["s"], sum) || !numEq(row["mn"], mn) || !numEq(row["mx"], mx) {
				viol("tumbling.wrong_aggregate", fmt.Sprintf("processing time: aggregates of %s differ from witness rows (c=%d s=%d mn=%d mx=%d)", core.J(row), len(ids), sum, mn, mx))
				return
			}
		}
	}
	if len(seen) < total {
		missing := []int{}
		for id := range emitted {
			if !seen[id] {
				missing = append(missing, id)
			}
		}
		viol("tumbling.row_missing", fmt.Sprintf("processing time: %d of %d rows never delivered although their windows ended >10 s ago (e.g. ids %v)", len(missing), total, missing[:min(5, len(missing))]))
		return
	}
	ctx.Count("pt_rows_checked", int64(total))
	ctx.Count("pt_rows_with_observed_timestamp", int64(exact))
	ctx.Count("pt_windows_checked", int64(len(seenWin)))
	ctx.Case(fmt.Sprintf("pt|%d|%d|%d|%d", c.SizeMs, c.Producers, c.Rows, c.PaceUs), len(seenWin) >= 4, map[string]any{"sql": c.SQL, "producers": c.Producers, "rows": total, "windows": len(seenWin), "observed_ts": exact})
}
