package checks

import (
	"fmt"
	"math/rand"
	"sort"
	"strings"

	"verif/internal/core"
	"verif/internal/sched"
)

// C10 — session windows split a key's events at gaps above the timeout, each event once.

func init() { register(&Check{ID: "C10", Race: true, Run: runC10}) }

func genEvSession(ref core.CaseRef, r *rand.Rand) *evCase {
	c := &evCase{CaseRef: ref, Kind: "session", Grouped: true}
	c.SizeMs = pick(r, []int64{500, 1000, 1000, 5000}) // the timeout
	c.MooMs = pick(r, []int64{0, 0, c.SizeMs / 2, 2 * c.SizeMs, 3 * c.SizeMs})
	nk := 1 + r.Intn(4)
	c.Pattern = pick(r, []string{"inorder", "inorder", "jitter", "late", "bridge"})
	if c.Pattern == "bridge" && c.MooMs < 2*c.SizeMs {
		c.MooMs = 2 * c.SizeMs
	}
	if c.MooMs == 0 && c.Pattern == "jitter" {
		c.Pattern = "inorder"
	}
	// per-key gap sequences around the timeout, then merged by time into one arrival order
	type ev struct {
		ts int64
		k  string
	}
	var evs []ev
	for k := 0; k < nk; k++ {
		t := int64(r.Intn(int(3*c.SizeMs))) + 4*(c.MooMs+c.SizeMs)
		n := 3 + r.Intn(25)
		for i := 0; i < n; i++ {
			evs = append(evs, ev{t, plainKeys[k]})
			switch r.Intn(8) {
			case 0:
				t += c.SizeMs - 1
			case 1:
				t += c.SizeMs
			case 2:
				t += c.SizeMs + 1
			case 3:
				t += c.SizeMs * int64(2+r.Intn(4))
				if r.Intn(10) == 0 {
					// the source was silent for more than a day (all timestamps stay far in the past)
					t += int64(25+r.Intn(30)) * 3600 * 1000
				}
			case 4:
				t += 0
			default:
				t += int64(r.Intn(int(c.SizeMs/2) + 1))
			}
		}
	}
	// a gap of exactly one timeout, with another key's event carrying that very timestamp and arriving
	// just before: the first session is then ready to expire when the boundary event is added, so the
	// outcome would depend on the expiry goroutine's timing if "one timeout away" were handled inconsistently
	if nk >= 2 {
		var extra []ev
		for i := 1; i < len(evs); i++ {
			if evs[i].k == evs[i-1].k && evs[i].ts-evs[i-1].ts == c.SizeMs && r.Intn(2) == 0 {
				other := plainKeys[(strings.Index("abcdef", evs[i].k)+1)%nk]
				extra = append(extra, ev{evs[i].ts, other})
			}
		}
		evs = append(extra, evs...) // stable sort keeps them in front of equal timestamps
	}
	sort.SliceStable(evs, func(i, j int) bool { return evs[i].ts < evs[j].ts })
	var max int64
	for i, e := range evs {
		t := e.ts
		switch c.Pattern {
		case "jitter": // swap within MOO by shifting the arrival, timestamps unchanged: emulate by local shuffle below
		case "late":
			if r.Intn(6) == 0 && i > 3 {
				t = e.ts - c.MooMs - 1 - int64(r.Intn(int(2*c.SizeMs)))
				if t < 0 {
					t = 0
				}
			}
		}
		c.Rows = append(c.Rows, evRow{ID: i + 1, TS: t, K: e.k, V: r.Intn(100)})
		if t > max {
			max = t
		}
	}
	if c.Pattern == "bridge" {
		// arrival order: an event at t, then one more than a timeout EARLIER (still within tolerance: it opens
		// a second session listed after the first), then an event within the timeout of both, which merges them
		var rows []evRow
		for i := 0; i < len(c.Rows); i++ {
			rows = append(rows, c.Rows[i])
			if r.Intn(4) == 0 {
				t := c.Rows[i].TS
				d := c.SizeMs + 1 + int64(r.Intn(int(c.SizeMs)-1))
				if t-d > 0 && d <= c.MooMs {
					k := c.Rows[i].K
					rows = append(rows, evRow{TS: t - d, K: k, V: r.Intn(100)})
					if r.Intn(2) == 0 {
						rows = append(rows, evRow{TS: t - d/2, K: k, V: r.Intn(100)})
					}
					// without the third event the earlier session stays separate and is the first to expire,
					// although it is listed after the later one
				}
			}
		}
		c.Rows = rows
		for i := range c.Rows {
			c.Rows[i].ID = i + 1
		}
	}
	if c.Pattern == "jitter" {
		// out-of-order within tolerance: swap neighbours whose timestamps differ by ≤ MOO
		for i := 0; i+1 < len(c.Rows); i++ {
			if r.Intn(3) == 0 && c.Rows[i+1].TS-c.Rows[i].TS <= c.MooMs {
				c.Rows[i], c.Rows[i+1] = c.Rows[i+1], c.Rows[i]
				i++
			}
		}
		// and a few rows that arrive much later than their neighbours, still within the tolerance: they land
		// deep inside (or in front of) a session that has moved on by more than a timeout
		for k := 0; k < 3 && c.MooMs >= c.SizeMs && len(c.Rows) > 4; k++ {
			i := r.Intn(len(c.Rows) - 2)
			j := i
			for j+1 < len(c.Rows) && c.Rows[j+1].TS-c.Rows[i].TS <= c.MooMs {
				j++
			}
			if j > i+1 {
				to := i + 1 + r.Intn(j-i)
				row := c.Rows[i]
				copy(c.Rows[i:to], c.Rows[i+1:to+1])
				c.Rows[to] = row
			}
		}
		for i := range c.Rows {
			c.Rows[i].ID = i + 1
		}
	}
	c.Feed = pick(r, []string{"burst", "paced", "step"})
	if c.MooMs > 0 && (c.Pattern == "jitter" || c.Pattern == "bridge") && r.Intn(3) == 0 {
		c.Feed = "slow" // out-of-order rows within the tolerance arriving after pauses
	}
	c.Tail = max + c.MooMs + 10*c.SizeMs
	if r.Intn(5) == 0 {
		// two grouping columns whose values contain the characters a composite key might be joined or escaped
		// with: distinct tuples that read alike once written one after the other
		c.K2 = true
		pairs := map[string]evK2{"a": {"a|b", "c"}, "b": {"a", "b|c"}, "c": {"a\\", "|b|c"}, "d": {"a\\|b", "c"}, "e": {"", "a|b|c"}, "f": {"x", "y"}}
		for i := range c.Rows {
			if s, ok := c.Rows[i].K.(string); ok {
				c.Rows[i].K = pairs[s]
			}
		}
	}
	c.buildSQL()
	return c
}

func runC10(ctx *core.Ctx) {
	evCtx = ctx
	ctx.SetRule("case = (timeout, MAXOUTOFORDERNESS, 1-4 keys with per-key gap sequences just below/at/above the timeout and ≫, arrival pattern inorder|jitter|late, feed mode) from PRNG(seed,index), closed by a sentinel of a foreign key; " +
		"in-order cases are additionally fed at 3 speeds and compared. non-trivial = some key has ≥2 sessions expected by the gap rule; distinct by (SQL, rows, feed) hash")
	ctx.Assume("single producer; block strategy", "maximality of sessions is not demanded (the statement does not) beyond this: two reported sessions of one key never interleave in time")
	n := ctx.N(90, 3000)
	ctx.Cases("c10", n, 4*workers(), func(i int, r *rand.Rand) {
		execC10(ctx, genEvSession(core.CaseRef{Stream: "c10", Index: i}, r))
	})
	// back-pressure: the expiry goroutine is parked in a blocking send (window output buffer 1, slow sink) while
	// a dense in-order burst advances the watermark far more than 100 times, then the source goes quiet: every
	// session must still be delivered, whatever the feeding speed
	nbp := ctx.N(2, 24)
	ctx.Cases("c10bp", nbp, 8, func(i int, r *rand.Rand) {
		c := &evCase{CaseRef: core.CaseRef{Stream: "c10bp", Index: i}, Kind: "session", SizeMs: 1000, Pattern: "backpressure", Feed: "burst", Grouped: true}
		c.WinOut = 1
		c.SinkDelayMs = 150 + r.Intn(200)
		id := 0
		t := int64(5000)
		for j := 0; j < 5; j++ { // a few single-event sessions whose delivery holds the expiry goroutine up
			id++
			c.Rows = append(c.Rows, evRow{ID: id, TS: t, K: "a", V: r.Intn(50)})
			t += 3000
		}
		for j, n := 0, 150+r.Intn(150); j < n; j++ { // one long session, every row a new maximum
			id++
			t += 20 + int64(r.Intn(400))
			c.Rows = append(c.Rows, evRow{ID: id, TS: t, K: "b", V: r.Intn(50)})
		}
		id++
		t += 5000
		c.Rows = append(c.Rows, evRow{ID: id, TS: t, K: "c", V: 1})
		c.Tail = t + 10*c.SizeMs
		c.buildSQL()
		execC10(ctx, c)
	})
	for k, v := range sched.Hits() {
		ctx.Count("hook_hits."+k, v)
	}
	ctx.Count("perturbation_actions", sched.Acted())
}

// c10Sessions canonicalises the outcome of a run: per key, the sorted list of sorted witness lists.
// c10FixKeys rebuilds the two-column key of every decoded result (evDecode only knows column k).
func c10FixKeys(c *evCase, wins []evWin) {
	if !c.K2 {
		return
	}
	for i := range wins {
		if sk, ok := wins[i].Row["k"].(string); !ok || sk != "__sentinel__" {
			wins[i].K = evK2{wins[i].Row["k"], wins[i].Row["k2"]}
		}
	}
}

func c10Sessions(wins []evWin) string {
	var parts []string
	for _, w := range wins {
		parts = append(parts, tkey(w.K)+":"+idsStr(sortedInts(w.IDs)))
	}
	sort.Strings(parts)
	return strings.Join(parts, ";")
}

func execC10(ctx *core.Ctx, c *evCase) {
	onTime, _ := evOnTime(c.Rows, c.MooMs)
	byID := map[int]evRow{}
	perKey := map[string][]evRow{} // accepted rows per key sorted by ts
	nLate := 0
	for i, r := range c.Rows {
		byID[r.ID] = r
		if onTime[i] {
			perKey[tkey(r.K)] = append(perKey[tkey(r.K)], r)
		} else {
			nLate++
		}
	}
	gapSessions := 0
	multi := false
	for k := range perKey {
		rows := perKey[k]
		sort.SliceStable(rows, func(i, j int) bool { return rows[i].TS < rows[j].TS })
		perKey[k] = rows
		ns := 1
		for i := 1; i < len(rows); i++ {
			if rows[i].TS-rows[i-1].TS > c.SizeMs {
				ns++
			}
		}
		if ns >= 2 {
			multi = true
		}
		gapSessions += ns
	}
	res := c.run(-1)
	attrs := evShape(c)
	viol := func(kind, detail string) {
		ctx.Violate(core.Violation{Kind: kind, Attrs: attrs, Detail: detail + "\n  sql: " + c.SQL, Case: c})
	}
	if res.Err != nil {
		viol("session.execute_error", res.Err.Error())
		return
	}
	if res.Overload {
		ctx.Inconclusive("engine declared overload")
		return
	}
	if !res.Quiescent {
		ctx.Inconclusive("not quiescent")
		return
	}
	wins, err := evDecode(res.Dels)
	if err != nil {
		viol("session.undecodable_result", err.Error())
		return
	}
	c10FixKeys(c, wins)
	if c.K2 {
		ctx.Count("cases_two_key_columns", 1)
	}
	ctx.Count("deliveries_checked", int64(len(res.Dels)))
	ctx.Count("session_results_checked", int64(len(wins)))
	ctx.Count("sessions_expected_by_gap_rule", int64(gapSessions))
	// max timestamp among rows whose Emit had started, per prefix
	prefMax := make([]int64, len(c.Rows)+2)
	m := int64(-1 << 62)
	for i, r := range c.Rows {
		if r.TS > m {
			m = r.TS
		}
		prefMax[i+1] = m
	}
	prefMax[len(c.Rows)+1] = max64(m, c.Tail)
	where := map[int]int{}
	type span struct {
		lo, hi int64
		ids    []int
	}
	spans := map[string][]span{}
	for wi, w := range wins {
		if sk, ok := w.K.(string); ok && sk == "__sentinel__" {
			viol("session.early_firing", fmt.Sprintf("the sentinel's own session [%d,%d) was delivered although no event passed its end", w.Start, w.End))
			return
		}
		g := tkey(w.K)
		if msg := evAggCheck(w, byID); msg != "" {
			viol("session.wrong_aggregate", fmt.Sprintf("session [%d,%d) key %s: %s", w.Start, w.End, g, msg))
			return
		}
		var tss []int64
		for _, id := range w.IDs {
			r := byID[id]
			if tkey(r.K) != g {
				viol("session.wrong_key", fmt.Sprintf("row id=%d of key %s reported in a session of key %s", id, tkey(r.K), g))
				return
			}
			if prev, ok := where[id]; ok {
				viol("session.row_in_two_sessions", fmt.Sprintf("row id=%d (ts %d) reported in two session results (#%d and #%d)", id, r.TS, prev, wi))
				return
			}
			where[id] = wi
			tss = append(tss, r.TS)
		}
		sort.Slice(tss, func(i, j int) bool { return tss[i] < tss[j] })
		for i := 1; i < len(tss); i++ {
			if tss[i]-tss[i-1] > c.SizeMs {
				viol("session.gap_exceeds_timeout", fmt.Sprintf("session [%d,%d) of key %s contains consecutive events at %d and %d, %d ms apart (timeout %d ms); witness ids %v",
					w.Start, w.End, g, tss[i-1], tss[i], tss[i]-tss[i-1], c.SizeMs, w.IDs))
				return
			}
		}
		spans[g] = append(spans[g], span{tss[0], tss[len(tss)-1], w.IDs})
		if w.Start != tss[0] {
			viol("session.wrong_start", fmt.Sprintf("session of key %s reports window_start %d but its earliest event is at %d (ids %v)", g, w.Start, tss[0], w.IDs))
			return
		}
		if w.End != tss[len(tss)-1]+c.SizeMs {
			viol("session.wrong_end", fmt.Sprintf("session of key %s reports window_end %d but its latest event %d + timeout %d = %d (ids %v)", g, w.End, tss[len(tss)-1], c.SizeMs, tss[len(tss)-1]+c.SizeMs, w.IDs))
			return
		}
		// no early delivery: some started Emit must carry ts ≥ window_end + MOO
		st := int(w.Start0)
		if st > len(c.Rows)+1 {
			st = len(c.Rows) + 1
		}
		if prefMax[st] < w.End+c.MooMs {
			viol("session.early_firing", fmt.Sprintf("session [%d,%d) of key %s delivered when only %d Emit calls had started, whose largest timestamp %d is below window_end+MAXOUTOFORDERNESS=%d",
				w.Start, w.End, g, st, prefMax[st], w.End+c.MooMs))
			return
		}
	}
	// A key's events are split at gaps (the title of the property): two reported sessions of one key never
	// interleave.  A correct engine cannot produce that: an accepted event is not older than the watermark,
	// and a session is only delivered once the watermark passed its end, so nothing accepted later can lie
	// inside it.
	for g, ss := range spans {
		for i := range ss {
			for j := i + 1; j < len(ss); j++ {
				if ss[i].lo < ss[j].hi && ss[j].lo < ss[i].hi {
					viol("session.split_without_gap", fmt.Sprintf("key %s: two reported sessions interleave - events %d..%d (ids %v) and events %d..%d (ids %v); a key's events are split only at gaps above the timeout (%d ms)",
						g, ss[i].lo, ss[i].hi, ss[i].ids, ss[j].lo, ss[j].hi, ss[j].ids, c.SizeMs))
					return
				}
			}
		}
	}
	for i, r := range c.Rows {
		if !onTime[i] {
			continue
		}
		if _, ok := where[r.ID]; !ok {
			viol("session.row_missing", fmt.Sprintf("accepted row id=%d ts=%d key %s is in no session result although the sentinel (ts %d) pushed the watermark past every session", r.ID, r.TS, tkey(r.K), c.Tail))
			return
		}
	}
	// feed-speed independence for in-order input
	if c.Pattern == "inorder" {
		base := c10Sessions(wins)
		for _, feed := range []string{"burst", "paced", "step"} {
			if feed == c.Feed {
				continue
			}
			c2 := *c
			c2.Feed = feed
			r2 := c2.run(-1)
			if r2.Err != nil || r2.Overload || !r2.Quiescent {
				ctx.Inconclusive("speed variant not quiescent")
				continue
			}
			w2, err := evDecode(r2.Dels)
			if err != nil {
				continue
			}
			c10FixKeys(c, w2)
			ctx.Count("speed_variants_compared", 1)
			if got := c10Sessions(w2); got != base {
				viol("session.feed_speed_dependent", fmt.Sprintf("in-order input gives different sessions when fed %q vs %q:\n  %s\n  %s", c.Feed, feed, base, got))
				return
			}
		}
	}
	var sample any
	if c.Index < 3 {
		sample = evSample(c, len(res.Dels))
	}
	ctx.Case(c.SQL+core.J(c.Rows)+c.Feed, multi, sample)
}

func max64(a, b int64) int64 {
	if a > b {
		return a
	}
	return b
}
