package checks

import (
	"bytes"
	"encoding/json"
	"fmt"
	"math/rand"
	"os"
	"os/exec"
	"path/filepath"
	"regexp"
	"strconv"
	"strings"
	"syscall"
	"time"

	"github.com/rulego/streamsql/functions"

	"verif/internal/core"
)

// C06 part 3 (fresh-process history invariance) and the child-process side of the function sweep.
//
// hist: a batch of expressions is evaluated in c6HistOrders fresh child processes.  Child j presents
// the rows of every expression rotated so that row j comes first (row 0: all int, 1: all float,
// 2: text, 3: NULL, 4: absent), i.e. the process-wide caches of child j are populated by an env of
// that type.  Every (expression, row) result must be identical in all children — in particular equal
// to the child in which that row was the very first use of the expression text in a fresh process.

const c6HistOrders = 5

var c6FirstRowType = []string{"int_first", "float_first", "text_first", "null_first", "absent_first"}

type c6ChildReq struct {
	Seed    int64  `json:"seed"`
	Tier    string `json:"tier"`
	Mode    string `json:"mode"` // "hist" | "func"
	Index   int    `json:"index"`
	Rot     int    `json:"rot"`
	Skip    int    `json:"skip"`
	Journal string `json:"journal"`
}

// c6Spawn runs one child (vcheck child C06 <req> <out>) and returns its result, or crashed=true
// with the tail of its stderr when it died without writing a result.
func c6Spawn(ctx *core.Ctx, req c6ChildReq, tag string) (res *core.ChildResult, crashed bool, stderr string, err error) {
	bin := os.Getenv("VERIF_BIN")
	if bin == "" {
		if bin, err = os.Executable(); err != nil {
			return nil, false, "", err
		}
	}
	dir := filepath.Join(core.Root(), "tmp")
	_ = os.MkdirAll(dir, 0o755)
	base := filepath.Join(dir, fmt.Sprintf("c06-%d-%s", os.Getpid(), tag))
	reqFile, outFile, errFile := base+".req.json", base+".out.json", base+".stderr"
	defer func() { _ = os.Remove(reqFile); _ = os.Remove(outFile); _ = os.Remove(errFile) }()
	req.Seed, req.Tier = ctx.Seed, ctx.Tier
	b, _ := json.Marshal(req)
	if err = os.WriteFile(reqFile, b, 0o644); err != nil {
		return nil, false, "", err
	}
	ef, err := os.Create(errFile)
	if err != nil {
		return nil, false, "", err
	}
	cmd := exec.Command(bin, "child", "C06", reqFile, outFile)
	cmd.Stdout, cmd.Stderr = ef, ef
	cmd.Env = append(os.Environ(), "VERIF_ROOT="+core.Root(), "GORACE=", "VERIF_C06_DUMP=")
	if err = cmd.Start(); err != nil {
		ef.Close()
		return nil, false, "", err
	}
	done := make(chan error, 1)
	go func() { done <- cmd.Wait() }()
	var werr error
	select {
	case werr = <-done:
	case <-time.After(120 * time.Second): // watchdog only; a timeout is never a verdict
		_ = cmd.Process.Kill()
		<-done
		ef.Close()
		return nil, false, "", fmt.Errorf("child watchdog fired")
	}
	ef.Close()
	out, rerr := os.ReadFile(outFile)
	if rerr != nil || werr != nil {
		eb, _ := os.ReadFile(errFile)
		first := ""
		for _, ln := range strings.Split(string(eb), "\n") {
			if strings.HasPrefix(ln, "fatal error:") || strings.HasPrefix(ln, "panic:") {
				first = ln
				break
			}
		}
		if first == "" {
			first = c6Short(string(eb))
		}
		return nil, true, first, nil
	}
	var cr core.ChildResult
	if err = json.Unmarshal(out, &cr); err != nil {
		return nil, false, "", err
	}
	return &cr, false, "", nil
}

// childC06 is the child-process entry (see c6Spawn).
func childC06(ctx *core.Ctx, batch []byte) {
	var req c6ChildReq
	if err := json.Unmarshal(batch, &req); err != nil {
		ctx.Inconclusive("child: bad request")
		return
	}
	switch req.Mode {
	case "hist":
		c6HistChild(ctx, req)
	case "func":
		c6FuncChild(ctx, req)
	}
}

// ---- hist ------------------------------------------------------------------------------------------------

type c6HistItem struct {
	g     *c6Gen
	a     *c6Node
	value c6Variant
	where c6Variant
}

func c6HistBatch(b int, r *rand.Rand) []c6HistItem {
	items := []c6HistItem{}
	for k := 0; k < 30; k++ {
		g, a := c6GenCase("h"+strconv.Itoa(b)+"_", k, r)
		items = append(items, c6HistItem{g: g, a: a,
			value: c6Variant{"bare", c6Bare, "value", a},
			where: c6Variant{"where", c6Bare, "where", c6WherePred(a, g.rows, r)}})
	}
	return items
}

// c6HistSQL is one statement of a history item: the bare SELECT item, the WHERE predicate, and the SELECT
// item again with every column reference back-quoted (back-quoted identifiers take the expression-bridge
// path with its own text-keyed caches).
type c6HistSQL struct {
	Key   string // result key
	Mode  string // canonicalisation mode: value | where
	SQL   string
	Site  string
	Value c6Variant
}

func (it c6HistItem) sqls() []c6HistSQL {
	bt := it.value.sql()
	if len(it.g.rows) > 0 {
		names := map[string]bool{}
		for _, row := range it.g.rows {
			for name := range row {
				if name != "id" {
					names[name] = true
				}
			}
		}
		for name := range names {
			bt = regexp.MustCompile(`\b`+regexp.QuoteMeta(name)+`\b`).ReplaceAllString(bt, "`"+name+"`")
		}
	}
	return []c6HistSQL{
		{"value", it.value.Mode, it.value.sql(), c6Site(it.value), it.value},
		{"where", it.where.Mode, it.where.sql(), c6Site(it.where), it.where},
		{"backtick", it.value.Mode, bt, "select_backtick", it.value},
	}
}

func c6HistChild(ctx *core.Ctx, req c6ChildReq) {
	items := c6HistBatch(req.Index, ctx.Rng("hist", req.Index))
	out := map[string]any{}
	for k, it := range items {
		n := len(it.g.rows)
		for _, v := range it.sqls() {
			res := make([]string, n)
			outs, err := c6Run(v.SQL, it.g.rows, c6Rot(n, req.Rot))
			for ri := range res {
				if err != nil {
					res[ri] = "execute_error"
				} else {
					res[ri] = c6Canon(outs[ri], v.Mode, false)
				}
			}
			out[fmt.Sprintf("%d|%s", k, v.Key)] = res
		}
	}
	ctx.Extra("hist", out)
}

type c06HistCase struct {
	core.CaseRef
	SQL  string   `json:"sql"`
	Row  string   `json:"row"`
	Rows []string `json:"rows"`
	Rots string   `json:"orders"`
}

func c06Hist(ctx *core.Ctx) {
	nb := ctx.N(4, 48)
	ctx.Cases("hist", nb, workers(), func(b int, r *rand.Rand) {
		items := c6HistBatch(b, r)
		results := make([]map[string]any, c6HistOrders)
		for j := 0; j < c6HistOrders; j++ {
			cr, crashed, stderr, err := c6Spawn(ctx, c6ChildReq{Mode: "hist", Index: b, Rot: j}, fmt.Sprintf("hist-%d-%d", b, j))
			ctx.Count("hist.child_processes", 1)
			if err != nil || crashed || cr == nil {
				ctx.Inconclusive("hist child did not deliver: " + c6Short(fmt.Sprint(err, stderr)))
				return
			}
			m, _ := cr.Extra["hist"].(map[string]any)
			if m == nil {
				ctx.Inconclusive("hist child delivered no results")
				return
			}
			results[j] = m
		}
		pairs := 0
		get := func(j, k int, mode string, ri int) string {
			arr, _ := results[j][fmt.Sprintf("%d|%s", k, mode)].([]any)
			if ri < len(arr) {
				s, _ := arr[ri].(string)
				return s
			}
			return "?"
		}
		for k, it := range items {
			for _, hv := range it.sqls() {
				reported := false
				for ri, row := range it.g.rows {
					refChild := 0
					if ri < c6HistOrders {
						refChild = ri // the child in which this row was the first use of the text
					}
					want := get(refChild, k, hv.Key, ri)
					for j := 0; j < c6HistOrders && !reported; j++ {
						if j == refChild {
							continue
						}
						got := get(j, k, hv.Key, ri)
						if got == "?" || want == "?" {
							ctx.Inconclusive("hist: a child result is missing")
							return
						}
						pairs++
						if got != want {
							reported = true
							rows := []string{}
							for _, rw := range it.g.rows {
								rows = append(rows, c6RowString(rw))
							}
							ctx.Count("violations.invariance.history", 1)
							ctx.Violate(core.Violation{Kind: "invariance.history",
								Attrs: map[string]string{"mode": "fresh_process", "site": hv.Site, "root": it.a.rootTag(), "features": it.a.features(),
									"row": c6RowShape(it.a, row, it.g.base), "first_a": c6FirstRowType[refChild], "first_b": c6FirstRowType[j]},
								Detail: fmt.Sprintf("%s\n  row %s\n  fresh process presenting rows in order %s: %s\n  fresh process presenting rows in order %s: %s",
									hv.SQL, c6RowString(row), c6FirstRowType[refChild], want, c6FirstRowType[j], got),
								Case: &c06HistCase{CaseRef: core.CaseRef{Stream: "hist", Index: b}, SQL: hv.SQL, Row: c6RowString(row), Rows: rows,
									Rots: c6FirstRowType[refChild] + " vs " + c6FirstRowType[j]}})
						}
					}
				}
			}
		}
		ctx.Count("hist.pairs_compared", int64(pairs))
		ctx.Count("hist.expressions", int64(len(items)))
		var sample any
		if b < 1 {
			sample = map[string]any{"stream": "hist", "expressions": len(items), "first": items[0].value.sql(), "orders": c6FirstRowType}
		}
		sig := "hist"
		for _, it := range items {
			sig += "|" + it.value.sql()
		}
		ctx.Case(sig, pairs >= 100, sample)
	})
}

// ---- func: dangerous tuples in a child ---------------------------------------------------------------------

// c6FuncDangerous evaluates the tuples with huge numeric arguments in child processes.  A child that
// dies (fatal error: out of memory, unrecovered panic) names the tuple in its journal; that is a
// violation of "an error or NULL, never a panic", and a new child continues after the tuple.
func c6FuncDangerous(ctx *core.Ctx, f *c6Fn, i int, all []c6Tuple, viol c6ViolFn) {
	skip := 0
	for attempt := 0; attempt < 8; attempt++ {
		journal := filepath.Join(core.Root(), "tmp", fmt.Sprintf("c06-%d-func-%d-%d.journal", os.Getpid(), i, attempt))
		_ = os.MkdirAll(filepath.Dir(journal), 0o755)
		cr, crashed, stderr, err := c6Spawn(ctx, c6ChildReq{Mode: "func", Index: i, Skip: skip, Journal: journal}, fmt.Sprintf("func-%d-%d", i, attempt))
		ctx.Count("func.child_processes", 1)
		jb, _ := os.ReadFile(journal)
		_ = os.Remove(journal)
		if err != nil {
			ctx.Inconclusive("func child could not run: " + c6Short(err.Error()))
			return
		}
		if !crashed {
			ctx.Merge(cr)
			return
		}
		// find the tuple that was being evaluated when the process died
		lines := strings.Split(strings.TrimSpace(string(jb)), "\n")
		last := lines[len(lines)-1]
		var ti int
		var via string
		if n, _ := fmt.Sscanf(last, "B %d %s", &ti, &via); n != 2 || ti < 0 || ti >= len(all) {
			ctx.Inconclusive("func child died outside a call: " + c6Short(stderr))
			return
		}
		sql := ""
		if via != "direct" {
			sql = "SELECT " + f.Name + "(…columns…) AS r, id FROM stream"
		}
		viol("func.fatal_crash", via, sql, all[ti], fmt.Sprintf("%s%s killed the process (not recoverable by the caller): %s", f.Name, c6ArgString(all[ti].Args), stderr))
		skip = ti + 1
	}
}

func c6FuncChild(ctx *core.Ctx, req c6ChildReq) {
	// bound the address space: an absurd allocation must fail fast instead of eating the machine
	lim := syscall.Rlimit{Cur: 6 << 30, Max: 6 << 30}
	_ = syscall.Setrlimit(syscall.RLIMIT_AS, &lim)
	table := c6Table()
	f := table[req.Index%len(table)]
	all := c6FuncTuples(f, ctx.Rng("func", req.Index))
	viol := c6FuncViol(ctx, f, req.Index)
	var jbuf bytes.Buffer
	journal := func(s string) {
		jbuf.Reset()
		jbuf.WriteString(s + "\n")
		if jf, err := os.OpenFile(req.Journal, os.O_APPEND|os.O_CREATE|os.O_WRONLY, 0o644); err == nil {
			_, _ = jf.Write(jbuf.Bytes())
			_ = jf.Sync()
			_ = jf.Close()
		}
	}
	fn, registered := functions.Get(f.Name)
	for ti, t := range all {
		if ti < req.Skip || !c6Dangerous(t.Args) {
			continue
		}
		if registered {
			journal(fmt.Sprintf("B %d direct", ti))
			got, err, pan := c6Direct(fn, t.Args)
			journal(fmt.Sprintf("E %d direct", ti))
			ctx.Count("func.direct_calls", 1)
			switch {
			case pan != "":
				viol("func.panic", "direct", "", t, fmt.Sprintf("functions.Get(%q).Execute%s panicked: %s", f.Name, c6ArgString(t.Args), c6Short(pan)))
			case t.Want == nil:
				ctx.Count("func.out_of_domain_calls_survived", 1)
			case err != nil:
				viol("func.in_domain_error", "direct", "", t, fmt.Sprintf("%s%s: documented value %s, Execute/Validate returned error: %v", f.Name, c6ArgString(t.Args), c6WantString(t.Want), err))
			default:
				ctx.Count("func.values_compared_with_reference", 1)
				if !c6Accepts(f, t.Want, got) {
					viol("func.wrong_value", "direct", "", t, fmt.Sprintf("%s%s: documented value %s, Execute returned %#v", f.Name, c6ArgString(t.Args), c6WantString(t.Want), got))
				}
			}
		}
		if len(t.Args) == 0 {
			continue
		}
		cols := make([]string, len(t.Args))
		row := Row{"id": ti}
		for k, v := range t.Args {
			cols[k] = fmt.Sprintf("a%df%dd", k, req.Index)
			row[cols[k]] = v
		}
		sql := "SELECT " + f.Name + "(" + strings.Join(cols, ", ") + ") AS r, id FROM stream"
		journal(fmt.Sprintf("B %d sql_columns", ti))
		outs, err := c6Run(sql, []Row{row}, []int{0})
		journal(fmt.Sprintf("E %d sql_columns", ti))
		if err != nil {
			if t.Want != nil {
				viol("func.execute_error", "sql_columns", sql, t, fmt.Sprintf("%s\n  Execute error: %s", sql, c6Short(err.Error())))
			}
			continue
		}
		c6JudgeFuncSQL(ctx, f, t, outs[0], "sql_columns", sql, viol)
	}
}

// ---- row-type order over bridge-evaluated column arithmetic ---------------------------------------------------
//
// `a` + `b` (back-quoted columns) and expr('a + b') are evaluated by the expression bridge, which decides per
// row whether "+" is a concatenation.  The value for a row must not depend on which differently-typed rows
// the same expression text saw before.  Every order gets its own column names, so the process-wide caches
// (keyed by expression text) start empty for each order without needing a fresh process.

func c06Order(ctx *core.Ctx) {
	templates := []string{"SELECT `%[1]s` + `%[2]s` AS r, id FROM stream", "SELECT expr('%[1]s + %[2]s') AS r, id FROM stream",
		"SELECT `%[1]s` - `%[2]s` AS r, id FROM stream", "SELECT `%[1]s` * 2 + `%[2]s` AS r, id FROM stream",
		// comparisons, whose compiled form may be specialised to the operand types of the first row
		"SELECT %[1]s <> '1' AS r, id FROM stream", "SELECT `%[1]s` != `%[2]s` AS r, id FROM stream",
		"SELECT expr('%[1]s == %[2]s') AS r, id FROM stream", "SELECT %[1]s <> %[2]s AS r, id FROM stream"}
	kinds := []string{"text", "int", "float", "null", "mixed"}
	mk := func(kind, a, b string, id int) Row {
		switch kind {
		case "text":
			return Row{"id": id, a: "ab", b: "cd"}
		case "int":
			return Row{"id": id, a: 1, b: 2}
		case "float":
			return Row{"id": id, a: 1.5, b: 2.25}
		case "null":
			return Row{"id": id, a: nil, b: 3}
		}
		return Row{"id": id, a: "7", b: 2}
	}
	perms := [][]int{}
	var rec func(cur []int, used int)
	rec = func(cur []int, used int) {
		if len(cur) == len(kinds) {
			perms = append(perms, append([]int(nil), cur...))
			return
		}
		for k := range kinds {
			if used&(1<<k) == 0 {
				rec(append(cur, k), used|1<<k)
			}
		}
	}
	rec(nil, 0)
	ctx.Cases("order", len(templates), 4, func(ti int, r *rand.Rand) {
		tpl := templates[ti]
		// result of each row kind when it is the FIRST row its expression text ever sees
		first := map[string]string{}
		type obs struct {
			order string
			val   string
		}
		seen := map[string][]obs{}
		for pi, perm := range perms {
			a, b := fmt.Sprintf("oa%d_%d_%d", ctx.Seed, ti, pi), fmt.Sprintf("ob%d_%d_%d", ctx.Seed, ti, pi)
			sql := fmt.Sprintf(tpl, a, b)
			rows := make([]Row, len(perm))
			names := make([]string, len(perm))
			for i, k := range perm {
				rows[i] = mk(kinds[k], a, b, i+1)
				names[i] = kinds[k]
			}
			outs, err := c6Run(sql, rows, c6Rot(len(rows), 0))
			if err != nil {
				ctx.Count("order.execute_errors", 1)
				continue
			}
			for i, k := range perm {
				v := c6Canon(outs[i], "value", false)
				if i == 0 {
					if _, ok := first[kinds[k]]; !ok {
						first[kinds[k]] = v
					}
				}
				seen[kinds[k]] = append(seen[kinds[k]], obs{strings.Join(names, ","), v})
			}
		}
		bad := 0
		for kind, list := range seen {
			want, ok := first[kind]
			if !ok {
				continue
			}
			for _, o := range list {
				ctx.Count("order.pairs_compared", 1)
				if o.val != want && bad == 0 {
					bad++
					ctx.Count("violations.invariance.history", 1)
					ctx.Violate(core.Violation{Kind: "invariance.history",
						Attrs: map[string]string{"mode": "row_type_order", "site": "select_bridge", "row": kind, "features": "arith"},
						Detail: fmt.Sprintf("%s\n  a %s row gives %s when it is the first row the expression sees, but %s when the rows arrive in the order %s",
							fmt.Sprintf(tpl, "a", "b"), kind, want, o.val, o.order),
						Case: &c06HistCase{CaseRef: core.CaseRef{Stream: "order", Index: ti}, SQL: fmt.Sprintf(tpl, "a", "b"), Row: kind, Rots: o.order}})
				}
			}
		}
		ctx.Case("order|"+tpl, true, map[string]any{"stream": "order", "sql": fmt.Sprintf(tpl, "a", "b"), "orders": len(perms)})
	})
}
