//go:build verif

package checks

import (
	"fmt"
	"math/rand"
	"sync"
	"time"

	"verif/internal/core"
	"verif/internal/eng"
)

// c05empty: rows that carry hardly anything - no field at all, or only fields the query does not read.  Such rows
// have no id, so the per-id machinery of the main stream cannot follow them; here the three delivery paths are
// compared by position: for every row, EmitSync returns a result iff the synchronous sink of the same instance
// receives one, and an Emit-fed twin instance delivers the same sequence.
func c05EmptyStream(ctx *core.Ctx) {
	n := ctx.N(12, 200)
	ctx.Cases("c05empty", n, workers(), func(i int, r *rand.Rand) {
		sql := pick(r, []string{"SELECT * FROM stream", "SELECT * FROM stream WHERE a IS NULL OR a >= 0", "SELECT a, b AS bb FROM stream", "SELECT * FROM stream WHERE a IS NULL"})
		var rows []Row
		for j := 0; j < 12; j++ {
			switch r.Intn(4) {
			case 0:
				rows = append(rows, Row{})
			case 1:
				rows = append(rows, Row{"zz": j})
			case 2:
				rows = append(rows, Row{"a": r.Intn(5), "b": "x"})
			default:
				rows = append(rows, Row{"a": nil})
			}
		}
		attrs := map[string]string{"mode": "empty_rows", "star": yesNo(sql[7] == '*')}
		viol := func(kind, detail string) {
			ctx.Violate(core.Violation{Kind: kind, Attrs: attrs, Detail: detail + "\n  sql: " + sql, Case: map[string]any{"stream": "c05empty", "index": i, "sql": sql, "rows": rows}})
		}
		sa, err := eng.New(sql, eng.Opts{})
		if err != nil {
			viol("paths.execute_disagree", err.Error())
			return
		}
		defer sa.Stop()
		var mu sync.Mutex
		var sinkA, sinkB []string
		sa.AddSyncSink(func(b []map[string]any) {
			mu.Lock()
			for _, m := range b {
				sinkA = append(sinkA, core.J(m))
			}
			mu.Unlock()
		})
		var ret []string
		for _, row := range rows {
			res, _, pan := c05SafeEmitSync(sa, c05Copy(row).(map[string]any))
			if pan != "" {
				viol("panic", "EmitSync panicked: "+pan)
				return
			}
			if res != nil {
				ret = append(ret, core.J(res))
			}
		}
		sb, err := eng.New(sql, eng.Opts{})
		if err != nil {
			viol("paths.execute_disagree", err.Error())
			return
		}
		sb.AddSyncSink(func(b []map[string]any) {
			mu.Lock()
			for _, m := range b {
				sinkB = append(sinkB, core.J(m))
			}
			mu.Unlock()
		})
		for _, row := range rows {
			if pan := c05SafeEmit(sb, c05Copy(row).(map[string]any)); pan != "" {
				viol("panic", "Emit panicked: "+pan)
				sb.Stop()
				return
			}
		}
		c05WaitDrained(sb, 10*time.Second)
		time.Sleep(20 * time.Millisecond)
		sb.Stop()
		mu.Lock()
		a, b := fmt.Sprint(sinkA), fmt.Sprint(sinkB)
		mu.Unlock()
		ctx.Count("empty.rows_fed", int64(len(rows)))
		if fmt.Sprint(ret) != a {
			viol("paths.sync_result_vs_sink", fmt.Sprintf("EmitSync returned %v but the synchronous sink of the same instance received %v for rows %v", ret, sinkA, rows))
			return
		}
		if a != b {
			viol("paths.emit_vs_emitsync", fmt.Sprintf("fed through EmitSync the sink received %v, fed through Emit it received %v, for the same rows %v", sinkA, sinkB, rows))
			return
		}
		ctx.Case("c05empty"+sql+core.J(rows), len(ret) > 0, nil)
	})
}
