package checks

import (
	"fmt"
	"math/rand"
	"regexp"
	"strconv"
	"strings"
	"time"

	"github.com/rulego/streamsql"
	"github.com/rulego/streamsql/rsql"

	"verif/internal/core"
	"verif/internal/eng"
)

// The four SQL sites of C12.  Every case starts two instances of the same statement, one with the
// bare (shortcut-shaped) predicate and one with its parenthesised twin, and feeds both the same rows.

type c12SiteDef struct {
	col  func(string) string
	sql  func(pred string) string
	sync bool
}

var c12Sites = map[string]c12SiteDef{
	"where": {sync: true,
		col: func(c string) string { return c },
		sql: func(p string) string { return "SELECT id FROM stream WHERE " + p }},
	"when": {sync: true,
		col: func(c string) string { return c },
		sql: func(p string) string { return "SELECT id, acc_count(id) OVER (WHEN " + p + ") AS n FROM stream" }},
	"having": {
		col: func(c string) string { return "l" + c },
		sql: func(p string) string {
			return "SELECT last_value(id) AS id, last_value(x) AS lx, last_value(y) AS ly, last_value(s) AS ls FROM stream GROUP BY CountingWindow(1) HAVING " + p
		}},
	"trigger": {
		col: func(c string) string { return "last_value(" + c + ")" },
		sql: func(p string) string {
			return "SELECT id, last_value(x) AS lx, last_value(y) AS ly, last_value(s) AS ls FROM stream GROUP BY id, GLOBAL WINDOW TRIGGER WHEN " + p
		}},
}

var c12TrigAggRe = regexp.MustCompile(`(?i)\blast_value\s*\(\s*\w+\s*\)`)

// c12SiteText returns the predicate text the site hands to condition.NewExprCondition (as produced
// by the SQL front end), only to read back which path it is compiled to.
func c12SiteText(site, sql string) (text string) {
	defer func() {
		if r := recover(); r != nil {
			text = ""
		}
	}()
	st, err := rsql.NewParser(sql).Parse()
	if err != nil {
		return ""
	}
	cfg, cond, err := st.ToStreamConfig()
	if err != nil {
		return ""
	}
	switch site {
	case "where":
		return cond
	case "having":
		return cfg.Having
	case "when":
		for _, af := range cfg.AnalyticFields {
			if af.Over != nil && af.Over.When != "" {
				return af.Over.When
			}
		}
	case "trigger":
		return c12TrigAggRe.ReplaceAllString(cfg.WindowConfig.TriggerCondition, "__trig_0__")
	}
	return ""
}

func c12EmitSync(s *streamsql.Streamsql, row Row) (out map[string]any, err error, pan any) {
	defer func() {
		if r := recover(); r != nil {
			pan = r
		}
	}()
	out, err = s.EmitSync(row)
	return
}

// c12SyncDecisions feeds rows through EmitSync and returns the per-row accept decisions.
func c12SyncDecisions(site string, s *streamsql.Streamsql, rows []Row) (dec []bool, errs int, pan any) {
	dec = make([]bool, len(rows))
	var prev any
	for i, row := range rows {
		out, err, p := c12EmitSync(s, c12CopyRow(row))
		if p != nil {
			return dec, errs, fmt.Sprintf("row %d: %v", i, p)
		}
		if err != nil {
			errs++
			continue
		}
		if site == "where" {
			dec[i] = out != nil
			continue
		}
		// when: the accumulating count advances iff the WHEN predicate held
		if out == nil {
			continue
		}
		n := out["n"]
		dec[i] = n != nil && !numEq(n, prev) && !(prev == nil && numEq(n, 0))
		prev = n
	}
	return dec, errs, nil
}

type c12AsyncInst struct {
	s   *streamsql.Streamsql
	rec *eng.Rec
}

func (a *c12AsyncInst) ids() map[int]bool {
	out := map[int]bool{}
	for _, d := range a.rec.Deliveries() {
		for _, row := range d.Rows {
			if n, ok := toI(row["id"]); ok {
				out[int(n)] = true
			}
		}
	}
	return out
}

func (a *c12AsyncInst) waitID(id int, max time.Duration) bool {
	deadline := time.Now().Add(max)
	for {
		if a.ids()[id] {
			return true
		}
		if time.Now().After(deadline) {
			return false
		}
		time.Sleep(time.Millisecond)
	}
}

func c12RunSite(ctx *core.Ctx, site string, ref core.CaseRef, r *rand.Rand, nrows int) {
	def := c12Sites[site]
	p := c12GenPred(r, true)
	and, or := pick(r, []string{"AND", "and", "And"}), pick(r, []string{"OR", "or"})
	fast := p.render(r, def.col, and, or, false)
	gen := "(" + fast + ")"
	sqlF, sqlG := def.sql(fast), def.sql(gen)
	cs := &c12Case{CaseRef: ref, Site: site, Fast: fast, General: gen, SQLFast: sqlF, SQLGen: sqlG}
	base := map[string]string{"site": site, "chain": p.chainAttr(), "operator": p.opsAttr(), "literal": p.litAttr()}
	mk := func(extra ...string) map[string]string {
		m := map[string]string{}
		for k, v := range base {
			m[k] = v
		}
		for i := 0; i+1 < len(extra); i += 2 {
			m[extra[i]] = extra[i+1]
		}
		return m
	}
	var safeStr func(string) bool
	if site == "trigger" { // the global window casts numeric-looking inputs to float64 before aggregating
		safeStr = func(s string) bool {
			_, err := strconv.ParseFloat(strings.TrimSpace(s), 64)
			return err != nil && s != ""
		}
	}
	// rows: controls, grid rows, the same controls again
	controls := c12Controls(r, p, safeStr)
	var rows []Row
	for _, c := range controls {
		rows = append(rows, c12CopyRow(c))
	}
	for len(rows) < nrows-len(controls) {
		rows = append(rows, c12GenRow(r, p, 0))
	}
	for _, c := range controls {
		rows = append(rows, c12CopyRow(c))
	}
	for i := range rows {
		rows[i]["id"] = i
	}
	cs.NRows = len(rows)

	sF, errF := eng.New(sqlF, eng.Opts{})
	sG, errG := eng.New(sqlG, eng.Opts{})
	defer func() {
		if sF != nil {
			sF.Stop()
		}
		if sG != nil {
			sG.Stop()
		}
	}()
	if errF != nil || errG != nil {
		switch {
		case strings.Contains(fmt.Sprint(errF, errG), "PANIC"):
			ctx.Violate(core.Violation{Kind: "engine.panic", Attrs: mk(), Detail: fmt.Sprintf("Execute panicked: %v / %v for %q", errF, errG, sqlF), Case: cs})
		case (errF == nil) != (errG == nil):
			ctx.Violate(core.Violation{Kind: "compile.differs", Attrs: mk(), Detail: fmt.Sprintf("Execute(%q): %v; Execute(%q): %v", sqlF, errF, sqlG, errG), Case: cs})
		default:
			ctx.Count(site+".statement_not_accepted["+c12Reason(p, errF)+"]", 1)
		}
		ctx.Case(site+"|"+fast, false, nil)
		return
	}
	pf, pg := c12Path(c12SiteText(site, sqlF)), c12Path(c12SiteText(site, sqlG))
	ctx.Count(site+".path."+pf, 1)
	if pf == "general" && core.EnvInt("C12_DEBUG", 0) > 0 {
		fmt.Printf("DEBUG general-path bare text at %s: %q (site text %q)\n", site, fast, c12SiteText(site, sqlF))
	}
	if pg != "general" && pg != "compile_error" {
		// the twin is no independent comparator then; the reference clause below still judges both decisions
		ctx.Count(site+".parenthesised_twin_not_on_the_general_path", 1)
	}

	var dF, dG []bool
	quiet := true
	if def.sync {
		var e1, e2 int
		var p1, p2 any
		dF, e1, p1 = c12SyncDecisions(site, sF, rows)
		dG, e2, p2 = c12SyncDecisions(site, sG, rows)
		if p1 != nil || p2 != nil {
			ctx.Violate(core.Violation{Kind: "engine.panic", Attrs: mk(), Detail: fmt.Sprintf("EmitSync panicked: %v / %v for %q", p1, p2, sqlF), Case: cs})
			return
		}
		ctx.Count(site+".emit_sync_errors", int64(e1+e2))
	} else {
		aF, aG := &c12AsyncInst{s: sF, rec: eng.Attach(sF)}, &c12AsyncInst{s: sG, rec: eng.Attach(sG)}
		for _, row := range rows {
			aF.rec.Emit(c12CopyRow(row))
			aG.rec.Emit(c12CopyRow(row))
		}
		read := func() {
			iF, iG := aF.ids(), aG.ids()
			dF, dG = make([]bool, len(rows)), make([]bool, len(rows))
			for i := range rows {
				dF[i], dG[i] = iF[i], iG[i]
			}
		}
		agree := func() bool {
			for i, row := range rows {
				if dF[i] != dG[i] {
					return false
				}
				if want, ok := c12Ref(p, row, safeStr); ok && want != dG[i] {
					return false
				}
			}
			return true
		}
		settled := false
		if len(controls) > 0 { // the last row is a control row: its delivery marks the end of the run
			last := len(rows) - 1
			if aF.waitID(last, 5*time.Second) && aG.waitID(last, 5*time.Second) {
				aF.rec.Quiesce(2, 2*time.Millisecond, time.Second)
				aG.rec.Quiesce(2, 2*time.Millisecond, time.Second)
				read()
				settled = agree()
			}
		}
		if !settled { // any disagreement is only judged once both engines have gone quiet
			q1 := aF.rec.Quiesce(3, 250*time.Millisecond, 30*time.Second)
			q2 := aG.rec.Quiesce(3, 250*time.Millisecond, 30*time.Second)
			quiet = q1 && q2
			read()
			ctx.Count(site+".full_quiescence_waits", 1)
		}
		if aF.rec.Overloaded() || aG.rec.Overloaded() {
			ctx.Inconclusive("engine declared overload")
			return
		}
		if !quiet {
			ctx.Inconclusive("engine not quiescent")
			return
		}
	}

	// the expr-lang spelling of the predicate over the raw columns (sites that see the raw row)
	vanText := ""
	var q c12Pred
	if site == "where" || site == "when" {
		q = c12Pred{Join: p.Join, Joins: p.Joins}
		ok := true
		for _, c := range p.Parts {
			if c.Op == "=" {
				c.Op = "=="
			}
			if c.Op == "<>" {
				ok = false
			}
			q.Parts = append(q.Parts, c)
		}
		if ok {
			vanText = q.render(nil, func(c string) string { return c }, "&&", "||", false)
		}
	}
	van := c12Vanilla(vanText)
	if vanText == "" {
		van = nil
	}

	agg := newC12Agg()
	acc, rej, failing := 0, 0, 0
	failingSeen := false
	for i, row := range rows {
		typ, rng := c12RowAttrs(p, row)
		shown := c12ShowRow(row, p.cols())
		vcase := *cs
		vcase.Row = shown
		if dG[i] {
			acc++
		} else {
			rej++
		}
		if dF[i] != dG[i] {
			agg.add(core.Violation{Kind: "fastpath.differs", Attrs: mk("value_type", typ, "range", rng, "fast_says", fmt.Sprint(dF[i])),
				Detail: fmt.Sprintf("site %s: row %d %s is %s by %q (path %s) but %s by %q (general path)", site, i, shown, c12Word(dF[i]), sqlF, pf, c12Word(dG[i]), sqlG), Case: &vcase})
		}
		if van != nil {
			_, failed := c12RunVanilla(van, c12CopyRow(row))
			if failed {
				failing++
				failingSeen = true
				if (dF[i] || dG[i]) && !c12RescuedByOr(q, row) {
					agg.add(core.Violation{Kind: "failure.accepts_row", Attrs: mk("value_type", typ, "range", rng),
						Detail: fmt.Sprintf("site %s: expr-lang fails to evaluate %q on row %s, yet the row was accepted (bare: %v, parenthesised: %v)", site, vanText, shown, dF[i], dG[i]), Case: &vcase})
				}
			}
		}
		if want, ok := c12Ref(p, row, safeStr); ok && (want != dF[i] || want != dG[i]) {
			kind := "welltyped.wrong_decision"
			isBackControl := i >= len(rows)-len(controls)
			if isBackControl {
				front := i - (len(rows) - len(controls))
				if dF[front] && dG[front] {
					kind = "failure.aborts_stream"
				}
			}
			agg.add(core.Violation{Kind: kind, Attrs: mk("value_type", typ, "range", rng),
				Detail: fmt.Sprintf("site %s: row %d %s must be %s under plain comparison semantics; %q %s it, %q %s it (failing evaluations seen earlier in the run: %v)",
					site, i, shown, c12Word(want), sqlF, c12Word(dF[i]), sqlG, c12Word(dG[i]), failingSeen), Case: &vcase})
		}
	}
	agg.flush(ctx)
	ctx.Count("pairs."+site, int64(len(rows)))
	ctx.Count(site+".accepted_by_general", int64(acc))
	ctx.Count(site+".rejected_by_general", int64(rej))
	ctx.Count(site+".failing_evaluations_observed", int64(failing))
	ctx.Count(site+".control_rows_checked", int64(2*len(controls)))
	var sample any
	if ref.Index < 1 {
		sample = map[string]any{"site": site, "sql_fast": sqlF, "sql_general": sqlG, "path": pf, "rows": len(rows), "accepted": acc, "rejected": rej, "first_row": c12ShowRow(rows[len(controls)], []string{"x", "y", "s"})}
	}
	ctx.Case(site+"|"+fast+"|"+c12RowsSig(rows), (pf == "fast" || pf == "compound") && pg == "general" && acc > 0 && rej > 0, sample)
}

func c12Word(b bool) string {
	if b {
		return "accepted"
	}
	return "rejected"
}
