package checks

import (
	"fmt"
	"github.com/rulego/streamsql"
	"math"
	"math/rand"
	"sort"
	"strconv"
	"strings"
	"time"

	"verif/internal/core"
	"verif/internal/eng"
)

type Row = map[string]any

const baseTs int64 = 1699998300000 // ms; a multiple of 60 060 000 ms = lcm of every size/slide used (250ms…60s, 3s, 5s and the
// non-round 700ms, 1.3s, 7s, 11s, 13s), so slots relative to baseTs coincide with epoch-aligned slots; far from the 24 h future guard

// ---- typed values --------------------------------------------------------------------------

// tkey encodes one scalar as a typed canonical string: NULL and missing are the same NULL, numbers
// compare by value, strings exactly.
func tkey(v any) string {
	switch x := v.(type) {
	case evK2:
		return "T(" + tkey(x.A) + "\x01" + tkey(x.B) + ")"
	case nil:
		return "N"
	case string:
		return "S" + strconv.Itoa(len(x)) + ":" + x
	case bool:
		if x {
			return "Bt"
		}
		return "Bf"
	}
	switch x := v.(type) { // integers beyond 2^53 are not exact as float64: keep them apart
	case int, int64, uint, uint64:
		if i, _ := toI(x); i >= 1<<53 || i <= -(1<<53) {
			return "I" + strconv.FormatInt(i, 10)
		}
	}
	if f, ok := toF(v); ok {
		return "F" + strconv.FormatFloat(f, 'g', -1, 64)
	}
	return fmt.Sprintf("O%T:%v", v, v)
}

// tuple encodes the values of cols in row as a typed tuple key.
func tuple(row Row, cols []string) string {
	parts := make([]string, len(cols))
	for i, c := range cols {
		parts[i] = tkey(row[c])
	}
	return strings.Join(parts, "\x01")
}

func toF(v any) (float64, bool) {
	switch x := v.(type) {
	case float64:
		return x, true
	case float32:
		return float64(x), true
	case int:
		return float64(x), true
	case int8:
		return float64(x), true
	case int16:
		return float64(x), true
	case int32:
		return float64(x), true
	case int64:
		return float64(x), true
	case uint:
		return float64(x), true
	case uint8:
		return float64(x), true
	case uint16:
		return float64(x), true
	case uint32:
		return float64(x), true
	case uint64:
		return float64(x), true
	}
	return 0, false
}

func toI(v any) (int64, bool) {
	switch x := v.(type) {
	case int:
		return int64(x), true
	case int8:
		return int64(x), true
	case int16:
		return int64(x), true
	case int32:
		return int64(x), true
	case int64:
		return x, true
	case uint:
		return int64(x), true
	case uint8:
		return int64(x), true
	case uint16:
		return int64(x), true
	case uint32:
		return int64(x), true
	case uint64:
		return int64(x), true
	case float64:
		return int64(x), true
	case float32:
		return int64(x), true
	case string:
		n, err := strconv.ParseInt(x, 10, 64)
		return n, err == nil
	}
	return 0, false
}

// idList converts a collect(id) result into ints.
func idList(v any) ([]int, bool) {
	switch x := v.(type) {
	case nil:
		return nil, true
	case []any:
		out := make([]int, 0, len(x))
		for _, e := range x {
			n, ok := toI(e)
			if !ok {
				return nil, false
			}
			out = append(out, int(n))
		}
		return out, true
	case []int:
		return append([]int(nil), x...), true
	case []float64:
		out := make([]int, len(x))
		for i, e := range x {
			out[i] = int(e)
		}
		return out, true
	}
	return nil, false
}

// numEq compares two values numerically with tolerance; NULL equals only NULL.
func numEq(a, b any) bool {
	if a == nil || b == nil {
		return a == nil && b == nil
	}
	fa, oka := toF(a)
	fb, okb := toF(b)
	if !oka || !okb {
		return fmt.Sprint(a) == fmt.Sprint(b)
	}
	return feq(fa, fb)
}

func feq(a, b float64) bool {
	if math.IsNaN(a) || math.IsNaN(b) {
		return math.IsNaN(a) && math.IsNaN(b)
	}
	if a == b {
		return true
	}
	d := math.Abs(a - b)
	if d <= 1e-9 {
		return true
	}
	return d <= 1e-9*math.Max(math.Abs(a), math.Abs(b))
}

// valEq compares two scalar results: numbers numerically, everything else by typed key.
func valEq(a, b any) bool {
	if _, ok := toF(a); ok {
		return numEq(a, b)
	}
	return tkey(a) == tkey(b)
}

func sortedInts(a []int) []int {
	out := append([]int(nil), a...)
	sort.Ints(out)
	return out
}

func intsEq(a, b []int) bool {
	if len(a) != len(b) {
		return false
	}
	for i := range a {
		if a[i] != b[i] {
			return false
		}
	}
	return true
}

// ---- generators ----------------------------------------------------------------------------

// keyAlphabet is the separator-heavy string alphabet of DESIGN §4.4.
var keyAlphabet = []string{"a", "b", "", "|", ",", "\x1f", "\x00NULL", " ", "a|b", "b|c", "c", "a,b", "a\x1fb", "A", "1",
	// escape characters and spellings an escaping scheme might reserve
	`\`, `\N`, `a\`, `\|`, `a\|b`, `\\N`, `\s`, `\0`}

var plainKeys = []string{"a", "b", "c", "d", "e", "f"}

// keyShape classifies a set of key tuples for known-finding matching.
func keyShape(vals []any) string {
	hasNull, hasEmpty, sep := false, false, ""
	for _, v := range vals {
		switch x := v.(type) {
		case nil:
			hasNull = true
		case string:
			if x == "" {
				hasEmpty = true
			}
			if strings.Contains(x, "|") {
				sep += "pipe,"
			}
			if strings.Contains(x, "\x1f") {
				sep += "us,"
			}
			if strings.Contains(x, "\x00NULL") {
				sep += "nullmarker,"
			}
		}
	}
	s := ""
	for _, k := range []string{"pipe", "us", "nullmarker"} {
		if strings.Contains(sep, k+",") {
			s += k + "+"
		}
	}
	if hasNull && hasEmpty {
		s += "null_and_empty+"
	} else if hasNull {
		s += "null+"
	}
	if s == "" {
		return "plain"
	}
	return strings.TrimSuffix(s, "+")
}

func pick[T any](r *rand.Rand, xs []T) T { return xs[r.Intn(len(xs))] }

// genValue draws a numeric aggregate input: ints, floats (negative, zero, repeated, large), NULL,
// missing (returned as ok=false).
func genValue(r *rand.Rand) (v any, present bool) {
	switch r.Intn(12) {
	case 0:
		return nil, true
	case 1:
		return nil, false
	case 2:
		return 0, true
	case 3:
		return float64(r.Intn(5)) + 0.5, true
	case 4:
		return -float64(r.Intn(100)) / 4, true
	case 5:
		return float64(r.Intn(1e6)) * 1e3, true
	case 6:
		return int64(r.Intn(7)), true
	default:
		return r.Intn(21) - 10, true
	}
}

// ---- engine helpers --------------------------------------------------------------------------

// runWindow feeds rows to a fresh instance of sql and returns the deliveries once `expect`
// deliveries were seen (fast path) or the engine is quiescent.  ok=false ⇒ inconclusive.
type runOpts struct {
	Opts     eng.Opts
	Expect   int                                 // expected number of deliveries (-1: unknown → full quiescence)
	Pace     time.Duration                       // sleep between rows
	PaceFn   func(i int)                         // optional per-row hook
	Each     func(s *streamsql.Streamsql, i int) // optional per-row hook with the instance (monitoring calls)
	Settle   time.Duration
	NoStop   bool
	MaxWait  time.Duration
	FullWait bool
}

type runResult struct {
	Dels       []eng.Delivery
	Overloaded bool
	Quiescent  bool
	Err        error
	Stats      map[string]int64
}

func runWindow(sql string, rows []Row, ro runOpts) runResult {
	s, err := eng.New(sql, ro.Opts)
	if err != nil {
		return runResult{Err: err}
	}
	rec := eng.Attach(s)
	defer s.Stop()
	for i, row := range rows {
		rec.Emit(row)
		if ro.PaceFn != nil {
			ro.PaceFn(i)
		}
		if ro.Each != nil {
			ro.Each(s, i)
		}
		if ro.Pace > 0 {
			time.Sleep(ro.Pace)
		}
	}
	maxWait := ro.MaxWait
	if maxWait == 0 {
		maxWait = 10 * time.Second
	}
	res := runResult{}
	if ro.Expect >= 0 && !ro.FullWait {
		got := rec.WaitDeliveries(ro.Expect, maxWait)
		// brief settle so that surplus deliveries have a chance to show
		res.Quiescent = rec.Quiesce(2, 2*time.Millisecond, 2*time.Second) && got
		if !got {
			// a missing delivery is only declared after a long, engine-quiet wait
			res.Quiescent = rec.Quiesce(3, 250*time.Millisecond, 20*time.Second)
		}
	} else {
		res.Quiescent = rec.Quiesce(3, 250*time.Millisecond, 60*time.Second)
	}
	res.Dels = rec.Deliveries()
	res.Overloaded = rec.Overloaded()
	res.Stats = s.GetStats()
	if ctx := evCtx; ctx != nil {
		var b strings.Builder
		mid := 0
		for _, d := range res.Dels {
			fmt.Fprintf(&b, "%d,", d.Started)
			if int(d.Started) < len(rows) {
				mid++
			}
		}
		ctx.Seen("emit_delivery_interleavings", b.String())
		ctx.Count("observed.deliveries", int64(len(res.Dels)))
		ctx.Count("observed.emit_calls", int64(len(rows)))
		ctx.Count("observed.deliveries_while_producer_still_emitting", int64(mid))
	}
	return res
}

func workers() int {
	n := int(core.EnvInt("VERIF_WORKERS", 16))
	if n < 1 {
		n = 1
	}
	return n
}

func sqlStr(s string) string { return "'" + strings.ReplaceAll(s, "'", "''") + "'" }
