package checks

import (
	"fmt"
	"math/rand"
	"sort"
	"strings"
	"sync"
	"time"

	"verif/internal/core"
	"verif/internal/eng"
	"verif/internal/sched"
)

// C02 — watermark discipline: no early firing, no on-time loss, bounded late updates.

func init() { register(&Check{ID: "C02", Race: true, Run: runC02}) }

func runC02(ctx *core.Ctx) {
	evCtx = ctx
	ctx.SetRule("four case streams from PRNG(seed,index): early (tumbling/sliding/session, paced or stepwise feed: every delivery is checked against the largest timestamp among the Emit calls started so far, and every on-time row must be delivered); " +
		"late (ALLOWEDLATENESS>0, stepwise feed, late rows aimed at fired windows inside/outside the allowance); garbage (same clean sequence with and without far-future / unusable-timestamp / too-late rows, also as the first row); idle (IDLETIMEOUT with wall-clock timestamps). " +
		"non-trivial = at least 2 deliveries and at least one delivery whose started-count was below the total (early), one late row demanded or forbidden (late), one garbage row (garbage); distinct by (SQL, rows, feed) hash")
	ctx.Assume("single producer; block strategy", "the started-Emit counter read inside the sink is an upper bound of the rows processed, so the no-early-firing condition is necessary, not sufficient",
		"the zone where the statement's two lateness criteria disagree (ts < watermark−AL but window_end+AL > watermark) is left unconstrained (DESIGN §5 C02)")
	n := ctx.N(54, 1500)
	ctx.Cases("c02early", n, 4*workers(), func(i int, r *rand.Rand) {
		var c *evCase
		ref := core.CaseRef{Stream: "c02early", Index: i}
		switch i % 3 {
		case 0:
			c = genEvTumbling(ref, r, 30)
			if i%2 == 0 {
				// rows exactly on window boundaries together with an allowance shorter than the window: the
				// previous window expires while the boundary row's own window is still open
				for k := 0; k < 80 && !(c.Pattern == "boundary" && c.AlMs > 0 && c.AlMs < c.SizeMs); k++ {
					c = genEvTumbling(ref, r, 100)
				}
			}
		case 1:
			c = genEvSliding(ref, r)
		default:
			if i%2 == 0 {
				c = genC02SessionInside(ref, r)
			} else {
				c = genEvSession(ref, r)
			}
		}
		c.Feed = pick(r, []string{"paced", "step", "step"})
		execC02Early(ctx, c)
	})
	// back-pressure: a burst of more than 100 new-maximum rows while the trigger goroutine is held up by a full
	// window output buffer (slow sink), then silence: every on-time row is still delivered
	nbp := ctx.N(3, 24)
	ctx.Cases("c02bp", nbp, 8, func(i int, r *rand.Rand) {
		kind := []string{"tumbling", "sliding", "session"}[i%3]
		c := &evCase{CaseRef: core.CaseRef{Stream: "c02bp", Index: i}, Kind: kind, SizeMs: 1000, SlideMs: 500, Pattern: "backpressure", Feed: "burst", Grouped: true}
		c.WinOut = 1
		c.SinkDelayMs = 15 + r.Intn(25)
		t := int64(5000)
		for j, n := 1, 200+r.Intn(200); j <= n; j++ {
			t += 40 + int64(r.Intn(120))
			c.Rows = append(c.Rows, evRow{ID: j, TS: t, K: plainKeys[r.Intn(2)], V: r.Intn(50)})
		}
		c.Tail = t + 10*c.SizeMs
		c.buildSQL()
		execC02Early(ctx, c)
	})
	nl := ctx.N(30, 1500)
	ctx.Cases("c02late", nl, 4*workers(), func(i int, r *rand.Rand) {
		execC02Late(ctx, genC02Late(core.CaseRef{Stream: "c02late", Index: i}, r))
	})
	ng := ctx.N(18, 900)
	ctx.Cases("c02garbage", ng, 4*workers(), func(i int, r *rand.Rand) {
		execC02Garbage(ctx, core.CaseRef{Stream: "c02garbage", Index: i}, r)
	})
	ni := ctx.N(6, 24)
	ctx.Cases("c02idle", ni, 6, func(i int, r *rand.Rand) {
		execC02Idle(ctx, core.CaseRef{Stream: "c02idle", Index: i}, r)
	})
	for k, v := range sched.Hits() {
		ctx.Count("hook_hits."+k, v)
	}
	ctx.Count("perturbation_actions", sched.Acted())
}

// genC02SessionInside: sessions that receive an out-of-order (but on-time) event lying strictly inside them,
// after which another key's event moves the watermark to a point between (that inner event + timeout) and the
// session's real end (its latest event + timeout); one more event of the session follows.  Nothing may be
// delivered for the session until the watermark passes the real end.
func genC02SessionInside(ref core.CaseRef, r *rand.Rand) *evCase {
	c := &evCase{CaseRef: ref, Kind: "session", Grouped: true, Pattern: "inside"}
	T := pick(r, []int64{500, 1000, 5000})
	c.SizeMs = T
	c.MooMs = pick(r, []int64{T / 2, T, 2 * T})
	t0 := 4*(c.MooMs+T) + int64(r.Intn(int(T)))
	id := 0
	add := func(ts int64, k string) {
		id++
		c.Rows = append(c.Rows, evRow{ID: id, TS: ts, K: k, V: r.Intn(100)})
	}
	var max int64
	for m, n := 0, 2+r.Intn(4); m < n; m++ {
		k, other := plainKeys[m%3], plainKeys[(m+1)%3]
		hi := 5*T/10 + int64(r.Intn(int(3*T/10))) // latest event of the session so far, relative to t0
		in := 1 + int64(r.Intn(int(hi-1)))        // the inner, out-of-order event
		if hi-in > c.MooMs {
			in = hi - c.MooMs
		}
		add(t0, k)
		add(t0+hi, k)
		add(t0+in, k)
		wm := t0 + in + T + int64(r.Intn(int(hi-in))) // watermark aimed inside [inner+T, latest+T)
		add(wm+c.MooMs, other)
		add(t0+hi+T-1-int64(r.Intn(int(T/10))), k) // still within the timeout of the latest event
		max = wm + c.MooMs
		if e := t0 + hi + T; e > max {
			max = e
		}
		t0 = max + 3*T + c.MooMs + int64(r.Intn(int(T)))
	}
	c.Tail = max + c.MooMs + 10*T
	c.buildSQL()
	return c
}

// prefixMax[i] = largest usable timestamp among the first i emitted rows (rows, then sentinel).
func (c *evCase) prefixMax() []int64 {
	pm := make([]int64, len(c.Rows)+2)
	m := int64(-1 << 62)
	pm[0] = m
	for i, r := range c.Rows {
		if (r.G == "" || r.G == "toolate") && r.TS > m {
			m = r.TS
		}
		pm[i+1] = m
	}
	pm[len(c.Rows)+1] = max64(m, c.Tail)
	return pm
}

func execC02Early(ctx *core.Ctx, c *evCase) {
	onTime, _ := evOnTime(c.Rows, c.MooMs)
	res := c.run(-1)
	attrs := evShape(c)
	viol := func(kind, detail string) {
		ctx.Violate(core.Violation{Kind: kind, Attrs: attrs, Detail: detail + "\n  sql: " + c.SQL, Case: c})
	}
	if res.Err != nil {
		viol("watermark.execute_error", res.Err.Error())
		return
	}
	if res.Overload || !res.Quiescent {
		ctx.Inconclusive("overload or not quiescent")
		return
	}
	wins, err := evDecode(res.Dels)
	if err != nil {
		viol("watermark.undecodable_result", err.Error())
		return
	}
	pm := c.prefixMax()
	binding := 0
	seen := map[int]bool{}
	tsOf := map[int]int64{}
	for _, r := range c.Rows {
		if r.G == "" {
			tsOf[r.ID] = r.TS
		}
	}
	for _, w := range wins {
		st := int(w.Start0)
		if st > len(c.Rows)+1 {
			st = len(c.Rows) + 1
		}
		if st <= len(c.Rows) {
			binding++
		}
		end := w.End
		if c.Kind == "session" {
			// a session ends at its latest event plus the timeout, whatever end the result claims
			for _, id := range w.IDs {
				if ts, ok := tsOf[id]; ok && ts+c.SizeMs > end {
					end = ts + c.SizeMs
				}
			}
		}
		if pm[st] < end+c.MooMs {
			w.End = end
			viol("watermark.early_firing", fmt.Sprintf("%s result [%d,%d) delivered when only %d Emit calls had started; their largest timestamp %d < window_end+MAXOUTOFORDERNESS = %d",
				c.Kind, w.Start, w.End, st, pm[st], w.End+c.MooMs))
			return
		}
		for _, id := range w.IDs {
			seen[id] = true
		}
	}
	for i, r := range c.Rows {
		if c.Kind == "sliding" && r.TS-floorDiv(r.TS, c.SlideMs)*c.SlideMs >= c.SizeMs {
			continue // slide > size: the row lies between two intervals and belongs to none
		}
		if r.G == "" && onTime[i] && !seen[r.ID] {
			viol("watermark.on_time_row_discarded", fmt.Sprintf("%s: row id=%d ts=%d was not older than the watermark when it arrived but is in no result (sentinel ts %d)", c.Kind, r.ID, r.TS, c.Tail))
			return
		}
	}
	ctx.Count("early.deliveries_checked", int64(len(wins)))
	ctx.Count("early.deliveries_with_binding_started_count", int64(binding))
	var sample any
	if c.Index < 2 {
		sample = evSample(c, len(res.Dels))
	}
	ctx.Case("early"+c.SQL+core.J(c.Rows)+c.Feed, len(wins) >= 2 && binding > 0, sample)
}

// ---- late updates ------------------------------------------------------------------------------

func genC02Late(ref core.CaseRef, r *rand.Rand) *evCase {
	c := &evCase{CaseRef: ref, Feed: "step", Pattern: "lateupdate"}
	c.Kind = pick(r, []string{"tumbling", "tumbling", "sliding", "session"})
	if r.Intn(2) == 0 {
		// every clause is conditional on what had been observed when the late row's Emit started (or is decided
		// from the emit log alone), so any schedule may be used; in a burst the late-update delivery of one row
		// overlaps the firing caused by the row before it
		c.Feed = "burst"
	}
	switch c.Kind {
	case "tumbling":
		c.SizeMs = pick(r, []int64{1000, 2000, 700, 7000})
	case "sliding":
		c.SizeMs, c.SlideMs = 2000, 1000
		if r.Intn(3) == 0 {
			c.SizeMs, c.SlideMs = 2100, 700
		}
	case "session":
		c.SizeMs = 1000
	}
	c.Grouped = c.Kind == "session" || r.Intn(2) == 0
	c.MooMs = pick(r, []int64{0, 0, c.SizeMs / 2})
	c.AlMs = pick(r, []int64{c.SizeMs, 3 * c.SizeMs})
	if c.Kind == "tumbling" && r.Intn(3) == 0 {
		c.AlMs = c.SizeMs / 2 // an allowance shorter than the window: a fired window expires while the next one is still open
	}
	if c.Kind == "session" && ref.Index%2 == 0 {
		return genC02LateOlderSession(c, r)
	}
	keys := []any{"a", "b"}
	if !c.Grouped {
		keys = []any{nil}
	}
	t := 10 * c.SizeMs
	id := 0
	var max int64
	n := 12 + r.Intn(40)
	for i := 0; i < n; i++ {
		t += int64(r.Intn(int(c.SizeMs))) + 1
		if c.Kind == "session" && r.Intn(4) == 0 {
			t += 2 * c.SizeMs
		}
		if c.Kind == "tumbling" && r.Intn(5) == 0 {
			t = (t/c.SizeMs + 1) * c.SizeMs // exactly on a window boundary
		}
		id++
		c.Rows = append(c.Rows, evRow{ID: id, TS: t, K: pick(r, keys), V: r.Intn(100)})
		if t > max {
			max = t
		}
		if i > 4 && r.Intn(3) == 0 {
			// a late row relative to the current watermark (max − MOO)
			wm := max - c.MooMs
			var d int64
			switch r.Intn(4) {
			case 0: // far beyond the allowance
				d = c.AlMs + 2*c.SizeMs + int64(r.Intn(int(3*c.SizeMs)))
			case 1: // around the allowance edge
				d = c.AlMs - 50 + int64(r.Intn(100))
			default: // inside the allowance
				d = 1 + int64(r.Intn(int(c.AlMs)))
			}
			lt := wm - d
			if lt < 0 {
				lt = 0
			}
			id++
			c.Rows = append(c.Rows, evRow{ID: id, TS: lt, K: pick(r, keys), V: r.Intn(100)})
		}
	}
	c.Tail = max + c.MooMs + c.AlMs + 10*c.SizeMs
	c.buildSQL()
	return c
}

// genC02LateOlderSession: two sessions of one key have both fired and are both still inside the allowance when a
// late row arrives for the OLDER one (and then one for the newer one): each must be delivered again under its
// own window_id with the row added.
func genC02LateOlderSession(c *evCase, r *rand.Rand) *evCase {
	T := c.SizeMs
	c.Pattern, c.Feed, c.Grouped = "lateupdate_older_session", "step", true
	c.AlMs = 8 * T
	t0 := 10*T + int64(r.Intn(int(T)))
	id := 0
	add := func(ts int64, k string) {
		id++
		c.Rows = append(c.Rows, evRow{ID: id, TS: ts, K: k, V: r.Intn(100)})
	}
	var max int64
	for m, n := 0, 1+r.Intn(3); m < n; m++ {
		k, other := plainKeys[m%2], plainKeys[2]
		add(t0, k)
		add(t0+T/2, k) // session 1: [t0, t0+1.5T)
		add(t0+3*T, k)
		add(t0+3*T+T/3, k)                         // session 2: [t0+3T, t0+4.33T)
		add(t0+7*T+int64(r.Intn(int(T/2))), other) // pushes the watermark past both
		max = c.Rows[len(c.Rows)-1].TS
		add(t0+T/4, k)     // late, inside session 1, inside the allowance
		add(t0+3*T+T/4, k) // late, inside session 2
		if r.Intn(2) == 0 {
			add(t0+T/3, k) // a second late row for the older session
		}
		t0 = max + 12*T
	}
	c.Tail = max + c.MooMs + c.AlMs + 10*T
	c.buildSQL()
	return c
}

func execC02Late(ctx *core.Ctx, c *evCase) {
	onTime, wmAt := evOnTime(c.Rows, c.MooMs)
	byID := map[int]evRow{}
	idx := map[int]int{}
	for i, r := range c.Rows {
		byID[r.ID] = r
		idx[r.ID] = i
	}
	res := c.run(-1)
	attrs := evShape(c)
	viol := func(kind, detail string) {
		ctx.Violate(core.Violation{Kind: kind, Attrs: attrs, Detail: detail + "\n  sql: " + c.SQL, Case: c})
	}
	if res.Err != nil {
		viol("late.execute_error", res.Err.Error())
		return
	}
	if res.Overload || !res.Quiescent {
		ctx.Inconclusive("overload or not quiescent")
		return
	}
	wins, err := evDecode(res.Dels)
	if err != nil {
		viol("late.undecodable_result", err.Error())
		return
	}
	// deliveries grouped per batch and per window_id
	type batch = c02Batch
	batches := map[int]*batch{}
	var order []int
	for _, w := range wins {
		b := batches[w.Del]
		if b == nil {
			b = &batch{del: w.Del, winID: w.WinID, start: w.Start, end: w.End, ids: map[int]bool{}, keys: map[string]bool{}}
			batches[w.Del] = b
			order = append(order, w.Del)
		}
		if b.winID != w.WinID {
			viol("late.mixed_batch", fmt.Sprintf("one delivery mixes window ids %s and %s", b.winID, w.WinID))
			return
		}
		seenHere := map[int]bool{}
		for _, id := range w.IDs {
			if seenHere[id] || b.ids[id] {
				viol("late.row_repeated_in_delivery", fmt.Sprintf("id %d occurs twice in the delivery of window %s", id, w.WinID))
				return
			}
			seenHere[id] = true
			b.ids[id] = true
			r := byID[id]
			if r.TS < w.Start || r.TS >= w.End {
				viol("late.row_outside_interval", fmt.Sprintf("row id=%d ts=%d delivered in window [%d,%d)", id, r.TS, w.Start, w.End))
				return
			}
		}
		b.keys[tkey(w.K)] = true
	}
	sort.Ints(order)
	// chain per window_id
	last := map[string]*batch{}
	redeliveries := 0
	for _, d := range order {
		b := batches[d]
		if p := last[b.winID]; p != nil {
			redeliveries++
			added := 0
			for id := range p.ids {
				if !b.ids[id] {
					viol("late.redelivery_lost_row", fmt.Sprintf("re-delivery #%d of window %s no longer contains id %d of the previous delivery #%d", b.del, b.winID, id, p.del))
					return
				}
			}
			for id := range b.ids {
				if !p.ids[id] {
					added++
					if onTime[idx[id]] {
						viol("late.redelivery_adds_on_time_row", fmt.Sprintf("re-delivery #%d of window %s adds on-time row %d that the first firing should have held", b.del, b.winID, id))
						return
					}
				}
			}
			if added == 0 {
				var hist []string
				for _, d2 := range order {
					if b2 := batches[d2]; b2.winID == b.winID {
						ids := []int{}
						for id := range b2.ids {
							ids = append(ids, id)
						}
						hist = append(hist, fmt.Sprintf("#%d[%d,%d)=%v", d2, b2.start, b2.end, sortedInts(ids)))
					}
				}
				var emitsAt []string
				for i, e := range res.Emits {
					if e.DelsAtStart >= p.del-1 && e.DelsAtStart <= b.del+1 && i < len(c.Rows) {
						emitsAt = append(emitsAt, fmt.Sprintf("emit(id=%d ts=%d) saw %d deliveries", c.Rows[i].ID, c.Rows[i].TS, e.DelsAtStart))
					}
				}
				viol("late.redelivery_without_new_row", fmt.Sprintf("window %s delivered again (#%d after #%d) with identical contents; history %v; emits around: %v", b.winID, b.del, p.del, hist, emitsAt))
				return
			}
		}
		last[b.winID] = b
	}
	// per late row: demanded / forbidden
	demanded, forbidden, open := 0, 0, 0
	for i, r := range c.Rows {
		if onTime[i] {
			continue
		}
		wm := wmAt[i]
		firedBefore := res.Emits[i].DelsAtStart // deliveries observed before this Emit started
		var covering []*batch                   // fired windows covering the row, observed before its Emit
		for _, d := range order {
			b := batches[d]
			if b.del >= firedBefore {
				continue
			}
			if r.TS >= b.start && r.TS < b.end && (c.Kind != "session" || b.keys[tkey(r.K)]) {
				covering = append(covering, b)
			}
		}
		inAllowance := false
		for _, b := range covering {
			if b.end+c.AlMs > wm {
				inAllowance = true
			}
		}
		appears := -1
		for _, d := range order {
			if batches[d].ids[r.ID] {
				appears = d
				break
			}
		}
		switch {
		case inAllowance && r.TS >= wm-c.AlMs:
			demanded++
			ok := false
			for _, d := range order {
				b := batches[d]
				if b.del < firedBefore || !b.ids[r.ID] {
					continue
				}
				for _, cv := range covering {
					if cv.winID == b.winID {
						ok = true
					}
				}
			}
			if !ok {
				viol("late.update_missing", fmt.Sprintf("%s: late row id=%d ts=%d arrived (watermark %d, ALLOWEDLATENESS %d) after window(s) %v covering it had been delivered and while still inside the allowance, but no later delivery with the same window_id contains it (first appearance: delivery %d)",
					c.Kind, r.ID, r.TS, wm, c.AlMs, batchIDs(covering), appears))
				return
			}
		case c.Kind == "tumbling" && floorDiv(r.TS, c.SizeMs)*c.SizeMs+c.SizeMs+c.AlMs <= wm,
			len(covering) > 0 && !inAllowance && c.Kind == "session":
			// every fired window covering it is past its allowance ⇒ it must not change anything
			forbidden++
			if appears >= 0 {
				viol("late.too_late_row_included", fmt.Sprintf("%s: row id=%d ts=%d arrived when the watermark was %d; the window covering it %v was past window_end+ALLOWEDLATENESS(%d), yet delivery %d contains it",
					c.Kind, r.ID, r.TS, wm, batchIDs(covering), c.AlMs, appears))
				return
			}
		default:
			open++
		}
	}
	// every on-time row is owed to some result, late updates or not (the sentinel pushed the watermark past
	// everything and the engine went quiet)
	for i, r := range c.Rows {
		if !onTime[i] || r.G != "" {
			continue
		}
		found := false
		for _, d := range order {
			if batches[d].ids[r.ID] {
				found = true
				break
			}
		}
		if !found {
			viol("late.on_time_row_lost", fmt.Sprintf("%s: on-time row id=%d ts=%d (watermark %d when it arrived) is in no delivered result although late updates were the only other activity; %d deliveries seen", c.Kind, r.ID, r.TS, wmAt[i], len(order)))
			return
		}
	}
	ctx.Count("late.rows_demanding_redelivery", int64(demanded))
	ctx.Count("late.rows_forbidden", int64(forbidden))
	ctx.Count("late.rows_unconstrained", int64(open))
	ctx.Count("late.redeliveries_checked", int64(redeliveries))
	var sample any
	if c.Index < 2 {
		sample = evSample(c, len(res.Dels))
	}
	ctx.Case("late"+c.SQL+core.J(c.Rows), demanded+forbidden > 0 && len(order) >= 2, sample)
}

type c02Batch struct {
	del   int
	winID string
	start int64
	end   int64
	ids   map[int]bool
	keys  map[string]bool
}

func batchIDs(bs []*c02Batch) string {
	var out []string
	for _, b := range bs {
		out = append(out, fmt.Sprintf("delivery#%d[%d,%d)", b.del, b.start, b.end))
	}
	return "[" + strings.Join(out, " ") + "]"
}

// ---- garbage insertion ---------------------------------------------------------------------------

func execC02Garbage(ctx *core.Ctx, ref core.CaseRef, r *rand.Rand) {
	var c *evCase
	switch r.Intn(3) {
	case 0:
		c = genEvTumbling(ref, r, 0)
	case 1:
		c = genEvSliding(ref, r)
	default:
		c = genEvSession(ref, r)
	}
	c.AlMs = pick(r, []int64{0, 0, c.SizeMs})
	// clean sequence: drop late rows and garbage from the generated one
	on, _ := evOnTime(c.Rows, c.MooMs)
	var clean []evRow
	for i, row := range c.Rows {
		if row.G == "" && on[i] {
			clean = append(clean, row)
		}
	}
	c.Rows = clean
	c.Feed = pick(r, []string{"step", "step", "burst"}) // ignoring must not depend on the trigger goroutine having caught up
	c.Pattern = "garbage"
	var max int64
	for _, row := range clean {
		if row.TS > max {
			max = row.TS
		}
	}
	c.Tail = max + c.MooMs + c.AlMs + 10*c.SizeMs + 6*c.SlideMs
	c.buildSQL()
	ahead := r.Intn(3) == 0
	if ahead {
		// the whole sequence lies 3-20 h ahead of the wall clock (accepted: < 24 h); "future" garbage is then
		// > 24 h ahead of the clock although < 24 h ahead of the largest accepted event
		const grid = 60060000
		c.Base = (time.Now().Add(20*time.Hour).UnixMilli() / grid) * grid
		c.Pattern = "garbage_ahead"
	}
	// dirty sequence: interleave garbage
	d := *c
	d.Rows = nil
	gid := 100000
	ng := 0
	kinds := map[string]int{}
	var curMax int64 = -1 << 62
	aheadDone := false
	addG := func(kind string, ts int64, k any) {
		gid++
		ng++
		kinds[kind]++
		d.Rows = append(d.Rows, evRow{ID: gid, TS: ts, K: k, V: 7, G: kind})
	}
	if r.Intn(2) == 0 {
		addG(pick(r, []string{"future", "missing", "nil", "text"}), 0, "a")
	}
	for _, row := range clean {
		d.Rows = append(d.Rows, row)
		if row.TS > curMax {
			curMax = row.TS
		}
		if ahead && (!aheadDone || r.Intn(8) == 0) {
			aheadDone = true
			addG("future", int64(r.Intn(3600000)), row.K)
		}
		if r.Intn(5) == 0 {
			switch g := pick(r, []string{"future", "missing", "nil", "text", "toolate", "toolate"}); g {
			case "toolate":
				// older than watermark − AL by more than a whole window (and session timeout): both
				// lateness criteria of the statement agree that it must change nothing
				ts := curMax - c.MooMs - c.AlMs - 2*c.SizeMs - int64(r.Intn(int(c.SizeMs))) - 1
				if c.Kind == "session" {
					// sessions have no fixed length, so a row inside a long session can be too late by
					// the event criterion yet inside the allowance by the window criterion; aim before
					// every session of the clean sequence instead (it then falls into no window at all)
					if before := clean[0].TS - c.SizeMs - 1 - int64(r.Intn(int(c.SizeMs))); before < ts {
						ts = before
					}
				}
				if ts >= 0 {
					addG("toolate", ts, row.K)
				}
			default:
				addG(g, 0, row.K)
			}
		}
	}
	attrs := evShape(&d)
	attrs["garbage_kinds"] = strings.Join(sortedKeys(kinds), ",")
	viol := func(kind, detail string) {
		ctx.Violate(core.Violation{Kind: kind, Attrs: attrs, Detail: detail + "\n  sql: " + c.SQL, Case: &d})
	}
	canon := func(res evRun) (string, error) {
		wins, err := evDecode(res.Dels)
		if err != nil {
			return "", err
		}
		var parts []string
		for _, w := range wins {
			parts = append(parts, fmt.Sprintf("%s|%s|%s", w.WinID, tkey(w.K), idsStr(sortedInts(w.IDs))))
		}
		sort.Strings(parts)
		return strings.Join(parts, "\n"), nil
	}
	r1 := c.run(-1)
	r2 := d.run(-1)
	if r1.Err != nil || r2.Err != nil {
		viol("garbage.execute_error", fmt.Sprint(r1.Err, r2.Err))
		return
	}
	if r1.Overload || r2.Overload || !r1.Quiescent || !r2.Quiescent {
		ctx.Inconclusive("overload or not quiescent")
		return
	}
	a, err1 := canon(r1)
	b, err2 := canon(r2)
	if err1 != nil || err2 != nil {
		viol("garbage.undecodable_result", fmt.Sprint(err1, err2))
		return
	}
	if a != b {
		viol("garbage.changes_results", fmt.Sprintf("interleaving rows that must be ignored (%v) changed the delivered results.\n--- clean (%d rows):\n%s\n--- with garbage:\n%s", kinds, len(clean), trunc2(a, 1500), trunc2(b, 1500)))
		return
	}
	ctx.Count("garbage.rows_inserted", int64(ng))
	ctx.Count("garbage.result_sets_compared", 1)
	var sample any
	if ref.Index < 2 {
		sample = evSample(&d, len(r2.Dels))
	}
	ctx.Case("garbage"+d.SQL+core.J(d.Rows), ng > 0 && len(r1.Dels) >= 2, sample)
}

func trunc2(s string, n int) string {
	if len(s) > n {
		return s[:n] + "…"
	}
	return s
}

// ---- idle timeout ----------------------------------------------------------------------------------

func execC02Idle(ctx *core.Ctx, ref core.CaseRef, r *rand.Rand) {
	kind := []string{"tumbling", "sliding", "session"}[ref.Index%3]
	if (ref.Index/3)%2 == 1 {
		execC02IdleBusy(ctx, ref, r, kind)
		return
	}
	c := &evCase{CaseRef: ref, Kind: kind, SizeMs: 1000, SlideMs: 1000, Grouped: true, Pattern: "idle", Feed: "paced"}
	c.buildSQL()
	const idleMs = 400
	c.SQL = strings.Replace(c.SQL, "TIMEUNIT='ms'", fmt.Sprintf("TIMEUNIT='ms', IDLETIMEOUT='%dms'", idleMs), 1)
	viol := func(kind, detail string) {
		ctx.Violate(core.Violation{Kind: kind, Attrs: map[string]string{"kind": c.Kind, "pattern": "idle"}, Detail: detail + "\n  sql: " + c.SQL, Case: c})
	}
	s, err := eng.New(c.SQL, eng.Opts{})
	if err != nil {
		viol("idle.execute_error", err.Error())
		return
	}
	defer s.Stop()
	rec := eng.Attach(s)
	// wall-clock timestamps a few seconds in the past: no later event ever pushes the watermark
	now := time.Now().UnixMilli()
	t0 := now - 5000
	var lastEmit time.Time
	n := 3 + r.Intn(5)
	for i := 0; i < n; i++ {
		lastEmit = time.Now()
		rec.Emit(Row{"id": i + 1, "ts": t0, "k": "a", "v": i}) // one timestamp: the watermark never reaches the window end
	}
	// must fire after the source went idle — and not before
	ok := rec.WaitDeliveries(1, 10*time.Second)
	tSeen := time.Now()
	if !ok {
		viol("idle.never_fired", fmt.Sprintf("%s window with IDLETIMEOUT=%dms: %d events around now−5s, source idle for 10 s, nothing delivered", kind, idleMs, n))
		return
	}
	if el := tSeen.Sub(lastEmit); el < time.Duration(idleMs)*time.Millisecond-5*time.Millisecond {
		viol("idle.fired_before_idle_timeout", fmt.Sprintf("%s window delivered %v after the last Emit started although no event passed window_end+MAXOUTOFORDERNESS and IDLETIMEOUT is %dms", kind, el, idleMs))
		return
	}
	// The idle path has moved the watermark to the wall clock (about 5 s after every event).  Stragglers that
	// are newer than every earlier event but several seconds older than that watermark are late (no allowed
	// lateness here): they must not change any result, nor pull the watermark back so that a fired window
	// is delivered again.
	rec.Quiesce(3, 60*time.Millisecond, 2*time.Second)
	before := rec.Deliveries()
	for j, d := range []int64{300, 1500, 2600} {
		rec.Emit(Row{"id": 100 + j, "ts": t0 + d, "k": "a", "v": 1})
	}
	time.Sleep(time.Duration(2*idleMs+400) * time.Millisecond) // two idle periods and a watermark tick
	rec.Quiesce(3, 60*time.Millisecond, 2*time.Second)
	after := rec.Deliveries()
	ctx.Count("idle.straggler_probes", 1)
	if len(after) != len(before) {
		viol("idle.late_straggler_changed_results", fmt.Sprintf("%s window, IDLETIMEOUT=%dms: %d events at now−5s were delivered after the source went idle (watermark = wall clock); rows at +300, +1500 and +2600 ms arriving after that are several seconds older than the watermark and ALLOWEDLATENESS is 0, yet further results were delivered: %v", kind, idleMs, n, after[len(before):]))
		return
	}
	ctx.Count("idle.cases", 1)
	ctx.Case(fmt.Sprintf("idle|%s|%d", kind, n), true, map[string]any{"sql": c.SQL, "events": n, "fired_after_ms": tSeen.Sub(lastEmit).Milliseconds()})
}

// execC02IdleBusy: a source that keeps sending rows which never raise the maximum timestamp (out of
// order within MAXOUTOFORDERNESS) is busy, not idle: nothing may be delivered while rows keep coming at
// a pace far below IDLETIMEOUT and no row passed window_end+MAXOUTOFORDERNESS, and none of those
// on-time rows may be lost once the source really goes idle.
func execC02IdleBusy(ctx *core.Ctx, ref core.CaseRef, r *rand.Rand, kind string) {
	const idleMs, mooMs = 1000, 4000
	c := &evCase{CaseRef: ref, Kind: kind, SizeMs: 1000, SlideMs: 1000, MooMs: mooMs, Grouped: true, Pattern: "idle_busy", Feed: "paced"}
	c.buildSQL()
	c.SQL = strings.Replace(c.SQL, "TIMEUNIT='ms'", fmt.Sprintf("TIMEUNIT='ms', IDLETIMEOUT='%dms'", idleMs), 1)
	attrs := map[string]string{"kind": kind, "pattern": "idle_busy"}
	attempt := func() (string, string, int) {
		s, err := eng.New(c.SQL, eng.Opts{})
		if err != nil {
			return "idle.execute_error", err.Error(), 0
		}
		defer s.Stop()
		var mu sync.Mutex
		var lastEmit time.Time
		var early string
		delivered := map[int64]int{}
		s.AddSyncSink(func(batch []map[string]any) {
			now := time.Now()
			mu.Lock()
			defer mu.Unlock()
			if since := now.Sub(lastEmit); !lastEmit.IsZero() && since < time.Duration(idleMs)*time.Millisecond/2 && early == "" {
				early = fmt.Sprintf("a result was delivered %v after the latest Emit started (IDLETIMEOUT %dms) although no row had passed window_end+MAXOUTOFORDERNESS: %v", since, idleMs, batch)
			}
			for _, row := range batch {
				ids, _ := idList(row["ids"])
				for _, id := range ids {
					delivered[int64(id)]++
				}
			}
		})
		// wall-clock timestamps well in the past; the first row carries the maximum, every later row is
		// older but within MAXOUTOFORDERNESS, all inside one window/session
		t0 := (time.Now().UnixMilli()/1000)*1000 - 20000
		emit := func(id int, ts int64) {
			mu.Lock()
			lastEmit = time.Now()
			mu.Unlock()
			s.Emit(Row{"id": id, "ts": ts, "k": "a", "v": id})
		}
		emit(1, t0+2900)
		n := 1
		for end := time.Now().Add(2500 * time.Millisecond); time.Now().Before(end); {
			n++
			emit(n, t0+2000+int64(r.Intn(900)))
			time.Sleep(20 * time.Millisecond)
		}
		mu.Lock()
		e := early
		mu.Unlock()
		if e != "" {
			return "idle.fired_while_source_busy", e, n
		}
		// now the source is idle: everything must be delivered, every row exactly where it belongs
		deadline := time.Now().Add(15 * time.Second)
		for time.Now().Before(deadline) {
			mu.Lock()
			got := len(delivered)
			mu.Unlock()
			if got >= n {
				break
			}
			time.Sleep(20 * time.Millisecond)
		}
		mu.Lock()
		defer mu.Unlock()
		if len(delivered) < n {
			return "idle.on_time_rows_lost", fmt.Sprintf("%d rows were sent (none older than max−MAXOUTOFORDERNESS), only %d were ever delivered after the source went idle for 15 s", n, len(delivered)), n
		}
		return "", "", n
	}
	kindV, detail, n := attempt()
	if kindV != "" && kindV != "idle.execute_error" {
		// wall-clock margins: a verdict must reproduce
		k2, d2, _ := attempt()
		if k2 == "" {
			ctx.Inconclusive("idle-busy alarm did not reproduce")
			return
		}
		kindV, detail = k2, d2
	}
	if kindV != "" {
		ctx.Violate(core.Violation{Kind: kindV, Attrs: attrs, Detail: detail + "\n  sql: " + c.SQL, Case: c})
		return
	}
	ctx.Count("idle.busy_cases", 1)
	ctx.Count("idle.busy_rows", int64(n))
	ctx.Case(fmt.Sprintf("idlebusy|%s|%d", kind, n), true, map[string]any{"sql": c.SQL, "rows": n, "mode": "busy out-of-order source"})
}
