package checks

import (
	"crypto/md5"
	"crypto/sha1"
	"crypto/sha256"
	"crypto/sha512"
	"encoding/base64"
	"encoding/hex"
	"encoding/json"
	"fmt"
	"math"
	"math/rand"
	"net/url"
	"reflect"
	"regexp"
	"sort"
	"strconv"
	"strings"
	"unicode/utf8"

	"github.com/rulego/streamsql/functions"

	"verif/internal/core"
)

// C06 part 4 — direct sweep of the deterministic built-in scalar functions.
//
// Every function is called (a) through functions.Get(name).Execute, (b) through SQL with the
// arguments as columns (lower- and upper-case function name), (c) for a sample, through SQL with
// literal arguments.  The reference is the Go standard library applied as
// docs/FUNCTIONS_USAGE_GUIDE.md documents the function; where the guide leaves a convention open
// (index base, rounding ties, byte vs rune length, hex case …) every standard reading is accepted.
// For arguments outside the documented domain the oracle accepts anything but a panic.

type c6Fn struct {
	Name string
	Cat  string
	// Gen draws one argument tuple (mostly inside the documented domain).
	Gen func(r *rand.Rand) []any
	// Ref returns the acceptable values for args, or nil when args are outside the documented
	// domain / the guide does not determine the value (then only "no panic" is checked).
	Ref func(a []any) []any
	// Fixed tuples always included (boundary values, the examples of the guide).
	Grid [][]any
	// Cmp selects the comparison: "" exact/numeric-tolerant deep equality, "set" slices as sets,
	// "json" compare a JSON text by meaning, "ci" case-insensitive string.
	Cmp string
	// DocName: the name is only what the guide documents; reference written for that name.
	SQLTemplate string // optional, e.g. "cast(%s as int)"; %s receives the rendered arguments
}

type c6Nil struct{} // acceptable value "NULL"

// ---- argument helpers ---------------------------------------------------------------------------------

func c6AsNum(v any) (float64, bool) {
	switch v.(type) {
	case bool, string, nil:
		return 0, false
	}
	f, ok := toF(v)
	if !ok || math.IsNaN(f) || math.IsInf(f, 0) {
		return 0, false
	}
	return f, true
}

func c6AsInt(v any) (int64, bool) {
	f, ok := c6AsNum(v)
	if !ok || f != math.Trunc(f) || math.Abs(f) > 1<<52 {
		return 0, false
	}
	return int64(f), true
}

func c6Strs(a []any) ([]string, bool) {
	out := make([]string, len(a))
	for i, v := range a {
		s, ok := v.(string)
		if !ok || !utf8.ValidString(s) {
			return nil, false
		}
		out[i] = s
	}
	return out, true
}

func c6IsASCII(ss ...string) bool {
	for _, s := range ss {
		if !c6ASCII(s) {
			return false
		}
	}
	return true
}

func c6Arr(v any) ([]any, bool) {
	x, ok := v.([]any)
	return x, ok
}

// homogeneous array of ints or of strings, and a probe value of the same Go type
func c6HomArr(arr []any, extra ...any) bool {
	kind := ""
	for _, e := range append(append([]any{}, arr...), extra...) {
		k := ""
		switch e.(type) {
		case int:
			k = "i"
		case string:
			k = "s"
		default:
			return false
		}
		if kind == "" {
			kind = k
		}
		if k != kind {
			return false
		}
	}
	return true
}

func c6GenNum(r *rand.Rand) any {
	switch r.Intn(8) {
	case 0:
		return 0
	case 1:
		return float64(r.Intn(161)-80) / 8
	case 2:
		return float64(r.Intn(2000)-1000) / 10
	case 3:
		return int64(r.Intn(41) - 20)
	case 4:
		return r.Intn(100000)
	}
	return r.Intn(41) - 20
}

func c6GenPos(r *rand.Rand) any {
	switch r.Intn(3) {
	case 0:
		return 1 + r.Intn(50)
	case 1:
		return float64(1+r.Intn(400)) / 8
	}
	return float64(1+r.Intn(1000)) / 10
}

func c6GenUnit(r *rand.Rand) any { return float64(r.Intn(17)-8) / 8 }

func c6GenStr(r *rand.Rand) any {
	return pick(r, []string{"hello", "Hello World", "", "a", "abcabc", "  pad  ", "x,y,z", "MiXeD", "a-b_c", "42", "lo", "he", "l",
		"héllo", "日本", "tab\there", "q'uote", "a b&c=d/e", "100%"})
}

func c6GenWord(r *rand.Rand) any {
	return pick(r, []string{"hello", "Hello World", "a", "abcabc", "x,y,z", "MiXeD", "a-b_c", "42", "banana"})
}

func c6GenIntArr(r *rand.Rand) any {
	n := r.Intn(6)
	out := make([]any, n)
	for i := range out {
		out[i] = r.Intn(5)
	}
	return out
}

func c6GenStrArr(r *rand.Rand) any {
	n := r.Intn(6)
	out := make([]any, n)
	for i := range out {
		out[i] = pick(r, []string{"a", "b", "c", "", "ab"})
	}
	return out
}

func c6GenArr(r *rand.Rand) any {
	if r.Intn(2) == 0 {
		return c6GenIntArr(r)
	}
	return c6GenStrArr(r)
}

func c6ArrElem(r *rand.Rand, arr any) any {
	a := arr.([]any)
	if len(a) > 0 && r.Intn(3) > 0 {
		return a[r.Intn(len(a))]
	}
	if len(a) > 0 {
		if _, ok := a[0].(string); ok {
			return pick(r, []string{"a", "zz", ""})
		}
	}
	return r.Intn(7)
}

var c6JSONs = []string{`{"a":1,"b":"x"}`, `[10,20,30]`, `{"user":{"address":{"city":"New York"}},"n":[1,2,{"k":"v"}]}`,
	`{"users":[{"name":"Alice"},{"name":"Bob"}]}`, `"str"`, `12.5`, `true`, `null`, `[]`, `{}`, `[[1,2],[3]]`}

var c6Hostile = []any{nil, "", "abc", "12", true, int64(math.MaxInt64), int64(math.MinInt64), math.MaxFloat64, -1e18, 1e18, math.NaN(), math.Inf(1), -1, 0,
	[]any{}, []any{1, "a", nil}, map[string]any{"k": 1}, map[string]any{}, strings.Repeat("x", 5000), "\x00\xff", 3.999999, -0.0, uint64(math.MaxUint64)}

// ---- references --------------------------------------------------------------------------------------

func c6Math1(f func(float64) (float64, bool)) func([]any) []any {
	return func(a []any) []any {
		if len(a) != 1 {
			return nil
		}
		x, ok := c6AsNum(a[0])
		if !ok {
			return nil
		}
		y, ok := f(x)
		if !ok || math.IsNaN(y) || math.IsInf(y, 0) {
			return nil
		}
		return []any{y}
	}
}

func c6All(f func(float64) float64) func(float64) (float64, bool) {
	return func(x float64) (float64, bool) { return f(x), true }
}

func c6RoundAlts(x float64, p int) []any {
	m := math.Pow(10, float64(p))
	v := x * m
	if math.Abs(v) > 1e15 {
		return nil
	}
	alts := []any{math.Round(v) / m}
	fr := math.Abs(v - math.Trunc(v))
	if math.Abs(fr-0.5) < 1e-6 { // tie (or a decimal tie the binary value only approximates)
		alts = append(alts, math.RoundToEven(v)/m, math.Floor(v+0.5)/m, math.Floor(v)/m, math.Ceil(v)/m)
	}
	return alts
}

func c6TruncAlts(x float64, p int) []any {
	m := math.Pow(10, float64(p))
	v := x * m
	if math.Abs(v) > 1e15 {
		return nil
	}
	alts := []any{math.Trunc(v) / m}
	if math.Abs(v-math.Round(v)) < 1e-6 { // 2.30*100 = 229.99999…
		alts = append(alts, math.Round(v)/m)
	}
	return alts
}

func c6JSONPath(doc any, path string) (any, bool) {
	p := strings.TrimPrefix(path, "$")
	cur := doc
	for len(p) > 0 {
		switch {
		case p[0] == '.':
			p = p[1:]
		case p[0] == '[':
			j := strings.IndexByte(p, ']')
			if j < 0 {
				return nil, false
			}
			idx, err := strconv.Atoi(p[1:j])
			if err != nil {
				return nil, false
			}
			arr, ok := cur.([]any)
			if !ok || idx < 0 || idx >= len(arr) {
				return nil, false
			}
			cur = arr[idx]
			p = p[j+1:]
		default:
			j := strings.IndexAny(p, ".[")
			if j < 0 {
				j = len(p)
			}
			m, ok := cur.(map[string]any)
			if !ok {
				return nil, false
			}
			v, ok := m[p[:j]]
			if !ok {
				return nil, false
			}
			cur = v
			p = p[j:]
		}
	}
	return cur, true
}

func c6Hex(sum []byte) []any {
	h := hex.EncodeToString(sum)
	return []any{h, strings.ToUpper(h)}
}

func c6Table() []*c6Fn {
	t := []*c6Fn{}
	add := func(f *c6Fn) { t = append(t, f) }
	one := func(g func(*rand.Rand) any) func(*rand.Rand) []any {
		return func(r *rand.Rand) []any { return []any{g(r)} }
	}
	two := func(g, h func(*rand.Rand) any) func(*rand.Rand) []any {
		return func(r *rand.Rand) []any { return []any{g(r), h(r)} }
	}
	m1 := func(name string, gen func(*rand.Rand) any, f func(float64) (float64, bool), grid ...[]any) {
		add(&c6Fn{Name: name, Cat: "math", Gen: one(gen), Ref: c6Math1(f), Grid: grid})
	}
	// ---- math
	m1("abs", c6GenNum, c6All(math.Abs), []any{-3}, []any{-2.5}, []any{0})
	m1("sqrt", c6GenPos, func(x float64) (float64, bool) { return math.Sqrt(x), x >= 0 }, []any{16}, []any{0}, []any{-1.0})
	m1("ceiling", c6GenNum, c6All(math.Ceil), []any{2.1}, []any{-2.1}, []any{5})
	m1("floor", c6GenNum, c6All(math.Floor), []any{2.9}, []any{-2.1})
	m1("sign", c6GenNum, func(x float64) (float64, bool) {
		switch {
		case x > 0:
			return 1, true
		case x < 0:
			return -1, true
		}
		return 0, true
	}, []any{-2.0}, []any{0}, []any{5})
	m1("sin", c6GenNum, c6All(math.Sin))
	m1("cos", c6GenNum, c6All(math.Cos))
	m1("tan", c6GenUnit, c6All(math.Tan))
	m1("asin", c6GenUnit, func(x float64) (float64, bool) { return math.Asin(x), x >= -1 && x <= 1 }, []any{2.0}, []any{1}, []any{-1})
	m1("acos", c6GenUnit, func(x float64) (float64, bool) { return math.Acos(x), x >= -1 && x <= 1 }, []any{2.0}, []any{1})
	m1("atan", c6GenNum, c6All(math.Atan))
	m1("sinh", c6GenUnit, c6All(math.Sinh), []any{3})
	m1("cosh", c6GenUnit, c6All(math.Cosh), []any{3})
	m1("tanh", c6GenNum, c6All(math.Tanh))
	m1("exp", c6GenUnit, c6All(math.Exp), []any{0}, []any{1}, []any{10}, []any{1000})
	m1("ln", c6GenPos, func(x float64) (float64, bool) { return math.Log(x), x > 0 }, []any{math.E}, []any{0.0}, []any{-1.0})
	m1("log10", c6GenPos, func(x float64) (float64, bool) { return math.Log10(x), x > 0 }, []any{1000.0}, []any{0})
	m1("log2", c6GenPos, func(x float64) (float64, bool) { return math.Log2(x), x > 0 }, []any{8.0}, []any{0})
	add(&c6Fn{Name: "log", Cat: "math", Gen: func(r *rand.Rand) []any { return []any{pick(r, []any{2, 10, 2.5, 3}), c6GenPos(r)} },
		Grid: [][]any{{2.0, 8.0}, {10, 1000}, {100.0}},
		Ref: func(a []any) []any { // guide: log(base, number)
			if len(a) != 2 {
				return nil
			}
			b, ok1 := c6AsNum(a[0])
			x, ok2 := c6AsNum(a[1])
			if !ok1 || !ok2 || b <= 0 || b == 1 || x <= 0 {
				return nil
			}
			return []any{math.Log(x) / math.Log(b)}
		}})
	add(&c6Fn{Name: "power", Cat: "math", Gen: func(r *rand.Rand) []any { return []any{c6GenPos(r), pick(r, []any{0, 1, 2, 3, 0.5, -1, 2.5})} },
		Grid: [][]any{{2, 10}, {2.0, 0.5}, {-2, 3}, {0, 0}, {-8, 0.5}, {10, 400}},
		Ref: func(a []any) []any {
			if len(a) != 2 {
				return nil
			}
			b, ok1 := c6AsNum(a[0])
			e, ok2 := c6AsNum(a[1])
			if !ok1 || !ok2 {
				return nil
			}
			y := math.Pow(b, e)
			if math.IsNaN(y) || math.IsInf(y, 0) || (b == 0 && e <= 0) {
				return nil
			}
			return []any{y}
		}})
	add(&c6Fn{Name: "atan2", Cat: "math", Gen: two(c6GenNum, c6GenNum), Grid: [][]any{{1.0, 2.0}, {0, 0}, {-1, -1}},
		Ref: func(a []any) []any {
			if len(a) != 2 {
				return nil
			}
			y, ok1 := c6AsNum(a[0])
			x, ok2 := c6AsNum(a[1])
			if !ok1 || !ok2 || (x == 0 && y == 0) {
				return nil
			}
			return []any{math.Atan2(y, x)}
		}})
	add(&c6Fn{Name: "mod", Cat: "math", Gen: func(r *rand.Rand) []any { return []any{c6GenNum(r), pick(r, []any{2, 3, 5, 7, 2.5, -3, 10})} },
		Grid: [][]any{{7, 3}, {-7, 3}, {7.5, 2}, {7, 0}, {7, -3}},
		Ref: func(a []any) []any {
			if len(a) != 2 {
				return nil
			}
			x, ok1 := c6AsNum(a[0])
			y, ok2 := c6AsNum(a[1])
			if !ok1 || !ok2 || y == 0 {
				return nil
			}
			t := math.Mod(x, y)
			f := x - y*math.Floor(x/y) // floored modulo is the other standard reading of "remainder"
			return []any{t, f}
		}})
	add(&c6Fn{Name: "round", Cat: "math", Gen: func(r *rand.Rand) []any {
		if r.Intn(2) == 0 {
			return []any{c6GenNum(r)}
		}
		return []any{c6GenNum(r), r.Intn(4)}
	}, Grid: [][]any{{2.5}, {-2.5}, {2.4}, {2.345, 2}, {0.125, 2}, {1234.5678, 0}, {1234.5, -2}, {1.005, 2}},
		Ref: func(a []any) []any {
			x, ok := c6AsNum(a[0])
			if !ok || len(a) > 2 {
				return nil
			}
			p := 0
			if len(a) == 2 {
				q, ok := c6AsInt(a[1])
				if !ok || q < 0 || q > 6 {
					return nil
				}
				p = int(q)
			}
			return c6RoundAlts(x, p)
		}})
	bit := func(name string, f func(a, b int64) int64) {
		add(&c6Fn{Name: name, Cat: "math", Gen: func(r *rand.Rand) []any { return []any{r.Intn(256), r.Intn(256)} }, Grid: [][]any{{12, 10}, {0, 0}, {255, 1}},
			Ref: func(a []any) []any {
				if len(a) != 2 {
					return nil
				}
				x, ok1 := c6AsInt(a[0])
				y, ok2 := c6AsInt(a[1])
				if !ok1 || !ok2 || x < 0 || y < 0 {
					return nil
				}
				return []any{float64(f(x, y))}
			}})
	}
	for _, pre := range []string{"bit_", "bit"} { // "bit_and" is the guide's name, "bitand" the registered one
		bit(pre+"and", func(a, b int64) int64 { return a & b })
		bit(pre+"or", func(a, b int64) int64 { return a | b })
		bit(pre+"xor", func(a, b int64) int64 { return a ^ b })
		add(&c6Fn{Name: pre + "not", Cat: "math", Gen: func(r *rand.Rand) []any { return []any{r.Intn(256)} }, Grid: [][]any{{12}, {0}},
			Ref: func(a []any) []any {
				if len(a) != 1 {
					return nil
				}
				x, ok := c6AsInt(a[0])
				if !ok || x < 0 {
					return nil
				}
				return []any{float64(^x)}
			}})
	}
	// ---- string
	s1 := func(name string, f func(string) []any, grid ...[]any) {
		add(&c6Fn{Name: name, Cat: "string", Gen: one(c6GenStr), Grid: grid, Ref: func(a []any) []any {
			ss, ok := c6Strs(a)
			if !ok || len(ss) != 1 {
				return nil
			}
			return f(ss[0])
		}})
	}
	s1("upper", func(s string) []any { return []any{strings.ToUpper(s)} }, []any{"aBc"})
	s1("lower", func(s string) []any { return []any{strings.ToLower(s)} }, []any{"aBc"})
	s1("length", func(s string) []any { return []any{float64(len(s)), float64(utf8.RuneCountInString(s))} }, []any{"hello"}, []any{""})
	s1("trim", func(s string) []any { return []any{strings.Trim(s, " "), strings.TrimSpace(s)} }, []any{"  a b  "}, []any{"\t x \n"})
	s1("ltrim", func(s string) []any {
		return []any{strings.TrimLeft(s, " "), strings.TrimLeft(s, " \t\r\n")}
	}, []any{"  a "})
	s1("rtrim", func(s string) []any {
		return []any{strings.TrimRight(s, " "), strings.TrimRight(s, " \t\r\n")}
	}, []any{" a  "})
	add(&c6Fn{Name: "concat", Cat: "string", Gen: func(r *rand.Rand) []any {
		n := 1 + r.Intn(4)
		out := make([]any, n)
		for i := range out {
			out[i] = c6GenStr(r)
		}
		return out
	}, Grid: [][]any{{"a", "b"}, {"a"}, {"", "", "x"}, {"a", 1}, {"a", nil}},
		Ref: func(a []any) []any {
			ss, ok := c6Strs(a)
			if !ok || len(ss) == 0 {
				return nil
			}
			return []any{strings.Join(ss, "")}
		}})
	s2 := func(name string, g2 func(*rand.Rand) any, f func(s, t string) []any, grid ...[]any) {
		add(&c6Fn{Name: name, Cat: "string", Gen: two(c6GenStr, g2), Grid: grid, Ref: func(a []any) []any {
			ss, ok := c6Strs(a)
			if !ok || len(ss) != 2 {
				return nil
			}
			return f(ss[0], ss[1])
		}})
	}
	genSub := func(r *rand.Rand) any { return pick(r, []string{"l", "lo", "he", "a", "abc", "z", ",", "World", " "}) }
	s2("endswith", genSub, func(s, t string) []any { return []any{strings.HasSuffix(s, t)} }, []any{"hello", "lo"}, []any{"hello", ""}, []any{"", "x"})
	s2("startswith", genSub, func(s, t string) []any { return []any{strings.HasPrefix(s, t)} }, []any{"hello", "he"}, []any{"hello", ""})
	s2("indexof", genSub, func(s, t string) []any {
		if t == "" || !c6IsASCII(s, t) {
			return nil
		}
		i := strings.Index(s, t)
		return []any{float64(i), float64(i + 1)} // 0-based with -1, or 1-based with 0
	}, []any{"hello", "l"}, []any{"hello", "z"}, []any{"hello", ""})
	s2("split", func(r *rand.Rand) any { return pick(r, []string{",", " ", "b", "-", "ab"}) }, func(s, t string) []any {
		if t == "" {
			return nil
		}
		parts := strings.Split(s, t)
		out := make([]any, len(parts))
		for i, p := range parts {
			out[i] = p
		}
		return []any{out}
	}, []any{"a,b,c", ","}, []any{"abc", ","}, []any{"", ","}, []any{"abc", ""})
	s2("regexp_matches", func(r *rand.Rand) any { return pick(r, []string{"l+", "^h", "o$", "[0-9]+", "a.c", "^$", "(a|b)c"}) }, func(s, p string) []any {
		re, err := regexp.Compile(p)
		if err != nil {
			return nil
		}
		return []any{re.MatchString(s)}
	}, []any{"hello", "l+"}, []any{"hello", "("}, []any{"hello", "^z"})
	s2("regexp_substring", func(r *rand.Rand) any { return pick(r, []string{"l+", "^h.", "o$", "[0-9]+", "a.c", "[A-Z]\\w*"}) }, func(s, p string) []any {
		re, err := regexp.Compile(p)
		if err != nil {
			return nil
		}
		if m := re.FindString(s); re.MatchString(s) {
			return []any{m}
		}
		return []any{"", c6Nil{}}
	}, []any{"hello", "l+"}, []any{"hello", "z"}, []any{"hello", "["})
	add(&c6Fn{Name: "replace", Cat: "string", Gen: func(r *rand.Rand) []any {
		return []any{c6GenStr(r), pick(r, []string{"l", "a", "abc", " ", ","}), pick(r, []string{"L", "", "xx"})}
	}, Grid: [][]any{{"hello", "l", "L"}, {"hello", "z", "y"}, {"aaa", "aa", "b"}},
		Ref: func(a []any) []any {
			ss, ok := c6Strs(a)
			if !ok || len(ss) != 3 || ss[1] == "" {
				return nil
			}
			return []any{strings.ReplaceAll(ss[0], ss[1], ss[2])}
		}})
	add(&c6Fn{Name: "regexp_replace", Cat: "string", Gen: func(r *rand.Rand) []any {
		return []any{c6GenStr(r), pick(r, []string{"l+", "[aeiou]", "^h", "\\s+", "[0-9]"}), pick(r, []string{"L", "", "_"})}
	}, Grid: [][]any{{"hello", "l+", "L"}, {"hello", "(", "x"}},
		Ref: func(a []any) []any {
			ss, ok := c6Strs(a)
			if !ok || len(ss) != 3 || strings.ContainsAny(ss[2], "$\\") {
				return nil
			}
			re, err := regexp.Compile(ss[1])
			if err != nil {
				return nil
			}
			return []any{re.ReplaceAllString(ss[0], ss[2])}
		}})
	add(&c6Fn{Name: "substring", Cat: "string", Gen: func(r *rand.Rand) []any {
		s := c6GenWord(r)
		if r.Intn(2) == 0 {
			return []any{s, 1 + r.Intn(5)}
		}
		return []any{s, 1 + r.Intn(5), 1 + r.Intn(4)}
	}, Grid: [][]any{{"hello", 1}, {"hello", 1, 3}, {"hello", 0, 2}, {"hello", -2}, {"hello", 10}, {"hello", 2, 100}, {"hello", 2, -1},
		{"hello", int64(math.MaxInt64)}, {"hello", 1, int64(math.MaxInt64)}, {"hello", int64(math.MaxInt64), int64(math.MaxInt64)}, {"hello", int64(math.MinInt64), 2}},
		Ref: func(a []any) []any {
			if len(a) < 2 || len(a) > 3 {
				return nil
			}
			s, ok := a[0].(string)
			st, ok2 := c6AsInt(a[1])
			if !ok || !ok2 || !c6ASCII(s) || st < 1 || int(st) >= len(s) {
				return nil // start 0, negative or beyond the end: convention not documented
			}
			n := int64(len(s))
			if len(a) == 3 {
				l, ok := c6AsInt(a[2])
				if !ok || l < 1 {
					return nil
				}
				n = l
			}
			cut := func(from int64) string {
				to := from + n
				if to > int64(len(s)) {
					to = int64(len(s))
				}
				return s[from:to]
			}
			return []any{cut(st), cut(st - 1)} // 0-based or 1-based start
		}})
	pad := func(name string, left bool) {
		add(&c6Fn{Name: name, Cat: "string", Gen: func(r *rand.Rand) []any {
			return []any{c6GenWord(r), r.Intn(16), pick(r, []string{"x", "xy", "0", " ", "abc"})}
		}, Grid: [][]any{{"ab", 5, "xy"}, {"abcdef", 3, "x"}, {"ab", 5}, {"ab", -1, "x"}, {"ab", 5, ""}, {"ab", 0, "x"},
			{"ab", int64(math.MaxInt64), "x"}, {"ab", int64(math.MaxInt64)}, {"ab", 1 << 40, "x"}, {"ab", int64(math.MinInt64), "x"}},
			Ref: func(a []any) []any {
				if len(a) != 3 {
					return nil
				}
				s, ok := a[0].(string)
				n, ok2 := c6AsInt(a[1])
				p, ok3 := a[2].(string)
				if !ok || !ok2 || !ok3 || p == "" || n < 0 || n > 1000 || !c6IsASCII(s, p) {
					return nil
				}
				if int(n) <= len(s) {
					if int(n) == len(s) {
						return []any{s}
					}
					return []any{s, s[:n]} // longer input: unchanged or truncated, both are in use
				}
				fill := strings.Repeat(p, int(n))[:int(n)-len(s)]
				if left {
					return []any{fill + s}
				}
				return []any{s + fill}
			}})
	}
	pad("lpad", true)
	pad("rpad", false)
	add(&c6Fn{Name: "format", Cat: "string", Gen: func(r *rand.Rand) []any { return []any{c6GenNum(r), r.Intn(4)} },
		Grid: [][]any{{"%d-%s", 1, "x"}, {3.14159, 2}, {"%s"}, {"%d", "x"}, {"%!", nil}}, Ref: func(a []any) []any { return nil }})
	// ---- conversion
	add(&c6Fn{Name: "cast", Cat: "conversion", Gen: func(r *rand.Rand) []any {
		switch r.Intn(6) {
		case 0:
			return []any{strconv.Itoa(r.Intn(1000) - 500), "int"}
		case 1:
			return []any{r.Intn(1000), "string"}
		case 2:
			return []any{strconv.FormatFloat(float64(r.Intn(1000))/8, 'f', -1, 64), "float"}
		case 3:
			return []any{pick(r, []string{"true", "false"}), "bool"}
		case 4:
			return []any{r.Intn(1000), "float"}
		}
		return []any{float64(r.Intn(1000)), "int"}
	}, Grid: [][]any{{"12", "int"}, {12.7, "int"}, {12, "string"}, {"1.5", "float"}, {"true", "bool"}, {"x", "int"}, {1, "nosuchtype"}, {nil, "int"}},
		Ref: func(a []any) []any {
			if len(a) != 2 {
				return nil
			}
			typ, _ := a[1].(string)
			switch v := a[0].(type) {
			case string:
				switch typ {
				case "int":
					if n, err := strconv.ParseInt(v, 10, 64); err == nil {
						return []any{float64(n)}
					}
				case "float":
					if f, err := strconv.ParseFloat(v, 64); err == nil {
						return []any{f}
					}
				case "bool":
					if v == "true" || v == "false" {
						return []any{v == "true"}
					}
				}
			case int:
				switch typ {
				case "string":
					return []any{strconv.Itoa(v)}
				case "float", "int":
					return []any{float64(v)}
				}
			case float64:
				if typ == "int" && v == math.Trunc(v) && math.Abs(v) < 1e15 {
					return []any{v}
				}
			}
			return nil
		}})
	add(&c6Fn{Name: "hex2dec", Cat: "conversion", Gen: func(r *rand.Rand) []any {
		s := strconv.FormatInt(int64(r.Intn(1<<20)), 16)
		if r.Intn(2) == 0 {
			s = strings.ToUpper(s)
		}
		return []any{s}
	}, Grid: [][]any{{"ff"}, {"FF"}, {"0"}, {"zz"}, {"0xFF"}, {""}, {"ffffffffffffffffff"}},
		Ref: func(a []any) []any {
			s, ok := a[0].(string)
			if !ok || len(a) != 1 || len(s) > 12 {
				return nil
			}
			n, err := strconv.ParseInt(s, 16, 64)
			if err != nil || strings.ContainsAny(s, "+-_") {
				return nil
			}
			return []any{float64(n)}
		}})
	add(&c6Fn{Name: "dec2hex", Cat: "conversion", Cmp: "ci", Gen: func(r *rand.Rand) []any { return []any{r.Intn(1 << 20)} },
		Grid: [][]any{{255}, {0}, {-1}, {255.5}, {int64(math.MaxInt64)}},
		Ref: func(a []any) []any {
			n, ok := c6AsInt(a[0])
			if !ok || len(a) != 1 || n < 0 {
				return nil
			}
			return []any{strconv.FormatInt(n, 16)}
		}})
	add(&c6Fn{Name: "encode", Cat: "conversion", Gen: func(r *rand.Rand) []any { return []any{c6GenStr(r), pick(r, []string{"base64", "hex", "url"})} },
		Grid: [][]any{{"hello", "base64"}, {"hello", "hex"}, {"a b", "url"}, {"x", "rot13"}, {"", "base64"}},
		Ref: func(a []any) []any {
			ss, ok := c6Strs(a)
			if !ok || len(ss) != 2 {
				return nil
			}
			switch ss[1] {
			case "base64":
				return []any{base64.StdEncoding.EncodeToString([]byte(ss[0]))}
			case "hex":
				h := hex.EncodeToString([]byte(ss[0]))
				return []any{h, strings.ToUpper(h)}
			case "url":
				return []any{url.QueryEscape(ss[0]), url.PathEscape(ss[0])}
			}
			return nil
		}})
	add(&c6Fn{Name: "decode", Cat: "conversion", Gen: func(r *rand.Rand) []any {
		s := c6GenStr(r).(string)
		switch r.Intn(3) {
		case 0:
			return []any{base64.StdEncoding.EncodeToString([]byte(s)), "base64"}
		case 1:
			return []any{hex.EncodeToString([]byte(s)), "hex"}
		}
		return []any{url.QueryEscape(s), "url"}
	}, Grid: [][]any{{"aGVsbG8=", "base64"}, {"!!", "base64"}, {"68656c6c6f", "hex"}, {"zz", "hex"}, {"%zz", "url"}, {"x", "rot13"}},
		Ref: func(a []any) []any {
			ss, ok := c6Strs(a)
			if !ok || len(ss) != 2 {
				return nil
			}
			switch ss[1] {
			case "base64":
				if b, err := base64.StdEncoding.DecodeString(ss[0]); err == nil && utf8.Valid(b) {
					return []any{string(b)}
				}
			case "hex":
				if b, err := hex.DecodeString(ss[0]); err == nil && utf8.Valid(b) {
					return []any{string(b)}
				}
			case "url":
				if s, err := url.QueryUnescape(ss[0]); err == nil {
					return []any{s}
				}
			}
			return nil
		}})
	add(&c6Fn{Name: "chr", Cat: "conversion", Gen: func(r *rand.Rand) []any { return []any{32 + r.Intn(95)} }, Grid: [][]any{{65}, {97}, {300}, {-1}, {0}, {127}, {65.5}},
		Ref: func(a []any) []any {
			n, ok := c6AsInt(a[0])
			if !ok || len(a) != 1 || n < 32 || n > 126 {
				return nil
			}
			return []any{string(rune(n))}
		}})
	add(&c6Fn{Name: "trunc", Cat: "conversion", Gen: func(r *rand.Rand) []any {
		if r.Intn(4) == 0 {
			return []any{c6GenNum(r)}
		}
		return []any{c6GenNum(r), r.Intn(4)}
	}, Grid: [][]any{{2.789, 2}, {-2.789, 1}, {2.789}, {1234.5, -2}, {5, 0}, {2.5, int64(math.MaxInt64)}},
		Ref: func(a []any) []any {
			x, ok := c6AsNum(a[0])
			if !ok || len(a) > 2 {
				return nil
			}
			p := 0
			if len(a) == 2 {
				q, ok := c6AsInt(a[1])
				if !ok || q < 0 || q > 6 {
					return nil
				}
				p = int(q)
			}
			return c6TruncAlts(x, p)
		}})
	add(&c6Fn{Name: "url_encode", Cat: "conversion", Gen: one(c6GenStr), Grid: [][]any{{"a b&c=d/é"}, {""}},
		Ref: func(a []any) []any {
			ss, ok := c6Strs(a)
			if !ok || len(ss) != 1 {
				return nil
			}
			return []any{url.QueryEscape(ss[0]), url.PathEscape(ss[0])}
		}})
	add(&c6Fn{Name: "url_decode", Cat: "conversion", Gen: func(r *rand.Rand) []any { return []any{url.QueryEscape(c6GenStr(r).(string))} },
		Grid: [][]any{{"a+b%26c"}, {"%zz"}, {"%"}, {""}},
		Ref: func(a []any) []any {
			ss, ok := c6Strs(a)
			if !ok || len(ss) != 1 {
				return nil
			}
			s, err := url.QueryUnescape(ss[0])
			if err != nil {
				return nil
			}
			alts := []any{s}
			if p, err := url.PathUnescape(ss[0]); err == nil {
				alts = append(alts, p)
			}
			return alts
		}})
	// ---- hash
	hash := func(name string, f func([]byte) []byte) {
		add(&c6Fn{Name: name, Cat: "hash", Gen: one(c6GenStr), Grid: [][]any{{"abc"}, {""}, {5}, {nil}},
			Ref: func(a []any) []any {
				s, ok := a[0].(string)
				if !ok || len(a) != 1 {
					return nil
				}
				return c6Hex(f([]byte(s)))
			}})
	}
	hash("md5", func(b []byte) []byte { s := md5.Sum(b); return s[:] })
	hash("sha1", func(b []byte) []byte { s := sha1.Sum(b); return s[:] })
	hash("sha256", func(b []byte) []byte { s := sha256.Sum256(b); return s[:] })
	hash("sha512", func(b []byte) []byte { s := sha512.Sum512(b); return s[:] })
	// ---- array (homogeneous int or string arrays; probe value of the element type)
	add(&c6Fn{Name: "array_length", Cat: "array", Gen: one(c6GenArr), Grid: [][]any{{[]any{}}, {[]any{1, 2, 3}}, {"x"}, {nil}},
		Ref: func(a []any) []any {
			arr, ok := c6Arr(a[0])
			if !ok || len(a) != 1 {
				return nil
			}
			return []any{float64(len(arr))}
		}})
	arrVal := func(r *rand.Rand) []any { arr := c6GenArr(r); return []any{arr, c6ArrElem(r, arr)} }
	add(&c6Fn{Name: "array_contains", Cat: "array", Gen: arrVal, Grid: [][]any{{[]any{1, 2, 3}, 2}, {[]any{1, 2, 3}, 5}, {[]any{}, 1}, {[]any{"a"}, "a"}, {"x", 1}},
		Ref: func(a []any) []any {
			arr, ok := c6Arr(a[0])
			if !ok || len(a) != 2 || !c6HomArr(arr, a[1]) {
				return nil
			}
			for _, e := range arr {
				if e == a[1] {
					return []any{true}
				}
			}
			return []any{false}
		}})
	add(&c6Fn{Name: "array_position", Cat: "array", Gen: arrVal, Grid: [][]any{{[]any{1, 2, 2}, 2}, {[]any{1, 2}, 9}, {[]any{}, 1}},
		Ref: func(a []any) []any {
			arr, ok := c6Arr(a[0])
			if !ok || len(a) != 2 || !c6HomArr(arr, a[1]) {
				return nil
			}
			for i, e := range arr {
				if e == a[1] {
					return []any{float64(i + 1), float64(i)}
				}
			}
			return []any{0.0, -1.0, c6Nil{}}
		}})
	add(&c6Fn{Name: "array_remove", Cat: "array", Gen: arrVal, Grid: [][]any{{[]any{1, 2, 2, 3}, 2}, {[]any{1}, 9}, {[]any{}, 1}},
		Ref: func(a []any) []any {
			arr, ok := c6Arr(a[0])
			if !ok || len(a) != 2 || !c6HomArr(arr, a[1]) {
				return nil
			}
			out := []any{}
			for _, e := range arr {
				if e != a[1] {
					out = append(out, e)
				}
			}
			return []any{out}
		}})
	add(&c6Fn{Name: "array_distinct", Cat: "array", Cmp: "set", Gen: one(c6GenArr), Grid: [][]any{{[]any{1, 2, 2, 1}}, {[]any{}}, {[]any{"a", "a"}}},
		Ref: func(a []any) []any {
			arr, ok := c6Arr(a[0])
			if !ok || len(a) != 1 || !c6HomArr(arr) {
				return nil
			}
			return []any{c6SetOf(arr, nil, "distinct")}
		}})
	setop := func(name, op string) {
		add(&c6Fn{Name: name, Cat: "array", Cmp: "set", Gen: func(r *rand.Rand) []any {
			if r.Intn(2) == 0 {
				return []any{c6GenIntArr(r), c6GenIntArr(r)}
			}
			return []any{c6GenStrArr(r), c6GenStrArr(r)}
		}, Grid: [][]any{{[]any{1, 2, 3, 2}, []any{2, 3, 4}}, {[]any{}, []any{1}}, {[]any{1}, []any{}}, {[]any{1}, "x"}},
			Ref: func(a []any) []any {
				if len(a) != 2 {
					return nil
				}
				x, ok1 := c6Arr(a[0])
				y, ok2 := c6Arr(a[1])
				if !ok1 || !ok2 || !c6HomArr(x, y...) {
					return nil
				}
				return []any{c6SetOf(x, y, op)}
			}})
	}
	setop("array_intersect", "intersect")
	setop("array_union", "union")
	setop("array_except", "except")
	// ---- JSON
	add(&c6Fn{Name: "to_json", Cat: "json", Cmp: "json", Gen: func(r *rand.Rand) []any {
		return []any{pick(r, []any{map[string]any{"a": 1, "b": []any{1, "x"}}, []any{1, 2}, "s", 12.5, true, map[string]any{}, []any{}, 7})}
	}, Grid: [][]any{{nil}, {map[string]any{"k": map[string]any{"n": nil}}}},
		Ref: func(a []any) []any {
			if len(a) != 1 {
				return nil
			}
			if f, ok := a[0].(float64); ok && (math.IsNaN(f) || math.IsInf(f, 0)) {
				return nil
			}
			b, err := json.Marshal(a[0])
			if err != nil {
				return nil
			}
			return []any{string(b)}
		}})
	add(&c6Fn{Name: "from_json", Cat: "json", Gen: func(r *rand.Rand) []any { return []any{pick(r, c6JSONs)} }, Grid: [][]any{{`{bad`}, {""}, {5}},
		Ref: func(a []any) []any {
			s, ok := a[0].(string)
			if !ok || len(a) != 1 {
				return nil
			}
			var v any
			if json.Unmarshal([]byte(s), &v) != nil {
				return nil
			}
			if v == nil {
				return []any{c6Nil{}}
			}
			return []any{v}
		}})
	add(&c6Fn{Name: "json_extract", Cat: "json", Gen: func(r *rand.Rand) []any {
		return pick(r, [][]any{
			{`{"name": "Alice"}`, "name"}, {`{"name": "Alice"}`, "$.name"},
			{`{"user": {"address": {"city": "New York"}}}`, "user.address.city"}, {`{"user": {"address": {"city": "New York"}}}`, "$.user.address.city"},
			{`[10, 20, 30]`, "[1]"}, {`[10, 20, 30]`, "$[1]"}, {`{"users": [{"name": "Alice"}, {"name": "Bob"}]}`, "users[1].name"},
			{`{"a":{"b":[1,2,3]}}`, "$.a.b[2]"}, {`{"a":{"b":[1,2,3]}}`, "a.b"}, {`{"a":1}`, "$.z"}, {`[1]`, "[5]"},
			{map[string]any{"a": map[string]any{"b": 2}}, "a.b"}, {[]any{1, []any{2, 3}}, "[1][0]"},
		})
	}, Grid: [][]any{{`bad`, "$.a"}, {`{"a":1}`, ""}, {`{"a":1}`, "$.["}, {nil, "a"}, {`{"a":1}`, "[99999999999999999999]"}},
		Ref: func(a []any) []any {
			if len(a) != 2 {
				return nil
			}
			path, ok := a[1].(string)
			if !ok || path == "" {
				return nil
			}
			var doc any
			switch src := a[0].(type) {
			case string:
				if json.Unmarshal([]byte(src), &doc) != nil {
					return nil
				}
			case map[string]any, []any:
				doc = src
			default:
				return nil
			}
			v, found := c6JSONPath(doc, path)
			if !found || v == nil {
				return nil // missing path: not documented
			}
			return []any{v}
		}})
	add(&c6Fn{Name: "json_valid", Cat: "json", Gen: func(r *rand.Rand) []any {
		return []any{pick(r, append(append([]string{}, c6JSONs...), `{a`, `[1,`, `{"a":}`, `nul`, ``, `{"a":1}}`))}
	}, Grid: [][]any{{5}, {nil}},
		Ref: func(a []any) []any {
			s, ok := a[0].(string)
			if !ok || len(a) != 1 {
				return nil
			}
			return []any{json.Valid([]byte(s))}
		}})
	add(&c6Fn{Name: "json_type", Cat: "json", Gen: func(r *rand.Rand) []any { return []any{pick(r, c6JSONs)} }, Grid: [][]any{{"bad"}, {nil}},
		Ref: func(a []any) []any {
			s, ok := a[0].(string)
			if !ok || len(a) != 1 {
				return nil
			}
			var v any
			if json.Unmarshal([]byte(s), &v) != nil {
				return nil
			}
			switch v.(type) {
			case map[string]any:
				return []any{"object"}
			case []any:
				return []any{"array"}
			case string:
				return []any{"string"}
			case float64:
				return []any{"number", "integer", "double", "float", "int"}
			case bool:
				return []any{"boolean", "bool"}
			}
			return []any{"null"}
		}})
	add(&c6Fn{Name: "json_length", Cat: "json", Gen: func(r *rand.Rand) []any { return []any{pick(r, c6JSONs)} }, Grid: [][]any{{"bad"}, {`3`}},
		Ref: func(a []any) []any {
			s, ok := a[0].(string)
			if !ok || len(a) != 1 {
				return nil
			}
			var v any
			if json.Unmarshal([]byte(s), &v) != nil {
				return nil
			}
			switch x := v.(type) {
			case map[string]any:
				return []any{float64(len(x))}
			case []any:
				return []any{float64(len(x))}
			}
			return nil
		}})
	// ---- type tests
	anyVal := func(r *rand.Rand) any {
		return pick(r, []any{nil, 0, 1, 2.5, "x", "", true, false, []any{1}, []any{}, map[string]any{"a": 1}, map[string]any{}, int64(7)})
	}
	tt := func(name string, f func(v any) []any) {
		add(&c6Fn{Name: name, Cat: "type", Gen: one(anyVal), Ref: func(a []any) []any {
			if len(a) != 1 {
				return nil
			}
			return f(a[0])
		}})
	}
	tt("is_null", func(v any) []any { return []any{v == nil} })
	tt("is_not_null", func(v any) []any { return []any{v != nil} })
	tt("is_numeric", func(v any) []any {
		if s, ok := v.(string); ok {
			if _, err := strconv.ParseFloat(s, 64); err == nil {
				return nil // numeric-looking text: "numeric type" vs "numeric value" is open
			}
		}
		if f, isF := v.(float64); isF && (math.IsNaN(f) || math.IsInf(f, 0)) {
			return nil
		}
		_, ok := c6AsNum(v)
		return []any{ok}
	})
	tt("is_string", func(v any) []any { _, ok := v.(string); return []any{ok} })
	tt("is_bool", func(v any) []any { _, ok := v.(bool); return []any{ok} })
	tt("is_array", func(v any) []any { _, ok := v.([]any); return []any{ok} })
	tt("is_object", func(v any) []any { _, ok := v.(map[string]any); return []any{ok} })
	// ---- conditional
	scalar := func(r *rand.Rand) any { return pick(r, []any{nil, nil, 0, 3, 2.5, "a", "", true, 7}) }
	add(&c6Fn{Name: "if_null", Cat: "conditional", Gen: two(scalar, scalar), Grid: [][]any{{nil, 5}, {3, 5}, {nil, nil}, {"", "d"}, {0, 1}},
		Ref: func(a []any) []any {
			if len(a) != 2 {
				return nil
			}
			if a[0] == nil {
				return []any{c6OrNil(a[1])}
			}
			return []any{a[0]}
		}})
	add(&c6Fn{Name: "coalesce", Cat: "conditional", Gen: func(r *rand.Rand) []any {
		n := 1 + r.Intn(4)
		out := make([]any, n)
		for i := range out {
			out[i] = scalar(r)
		}
		return out
	}, Grid: [][]any{{nil, nil, 7, 8}, {nil}, {0, 1}, {"", "x"}},
		Ref: func(a []any) []any {
			if len(a) == 0 {
				return nil
			}
			for _, v := range a {
				if v != nil {
					return []any{v}
				}
			}
			return []any{c6Nil{}}
		}})
	add(&c6Fn{Name: "null_if", Cat: "conditional", Gen: func(r *rand.Rand) []any {
		v := pick(r, []any{3, 2.5, "a", "", 0})
		if r.Intn(2) == 0 {
			return []any{v, v}
		}
		return []any{v, pick(r, []any{4, 1.5, "b", "a"})}
	}, Grid: [][]any{{3, 3}, {3, 4}, {"a", "a"}, {"a", "b"}, {3, 3.0}, {2.0, 2}},
		Ref: func(a []any) []any {
			if len(a) != 2 || a[0] == nil || a[1] == nil {
				return nil
			}
			fa, na := c6AsNum(a[0])
			fb, nb := c6AsNum(a[1])
			switch {
			case na && nb:
				if fa == fb {
					return []any{c6Nil{}}
				}
				return []any{a[0]}
			case na != nb:
				return nil
			}
			if reflect.DeepEqual(a[0], a[1]) {
				return []any{c6Nil{}}
			}
			return []any{a[0]}
		}})
	gl := func(name string, f func(a, b float64) float64) {
		add(&c6Fn{Name: name, Cat: "conditional", Gen: func(r *rand.Rand) []any {
			n := 1 + r.Intn(4)
			out := make([]any, n)
			for i := range out {
				out[i] = c6GenNum(r)
			}
			return out
		}, Grid: [][]any{{1, 5.5, 3}, {-1, -5}, {2}, {1, nil}, {1, "x"}, {"a", "b"}},
			Ref: func(a []any) []any {
				if len(a) == 0 {
					return nil
				}
				m, ok := c6AsNum(a[0])
				if !ok {
					return nil
				}
				for _, v := range a[1:] {
					x, ok := c6AsNum(v)
					if !ok {
						return nil
					}
					m = f(m, x)
				}
				return []any{m}
			}})
	}
	gl("greatest", math.Max)
	gl("least", math.Min)
	add(&c6Fn{Name: "case_when", Cat: "conditional", Gen: func(r *rand.Rand) []any { return []any{r.Intn(2) == 0, scalar(r), scalar(r)} },
		Grid: [][]any{{true, "y", "n"}, {false, "y", "n"}, {nil, "y", "n"}, {1, "y", "n"}, {"true", 1, 2}},
		Ref: func(a []any) []any {
			if len(a) != 3 {
				return nil
			}
			b, ok := a[0].(bool)
			if !ok {
				return nil
			}
			if b {
				return []any{c6OrNil(a[1])}
			}
			return []any{c6OrNil(a[2])}
		}})
	return t
}

func c6OrNil(v any) any {
	if v == nil {
		return c6Nil{}
	}
	return v
}

// c6SetOf computes distinct / union / intersect / except, in first-occurrence order.
func c6SetOf(x, y []any, op string) []any {
	in := func(s []any, v any) bool {
		for _, e := range s {
			if e == v {
				return true
			}
		}
		return false
	}
	out := []any{}
	addU := func(v any) {
		if !in(out, v) {
			out = append(out, v)
		}
	}
	switch op {
	case "distinct":
		for _, v := range x {
			addU(v)
		}
	case "union":
		for _, v := range x {
			addU(v)
		}
		for _, v := range y {
			addU(v)
		}
	case "intersect":
		for _, v := range x {
			if in(y, v) {
				addU(v)
			}
		}
	case "except":
		for _, v := range x {
			if !in(y, v) {
				addU(v)
			}
		}
	}
	return out
}

// ---- comparison -------------------------------------------------------------------------------------

// c6Norm maps engine results to plain JSON-like Go values: numbers → float64, any slice → []any.
func c6Norm(v any) any {
	switch x := v.(type) {
	case nil:
		return nil
	case string, bool:
		return x
	case map[string]any:
		out := make(map[string]any, len(x))
		for k, e := range x {
			out[k] = c6Norm(e)
		}
		return out
	case []any:
		out := make([]any, len(x))
		for i, e := range x {
			out[i] = c6Norm(e)
		}
		return out
	case json.Number:
		f, _ := x.Float64()
		return f
	}
	if f, ok := toF(v); ok {
		return f
	}
	rv := reflect.ValueOf(v)
	if rv.Kind() == reflect.Slice || rv.Kind() == reflect.Array {
		out := make([]any, rv.Len())
		for i := range out {
			out[i] = c6Norm(rv.Index(i).Interface())
		}
		return out
	}
	return v
}

func c6DeepEq(a, b any) bool {
	switch x := a.(type) {
	case float64:
		y, ok := b.(float64)
		return ok && feq(x, y)
	case []any:
		y, ok := b.([]any)
		if !ok || len(x) != len(y) {
			return false
		}
		for i := range x {
			if !c6DeepEq(x[i], y[i]) {
				return false
			}
		}
		return true
	case map[string]any:
		y, ok := b.(map[string]any)
		if !ok || len(x) != len(y) {
			return false
		}
		for k, v := range x {
			w, ok := y[k]
			if !ok || !c6DeepEq(v, w) {
				return false
			}
		}
		return true
	}
	return reflect.DeepEqual(a, b)
}

func c6Accepts(f *c6Fn, want []any, got any) bool {
	g := c6Norm(got)
	for _, w := range want {
		if _, isNil := w.(c6Nil); isNil {
			if g == nil {
				return true
			}
			continue
		}
		wn := c6Norm(w)
		switch f.Cmp {
		case "ci":
			gs, ok1 := g.(string)
			ws, ok2 := wn.(string)
			if ok1 && ok2 && strings.EqualFold(gs, ws) {
				return true
			}
		case "set":
			ga, ok1 := g.([]any)
			wa, ok2 := wn.([]any)
			if ok1 && ok2 && c6SameSet(ga, wa) {
				return true
			}
		case "json":
			gs, ok := g.(string)
			if ok {
				var gv, wv any
				if json.Unmarshal([]byte(gs), &gv) == nil && json.Unmarshal([]byte(wn.(string)), &wv) == nil && c6DeepEq(c6Norm(gv), c6Norm(wv)) {
					return true
				}
			}
		default:
			if c6DeepEq(g, wn) {
				return true
			}
		}
	}
	return false
}

func c6SameSet(a, b []any) bool {
	key := func(s []any) []string {
		out := make([]string, len(s))
		for i, e := range s {
			out[i] = tkey(e)
		}
		sort.Strings(out)
		return out
	}
	ka, kb := key(a), key(b)
	if len(ka) != len(kb) {
		return false
	}
	for i := range ka {
		if ka[i] != kb[i] {
			return false
		}
	}
	return true
}

// ---- the func stream ----------------------------------------------------------------------------------

type c06FuncCase struct {
	core.CaseRef
	Fn   string `json:"function"`
	Via  string `json:"via"`
	SQL  string `json:"sql,omitempty"`
	Args string `json:"args"`
}

func c6ArgString(a []any) string {
	parts := make([]string, len(a))
	for i, v := range a {
		s := fmt.Sprintf("%#v", v)
		if len(s) > 80 {
			s = s[:80] + "…"
		}
		parts[i] = s
	}
	return "(" + strings.Join(parts, ", ") + ")"
}

func c6ArgShape(a []any) string {
	parts := make([]string, len(a))
	for i, v := range a {
		switch x := v.(type) {
		case nil:
			parts[i] = "null"
		case string:
			parts[i] = "text"
			if len(x) > 1000 {
				parts[i] = "longtext"
			}
		case bool:
			parts[i] = "bool"
		case []any:
			parts[i] = "array"
		case map[string]any:
			parts[i] = "object"
		case float64:
			parts[i] = "float"
			if math.IsNaN(x) || math.IsInf(x, 0) {
				parts[i] = "nan_inf"
			} else if math.Abs(x) >= 1e15 {
				parts[i] = "hugefloat"
			}
		case uint64:
			parts[i] = "uint64max"
		default:
			parts[i] = "int"
			if n, ok := toF(v); ok && math.Abs(n) >= 1e15 {
				parts[i] = "hugeint"
			}
		}
	}
	return strings.Join(parts, ",")
}

func c06Func(ctx *core.Ctx) {
	table := c6Table()
	rounds := ctx.N(3, 40)
	ctx.Extra("functions_in_sweep", len(table))
	ctx.Cases("func", len(table)*rounds, workers(), func(i int, r *rand.Rand) {
		c6FuncCase(ctx, table[i%len(table)], i, r)
	})
}

type c6Tuple struct {
	Args    []any
	Want    []any // nil ⇒ outside the documented domain
	Hostile bool
}

// c6FuncTuples: the fixed grid, 8 drawn tuples, 6 tuples with one position made hostile.
func c6FuncTuples(f *c6Fn, r *rand.Rand) []c6Tuple {
	tuples := []c6Tuple{}
	addT := func(args []any, hostile bool) {
		tuples = append(tuples, c6Tuple{Args: args, Want: c6SafeRef(f, args), Hostile: hostile})
	}
	for _, g := range f.Grid {
		addT(g, false)
	}
	for k := 0; k < 8; k++ {
		addT(f.Gen(r), false)
	}
	for k := 0; k < 6; k++ { // one position replaced by a hostile value
		args := append([]any{}, f.Gen(r)...)
		if len(args) > 0 {
			args[r.Intn(len(args))] = pick(r, c6Hostile)
		}
		addT(args, true)
	}
	return tuples
}

// c6Dangerous: a huge numeric argument may be taken as a length; the engine then either panics
// (recoverable) or dies with "fatal error: out of memory" (not recoverable), so these tuples are
// evaluated in a child process with an address-space limit.
func c6Dangerous(args []any) bool {
	for _, a := range args {
		switch a.(type) {
		case string, bool, nil:
			continue
		}
		if f, ok := toF(a); ok && (math.Abs(f) >= 1e6 || math.IsInf(f, 0)) {
			return true
		}
	}
	return false
}

type c6ViolFn func(kind, via, sql string, t c6Tuple, detail string)

func c6FuncViol(ctx *core.Ctx, f *c6Fn, i int) c6ViolFn {
	ref := core.CaseRef{Stream: "func", Index: i}
	seen := map[string]bool{}
	return func(kind, via, sql string, t c6Tuple, detail string) {
		attrs := map[string]string{"fn": f.Name, "cat": f.Cat, "via": via, "args": c6ArgShape(t.Args), "arity": strconv.Itoa(len(t.Args)),
			"domain": map[bool]string{true: "in", false: "out"}[t.Want != nil]}
		sig := kind + via + attrs["args"]
		if seen[sig] {
			ctx.Count("violations_deduplicated_within_case", 1)
			return
		}
		seen[sig] = true
		ctx.Count("violations."+kind, 1)
		c6Dump(kind+"|fn="+f.Name+"|via="+via+"|args="+attrs["args"]+"|domain="+attrs["domain"], sql+" "+c6ArgString(t.Args))
		ctx.Violate(core.Violation{Kind: kind, Attrs: attrs, Detail: detail,
			Case: &c06FuncCase{CaseRef: ref, Fn: f.Name, Via: via, SQL: sql, Args: c6ArgString(t.Args)}})
	}
}

func c6FuncCase(ctx *core.Ctx, f *c6Fn, i int, r *rand.Rand) {
	all := c6FuncTuples(f, r)
	viol := c6FuncViol(ctx, f, i)
	tuples := []c6Tuple{}
	dangerous := 0
	for _, t := range all {
		if c6Dangerous(t.Args) {
			dangerous++
		} else {
			tuples = append(tuples, t)
		}
	}
	if dangerous > 0 {
		c6FuncDangerous(ctx, f, i, all, viol)
	}
	inDomain := 0
	// (a) direct calls
	fn, registered := functions.Get(f.Name)
	if !registered {
		for _, t := range tuples {
			if t.Want != nil {
				viol("func.documented_name_unregistered", "direct", "", t, fmt.Sprintf("functions.Get(%q) finds nothing, but docs/FUNCTIONS_USAGE_GUIDE.md documents %s%s = %v",
					f.Name, f.Name, c6ArgString(t.Args), t.Want[0]))
				break
			}
		}
	} else {
		for _, t := range tuples {
			got, err, pan := c6Direct(fn, t.Args)
			ctx.Count("func.direct_calls", 1)
			switch {
			case pan != "":
				viol("func.panic", "direct", "", t, fmt.Sprintf("functions.Get(%q).Execute%s panicked: %s", f.Name, c6ArgString(t.Args), c6Short(pan)))
			case t.Want == nil:
				ctx.Count("func.out_of_domain_calls_survived", 1)
			case err != nil:
				inDomain++
				viol("func.in_domain_error", "direct", "", t, fmt.Sprintf("%s%s: documented value %s, Execute/Validate returned error: %v", f.Name, c6ArgString(t.Args), c6WantString(t.Want), err))
			default:
				inDomain++
				ctx.Count("func.values_compared_with_reference", 1)
				if !c6Accepts(f, t.Want, got) {
					viol("func.wrong_value", "direct", "", t, fmt.Sprintf("%s%s: documented value %s, Execute returned %#v", f.Name, c6ArgString(t.Args), c6WantString(t.Want), got))
				}
			}
		}
	}
	// (b) through SQL, arguments as columns, lower and upper case name
	byArity := map[int][]int{}
	for ti, t := range tuples {
		byArity[len(t.Args)] = append(byArity[len(t.Args)], ti)
	}
	arities := make([]int, 0, len(byArity))
	for a := range byArity {
		arities = append(arities, a)
	}
	sort.Ints(arities)
	for _, ar := range arities {
		if ar == 0 {
			continue
		}
		cols := make([]string, ar)
		for k := range cols {
			cols[k] = fmt.Sprintf("a%df%d", k, i)
		}
		rows := []Row{}
		for _, ti := range byArity[ar] {
			row := Row{"id": ti}
			for k, v := range tuples[ti].Args {
				row[cols[k]] = v
			}
			rows = append(rows, row)
		}
		for _, up := range []bool{false, true} {
			name, via := f.Name, "sql_columns"
			if up {
				name, via = strings.ToUpper(f.Name), "sql_columns_upper"
			}
			sql := "SELECT " + name + "(" + strings.Join(cols, ", ") + ") AS r, id FROM stream"
			outs, err := c6Run(sql, rows, c6Rot(len(rows), 0))
			if err != nil {
				for _, ti := range byArity[ar] {
					if tuples[ti].Want != nil {
						viol("func.execute_error", via, sql, tuples[ti], fmt.Sprintf("%s\n  Execute error: %s\n  but the guide documents %s%s = %s", sql, c6Short(err.Error()), f.Name, c6ArgString(tuples[ti].Args), c6WantString(tuples[ti].Want)))
						break
					}
				}
				continue
			}
			ctx.Count("func.sql_instances", 1)
			for k, ti := range byArity[ar] {
				c6JudgeFuncSQL(ctx, f, tuples[ti], outs[k], via, sql, viol)
			}
		}
	}
	// (c) through SQL with literal arguments (sample)
	lit := 0
	for _, t := range tuples {
		if lit >= 4 {
			break
		}
		args, ok := c6LiteralArgs(t.Args)
		if !ok {
			continue
		}
		lit++
		sql := "SELECT " + f.Name + "(" + args + ") AS r, id FROM stream"
		outs, err := c6Run(sql, []Row{{"id": 1}}, []int{0})
		if err != nil {
			if t.Want != nil {
				viol("func.execute_error", "sql_literals", sql, t, fmt.Sprintf("%s\n  Execute error: %s\n  but the guide documents the value %s", sql, c6Short(err.Error()), c6WantString(t.Want)))
			}
			continue
		}
		ctx.Count("func.sql_instances", 1)
		c6JudgeFuncSQL(ctx, f, t, outs[0], "sql_literals", sql, viol)
	}
	if f.Name == "cast" { // the guide's syntax: cast(value as type)
		for _, typ := range []string{"int", "float", "string"} {
			col := fmt.Sprintf("a0f%dc", i)
			sql := "SELECT cast(" + col + " as " + typ + ") AS r, id FROM stream"
			var arg any = "12"
			if typ == "string" {
				arg = 12
			}
			t := c6Tuple{Args: []any{arg, typ}, Want: c6SafeRef(f, []any{arg, typ})}
			outs, err := c6Run(sql, []Row{{"id": 1, col: arg}}, []int{0})
			if err != nil {
				viol("func.execute_error", "sql_as_syntax", sql, t, fmt.Sprintf("%s\n  Execute error: %s", sql, c6Short(err.Error())))
				continue
			}
			c6JudgeFuncSQL(ctx, f, t, outs[0], "sql_as_syntax", sql, viol)
		}
	}
	var sample any
	if i < 2 {
		sample = map[string]any{"stream": "func", "function": f.Name, "tuples": len(tuples), "first": c6ArgString(tuples[0].Args)}
	}
	sig := "func|" + f.Name
	for _, t := range tuples {
		sig += c6ArgString(t.Args)
	}
	ctx.Count("func.functions_cases", 1)
	ctx.Case(sig, inDomain >= 3, sample)
}

func c6JudgeFuncSQL(ctx *core.Ctx, f *c6Fn, t c6Tuple, o c6Out, via, sql string, viol c6ViolFn) {
	ctx.Count("func.sql_values_observed", 1)
	switch {
	case o.Panic != "":
		viol("func.panic", via, sql, t, fmt.Sprintf("%s with args %s: EmitSync panicked: %s", sql, c6ArgString(t.Args), c6Short(o.Panic)))
	case o.Err != "":
		viol("func.emit_error", via, sql, t, fmt.Sprintf("%s with args %s: EmitSync error: %s", sql, c6ArgString(t.Args), c6Short(o.Err)))
	case t.Want == nil:
		ctx.Count("func.out_of_domain_calls_survived", 1)
	case o.Filtered:
		viol("func.row_missing", via, sql, t, sql+": no result row")
	default:
		ctx.Count("func.values_compared_with_reference", 1)
		got := o.Res["r"]
		if c6Accepts(f, t.Want, got) {
			return
		}
		kind := "func.wrong_value"
		if got == nil {
			kind = "func.unexpected_null"
		}
		viol(kind, via, sql, t, fmt.Sprintf("%s with args %s: documented value %s, engine returned %#v", sql, c6ArgString(t.Args), c6WantString(t.Want), got))
	}
}

func c6WantString(w []any) string {
	parts := make([]string, len(w))
	for i, v := range w {
		if _, ok := v.(c6Nil); ok {
			parts[i] = "NULL"
		} else {
			parts[i] = fmt.Sprintf("%#v", v)
		}
	}
	if len(parts) == 1 {
		return parts[0]
	}
	return "one of {" + strings.Join(parts, " | ") + "}"
}

func c6SafeRef(f *c6Fn, args []any) (want []any) {
	defer func() {
		if recover() != nil {
			want = nil // the reference itself refuses the input: outside the domain
		}
	}()
	if len(args) == 0 {
		return nil
	}
	return f.Ref(args)
}

func c6Direct(fn functions.Function, args []any) (got any, err error, pan string) {
	defer func() {
		if p := recover(); p != nil {
			pan = fmt.Sprint(p)
		}
	}()
	cp := make([]any, len(args))
	for i, a := range args {
		cp[i] = c6Copy(a)
	}
	if err := fn.Validate(cp); err != nil {
		return nil, err, ""
	}
	got, err = fn.Execute(&functions.FunctionContext{Data: map[string]any{}}, cp)
	return got, err, ""
}

func c6Copy(v any) any {
	switch x := v.(type) {
	case []any:
		out := make([]any, len(x))
		for i := range x {
			out[i] = c6Copy(x[i])
		}
		return out
	case map[string]any:
		out := make(map[string]any, len(x))
		for k, e := range x {
			out[k] = c6Copy(e)
		}
		return out
	}
	return v
}

var c6SimpleStr = regexp.MustCompile(`^[A-Za-z0-9 _.:=+-]*$`)

// c6LiteralArgs renders args as SQL literals when every argument has an unproblematic literal form.
func c6LiteralArgs(args []any) (string, bool) {
	parts := make([]string, len(args))
	for i, a := range args {
		switch x := a.(type) {
		case string:
			if !c6SimpleStr.MatchString(x) || len(x) > 40 {
				return "", false
			}
			parts[i] = "'" + x + "'"
		case int:
			if x > 1<<40 || x < -(1<<40) {
				return "", false
			}
			parts[i] = strconv.Itoa(x)
		case float64:
			if math.IsNaN(x) || math.IsInf(x, 0) || math.Abs(x) > 1e12 || (x != 0 && math.Abs(x) < 1e-4) {
				return "", false
			}
			parts[i] = strconv.FormatFloat(x, 'f', -1, 64)
		default:
			return "", false
		}
	}
	return strings.Join(parts, ", "), len(args) > 0
}
