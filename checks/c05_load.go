package checks

import (
	"fmt"
	"math/rand"
	"sync"
	"sync/atomic"
	"time"

	"verif/internal/core"
	"verif/internal/eng"
	"verif/internal/sched"
)

// C05 ordering under load: ONE producer emits ids 1..n back to back into an instance that has a
// (slow or fast) sync sink, extra async sinks, a small result channel drained by a goroutine, and
// the block strategy.  Ids must arrive strictly increasing at the sync sink (all of them) and on
// the channel (a subsequence, allowed only as far as output_dropped_count explains the gap).

type c05Load struct {
	core.CaseRef
	SQL          string `json:"sql"`
	N            int    `json:"rows"`
	Query        string `json:"query"`
	SinkDelayUs  int    `json:"sync_sink_delay_us"`
	AsyncSinks   int    `json:"async_sinks"`
	AsyncDelayUs int    `json:"async_sink_delay_us"`
	ResultChan   int    `json:"result_chan_size"`
	ReaderUs     int    `json:"channel_reader_delay_us"`
	DataChan     int    `json:"data_chan_size"`
	SinkPool     int    `json:"sink_pool_size"`
	Perturb      bool   `json:"perturb_sink_submit"`
	Thresh       int    `json:"threshold"`
	Strategy     string `json:"strategy"`
	Salt         int    `json:"salt"`
}

func genC05Load(ref core.CaseRef, r *rand.Rand, n int) *c05Load {
	c := &c05Load{CaseRef: ref, N: n}
	// the first two indices pin the slow / fast sink pair of the quick tier
	switch ref.Index {
	case 0:
		c.SinkDelayUs = 20
	case 1:
		c.SinkDelayUs = 0
	default:
		c.SinkDelayUs = pick(r, []int{0, 0, 5, 20, 50})
	}
	c.AsyncSinks = 1 + r.Intn(3)
	c.AsyncDelayUs = pick(r, []int{0, 0, 30, 100})
	c.ResultChan = pick(r, []int{1, 4, 16, 64})
	c.ReaderUs = pick(r, []int{0, 0, 0, 50, 200})
	switch ref.Index {
	case 0: // the channel reader cannot keep up: the result channel overflows for certain
		c.ResultChan, c.ReaderUs = 4, 200
	case 1: // the reader keeps up
		c.ResultChan, c.ReaderUs = 64, 0
	}
	c.DataChan = pick(r, []int{16, 128, 1024})
	c.Strategy = "block"
	if ref.Index%3 == 2 {
		// the input buffer is expanded (and migrated) while the single producer outruns a slowish consumer
		c.Strategy = "expand"
		c.DataChan = pick(r, []int{16, 64, 256})
		if c.SinkDelayUs == 0 {
			c.SinkDelayUs = 5
		}
	}
	if ref.Index%6 == 3 {
		// the default strategy: a full input buffer drops rows (and says so) - what is delivered keeps its order
		c.Strategy = "drop"
		c.DataChan = pick(r, []int{16, 64})
		if c.SinkDelayUs < 20 {
			c.SinkDelayUs = 20
		}
	}
	c.SinkPool = pick(r, []int{0, 4, 64})
	c.Perturb = r.Intn(3) > 0
	c.Thresh = r.Intn(60) - 10
	c.Salt = 1 + r.Intn(1000)
	c.Query = pick(r, []string{"filter_expr", "filter_expr", "star", "nested_or"})
	switch c.Query {
	case "filter_expr":
		c.SQL = fmt.Sprintf("SELECT id, v, v * 2 AS d FROM stream WHERE v >= %d", c.Thresh)
	case "star":
		c.SQL = "SELECT * FROM stream"
	default:
		c.SQL = fmt.Sprintf("SELECT id, s AS name, o.k AS k, v FROM stream WHERE v < %d OR s = 'a'", c.Thresh)
	}
	return c
}

func (c *c05Load) row(i int) Row {
	v := (i*7919+c.Salt)%101 - 20
	return Row{"id": i, "v": v, "s": []string{"a", "b", "c"}[(i+c.Salt)%3], "o": map[string]any{"k": i % 7}}
}

// passes is the reference WHERE; check is the reference projection of row i.
func (c *c05Load) passes(i int) bool {
	row := c.row(i)
	v := row["v"].(int)
	switch c.Query {
	case "filter_expr":
		return v >= c.Thresh
	case "star":
		return true
	}
	return v < c.Thresh || row["s"] == "a"
}

func (c *c05Load) wrong(i int, got map[string]any) string {
	row := c.row(i)
	var want map[string]any
	switch c.Query {
	case "filter_expr":
		want = map[string]any{"id": i, "v": row["v"], "d": 2 * row["v"].(int)}
	case "star":
		want = row
	default:
		want = map[string]any{"id": i, "name": row["s"], "k": i % 7, "v": row["v"]}
	}
	if !c05Eq(c05Norm(want), c05Norm(got)) {
		return fmt.Sprintf("result for id %d is %s, expected %s", i, c05Show(c05Norm(got)), c05Show(c05Norm(want)))
	}
	return ""
}

func runC05Load(ctx *core.Ctx) {
	n := ctx.N(4, 18)
	rows := ctx.N(5000, 20000)
	par := 4
	if w := workers(); w < par {
		par = w
	}
	sched.Seed(ctx.Seed*7919 + 5)
	sched.Set(&sched.Perturb{Prob: map[string]float64{"sink.submit": 0.03, "sink.worker_run": 0.03, "proc.chan_read": 0.005},
		MaxSleep: 200 * time.Microsecond, SleepShare: 0.4})
	defer sched.Set(nil)
	ctx.Cases("c05load", n, par, func(i int, r *rand.Rand) {
		c := genC05Load(core.CaseRef{Stream: "c05load", Index: i}, r, rows)
		execC05Load(ctx, c)
	})
	ctx.Count("perturbation_actions", sched.Acted())
}

func execC05Load(ctx *core.Ctx, c *c05Load) {
	attrs := func(path string) map[string]string {
		return map[string]string{"load": "yes", "path": path, "mode": "reference", "sink": map[bool]string{true: "slow", false: "fast"}[c.SinkDelayUs > 0],
			"reader": map[bool]string{true: "slow", false: "fast"}[c.ReaderUs > 0]}
	}
	viol := func(kind, path, detail string) {
		ctx.Count("violations_reported."+kind, 1)
		ctx.Violate(core.Violation{Kind: kind, Attrs: attrs(path), Detail: fmt.Sprintf("sql=%q: %s", c.SQL, detail), Case: c})
	}
	s, err := eng.New(c.SQL, eng.Opts{Strategy: c.Strategy, DataChan: c.DataChan, ResultChan: c.ResultChan, SinkPool: c.SinkPool})
	if err != nil {
		viol("execute.rejected", "execute", err.Error())
		return
	}
	expected := 0
	for i := 1; i <= c.N; i++ {
		if c.passes(i) {
			expected++
		}
	}

	// monitors (their state is mutex/atomic protected)
	type seqRec struct {
		mu      sync.Mutex
		ids     []int32
		wrong   string
		batches int
	}
	record := func(sr *seqRec, batch []map[string]any, checkValue bool) {
		sr.mu.Lock()
		defer sr.mu.Unlock()
		sr.batches++
		for _, m := range batch {
			id, ok := toI(m["id"])
			if !ok {
				if sr.wrong == "" {
					sr.wrong = "result without id: " + c05Show(c05Norm(m))
				}
				continue
			}
			sr.ids = append(sr.ids, int32(id))
			if checkValue && sr.wrong == "" {
				if w := c.wrong(int(id), m); w != "" {
					sr.wrong = w
				}
			}
		}
	}
	var sink, chanRec seqRec
	asyncRecs := make([]*seqRec, c.AsyncSinks)
	var asyncCalls int64
	for k := range asyncRecs {
		ar := &seqRec{}
		asyncRecs[k] = ar
		delay := time.Duration(c.AsyncDelayUs) * time.Microsecond
		s.AddSink(func(batch []map[string]any) {
			atomic.AddInt64(&asyncCalls, 1)
			if delay > 0 {
				time.Sleep(delay)
			}
			record(ar, batch, true)
		})
	}
	sinkDelay := time.Duration(c.SinkDelayUs) * time.Microsecond
	s.AddSyncSink(func(batch []map[string]any) {
		if sinkDelay > 0 {
			time.Sleep(sinkDelay)
		}
		record(&sink, batch, true)
	})
	ch := s.ToChannel()
	quit := make(chan struct{})
	done := make(chan struct{})
	readerDelay := time.Duration(c.ReaderUs) * time.Microsecond
	go func() {
		defer close(done)
		for {
			select {
			case b := <-ch:
				record(&chanRec, b, true)
				if readerDelay > 0 {
					time.Sleep(readerDelay)
				}
			case <-quit:
				for {
					select {
					case b := <-ch:
						record(&chanRec, b, true)
					default:
						return
					}
				}
			}
		}
	}()

	// the single producer
	panicked := ""
	func() {
		defer func() {
			if p := recover(); p != nil {
				panicked = fmt.Sprint(p)
			}
		}()
		for i := 1; i <= c.N; i++ {
			s.Emit(c.row(i))
		}
	}()
	if panicked != "" {
		s.Stop()
		close(quit)
		<-done
		a := attrs("emit")
		a["site"] = "Emit"
		ctx.Violate(core.Violation{Kind: "panic", Attrs: a, Detail: "Emit panicked under load: " + panicked, Case: c})
		return
	}
	drained := c05WaitDrained(s, 120*time.Second)
	count := func() int { sink.mu.Lock(); defer sink.mu.Unlock(); return len(sink.ids) }
	if drained {
		deadline := time.Now().Add(10 * time.Second)
		for {
			if count() >= expected {
				break
			}
			if time.Now().After(deadline) {
				break
			}
			time.Sleep(time.Millisecond)
		}
	}
	s.Stop()
	st := s.GetStats()
	close(quit)
	<-done
	if !drained {
		ctx.Inconclusive("watchdog: load run did not drain its input buffer within 120 s")
		return
	}
	inDropped := st["input_dropped_count"]
	if inDropped != 0 && c.Strategy != "drop" {
		ctx.Inconclusive("engine declared input overload in a load run")
		return
	}
	if c.Strategy == "drop" {
		ctx.Count("load.drop_strategy_runs", 1)
		ctx.Count("load.drop_strategy_rows_dropped_declared", inDropped)
	}
	ctx.Count("load.rows_emitted", int64(c.N))
	ctx.Count("load.results_expected", int64(expected))

	// sync sink: all expected ids, strictly increasing, correct values
	sink.mu.Lock()
	sids := append([]int32(nil), sink.ids...)
	swrong := sink.wrong
	sink.mu.Unlock()
	ctx.Count("load.sink_results", int64(len(sids)))
	if swrong != "" {
		viol("projection.wrong_value", "sink", swrong)
	}
	sinkOK := true
	for i := 1; i < len(sids); i++ {
		if sids[i] <= sids[i-1] {
			kind := "order.out_of_emission_order"
			if sids[i] == sids[i-1] {
				kind = "result.more_than_one_per_row"
			}
			viol(kind, "sink", fmt.Sprintf("single producer emitted ids 1..%d in order; the sync sink received id %d (delivery %d) after id %d", c.N, sids[i], i+1, sids[i-1]))
			sinkOK = false
			break
		}
	}
	for _, id := range sids {
		if !c.passes(int(id)) {
			viol("where.wrong_decision", "sink", fmt.Sprintf("row %s does not satisfy the WHERE clause but reached the sync sink", c05Show(c05Norm(c.row(int(id))))))
			sinkOK = false
			break
		}
	}
	if sinkOK && inDropped > 0 {
		// rows dropped at the input (declared by the counter) may or may not have satisfied the WHERE clause
		if int64(len(sids)) > int64(expected) || int64(len(sids)) < int64(expected)-inDropped {
			viol("where.wrong_decision", "sink", fmt.Sprintf("%d rows satisfy the WHERE clause and input_dropped_count=%d, but the sync sink received %d results", expected, inDropped, len(sids)))
		}
	} else if sinkOK && len(sids) != expected {
		viol("where.wrong_decision", "sink", fmt.Sprintf("%d rows satisfy the WHERE clause but the sync sink received %d results (input buffer empty, waited 10 s, then Stop())", expected, len(sids)))
	}

	// channel: strictly increasing subsequence; the gap must be explained by output_dropped_count
	chanRec.mu.Lock()
	cids := append([]int32(nil), chanRec.ids...)
	cwrong := chanRec.wrong
	chanRec.mu.Unlock()
	ctx.Count("load.channel_results", int64(len(cids)))
	ctx.Count("load.channel_dropped_declared", st["output_dropped_count"])
	if cwrong != "" {
		viol("projection.wrong_value", "chan", cwrong)
	}
	for i := 1; i < len(cids); i++ {
		if cids[i] <= cids[i-1] {
			kind := "order.out_of_emission_order"
			if cids[i] == cids[i-1] {
				kind = "result.more_than_one_per_row"
			}
			viol(kind, "chan", fmt.Sprintf("single producer emitted ids 1..%d in order; the channel delivered id %d (batch %d) after id %d", c.N, cids[i], i+1, cids[i-1]))
			break
		}
	}
	if gap := int64(expected - len(cids)); gap > st["output_dropped_count"]+inDropped {
		a := attrs("chan")
		a["result_chan"] = fmt.Sprint(c.ResultChan)
		ctx.Count("violations_reported.order.channel_gap_unaccounted", 1)
		ctx.Violate(core.Violation{Kind: "order.channel_gap_unaccounted", Attrs: a, Case: c,
			Detail: fmt.Sprintf("sql=%q: %d results expected, the channel delivered %d, but output_dropped_count=%d explains only part of the gap of %d (result channel size %d, reader delay %d us)",
				c.SQL, expected, len(cids), st["output_dropped_count"], gap, c.ResultChan, c.ReaderUs)})
	} else if gap > 0 {
		ctx.Count("load.channel_gap_explained_by_drop_counter", gap)
	}

	// async sinks: no order promised; what they receive must still be the row's result
	var asyncTotal int64
	for _, ar := range asyncRecs {
		ar.mu.Lock()
		asyncTotal += int64(len(ar.ids))
		w := ar.wrong
		ar.mu.Unlock()
		if w != "" {
			viol("projection.wrong_value", "async_sink", w)
		}
	}
	ctx.Count("load.async_sink_results", asyncTotal)
	ctx.Count("load.order_sequences_checked", 2)
	var sample any
	if c.Index < 2 {
		sample = map[string]any{"load_run": c, "expected": expected, "sink_results": len(sids), "channel_results": len(cids), "output_dropped_count": st["output_dropped_count"]}
	}
	ctx.Case(core.J(c), len(sids) > 100, sample)
}

// ---- both API paths on ONE instance at the same time -----------------------------------------------
//
// The filter and the projection of one instance are evaluated by the processing goroutine (Emit) and by
// the callers of EmitSync concurrently.  Every row's decision and result must still depend on that row
// only (the race detector watches the shared evaluator state as well).

type c05Conc struct {
	core.CaseRef
	SQL     string `json:"sql"`
	N       int    `json:"rows_per_path"`
	Thresh  int    `json:"threshold"`
	Syncers int    `json:"emitsync_goroutines"`
}

func runC05Concurrent(ctx *core.Ctx) {
	n := ctx.N(3, 24)
	ctx.Cases("c05conc", n, 3, func(i int, r *rand.Rand) {
		c := &c05Conc{CaseRef: core.CaseRef{Stream: "c05conc", Index: i}, N: ctx.N(20000, 60000), Thresh: 5 + r.Intn(20), Syncers: 1 + r.Intn(2)}
		c.SQL = []string{
			fmt.Sprintf("SELECT id, a + b AS s FROM stream WHERE a + b > %d", c.Thresh),
			fmt.Sprintf("SELECT id, a + b AS s FROM stream WHERE (a > %d OR b * 2 > %d) AND abs(a) >= 0", c.Thresh, c.Thresh),
			fmt.Sprintf("SELECT id, a + b AS s FROM stream WHERE o.k + a > %d", c.Thresh),
		}[i%3]
		passes := func(a, b, k int) bool {
			switch i % 3 {
			case 0:
				return a+b > c.Thresh
			case 1:
				return a > c.Thresh || b*2 > c.Thresh
			}
			return k+a > c.Thresh
		}
		row := func(id int) (Row, int, int, int) {
			a, b, k := (id*31)%23, (id*17)%19, id%7
			return Row{"id": id, "a": a, "b": b, "o": map[string]any{"k": k}}, a, b, k
		}
		attrs := map[string]string{"load": "yes", "path": "emit+emitsync", "mode": "reference"}
		viol := func(kind, detail string) {
			ctx.Violate(core.Violation{Kind: kind, Attrs: attrs, Detail: fmt.Sprintf("sql=%q: %s", c.SQL, detail), Case: c})
		}
		s, err := eng.New(c.SQL, eng.Opts{})
		if err != nil {
			viol("execute.rejected", err.Error())
			return
		}
		var mu sync.Mutex
		viaSink := map[int]float64{}
		s.AddSyncSink(func(batch []map[string]any) {
			mu.Lock()
			for _, m := range batch {
				id, _ := toI(m["id"])
				f, _ := toF(m["s"])
				viaSink[int(id)] = f
			}
			mu.Unlock()
		})
		total := c.N * (1 + c.Syncers)
		syncRes := make([]float64, total+1)
		syncOK := make([]bool, total+1)
		var wg sync.WaitGroup
		var panicked atomic.Value
		wg.Add(1)
		go func() { // the Emit path
			defer wg.Done()
			for id := 1; id <= c.N; id++ {
				rw, _, _, _ := row(id)
				s.Emit(rw)
			}
		}()
		for g := 0; g < c.Syncers; g++ {
			wg.Add(1)
			go func(g int) { // EmitSync callers
				defer wg.Done()
				defer func() {
					if p := recover(); p != nil {
						panicked.Store(fmt.Sprint(p))
					}
				}()
				for id := c.N*(g+1) + 1; id <= c.N*(g+2); id++ {
					rw, _, _, _ := row(id)
					res, err := s.EmitSync(rw)
					if err == nil && res != nil {
						f, _ := toF(res["s"])
						syncRes[id], syncOK[id] = f, true
					}
				}
			}(g)
		}
		wg.Wait()
		c05WaitDrained(s, 60*time.Second)
		s.Stop()
		if p, _ := panicked.Load().(string); p != "" {
			a := map[string]string{"site": "EmitSync", "load": "yes", "path": "emit+emitsync", "mode": "reference"}
			ctx.Violate(core.Violation{Kind: "panic", Attrs: a, Detail: "EmitSync panicked while Emit ran on the same instance: " + p, Case: c})
			return
		}
		mu.Lock()
		defer mu.Unlock()
		bad := 0
		for id := 1; id <= total; id++ {
			_, a, b, k := row(id)
			want := passes(a, b, k)
			var got bool
			var val float64
			if id <= c.N {
				val, got = viaSink[id]
			} else {
				val, got = syncRes[id], syncOK[id]
				if _, dup := viaSink[id]; !dup && got {
					// EmitSync also delivers to the sync sink; absence there is a path disagreement
					got = false
				}
			}
			if got != want || (got && val != float64(a+b)) {
				bad++
				if bad == 1 {
					viol("where.wrong_decision", fmt.Sprintf("row id=%d a=%d b=%d o.k=%d: reference says produced=%v s=%d, the engine (path %s) produced=%v s=%v, while Emit and EmitSync were evaluating the same instance concurrently",
						id, a, b, k, want, a+b, map[bool]string{true: "Emit+sink", false: "EmitSync"}[id <= c.N], got, val))
				}
			}
		}
		ctx.Count("conc.rows_checked", int64(total))
		ctx.Case(core.J(c), true, map[string]any{"sql": c.SQL, "rows": total, "emitsync_goroutines": c.Syncers, "wrong": bad})
	})
}
