package checks

import (
	"fmt"
	"math/rand"
	"reflect"
	"sort"
	"strings"
	"sync"
	"time"

	"github.com/rulego/streamsql"

	"verif/internal/core"
	"verif/internal/eng"
)

// C20 — caller data is never modified and instances do not influence each other.

func init() { register(&Check{ID: "C20", Race: true, Run: runC20}) }

type c20Query struct {
	Name  string
	SQL   string
	Sync  bool // EmitSync usable
	Table bool // needs a registered table
}

var c20Queries = []c20Query{
	{"projection", "SELECT id, a, n.x AS nx, arr FROM stream", true, false},
	{"star", "SELECT * FROM stream WHERE a >= 0", true, false},
	{"expression", "SELECT id, a * 2 + b AS e, upper(s) AS us, concat(s, '_x') AS cs FROM stream WHERE a + b > -100", true, false},
	{"analytic_select", "SELECT id, k, lag(a) OVER (PARTITION BY k) AS pa, acc_sum(a) OVER (PARTITION BY k) AS tot, latest(b) AS lb FROM stream", true, false},
	{"analytic_where", "SELECT id, k, a FROM stream WHERE had_changed(true, a)", true, false},
	{"analytic_wrapper", "SELECT id, a - lag(a) AS d FROM stream", true, false},
	{"fn_group_key", "SELECT upper(k) AS uk, count(*) AS c, collect(id) AS ids FROM stream GROUP BY upper(k), CountingWindow(3)", false, false},
	{"counting", "SELECT k, count(*) AS c, sum(a) AS s, collect(id) AS ids FROM stream GROUP BY k, CountingWindow(4)", false, false},
	{"tumbling_et", "SELECT k, count(*) AS c, collect(id) AS ids, window_start() AS ws FROM stream GROUP BY k, TumblingWindow('1s') WITH (TIMESTAMP='ts', TIMEUNIT='ms')", false, false},
	{"join", "SELECT id, a, m.label AS lbl, m.w AS w FROM stream JOIN meta m ON k = m.k", true, true},
	{"join_left_where", "SELECT id, k, m.label AS lbl FROM stream LEFT JOIN meta m ON k = m.k WHERE a >= 0", true, true},
	{"join_analytic", "SELECT id, a, lag(a) AS pa, m.label AS lbl FROM stream JOIN meta m ON k = m.k", true, true},
	{"join_fn_key", "SELECT upper(k) AS uk, count(*) AS c, collect(id) AS ids FROM stream LEFT JOIN meta m ON k = m.k GROUP BY upper(k), CountingWindow(3)", false, true},
	{"cep", "SELECT * FROM stream MATCH_RECOGNIZE (ORDER BY ts MEASURES MATCH_NUMBER() AS mn, FIRST(A.id) AS fid, COUNT(*) AS n ONE ROW PER MATCH PATTERN (A B) DEFINE A AS a > 5, B AS a <= 5)", false, false},
	{"cep_failing_define", "SELECT * FROM stream MATCH_RECOGNIZE (ORDER BY ts MEASURES MATCH_NUMBER() AS mn, FIRST(A.id) AS fid, COUNT(*) AS n ONE ROW PER MATCH PATTERN (A B) DEFINE A AS a / b > 2, B AS a <= 5)", false, false},
	{"cep_all_rows", "SELECT * FROM stream MATCH_RECOGNIZE (ORDER BY ts MEASURES MATCH_NUMBER() AS mn, FIRST(A.id) AS fid, LAST(A.a) AS la ALL ROWS PER MATCH PATTERN (A B) DEFINE A AS a > 5, B AS a <= 5)", false, false},
	{"array_fns", "SELECT id, array_remove(tags, 't1') AS rt, array_distinct(tags) AS dt, array_union(tags, tags) AS ut, array_except(tags, tags) AS et, array_remove(arr, 1) AS ra FROM stream", true, false},
	{"case_expr", "SELECT id, CASE WHEN a > 5 THEN 'hi' ELSE 'lo' END AS lvl, coalesce(s, 'none') AS cs FROM stream", true, false},
	{"unnest_objects", "SELECT id, k, unnest(orders) AS o FROM stream", false, false},
	{"unnest_scalars", "SELECT id, a, unnest(tags) AS tag FROM stream", false, false},
	{"merge_objects", "SELECT k, merge_agg(n) AS m, collect(id) AS ids, first_value(arr) AS fa, last_value(n) AS ln FROM stream GROUP BY k, CountingWindow(3)", false, false},
	{"expr_plus_in_args", "SELECT id, if_null(a + b, 0) AS t, round(a + b, 1) AS rt, lag(a + b) AS pl FROM stream", true, false},
}

type c20Case struct {
	core.CaseRef
	Query string `json:"query"`
	SQL   string `json:"sql"`
	Rows  []Row  `json:"rows"`
	API   string `json:"api"`  // emit | emitsync
	Mode  string `json:"mode"` // untouched | paired_same | paired_other
	Other string `json:"other_sql,omitempty"`
}

func c20Rows(r *rand.Rand, n int, typed string) []Row {
	rows := make([]Row, 0, n)
	ts := int64(5000)
	for i := 1; i <= n; i++ {
		ts += int64(r.Intn(500))
		row := Row{"id": i, "k": pick(r, []string{"x", "y", "Zz"}), "ts": baseTs + ts}
		switch typed {
		case "float":
			row["a"] = float64(r.Intn(20)) + 0.5
			row["b"] = float64(r.Intn(7))
		case "mixed":
			if i%2 == 0 {
				row["a"] = float64(r.Intn(20)) + 0.25
			} else {
				row["a"] = int64(r.Intn(20))
			}
			row["b"] = r.Intn(7)
		default:
			row["a"] = r.Intn(20)
			row["b"] = r.Intn(7) - 3
		}
		if r.Intn(6) > 0 {
			row["s"] = pick(r, []string{"ab", "Cd", "", "e f"})
		} else if r.Intn(2) == 0 {
			row["s"] = nil
		}
		row["orders"] = []any{map[string]any{"order_id": i*10 + 1, "amount": r.Intn(100)}, map[string]any{"order_id": i*10 + 2, "amount": r.Intn(100)}}
		row["tags"] = []any{"t" + fmt.Sprint(r.Intn(3)), "u"}
		if r.Intn(3) > 0 {
			row["n"] = map[string]any{"x": r.Intn(5), "deep": map[string]any{"l": []any{1, "two", 3.0}}}
			row["arr"] = []any{r.Intn(3), map[string]any{"q": "z"}}
		}
		rows = append(rows, row)
	}
	return rows
}

// c20LitTemplates: the same built-in functions with different literal arguments.  Function objects are
// process-wide singletons in the registry, so any per-call state they keep is shared by all instances.
var c20LitTemplates = [][]string{
	{"SELECT id, regexp_replace(s, '[0-9]', '#') AS r1, regexp_substring(s, '[a-z]+') AS r2, replace(s, 'a', 'Z') AS r3, lpad(s, 9, '*') AS r4, round(a / 3, 2) AS r5, substring(s, 1, 3) AS r6 FROM stream",
		"SELECT id, regexp_replace(s, '[a-z]', '_') AS r1, regexp_substring(s, '[0-9]+') AS r2, replace(s, 'b', 'Y') AS r3, lpad(s, 7, '-') AS r4, round(a / 7, 1) AS r5, substring(s, 2, 2) AS r6 FROM stream"},
	{"SELECT id, concat(s, '-x') AS r1, coalesce(t, 'n1') AS r2, regexp_matches(s, '^[a-c]+') AS r3, rpad(s, 8, '.') AS r4, power(a, 2) AS r5, if_null(t, 'zz') AS r6 FROM stream",
		"SELECT id, concat(s, '+y') AS r1, coalesce(t, 'n2') AS r2, regexp_matches(s, '^[0-9]+') AS r3, rpad(s, 6, '!') AS r4, power(a, 3) AS r5, if_null(t, 'qq') AS r6 FROM stream"},
}

func runC20Literals(ctx *core.Ctx) {
	n := ctx.N(4, 40)
	ctx.Cases("c20lit", n, 2, func(i int, r *rand.Rand) {
		tpl := c20LitTemplates[i%len(c20LitTemplates)]
		nrows := 4000 + r.Intn(4000)
		rows := make([]Row, nrows)
		for j := range rows {
			s := fmt.Sprintf("%s%d%s%d", pick(r, []string{"ab", "cab", "b", "abc"}), r.Intn(100), pick(r, []string{"a", "bb", "c"}), r.Intn(10))
			rows[j] = Row{"id": j, "s": s, "a": r.Intn(50) + 1}
		}
		c := &c20Case{CaseRef: core.CaseRef{Stream: "c20lit", Index: i}, Query: "fn_literals", SQL: tpl[0], Other: tpl[1], API: "emitsync", Mode: "paired_literals"}
		attrs := map[string]string{"query": c.Query, "api": c.API, "mode": c.Mode}
		run := func(sql string) ([]string, error) {
			s, err := eng.New(sql, eng.Opts{})
			if err != nil {
				return nil, err
			}
			defer s.Stop()
			out := make([]string, len(rows))
			for j, row := range rows {
				if j%256 == 0 && core.RaceSeen() {
					return nil, nil // a data race was already reported: it is the verdict, stop hammering the racy path
				}
				res, err := s.EmitSync(eng.DeepCopyMap(row))
				if err != nil {
					out[j] = "ERR:" + err.Error()
					continue
				}
				out[j] = canonRow(res)
			}
			return out, nil
		}
		solo := make([][]string, 2)
		for k := 0; k < 2; k++ {
			o, err := run(tpl[k])
			if err != nil {
				ctx.Violate(core.Violation{Kind: "isolation.execute_error", Attrs: attrs, Detail: err.Error() + "\n  sql: " + tpl[k], Case: c})
				return
			}
			if o == nil {
				return
			}
			solo[k] = o
		}
		// four instances (two per SQL) evaluate truly concurrently
		paired := make([][]string, 4)
		var wg sync.WaitGroup
		for k := 0; k < 4; k++ {
			wg.Add(1)
			go func(k int) { defer wg.Done(); paired[k], _ = run(tpl[k%2]) }(k)
		}
		wg.Wait()
		for k := 0; k < 4; k++ {
			for j := range rows {
				if paired[k] != nil && paired[k][j] != solo[k%2][j] {
					ctx.Violate(core.Violation{Kind: "isolation.result_differs_when_paired", Attrs: attrs, Case: c,
						Detail: fmt.Sprintf("row %d (%v): alone the instance returns %s, next to three concurrently running instances it returns %s\n  sql: %s\n  other sql: %s", j, rows[j], solo[k%2][j], paired[k][j], tpl[k%2], tpl[(k+1)%2])})
					return
				}
			}
		}
		ctx.Count("literal_variant_rows_compared", int64(4*nrows))
		ctx.Case(fmt.Sprintf("lit|%d|%d", i, nrows), true, map[string]any{"sql_a": tpl[0], "sql_b": tpl[1], "rows": nrows, "instances": 4})
	})
}

func runC20(ctx *core.Ctx) {
	ctx.SetRule("case = (one of 22 query kinds: projection, *, expressions, analytic in SELECT / in WHERE / wrapped, function group key, counting, event-time tumbling, JOIN inner/left+WHERE, JOIN with an analytic item / a function group key, CEP with and without a DEFINE that fails on some rows, CASE, unnest, merge_agg, ALL ROWS PER MATCH with MEASURES, array functions) × API (Emit | EmitSync) × mode (caller-data untouched + sink rows unaltered | paired with an instance of the same SQL | paired with a different SQL sharing expression texts but fed differently typed rows), nested rows from PRNG(seed,index). " +
		"non-trivial = at least 5 results were delivered and compared; distinct by (query, mode, api, rows) hash")
	ctx.Assume("structural deep equality including key sets; Go value types are compared exactly for caller data",
		"paired runs feed both instances from concurrent goroutines; the solo run is the oracle for the paired one, joined per row id")
	n := ctx.N(390, 9000)
	ctx.Cases("c20", n, 2*workers(), func(i int, r *rand.Rand) {
		q := c20Queries[i%len(c20Queries)]
		c := &c20Case{CaseRef: core.CaseRef{Stream: "c20", Index: i}, Query: q.Name, SQL: q.SQL}
		c.Mode = []string{"untouched", "paired_same", "paired_other"}[(i/len(c20Queries))%3]
		c.API = "emit"
		if q.Sync && r.Intn(2) == 0 {
			c.API = "emitsync"
		}
		c.Rows = c20Rows(r, 30+r.Intn(60), "int")
		execC20(ctx, c, q, r)
	})
	runC20Literals(ctx)
	runC20CaseTwins(ctx)
	runC20TypeTwins(ctx)
}

type c20Out struct {
	rows    []Row              // deep copies at delivery, in delivery order
	refs    [][]map[string]any // retained references to the delivered batches
	copies  [][]map[string]any
	mutated string
	err     error
}

// c20Run feeds rows to a fresh instance; checkCaller verifies that every input map is left untouched.
func c20Run(c *c20Case, q c20Query, sql string, rows []Row, api string, checkCaller bool, gate *sync.WaitGroup, settle int) c20Out {
	var out c20Out
	s, err := eng.New(sql, eng.Opts{})
	if err != nil {
		out.err = err
		return out
	}
	stopped := false
	defer func() {
		if !stopped {
			s.Stop()
		}
	}()
	if q.Table || strings.Contains(sql, " meta ") {
		_, err := s.RegisterTable("meta", []map[string]any{
			{"k": "x", "label": "LX", "w": 1}, {"k": "y", "label": "LY", "w": 2.5}}, "k")
		if err != nil {
			out.err = err
			return out
		}
	}
	var mu sync.Mutex
	s.AddSyncSink(func(batch []map[string]any) {
		cp := make([]map[string]any, len(batch))
		for i, m := range batch {
			cp[i] = eng.DeepCopyMap(m)
		}
		mu.Lock()
		out.refs = append(out.refs, batch)
		out.copies = append(out.copies, cp)
		for _, m := range cp {
			out.rows = append(out.rows, m)
		}
		mu.Unlock()
	})
	if gate != nil {
		gate.Done()
		gate.Wait()
	}
	type held struct {
		orig Row
		snap Row
	}
	var helds []held
	for _, row := range rows {
		in := eng.DeepCopyMap(row) // what the caller owns
		snap := eng.DeepCopyMap(in)
		if api == "emitsync" {
			_, _ = s.EmitSync(in)
		} else {
			s.Emit(in)
		}
		if checkCaller {
			if d := deepDiff(snap, in, ""); d != "" && out.mutated == "" {
				out.mutated = fmt.Sprintf("at return of %s for row id=%v: %s", api, row["id"], d)
			}
			helds = append(helds, held{in, snap})
		}
	}
	// quiescence
	rec := &eng.Rec{S: s}
	_ = rec
	deadline := time.Now().Add(10 * time.Second)
	last, stable := -1, 0
	for time.Now().Before(deadline) {
		time.Sleep(3 * time.Millisecond)
		st := s.GetStats()
		mu.Lock()
		n := len(out.rows)
		mu.Unlock()
		if st["data_chan_len"] == 0 && st["bufferUsed"] == 0 && n == last {
			stable++
			if stable >= settle {
				break
			}
		} else {
			stable = 0
		}
		last = n
	}
	s.Stop() // a barrier: no sink runs after it returned, so the recorder can be read
	stopped = true
	mu.Lock()
	defer mu.Unlock()
	if checkCaller && out.mutated == "" {
		for _, h := range helds {
			if d := deepDiff(h.snap, h.orig, ""); d != "" {
				out.mutated = fmt.Sprintf("after quiescence, row id=%v: %s", h.orig["id"], d)
				break
			}
		}
	}
	return out
}

// deepDiff returns "" when a and b are structurally identical (same key sets, same Go types).
func deepDiff(a, b any, path string) string {
	switch x := a.(type) {
	case map[string]any:
		y, ok := b.(map[string]any)
		if !ok {
			return fmt.Sprintf("%s: %T became %T", path, a, b)
		}
		for k := range y {
			if _, ok := x[k]; !ok {
				return fmt.Sprintf("%s: key %q was ADDED (value %v)", path, k, y[k])
			}
		}
		for k, v := range x {
			w, ok := y[k]
			if !ok {
				return fmt.Sprintf("%s: key %q was REMOVED", path, k)
			}
			if d := deepDiff(v, w, path+"."+k); d != "" {
				return d
			}
		}
		return ""
	case []any:
		y, ok := b.([]any)
		if !ok || len(x) != len(y) {
			return fmt.Sprintf("%s: slice changed (%v -> %v)", path, a, b)
		}
		for i := range x {
			if d := deepDiff(x[i], y[i], fmt.Sprintf("%s[%d]", path, i)); d != "" {
				return d
			}
		}
		return ""
	}
	if !reflect.DeepEqual(a, b) {
		return fmt.Sprintf("%s: value %#v became %#v", path, a, b)
	}
	return ""
}

func c20Index(rows []Row) map[string]string {
	// results joined per id (or per witness list for aggregates)
	out := map[string]string{}
	for i, r := range rows {
		key := ""
		switch {
		case r["ids"] != nil:
			key = "ids:" + fmt.Sprint(r["ids"])
		case r["id"] != nil:
			key = "id:" + fmt.Sprint(r["id"]) + "/" + fmt.Sprint(r["order_id"]) + fmt.Sprint(r["tag"]) + fmt.Sprint(r["o"])
		case r["fid"] != nil:
			key = "fid:" + fmt.Sprint(r["fid"]) + "/" + fmt.Sprint(r["mn"])
		default:
			key = fmt.Sprintf("#%d", i)
		}
		if _, dup := out[key]; dup {
			key += fmt.Sprintf("#dup%d", i)
		}
		out[key] = canonRow(r)
	}
	return out
}

func canonRow(r Row) string {
	ks := make([]string, 0, len(r))
	for k := range r {
		ks = append(ks, k)
	}
	sort.Strings(ks)
	var sb strings.Builder
	for _, k := range ks {
		if k == "window_id" {
			continue // processing-time windows stamp wall-clock bounds, which differ from run to run
		}
		fmt.Fprintf(&sb, "%s=%T:%v;", k, r[k], r[k])
	}
	return sb.String()
}

func execC20(ctx *core.Ctx, c *c20Case, q c20Query, r *rand.Rand) {
	attrs := map[string]string{"query": c.Query, "api": c.API, "mode": c.Mode}
	viol := func(kind, detail string) {
		ctx.Violate(core.Violation{Kind: kind, Attrs: attrs, Detail: detail + "\n  sql: " + c.SQL, Case: c})
	}
	solo := c20Run(c, q, c.SQL, c.Rows, c.API, c.Mode == "untouched", nil, 6)
	if solo.err != nil {
		viol("isolation.execute_error", solo.err.Error())
		return
	}
	switch c.Mode {
	case "untouched":
		if solo.mutated != "" {
			viol("caller_data.modified", "the map passed by the caller was changed "+solo.mutated)
			return
		}
		// rows given to the sink must not be altered by the engine afterwards
		for i := range solo.refs {
			for j := range solo.refs[i] {
				if d := deepDiff(solo.copies[i][j], solo.refs[i][j], ""); d != "" {
					viol("sink_rows.altered_after_delivery", fmt.Sprintf("a row delivered to the sink in batch %d changed after the delivery: %s", i, d))
					return
				}
			}
		}
		ctx.Count("caller_maps_checked", int64(len(c.Rows)))
		ctx.Count("sink_rows_rechecked", int64(len(solo.rows)))
	default:
		otherSQL := c.SQL
		otherRows := c.Rows
		otherQ := q
		if c.Mode == "paired_other" {
			// a different query that shares expression texts, fed rows of other Go types
			alt := []c20Query{
				{"alt_expr", "SELECT id, a * 2 + b AS e, upper(s) AS us, a - lag(a) AS d FROM stream WHERE a + b > -100", true, false},
				{"alt_agg", "SELECT upper(k) AS uk, sum(a) AS s, count(*) AS c FROM stream GROUP BY upper(k), CountingWindow(2)", false, false},
				{"alt_case", "SELECT id, CASE WHEN a > 5 THEN 'hi' ELSE 'lo' END AS lvl, concat(s, '_x') AS cs FROM stream WHERE a >= 0", true, false},
			}
			otherQ = alt[r.Intn(len(alt))]
			switch q.Name {
			case "cep":
				// the neighbour's DEFINE cannot be evaluated on some of its rows (b = 0)
				otherQ = c20Query{"alt_cep_failing", "SELECT * FROM stream MATCH_RECOGNIZE (ORDER BY ts MEASURES FIRST(A.id) AS fid, LAST(B.a) AS la ONE ROW PER MATCH PATTERN (A B) DEFINE A AS a / b > 1, B AS a + b <= 9)", false, false}
			case "cep_failing_define":
				otherQ = c20Query{"alt_cep", "SELECT * FROM stream MATCH_RECOGNIZE (ORDER BY ts MEASURES FIRST(A.id) AS fid, LAST(B.a) AS la ONE ROW PER MATCH PATTERN (A B) DEFINE A AS a > 7, B AS b <= 3)", false, false}
			}
			otherSQL = otherQ.SQL
			otherRows = c20Rows(r, len(c.Rows), pick(r, []string{"float", "mixed"}))
			c.Other = otherSQL
		}
		runPair := func(settle int) (c20Out, c20Out) {
			var gate sync.WaitGroup
			gate.Add(2)
			var paired, other c20Out
			var wg sync.WaitGroup
			wg.Add(2)
			go func() { defer wg.Done(); paired = c20Run(c, q, c.SQL, c.Rows, c.API, false, &gate, settle) }()
			go func() {
				defer wg.Done()
				api := "emit"
				if otherQ.Sync && c.API == "emitsync" {
					api = "emitsync"
				}
				other = c20Run(c, otherQ, otherSQL, otherRows, api, false, &gate, settle)
			}()
			wg.Wait()
			return paired, other
		}
		compare := func(solo, paired c20Out) (string, string) {
			a, b := c20Index(solo.rows), c20Index(paired.rows)
			for k, v := range a {
				if w, ok := b[k]; !ok {
					return "isolation.result_missing_when_paired", fmt.Sprintf("result %s is delivered when the instance runs alone but not when a second instance (%s) runs in the same process\n  solo: %s", k, otherSQL, v)
				} else if w != v {
					return "isolation.result_differs_when_paired", fmt.Sprintf("result %s differs between the solo run and the run paired with a second instance (%s)\n  solo:   %s\n  paired: %s", k, otherSQL, v, w)
				}
			}
			for k, w := range b {
				if _, ok := a[k]; !ok {
					return "isolation.extra_result_when_paired", fmt.Sprintf("result %s appears only in the paired run: %s", k, w)
				}
			}
			return "", ""
		}
		paired, other := runPair(6)
		if paired.err != nil || other.err != nil {
			viol("isolation.execute_error", fmt.Sprint(paired.err, other.err))
			return
		}
		if kind, _ := compare(solo, paired); kind != "" {
			// a difference must survive a re-run of both sides with a long settle period
			// (a result that merely arrived after the short settle is not a difference)
			ctx.Count("paired_mismatch_rechecked", 1)
			solo2 := c20Run(c, q, c.SQL, c.Rows, c.API, false, nil, 80)
			paired2, _ := runPair(80)
			if kind2, detail2 := compare(solo2, paired2); kind2 != "" {
				viol(kind2, detail2)
				return
			}
		}
		a := c20Index(solo.rows)
		ctx.Count("paired_results_compared", int64(len(a)))
	}
	var sample any
	if c.Index < 4 {
		sample = map[string]any{"query": c.Query, "sql": c.SQL, "mode": c.Mode, "api": c.API, "rows": len(c.Rows), "results": len(solo.rows), "first_row": c.Rows[0]}
	}
	ctx.Case(c.Query+c.Mode+c.API+core.J(c.Rows), len(solo.rows) >= 5, sample)
}

var _ = streamsql.New

// runC20CaseTwins: two instances whose statements differ ONLY in the letter case of string literals and of
// column names (both are case-sensitive), fed alternately; every result is compared with a direct reference.
// Process-wide caches keyed by a normalised form of the expression text would hand one instance the other's
// compiled program.
func runC20CaseTwins(ctx *core.Ctx) {
	n := ctx.N(6, 60)
	ctx.Cases("c20case", n, 2, func(i int, r *rand.Rand) {
		type lits struct{ suffix, repl, dflt, col string }
		a := lits{"-ALERT", "Q", "NONE", "Owner"}
		b := lits{"-alert", "q", "none", "owner"}
		if i%2 == 1 {
			a, b = b, a // which twin is evaluated first
		}
		sql := func(l lits) string {
			return fmt.Sprintf("SELECT id, concat(s, '%s') AS r1, replace(s, 'a', '%s') AS r2, coalesce(t, '%s') AS r3, upper(%s) AS r4 FROM stream", l.suffix, l.repl, l.dflt, l.col)
		}
		c := &c20Case{CaseRef: core.CaseRef{Stream: "c20case", Index: i}, Query: "case_twins", SQL: sql(a), Other: sql(b), API: "emitsync", Mode: "case_twins"}
		attrs := map[string]string{"query": c.Query, "api": c.API, "mode": c.Mode}
		sa, err := eng.New(c.SQL, eng.Opts{})
		if err != nil {
			ctx.Violate(core.Violation{Kind: "isolation.execute_error", Attrs: attrs, Detail: err.Error() + "\n  sql: " + c.SQL, Case: c})
			return
		}
		defer sa.Stop()
		sb, err := eng.New(c.Other, eng.Opts{})
		if err != nil {
			ctx.Violate(core.Violation{Kind: "isolation.execute_error", Attrs: attrs, Detail: err.Error() + "\n  sql: " + c.Other, Case: c})
			return
		}
		defer sb.Stop()
		check := func(who string, l lits, row Row, got map[string]any) bool {
			s := row["s"].(string)
			want := Row{"r1": s + l.suffix, "r2": strings.ReplaceAll(s, "a", l.repl), "r3": l.dflt, "r4": strings.ToUpper(row[l.col].(string))}
			for k, w := range want {
				if got == nil || !valEq(got[k], w) {
					ctx.Violate(core.Violation{Kind: "isolation.result_differs_from_solo", Attrs: attrs,
						Detail: fmt.Sprintf("instance %s (%s) returned %v for row %v; alone it gives %s=%v — the twin statement differs only in the letter case of its literals and column names\n  twin: %s", who, map[string]string{"A": c.SQL, "B": c.Other}[who], got, row, k, w, map[string]string{"A": c.Other, "B": c.SQL}[who]), Case: c})
					return false
				}
			}
			return true
		}
		for j := 0; j < 40; j++ {
			row := Row{"id": j, "s": pick(r, []string{"banana", "abc", "xyz", "a"}) + fmt.Sprint(r.Intn(9)), "Owner": pick(r, []string{"alice", "carol"}), "owner": pick(r, []string{"bob", "dave"})}
			ga, _ := sa.EmitSync(eng.DeepCopyMap(row))
			gb, _ := sb.EmitSync(eng.DeepCopyMap(row))
			ctx.Count("case_twins.results_checked", 2)
			if !check("A", a, row, ga) || !check("B", b, row, gb) {
				return
			}
		}
		ctx.Case("c20case"+c.SQL, true, nil)
	})
}

// runC20TypeTwins: two instances with the SAME statement whose rows differ in the Go types of the operands
// (texts in one, numbers in the other), fed alternately, the text instance first.  The numeric instance is checked
// against a direct reference: a process-wide memo of anything that depends on the row's types (is this + a
// concatenation?) would hand it the other instance's decision.
func runC20TypeTwins(ctx *core.Ctx) {
	n := ctx.N(4, 40)
	ctx.Cases("c20types", n, 2, func(i int, r *rand.Rand) {
		// fresh operand names per case: the memo, if any, is keyed by the expression text
		a, b := fmt.Sprintf("a%d_%d", ctx.Seed, i), fmt.Sprintf("b%d_%d", ctx.Seed, i)
		sql := fmt.Sprintf("SELECT id, if_null(%s + %s, 0) AS t, round(%s + %s, 1) AS rt, lag(%s + %s) AS pl FROM stream", a, b, a, b, a, b)
		c := &c20Case{CaseRef: core.CaseRef{Stream: "c20types", Index: i}, Query: "type_twins", SQL: sql, Other: sql, API: "emitsync", Mode: "type_twins"}
		attrs := map[string]string{"query": c.Query, "api": c.API, "mode": c.Mode}
		st, err1 := eng.New(sql, eng.Opts{})
		sn, err2 := eng.New(sql, eng.Opts{})
		if err1 != nil || err2 != nil {
			ctx.Violate(core.Violation{Kind: "isolation.execute_error", Attrs: attrs, Detail: fmt.Sprint(err1, err2) + "\n  sql: " + sql, Case: c})
			return
		}
		defer st.Stop()
		defer sn.Stop()
		var prev any
		for j := 0; j < 30; j++ {
			_, _ = st.EmitSync(Row{"id": j, a: pick(r, []string{"x", "y", "ab"}), b: pick(r, []string{"p", "q"})})
			x, y := r.Intn(40), r.Intn(9)
			got, err := sn.EmitSync(Row{"id": j, a: x, b: y})
			ctx.Count("type_twins.results_checked", 1)
			sum := float64(x + y)
			bad := err != nil || got == nil || !numEq(got["t"], sum) || !numEq(got["rt"], sum) || !valEq(got["pl"], prev)
			if !bad {
				if _, isText := got["t"].(string); isText {
					bad = true
				}
			}
			if bad {
				ctx.Violate(core.Violation{Kind: "isolation.result_differs_from_solo", Attrs: attrs,
					Detail: fmt.Sprintf("numeric instance, row {%s:%d %s:%d}: got %v (err %v); alone it gives t=%v rt=%v pl=%v — the twin instance runs the same statement over text operands\n  sql: %s", a, x, b, y, got, err, sum, sum, prev, sql), Case: c})
				return
			}
			prev = sum
		}
		// the same for an item evaluated AFTER aggregation: one instance completes its windows over int readings,
		// then its twin over float64 readings (a JSON decoder's numbers) - checked against what the statement says
		agg := fmt.Sprintf("SELECT k, last_value(%s) == 7 AS ok7, count(*) AS c, collect(id) AS ids FROM stream GROUP BY k, CountingWindow(2)", a)
		c2 := &c20Case{CaseRef: core.CaseRef{Stream: "c20types", Index: i}, Query: "type_twins_post_aggregation", SQL: agg, Other: agg, API: "emit", Mode: "type_twins"}
		attrs2 := map[string]string{"query": c2.Query, "api": c2.API, "mode": c2.Mode}
		for pass, mk := range []func(int) any{func(v int) any { return v }, func(v int) any { return float64(v) }} {
			inst, err := eng.New(agg, eng.Opts{})
			if err != nil {
				ctx.Violate(core.Violation{Kind: "isolation.execute_error", Attrs: attrs2, Detail: err.Error() + "\n  sql: " + agg, Case: c2})
				return
			}
			rec := eng.Attach(inst)
			lasts := []int{7, 5, 7, 8}
			for w, last := range lasts {
				rec.Emit(Row{"id": 2 * w, "k": "x", a: 1 + w})
				rec.Emit(Row{"id": 2*w + 1, "k": "x", a: mk(last)})
			}
			rec.WaitDeliveries(len(lasts), 5*time.Second)
			rec.Quiesce(3, 20*time.Millisecond, 3*time.Second)
			dels := rec.Deliveries()
			inst.Stop()
			for w, d := range dels {
				if w >= len(lasts) || len(d.Rows) != 1 {
					break
				}
				ctx.Count("type_twins.results_checked", 1)
				want := lasts[w] == 7
				if got, ok := d.Rows[0]["ok7"].(bool); !ok || got != want {
					ctx.Violate(core.Violation{Kind: "isolation.result_differs_from_solo", Attrs: attrs2,
						Detail: fmt.Sprintf("instance %d of 2 (readings as %T), window %d whose last reading is %d: `last_value(%s) == 7` = %#v, expected %v - the instance before it ran the same statement over readings of another Go type\n  sql: %s", pass+1, mk(1), w+1, lasts[w], a, d.Rows[0]["ok7"], want, agg), Case: c2})
					return
				}
			}
		}
		ctx.Case("c20types"+sql, true, nil)
	})
}
