//go:build verif

package checks

import (
	"fmt"
	"math/rand"
	"time"

	"verif/internal/core"
	"verif/internal/eng"
)

// c17nested: aggregates over NESTED columns, where the TRIGGER WHEN predicate reads an unselected aggregate over a
// path (outlet.temp) whose last segment equals that of a selected aggregate's path (inlet.temp), with the same
// function.  The predicate must be decided on its own column; the result holds the selected one.

type c17NestedCase struct {
	core.CaseRef
	SQL  string `json:"sql"`
	T    int    `json:"threshold"`
	Rows []Row  `json:"rows"`
}

func c17NestedStream(ctx *core.Ctx) {
	n := ctx.N(30, 600)
	ctx.Cases("c17nested", n, workers(), func(i int, r *rand.Rand) {
		c := &c17NestedCase{CaseRef: core.CaseRef{Stream: "c17nested", Index: i}, T: 50 + r.Intn(30)}
		fn := pick(r, []string{"max", "sum"})
		upper := i%4 == 3
		sel := fn
		if upper {
			sel = map[string]string{"max": "MAX", "sum": "SUM"}[fn]
		}
		c.SQL = fmt.Sprintf("SELECT k, %s(inlet.temp) AS hi, count(*) AS c, collect(id) AS ids FROM stream GROUP BY k, GLOBAL WINDOW TRIGGER WHEN %s(outlet.temp) >= %d", sel, fn, c.T)
		for j := 1; j <= 40+r.Intn(60); j++ {
			c.Rows = append(c.Rows, Row{"id": j, "k": pick(r, []string{"a", "b"}),
				"inlet": map[string]any{"temp": 60 + r.Intn(40)}, "outlet": map[string]any{"temp": r.Intn(35)}})
		}
		attrs := map[string]string{"pred_shape": "unselected_agg_over_nested_path", "fn": fn, "select_case": map[bool]string{true: "upper", false: "lower"}[upper]}
		viol := func(kind, detail string) {
			ctx.Violate(core.Violation{Kind: kind, Attrs: attrs, Detail: detail + "\nSQL: " + c.SQL, Case: c})
		}
		// reference
		type gs struct {
			ids     []int
			hi, out float64
			has     bool
		}
		st := map[string]*gs{}
		var want []string
		agg := func(cur, x float64, first bool) float64 {
			if fn == "sum" {
				return cur + x
			}
			if first || x > cur {
				return x
			}
			return cur
		}
		for _, row := range c.Rows {
			k := row["k"].(string)
			g := st[k]
			if g == nil {
				g = &gs{}
				st[k] = g
			}
			in := float64(row["inlet"].(map[string]any)["temp"].(int))
			out := float64(row["outlet"].(map[string]any)["temp"].(int))
			g.hi, g.out = agg(g.hi, in, !g.has), agg(g.out, out, !g.has)
			g.has = true
			g.ids = append(g.ids, row["id"].(int))
			if g.out >= float64(c.T) {
				want = append(want, fmt.Sprintf("%s|%v|%d|%s", k, g.hi, len(g.ids), idsStr(g.ids)))
				st[k] = nil
			}
		}
		s, err := eng.New(c.SQL, eng.Opts{})
		if err != nil {
			viol("global.execute_error", err.Error())
			return
		}
		rec := eng.Attach(s)
		defer s.Stop()
		for _, row := range c.Rows {
			rec.Emit(eng.DeepCopyMap(row))
		}
		if !rec.WaitDeliveries(len(want), 2*time.Second) || !rec.Quiesce(2, 2*time.Millisecond, 2*time.Second) {
			rec.Quiesce(3, 250*time.Millisecond, 20*time.Second)
		}
		if rec.Overloaded() {
			ctx.Inconclusive("c17nested: engine declared overload")
			return
		}
		var got []string
		for _, d := range rec.Deliveries() {
			for _, res := range d.Rows {
				ids, _ := idList(res["ids"])
				hi, _ := toF(res["hi"])
				cn, _ := toF(res["c"])
				got = append(got, fmt.Sprintf("%v|%v|%d|%s", res["k"], hi, int(cn), idsStr(ids)))
			}
		}
		ctx.Count("nested.fires_expected", int64(len(want)))
		// per-group order is fixed; different groups may interleave
		by := func(list []string) map[byte][]string {
			m := map[byte][]string{}
			for _, x := range list {
				m[x[0]] = append(m[x[0]], x)
			}
			return m
		}
		w, g := by(want), by(got)
		for _, k := range []byte{'a', 'b'} {
			if fmt.Sprint(w[k]) != fmt.Sprint(g[k]) {
				viol("global.wrong_fires", fmt.Sprintf("group %c: fires (key|selected aggregate|count|ids) are %v, expected %v: the predicate reads %s(outlet.temp), the result %s(inlet.temp)", k, g[k], w[k], fn, fn))
				return
			}
		}
		ctx.Case("c17nested"+c.SQL+core.J(c.Rows), len(want) >= 2, nil)
	})
}

// c17ttl: WITH (STATETTL=...) reaps groups that have been IDLE for the TTL.  A group that keeps receiving rows
// (one every 50 ms, TTL 1 s) without firing for longer than the TTL plus a reaper tick is active the whole time:
// it must fire once, at the row that makes the predicate true, over all its rows.
func c17TTLStream(ctx *core.Ctx) {
	n := ctx.N(2, 8)
	ctx.Cases("c17ttl", n, 8, func(i int, r *rand.Rand) {
		need := 46 + r.Intn(4)
		sql := fmt.Sprintf("SELECT k, count(*) AS c, sum(v) AS s, collect(id) AS ids FROM stream GROUP BY k, GLOBAL WINDOW TRIGGER WHEN count(*) >= %d WITH (STATETTL='1s')", need)
		attrs := map[string]string{"pred_shape": "count_only", "state_ttl": "1s"}
		c := &c17NestedCase{CaseRef: core.CaseRef{Stream: "c17ttl", Index: i}, SQL: sql, T: need}
		viol := func(kind, detail string) {
			ctx.Violate(core.Violation{Kind: kind, Attrs: attrs, Detail: detail + "\nSQL: " + sql, Case: c})
		}
		s, err := eng.New(sql, eng.Opts{})
		if err != nil {
			viol("global.execute_error", err.Error())
			return
		}
		rec := eng.Attach(s)
		defer s.Stop()
		last := time.Now()
		var maxGap time.Duration
		for j := 1; j <= need+2; j++ {
			rec.Emit(Row{"id": j, "k": "a", "v": 1})
			time.Sleep(50 * time.Millisecond)
			if g := time.Since(last); g > maxGap {
				maxGap = g
			}
			last = time.Now()
		}
		if maxGap > 400*time.Millisecond {
			ctx.Inconclusive("c17ttl: the producer itself paused for longer than the harness allows (loaded machine)")
			return
		}
		rec.WaitDeliveries(1, 3*time.Second)
		rec.Quiesce(3, 100*time.Millisecond, 5*time.Second)
		dels := rec.Deliveries()
		ctx.Count("ttl.active_group_runs", 1)
		if len(dels) != 1 || len(dels[0].Rows) != 1 || !numEq(dels[0].Rows[0]["c"], need) {
			viol("global.active_group_state_lost", fmt.Sprintf("a group that received a row every 50 ms (largest pause %v, STATETTL 1s) must fire once with count %d after %d rows; deliveries: %v", maxGap, need, need+2, dels))
			return
		}
		ctx.Case(fmt.Sprintf("c17ttl|%d", need), true, nil)
		ctx.Distinct(fmt.Sprintf("c17ttl-run-%d", i))
	})
}

// c17blank: no witness column (it would take a value on every row).  TRIGGER WHEN count(*) >= N with count(*)
// unselected; some rows carry no reading at all (v NULL or absent), also the row at which the predicate becomes
// true: a row is a row, the group fires there, with sum(v) / count(v) over exactly the N rows of the cycle.
func c17BlankStream(ctx *core.Ctx) {
	n := ctx.N(20, 400)
	ctx.Cases("c17blank", n, workers(), func(i int, r *rand.Rand) {
		need := 2 + r.Intn(4)
		sql := fmt.Sprintf("SELECT k, sum(v) AS s, count(v) AS cv FROM stream GROUP BY k, GLOBAL WINDOW TRIGGER WHEN count(*) >= %d", need)
		attrs := map[string]string{"pred_shape": "count_only", "witness_column": "none", "pred_aggs_selected": "none"}
		c := &c17NestedCase{CaseRef: core.CaseRef{Stream: "c17blank", Index: i}, SQL: sql, T: need}
		viol := func(kind, detail string) {
			ctx.Violate(core.Violation{Kind: kind, Attrs: attrs, Detail: detail + "\nSQL: " + sql, Case: c})
		}
		keys := []string{"a", "b"}[:1+r.Intn(2)]
		type cyc struct {
			sum  float64
			cnt  int
			rows int
			any  bool
		}
		cur := map[string]*cyc{}
		want := map[string][]cyc{}
		for j := 1; j <= 12+r.Intn(30); j++ {
			k := pick(r, keys)
			row := Row{"id": j, "k": k}
			st := cur[k]
			if st == nil {
				st = &cyc{}
				cur[k] = st
			}
			switch r.Intn(3) {
			case 0: // no reading
				if r.Intn(2) == 0 {
					row["v"] = nil
				}
			default:
				v := 1 + r.Intn(9)
				row["v"] = v
				st.sum += float64(v)
				st.cnt++
				st.any = true
			}
			st.rows++
			if st.rows == need {
				want[k] = append(want[k], *st)
				cur[k] = &cyc{}
			}
			c.Rows = append(c.Rows, row)
		}
		expect := 0
		for _, w := range want {
			expect += len(w)
		}
		res := runWindow(sql, c.Rows, runOpts{Opts: eng.Opts{}, Expect: expect})
		if res.Err != nil {
			viol("global.execute_error", res.Err.Error())
			return
		}
		if res.Overloaded || !res.Quiescent {
			ctx.Inconclusive("c17blank: overload or not quiescent")
			return
		}
		got := map[string]int{}
		for _, d := range res.Dels {
			for _, out := range d.Rows {
				k, _ := out["k"].(string)
				idx := got[k]
				got[k]++
				if idx >= len(want[k]) {
					viol("global.fired_while_false", fmt.Sprintf("key %q: result #%d %s, but its %d rows complete only %d cycles of %d rows", k, idx+1, core.J(out), len(c.Rows), len(want[k]), need))
					return
				}
				w := want[k][idx]
				okSum := (w.any && numEq(out["s"], w.sum)) || (!w.any && (out["s"] == nil || numEq(out["s"], 0)))
				if !okSum || !numEq(out["cv"], w.cnt) {
					viol("global.wrong_aggregate", fmt.Sprintf("key %q cycle #%d (rows %d, %d of them with a reading): expected sum(v)=%v count(v)=%d, delivered %s; rows: %s", k, idx+1, need, w.cnt, w.sum, w.cnt, core.J(out), core.J(c.Rows)))
					return
				}
			}
		}
		for _, k := range keys {
			if got[k] != len(want[k]) {
				viol("global.missed_fire", fmt.Sprintf("key %q: %d results delivered, %d cycles of %d rows were completed (a row without a reading is a row); rows: %s", k, got[k], len(want[k]), need, core.J(c.Rows)))
				return
			}
		}
		ctx.Count("blank.results_checked", int64(expect))
		ctx.Case(sql+core.J(c.Rows), expect >= 2, nil)
	})
}
