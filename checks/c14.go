package checks

import (
	"fmt"
	"math/rand"
	"reflect"
	"strings"
	"sync"
	"time"

	"github.com/rulego/streamsql"

	"verif/internal/core"
	"verif/internal/eng"
)

// C14 — analytic functions are sequential per partition and isolated across partitions.
//
// Per case: one generated query (1–4 analytic SELECT items, optional WHERE with or without an
// analytic call), one generated row sequence over 1–6 partitions, and
//   1. instance A gets the rows through EmitSync; every returned row is compared with the
//      reference state machines of c14_ref.go (per item, per typed partition tuple);
//   2. twin instance B gets the same rows through Emit and a sync sink; the delivered sequence
//      must be identical to A's (parity);
//   3. when all items share one PARTITION BY, each partition's rows are fed alone to a fresh
//      instance and must give the outputs they gave in the interleaved run (isolation).
// Above the partition cap (eng.Opts{MaxPartition}) only absence of panic and parity are checked.

func init() { register(&Check{ID: "C14", Race: true, Run: runC14}) }

type c14Case struct {
	core.CaseRef
	SQL      string     `json:"sql"`
	Cap      int        `json:"max_partitions"` // 0 = engine default (10000)
	KeyCols  []string   `json:"key_cols"`
	KeyShape string     `json:"key_shape"`
	NParts   int        `json:"partitions"`
	Values   string     `json:"value_types"`
	Missing  bool       `json:"has_missing_columns"`
	Items    []*c14Item `json:"items"`
	Where    *c14Where  `json:"where,omitempty"`
	SameOver bool       `json:"same_partitioning"`
	Rows     []Row      `json:"rows"`
}

func (c *c14Case) effCap() int {
	if c.Cap > 0 {
		return c.Cap
	}
	return 10000
}

// ---- generator -------------------------------------------------------------------------------

// c14Confusable: groups of key tuples (same arity within a group) that are distinct as typed tuples
// but collide under some untyped / separator-joined / marker-based / prefix-free encoding.  A column
// may mix strings with numbers here: the repository documents that int 1 and string "1" are
// different partitions (TestAnalytic_PartitionKeyTypeSafe); equal numbers of different Go numeric
// types never appear in one column.
var c14Confusable = [][][]any{
	{{"a|b", "c"}, {"a", "b|c"}, {"a", "b"}, {"a|b|c", ""}, {"", "a|b|c"}},
	{{"a,b", "c"}, {"a", "b,c"}, {"a,b,c", ""}},
	{{"a\x1fb", "c"}, {"a", "b\x1fc"}, {"a\x00b", "c"}, {"a", "b\x00c"}},
	{{nil}, {""}, {"\x00NULL"}, {"nil"}, {"<nil>"}, {"NULL"}, {" "}, {"nil|"}},
	{{"", "a"}, {"a", ""}, {nil, "a"}, {"a", nil}, {"", ""}, {nil, nil}, {"", nil}, {nil, ""}},
	{{"a"}, {"A"}, {"a "}, {" a"}, {"a|"}, {"|a"}},
	{{"a", "", "b"}, {"a", "b", ""}, {"", "a", "b"}, {"a", nil, "b"}, {"a", "b", nil}},
	{{"a|string|b", "c"}, {"a", "b|string|c"}, {"a|6:string|b", "c"}, {"a", "b|8:string|c"}},
	{{1}, {"1"}, {2.5}, {"2.5"}, {"int|1"}, {true}, {"true"}},
	{{1, "2"}, {"1", 2}, {"1", "2"}, {1, 2}, {"1|2", nil}},
}

func genC14(ref core.CaseRef, r *rand.Rand) *c14Case {
	c := &c14Case{CaseRef: ref}
	// partition key columns: one Go type per column (int 1 and float64 1.0 being "the same key" or not
	// is not something the property fixes, so it is never made to matter)
	var tuples [][]any
	var allVals []any
	nk := 0
	confusable := r.Intn(20) < 7
	if confusable {
		// key sets that collide under a careless encoding (joined with a separator, untyped, NULL as a
		// marker string, no length prefix); typed tuples keep them apart
		g := pick(r, c14Confusable)
		nk = len(g[0])
		perm := r.Perm(len(g))
		for _, pi := range perm[:min(len(g), 2+r.Intn(5))] {
			tuples = append(tuples, g[pi])
			allVals = append(allVals, g[pi]...)
		}
		c.KeyCols = []string{"k1", "k2", "k3"}[:nk]
	} else {
		nk = pick(r, []int{1, 1, 1, 2, 2, 3})
		c.KeyCols = []string{"k1", "k2", "k3"}[:nk]
		doms := make([][]any, nk)
		for i := range doms {
			switch r.Intn(6) {
			case 0:
				for _, v := range []int{1, 2, 10, -1}[:2+r.Intn(3)] {
					doms[i] = append(doms[i], v)
				}
			case 1:
				for _, v := range []float64{1.5, 2.5, -0.25}[:2+r.Intn(2)] {
					doms[i] = append(doms[i], v)
				}
				if r.Intn(3) == 0 {
					// numeric ids as a JSON decoder delivers them: neighbours beyond single precision
					doms[i] = []any{16777216.0, 16777217.0, 20000001.5, 20000002.5}[:2+r.Intn(3)]
				}
			case 2:
				for j, n := 0, 2+r.Intn(3); j < n; j++ {
					doms[i] = append(doms[i], pick(r, plainKeys))
				}
			default:
				for j, n := 0, 2+r.Intn(4); j < n; j++ {
					doms[i] = append(doms[i], pick(r, keyAlphabet))
				}
				if r.Intn(3) == 0 {
					doms[i] = append(doms[i], nil)
				}
			}
		}
		want := 1 + r.Intn(6)
		seen := map[string]bool{}
		for try := 0; try < 60 && len(tuples) < want; try++ {
			t := make([]any, nk)
			row := Row{}
			for i := range t {
				t[i] = pick(r, doms[i])
				row[c.KeyCols[i]] = t[i]
			}
			if k := tuple(row, c.KeyCols); !seen[k] {
				seen[k] = true
				tuples = append(tuples, t)
				allVals = append(allVals, t...)
			}
		}
	}
	c.NParts = len(tuples)
	c.KeyShape = keyShape(allVals)
	if r.Intn(2) == 0 {
		c.Cap = 2 + r.Intn(3)
	}

	// value columns: v (numbers, optionally strings), w (numbers), g (small int, always present)
	allowStr := r.Intn(5) < 2
	c.Values = "num"
	if allowStr {
		c.Values = "num+str"
	}
	pNull := pick(r, []float64{0, 0.1, 0.1, 0.3})
	pMiss := pick(r, []float64{0, 0, 0, 0.1, 0.2})
	c.Missing = pMiss > 0
	pool := func(n int, strs bool) []any {
		var p []any
		for len(p) < n {
			switch r.Intn(8) {
			case 0:
				p = append(p, float64(r.Intn(5))+0.5)
			case 1:
				p = append(p, int64(r.Intn(7)))
			case 2:
				p = append(p, float64(r.Intn(1000))*1e3)
			case 3:
				p = append(p, -float64(r.Intn(40))/4)
			case 4:
				if strs {
					p = append(p, pick(r, []string{"x", "y", "", "a|b", "NULL", "v"}))
				} else {
					p = append(p, 0)
				}
			default:
				p = append(p, r.Intn(13)-3)
			}
		}
		return p
	}
	vPool := pool(2+r.Intn(5), allowStr)
	wPool := pool(2+r.Intn(4), false)
	draw := func(p []any) (any, bool) {
		x := r.Float64()
		switch {
		case x < pMiss:
			return nil, false
		case x < pMiss+pNull:
			return nil, true
		}
		return pick(r, p), true
	}
	n := 30 + r.Intn(171)
	sticky := r.Intn(3) == 0
	cur := 0
	for i := 1; i <= n; i++ {
		if !(sticky && r.Intn(5) < 3) {
			cur = r.Intn(len(tuples))
		}
		row := Row{"id": i, "g": r.Intn(10)}
		for j, col := range c.KeyCols {
			v := tuples[cur][j]
			if v == nil && r.Intn(2) == 0 {
				continue // missing key column == NULL key
			}
			row[col] = v
		}
		if v, ok := draw(vPool); ok {
			row["v"] = v
		}
		if v, ok := draw(wPool); ok {
			row["w"] = v
		}
		c.Rows = append(c.Rows, row)
	}

	// partitioning: most cases use one PARTITION BY for every item so that the isolation test applies
	subset := func() []string {
		var s []string
		for _, k := range c.KeyCols {
			if r.Intn(3) > 0 {
				s = append(s, k)
			}
		}
		if len(s) == 0 {
			s = []string{pick(r, c.KeyCols)}
		}
		return s
	}
	common := subset()
	if confusable {
		common = c.KeyCols
	}
	c.SameOver = r.Intn(10) < 7
	partFor := func() []string {
		if c.SameOver {
			return common
		}
		switch r.Intn(4) {
		case 0:
			return nil
		case 1:
			return common
		}
		return subset()
	}
	numCol := func() string {
		if allowStr {
			return pick(r, []string{"w", "w", "g"})
		}
		return pick(r, []string{"v", "w", "w", "g"})
	}
	anyCol := func() string { return pick(r, []string{"v", "v", "v", "w", "g"}) }
	cmpOn := func(col string, ops []string) *c14Cmp {
		return &c14Cmp{Col: col, Op: pick(r, ops), C: r.Intn(9)}
	}
	ineq := []string{">", "<", ">=", "<="}
	genWhen := func() *c14Pred {
		switch r.Intn(5) {
		case 0:
			return &c14Pred{Terms: []c14Cmp{*cmpOn("g", append(ineq, "="))}, Conn: "AND"}
		case 1:
			return &c14Pred{Terms: []c14Cmp{*cmpOn("w", ineq)}, Conn: "AND"}
		case 2:
			return &c14Pred{Terms: []c14Cmp{*cmpOn("g", ineq), *cmpOn("w", ineq)}, Conn: "AND"}
		case 3:
			return &c14Pred{Terms: []c14Cmp{{"g", "=", r.Intn(4)}, {"g", ">", 4 + r.Intn(5)}}, Conn: "OR"}
		}
		return &c14Pred{Terms: []c14Cmp{{"g", ">", r.Intn(5)}, {"g", "<", 5 + r.Intn(5)}}, Conn: "AND"}
	}
	genLag := func(col string) *c14Call {
		cl := &c14Call{Fn: "lag", Cols: []string{col}}
		switch r.Intn(6) {
		case 0, 1:
		case 2:
			cl.Offset = 1 + r.Intn(3)
		default:
			cl.Offset = 1 + r.Intn(3)
			cl.HasDef = true
			switch r.Intn(4) {
			case 0:
				cl.DefCol = pick(r, []string{"w", "g"})
			case 1:
				if col == "v" && allowStr {
					cl.DefLit = pick(r, []string{"dflt", "d|x", ""})
				} else {
					cl.DefLit = -1
				}
			default:
				cl.DefLit = pick(r, []int{-1, 0, 99})
			}
			if r.Intn(2) == 0 {
				cl.HasIgn = true
				cl.Ign = r.Intn(2) == 0
			}
		}
		return cl
	}
	genAcc := func(fn, col string) *c14Call {
		cl := &c14Call{Fn: fn, Cols: []string{col}}
		if r.Intn(3) == 0 {
			// start `x > a` and reset `x < b` with b <= a can never hold on the same row
			pc := pick(r, []string{"g", "g", "w"})
			a := 2 + r.Intn(6)
			cl.Start = &c14Cmp{Col: pc, Op: pick(r, []string{">", ">="}), C: a}
			if r.Intn(2) == 0 {
				cl.Reset = &c14Cmp{Col: pc, Op: "<", C: r.Intn(a + 1)}
			}
		}
		return cl
	}
	accFns := []string{"acc_sum", "acc_count", "acc_avg", "acc_min", "acc_max"}
	nItems := 1 + r.Intn(4)
	for i := 0; i < nItems; i++ {
		it := &c14Item{Alias: fmt.Sprintf("a%d", i+1), Part: partFor()}
		switch r.Intn(22) {
		case 0, 1, 2, 3, 4:
			it.Calls = []*c14Call{genLag(anyCol())}
		case 5, 6:
			cl := &c14Call{Fn: "latest", Cols: []string{anyCol()}}
			if r.Intn(2) == 0 {
				cl.HasDef, cl.DefLit = true, pick(r, []int{99, -1, 0})
			}
			it.Calls = []*c14Call{cl}
		case 7, 8:
			cl := &c14Call{Fn: "had_changed", Ign: r.Intn(3) > 0, Cols: []string{anyCol()}}
			if r.Intn(3) == 0 {
				cl.Cols = []string{"v", "w"}
			}
			it.Calls = []*c14Call{cl}
		case 9, 10:
			it.Calls = []*c14Call{{Fn: "changed_col", Ign: r.Intn(3) > 0, Cols: []string{anyCol()}}}
		case 11, 12:
			it.Wrap = "cols"
			it.Prefix = fmt.Sprintf("c%d_", i+1)
			it.Ign = r.Intn(3) > 0
			it.Cols = pick(r, [][]string{{"v"}, {"v", "w"}, {"w", "g"}, {"v", "w", "g"}})
			it.Quote = pick(r, []string{"\"", "\"", "'"})
		case 13, 14, 15, 16, 17:
			fn := pick(r, accFns)
			col := numCol()
			if fn == "acc_count" {
				col = anyCol()
			}
			it.Calls = []*c14Call{genAcc(fn, col)}
		default:
			col := numCol()
			switch r.Intn(8) {
			case 0, 1:
				it.Wrap, it.WrapCol = "col-", col
				it.Calls = []*c14Call{genLag(col)}
			case 2:
				it.Wrap, it.Const = "const-", 100
				it.Calls = []*c14Call{genLag(col)}
			case 3, 4:
				it.Wrap = "diff"
				it.Calls = []*c14Call{genAcc("acc_max", col), genAcc("acc_min", col)}
			case 5:
				it.Wrap = pick(r, []string{"sum3", "prod"})
				it.Calls = []*c14Call{genAcc("acc_max", col), genAcc("acc_min", col)}
				if it.Wrap == "sum3" {
					it.Calls = append(it.Calls, genAcc("acc_sum", col))
				}
			case 6:
				it.Wrap, it.Const = "coalesce", -1
				it.Calls = []*c14Call{genLag(col)}
			default:
				it.Wrap, it.Const = "case", r.Intn(6)
				it.Calls = []*c14Call{{Fn: "lag", Cols: []string{col}}}
			}
		}
		if r.Intn(20) < 7 {
			if r.Intn(12) == 0 {
				it.WhenAnalytic, it.Inv = true, true // WHEN with an analytic call: semantics not documented
			} else {
				it.When = genWhen()
			}
			if it.Wrap != "" && it.Wrap != "cols" {
				// wrapper + WHEN: which value a gated row repeats (the wrapper's or the call's) is not
				// documented: both readings are accepted, nothing else
				if it.WhenAnalytic {
					it.Inv = true
				} else {
					it.WrapWhen = true
				}
			}
		}
		c.Items = append(c.Items, it)
	}

	switch r.Intn(20) {
	case 0, 1, 2, 3, 4:
		p := &c14Pred{Terms: []c14Cmp{*cmpOn("g", append(ineq, "="))}, Conn: "AND"}
		if r.Intn(3) == 0 {
			p = &c14Pred{Terms: []c14Cmp{{"g", ">", r.Intn(4)}, {"g", "<", 6 + r.Intn(4)}}, Conn: "AND"}
		}
		c.Where = &c14Where{Plain: p}
	case 5, 6, 7, 8, 9, 10:
		w := &c14Where{}
		if r.Intn(2) == 0 {
			w.Plain = &c14Pred{Terms: []c14Cmp{*cmpOn("g", ineq)}, Conn: "AND"}
		}
		call := &c14Item{Alias: "__where__", Part: partFor()}
		switch r.Intn(6) {
		case 0, 1:
			call.Calls = []*c14Call{{Fn: "had_changed", Ign: r.Intn(3) > 0, Cols: []string{anyCol()}}}
			w.Form = pick(r, []string{"bare", "=true", "==true", "=false"})
		case 2:
			call.Calls = []*c14Call{{Fn: "changed_col", Ign: true, Cols: []string{numCol()}}}
			w.Form = pick(r, []string{"bare", "cmp"})
			if w.Form == "bare" {
				w.Plain = nil // only a WHERE consisting of the bare call is documented as "selected iff non-NULL"
			}
		case 3, 4:
			call.Calls = []*c14Call{genLag(numCol())}
			w.Form = "cmp"
		default:
			call.Calls = []*c14Call{genAcc(pick(r, accFns), numCol())}
			w.Form = "cmp"
		}
		if w.Form == "cmp" {
			w.Cmp, w.C = pick(r, ineq), r.Intn(9)
		}
		w.Call = call
		c.Where = w
	}

	sel := []string{"id"}
	if r.Intn(2) == 0 {
		sel = append(sel, c.KeyCols...)
	}
	for _, it := range c.Items {
		if it.Wrap == "cols" {
			sel = append(sel, it.exprSQL())
		} else {
			sel = append(sel, it.exprSQL()+" AS "+it.Alias)
		}
	}
	c.SQL = "SELECT " + strings.Join(sel, ", ") + " FROM stream"
	if c.Where != nil {
		c.SQL += " WHERE " + c.Where.sql()
	}
	return c
}

// ---- run -------------------------------------------------------------------------------------

func runC14(ctx *core.Ctx) {
	ctx.SetRule("case = (query with 1-4 analytic items [lag/latest/had_changed/changed_col(s)/acc_*/wrappers, OVER PARTITION BY/WHEN, optional WHERE], " +
		"partition cap, 30-200 rows over 1-6 typed key tuples with NULL/missing/repeated values) drawn from PRNG(seed,index); " +
		"non-trivial = at least 20 output values compared with the reference state machines (or, above the cap, at least 20 rows compared sync vs async) " +
		"and at least 10 rows compared for parity; distinct by (SQL, rows) hash")
	ctx.Assume("NULL and a missing column are the same NULL; numbers compare by value across Go types",
		"one Go type per partition key column (whether int 1 and float64 1.0 are the same key is not fixed by the property)",
		"constructs the documentation leaves open (see c14_ref.go header) are only checked for sync/async parity and partition isolation",
		"a missing async delivery is declared only after the engine stayed quiet with empty buffers")
	n := ctx.N(250, 6000)
	ctx.Cases("c14", n, workers(), func(i int, r *rand.Rand) {
		c := genC14(core.CaseRef{Stream: "c14", Index: i}, r)
		execC14(ctx, c)
	})
	c14NestedStream(ctx)
	c14MultiStream(ctx)
}

func c14Copy(r Row) Row {
	o := make(Row, len(r)+4)
	for k, v := range r {
		o[k] = v
	}
	return o
}

// c14Sync feeds rows through EmitSync on a fresh instance; panics are recovered and reported.
func c14Sync(sql string, cap int, rows []Row) (outs []Row, err error, panicked any) {
	s, err := eng.New(sql, eng.Opts{MaxPartition: cap})
	if err != nil {
		return nil, err, nil
	}
	defer s.Stop()
	outs = make([]Row, 0, len(rows))
	for _, row := range rows {
		out, e, p := c14EmitSync(s, c14Copy(row))
		if p != nil {
			return outs, nil, p
		}
		if e != nil {
			return outs, fmt.Errorf("EmitSync(id=%v): %w", row["id"], e), nil
		}
		if out != nil {
			out = eng.DeepCopyMap(out)
		}
		outs = append(outs, out)
	}
	return outs, nil, nil
}

func c14EmitSync(s *streamsql.Streamsql, row Row) (out Row, err error, panicked any) {
	defer func() {
		if p := recover(); p != nil {
			panicked = p
		}
	}()
	out, err = s.EmitSync(row)
	return out, err, nil
}

// c14Concurrent feeds each group of rows from its own goroutine to one shared instance.
func c14Concurrent(sql string, cap int, groups [][]Row) (outs [][]Row, err error, panicked any) {
	s, err := eng.New(sql, eng.Opts{MaxPartition: cap})
	if err != nil {
		return nil, err, nil
	}
	defer s.Stop()
	outs = make([][]Row, len(groups))
	errs := make([]error, len(groups))
	pans := make([]any, len(groups))
	var wg sync.WaitGroup
	for gi := range groups {
		wg.Add(1)
		go func(gi int) { // each goroutine only writes its own slots
			defer wg.Done()
			for _, row := range groups[gi] {
				out, e, p := c14EmitSync(s, c14Copy(row))
				if p != nil || e != nil {
					errs[gi], pans[gi] = e, p
					return
				}
				if out != nil {
					out = eng.DeepCopyMap(out)
				}
				outs[gi] = append(outs[gi], out)
			}
		}(gi)
	}
	wg.Wait()
	for gi := range groups {
		if pans[gi] != nil {
			return outs, nil, pans[gi]
		}
		if errs[gi] != nil {
			return outs, errs[gi], nil
		}
	}
	return outs, nil, nil
}

type c14Async struct {
	Rows       []Row
	Quiescent  bool
	Overloaded bool
	Err        error
	Panic      any
}

func c14RunAsync(sql string, cap int, rows []Row, expect int) (res c14Async) {
	s, err := eng.New(sql, eng.Opts{MaxPartition: cap})
	if err != nil {
		res.Err = err
		return
	}
	defer s.Stop()
	rec := eng.Attach(s)
	func() {
		defer func() {
			if p := recover(); p != nil {
				res.Panic = p
			}
		}()
		for _, row := range rows {
			rec.Emit(c14Copy(row))
		}
	}()
	if res.Panic != nil {
		return
	}
	// expected deliveries arrive within microseconds; a shortfall is only believed after a long quiet wait
	count := func() int {
		n := 0
		for _, d := range rec.Deliveries() {
			n += len(d.Rows)
		}
		return n
	}
	got := rec.WaitDeliveries(expect, 10*time.Second)
	res.Quiescent = rec.Quiesce(2, 2*time.Millisecond, 2*time.Second)
	if !got || count() < expect {
		res.Quiescent = rec.Quiesce(3, 250*time.Millisecond, 20*time.Second)
	}
	for _, d := range rec.Deliveries() {
		res.Rows = append(res.Rows, d.Rows...)
	}
	res.Overloaded = rec.Overloaded()
	return
}

type c14RowExp struct {
	present  int  // 1 expected, 0 expected absent, -1 not decided
	whereMis bool // the WHERE call's partition saw a row lacking one of its argument columns
	cols     []c14ColExp
	counting bool
}

type c14ColExp struct {
	item *c14Item
	ps   *c14PartState
	key  string
	col  string
	exp  c14Exp
	over bool
	miss bool // a counting row of this partition, up to this one, lacked an argument column of the item
}

func execC14(ctx *core.Ctx, c *c14Case) {
	baseAttrs := func() map[string]string {
		return map[string]string{"where": c.Where.kind(), "key_shape": c.KeyShape, "value_types": c.Values,
			"cap": map[bool]string{true: "default", false: "small"}[c.Cap == 0]}
	}
	viol := func(kind string, attrs map[string]string, detail string) {
		ctx.Violate(core.Violation{Kind: kind, Attrs: attrs, Detail: detail, Case: c})
	}
	sig := c.SQL + core.J(c.Rows)

	// ---- 1. sync run -------------------------------------------------------------------------
	outs, err, pan := c14Sync(c.SQL, c.Cap, c.Rows)
	if pan != nil {
		viol("panic.emitsync", baseAttrs(), fmt.Sprintf("EmitSync panicked after %d rows: %v\nSQL: %s", len(outs), pan, c.SQL))
		ctx.Case(sig, false, nil)
		return
	}
	if err != nil {
		kind := "query.execute_error"
		if strings.HasPrefix(err.Error(), "EmitSync") {
			kind = "emitsync.error"
		}
		viol(kind, baseAttrs(), fmt.Sprintf("%v\nSQL: %s", err, c.SQL))
		ctx.Case(sig, false, nil)
		return
	}

	// ---- 2. reference ------------------------------------------------------------------------
	for _, it := range c.Items {
		it.reset()
	}
	whereAnalytic := c.Where != nil && c.Where.Call != nil
	if whereAnalytic {
		c.Where.Call.reset()
	}
	cap := c.effCap()
	exps := make([]c14RowExp, len(c.Rows))
	anyOver := false
	for i, row := range c.Rows {
		e := &exps[i]
		e.present = 1
		e.counting = true
		if c.Where != nil && !whereAnalytic {
			// WHERE free of analytic calls: filtered rows do not count
			if pass, _ := c.Where.decide(row, c14Exp{}); !pass {
				e.present, e.counting = 0, false
				continue
			}
		}
		if whereAnalytic {
			// WHERE with an analytic call: every row counts, for the WHERE call and for the SELECT items
			out, wps, _ := c.Where.Call.step(row, cap)
			e.whereMis = wps.missing
			pass, known := c.Where.decide(row, out[c.Where.Call.Alias])
			switch {
			case !known || c.Where.Call.over:
				e.present = -1
			case !pass:
				e.present = 0
			}
		}
		for _, it := range c.Items {
			out, ps, key := it.step(row, cap)
			for _, col := range it.outCols() {
				e.cols = append(e.cols, c14ColExp{item: it, ps: ps, key: key, col: col, exp: out[col], over: it.over, miss: ps.missing})
			}
			if it.over {
				anyOver = true
			}
		}
	}
	if whereAnalytic && c.Where.Call.over {
		anyOver = true
	}

	// ---- 3. compare the sync outputs with the reference --------------------------------------
	var compared, wild, rowsChecked int64
	broken := map[*c14Item]bool{}
	plainWhereOff := false
	for i, row := range c.Rows {
		e, out := exps[i], outs[i]
		if out == nil {
			if e.present == 1 {
				if whereAnalytic {
					a := baseAttrs()
					a["fn"], a["form"], a["over"] = c.Where.Call.fn(), c.Where.Form, c.Where.Call.overShape()
					a["shape"] = c.Where.Call.shape()
					a["missing_before"] = map[bool]string{true: "yes", false: "no"}[e.whereMis]
					viol("where.analytic_decision", a, fmt.Sprintf("row id=%v was filtered although the WHERE clause holds for the reference value of its analytic call\nSQL: %s\nrow: %s", row["id"], c.SQL, core.J(row)))
				} else {
					viol("rows.missing_output", baseAttrs(), fmt.Sprintf("row id=%v passes WHERE (or there is none) but EmitSync returned nil\nSQL: %s\nrow: %s", row["id"], c.SQL, core.J(row)))
				}
				break
			}
			continue
		}
		if e.present == 0 {
			if !whereAnalytic {
				plainWhereOff = true // WHERE filtering itself is C05/C06 territory: no C14 verdict for this case
				break
			}
			a := baseAttrs()
			a["fn"], a["form"], a["over"] = c.Where.Call.fn(), c.Where.Form, c.Where.Call.overShape()
			a["shape"] = c.Where.Call.shape()
			a["missing_before"] = map[bool]string{true: "yes", false: "no"}[e.whereMis]
			viol("where.analytic_decision", a, fmt.Sprintf("row id=%v was emitted although the WHERE clause does not hold for the reference value of its analytic call\nSQL: %s\nrow: %s\nout: %s", row["id"], c.SQL, core.J(row), core.J(out)))
			break
		}
		if e.present == 1 && whereAnalytic {
			ctx.Count("where_decisions_checked", 1)
		}
		if !c14ValEq(out["id"], row["id"]) {
			viol("rows.wrong_id", baseAttrs(), fmt.Sprintf("EmitSync(id=%v) returned id=%v\nSQL: %s", row["id"], out["id"], c.SQL))
			break
		}
		rowsChecked++
		for _, ce := range e.cols {
			if broken[ce.item] {
				continue
			}
			if ce.exp.Any {
				wild++
				continue
			}
			compared++
			ctx.Count("values."+ce.item.kindGroup(), 1)
			got := out[ce.col]
			if ce.exp.match(got) {
				continue
			}
			broken[ce.item] = true // its state is derailed from here on; report once per item
			it := ce.item
			a := baseAttrs()
			a["fn"], a["wrap"], a["over"], a["shape"] = it.fn(), it.Wrap, it.overShape(), it.shape()
			if it.Wrap == "" {
				a["wrap"] = "none"
			}
			a["missing_before"] = map[bool]string{true: "yes", false: "no"}[ce.miss]
			viol(it.kindGroup()+".wrong_value", a, c14Diagnose(c, it, ce, i, got))
		}
	}
	ctx.Count("rows_checked", rowsChecked)
	ctx.Count("values_compared", compared)
	ctx.Count("values_unconstrained", wild)
	if anyOver {
		ctx.Count("cases_above_cap", 1)
	}
	if plainWhereOff {
		ctx.Inconclusive("plain WHERE outcome differs from the reference predicate (C05/C06 territory)")
		return
	}

	// ---- 4. parity: the same sequence through Emit + sync sink on a twin instance ------------
	var syncSeq []Row
	for _, o := range outs {
		if o != nil {
			syncSeq = append(syncSeq, o)
		}
	}
	as := c14RunAsync(c.SQL, c.Cap, c.Rows, len(syncSeq))
	parityRows := int64(0)
	switch {
	case as.Panic != nil:
		viol("panic.emit", baseAttrs(), fmt.Sprintf("Emit panicked: %v\nSQL: %s", as.Panic, c.SQL))
	case as.Err != nil:
		viol("query.execute_error", baseAttrs(), fmt.Sprintf("twin instance: %v\nSQL: %s", as.Err, c.SQL))
	case as.Overloaded:
		ctx.Inconclusive("engine declared overload")
		return
	default:
		a := baseAttrs()
		a["items"] = c14ItemKinds(c)
		m := min(len(syncSeq), len(as.Rows))
		diff := -1
		for i := 0; i < m; i++ {
			parityRows++
			if !reflect.DeepEqual(syncSeq[i], as.Rows[i]) {
				diff = i
				break
			}
		}
		switch {
		case diff >= 0:
			viol("parity.sync_async_differ", a, fmt.Sprintf("output #%d differs: EmitSync gave %s, Emit+sync sink gave %s\nSQL: %s\ncap=%d",
				diff, core.J(syncSeq[diff]), core.J(as.Rows[diff]), c.SQL, c.Cap))
		case len(as.Rows) > len(syncSeq):
			viol("parity.sync_async_differ", a, fmt.Sprintf("async path delivered %d rows, sync path %d; first surplus row %s\nSQL: %s",
				len(as.Rows), len(syncSeq), core.J(as.Rows[len(syncSeq)]), c.SQL))
		case len(as.Rows) < len(syncSeq):
			if !as.Quiescent {
				ctx.Inconclusive("async twin not quiescent")
				return
			}
			viol("parity.sync_async_differ", a, fmt.Sprintf("async path delivered %d rows, sync path %d (engine quiet, buffers empty); first row only the sync path gave: %s\nSQL: %s",
				len(as.Rows), len(syncSeq), core.J(syncSeq[len(as.Rows)]), c.SQL))
		}
	}
	ctx.Count("parity_rows_compared", parityRows)

	// ---- 5. isolation: a partition fed alone gives the outputs it gave when interleaved ------
	isoParts := int64(0)
	if part, ok := c14CommonPart(c); ok && !anyOver {
		byKey := map[string][]int{}
		var order []string
		for i, row := range c.Rows {
			k := tuple(row, part)
			if _, ok := byKey[k]; !ok {
				order = append(order, k)
			}
			byKey[k] = append(byKey[k], i)
		}
		if len(order) >= 2 {
			for _, k := range order {
				idx := byKey[k]
				solo := make([]Row, len(idx))
				for j, i := range idx {
					solo[j] = c.Rows[i]
				}
				souts, err, pan := c14Sync(c.SQL, c.Cap, solo)
				if pan != nil || err != nil {
					viol("isolation.solo_run_failed", baseAttrs(), fmt.Sprintf("partition %q alone: err=%v panic=%v\nSQL: %s", k, err, pan, c.SQL))
					break
				}
				isoParts++
				bad := false
				for j, i := range idx {
					ctx.Count("isolation_rows_compared", 1)
					if !reflect.DeepEqual(souts[j], outs[i]) {
						a := baseAttrs()
						a["items"] = c14ItemKinds(c)
						lo := max(0, j-6)
						var hist []Row
						for _, ii := range idx[lo : j+1] {
							hist = append(hist, c.Rows[ii])
						}
						viol("isolation.partition_output_differs", a, fmt.Sprintf(
							"partition %q (PARTITION BY %s), row id=%v: interleaved with %d other partitions the output is %s, fed alone it is %s\nSQL: %s\nlast rows of the partition: %s",
							k, strings.Join(part, ","), c.Rows[i]["id"], len(order)-1, core.J(outs[i]), core.J(souts[j]), c.SQL, core.J(hist)))
						bad = true
						break
					}
				}
				if bad {
					break
				}
			}
			// 5b. the same partitions fed concurrently (one goroutine per partition, each in its own
			// order) to one shared instance: every partition still sees only its own history
			if int(isoParts) == len(order) {
				groups := make([][]Row, len(order))
				for gi, k := range order {
					for _, i := range byKey[k] {
						groups[gi] = append(groups[gi], c.Rows[i])
					}
				}
				couts, err, pan := c14Concurrent(c.SQL, c.Cap, groups)
				switch {
				case pan != nil:
					viol("panic.emitsync", baseAttrs(), fmt.Sprintf("concurrent EmitSync (one goroutine per partition) panicked: %v\nSQL: %s", pan, c.SQL))
				case err != nil:
					viol("emitsync.error", baseAttrs(), fmt.Sprintf("concurrent EmitSync: %v\nSQL: %s", err, c.SQL))
				default:
				conc:
					for gi, k := range order {
						for j, i := range byKey[k] {
							ctx.Count("concurrent_rows_compared", 1)
							if !reflect.DeepEqual(couts[gi][j], outs[i]) {
								a := baseAttrs()
								a["items"] = c14ItemKinds(c)
								viol("isolation.concurrent_partition_output_differs", a, fmt.Sprintf(
									"partition %q (PARTITION BY %s), row id=%v: sequentially interleaved the output is %s, with %d partitions emitted concurrently (one goroutine each) it is %s\nSQL: %s",
									k, strings.Join(part, ","), c.Rows[i]["id"], core.J(outs[i]), len(order), core.J(couts[gi][j]), c.SQL))
								break conc
							}
						}
					}
				}
			}
		}
	}
	ctx.Count("isolation_partitions_compared", isoParts)

	nontrivial := parityRows >= 10 && (compared >= 20 || (anyOver && parityRows >= 20))
	var sample any
	if c.Index < 4 {
		sample = map[string]any{"sql": c.SQL, "rows": len(c.Rows), "partitions": c.NParts, "cap": c.Cap,
			"values_compared": compared, "parity_rows": parityRows, "isolation_partitions": isoParts, "first_rows": c.Rows[:3]}
	}
	ctx.Case(sig, nontrivial, sample)
}

func c14ItemKinds(c *c14Case) string {
	seen := map[string]bool{}
	var ks []string
	for _, it := range c.Items {
		k := it.kindGroup()
		if !seen[k] {
			seen[k] = true
			ks = append(ks, k)
		}
	}
	return strings.Join(ks, "+")
}

// c14CommonPart returns the PARTITION BY shared by every item (and the WHERE call), if there is one.
func c14CommonPart(c *c14Case) ([]string, bool) {
	var part []string
	all := append([]*c14Item(nil), c.Items...)
	if c.Where != nil && c.Where.Call != nil {
		all = append(all, c.Where.Call)
	}
	for i, it := range all {
		if len(it.Part) == 0 {
			return nil, false
		}
		if i == 0 {
			part = it.Part
		} else if strings.Join(part, ",") != strings.Join(it.Part, ",") {
			return nil, false
		}
	}
	return part, len(part) > 0
}

// c14Diagnose renders the failing input: the partition's counting rows up to the failing one.
func c14Diagnose(c *c14Case, it *c14Item, ce c14ColExp, at int, got any) string {
	cols := append([]string{"id"}, it.Part...)
	cols = append(cols, it.argCols()...)
	if it.When != nil {
		cols = append(cols, it.When.cols()...)
	}
	seen := map[string]bool{}
	var ucols []string
	for _, col := range cols {
		if !seen[col] {
			seen[col] = true
			ucols = append(ucols, col)
		}
	}
	inPart := map[int]bool{}
	for _, id := range ce.ps.ids {
		inPart[id] = true
	}
	var hist []Row
	for _, row := range c.Rows[:at+1] {
		id, _ := row["id"].(int)
		if !inPart[id] {
			continue
		}
		r := Row{}
		for _, col := range ucols {
			if v, ok := row[col]; ok {
				r[col] = v
			}
		}
		hist = append(hist, r)
	}
	total := len(hist)
	if len(hist) > 14 {
		hist = hist[len(hist)-14:]
	}
	return fmt.Sprintf("item `%s` (output column %s), partition key %q, row id=%v: got %s, the definition applied to the partition's %d counting rows gives %s\nSQL: %s\ncap=%d where=%s\nlast counting rows of the partition (projected on the columns the item reads): %s",
		it.exprSQL(), ce.col, ce.key, c.Rows[at]["id"], c14Show(got), total, ce.exp.String(), c.SQL, c.Cap, c.Where.kind(), core.J(hist))
}
