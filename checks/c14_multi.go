//go:build verif

package checks

import (
	"fmt"
	"math/rand"

	"verif/internal/core"
	"verif/internal/eng"
)

// c14multi: several analytic calls in one statement see the INPUT row only - not each other's outputs - and
// each call keeps the partitioning of its own OVER clause even when another call has the same text:
//
//	star:    lag(v) AS pv next to had_changed(true, *): `*` is the input columns (k, v), an input that repeats is
//	         unchanged although pv moved
//	shadow:  lag(v, 1, 0) AS v, acc_sum(v) AS s: the alias shadows an input column, s still sums the input v
//	twoover: WHERE v > lag(v, 1, 0) OVER (PARTITION BY dev) AND v > lag(v, 1, 0): per-device previous value and
//	         stream-wide previous value
type c14MultiCase struct {
	core.CaseRef
	Form string `json:"form"`
	SQL  string `json:"sql"`
	Rows []Row  `json:"rows"`
}

func c14MultiStream(ctx *core.Ctx) {
	n := ctx.N(30, 600)
	ctx.Cases("c14multi", n, workers(), func(i int, r *rand.Rand) {
		c := &c14MultiCase{CaseRef: core.CaseRef{Stream: "c14multi", Index: i}, Form: []string{"star", "shadow", "twoover"}[i%3]}
		switch c.Form {
		case "star":
			c.SQL = "SELECT k, v, lag(v) AS pv, had_changed(true, *) AS hc FROM stream"
		case "shadow":
			c.SQL = "SELECT k, lag(v, 1, 0) AS v, acc_sum(v) AS s FROM stream"
		default:
			c.SQL = "SELECT id, dev, v FROM stream WHERE v > lag(v, 1, 0) OVER (PARTITION BY dev) AND v > lag(v, 1, 0)"
		}
		for j := 1; j <= 25+r.Intn(50); j++ {
			switch c.Form {
			case "twoover":
				c.Rows = append(c.Rows, Row{"id": j, "dev": pick(r, []string{"a", "b", "c"}), "v": 1 + r.Intn(12)})
			default:
				// few values: the input repeats often
				c.Rows = append(c.Rows, Row{"k": pick(r, []string{"a", "a", "b"}), "v": 1 + r.Intn(3)})
			}
		}
		attrs := map[string]string{"form": c.Form, "calls": "several_analytic_calls_in_one_statement"}
		viol := func(kind, detail string) {
			ctx.Violate(core.Violation{Kind: kind, Attrs: attrs, Detail: detail + "\nSQL: " + c.SQL, Case: c})
		}
		s, err := eng.New(c.SQL, eng.Opts{})
		if err != nil {
			viol("multi.execute_error", err.Error())
			return
		}
		defer s.Stop()
		var prev Row
		sum := 0
		lastOf := map[string]int{}
		lastAll := 0
		kept := 0
		for j, row := range c.Rows {
			out, err, pan := c12EmitSync(s, c12CopyRow(row))
			if pan != nil {
				viol("multi.panic", fmt.Sprintf("row %d %v: %v", j+1, row, pan))
				return
			}
			if err != nil {
				viol("multi.execute_error", fmt.Sprintf("row %d %v: %v", j+1, row, err))
				return
			}
			switch c.Form {
			case "star":
				wantHC := prev == nil || prev["k"] != row["k"] || prev["v"] != row["v"]
				var wantPV any
				if prev != nil {
					wantPV = prev["v"]
				}
				if out == nil || fmt.Sprint(out["hc"]) != fmt.Sprint(wantHC) {
					viol("had_changed.wrong_value", fmt.Sprintf("row %d %v after %v: had_changed(true, *) = %#v, expected %v (`*` stands for the input columns k and v)", j+1, row, prev, out["hc"], wantHC))
					return
				}
				if !c07ValEq(wantPV, out["pv"]) {
					viol("lag.wrong_value", fmt.Sprintf("row %d %v after %v: lag(v) = %#v, expected %v", j+1, row, prev, out["pv"], wantPV))
					return
				}
			case "shadow":
				sum += row["v"].(int)
				wantV := 0
				if prev != nil {
					wantV = prev["v"].(int)
				}
				if out == nil || !numEq(out["v"], wantV) {
					viol("lag.wrong_value", fmt.Sprintf("row %d %v: lag(v, 1, 0) AS v = %#v, expected %d", j+1, row, out["v"], wantV))
					return
				}
				if !numEq(out["s"], sum) {
					viol("acc_sum.wrong_value", fmt.Sprintf("row %d %v: acc_sum(v) = %#v, expected %d, the sum of the INPUT column v (an earlier item aliased AS v does not replace the input)", j+1, row, out["s"], sum))
					return
				}
			default:
				v, dev := row["v"].(int), row["dev"].(string)
				want := v > lastOf[dev] && v > lastAll
				lastOf[dev], lastAll = v, v
				got := out != nil && out["id"] != nil
				if got != want {
					viol("where.analytic_wrong_decision", fmt.Sprintf("row %d %v: kept=%v, expected %v (previous v of device %s and previous v of the stream before this row: see rows %s)", j+1, row, got, want, dev, core.J(c.Rows[:j])))
					return
				}
				if got {
					kept++
				}
			}
			prev = row
		}
		ctx.Count("multi.rows_checked."+c.Form, int64(len(c.Rows)))
		ctx.Case(c.SQL+core.J(c.Rows), c.Form != "twoover" || (kept > 0 && kept < len(c.Rows)), nil)
	})
}
