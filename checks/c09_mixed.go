//go:build verif

package checks

import (
	"fmt"
	"math/rand"

	"verif/internal/core"
	"verif/internal/eng"
)

// c09mixed: one key column that carries the same key in different dynamic types (7, "7", 7.0 - a number from
// one producer, its text from another).  Whether these are one key or several is not pinned down by the
// statement, so only what holds under either reading is checked: the window and the aggregator must agree on
// what a key is - every delivery is ONE result over exactly N rows that arrived consecutively for that key,
// and no row is reported twice.

type c09MixedCase struct {
	core.CaseRef
	SQL  string `json:"sql"`
	N    int    `json:"n"`
	Rows []Row  `json:"rows"`
}

func c09MixedStream(ctx *core.Ctx) {
	n := ctx.N(40, 800)
	ctx.Cases("c09mixed", n, workers(), func(i int, r *rand.Rand) {
		c := &c09MixedCase{CaseRef: core.CaseRef{Stream: "c09mixed", Index: i}, N: pick(r, []int{2, 3, 3, 5})}
		c.SQL = fmt.Sprintf("SELECT k, count(*) AS c, collect(id) AS ids, sum(v) AS s FROM stream GROUP BY k, CountingWindow(%d)", c.N)
		dom := pick(r, [][]any{{7, "7", "a"}, {7, "7", 7.0}, {1.5, "1.5", "b"}, {true, "true", 3}})
		for j := 1; j <= 30+r.Intn(60); j++ {
			c.Rows = append(c.Rows, Row{"id": j, "k": pick(r, dom), "v": r.Intn(50)})
		}
		res := runWindow(c.SQL, c.Rows, runOpts{Opts: eng.Opts{}, Expect: -1})
		attrs := map[string]string{"key_shape": "mixed_dynamic_types", "ncols": "1"}
		viol := func(kind, detail string) {
			ctx.Violate(core.Violation{Kind: kind, Attrs: attrs, Detail: detail + "\n  sql: " + c.SQL, Case: c})
		}
		if res.Err != nil {
			viol("counting.execute_error", res.Err.Error())
			return
		}
		if res.Overloaded || !res.Quiescent {
			ctx.Inconclusive("c09mixed: overload or not quiescent")
			return
		}
		seen := map[int]bool{}
		vOf := map[int]int{}
		for _, row := range c.Rows {
			vOf[row["id"].(int)] = row["v"].(int)
		}
		for _, d := range res.Dels {
			if len(d.Rows) != 1 {
				viol("counting.batch_mixed_keys", fmt.Sprintf("delivery %d holds %d result rows: the window released one batch of N=%d rows and the aggregator split it, so they disagree on what one key is: %s", d.Index, len(d.Rows), c.N, core.J(d.Rows)))
				return
			}
			out := d.Rows[0]
			ids, ok := idList(out["ids"])
			if !ok || len(ids) != c.N || !numEq(out["c"], c.N) {
				viol("counting.wrong_rows", fmt.Sprintf("delivery %d aggregates %v rows (count %v), N=%d: %s", d.Index, len(ids), out["c"], c.N, core.J(out)))
				return
			}
			sum := 0
			for i, id := range ids {
				if seen[id] {
					viol("counting.row_in_two_results", fmt.Sprintf("id %d appears in two deliveries", id))
					return
				}
				seen[id] = true
				if i > 0 && ids[i-1] >= id {
					viol("counting.wrong_rows", fmt.Sprintf("delivery %d lists ids %v not in arrival order", d.Index, ids))
					return
				}
				sum += vOf[id]
			}
			if !numEq(out["s"], sum) {
				viol("counting.wrong_aggregate", fmt.Sprintf("delivery %d: sum(v)=%v, the witness rows %v sum to %d", d.Index, out["s"], ids, sum))
				return
			}
		}
		ctx.Count("mixed.deliveries_checked", int64(len(res.Dels)))
		ctx.Case("c09mixed"+c.SQL+core.J(c.Rows), len(res.Dels) >= 2, nil)
	})
}
