//go:build verif

package checks

import (
	"fmt"
	"math/rand"
	"strings"
	"sync"
	"sync/atomic"
	"time"

	"github.com/rulego/streamsql/types"

	"verif/internal/core"
	"verif/internal/eng"
)

// c09mixed: one key column that carries the same key in different dynamic types (7, "7", 7.0 - a number from
// one producer, its text from another).  Whether these are one key or several is not pinned down by the
// statement, so only what holds under either reading is checked: the window and the aggregator must agree on
// what a key is - every delivery is ONE result over exactly N rows that arrived consecutively for that key,
// and no row is reported twice.

type c09MixedCase struct {
	core.CaseRef
	SQL  string `json:"sql"`
	N    int    `json:"n"`
	Rows []Row  `json:"rows"`
}

func c09MixedStream(ctx *core.Ctx) {
	n := ctx.N(40, 800)
	ctx.Cases("c09mixed", n, workers(), func(i int, r *rand.Rand) {
		c := &c09MixedCase{CaseRef: core.CaseRef{Stream: "c09mixed", Index: i}, N: pick(r, []int{2, 3, 3, 5})}
		c.SQL = fmt.Sprintf("SELECT k, count(*) AS c, collect(id) AS ids, sum(v) AS s FROM stream GROUP BY k, CountingWindow(%d)", c.N)
		dom := pick(r, [][]any{{7, "7", "a"}, {7, "7", 7.0}, {1.5, "1.5", "b"}, {true, "true", 3}})
		for j := 1; j <= 30+r.Intn(60); j++ {
			c.Rows = append(c.Rows, Row{"id": j, "k": pick(r, dom), "v": r.Intn(50)})
		}
		res := runWindow(c.SQL, c.Rows, runOpts{Opts: eng.Opts{}, Expect: -1})
		attrs := map[string]string{"key_shape": "mixed_dynamic_types", "ncols": "1"}
		viol := func(kind, detail string) {
			ctx.Violate(core.Violation{Kind: kind, Attrs: attrs, Detail: detail + "\n  sql: " + c.SQL, Case: c})
		}
		if res.Err != nil {
			viol("counting.execute_error", res.Err.Error())
			return
		}
		if res.Overloaded || !res.Quiescent {
			ctx.Inconclusive("c09mixed: overload or not quiescent")
			return
		}
		seen := map[int]bool{}
		vOf := map[int]int{}
		for _, row := range c.Rows {
			vOf[row["id"].(int)] = row["v"].(int)
		}
		for _, d := range res.Dels {
			if len(d.Rows) != 1 {
				viol("counting.batch_mixed_keys", fmt.Sprintf("delivery %d holds %d result rows: the window released one batch of N=%d rows and the aggregator split it, so they disagree on what one key is: %s", d.Index, len(d.Rows), c.N, core.J(d.Rows)))
				return
			}
			out := d.Rows[0]
			ids, ok := idList(out["ids"])
			if !ok || len(ids) != c.N || !numEq(out["c"], c.N) {
				viol("counting.wrong_rows", fmt.Sprintf("delivery %d aggregates %v rows (count %v), N=%d: %s", d.Index, len(ids), out["c"], c.N, core.J(out)))
				return
			}
			sum := 0
			for i, id := range ids {
				if seen[id] {
					viol("counting.row_in_two_results", fmt.Sprintf("id %d appears in two deliveries", id))
					return
				}
				seen[id] = true
				if i > 0 && ids[i-1] >= id {
					viol("counting.wrong_rows", fmt.Sprintf("delivery %d lists ids %v not in arrival order", d.Index, ids))
					return
				}
				sum += vOf[id]
			}
			if !numEq(out["s"], sum) {
				viol("counting.wrong_aggregate", fmt.Sprintf("delivery %d: sum(v)=%v, the witness rows %v sum to %d", d.Index, out["s"], ids, sum))
				return
			}
		}
		ctx.Count("mixed.deliveries_checked", int64(len(res.Dels)))
		ctx.Case("c09mixed"+c.SQL+core.J(c.Rows), len(res.Dels) >= 2, nil)
	})
}

// c09ttl: WITH (STATETTL=...) on a counting window reaps keys that have been IDLE for the TTL.  Three keys each
// receive a row every 150 ms (TTL 1 s) and need longer than the TTL plus a reaper tick to fill one batch: they
// were never idle, so each fires once over exactly its first N rows.
func c09TTLStream(ctx *core.Ctx) {
	n := ctx.N(2, 8)
	ctx.Cases("c09ttl", n, 8, func(i int, r *rand.Rand) {
		need := 12 + r.Intn(4)
		keys := []string{"a", "b", "c"}
		c := &c09MixedCase{CaseRef: core.CaseRef{Stream: "c09ttl", Index: i}, N: need}
		c.SQL = fmt.Sprintf("SELECT k, count(*) AS c, collect(id) AS ids, sum(v) AS s FROM stream GROUP BY k, CountingWindow(%d) WITH (STATETTL='1s')", need)
		attrs := map[string]string{"key_shape": "one_text_column", "ncols": "1", "state_ttl": "1s"}
		viol := func(kind, detail string) {
			ctx.Violate(core.Violation{Kind: kind, Attrs: attrs, Detail: detail + "\n  sql: " + c.SQL, Case: c})
		}
		s, err := eng.New(c.SQL, eng.Opts{})
		if err != nil {
			viol("counting.execute_error", err.Error())
			return
		}
		rec := eng.Attach(s)
		defer s.Stop()
		last := time.Now()
		var maxGap time.Duration
		want := map[string][]int{}
		id := 0
		for j := 0; j < need+2; j++ {
			for _, k := range keys {
				id++
				if j < need {
					want[k] = append(want[k], id)
				}
				rec.Emit(Row{"id": id, "k": k, "v": 1})
				time.Sleep(50 * time.Millisecond)
				if g := time.Since(last); g > maxGap {
					maxGap = g
				}
				last = time.Now()
			}
		}
		if maxGap > 250*time.Millisecond {
			ctx.Inconclusive("c09ttl: the producer itself paused for longer than the harness allows (loaded machine)")
			return
		}
		rec.WaitDeliveries(len(keys), 3*time.Second)
		rec.Quiesce(3, 100*time.Millisecond, 5*time.Second)
		dels := rec.Deliveries()
		ctx.Count("ttl.active_key_runs", 1)
		got := map[string][]int{}
		for _, d := range dels {
			for _, out := range d.Rows {
				k, _ := out["k"].(string)
				ids, _ := idList(out["ids"])
				if _, dup := got[k]; dup {
					viol("counting.wrong_rows", fmt.Sprintf("key %q delivered twice within %d rows per key, N=%d: %v", k, need+2, need, dels))
					return
				}
				got[k] = ids
			}
		}
		for _, k := range keys {
			if fmt.Sprint(got[k]) != fmt.Sprint(want[k]) {
				viol("counting.active_key_state_lost", fmt.Sprintf("key %q received a row every 150 ms (largest producer pause %v, STATETTL 1s): its first result must hold ids %v, got %v; deliveries: %v", k, maxGap, want[k], got[k], dels))
				return
			}
		}
		ctx.Case(fmt.Sprintf("c09ttl|%d", need), true, nil)
		ctx.Distinct(fmt.Sprintf("c09ttl-run-%d", i))
	})
}

// c09prod: several producers, each with a key of its own, emit concurrently into an instance whose input buffer
// is small and grows on demand (expand strategy).  The arrival order across producers is open, but the rows of
// one key all come from one producer and arrive in that producer's order: the i-th result of a key holds exactly
// that producer's rows (i-1)N+1..iN.  A faulty synchronous sink registered BEFORE the recording sink panics on
// every second batch: sinks are isolated from each other, the recording sink still gets every result.
func c09ProducersStream(ctx *core.Ctx) {
	n := ctx.N(6, 120)
	ctx.Cases("c09prod", n, 4, func(i int, r *rand.Rand) {
		np := 2 + r.Intn(3)
		nw := pick(r, []int{2, 3, 4, 7})
		m := nw * (100 + r.Intn(500)) // at most 2400 results: the (unread) result channel holds 4096
		c := &c09MixedCase{CaseRef: core.CaseRef{Stream: "c09prod", Index: i}, N: nw}
		c.SQL = fmt.Sprintf("SELECT k, count(*) AS c, collect(id) AS ids, min(v) AS lo, max(v) AS hi FROM stream GROUP BY k, CountingWindow(%d)", nw)
		attrs := map[string]string{"key_shape": "one_text_column", "ncols": "1", "producers": fmt.Sprint(np), "strategy": "expand"}
		viol := func(kind, detail string) {
			ctx.Violate(core.Violation{Kind: kind, Attrs: attrs, Detail: detail + fmt.Sprintf("\n  sql: %s\n  %d producers x %d rows, input buffer 8 slots growing on demand", c.SQL, np, m), Case: c})
		}
		exp := types.ExpansionConfig{GrowthFactor: 1.05, MinIncrement: 8, TriggerThreshold: 0.9, ExpansionTimeout: 5 * time.Second}
		strat := "expand"
		if i%3 == 2 {
			// the default strategy: rows that meet the full buffer are dropped and counted; what is processed
			// keeps each producer's order
			strat = "drop"
			np = 1 + i%2
			attrs["strategy"], attrs["producers"] = strat, fmt.Sprint(np)
		}
		s, err := eng.New(c.SQL, eng.Opts{Strategy: strat, DataChan: 8, MaxBuffer: 1 << 20, Expansion: &exp})
		if err != nil {
			viol("counting.execute_error", err.Error())
			return
		}
		faulty := i%2 == 1
		var calls int64
		if faulty {
			s.AddSyncSink(func(batch []map[string]any) {
				if atomic.AddInt64(&calls, 1)%2 == 0 {
					panic("c09prod: faulty sink")
				}
			})
		}
		rec := eng.Attach(s)
		defer s.Stop()
		var wg sync.WaitGroup
		for p := 0; p < np; p++ {
			wg.Add(1)
			go func(p int) {
				defer wg.Done()
				for j := 1; j <= m; j++ {
					rec.Emit(Row{"id": p*10000000 + j, "k": plainKeys[p], "v": j})
				}
			}(p)
		}
		wg.Wait()
		want := np * (m / nw)
		quiet := rec.Quiesce(4, 100*time.Millisecond, 30*time.Second)
		if rec.NDeliveries() < want && quiet {
			quiet = rec.Quiesce(3, 250*time.Millisecond, 30*time.Second) // a missing result is only declared after a longer silence
		}
		st := s.GetStats()
		// a producer that meets the full buffer while another producer's expansion is under way has its row
		// dropped and counted: with declared input drops the exact blocks are unknown, but order and the
		// amount reported are not
		lost := int(st["input_dropped_count"])
		if st["output_dropped_count"] != 0 || st["droppedCount"] != 0 || !quiet {
			ctx.Inconclusive(fmt.Sprintf("c09prod: overload or not quiescent (quiet=%v, %d of %d deliveries, stats %v)", quiet, rec.NDeliveries(), want, s.GetStats()))
			return
		}
		next := map[string]int{}
		lastID := map[string]int{}
		for _, d := range rec.Deliveries() {
			for _, out := range d.Rows {
				k, _ := out["k"].(string)
				ids, _ := idList(out["ids"])
				p := strings.Index("abcdef", k)
				if p < 0 || len(ids) != nw {
					viol("counting.wrong_rows", fmt.Sprintf("delivery %d: key %q with %d rows (N=%d): %s", d.Index, k, len(ids), nw, core.J(out)))
					return
				}
				for x, id := range ids {
					if w := p*10000000 + next[k] + x + 1; lost == 0 && id != w {
						viol("counting.wrong_rows", fmt.Sprintf("result %d of key %q must hold that producer's rows %d..%d in their order, got ids %v (delivery %d)", next[k]/nw+1, k, next[k]+1, next[k]+nw, ids, d.Index))
						return
					}
					if id <= lastID[k] || id/10000000 != p {
						viol("counting.wrong_rows", fmt.Sprintf("key %q: its producer emitted ids in increasing order, but row %d is reported after row %d (result ids %v, delivery %d)", k, id, lastID[k], ids, d.Index))
						return
					}
					lastID[k] = id
				}
				next[k] += nw
			}
		}
		for p := 0; p < np; p++ {
			if got := next[plainKeys[p]]; got > m || got < m-lost-(nw-1) {
				why := ""
				if faulty {
					why = fmt.Sprintf(" (a synchronous sink registered before the recording one panicked on every second of its %d calls)", atomic.LoadInt64(&calls))
				}
				viol("counting.result_missing", fmt.Sprintf("key %q: %d of %d rows were reported to the recording sink (input_dropped_count=%d)%s", plainKeys[p], got, m, lost, why))
				return
			}
		}
		ctx.Count("producers.results_checked", int64(rec.NDeliveries()))
		ctx.Count("producers.rows_dropped_declared", int64(lost))
		ctx.Case(fmt.Sprintf("c09prod|%d|%d|%d|%v", np, nw, m, faulty), true, nil)
	})
}
