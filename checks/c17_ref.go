package checks

import (
	"fmt"
	"math/rand"
	"strings"

	"verif/internal/eng"
)

// Reference model of C17: running aggregates, three-valued predicate evaluator, per-group fire
// sequence.  Written from the property statement; no engine code is called here.

type c17Agg struct{ Fn, Field string }

func (a c17Agg) String() string { return a.Fn + "(" + a.Field + ")" }

type c17Cmp struct {
	Agg     c17Agg
	Op      string
	Lit     float64
	LitText string
	Flip    bool // literal written on the left-hand side
}

type c17Node struct {
	Kind string // cmp | and | or
	Cmp  *c17Cmp
	L, R *c17Node
}

type c17TV int

const (
	c17False c17TV = iota
	c17True
	c17Unknown
)

// ---- rendering -------------------------------------------------------------------------------

var c17Mirror = map[string]string{">=": "<=", ">": "<", "<=": ">=", "<": ">", "=": "=", "!=": "!="}

func (n *c17Node) render(r *rand.Rand, parentPrec int) string {
	var s string
	prec := 3
	switch n.Kind {
	case "cmp":
		call := c17FnCase(r, n.Cmp.Agg.Fn) + "(" + n.Cmp.Agg.Field + ")"
		if n.Cmp.Flip {
			s = n.Cmp.LitText + " " + c17Mirror[n.Cmp.Op] + " " + call
		} else {
			s = call + " " + n.Cmp.Op + " " + n.Cmp.LitText
		}
		if r.Intn(8) == 0 {
			s = "(" + s + ")"
		}
		return s
	case "and":
		prec = 2
		s = n.L.render(r, prec) + " " + pick(r, []string{"AND", "and", "And"}) + " " + n.R.render(r, prec)
	case "or":
		prec = 1
		s = n.L.render(r, prec) + " " + pick(r, []string{"OR", "or"}) + " " + n.R.render(r, prec)
	}
	if prec < parentPrec || r.Intn(5) == 0 {
		s = "(" + s + ")"
	}
	return s
}

func (n *c17Node) shape() string {
	if n.Kind == "cmp" {
		return n.Cmp.Agg.Fn
	}
	return n.Kind + "(" + n.L.shape() + "," + n.R.shape() + ")"
}

func (n *c17Node) aggs(out []c17Agg) []c17Agg {
	if n.Kind == "cmp" {
		return append(out, n.Cmp.Agg)
	}
	return n.R.aggs(n.L.aggs(out))
}

// ---- running aggregates ----------------------------------------------------------------------

type c17Field struct {
	cnt      int
	sum      float64
	min, max float64
}

type c17State struct {
	n      int
	fields map[string]*c17Field
}

func newC17State() *c17State { return &c17State{fields: map[string]*c17Field{}} }

func (s *c17State) add(row Row) {
	s.n++
	for _, f := range []string{"v", "w", "v*2", "v + w"} {
		x, ok := toF(row[f])
		switch f {
		case "v*2": // an expression argument is evaluated per row; NULL when its operand is
			x, ok = toF(row["v"])
			x *= 2
		case "v + w":
			y, ok2 := toF(row["w"])
			x, ok = toF(row["v"])
			x, ok = x+y, ok && ok2
		}
		if !ok {
			continue // NULL or missing: skipped by every aggregate
		}
		fs := s.fields[f]
		if fs == nil {
			fs = &c17Field{min: x, max: x}
			s.fields[f] = fs
		}
		fs.cnt++
		fs.sum += x
		if x < fs.min {
			fs.min = x
		}
		if x > fs.max {
			fs.max = x
		}
	}
}

// value returns the aggregate; ok=false means "no non-NULL input" (SQL NULL) for sum/avg/min/max.
func (s *c17State) value(a c17Agg) (float64, bool) {
	if a.Fn == "count" && a.Field == "*" {
		return float64(s.n), true
	}
	fs := s.fields[a.Field]
	if a.Fn == "count" {
		if fs == nil {
			return 0, true
		}
		return float64(fs.cnt), true
	}
	if fs == nil || fs.cnt == 0 {
		return 0, false
	}
	switch a.Fn {
	case "sum":
		return fs.sum, true
	case "avg":
		return fs.sum / float64(fs.cnt), true
	case "min":
		return fs.min, true
	case "max":
		return fs.max, true
	}
	return 0, false
}

func (n *c17Node) eval(s *c17State) c17TV {
	switch n.Kind {
	case "cmp":
		v, ok := s.value(n.Cmp.Agg)
		if !ok {
			return c17Unknown
		}
		lit := n.Cmp.Lit
		if (n.Cmp.Agg.Fn == "sum" || n.Cmp.Agg.Fn == "avg") && feq(v, lit) && (v != lit || n.Cmp.Agg.Fn == "avg") {
			return c17Unknown // rounding don't-care zone
		}
		var b bool
		switch n.Cmp.Op {
		case ">=":
			b = v >= lit
		case ">":
			b = v > lit
		case "<=":
			b = v <= lit
		case "<":
			b = v < lit
		case "=":
			b = v == lit
		case "!=":
			b = v != lit
		}
		if b {
			return c17True
		}
		return c17False
	case "and":
		l, r := n.L.eval(s), n.R.eval(s)
		if l == c17False || r == c17False {
			return c17False
		}
		if l == c17True && r == c17True {
			return c17True
		}
		return c17Unknown
	default: // or
		l, r := n.L.eval(s), n.R.eval(s)
		if l == c17True || r == c17True {
			return c17True
		}
		if l == c17False && r == c17False {
			return c17False
		}
		return c17Unknown
	}
}

// ---- per-group fire sequence -------------------------------------------------------------------

type c17Group struct {
	key   string
	vals  []any
	rows  []Row
	pos   int // index of the first row since the last fire
	fires int
}

type c17Ref struct {
	c      *c17Case
	groups map[string]*c17Group
	order  []string
	owner  map[int]string // id -> group key
	index  map[int]int    // id -> index within its group
}

type c17Outcome struct {
	Kind   string
	Detail string
	Attrs  map[string]string
	Tail   bool // the refutation is "no further delivery" and needs quiescence

	Fires, Values, Evals, Unknown, UnknownFires, EmptyVals, FalseRows, GroupsFired int
	Refired                                                                        bool
}

func newC17Ref(c *c17Case) *c17Ref {
	ref := &c17Ref{c: c, groups: map[string]*c17Group{}, owner: map[int]string{}, index: map[int]int{}}
	for _, row := range c.Rows {
		k := tuple(row, c.Cols)
		g := ref.groups[k]
		if g == nil {
			g = &c17Group{key: k}
			for _, col := range c.Cols {
				g.vals = append(g.vals, row[col])
			}
			ref.groups[k] = g
			ref.order = append(ref.order, k)
		}
		id := row["id"].(int)
		ref.owner[id] = k
		ref.index[id] = len(g.rows)
		g.rows = append(g.rows, row)
	}
	return ref
}

// expectedFires counts the fires of the reference when UNKNOWN rows do not fire (used only to know
// how long to wait; never a verdict).
func (ref *c17Ref) expectedFires() int {
	n := 0
	for _, k := range ref.order {
		st := newC17State()
		for _, row := range ref.groups[k].rows {
			st.add(row)
			if ref.c.pred.eval(st) == c17True {
				n++
				st = newC17State()
			}
		}
	}
	return n
}

func (ref *c17Ref) nullOperand(st *c17State) bool {
	for _, a := range ref.c.pred.aggs(nil) {
		if _, ok := st.value(a); !ok {
			return true
		}
	}
	return false
}

func c17Ids(rows []Row) []int {
	out := make([]int, len(rows))
	for i, r := range rows {
		out[i] = r["id"].(int)
	}
	return out
}

func c17Brief(rows []Row) string {
	var b strings.Builder
	for i, r := range rows {
		if i > 0 {
			b.WriteString(" ")
		}
		if i >= 12 {
			fmt.Fprintf(&b, "… (%d rows)", len(rows))
			break
		}
		fmt.Fprintf(&b, "{id:%v v:%v w:%v}", r["id"], r["v"], r["w"])
	}
	return b.String()
}

func (ref *c17Ref) check(dels []eng.Delivery) (out c17Outcome) {
	c := ref.c
	for _, g := range ref.groups {
		g.pos, g.fires = 0, 0
	}
	var cur *c17Group
	fail := func(kind, detail string, attrs map[string]string) c17Outcome {
		if attrs == nil {
			attrs = map[string]string{}
		}
		attrs["group_collides_with"] = ref.collidingPartner(cur)
		out.Kind, out.Detail, out.Attrs = kind, detail, attrs
		return out
	}
	missKind := func(st *c17State) string {
		if ref.nullOperand(st) {
			return "global.missed_fire_null_operand"
		}
		return "global.missed_fire"
	}
	for _, d := range dels {
		for _, res := range d.Rows {
			parts := make([]string, len(c.OutCols))
			for i, oc := range c.OutCols {
				parts[i] = tkey(res[oc])
			}
			gk := strings.Join(parts, "\x01")
			ids, ok := idList(res["ids"])
			if !ok || len(ids) == 0 {
				return fail("global.wrong_aggregate", fmt.Sprintf("delivery %d: collect(id) is unreadable or empty: %v", d.Index, res["ids"]), map[string]string{"fn": "collect"})
			}
			g := ref.groups[gk]
			cur = g
			if g == nil {
				return fail("global.unknown_group", fmt.Sprintf("delivery %d reports group %q that no input row has: %v", d.Index, gk, res), nil)
			}
			// rows of other groups must neither trigger nor contribute
			for _, id := range ids {
				ow, known := ref.owner[id]
				if !known {
					return fail("global.wrong_aggregate", fmt.Sprintf("delivery %d: collect(id) names id %d that was never emitted", d.Index, id), map[string]string{"fn": "collect"})
				}
				if ow != gk {
					other := ref.groups[ow]
					return fail("global.other_group_contributes",
						fmt.Sprintf("delivery %d for group %v aggregates rows %v, but row id %d belongs to the different group %v", d.Index, c17Vals(g.vals), ids, id, c17Vals(other.vals)),
						map[string]string{"pair_shape": keyShape(append(append([]any{}, g.vals...), other.vals...))})
				}
			}
			first, last := ref.index[ids[0]], ref.index[ids[len(ids)-1]]
			if first < g.pos {
				return fail("global.not_restarted_after_fire",
					fmt.Sprintf("group %v: fire #%d aggregates rows %v although rows up to id %v were already part of the previous fire", c17Vals(g.vals), g.fires+1, ids, g.rows[g.pos-1]["id"]), nil)
			}
			if last < first || last >= len(g.rows) {
				return fail("global.wrong_aggregate", fmt.Sprintf("delivery %d: collect(id)=%v is not in arrival order", d.Index, ids), map[string]string{"fn": "collect"})
			}
			seg := g.rows[g.pos : last+1]
			if !intsEq(ids, c17Ids(seg)) {
				return fail("global.rows_since_last_fire_mismatch",
					fmt.Sprintf("group %v: fire #%d aggregates rows %v, but the rows of this group since its last fire up to the firing row are %v", c17Vals(g.vals), g.fires+1, ids, c17Ids(seg)), nil)
			}
			st := newC17State()
			for t, row := range seg {
				st.add(row)
				p := c.pred.eval(st)
				out.Evals++
				lastRow := t == len(seg)-1
				switch {
				case !lastRow && p == c17True:
					return fail(missKind(st),
						fmt.Sprintf("group %v: predicate %s is TRUE after row id %v (rows since last fire: %s) but the group fired only at id %v", c17Vals(g.vals), c.Pred, row["id"], c17Brief(seg[:t+1]), seg[len(seg)-1]["id"]), nil)
				case lastRow && p == c17False:
					return fail("global.fired_while_false",
						fmt.Sprintf("group %v: fired at row id %v where predicate %s is FALSE on the rows since the last fire: %s; result %v", c17Vals(g.vals), row["id"], c.Pred, c17Brief(seg), res), nil)
				case p == c17False:
					out.FalseRows++
				case p == c17Unknown && lastRow:
					out.UnknownFires++
					out.Unknown++
				case p == c17Unknown:
					out.Unknown++
				}
			}
			for _, sel := range c.sel {
				want, nonEmpty := st.value(sel.Agg)
				got := res[sel.Alias]
				if !nonEmpty {
					out.EmptyVals++
					if got != nil && !numEq(got, 0) {
						return fail("global.wrong_aggregate",
							fmt.Sprintf("group %v fire #%d: %s over rows %s has no non-NULL input but the result is %v", c17Vals(g.vals), g.fires+1, sel.Agg, c17Brief(seg), got),
							map[string]string{"fn": sel.Agg.Fn, "empty_input": "true"})
					}
					continue
				}
				out.Values++
				if !numEq(got, want) {
					return fail("global.wrong_aggregate",
						fmt.Sprintf("group %v fire #%d: %s AS %s = %v, expected %v over the rows since the last fire %s", c17Vals(g.vals), g.fires+1, sel.Agg, sel.Alias, got, want, c17Brief(seg)),
						map[string]string{"fn": sel.Agg.Fn, "empty_input": "false"})
				}
			}
			g.pos = last + 1
			g.fires++
			out.Fires++
			if g.fires == 1 {
				out.GroupsFired++
			}
			if g.fires == 2 {
				out.Refired = true
			}
		}
	}
	// rows after the last delivery of each group: the predicate must never have become TRUE
	for _, k := range ref.order {
		g := ref.groups[k]
		cur = g
		st := newC17State()
		for t, row := range g.rows[g.pos:] {
			st.add(row)
			p := c.pred.eval(st)
			out.Evals++
			switch p {
			case c17True:
				out.Tail = true
				return fail(missKind(st),
					fmt.Sprintf("group %v: predicate %s is TRUE after row id %v (rows since last fire: %s) but no further result was delivered for the group (%d fires seen)", c17Vals(g.vals), c.Pred, row["id"], c17Brief(g.rows[g.pos:g.pos+t+1]), g.fires), nil)
			case c17False:
				out.FalseRows++
			default:
				out.Unknown++
			}
		}
	}
	return out
}

// collidingPartner labels a violation (it never decides one): it names the shape of another group of
// the case whose tuple becomes indistinguishable from g's when components are written as plain text
// (NULL as the empty string) and joined with "|" — the ambiguous key encoding suspected in DESIGN §6.
func (ref *c17Ref) collidingPartner(g *c17Group) string {
	if g == nil {
		return "none"
	}
	naive := func(vals []any) string {
		parts := make([]string, len(vals))
		for i, v := range vals {
			if v != nil {
				parts[i] = fmt.Sprint(v)
			}
		}
		return strings.Join(parts, "|")
	}
	for _, k := range ref.order {
		h := ref.groups[k]
		if h != g && naive(h.vals) == naive(g.vals) {
			return keyShape(append(append([]any{}, g.vals...), h.vals...))
		}
	}
	return "none"
}

func c17Vals(v []any) string {
	parts := make([]string, len(v))
	for i, x := range v {
		if x == nil {
			parts[i] = "NULL"
		} else {
			parts[i] = fmt.Sprintf("%#v", x)
		}
	}
	return "(" + strings.Join(parts, ", ") + ")"
}
