package checks

import (
	"fmt"
	"math"
	"math/rand"
	"reflect"
	"sort"
	"strconv"
	"strings"

	"github.com/expr-lang/expr"
	"github.com/expr-lang/expr/vm"
	"github.com/rulego/streamsql/condition"

	"verif/internal/core"
)

// C12 — predicate fast paths decide exactly as the general evaluator.
//
// Differential oracle: a shortcut-shaped predicate text (`col OP literal`, flat AND / OR chains of
// them) is evaluated by the real engine next to the SAME text enclosed in parentheses.  The
// parentheses defeat fastFieldOpNum/fastFieldOpStr (which are anchored on an identifier) and
// tryFastCompound (which bails out on any "(" or ")"), so the twin runs the general expr-lang
// program; that this is really so is read back from the compiled condition (fields `fast` and
// `compound` of condition.ExprCondition, inspected by reflection) for every predicate.
//
// Clause kinds
//   fastpath.differs             decision(shortcut text) != decision(parenthesised twin)
//   general.differs_from_exprlang the engine's general path differs from a vanilla expr-lang run
//   failure.accepts_row          evaluation fails in expr-lang, yet the row is accepted
//   failure.aborts_stream        a control row accepted before failing rows is not accepted after them
//   welltyped.wrong_decision     float64-vs-numeric-literal / string-vs-string-literal row decided
//                                against plain comparison semantics (control rows)
//   compile.differs              one of the twins compiles/executes, the other does not
//   engine.panic                 a panic reached the caller

func init() { register(&Check{ID: "C12", Run: runC12}) }

type c12Missing struct{}

type c12Cmp struct {
	Col   string
	Op    string
	Lit   string // literal as written (numeric text or quoted string)
	IsStr bool
	Num   float64
	Str   string
	Raw   string // double-quoted literal: the text between the quotes as written (escapes not interpreted)
}

type c12Pred struct {
	Parts []c12Cmp
	Join  string // "", "AND", "OR", "MIX"
	// Joins[i] joins Parts[i] and Parts[i+1] when Join is "MIX": an unparenthesised chain with both AND and
	// OR, where AND binds tighter (the shortcut must not fold it as a flat chain)
	Joins []string
}

type c12Case struct {
	core.CaseRef
	Site    string `json:"site"`
	Fast    string `json:"fast_text"`
	General string `json:"general_text"`
	SQLFast string `json:"sql_fast,omitempty"`
	SQLGen  string `json:"sql_general,omitempty"`
	NRows   int    `json:"rows"`
	Row     string `json:"failing_row,omitempty"`
}

var c12Ops = []string{">", ">=", "<", "<=", "==", "!=", "=", "<>"}

var c12NumLits = []string{"0", "1", "5", "5", "5", "7", "-5", "5.5", "-5.5", "0.5", "-0.1", "100", "3.0", "2.5", "1000000",
	"9007199254740992", "9007199254740993", "9007199254740991", "9223372036854775807", "9223372036854775806",
	"-9223372036854775808", "4294967295", "255", "-128",
	// zero-padded integers (decimal for the general evaluator): 010 is ten, not eight
	"010", "0100", "-017", "007", "08"}

var c12StrLits = []string{"", "a", "abc", "abc", "5", "5.5", "a b", "A", "b", "ab", "abd", "a", "abc", "", "B", "true", "-5", "5", "x > 5", "&&", "||", "(a)",
	// texts that differ only in blanks inside the quotes, and what is left of a parenthesised text without its parentheses
	"a  b", "a b", " a ", "(a)", "p(1)", "p 1 "}

var c12Grid = []any{
	int(7), int(5), int(-5), int(0), int8(5), int8(-5), int8(127), int8(-128), int16(5), int16(300), int16(-5), int32(5), int32(-70000),
	int64(5), int64(6), int64(4), int64(1<<53 - 1), int64(1 << 53), int64(1<<53 + 1), int64(-(1<<53 + 1)), int64(math.MaxInt64), int64(math.MaxInt64 - 1), int64(math.MinInt64),
	uint(5), uint(math.MaxUint64), uint8(5), uint8(255), uint16(5), uint16(65535), uint32(5), uint32(math.MaxUint32),
	uint64(5), uint64(0), uint64(1<<53 + 1), uint64(1 << 63), uint64(math.MaxInt64), uint64(math.MaxUint64), uint64(math.MaxUint64 - 1),
	float32(5), float32(5.5), float32(0.1), float32(-0.1), float32(16777217),
	float64(5), 5.5, -5.5, 0.5, -0.1, 0.0, math.Copysign(0, -1), 4.999999999999999, 5.000000000000001,
	float64(1 << 53), float64(1<<53) + 2, 9.223372036854775807e18, 1.8446744073709552e19, 1e308, -1e308, math.SmallestNonzeroFloat64,
	math.NaN(), math.Inf(1), math.Inf(-1),
	"5", "5.5", "-5", "5.0", " 5", "abc", "", "a", "a b", "A", "b", "true", "NaN", "abd", "ab",
	true, false, nil, c12Missing{},
}

func c12GenCmp(r *rand.Rand, sql bool) c12Cmp {
	c := c12Cmp{}
	c.Op = c12Ops[r.Intn(6)]
	k := r.Intn(100) // "=" is SQL's equality, "<>" its inequality; expr-lang itself knows neither
	if sql {
		if k < 14 {
			c.Op = "="
		} else if k < 18 {
			c.Op = "<>"
		}
	} else if k < 3 {
		c.Op = "="
	} else if k < 6 {
		c.Op = "<>"
	}
	if r.Intn(4) == 0 {
		c.IsStr = true
		c.Str = pick(r, c12StrLits)
		c.Lit = "'" + c.Str + "'"
		c.Col = pick(r, []string{"s", "s", "s", "s", "x"})
		if !sql && r.Intn(6) == 0 {
			// expr-lang's double-quoted literal, in which a backslash starts an escape: the general evaluator
			// compares with the unescaped text (package boundary only; SQL statements use single quotes)
			c.Lit = pick(r, []string{`"abc"`, `"a\tb"`, `"C:\\x"`, `"a\nb"`, `"x"`, `"tab\there"`})
			if u, err := strconv.Unquote(c.Lit); err == nil {
				c.Str = u
				c.Raw = c.Lit[1 : len(c.Lit)-1]
			}
		}
	} else {
		c.Lit = pick(r, c12NumLits)
		if r.Intn(60) == 0 {
			c.Lit = "18446744073709551615" // beyond int64: expr-lang refuses the literal (counted)
		}
		c.Num, _ = strconv.ParseFloat(c.Lit, 64)
		c.Col = pick(r, []string{"x", "x", "y", "y", "s"})
	}
	return c
}

func c12GenPred(r *rand.Rand, sql bool) c12Pred {
	p := c12Pred{}
	n := 1
	if r.Intn(5) >= 2 {
		n = 2 + r.Intn(3)
		p.Join = pick(r, []string{"AND", "OR"})
		if n >= 3 && r.Intn(4) == 0 {
			p.Join = "MIX"
			for {
				p.Joins = p.Joins[:0]
				seen := map[string]bool{}
				for i := 0; i < n-1; i++ {
					j := pick(r, []string{"AND", "OR"})
					seen[j] = true
					p.Joins = append(p.Joins, j)
				}
				if len(seen) == 2 {
					break
				}
			}
		}
	}
	for i := 0; i < n; i++ {
		p.Parts = append(p.Parts, c12GenCmp(r, sql))
	}
	if n >= 2 && p.Join != "MIX" && r.Intn(12) == 0 {
		// a flat chain one of whose text literals contains parentheses (they are not grouping)
		c := &p.Parts[r.Intn(n)]
		c.IsStr, c.Raw, c.Col = true, "", "s"
		c.Str = pick(r, []string{"(a)", "p(1)", "a)b", "(("})
		c.Lit = "'" + c.Str + "'"
		if c.Op != "=" && c.Op != "==" && c.Op != "!=" {
			c.Op = pick(r, []string{"==", "!="})
		}
	}
	return p
}

// render prints the predicate; col maps a column to the site's operand text (x, lx, last_value(x)),
// and/or are the conjunction spellings of the site.
func (p c12Pred) render(r *rand.Rand, col func(string) string, and, or string, perPartParens bool) string {
	parts := make([]string, len(p.Parts))
	for i, c := range p.Parts {
		sp1, sp2 := " ", " "
		if r != nil && r.Intn(6) == 0 {
			sp1, sp2 = "", ""
		}
		parts[i] = col(c.Col) + sp1 + c.Op + sp2 + c.Lit
		if perPartParens {
			parts[i] = "(" + parts[i] + ")"
		}
	}
	j := " " + and + " "
	if p.Join == "OR" {
		j = " " + or + " "
	}
	if p.Join == "MIX" {
		out := parts[0]
		for i, jn := range p.Joins {
			if jn == "OR" {
				out += " " + or + " " + parts[i+1]
			} else {
				out += " " + and + " " + parts[i+1]
			}
		}
		return out
	}
	return strings.Join(parts, j)
}

func (p c12Pred) opsAttr() string {
	set := map[string]bool{}
	for _, c := range p.Parts {
		set[c.Op] = true
	}
	l := make([]string, 0, len(set))
	for k := range set {
		l = append(l, k)
	}
	sort.Strings(l)
	return strings.Join(l, ",")
}

func (p c12Pred) chainAttr() string {
	if p.Join == "" {
		return "single"
	}
	return strings.ToLower(p.Join) + strconv.Itoa(len(p.Parts))
}

func (p c12Pred) litAttr() string {
	set := map[string]bool{}
	for _, c := range p.Parts {
		switch {
		case c.IsStr:
			set["string"] = true
		case math.Abs(c.Num) >= 1<<53:
			set["big_int"] = true
		case strings.Contains(c.Lit, "."):
			set["frac"] = true
		default:
			set["int"] = true
		}
	}
	l := make([]string, 0, len(set))
	for k := range set {
		l = append(l, k)
	}
	sort.Strings(l)
	return strings.Join(l, ",")
}

func (p c12Pred) cols() []string {
	set := map[string]bool{}
	for _, c := range p.Parts {
		set[c.Col] = true
	}
	l := make([]string, 0, len(set))
	for k := range set {
		l = append(l, k)
	}
	sort.Strings(l)
	return l
}

// c12Typed converts f to a PRNG-chosen Go numeric type when it is representable there.
func c12Typed(r *rand.Rand, f float64) any {
	integral := f == math.Trunc(f) && math.Abs(f) < 1<<62
	switch r.Intn(14) {
	case 0:
		if integral && f >= -128 && f <= 127 {
			return int8(f)
		}
	case 1:
		if integral && f >= -32768 && f <= 32767 {
			return int16(f)
		}
	case 2:
		if integral && math.Abs(f) < 1<<31 {
			return int32(f)
		}
	case 3, 4:
		if integral {
			return int64(f)
		}
	case 5:
		if integral && f >= 0 {
			return uint(f)
		}
	case 6:
		if integral && f >= 0 && f <= 255 {
			return uint8(f)
		}
	case 7:
		if integral && f >= 0 && f <= 65535 {
			return uint16(f)
		}
	case 8:
		if integral && f >= 0 && f < 1<<32 {
			return uint32(f)
		}
	case 9:
		if integral && f >= 0 {
			return uint64(f)
		}
	case 10:
		return float32(f)
	case 11:
		if integral {
			return int(f)
		}
	case 12:
		return strconv.FormatFloat(f, 'f', -1, 64)
	}
	return f
}

// c12BigNeighbours: exact integer neighbours of a big literal (float64 cannot express them).
func c12BigNeighbours(r *rand.Rand, lit string) any {
	if u, err := strconv.ParseUint(lit, 10, 64); err == nil {
		d := uint64(r.Intn(3))
		switch r.Intn(4) {
		case 0:
			return u - d
		case 1:
			if u+d >= u {
				return u + d
			}
			return u
		case 2:
			if u-d <= math.MaxInt64 {
				return int64(u - d)
			}
			return u - d
		default:
			if u+d <= math.MaxInt64 {
				return int64(u + d)
			}
			return u
		}
	}
	if i, err := strconv.ParseInt(lit, 10, 64); err == nil {
		return i + int64(r.Intn(3))
	}
	return nil
}

func c12GenValue(r *rand.Rand, p c12Pred, col string) any {
	k := r.Intn(100)
	var on []c12Cmp
	for _, c := range p.Parts {
		if c.Col == col {
			on = append(on, c)
		}
	}
	if k < 55 && len(on) > 0 {
		c := on[r.Intn(len(on))]
		if c.IsStr {
			if c.Str == "" && r.Intn(3) == 0 {
				// the blank-text test on a row whose column holds a number
				return pick(r, []any{0, 0.0, int64(0), 1, -1.5})
			}
			switch r.Intn(8) {
			case 6: // what a careless normalisation of the predicate text would turn the literal into
				return strings.NewReplacer("(", " ", ")", " ").Replace(c.Str)
			case 7:
				return strings.Join(strings.Fields(c.Str), " ")
			case 0:
				return c.Str + "a"
			case 1:
				if len(c.Str) > 0 {
					return c.Str[:len(c.Str)-1]
				}
				return ""
			case 2:
				return strings.ToUpper(c.Str)
			case 3:
				if c.Raw != "" {
					return c.Raw // the literal's text as written, escapes not interpreted
				}
			}
			return c.Str
		}
		if math.Abs(c.Num) >= 1<<53 {
			if v := c12BigNeighbours(r, c.Lit); v != nil && r.Intn(4) > 0 {
				return v
			}
			return c.Num
		}
		d := []float64{0, 0, 0, 1, -1, 0.5, -0.5, 2}[r.Intn(8)]
		return c12Typed(r, c.Num+d)
	}
	if k < 70 {
		if col == "s" {
			return pick(r, []string{"abc", "a", "", "ab", "abd", "b", "A"})
		}
		return float64(r.Intn(21)-10) / 2
	}
	if k < 76 {
		return nil
	}
	if k < 82 {
		return c12Missing{}
	}
	return c12Grid[r.Intn(len(c12Grid))]
}

func c12GenRow(r *rand.Rand, p c12Pred, id int) Row {
	row := Row{"id": id}
	for _, col := range []string{"x", "y", "s"} {
		v := c12GenValue(r, p, col)
		if _, miss := v.(c12Missing); miss {
			continue
		}
		row[col] = v
	}
	return row
}

// c12Ref is the plain-comparison reference for the uncontroversial sub-domain: every referenced
// column is a finite float64 of magnitude <= 1e9 compared with a numeric literal of magnitude
// <= 1e9, or a string compared with a string literal.  ok=false outside that sub-domain.
func c12Ref(p c12Pred, row Row, safeStr func(string) bool) (dec bool, ok bool) {
	res := p.Join != "OR"
	var atoms []bool
	for _, c := range p.Parts {
		if c.Op == "<>" {
			return false, false // not accepted by most sites
		}
		v, present := row[c.Col]
		if !present || v == nil {
			return false, false
		}
		var b bool
		if c.IsStr {
			s, isS := v.(string)
			if !isS || (safeStr != nil && !safeStr(s)) {
				return false, false
			}
			b = c12CmpStr(s, c.Op, c.Str)
		} else {
			f, isF := v.(float64)
			if !isF || math.IsNaN(f) || math.Abs(f) > 1e9 || math.Abs(c.Num) > 1e9 {
				return false, false
			}
			b = c12CmpNum(f, c.Op, c.Num)
		}
		atoms = append(atoms, b)
		if p.Join == "OR" {
			res = res || b
		} else {
			res = res && b
		}
	}
	if p.Join == "MIX" {
		// OR of AND-groups
		res = false
		grp := atoms[0]
		for i, jn := range p.Joins {
			if jn == "AND" {
				grp = grp && atoms[i+1]
			} else {
				res = res || grp
				grp = atoms[i+1]
			}
		}
		res = res || grp
	}
	return res, true
}

func c12CmpNum(a float64, op string, b float64) bool {
	switch op {
	case ">":
		return a > b
	case ">=":
		return a >= b
	case "<":
		return a < b
	case "<=":
		return a <= b
	case "=", "==":
		return a == b
	}
	return a != b
}

func c12CmpStr(a, op, b string) bool {
	switch op {
	case ">":
		return a > b
	case ">=":
		return a >= b
	case "<":
		return a < b
	case "<=":
		return a <= b
	case "=", "==":
		return a == b
	}
	return a != b
}

// c12Controls builds up to two rows the predicate must accept under plain comparison semantics.
func c12Controls(r *rand.Rand, p c12Pred, safeStr func(string) bool) []Row {
	var out []Row
	for try := 0; try < 12 && len(out) < 2; try++ {
		row := Row{"x": 1.0, "y": 1.0, "s": "abc"}
		for _, c := range p.Parts {
			if c.IsStr {
				switch c.Op {
				case ">", "!=":
					row[c.Col] = c.Str + "a"
				case "<":
					if len(c.Str) > 0 {
						row[c.Col] = c.Str[:len(c.Str)-1]
					}
				default:
					row[c.Col] = c.Str
				}
			} else {
				d := float64(1 + r.Intn(3))
				switch c.Op {
				case ">", "!=":
					row[c.Col] = c.Num + d
				case "<":
					row[c.Col] = c.Num - d
				default:
					row[c.Col] = c.Num
				}
			}
			if p.Join == "OR" && r.Intn(2) == 0 {
				break
			}
		}
		if d, ok := c12Ref(p, row, safeStr); ok && d {
			out = append(out, row)
		}
	}
	return out
}

func c12Show(v any, present bool) string {
	if !present {
		return "missing"
	}
	if v == nil {
		return "NULL"
	}
	if s, ok := v.(string); ok {
		return fmt.Sprintf("string(%q)", s)
	}
	return fmt.Sprintf("%T(%v)", v, v)
}

func c12ShowRow(row Row, cols []string) string {
	parts := []string{}
	for _, c := range cols {
		v, ok := row[c]
		parts = append(parts, c+"="+c12Show(v, ok))
	}
	return "{" + strings.Join(parts, ", ") + "}"
}

func c12TypeAttr(v any, present bool) (typ, rng string) {
	if !present {
		return "missing", "-"
	}
	switch x := v.(type) {
	case nil:
		return "null", "-"
	case string:
		if _, err := strconv.ParseFloat(strings.TrimSpace(x), 64); err == nil {
			return "string:numeric", "-"
		}
		return "string", "-"
	case bool:
		return "bool", "-"
	case float64:
		return "float64", c12Range(x, false)
	case float32:
		return "float32", c12Range(float64(x), false)
	case uint64:
		return "uint64", c12Range(float64(x), x > math.MaxInt64)
	case uint:
		return "uint", c12Range(float64(x), uint64(x) > math.MaxInt64)
	}
	f, _ := toF(v)
	return fmt.Sprintf("%T", v), c12Range(f, false)
}

func c12Range(f float64, beyondInt64 bool) string {
	switch {
	case math.IsNaN(f):
		return "nan"
	case math.IsInf(f, 0):
		return "inf"
	case beyondInt64:
		return "beyond_int64"
	case math.Abs(f) >= 1<<53:
		return "beyond_2^53"
	}
	return "exact"
}

func c12RowAttrs(p c12Pred, row Row) (typ, rng string) {
	ts, rs := []string{}, map[string]bool{}
	for _, c := range p.cols() {
		v, ok := row[c]
		t, r := c12TypeAttr(v, ok)
		ts = append(ts, t)
		rs[r] = true
	}
	rng = "exact"
	for _, k := range []string{"nan", "inf", "beyond_2^53", "beyond_int64"} {
		if rs[k] {
			rng = k
		}
	}
	sort.Strings(ts)
	return strings.Join(ts, "+"), rng
}

// c12Path reads back which evaluation path the engine compiled for text.
func c12Path(text string) (path string) {
	defer func() {
		if r := recover(); r != nil {
			path = "panic"
		}
	}()
	c, err := condition.NewExprCondition(text)
	if err != nil {
		return "compile_error"
	}
	v := reflect.ValueOf(c)
	if v.Kind() == reflect.Ptr {
		v = v.Elem()
	}
	if v.Kind() != reflect.Struct {
		return "unknown"
	}
	fc, ff := v.FieldByName("compound"), v.FieldByName("fast")
	if !fc.IsValid() || !ff.IsValid() {
		return "unknown"
	}
	if !fc.IsNil() {
		return "compound"
	}
	if !ff.IsNil() {
		return "fast"
	}
	return "general"
}

// c12Agg collects the violations of one case by (kind, attrs) so that a defect hit by many rows of
// one predicate is reported once, with its first failing row and a count.
type c12Agg struct {
	keys  []string
	first map[string]core.Violation
	count map[string]int
}

func newC12Agg() *c12Agg { return &c12Agg{first: map[string]core.Violation{}, count: map[string]int{}} }

func (a *c12Agg) add(v core.Violation) {
	k := v.Kind + core.J(v.Attrs)
	if _, ok := a.first[k]; !ok {
		a.first[k] = v
		a.keys = append(a.keys, k)
	}
	a.count[k]++
}

func (a *c12Agg) flush(ctx *core.Ctx) {
	for _, k := range a.keys {
		v := a.first[k]
		ctx.Count("flagged."+v.Kind+"["+v.Attrs["site"]+",range="+v.Attrs["range"]+"]", int64(a.count[k]))
		if n := a.count[k]; n > 1 {
			v.Detail += fmt.Sprintf(" [%d rows of this case fail the same way; first one shown]", n)
		}
		ctx.Violate(v)
	}
}

func runC12(ctx *core.Ctx) {
	ctx.SetRule("case = one shortcut-shaped predicate (1 comparison or a flat AND/OR chain of 2-4; operator, literal, columns from PRNG(seed,stream,index)) " +
		"evaluated next to its parenthesised twin on a PRNG row list over the heterogeneous value grid, at the package boundary or one SQL site; " +
		"non-trivial = the engine reports the shortcut (fast/compound) path for the bare text AND the general path for the twin AND the twin both accepted and rejected rows of the case; distinct by (site, predicate, rows) hash")
	ctx.Assume("the parenthesised twin runs the general expr-lang program (read back per predicate from condition.ExprCondition's fast/compound fields)",
		"HAVING / TRIGGER WHEN decisions are read from sink deliveries after the engine went quiet (3 polls 250 ms apart) whenever the quick read-out shows any disagreement",
		"operators a site does not accept ('<>' everywhere, '=' at the package boundary) are counted, not judged")
	nPkg, rowsPkg := ctx.N(260, 5200), ctx.N(50, 125)
	nSite, rowsSite := ctx.N(50, 1000), ctx.N(50, 125)
	ctx.Cases("c12pkg", nPkg, workers(), func(i int, r *rand.Rand) {
		c12RunPkg(ctx, core.CaseRef{Stream: "c12pkg", Index: i}, r, rowsPkg)
	})
	for _, site := range []string{"where", "when", "having", "trigger"} {
		site := site
		ctx.Cases("c12"+site, nSite, workers(), func(i int, r *rand.Rand) {
			c12RunSite(ctx, site, core.CaseRef{Stream: "c12" + site, Index: i}, r, rowsSite)
		})
	}
}

func c12EvalCond(c condition.Condition, row Row) (dec bool, pan any) {
	defer func() {
		if r := recover(); r != nil {
			pan = r
		}
	}()
	return c.Evaluate(row), nil
}

func c12Compile(text string) (c condition.Condition, err error) {
	defer func() {
		if r := recover(); r != nil {
			err = fmt.Errorf("PANIC in NewExprCondition: %v", r)
		}
	}()
	return condition.NewExprCondition(text)
}

func c12Vanilla(text string) *vm.Program {
	p, err := expr.Compile(text, expr.AllowUndefinedVariables(), expr.AsBool())
	if err != nil {
		return nil
	}
	return p
}

func c12RunVanilla(p *vm.Program, row Row) (dec bool, failed bool) {
	defer func() {
		if r := recover(); r != nil {
			failed = true
		}
	}()
	out, err := expr.Run(p, row)
	if err != nil {
		return false, true
	}
	b, ok := out.(bool)
	if !ok {
		return false, true
	}
	return b, false
}

// c12RescuedByOr reports whether a failing OR chain has a disjunct that evaluates to true on its own.
// A failing comparison (NULL or incomparable operand) is not true, but it does not make the other
// disjuncts false: TRUE OR <failing> is TRUE in SQL, and the engine's general path decides so since
// its NULL-tolerant re-evaluation.  For single comparisons and AND chains a failure can never be
// rescued, so an accepted failing row stays a violation there.
func c12RescuedByOr(p c12Pred, row Row) bool {
	if p.Join == "MIX" {
		// some AND-group whose members all evaluate to true on their own
		start := 0
		groupTrue := func(lo, hi int) bool {
			for i := lo; i <= hi; i++ {
				one := c12Pred{Parts: p.Parts[i : i+1]}
				v := c12Vanilla(one.render(nil, func(c string) string { return c }, "&&", "||", false))
				if v == nil {
					return false
				}
				if dec, failed := c12RunVanilla(v, c12CopyRow(row)); failed || !dec {
					return false
				}
			}
			return true
		}
		for i, jn := range p.Joins {
			if jn == "OR" {
				if groupTrue(start, i) {
					return true
				}
				start = i + 1
			}
		}
		return groupTrue(start, len(p.Parts)-1)
	}
	if p.Join != "OR" {
		return false
	}
	for i := range p.Parts {
		one := c12Pred{Parts: p.Parts[i : i+1]}
		v := c12Vanilla(one.render(nil, func(c string) string { return c }, "&&", "||", false))
		if v == nil {
			continue
		}
		if dec, failed := c12RunVanilla(v, c12CopyRow(row)); !failed && dec {
			return true
		}
	}
	return false
}

// c12HasNullOperand reports whether a column the predicate reads is NULL or missing in the row.
func c12HasNullOperand(p c12Pred, row Row) bool {
	for _, c := range p.cols() {
		if v, ok := row[c]; !ok || v == nil {
			return true
		}
		if _, miss := row[c].(c12Missing); miss {
			return true
		}
	}
	return false
}

func c12CopyRow(row Row) Row {
	cp := make(Row, len(row))
	for k, v := range row {
		cp[k] = v
	}
	return cp
}

func c12RunPkg(ctx *core.Ctx, ref core.CaseRef, r *rand.Rand, nrows int) {
	p := c12GenPred(r, false)
	ident := func(c string) string { return c }
	fast := p.render(r, ident, "&&", "||", false)
	gen := "(" + fast + ")"
	alt := p.render(nil, ident, "&&", "||", true)
	cs := &c12Case{CaseRef: ref, Site: "package", Fast: fast, General: gen, NRows: nrows}
	base := map[string]string{"site": "package", "chain": p.chainAttr(), "operator": p.opsAttr(), "literal": p.litAttr()}
	mk := func(extra ...string) map[string]string {
		m := map[string]string{}
		for k, v := range base {
			m[k] = v
		}
		for i := 0; i+1 < len(extra); i += 2 {
			m[extra[i]] = extra[i+1]
		}
		return m
	}
	rows := make([]Row, nrows)
	for i := range rows {
		rows[i] = c12GenRow(r, p, i)
	}
	cf, errF := c12Compile(fast)
	cg, errG := c12Compile(gen)
	ca, errA := c12Compile(alt)
	if errF != nil || errG != nil || errA != nil {
		if strings.Contains(fmt.Sprint(errF, errG, errA), "PANIC") {
			ctx.Violate(core.Violation{Kind: "engine.panic", Attrs: mk(), Detail: fmt.Sprintf("NewExprCondition panicked for %q / %q: %v %v %v", fast, gen, errF, errG, errA), Case: cs})
		} else if (errF == nil) != (errG == nil) {
			ctx.Violate(core.Violation{Kind: "compile.differs", Attrs: mk(), Detail: fmt.Sprintf("%q compiles: %v; %q compiles: %v (%v / %v)", fast, errF == nil, gen, errG == nil, errF, errG), Case: cs})
		} else {
			ctx.Count("package.text_not_accepted["+c12Reason(p, errF)+"]", 1)
		}
		ctx.Case("package|"+fast, false, nil)
		return
	}
	pf, pg, pa := c12Path(fast), c12Path(gen), c12Path(alt)
	ctx.Count("package.path."+pf, 1)
	if pg != "general" || pa != "general" {
		// the twins are no independent comparators then; plain expr-lang and the reference still judge the decisions
		ctx.Count("package.parenthesised_twin_not_on_the_general_path", 1)
	}
	van := c12Vanilla(fast)
	agg := newC12Agg()
	acc, rej, failing := 0, 0, 0
	for _, row := range rows {
		df, p1 := c12EvalCond(cf, c12CopyRow(row))
		dg, p2 := c12EvalCond(cg, c12CopyRow(row))
		da, p3 := c12EvalCond(ca, c12CopyRow(row))
		typ, rng := c12RowAttrs(p, row)
		shown := c12ShowRow(row, p.cols())
		vcase := *cs
		vcase.Row = shown
		if p1 != nil || p2 != nil || p3 != nil {
			agg.add(core.Violation{Kind: "engine.panic", Attrs: mk("value_type", typ, "range", rng), Detail: fmt.Sprintf("Evaluate panicked: %v %v %v for %q on %s", p1, p2, p3, fast, shown), Case: &vcase})
			continue
		}
		if dg {
			acc++
		} else {
			rej++
		}
		if df != dg {
			agg.add(core.Violation{Kind: "fastpath.differs", Attrs: mk("value_type", typ, "range", rng, "fast_says", fmt.Sprint(df)),
				Detail: fmt.Sprintf("condition.NewExprCondition(%q).Evaluate(row)=%v (path %s) but NewExprCondition(%q).Evaluate(row)=%v (general path); row %s", fast, df, pf, gen, dg, shown), Case: &vcase})
		}
		if da != dg {
			agg.add(core.Violation{Kind: "general.differs_from_exprlang", Attrs: mk("value_type", typ, "range", rng, "variant", "per_part_parens"),
				Detail: fmt.Sprintf("two general-path spellings disagree: %q -> %v, %q -> %v; row %s", gen, dg, alt, da, shown), Case: &vcase})
		}
		if van != nil {
			dv, failed := c12RunVanilla(van, c12CopyRow(row))
			if failed {
				failing++
				if (df || dg) && !c12RescuedByOr(p, row) {
					agg.add(core.Violation{Kind: "failure.accepts_row", Attrs: mk("value_type", typ, "range", rng),
						Detail: fmt.Sprintf("expr-lang fails to evaluate %q on row %s, yet Evaluate accepted the row (shortcut text: %v, parenthesised: %v)", fast, shown, df, dg), Case: &vcase})
				}
			} else if dv != dg && !c12HasNullOperand(p, row) {
				// (with a NULL/missing operand the engine applies SQL semantics to = and != — not true —
				// where plain expr-lang says nil != 5 is true; that is C06's subject, not a path difference)
				agg.add(core.Violation{Kind: "general.differs_from_exprlang", Attrs: mk("value_type", typ, "range", rng, "variant", "vanilla"),
					Detail: fmt.Sprintf("engine general path %q -> %v but a plain expr-lang program of %q -> %v; row %s", gen, dg, fast, dv, shown), Case: &vcase})
			}
		}
		if want, ok := c12Ref(p, row, nil); ok && (want != df || want != dg) {
			agg.add(core.Violation{Kind: "welltyped.wrong_decision", Attrs: mk("value_type", typ, "range", rng),
				Detail: fmt.Sprintf("%q on row %s: plain comparison gives %v, engine shortcut %v, general %v", fast, shown, want, df, dg), Case: &vcase})
		}
	}
	agg.flush(ctx)
	ctx.Count("pairs.package", int64(len(rows)))
	ctx.Count("package.accepted_by_general", int64(acc))
	ctx.Count("package.rejected_by_general", int64(rej))
	ctx.Count("package.failing_evaluations_observed", int64(failing))
	var sample any
	if ref.Index < 2 {
		sample = map[string]any{"site": "package", "fast": fast, "general": gen, "path": pf, "rows": len(rows), "accepted": acc, "rejected": rej, "first_row": c12ShowRow(rows[0], []string{"x", "y", "s"})}
	}
	ctx.Case("package|"+fast+"|"+c12RowsSig(rows), (pf == "fast" || pf == "compound") && acc > 0 && rej > 0, sample)
}

// c12Reason classifies why a site refused a predicate text (counted, never judged).
func c12Reason(p c12Pred, err error) string {
	if err != nil && strings.Contains(err.Error(), "out of range") {
		return "integer literal out of range"
	}
	for _, c := range p.Parts {
		if c.Op == "<>" {
			return "operator <>"
		}
	}
	for _, c := range p.Parts {
		if c.Op == "=" {
			return "operator ="
		}
	}
	if err != nil {
		e := err.Error()
		if i := strings.IndexByte(e, '\n'); i > 0 {
			e = e[:i]
		}
		if len(e) > 60 {
			e = e[:60]
		}
		return e
	}
	return "?"
}

func c12RowsSig(rows []Row) string {
	var b strings.Builder
	for _, row := range rows {
		b.WriteString(c12ShowRow(row, []string{"x", "y", "s"}))
	}
	return b.String()
}
