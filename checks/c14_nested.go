//go:build verif

package checks

import (
	"fmt"
	"math/rand"
	"reflect"

	"verif/internal/core"
	"verif/internal/eng"
)

// c14nested: the partition key is a nested path (PARTITION BY loc.site) and the rows also carry a top-level
// column named like the path's last segment (site) holding something else.  Partitions are formed by the nested
// value only; lag / acc_sum / acc_count are checked against per-partition reference state, in SELECT and in WHERE.

type c14NestedCase struct {
	core.CaseRef
	SQL  string `json:"sql"`
	Rows []Row  `json:"rows"`
}

func c14NestedStream(ctx *core.Ctx) {
	n := ctx.N(24, 400)
	ctx.Cases("c14nested", n, workers(), func(i int, r *rand.Rand) {
		c := &c14NestedCase{CaseRef: core.CaseRef{Stream: "c14nested", Index: i}}
		where := i%3 == 2
		c.SQL = "SELECT id, lag(v) OVER (PARTITION BY loc.site) AS pv, acc_sum(v) OVER (PARTITION BY loc.site) AS tot, acc_count(v) OVER (PARTITION BY loc.site) AS cnt, had_changed(true, tags) OVER (PARTITION BY loc.site) AS hc FROM stream"
		if where {
			c.SQL = "SELECT id, v FROM stream WHERE acc_sum(v) OVER (PARTITION BY loc.site) >= 20"
		}
		sites := []string{"north", "south", "east"}[:2+r.Intn(2)]
		for j := 1; j <= 40+r.Intn(60); j++ {
			site := pick(r, sites)
			// the top-level decoy takes other sites' names and a value of its own
			decoy := pick(r, append([]string{"hq"}, sites...))
			// tags: a JSON array or object (change detection over values that are not comparable with ==)
			var tags any
			switch r.Intn(4) {
			case 0:
				tags = []any{"a", "b"}
			case 1:
				tags = []any{"a"}
			case 2:
				tags = map[string]any{"x": 1}
			default:
				tags = map[string]any{"x": 2, "y": []any{1}}
			}
			c.Rows = append(c.Rows, Row{"id": j, "v": 1 + r.Intn(9), "loc": map[string]any{"site": site, "floor": r.Intn(3)}, "site": decoy, "tags": tags})
		}
		attrs := map[string]string{"partition_key": "nested_path_with_same_named_top_level_column", "site": map[bool]string{true: "where", false: "select"}[where]}
		viol := func(kind, detail string) {
			ctx.Violate(core.Violation{Kind: kind, Attrs: attrs, Detail: detail + "\nSQL: " + c.SQL, Case: c})
		}
		s, err := eng.New(c.SQL, eng.Opts{})
		if err != nil {
			viol("nested.execute_error", err.Error())
			return
		}
		defer s.Stop()
		type st struct {
			last any
			sum  float64
			cnt  int
			tags any
			seen bool
		}
		state := map[string]*st{}
		for _, row := range c.Rows {
			site := row["loc"].(map[string]any)["site"].(string)
			p := state[site]
			if p == nil {
				p = &st{}
				state[site] = p
			}
			wantLag := p.last
			wantHC := !p.seen || !reflect.DeepEqual(p.tags, row["tags"])
			p.seen, p.tags = true, row["tags"]
			p.sum += float64(row["v"].(int))
			p.cnt++
			p.last = row["v"]
			out, e, pan := c14EmitSync(s, c14Copy(row))
			if pan != nil || e != nil {
				viol("nested.emit_failed", fmt.Sprintf("EmitSync(%v): %v %v", row, e, pan))
				return
			}
			ctx.Count("nested.rows_checked", 1)
			if where {
				if want := p.sum >= 20; want != (out != nil) {
					viol("acc_sum.wrong_value", fmt.Sprintf("row %v of partition loc.site=%q: running sum of the partition is %v, so WHERE acc_sum(v) >= 20 is %v, but the row was %s", row, site, p.sum, want, map[bool]string{true: "delivered", false: "dropped"}[out != nil]))
					return
				}
				continue
			}
			if hc, ok := out["hc"].(bool); out != nil && (!ok || hc != wantHC) {
				viol("had_changed.wrong_value", fmt.Sprintf("row %v of partition loc.site=%q: had_changed(true, tags) = %#v, expected %v (previous tags of the partition: %v)", row, site, out["hc"], wantHC, wantLag))
				return
			}
			if out == nil || !valEq(out["pv"], wantLag) || !numEq(out["tot"], p.sum) || !numEq(out["cnt"], p.cnt) {
				viol("partition.mixed_or_split", fmt.Sprintf("row %v of partition loc.site=%q: expected lag=%v acc_sum=%v acc_count=%d from the partition's own earlier rows, got %v", row, site, wantLag, p.sum, p.cnt, out))
				return
			}
		}
		ctx.Case("c14nested"+c.SQL+core.J(c.Rows), len(state) >= 2, nil)
	})
}
