package checks

import (
	"fmt"
	"math/rand"
	"sort"
	"strconv"
	"strings"
	"sync"
	"time"

	"verif/internal/core"
	"verif/internal/eng"
)

// C07 — post-aggregation clauses apply in relational order to each emitted batch:
// group → aggregates → SELECT arithmetic → HAVING → DISTINCT → ORDER BY → LIMIT, and the delivered
// rows carry exactly the SELECT output names (+ window_id).

func init() { register(&Check{ID: "C07", Run: runC07}) }

type c07Case struct {
	core.CaseRef
	SQL                string     `json:"sql"`
	Mode               string     `json:"mode"` // counting | tumbling (event time, closed by a sentinel row)
	N                  int        `json:"n,omitempty"`
	Global             bool       `json:"global_window,omitempty"` // the batches of N rows per key are formed by GLOBAL WINDOW TRIGGER WHEN count(*) >= N
	GroupCols          []string   `json:"group_cols"`
	UnselectedGroupCol bool       `json:"unselected_group_col"`
	borderline         bool       // a HAVING atom sits within float rounding of its literal (verdict left open)
	Distinct           bool       `json:"distinct"`
	Items              []*c07Item `json:"items"`
	Having             *c07Pred   `json:"having,omitempty"`
	Order              []c07Key   `json:"order,omitempty"`
	Limit              int        `json:"limit"` // -1: none
	Tight              bool       `json:"tight_layout"`
	Upper              bool       `json:"upper_case_functions"`
	Rows               []Row      `json:"rows"`
}

func runC07(ctx *core.Ctx) {
	ctx.SetRule("case = (window mode in {CountingWindow(N) GROUP BY k; event-time TumblingWindow('1s') GROUP BY k[,g] closed by a sentinel row}, " +
		"1-4 SELECT items of the shapes agg / agg op lit / lit op agg / agg op agg / (agg) op lit / (agg ± agg) op lit / agg op lit op lit / lit op agg op lit / agg(x op y) [op lit] / lit op agg(x op y), " +
		"optional HAVING of 1-3 atoms over aliases, selected and unselected aggregates with AND/OR, optional ORDER BY of 1-2 output columns ASC/DESC, optional LIMIT, optional DISTINCT, optional unselected GROUP BY column, " +
		"rows with NULL/missing aggregate inputs) from PRNG(seed,index); " +
		"non-trivial = at least one delivered row was compared and the case exercised a compound SELECT item on a group of ≥2 rows, or a HAVING with both outcomes, or an ORDER BY over ≥2 survivors, or a LIMIT that cuts, or a DISTINCT that removes a duplicate; distinct by (SQL, rows) hash")
	ctx.Assume(
		"arithmetic is float64 arithmetic with NULL propagation (C06 reference); plain aggregates: count(*) rows, count(x) non-NULL, sum/avg/min/max NULL without usable input (C03 reference)",
		"HAVING is three-valued: a group is kept iff the predicate is TRUE; AND binds tighter than OR",
		"ORDER BY: numbers numerically, strings bytewise; the position of NULL keys is left open (batches whose survivors have a NULL order key are only checked for membership and count)",
		"aggregates over expression arguments use never-NULL columns only (NULL operands inside an aggregate argument are C03's subject)",
		"batches are identified by collect(id) (counting) or by window_id (tumbling); window formation itself is C01/C09's subject",
		"a missing delivery is declared only after the engine stayed quiet with empty buffers")
	n := ctx.N(300, 8000)
	ctx.Cases("c07", n, 2*workers(), func(i int, r *rand.Rand) {
		c := &c07Case{CaseRef: core.CaseRef{Stream: "c07", Index: i}}
		genC07(c, r)
		execC07(ctx, c)
	})
}

type c07Run struct {
	Dels       []eng.Delivery
	Overloaded bool
	Quiescent  bool
	Err        error
	Panic      string
	Lagged     string // a batch that a slow asynchronous sink read differently from what was delivered
	LagChecked int
}

func c07Exec(c *c07Case, rows []Row, expect int) (res c07Run) {
	s, err := eng.New(c.SQL, eng.Opts{})
	if err != nil {
		return c07Run{Err: err}
	}
	rec := eng.Attach(s)
	// a second, asynchronous sink that looks at its batch a little later, as a sink that does I/O would: what it
	// reads must be one of the delivered batches
	var lagMu sync.Mutex
	var lagged []string
	lagSink := c.Index%3 == 1
	if lagSink {
		s.AddSink(func(batch []map[string]any) {
			time.Sleep(time.Millisecond)
			j := core.J(batch)
			lagMu.Lock()
			lagged = append(lagged, j)
			lagMu.Unlock()
		})
	}
	defer func() {
		if p := recover(); p != nil {
			res.Panic = fmt.Sprint(p)
		}
		func() {
			defer func() { _ = recover() }()
			s.Stop()
		}()
	}()
	for _, row := range rows {
		rec.Emit(row)
	}
	if c.Mode == "counting" {
		if rec.WaitDeliveries(expect, 10*time.Second) {
			res.Quiescent = rec.Quiesce(3, 5*time.Millisecond, 3*time.Second)
		} else {
			res.Quiescent = rec.Quiesce(3, 250*time.Millisecond, 30*time.Second)
		}
	} else {
		// event time: the windows fire on the watermark tick after the sentinel; full quiescence (§4.3)
		rec.WaitDeliveries(expect, 3*time.Second)
		res.Quiescent = rec.Quiesce(3, 250*time.Millisecond, 60*time.Second)
	}
	res.Dels = rec.Deliveries()
	res.Overloaded = rec.Overloaded()
	if lagSink && res.Quiescent {
		for k := 0; k < 400; k++ { // the slow sink's calls are still running for a moment
			lagMu.Lock()
			n := len(lagged)
			lagMu.Unlock()
			if n >= len(res.Dels) {
				break
			}
			time.Sleep(5 * time.Millisecond)
		}
		delivered := map[string]bool{}
		for _, d := range res.Dels {
			delivered[core.J(d.Rows)] = true
		}
		lagMu.Lock()
		for _, j := range lagged {
			res.LagChecked++
			if !delivered[j] && res.Lagged == "" {
				res.Lagged = j
			}
		}
		lagMu.Unlock()
	}
	return res
}

func (c *c07Case) baseAttrs() map[string]string {
	return map[string]string{
		"mode":                 c.Mode,
		"global_window":        fmt.Sprint(c.Global),
		"distinct":             fmt.Sprint(c.Distinct),
		"having":               fmt.Sprint(c.Having != nil),
		"order_by":             fmt.Sprint(len(c.Order) > 0),
		"limit":                fmt.Sprint(c.Limit >= 0),
		"unselected_group_col": fmt.Sprint(c.UnselectedGroupCol),
	}
}

func c07GotKind(v any) string {
	switch v.(type) {
	case nil:
		return "null"
	case string:
		return "string"
	case bool:
		return "bool"
	}
	if _, ok := toF(v); ok {
		return "number"
	}
	return fmt.Sprintf("%T", v)
}

// c07ValEq: NULL only equals NULL; a number only equals a value of numeric type within tolerance.
func c07ValEq(want, got any) bool {
	if want == nil || got == nil {
		return want == nil && got == nil
	}
	if w, ok := toF(want); ok {
		g, ok2 := toF(got)
		return ok2 && feq(w, g)
	}
	return tkey(want) == tkey(got)
}

// c07Cmp orders two output values; ok=false when a NULL or a type mix is involved.
func c07Cmp(a, b any) (int, bool) {
	fa, oka := toF(a)
	fb, okb := toF(b)
	if oka && okb {
		switch {
		case feq(fa, fb):
			return 0, true
		case fa < fb:
			return -1, true
		}
		return 1, true
	}
	sa, oka := a.(string)
	sb, okb := b.(string)
	if oka && okb {
		return strings.Compare(sa, sb), true
	}
	return 0, false
}

// c07RowCmp compares two rows under the ORDER BY key list (DESC inverts).
func c07RowCmp(keys []c07Key, a, b Row) (int, bool) {
	for _, k := range keys {
		if fa, ok1 := toF(a[k.Col]); ok1 {
			if fb, ok2 := toF(b[k.Col]); ok2 && fa != fb && feq(fa, fb) {
				// equal up to float rounding but not bit for bit (0.2833333333333333 vs 0.2833333333333334): whether
				// this key decides or the next one does depends on the order of floating-point operations
				return 0, false
			}
		}
		x, ok := c07Cmp(a[k.Col], b[k.Col])
		if !ok {
			return 0, false
		}
		if x != 0 {
			if k.Dir == "DESC" {
				return -x, true
			}
			return x, true
		}
	}
	return 0, true
}

func c07Hidden(name string) bool {
	return strings.HasPrefix(name, "__") || strings.Contains(name, "__having") || strings.Contains(name, "__winagg")
}

func execC07(ctx *core.Ctx, c *c07Case) {
	base := c.baseAttrs()
	reported := map[string]bool{}
	viol := func(kind string, extra map[string]string, detail string) {
		attrs := map[string]string{}
		for k, v := range base {
			attrs[k] = v
		}
		for k, v := range extra {
			attrs[k] = v
		}
		sig := kind + core.J(attrs)
		if reported[sig] {
			return
		}
		reported[sig] = true
		tag := kind
		for _, k := range []string{"shape", "null_operand", "got", "inner_ops", "having_conn", "having_operands", "having_null_operand", "having_alias_item_shapes", "limit_value", "column_pattern", "order_keys", "having_cmps"} {
			if v, ok := attrs[k]; ok && v != "" {
				tag += " " + k + "=" + v
			}
		}
		ctx.Count("flagged: "+tag, 1)
		ctx.Violate(core.Violation{Kind: kind, Attrs: attrs, Detail: detail + "\n  sql: " + c.SQL, Case: c})
	}

	// ---- reference ----
	bs := c07Partition(c)
	c07Evaluate(c, bs)
	if c.borderline {
		ctx.Inconclusive("a HAVING operand equals its literal up to float rounding")
		return
	}
	byID := map[string]*c07Batch{}
	expect := 0
	type refOut struct {
		dcount map[string]int // expected multiplicity per projected row (after HAVING and DISTINCT)
		total  int            // |survivors after DISTINCT|
		want   int            // after LIMIT
	}
	refs := map[*c07Batch]*refOut{}
	havingBoth := [2]bool{}
	exOrder, exLimit, exDistinct := false, false, false
	for _, b := range bs {
		byID[b.ID] = b
		ro := &refOut{dcount: map[string]int{}}
		for _, g := range b.Groups {
			if c.Having != nil {
				if g.Keep {
					havingBoth[1] = true
				} else {
					havingBoth[0] = true
				}
			}
			if !g.Keep {
				continue
			}
			if c.Distinct && ro.dcount[g.DKey] > 0 {
				exDistinct = true
				continue
			}
			ro.dcount[g.DKey]++
			ro.total++
		}
		ro.want = ro.total
		if c.Limit >= 0 && ro.total > c.Limit {
			ro.want = c.Limit
			exLimit = true
		}
		if len(c.Order) > 0 && ro.total >= 2 {
			exOrder = true
		}
		if ro.want > 0 {
			expect++
		}
		refs[b] = ro
	}

	// ---- run ----
	rows := c.Rows
	if c.Mode == "tumbling" {
		last := rows[len(rows)-1]["ts"].(int64)
		rows = append(append([]Row{}, rows...), Row{"id": -1, "ts": last + 20000, "k": "__sentinel__", "g": "__sentinel__", "t": 0, "w": 1, "u": 0, "v": 0})
	}
	res := c07Exec(c, rows, expect)
	if res.Err != nil {
		viol("program.execute_error", map[string]string{"shapes": c.shapes()}, "Execute rejected the program: "+res.Err.Error())
		ctx.Case(c.SQL+core.J(c.Rows), false, nil)
		return
	}
	if res.Panic != "" {
		viol("engine.panic", map[string]string{"shapes": c.shapes()}, "panic reached the caller: "+res.Panic)
		return
	}
	if res.Overloaded {
		ctx.Inconclusive("engine declared overload")
		return
	}
	ctx.Count("slow_sink_batches_compared", int64(res.LagChecked))
	if res.Lagged != "" {
		viol("batch.altered_before_slow_sink_read", map[string]string{"shapes": c.shapes()}, "a second, asynchronous sink that reads its batch 1 ms after being called read "+res.Lagged+", which is none of the batches delivered to the synchronous sink: "+core.J(res.Dels))
		return
	}

	names := map[string]*c07Item{}
	for _, it := range c.Items {
		names[it.Name] = it
	}
	isGroupCol := map[string]bool{}
	for _, col := range c.GroupCols {
		isGroupCol[col] = true
	}
	havingAttrs := func(g *c07Group) map[string]string {
		var kinds, cmps, shapes []string
		neg := false
		c.Having.atoms(func(a *c07Pred) {
			kinds = append(kinds, a.OpKind)
			cmps = append(cmps, a.Cmp)
			if a.OpKind == "alias" {
				shapes = append(shapes, a.Shape)
			}
			if strings.HasPrefix(a.Lit, "-") {
				neg = true
			}
		})
		m := map[string]string{"having_conn": c.Having.conn(), "having_operands": c07Uniq(kinds), "having_cmps": c07Uniq(cmps),
			"having_alias_item_shapes": c07Uniq(shapes), "having_neg_literal": fmt.Sprint(neg)}
		if g != nil {
			m["having_null_operand"] = fmt.Sprint(g.HNull)
		}
		return m
	}
	orderAttrs := func() map[string]string {
		var kinds, dirs []string
		for _, k := range c.Order {
			kinds = append(kinds, k.Kind)
			d := k.Dir
			if d == "" {
				d = "default"
			}
			dirs = append(dirs, d)
		}
		return map[string]string{"order_keys": strings.Join(kinds, ";"), "order_dirs": strings.Join(dirs, ";"), "order_nkeys": fmt.Sprint(len(c.Order))}
	}

	limitAttrs := func(b *c07Batch) map[string]string {
		m := map[string]string{"limit_value": c07LimitClass(c.Limit)}
		if c.Having != nil {
			for k, v := range havingAttrs(nil) {
				m[k] = v
			}
			null := false
			for _, g := range b.Groups {
				null = null || g.HNull
			}
			m["having_null_operand_in_batch"] = fmt.Sprint(null)
		}
		return m
	}
	compared := 0
	compoundOnMulti := false
	inconclusive := ""

	for _, d := range res.Dels {
		if len(d.Rows) == 0 {
			continue
		}
		// ---- output columns ----
		for _, out := range d.Rows {
			for _, name := range sortedKeys(out) {
				if name == "window_id" || names[name] != nil || (c.Global && (name == "window_start" || name == "window_end")) {
					continue
				}
				switch {
				case c07Hidden(name):
					viol("columns.hidden_helper_visible", map[string]string{"column_pattern": c07Pattern(name)},
						fmt.Sprintf("delivered row carries the helper column %q: %s", name, core.J(out)))
				case isGroupCol[name]:
					// not a violation: the grouping columns are delivered whether selected or not (DESIGN §9)
					ctx.Count("columns.unselected_group_key_delivered", 1)
				default:
					viol("columns.unexpected_column", map[string]string{"column_pattern": c07Pattern(name)},
						fmt.Sprintf("delivered row carries %q which is no SELECT output name: %s", name, core.J(out)))
				}
			}
			for _, it := range c.Items {
				if _, ok := out[it.Name]; !ok {
					viol("columns.missing_output", map[string]string{"shape": it.Shape, "group_col": fmt.Sprint(it.Group)},
						fmt.Sprintf("SELECT output %q is absent from the delivered row %s", it.Name, core.J(out)))
				}
			}
		}
		// ---- which reference batch? ----
		var b *c07Batch
		if c.Mode == "counting" {
			ids, ok := idList(d.Rows[0]["ids"])
			if ok && d.Rows[0]["ids"] != nil {
				b = byID[idsStr(ids)]
			}
		} else {
			if wid, ok := d.Rows[0]["window_id"].(string); ok {
				if i := strings.IndexByte(wid, '_'); i > 0 {
					if ns, err := strconv.ParseInt(wid[:i], 10, 64); err == nil {
						b = byID[fmt.Sprint(ns/1e6-baseTs)]
					}
				}
			}
		}
		if b == nil {
			inconclusive = "a delivery could not be attributed to a reference batch (window formation is not C07's subject)"
			continue
		}
		b.seen++
		if b.seen > 1 {
			inconclusive = "a batch was delivered twice (window formation is not C07's subject)"
			continue
		}
		ro := refs[b]
		ctx.Count("batches_checked", 1)
		got := map[string]int{}
		badCols := map[string]bool{}
		extras := 0 // delivered rows that are no legitimate survivor (each is flagged on its own)
		for _, out := range d.Rows {
			// attribute the row to a group by its key tuple when every GROUP BY column is delivered
			full := true
			for _, col := range c.GroupCols {
				if _, ok := out[col]; !ok {
					full = false
				}
			}
			if !full {
				parts := make([]string, 0, len(c.Items))
				for _, it := range c.Items {
					parts = append(parts, c07Canon(out[it.Name]))
				}
				dk := strings.Join(parts, "\x01")
				if ro.dcount[dk] == 0 {
					extras++
					viol("batch.unexpected_row", nil, fmt.Sprintf("batch %s: delivered row %s equals no surviving reference row; survivors: %s", b.ID, core.J(out), c07Survivors(c, b)))
				}
				got[dk]++
				if ro.dcount[dk] > 0 && got[dk] > ro.dcount[dk] {
					extras++
				}
				if !c.Distinct && ro.dcount[dk] > 0 && got[dk] > ro.dcount[dk] {
					viol("batch.unexpected_row", nil, fmt.Sprintf("batch %s: row %s delivered %d times, %d expected", b.ID, core.J(out), got[dk], ro.dcount[dk]))
				}
				compared++
				continue
			}
			g := b.byKey[tuple(out, c.GroupCols)]
			if g == nil {
				extras++
				viol("batch.unknown_group", nil, fmt.Sprintf("batch %s: delivered row %s reports a GROUP BY tuple that no source row of the batch has", b.ID, core.J(out)))
				continue
			}
			g.seen++
			compared++
			ctx.Count("rows_compared", 1)
			if g.seen > 1 {
				viol("batch.group_delivered_twice", nil, fmt.Sprintf("batch %s: group %v delivered %d times: %s", b.ID, g.KeyV, g.seen, core.J(d.Rows)))
			}
			for _, it := range c.Items {
				gv, present := out[it.Name]
				if !present || it.Group {
					continue
				}
				want := g.Out[it.Name]
				if it.IDs {
					ids, ok := idList(gv)
					if !ok || !intsEq(sortedInts(ids), sortedInts(g.IDs)) {
						viol("select.wrong_value", map[string]string{"shape": "collect_id"}, fmt.Sprintf("batch %s group %v: collect(id)=%v, source rows %v", b.ID, g.KeyV, gv, g.IDs))
						badCols[it.Name] = true
					}
					continue
				}
				ctx.Count("items_compared."+it.Shape, 1)
				if it.Shape != "agg" && len(g.Rows) >= 2 {
					compoundOnMulti = true
				}
				if !c07ValEq(want, gv) {
					badCols[it.Name] = true
					viol("select.wrong_value", map[string]string{
						"shape": it.Shape, "fns": it.Expr.fns(), "ops": it.Expr.ops(), "inner_ops": it.Expr.innerOps(),
						"null_operand": fmt.Sprint(g.Null[it.Name]), "got": c07GotKind(gv), "want_null": fmt.Sprint(want == nil),
						"layout": map[bool]string{true: "tight", false: "spaced"}[c.Tight]},
						fmt.Sprintf("item %q = %s over group %v: delivered %v (%T), relational value %v\n  group rows: %s\n  delivered row: %s",
							it.Name, it.Expr.sql(c.Tight, c.Upper), g.KeyV, gv, gv, c07Show(want), c07RowsBrief(g.Rows), core.J(out)))
				}
			}
			if c.Having != nil {
				if g.Keep {
					ctx.Count("having.true_groups_delivered", 1)
				} else {
					viol("having.kept_group_predicate_not_true", havingAttrs(g),
						fmt.Sprintf("batch %s group %v was delivered although HAVING %s is not true for it (%s)\n  group rows: %s\n  delivered row: %s",
							b.ID, g.KeyV, c.Having.sql(c.Tight, c.Upper), c07HavingTrace(c, g), c07RowsBrief(g.Rows), core.J(out)))
				}
			}
			if g.Keep {
				got[g.DKey]++
				if got[g.DKey] > ro.dcount[g.DKey] {
					extras++
				}
			} else {
				extras++
			}
		}
		// ---- DISTINCT ----
		if c.Distinct {
			for dk, n := range got {
				if n > 1 {
					viol("distinct.duplicate_rows", nil, fmt.Sprintf("batch %s: %d delivered rows are equal on the SELECT output columns (%s) under DISTINCT: %s",
						b.ID, n, strings.ReplaceAll(dk, "\x01", " | "), core.J(d.Rows)))
				}
			}
		}
		// ---- count / LIMIT ----
		cut := c.Limit >= 0 && ro.total > c.Limit
		if cut {
			ctx.Count("limit.cutting_batches", 1)
			if len(d.Rows) != c.Limit {
				viol("limit.wrong_row_count", limitAttrs(b),
					fmt.Sprintf("batch %s: LIMIT %d with %d surviving rows delivered %d rows: %s", b.ID, c.Limit, ro.total, len(d.Rows), core.J(d.Rows)))
			}
		} else if c.Limit >= 0 && extras > 0 && len(d.Rows) >= c.Limit {
			// rows that should not be there (flagged above) used up the LIMIT: an absent survivor is their consequence
			ctx.Count("limit.filled_by_flagged_rows_absence_not_judged", 1)
		} else {
			// every survivor must be there
			for _, g := range b.Groups {
				if g.Keep && got[g.DKey] == 0 {
					if c.Having != nil {
						viol("having.dropped_group_predicate_true", havingAttrs(g),
							fmt.Sprintf("batch %s: group %v is absent although HAVING %s is true for it (%s)\n  group rows: %s\n  delivered: %s",
								b.ID, g.KeyV, c.Having.sql(c.Tight, c.Upper), c07HavingTrace(c, g), c07RowsBrief(g.Rows), core.J(d.Rows)))
					} else {
						viol("batch.missing_row", nil, fmt.Sprintf("batch %s: group %v (reference row %s) is absent from the delivery %s", b.ID, g.KeyV, core.J(g.Out), core.J(d.Rows)))
					}
				}
			}
		}
		// ---- ORDER BY ----
		if len(c.Order) > 0 {
			nullKey := false
			for _, g := range b.Groups {
				if g.Keep {
					for _, k := range c.Order {
						if g.Out[k.Col] == nil {
							nullKey = true
						}
					}
				}
			}
			if nullKey {
				ctx.Count("order.batches_with_null_key_not_checked", 1)
			} else {
				ctx.Count("order.batches_checked", 1)
				sorted := true
				for i := 0; i+1 < len(d.Rows); i++ {
					x, ok := c07RowCmp(c.Order, d.Rows[i], d.Rows[i+1])
					if ok && x > 0 {
						sorted = false
						viol("order.not_sorted", orderAttrs(), fmt.Sprintf("batch %s: rows %d and %d are out of order under ORDER BY %s: %s then %s\n  delivery: %s",
							b.ID, i, i+1, c.orderText(), core.J(d.Rows[i]), core.J(d.Rows[i+1]), core.J(d.Rows)))
						break
					}
				}
				tainted := false // an ORDER BY key column already carries a wrong value: reported as select.wrong_value
				for _, k := range c.Order {
					tainted = tainted || badCols[k.Col]
				}
				if cut && sorted && !tainted && len(d.Rows) > 0 && len(d.Rows) == c.Limit {
					lastRow := d.Rows[len(d.Rows)-1]
					for _, g := range b.Groups {
						if !g.Keep || got[g.DKey] > 0 {
							continue
						}
						x, ok := c07RowCmp(c.Order, lastRow, g.Out)
						if ok && x > 0 {
							a := orderAttrs()
							for k, v := range limitAttrs(b) {
								a[k] = v
							}
							viol("limit.not_first_n_of_order", a, fmt.Sprintf("batch %s: ORDER BY %s LIMIT %d excluded the surviving row %s which sorts before the last delivered row %s\n  delivery: %s",
								b.ID, c.orderText(), c.Limit, core.J(g.Out), core.J(lastRow), core.J(d.Rows)))
							break
						}
					}
					ctx.Count("limit.exclusion_checked", 1)
				}
			}
		}
	}

	// ---- batches that never arrived ----
	if inconclusive == "" {
		for _, b := range bs {
			ro := refs[b]
			if b.seen > 0 || ro.want == 0 {
				if b.seen == 0 {
					ctx.Count("batches_correctly_suppressed", 1)
				}
				continue
			}
			if !res.Quiescent {
				inconclusive = "expected batch absent but the engine never became quiescent"
				break
			}
			var g *c07Group
			for _, x := range b.Groups {
				if x.Keep {
					g = x
					break
				}
			}
			switch {
			case c.Limit == 0:
				// unreachable: want == 0
			case c.Having != nil:
				viol("having.dropped_group_predicate_true", havingAttrs(g),
					fmt.Sprintf("batch %s was never delivered although HAVING %s is true for group %v (%s)\n  group rows: %s",
						b.ID, c.Having.sql(c.Tight, c.Upper), g.KeyV, c07HavingTrace(c, g), c07RowsBrief(g.Rows)))
			default:
				viol("batch.missing_row", nil, fmt.Sprintf("batch %s (%d surviving rows) was never delivered after the engine went quiet", b.ID, ro.total))
			}
		}
	}
	if inconclusive != "" {
		ctx.Inconclusive(inconclusive)
		return
	}
	ctx.Count("deliveries", int64(len(res.Dels)))
	ctx.Count("mode."+c.Mode, 1)
	if c.Having != nil {
		ctx.Count("programs.having", 1)
	}
	if len(c.Order) > 0 {
		ctx.Count("programs.order_by", 1)
	}
	if c.Limit >= 0 {
		ctx.Count("programs.limit", 1)
	}
	if c.Distinct {
		ctx.Count("programs.distinct", 1)
	}
	if exDistinct {
		ctx.Count("programs.distinct_with_reference_duplicates", 1)
	}
	nontrivial := compared > 0 && (compoundOnMulti || (havingBoth[0] && havingBoth[1]) || exOrder || exLimit || exDistinct)
	var sample any
	if c.Index < 4 {
		sample = map[string]any{"sql": c.SQL, "rows": len(c.Rows), "reference_batches": len(bs), "deliveries": len(res.Dels), "rows_compared": compared, "first_rows": c.Rows[:min(3, len(c.Rows))]}
	}
	ctx.Case(c.SQL+core.J(c.Rows), nontrivial, sample)
}

func c07LimitClass(n int) string {
	switch n {
	case 0:
		return "0"
	case 1:
		return "1"
	}
	return "n"
}

func c07Pattern(name string) string {
	switch {
	case strings.HasPrefix(name, "__having"):
		return "__having_*"
	case strings.HasPrefix(name, "__winagg"):
		return "__winagg_*"
	case strings.HasPrefix(name, "__"):
		return "__*__"
	case strings.Contains(name, "("):
		return "expression_text"
	}
	return "other"
}

func c07Show(v any) string {
	if v == nil {
		return "NULL"
	}
	return fmt.Sprint(v)
}

func (c *c07Case) shapes() string {
	var xs []string
	for _, it := range c.Items {
		if it.Expr != nil {
			xs = append(xs, it.Shape)
		}
	}
	return c07Uniq(xs)
}

func (c *c07Case) outNames() string {
	var xs []string
	for _, it := range c.Items {
		xs = append(xs, it.Name)
	}
	return strings.Join(xs, ", ")
}

func (c *c07Case) orderText() string {
	var ks []string
	for _, k := range c.Order {
		ks = append(ks, strings.TrimSpace(k.Col+" "+k.Dir))
	}
	return strings.Join(ks, ", ")
}

func c07RowsBrief(rows []Row) string {
	var parts []string
	for i, row := range rows {
		if i == 8 {
			parts = append(parts, fmt.Sprintf("… %d more", len(rows)-8))
			break
		}
		cp := Row{}
		for k, v := range row {
			if k != "ts" {
				cp[k] = v
			}
		}
		parts = append(parts, core.J(cp))
	}
	return strings.Join(parts, " ")
}

// c07HavingTrace shows each atom's operand value for the group.
func c07HavingTrace(c *c07Case, g *c07Group) string {
	var parts []string
	c.Having.atoms(func(a *c07Pred) {
		if a.Expr == nil { // a comparison of the group column with a text literal
			return
		}
		v, _ := a.Expr.eval(g.Rows)
		lhs := a.Alias
		if a.OpKind != "alias" {
			lhs = a.Expr.sql(c.Tight, c.Upper)
		}
		parts = append(parts, fmt.Sprintf("%s=%s", lhs, c07Show(v)))
	})
	return strings.Join(parts, ", ")
}

func c07Survivors(c *c07Case, b *c07Batch) string {
	var xs []string
	for _, g := range b.Groups {
		if g.Keep {
			xs = append(xs, core.J(g.Out))
		}
	}
	sort.Strings(xs)
	return strings.Join(xs, " ")
}
