//go:build verif

package checks

import (
	"fmt"
	"math/rand"
	"sort"
	"time"

	"verif/internal/core"
	"verif/internal/eng"
)

// c04distinct: SELECT DISTINCT over a grouped query.  The result rows of one batch differ in their key tuple, so
// DISTINCT must not remove any of them - whatever the key texts look like when a row is written out as text
// (values that contain " <column>:" or spell <nil>, quotes, braces).  There is no witness column here (it would
// make every row unique by itself): one tumbling window holds all rows, and the batch must consist of exactly
// one row per distinct tuple with that tuple's row count.

type c04DistinctCase struct {
	core.CaseRef
	SQL  string `json:"sql"`
	Rows []Row  `json:"rows"`
}

func c04DistinctStream(ctx *core.Ctx) {
	n := ctx.N(30, 600)
	ctx.Cases("c04distinct", n, workers(), func(i int, r *rand.Rand) {
		c := &c04DistinctCase{CaseRef: core.CaseRef{Stream: "c04distinct", Index: i}}
		c.SQL = "SELECT DISTINCT k1, k2, count(*) AS c FROM stream GROUP BY k1, k2, TumblingWindow('1s') WITH (TIMESTAMP='ts', TIMEUNIT='ms')"
		dom1 := pick(r, [][]any{
			{"x k2:y", "x", "a"},
			{"x", `x","k2":"y`, "b"},
			{"x", "<nil>", nil},
			{"{x", "x}", "[x", "map[k1:x"},
		})
		dom2 := pick(r, [][]any{
			{"z", "y k2:z", "a"},
			{"y", `y","c":1`, "b"},
			{"<nil>", nil, "x"},
			{"y]", "k2:y", " "},
		})
		want := map[string]int{}
		cols := []string{"k1", "k2"}
		for j, m := 1, 6+r.Intn(20); j <= m; j++ {
			row := Row{"id": j, "ts": baseTs + 100 + int64(j)}
			if v := pick(r, dom1); v != nil {
				row["k1"] = v
			}
			if v := pick(r, dom2); v != nil || r.Intn(2) == 0 {
				row["k2"] = v
			}
			want[tuple(row, cols)]++
			c.Rows = append(c.Rows, row)
		}
		rows := append(append([]Row{}, c.Rows...), Row{"id": -1, "ts": baseTs + 30000, "k1": "__sentinel__", "k2": "__sentinel__"})
		attrs := map[string]string{"window": "tumbling", "ncols": "2", "key_shape": "text_that_reads_like_a_written_out_row", "distinct": "yes"}
		viol := func(kind, detail string) {
			ctx.Violate(core.Violation{Kind: kind, Attrs: attrs, Detail: detail + "\n  sql: " + c.SQL, Case: c})
		}
		res := runWindow(c.SQL, rows, runOpts{Opts: eng.Opts{}, Expect: 1})
		if res.Err != nil {
			viol("groupby.execute_error", res.Err.Error())
			return
		}
		if res.Overloaded || !res.Quiescent {
			ctx.Inconclusive("c04distinct: overload or not quiescent")
			return
		}
		got := map[string]int{}
		for _, d := range res.Dels {
			for _, out := range d.Rows {
				k := tuple(out, cols)
				if _, dup := got[k]; dup {
					viol("groupby.equal_values_split", fmt.Sprintf("two result rows for the key tuple %q: %s", k, core.J(res.Dels)))
					return
				}
				f, _ := toF(out["c"])
				got[k] = int(f)
			}
		}
		keys := make([]string, 0, len(want))
		for k := range want {
			keys = append(keys, k)
		}
		sort.Strings(keys)
		for _, k := range keys {
			if g, ok := got[k]; !ok {
				viol("groupby.group_missing", fmt.Sprintf("the key tuple %q occurs in %d rows of the window but has no result row (SELECT DISTINCT may only remove rows that are equal in every column); results: %s", k, want[k], core.J(res.Dels)))
				return
			} else if g != want[k] {
				viol("groupby.row_not_in_own_group", fmt.Sprintf("key tuple %q: count(*) = %d, the window holds %d rows of it; results: %s", k, g, want[k], core.J(res.Dels)))
				return
			}
		}
		for k := range got {
			if _, ok := want[k]; !ok {
				viol("groupby.different_values_merged", fmt.Sprintf("a result row reports the key tuple %q that no input row has; results: %s", k, core.J(res.Dels)))
				return
			}
		}
		ctx.Count("distinct.batches_checked", 1)
		ctx.Case(c.SQL+core.J(c.Rows), len(want) >= 2, nil)
	})
}

// c04late: event-time sessions with ALLOWEDLATENESS.  Late rows whose key text is a prefix (or the empty text,
// or a suffix) of another group's key arrive inside that group's already delivered session: whatever the
// engine does with them (the late-row rules are C02's subject), no result row may aggregate a row of another
// tuple.
func c04LateStream(ctx *core.Ctx) {
	n := ctx.N(12, 300)
	ctx.Cases("c04late", n, workers(), func(i int, r *rand.Rand) {
		c := &c04DistinctCase{CaseRef: core.CaseRef{Stream: "c04late", Index: i}}
		c.SQL = "SELECT k1, count(*) AS c, collect(id) AS ids FROM stream GROUP BY k1, SessionWindow('1s') WITH (TIMESTAMP='ts', TIMEUNIT='ms', ALLOWEDLATENESS='10s')"
		fam := pick(r, [][]string{{"ab", "a", "", "abc"}, {"10", "1", "0", "100"}, {"a|b", "a", "a|", "|b"}, {"x\\y", "x", "x\\", "y"}})
		id := 0
		add := func(k string, ts int64) {
			id++
			c.Rows = append(c.Rows, Row{"id": id, "k1": k, "ts": baseTs + ts})
		}
		t := int64(1000)
		for round := 0; round < 2+r.Intn(3); round++ {
			owner := fam[0]
			if r.Intn(3) == 0 {
				owner = pick(r, fam)
			}
			for j := 0; j < 2+r.Intn(3); j++ { // the owner's session
				add(owner, t+int64(j)*200)
			}
			add("zz", t+2600) // passes the session's end: it fires and stays open for late rows
			for j := 0; j < 1+r.Intn(3); j++ {
				add(pick(r, fam), t+100+int64(r.Intn(500))) // late rows of look-alike keys inside that session
			}
			t += 6000
		}
		rows := append(append([]Row{}, c.Rows...), Row{"id": -1, "ts": baseTs + t + 60000, "k1": "__sentinel__"})
		attrs := map[string]string{"window": "session", "ncols": "1", "key_shape": "prefixes_of_each_other", "allowed_lateness": "yes"}
		viol := func(kind, detail string) {
			ctx.Violate(core.Violation{Kind: kind, Attrs: attrs, Detail: detail + "\n  sql: " + c.SQL, Case: c})
		}
		// a short pause after each row that moves the watermark: the session is delivered before its late rows arrive
		res := runWindow(c.SQL, rows, runOpts{Opts: eng.Opts{}, Expect: -1, PaceFn: func(i int) {
			if k, _ := rows[i]["k1"].(string); k == "zz" {
				time.Sleep(80 * time.Millisecond)
			}
		}})
		if res.Err != nil {
			viol("groupby.execute_error", res.Err.Error())
			return
		}
		if res.Overloaded || !res.Quiescent {
			ctx.Inconclusive("c04late: overload or not quiescent")
			return
		}
		keyOf := map[int]string{}
		for _, row := range c.Rows {
			keyOf[row["id"].(int)] = row["k1"].(string)
		}
		checked := 0
		for _, d := range res.Dels {
			if len(d.Rows) != 1 {
				viol("groupby.window_key_collision", fmt.Sprintf("a session window delivered %d result rows in one batch (sessions are kept per key, one expected): a row was placed in the session of another key: %s", len(d.Rows), core.J(d.Rows)))
				return
			}
			for _, out := range d.Rows {
				k, _ := out["k1"].(string)
				ids, _ := idList(out["ids"])
				for _, x := range ids {
					if kk, ok := keyOf[x]; ok && kk != k {
						viol("groupby.different_values_merged", fmt.Sprintf("row id=%d has key %q but is aggregated in the result of key %q (delivery %d: %s)", x, kk, k, d.Index, core.J(d.Rows)))
						return
					}
				}
				checked++
			}
		}
		ctx.Count("late.result_rows_checked", int64(checked))
		ctx.Case(c.SQL+core.J(c.Rows), checked >= 3, nil)
	})
}
