package checks

import (
	"encoding/json"
	"fmt"
	"math"
	"sort"
	"strconv"
	"strings"
)

// Reference definitions for C03, written from docs/FUNCTIONS_USAGE_GUIDE.md (aggregate section) and
// the property statement.  Nothing here calls the engine.

// c03Cell is the value an aggregate argument takes on one row.
//
//	present=false : the column (or the nested leaf) does not exist in the row
//	present=true, val=nil : explicit NULL, or an expression with a NULL/missing operand
type c03Cell struct {
	val     any
	present bool
}

// c03Eval evaluates the argument text on one row.  Expression arguments are evaluated per row; a
// NULL or missing operand makes the row's value NULL.
func c03Eval(arg string, row Row) c03Cell {
	switch arg {
	case "v", "w", "s", "m", "id":
		v, ok := row[arg]
		return c03Cell{v, ok}
	case "o.x":
		o, ok := row["o"].(map[string]any)
		if !ok {
			return c03Cell{nil, false}
		}
		x, ok := o["x"]
		return c03Cell{x, ok}
	}
	num := func(name string) (float64, bool) {
		c := c03Eval(name, row)
		if !c.present || c.val == nil {
			return 0, false
		}
		return toF(c.val)
	}
	bin := func(a, b string, f func(x, y float64) float64) c03Cell {
		x, ok1 := num(a)
		y, ok2 := num(b)
		if !ok1 || !ok2 {
			return c03Cell{nil, true}
		}
		return c03Cell{f(x, y), true}
	}
	un := func(a string, f func(x float64) float64) c03Cell {
		x, ok := num(a)
		if !ok {
			return c03Cell{nil, true}
		}
		return c03Cell{f(x), true}
	}
	switch arg {
	case "v*2":
		return un("v", func(x float64) float64 { return x * 2 })
	case "v+1.5":
		return un("v", func(x float64) float64 { return x + 1.5 })
	case "o.x*2":
		return un("o.x", func(x float64) float64 { return x * 2 })
	case "w*3":
		return un("w", func(x float64) float64 { return x * 3 })
	case "w-1":
		return un("w", func(x float64) float64 { return x - 1 })
	case "v-1":
		return un("v", func(x float64) float64 { return x - 1 })
	case "o.x-2.5":
		return un("o.x", func(x float64) float64 { return x - 2.5 })
	case "v+w":
		return bin("v", "w", func(x, y float64) float64 { return x + y })
	case "v-w":
		return bin("v", "w", func(x, y float64) float64 { return x - y })
	case "v*w":
		return bin("v", "w", func(x, y float64) float64 { return x * y })
	case "o.x+v":
		return bin("o.x", "v", func(x, y float64) float64 { return x + y })
	}
	panic("c03Eval: unknown argument " + arg)
}

func c03Cells(arg string, rows []Row) []c03Cell {
	out := make([]c03Cell, len(rows))
	for i, r := range rows {
		out[i] = c03Eval(arg, r)
	}
	return out
}

// c03Usable returns the non-NULL numeric inputs in arrival order.
func c03Usable(cells []c03Cell) []float64 {
	var out []float64
	for _, c := range cells {
		if c.present && c.val != nil {
			if f, ok := toF(c.val); ok {
				out = append(out, f)
			}
		}
	}
	return out
}

func c03NonNull(cells []c03Cell) []any {
	out := []any{}
	for _, c := range cells {
		if c.present && c.val != nil {
			out = append(out, c.val)
		}
	}
	return out
}

// c03Expect is what the definition allows for one result column.
type c03Expect struct {
	accept   []any   // any of these scalars (nil = NULL)
	hasRange bool    // … or any number in [lo,hi]
	lo, hi   float64 //
	scale    float64 // magnitude of the inputs, for the float tolerance
	desc     string
}

func (e c03Expect) String() string {
	s := []string{}
	for _, a := range e.accept {
		if a == nil {
			s = append(s, "NULL")
		} else {
			s = append(s, fmt.Sprint(a))
		}
	}
	out := strings.Join(s, " or ")
	if e.hasRange {
		out += fmt.Sprintf(" or any value in [%v,%v]", e.lo, e.hi)
	}
	if e.desc != "" {
		out += " (" + e.desc + ")"
	}
	return out
}

// c03Close compares two floats with a relative tolerance of 1e-9 plus 1e-9 of the input magnitude.
func c03Close(a, b, scale float64) bool {
	if math.IsNaN(a) || math.IsNaN(b) || math.IsInf(a, 0) || math.IsInf(b, 0) {
		return false
	}
	if a == b {
		return true
	}
	d := math.Abs(a - b)
	return d <= 1e-9*math.Max(math.Abs(a), math.Abs(b)) || d <= 1e-9*scale || d <= 1e-12
}

func (e c03Expect) matches(got any) bool {
	if got == nil {
		for _, a := range e.accept {
			if a == nil {
				return true
			}
		}
		return false
	}
	g, isNum := toF(got)
	for _, a := range e.accept {
		if a == nil {
			continue
		}
		if f, ok := toF(a); ok {
			if isNum && c03Close(g, f, e.scale) {
				return true
			}
			continue
		}
		if !isNum && tkey(a) == tkey(got) {
			return true
		}
	}
	if e.hasRange && isNum && !math.IsNaN(g) {
		tol := 1e-9 * math.Max(e.scale, 1)
		return g >= e.lo-tol && g <= e.hi+tol
	}
	return false
}

// c03VarScale gives the tolerance scales (c03Close allows 1e-9·scale) for a variance and a standard
// deviation of n inputs of magnitude ma and spread sd.  The guide documents Welford's algorithm, whose
// error is about n·eps·ma·sd: far below the spread even when the inputs share a large offset (epoch-like
// readings 1.7e9+k·0.5).  A tolerance proportional to ma² would hide the catastrophic cancellation of a
// one-pass sum-of-squares formula, which returns 0 or garbage for such inputs.
func c03VarScale(n int, ma, sd float64) (varScale, sdScale float64) {
	varScale = 1.5e-5*float64(n)*ma*sd + 1e-3*ma
	sdScale = varScale
	if sd > 0 {
		sdScale = varScale / (2 * sd)
	}
	return
}

func c03Sum(xs []float64) float64 {
	s := 0.0
	for _, x := range xs {
		s += x
	}
	return s
}

func c03SqDev(xs []float64) float64 {
	m := c03Sum(xs) / float64(len(xs))
	s := 0.0
	for _, x := range xs {
		s += (x - m) * (x - m)
	}
	return s
}

func c03MaxAbs(xs []float64) float64 {
	m := 0.0
	for _, x := range xs {
		m = math.Max(m, math.Abs(x))
	}
	return m
}

// c03Scalar is the definition of the scalar-valued aggregates (everything except collect,
// deduplicate, merge_agg).
//
// Undefined cases and what is accepted for them:
//   - stddev/var/median/percentile over no usable input: NULL or 0 (the statement fixes NULL only for
//     sum/avg/min/max); NaN/Inf are not accepted.
//   - stddevs/vars over fewer than two usable inputs (n-1 = 0): NULL or 0.
//   - percentile(x,p): any value between the two order statistics around p·(n-1), or the nearest-rank
//     value sorted[ceil(p·n)-1].
//   - first_value/last_value: the first/last row that has the field (an explicit NULL is reported);
//     when the edge row itself lacks the field altogether, NULL is accepted as well.
//     For an expression argument (where "explicit NULL" has no meaning) both the edge row's value and
//     the first/last non-NULL value are accepted.
//   - nth_value(x,k): the k-th row's value, the k-th row having the field, or the k-th non-NULL value
//     (the guide says "the N-th row", the statement says NULLs are skipped); NULL beyond the end.
func c03Scalar(it *c03Item, rows []Row) c03Expect {
	if it.Shape == "star" {
		return c03Expect{accept: []any{float64(len(rows))}, desc: "rows"}
	}
	if it.Fn == "sumdiff" {
		xa, xb := c03Usable(c03Cells(it.Arg, rows)), c03Usable(c03Cells(it.Arg2, rows))
		if len(xa) == 0 || len(xb) == 0 {
			// one of the sums is NULL: the statement does not say what arithmetic over a NULL aggregate gives
			return c03Expect{accept: []any{nil}, hasRange: true, lo: -math.MaxFloat64, hi: math.MaxFloat64, desc: "a NULL sum inside an arithmetic item: unconstrained"}
		}
		sa := 0.0
		for _, x := range append(append([]float64{}, xa...), xb...) {
			sa += math.Abs(x)
		}
		return c03Expect{accept: []any{c03Sum(xa) - c03Sum(xb)}, scale: sa, desc: "sum(" + it.Arg + ") - sum(" + it.Arg2 + "), each argument evaluated per row"}
	}
	return c03ScalarCells(it, c03Cells(it.Arg, rows))
}

func c03ScalarCells(it *c03Item, cells []c03Cell) c03Expect {
	xs := c03Usable(cells)
	n := len(xs)
	ma := c03MaxAbs(xs)
	null := []any{nil}
	nullOrZero := []any{nil, 0.0}
	switch it.Fn {
	case "count":
		cnt := 0
		for _, c := range cells {
			if c.present && c.val != nil {
				cnt++
			}
		}
		return c03Expect{accept: []any{float64(cnt)}, desc: "non-NULL inputs"}
	case "sum":
		if n == 0 {
			return c03Expect{accept: null, desc: "no usable input"}
		}
		sa := 0.0
		for _, x := range xs {
			sa += math.Abs(x)
		}
		return c03Expect{accept: []any{c03Sum(xs)}, scale: sa}
	case "avg":
		if n == 0 {
			return c03Expect{accept: null, desc: "no usable input"}
		}
		return c03Expect{accept: []any{c03Sum(xs) / float64(n)}, scale: ma}
	case "min", "max":
		if n == 0 {
			return c03Expect{accept: null, desc: "no usable input"}
		}
		m := xs[0]
		for _, x := range xs {
			if (it.Fn == "min" && x < m) || (it.Fn == "max" && x > m) {
				m = x
			}
		}
		return c03Expect{accept: []any{m}}
	case "var", "stddev":
		if n == 0 {
			return c03Expect{accept: nullOrZero, desc: "no usable input"}
		}
		v := c03SqDev(xs) / float64(n)
		vs, ss := c03VarScale(n, ma, math.Sqrt(v))
		if it.Fn == "stddev" {
			return c03Expect{accept: []any{math.Sqrt(v)}, scale: ss, desc: "population, n"}
		}
		return c03Expect{accept: []any{v}, scale: vs, desc: "population, n"}
	case "vars", "stddevs":
		if n < 2 {
			return c03Expect{accept: nullOrZero, desc: "fewer than two usable inputs"}
		}
		v := c03SqDev(xs) / float64(n-1)
		vs, ss := c03VarScale(n, ma, math.Sqrt(v))
		if it.Fn == "stddevs" {
			return c03Expect{accept: []any{math.Sqrt(v)}, scale: ss, desc: "sample, n-1"}
		}
		return c03Expect{accept: []any{v}, scale: vs, desc: "sample, n-1"}
	case "pspread":
		if n == 0 {
			return c03Expect{accept: nullOrZero, desc: "no usable input"}
		}
		lo, hi := xs[0], xs[0]
		for _, x := range xs {
			lo, hi = math.Min(lo, x), math.Max(hi, x)
		}
		return c03Expect{accept: []any{hi - lo}, scale: ma, desc: "percentile(x,1) - percentile(x,0) = max - min"}
	case "median":
		if n == 0 {
			return c03Expect{accept: nullOrZero, desc: "no usable input"}
		}
		s := append([]float64(nil), xs...)
		sort.Float64s(s)
		if n%2 == 1 {
			return c03Expect{accept: []any{s[n/2]}}
		}
		return c03Expect{accept: []any{(s[n/2-1] + s[n/2]) / 2}, scale: ma, desc: "mean of the two middle values"}
	case "percentile":
		if n == 0 {
			return c03Expect{accept: nullOrZero, desc: "no usable input"}
		}
		s := append([]float64(nil), xs...)
		sort.Float64s(s)
		h := it.P * float64(n-1)
		lo, hi := int(math.Floor(h+1e-12)), int(math.Ceil(h-1e-12))
		if hi < lo {
			hi = lo
		}
		nr := int(math.Ceil(it.P*float64(n)-1e-12)) - 1
		if nr < 0 {
			nr = 0
		}
		if nr >= n {
			nr = n - 1
		}
		return c03Expect{accept: []any{s[nr]}, hasRange: true, lo: s[lo], hi: s[hi], scale: ma, desc: "interpolation interval or nearest rank"}
	case "first_value", "last_value":
		cs := cells
		if it.Fn == "last_value" {
			cs = make([]c03Cell, len(cells))
			for i, c := range cells {
				cs[len(cells)-1-i] = c
			}
		}
		acc := []any{}
		if it.Shape == "expr" {
			acc = append(acc, cs[0].val)
			var nn any
			for _, c := range cs {
				if c.val != nil {
					nn = c.val
					break
				}
			}
			acc = append(acc, nn)
			return c03Expect{accept: acc, desc: "edge row's value or nearest non-NULL value"}
		}
		var v any
		for _, c := range cs {
			if c.present {
				v = c.val
				break
			}
		}
		acc = append(acc, v)
		if !cs[0].present {
			acc = append(acc, nil)
		}
		return c03Expect{accept: acc, desc: "edge-most row having the field, explicit NULL reported"}
	case "nth_value":
		k := it.Nth
		acc := []any{}
		if k <= len(cells) {
			acc = append(acc, cells[k-1].val)
		} else {
			acc = append(acc, nil)
		}
		var pres, nn []any
		for _, c := range cells {
			if c.present {
				pres = append(pres, c.val)
				if c.val != nil {
					nn = append(nn, c.val)
				}
			}
		}
		if k <= len(pres) {
			acc = append(acc, pres[k-1])
		} else {
			acc = append(acc, nil)
		}
		if k <= len(nn) {
			acc = append(acc, nn[k-1])
		} else {
			acc = append(acc, nil)
		}
		return c03Expect{accept: acc, desc: "k-th row / k-th row having the field / k-th non-NULL value"}
	}
	panic("c03Scalar: " + it.Fn)
}

// ---- list-valued and merge functions --------------------------------------------------------

// c03AsList converts a result into a list of elements.
func c03AsList(v any) ([]any, bool) {
	switch x := v.(type) {
	case []any:
		return x, true
	case []float64:
		out := make([]any, len(x))
		for i, e := range x {
			out[i] = e
		}
		return out, true
	case []int:
		out := make([]any, len(x))
		for i, e := range x {
			out[i] = e
		}
		return out, true
	case []string:
		out := make([]any, len(x))
		for i, e := range x {
			out[i] = e
		}
		return out, true
	}
	return nil, false
}

func c03ElemEq(a, b any) bool {
	if a == nil || b == nil {
		return a == nil && b == nil
	}
	fa, oka := toF(a)
	fb, okb := toF(b)
	if oka != okb {
		return false
	}
	if oka {
		return c03Close(fa, fb, math.Max(math.Abs(fa), math.Abs(fb)))
	}
	return c03DeepEq(a, b)
}

func c03ListEq(a, b []any) bool {
	if len(a) != len(b) {
		return false
	}
	for i := range a {
		if !c03ElemEq(a[i], b[i]) {
			return false
		}
	}
	return true
}

// c03DeepEq compares two engine results structurally (numbers by value).
func c03DeepEq(a, b any) bool {
	if a == nil || b == nil {
		return a == nil && b == nil
	}
	if fa, ok := toF(a); ok {
		fb, ok2 := toF(b)
		if !ok2 {
			return false
		}
		if math.IsNaN(fa) || math.IsNaN(fb) {
			return math.IsNaN(fa) && math.IsNaN(fb)
		}
		return fa == fb || c03Close(fa, fb, 0)
	}
	if la, ok := c03AsList(a); ok {
		lb, ok2 := c03AsList(b)
		if !ok2 || len(la) != len(lb) {
			return false
		}
		for i := range la {
			if !c03DeepEq(la[i], lb[i]) {
				return false
			}
		}
		return true
	}
	if ma, ok := a.(map[string]any); ok {
		mb, ok2 := b.(map[string]any)
		if !ok2 || len(ma) != len(mb) {
			return false
		}
		for k, v := range ma {
			w, ok := mb[k]
			if !ok || !c03DeepEq(v, w) {
				return false
			}
		}
		return true
	}
	return tkey(a) == tkey(b)
}

// c03Distinct returns the distinct elements of xs in first-occurrence order (numbers by value).
func c03Distinct(xs []any) []any {
	seen := map[string]bool{}
	out := []any{}
	for _, x := range xs {
		k := tkey(x)
		if !seen[k] {
			seen[k] = true
			out = append(out, x)
		}
	}
	return out
}

// c03CheckList decides collect and deduplicate.  Returned verdict: "" ok, "wrong_value", or
// "null_kept" (the result is the definition applied without skipping NULL/missing inputs).
//
//	collect(x)              values in arrival order, NULL/missing skipped
//	deduplicate(x[, true])  distinct values in first-occurrence order ("true" = return all results)
//	deduplicate(x, false)   the guide does not say what "not all results" is, so only: a
//	                        duplicate-free list of values of the batch
func c03CheckList(it *c03Item, rows []Row, got any) (verdict, want string) {
	cells := c03Cells(it.Arg, rows)
	strict := c03NonNull(cells)
	var keptAll, keptPresent []any
	for _, c := range cells {
		keptAll = append(keptAll, c.val)
		if c.present {
			keptPresent = append(keptPresent, c.val)
		}
	}
	list, ok := c03AsList(got)
	if it.Fn == "deduplicate" {
		strict, keptAll, keptPresent = c03Distinct(strict), c03Distinct(keptAll), c03Distinct(keptPresent)
	}
	want = c03Show(strict)
	if !ok {
		if got == nil && len(strict) == 0 {
			return "", want // NULL for "no values" is as good as []
		}
		return "wrong_value", want
	}
	if it.Fn == "deduplicate" && it.Flag == "false" {
		want = "a duplicate-free list of values of the batch"
		seen := map[string]bool{}
		pool := map[string]bool{}
		for _, x := range keptAll {
			pool[tkey(x)] = true
		}
		for _, g := range list {
			k := tkey(g)
			if seen[k] || !pool[k] {
				return "wrong_value", want
			}
			seen[k] = true
		}
		return "", want
	}
	if c03ListEq(list, strict) {
		return "", want
	}
	if c03ListEq(list, keptAll) || c03ListEq(list, keptPresent) {
		return "null_kept", want
	}
	return "wrong_value", want
}

func c03Show(v any) string {
	b, err := json.Marshal(v)
	if err != nil {
		return fmt.Sprint(v)
	}
	return string(b)
}

// c03TokenEq compares one comma-separated token of merge_agg with a value.
func c03TokenEq(tok string, v any) bool {
	if f, ok := toF(v); ok {
		g, err := strconv.ParseFloat(strings.TrimSpace(tok), 64)
		return err == nil && c03Close(f, g, math.Abs(f))
	}
	if s, ok := v.(string); ok {
		return tok == s
	}
	return tok == fmt.Sprint(v)
}

// c03CheckMerge decides merge_agg: "for objects, merge all key/value pairs; for other types, join
// with commas".  NULL/missing inputs are skipped; no input ⇒ NULL or "".  For objects a key present
// in several rows may carry any of those rows' values (the guide does not say which wins).
func c03CheckMerge(it *c03Item, rows []Row, got any) (verdict, want string) {
	cells := c03Cells(it.Arg, rows)
	strict := c03NonNull(cells)
	if it.Shape == "map" {
		cand := map[string][]any{}
		for _, v := range strict {
			if m, ok := v.(map[string]any); ok {
				for k, x := range m {
					cand[k] = append(cand[k], x)
				}
			}
		}
		last := map[string]any{}
		for k, xs := range cand {
			last[k] = xs[len(xs)-1]
		}
		want = "object " + c03Show(last) + " (per key any of the batch's values)"
		if len(strict) == 0 {
			want = "NULL, \"\" or {}"
			if got == nil || got == "" {
				return "", want
			}
		}
		gm, ok := got.(map[string]any)
		if !ok {
			if s, isStr := got.(string); isStr {
				var parsed map[string]any
				if json.Unmarshal([]byte(s), &parsed) == nil {
					gm, ok = parsed, true
				}
			}
		}
		if !ok || len(gm) != len(cand) {
			return "wrong_value", want
		}
		for k, x := range gm {
			hit := false
			for _, c := range cand[k] {
				if c03ElemEq(x, c) {
					hit = true
				}
			}
			if !hit {
				return "wrong_value", want
			}
		}
		return "", want
	}
	toks := func(vals []any) string {
		p := make([]string, len(vals))
		for i, v := range vals {
			p[i] = fmt.Sprint(v)
		}
		return strings.Join(p, ",")
	}
	want = strconv.Quote(toks(strict))
	if len(strict) == 0 {
		want = "NULL or \"\""
		if got == nil || got == "" {
			return "", want
		}
	}
	match := func(vals []any, nullTok func(string) bool) bool {
		s, ok := got.(string)
		if !ok {
			return len(vals) == 1 && vals[0] != nil && c03ElemEq(got, vals[0])
		}
		if len(vals) == 0 {
			return s == ""
		}
		parts := strings.Split(s, ",")
		if len(parts) != len(vals) {
			return false
		}
		for i, v := range vals {
			if v == nil {
				if !nullTok(parts[i]) {
					return false
				}
				continue
			}
			if !c03TokenEq(parts[i], v) {
				return false
			}
		}
		return true
	}
	if len(strict) > 0 && match(strict, nil) {
		return "", want
	}
	isNullTok := func(t string) bool { return t == "" || t == "null" || t == "<nil>" || t == "NULL" }
	var keptAll, keptPresent []any
	hasNull := false
	for _, c := range cells {
		keptAll = append(keptAll, c.val)
		if c.present {
			keptPresent = append(keptPresent, c.val)
		}
		if c.val == nil {
			hasNull = true
		}
	}
	if hasNull && (match(keptAll, isNullTok) || match(keptPresent, isNullTok)) {
		return "null_kept", want
	}
	return "wrong_value", want
}

// ---- classification of a wrong value (Attrs["got"]) ------------------------------------------
//
// A refuted value is compared with a few *wrong* models so that a known-findings entry can name one
// specific defect without hiding other wrong values of the same function:
//
//	sample_formula        stddev computed with n-1
//	null_operand_as_zero  `a+b` with an explicit NULL operand evaluated as the other operand
//	                      (a row with a missing operand is NULL, two NULL operands give a non-numeric value)
//	comma_joined_json     merge_agg over objects: the objects' JSON texts joined with commas instead of one merged object
//	null | zero | empty_list | other
//
// The classification never influences the verdict.

func c03AltPlusCells(rows []Row) []c03Cell {
	out := make([]c03Cell, len(rows))
	for i, r := range rows {
		a, b := c03Eval("v", r), c03Eval("w", r)
		switch {
		case !a.present || !b.present:
			out[i] = c03Cell{nil, true}
		case a.val == nil && b.val == nil:
			out[i] = c03Cell{"", true}
		default:
			s := 0.0
			for _, c := range []c03Cell{a, b} {
				if f, ok := toF(c.val); ok {
					s += f
				}
			}
			out[i] = c03Cell{s, true}
		}
	}
	return out
}

func c03LooseElemEq(got, want any) bool {
	if s, ok := got.(string); ok {
		if w, isNum := toF(want); isNum {
			g, err := strconv.ParseFloat(s, 64)
			return err == nil && c03Close(g, w, math.Abs(w))
		}
	}
	return c03ElemEq(got, want)
}

func c03Classify(it *c03Item, rows []Row, got any) string {
	type model struct {
		name  string
		cells []c03Cell
		fn    string
	}
	var models []model
	if it.Shape == "expr" {
		// constant results of the parameterised functions over an expression take precedence over a
		// coincidental match with a wrong model
		if f, ok := toF(got); ok && f == 0 && it.Fn == "percentile" {
			return "zero"
		}
		if got == nil && it.Fn == "nth_value" {
			return "null"
		}
	}
	if it.Shape != "star" {
		strict := c03Cells(it.Arg, rows)
		if it.Fn == "stddev" {
			models = append(models, model{"sample_formula", strict, "stddevs"})
		}
		if it.Arg == "v+w" {
			alt := c03AltPlusCells(rows)
			models = append(models, model{"null_operand_as_zero", alt, it.Fn})
			if it.Fn == "stddev" {
				models = append(models, model{"null_operand_as_zero+sample_formula", alt, "stddevs"})
			}
		}
	}
	for _, m := range models {
		switch it.Fn {
		case "collect", "deduplicate":
			list, ok := c03AsList(got)
			if !ok {
				continue
			}
			var kept, strict []any
			for _, c := range m.cells {
				kept = append(kept, c.val)
				if c.val != nil {
					strict = append(strict, c.val)
				}
			}
			if it.Fn == "deduplicate" {
				kept, strict = c03Distinct(kept), c03Distinct(strict)
			}
			for _, want := range [][]any{kept, strict} {
				if len(want) != len(list) {
					continue
				}
				same := true
				for i := range want {
					same = same && c03LooseElemEq(list[i], want[i])
				}
				if same {
					return m.name
				}
			}
		case "merge_agg":
		default:
			it2 := *it
			it2.Fn = m.fn
			exp := c03ScalarCells(&it2, m.cells)
			g := got
			if s, ok := got.(string); ok {
				if f, err := strconv.ParseFloat(s, 64); err == nil {
					g = f
				}
			}
			if exp.matches(g) {
				return m.name
			}
		}
	}
	if str, ok := got.(string); ok && it.Fn == "merge_agg" && it.Shape == "map" {
		var objs []any
		if json.Unmarshal([]byte("["+str+"]"), &objs) == nil {
			want := c03NonNull(c03Cells(it.Arg, rows))
			if len(objs) == len(want) {
				same := true
				for i := range objs {
					same = same && c03DeepEq(objs[i], want[i])
				}
				if same {
					return "comma_joined_json"
				}
			}
		}
	}
	if got == nil {
		return "null"
	}
	if f, ok := toF(got); ok && f == 0 {
		return "zero"
	}
	if l, ok := c03AsList(got); ok && len(l) == 0 {
		return "empty_list"
	}
	return "other"
}
