package checks

import (
	"fmt"
	"strings"
	"sync"
	"sync/atomic"
	"time"

	"github.com/rulego/streamsql"
	"github.com/rulego/streamsql/stream"

	"verif/internal/core"
	"verif/internal/eng"
)

const c16BarrierBase = 1000000

// c16Sink records what the synchronous sink received (async and agg modes).
type c16Sink struct {
	mu       sync.Mutex
	byID     map[int][]Row // direct mode: result rows per stream id
	agg      []Row         // agg mode: every result row in delivery order
	maxBar   int64         // highest barrier id seen in any result
	received int64
}

func (k *c16Sink) attach(s *streamsql.Streamsql, c *c16Case) {
	k.byID = map[int][]Row{}
	idCol := c.out["id"]
	s.AddSyncSink(func(batch []map[string]any) {
		k.mu.Lock()
		defer k.mu.Unlock()
		for _, m := range batch {
			row := eng.DeepCopyMap(m)
			atomic.AddInt64(&k.received, 1)
			if c.Mode == "agg" {
				k.agg = append(k.agg, row)
				ids, _ := idList(row["ids"])
				for _, id := range ids {
					if int64(id) > atomic.LoadInt64(&k.maxBar) && id >= c16BarrierBase {
						atomic.StoreInt64(&k.maxBar, int64(id))
					}
				}
				continue
			}
			n, ok := toI(row[idCol])
			if !ok {
				n = -1
			}
			k.byID[int(n)] = append(k.byID[int(n)], row)
			if n >= c16BarrierBase && n > atomic.LoadInt64(&k.maxBar) {
				atomic.StoreInt64(&k.maxBar, n)
			}
		}
	})
}

func (k *c16Sink) waitBarrier(id int, max time.Duration) bool {
	deadline := time.Now().Add(max)
	for atomic.LoadInt64(&k.maxBar) < int64(id) {
		if time.Now().After(deadline) {
			return false
		}
		time.Sleep(100 * time.Microsecond)
	}
	return true
}

// feedRow is the row as the caller sends it: a private copy, plus (Collide) a payload field whose name equals
// the table qualifier of the statement.
func (c *c16Case) feedRow(row Row) Row {
	cp := c16Copy(row)
	if c.Collide {
		cp[c.T] = fmt.Sprintf("payload-%v", row["id"])
	}
	return cp
}

func c16Copy(row Row) Row {
	cp := make(Row, len(row))
	for k, v := range row {
		cp[k] = v
	}
	return cp
}

// c16Safe runs one call into the engine and turns a panic into an error.
func c16Safe(f func() error) (err error, panicked bool) {
	defer func() {
		if r := recover(); r != nil {
			err, panicked = fmt.Errorf("PANIC: %v", r), true
		}
	}()
	return f(), false
}

type c16Pending struct {
	row Row
	exp c16Expect
	key []any
}

func execC16(ctx *core.Ctx, c *c16Case) {
	attrs := map[string]string{"mode": c.Mode, "join": map[bool]string{true: "LEFT", false: "INNER"}[c.Left], "ncomp": fmt.Sprint(len(c.TableKeys)),
		"aliases": c.Aliases, "where_form": c.WhereForm, "key_shape": c.Shape, "window": c.Window}
	violated := false
	viol := func(kind, detail string, extra map[string]string) {
		violated = true
		a := map[string]string{}
		for k, v := range attrs {
			a[k] = v
		}
		for k, v := range extra {
			a[k] = v
		}
		ctx.Violate(core.Violation{Kind: kind, Attrs: a, Detail: detail + "\nSQL: " + c.SQL, Case: c})
	}
	sig := c.SQL + core.J(c.Init) + core.J(c.Ops)
	s, err := eng.New(c.SQL, eng.Opts{})
	if err != nil {
		kind := "join.execute_error"
		if strings.Contains(err.Error(), "PANIC") {
			kind = "join.panic"
		}
		viol(kind, err.Error(), nil)
		ctx.Case(sig, false, nil)
		return
	}
	defer s.Stop()
	table := newC16Table(c.TableKeys)
	var initRows []map[string]any
	for _, row := range c.Init {
		initRows = append(initRows, c16Copy(row))
		table.upsert(row)
	}
	if c.Mode != "sync" && c.barrier != nil {
		initRows = append(initRows, c16Copy(c.barrier))
	}
	var src *stream.MemoryTableSource
	err, _ = c16Safe(func() error {
		var e error
		if c.ExplicitKF {
			src, e = s.RegisterTable("meta", initRows, c.TableKeys...)
		} else {
			src, e = s.RegisterTable("meta", initRows)
		}
		return e
	})
	if err != nil || src == nil {
		viol("join.register_error", fmt.Sprintf("RegisterTable failed: %v", err), nil)
		ctx.Case(sig, false, nil)
		return
	}
	sink := &c16Sink{}
	if c.Mode != "sync" {
		sink.attach(s, c)
	}
	var (
		pend       []c16Pending // emits whose outcome is read from the sink (async/agg)
		sinceBar   int
		nextBar    = c16BarrierBase
		lastSeen   = map[string]string{} // stream tuple -> version expected at the previous lookup ("-" none)
		matched    int
		unmatched  int
		changed    int
		free       int
		rowsOK     int
		colsOK     int
		barrierBad bool
	)
	barrier := func() bool {
		if sinceBar == 0 {
			return true
		}
		n := 1
		if c.Mode == "agg" {
			n = c.N
		}
		last := 0
		for i := 0; i < n; i++ {
			nextBar++
			last = nextBar
			row := c.feedRow(c.barrierRow(last))
			_, _ = c16Safe(func() error { s.Emit(row); return nil })
		}
		want := last
		if c.Mode == "agg" {
			want = last - n + 1 // any barrier row of this round proves that the earlier rows were processed
		}
		sinceBar = 0
		return sink.waitBarrier(want, 20*time.Second)
	}
	for opIdx, op := range c.Ops {
		if violated || barrierBad {
			break
		}
		switch op.Kind {
		case "emit":
			key := make([]any, len(c.StreamKeys))
			for i, k := range c.StreamKeys {
				key[i] = op.Row[k]
			}
			exp := c16Expected(table, c.Left, c.where, op.Row, c.StreamKeys)
			tk, _ := c16Tuple(key)
			switch {
			case exp.Free:
				free++
			case exp.Match != nil:
				matched++
			default:
				unmatched++
			}
			if !exp.Free {
				now := "-"
				if exp.Match != nil {
					now = exp.Match.ver
				}
				if prev, ok := lastSeen[tk]; ok && prev != now {
					changed++
				}
				lastSeen[tk] = now
			}
			if c.Mode == "sync" {
				var got map[string]any
				err, panicked := c16Safe(func() error {
					var e error
					got, e = s.EmitSync(c.feedRow(op.Row))
					return e
				})
				if err != nil {
					kind := "join.emit_error"
					if panicked {
						kind = "join.panic"
					}
					viol(kind, fmt.Sprintf("op %d: EmitSync(%v) failed: %v", opIdx, op.Row, err), nil)
					break
				}
				if kind, detail, extra := c16CheckDirect(c, table, exp, op.Row, key, got); kind != "" {
					viol(kind, fmt.Sprintf("op %d: %s", opIdx, detail), extra)
				} else if !exp.Free {
					rowsOK++
					colsOK += len(c.out)
				}
			} else {
				row := c.feedRow(op.Row)
				_, _ = c16Safe(func() error { s.Emit(row); return nil })
				pend = append(pend, c16Pending{row: op.Row, exp: exp, key: key})
				sinceBar++
			}
		case "upsert", "upsert_api", "delete", "reload":
			if c.Mode != "sync" && !barrier() {
				barrierBad = true
				break
			}
			var err error
			switch op.Kind {
			case "upsert":
				err, _ = c16Safe(func() error { src.Upsert(c16Copy(op.Row)); return nil })
				table.upsert(op.Row)
			case "upsert_api":
				err, _ = c16Safe(func() error { return s.UpsertTable("meta", c16Copy(op.Row)) })
				table.upsert(op.Row)
			case "reload":
				var rows []map[string]any
				for _, k := range table.liveKeys() {
					rows = append(rows, c16Copy(table.live[k].row))
				}
				if c.Mode != "sync" && c.barrier != nil {
					rows = append(rows, c16Copy(c.barrier))
				}
				err, _ = c16Safe(func() error {
					var nsrc *stream.MemoryTableSource
					var e error
					if c.ExplicitKF {
						nsrc, e = s.RegisterTable("meta", rows, c.TableKeys...)
					} else {
						nsrc, e = s.RegisterTable("meta", rows)
					}
					if e == nil && nsrc != nil {
						src = nsrc
					}
					return e
				})
				ctx.Count("seq.table_reloads", 1)
			case "delete":
				var k any = append([]any{}, op.Key...)
				if len(op.Key) == 1 && opIdx%2 == 0 {
					k = op.Key[0] // single-key tables accept the bare value too
				}
				err, _ = c16Safe(func() error { src.Delete(k); return nil })
				table.del(op.Key)
			}
			if err != nil {
				kind := "join.table_update_error"
				if strings.Contains(err.Error(), "PANIC") {
					kind = "join.panic"
				}
				viol(kind, fmt.Sprintf("op %d: %s %v failed: %v", opIdx, op.Kind, op, err), nil)
			}
		}
	}
	if c.Mode != "sync" && !violated && !barrierBad && !barrier() {
		barrierBad = true
	}
	ctx.Count("seq.rows_emitted", int64(matched+unmatched+free))
	ctx.Count("seq.lookups_matched", int64(matched))
	ctx.Count("seq.lookups_unmatched", int64(unmatched))
	ctx.Count("seq.lookups_null_unconstrained", int64(free))
	ctx.Count("seq.lookups_changed_by_update", int64(changed))
	ctx.Count("seq.mode."+c.Mode, 1)
	if barrierBad {
		// the barrier row is an ordinary row that the query must output; its absence is a verdict only
		// when the engine has nothing left to do
		st := s.GetStats()
		if st["data_chan_len"] == 0 && st["input_dropped_count"] == 0 && st["output_dropped_count"] == 0 {
			viol("join.result_missing", fmt.Sprintf("barrier row %v (reserved key, table row %v) was emitted but no result containing it reached the sink within 20 s although the input buffer is empty", c.barrierRow(nextBar), c.barrier), nil)
		} else {
			ctx.Inconclusive("barrier row not delivered, engine busy or overloaded")
		}
		ctx.Case(sig, false, nil)
		return
	}
	if !violated && c.Mode == "async" {
		sink.mu.Lock()
		for _, p := range pend {
			id := p.row["id"].(int)
			res := sink.byID[id]
			if len(res) > 1 {
				viol("join.row_output_twice", fmt.Sprintf("row %v produced %d results: %v", p.row, len(res), res), nil)
				break
			}
			var got Row
			if len(res) == 1 {
				got = res[0]
			}
			if kind, detail, extra := c16CheckDirect(c, table, p.exp, p.row, p.key, got); kind != "" {
				viol(kind, detail, extra)
				break
			} else if !p.exp.Free {
				rowsOK++
				colsOK += len(c.out)
			}
		}
		sink.mu.Unlock()
	}
	if !violated && c.Mode == "agg" {
		sink.mu.Lock()
		n, kind, detail, extra := c16CheckAgg(c, table, pend, sink.agg)
		sink.mu.Unlock()
		rowsOK += n
		if kind != "" {
			viol(kind, detail, extra)
		}
	}
	ctx.Count("seq.rows_checked", int64(rowsOK))
	ctx.Count("seq.columns_compared", int64(colsOK))
	nontrivial := !violated && matched >= 5 && unmatched >= 1 && changed >= 1
	var sample any
	if c.Index < 3 {
		sample = map[string]any{"sql": c.SQL, "mode": c.Mode, "initial_rows": len(c.Init), "ops": len(c.Ops), "matched": matched, "unmatched": unmatched, "changed_by_update": changed}
	}
	ctx.Case(sig, nontrivial, sample)
}

// c16CheckDirect compares one direct-mode result (nil = dropped) with the reference expectation.
func c16CheckDirect(c *c16Case, t *c16Table, exp c16Expect, srow Row, key []any, got Row) (kind, detail string, extra map[string]string) {
	kind, detail, extra = c16CheckDirectRaw(c, t, exp, srow, key, got)
	return c16Relabel(t, key, exp, kind, detail, extra)
}

// c16Relabel gives the two defects that show through many symptoms their own kind: when the stream
// tuple is one for which the ambiguous-encoding (or small-int) hypothesis applies, the violation is
// reported under that defect's kind with the observed symptom as an attribute.  Direct evidence
// (join.wrong_table_row, whose result names a table row with a different key) keeps its kind.
func c16Relabel(t *c16Table, key []any, exp c16Expect, kind, detail string, extra map[string]string) (string, string, map[string]string) {
	if kind == "" || kind == "join.wrong_table_row" || kind == "join.where_null_operand_in_or" {
		return kind, detail, extra
	}
	if extra == nil {
		extra = map[string]string{}
	}
	if exp.Match != nil {
		extra["key_types"] = c16Types(key, exp.Match.vals)
	}
	switch t.label(key) {
	case "us_tagged":
		extra["symptom"] = kind
		return "join.composite_key_confusion", detail + "\n(another stored tuple differs from this key only in where separator-like text sits)", extra
	case "small_int":
		extra["symptom"] = kind
		return "join.numeric_type_not_normalised", detail + "\n(the key, or the stored tuple with equal values, uses int8/int16/uint8/uint16)", extra
	}
	return kind, detail, extra
}

func c16CheckDirectRaw(c *c16Case, t *c16Table, exp c16Expect, srow Row, key []any, got Row) (kind, detail string, extra map[string]string) {
	if exp.Free {
		return
	}
	gotKept := len(got) > 0
	verCol := c.out["ver"]
	desc := func() string {
		m := "none"
		if exp.Match != nil {
			m = fmt.Sprint(exp.Match.row)
		}
		return fmt.Sprintf("stream row %v (key %s), reference table row: %s, engine result: %v", srow, c16Vals(key), m, got)
	}
	if gotKept {
		gver := got[verCol]
		if gver != nil {
			gv, _ := gver.(string)
			info := t.vers[gv]
			if gv == "barrier" || info == nil {
				return "join.column_wrong", "joined ver is not a version that was ever written: " + desc(), map[string]string{"column": "ver"}
			}
			if exp.Match == nil || exp.Match.ver != gv {
				sk, _ := c16Tuple(key)
				if info.key == sk {
					return "join.stale_table_state", fmt.Sprintf("the result carries version %s of the key, which an Upsert/Delete that had already returned replaced or removed: %s", gv, desc()), nil
				}
				return "join.wrong_table_row", fmt.Sprintf("matched table row %s has key %s, which differs from the stream key: %s", gv, c16Vals(info.vals), desc()),
					map[string]string{"key_diff": c16Diff(key, info.vals)}
			}
		} else if exp.Match != nil {
			return "join.missed_match", "a table row with an equal key exists but the table columns are NULL: " + desc(),
				map[string]string{"key_types": c16Types(key, exp.Match.vals)}
		}
		if !exp.Keep {
			if !exp.JoinOK {
				return "join.inner_unmatched_not_dropped", "INNER JOIN kept a row without a match: " + desc(), nil
			}
			return "join.where_not_applied", "WHERE is false for the joined row but a result was produced: " + desc(), nil
		}
		// remaining columns
		for logical, outName := range c.out {
			var want any
			switch {
			case logical == "id" || logical == "v":
				want = srow[logical]
			case strings.HasPrefix(logical, "sk:"):
				want = srow[logical[3:]]
			case strings.HasPrefix(logical, "tk:"):
				if exp.Match != nil {
					want = exp.Match.row[logical[3:]]
				}
			default:
				if exp.Match != nil {
					want = exp.Match.row[logical]
				}
			}
			if !valEq(want, got[outName]) {
				return "join.column_wrong", fmt.Sprintf("column %s = %v, expected %v: %s", outName, got[outName], want, desc()), map[string]string{"column": logical}
			}
		}
		return
	}
	if !exp.Keep {
		return
	}
	switch {
	case exp.Match != nil && !c.Left && c.where == nil:
		return "join.missed_match", "INNER JOIN dropped a row although a table row with an equal key exists: " + desc(),
			map[string]string{"key_types": c16Types(key, exp.Match.vals)}
	case c.where == nil:
		return "join.left_unmatched_dropped", "LEFT JOIN dropped a row without a match: " + desc(), nil
	case exp.NullOr:
		return "join.where_null_operand_in_or", fmt.Sprintf("WHERE %s is true (the OR's other side holds) but the row was dropped: %s", c.where.render(c.T, ""), desc()), nil
	case c.Left:
		return "join.where_wrongly_false", fmt.Sprintf("WHERE %s is true for the joined row but the row was dropped: %s", c.where.render(c.T, ""), desc()), nil
	default:
		extra = map[string]string{}
		if exp.Match != nil {
			extra["key_types"] = c16Types(key, exp.Match.vals)
		}
		return "join.matched_row_dropped", fmt.Sprintf("a table row with an equal key exists and WHERE %s is true, but the row was dropped: %s", c.where.render(c.T, ""), desc()), extra
	}
}

// c16CheckAgg checks grouping soundness of the aggregated mode: every aggregated row sits under the
// group tuple of its own joined values, dropped rows are in no result, no row is in two results,
// count(*) equals the number of collected ids, and (N=1 only) every kept row is in some result.
func c16CheckAgg(c *c16Case, t *c16Table, pend []c16Pending, results []Row) (checked int, kind, detail string, extra map[string]string) {
	var cur *c16Pending
	defer func() {
		if cur != nil && kind != "" {
			kind, detail, extra = c16Relabel(t, cur.key, cur.exp, kind, detail, extra)
		}
	}()
	byID := map[int]*c16Pending{}
	for i := range pend {
		byID[pend[i].row["id"].(int)] = &pend[i]
	}
	grpOf := func(p *c16Pending) string {
		parts := make([]string, len(c.grpCols))
		for i, g := range c.grpCols {
			var v any
			if g == "g" {
				v = p.row["g"]
			} else if p.exp.Match != nil {
				v = p.exp.Match.row[g]
			}
			parts[i] = tkey(v)
		}
		return strings.Join(parts, "\x01")
	}
	seen := map[int]bool{}
	for _, res := range results {
		ids, ok := idList(res["ids"])
		if !ok {
			return checked, "join.agg_result_unreadable", fmt.Sprintf("collect(id) unreadable in %v", res), nil
		}
		if !numEq(res["c"], len(ids)) {
			return checked, "join.agg_count_mismatch", fmt.Sprintf("count(*)=%v but collect(id)=%v in %v", res["c"], ids, res), nil
		}
		parts := make([]string, len(c.grpCols))
		for i, g := range c.grpCols {
			parts[i] = tkey(res[c.out[g]])
		}
		gk := strings.Join(parts, "\x01")
		for _, id := range ids {
			if id >= c16BarrierBase {
				continue
			}
			p := byID[id]
			if p == nil {
				return checked, "join.agg_result_unreadable", fmt.Sprintf("result %v names id %d that was never emitted", res, id), nil
			}
			cur = p
			if seen[id] {
				return checked, "join.row_in_two_results", fmt.Sprintf("row %v is aggregated in two results (second: %v)", p.row, res), nil
			}
			seen[id] = true
			if p.exp.Free {
				continue
			}
			m := "none"
			if p.exp.Match != nil {
				m = fmt.Sprint(p.exp.Match.row)
			}
			if !p.exp.Keep {
				k := "join.where_not_applied"
				if !p.exp.JoinOK {
					k = "join.inner_unmatched_not_dropped"
				}
				return checked, k, fmt.Sprintf("row %v (reference table row: %s) must be dropped before the window but is aggregated in %v", p.row, m, res), nil
			}
			if grpOf(p) != gk {
				return checked, "join.grouped_under_wrong_value", fmt.Sprintf("row %v (reference table row at processing time: %s) is aggregated under group %v", p.row, m, res), nil
			}
			checked++
		}
	}
	if c.N == 1 {
		for i := range pend {
			p := &pend[i]
			if p.exp.Free || !p.exp.Keep || seen[p.row["id"].(int)] {
				continue
			}
			cur = p
			m := "none"
			if p.exp.Match != nil {
				m = fmt.Sprint(p.exp.Match.row)
			}
			k := "join.agg_row_missing"
			extra = map[string]string{}
			if p.exp.NullOr {
				k = "join.where_null_operand_in_or"
			} else if p.exp.Match != nil {
				extra["key_types"] = c16Types(p.key, p.exp.Match.vals)
			}
			return checked, k, fmt.Sprintf("row %v (reference table row: %s) is kept by the join and WHERE but appears in no result although later rows were already delivered (N=1)", p.row, m), extra
		}
	}
	return checked, "", "", nil
}
