//go:build verif

package checks

import (
	"fmt"
	"math/rand"

	"verif/internal/core"
	"verif/internal/eng"
)

// c13aggcase: LIKE and IS [NOT] NULL inside a CASE condition that feeds an aggregate of a windowed query
// (the CASE-condition site as it is used for conditional counting).  CountingWindow(N) without a key turns
// every N consecutive rows into one batch, so the expected sums follow from the rows alone.

type c13AggCase struct {
	core.CaseRef
	SQL  string `json:"sql"`
	Cond string `json:"cond"`
	N    int    `json:"n"`
	Rows []Row  `json:"rows"`
}

func c13AggStream(ctx *core.Ctx) {
	n := ctx.N(60, 1200)
	ctx.Cases("c13aggcase", n, workers(), func(i int, r *rand.Rand) {
		c13AggOne(ctx, core.CaseRef{Stream: "c13aggcase", Index: i}, r)
	})
}

func c13AggOne(ctx *core.Ctx, ref core.CaseRef, r *rand.Rand) {
	type cond struct {
		text string
		ref  func(row Row) bool
	}
	get := func(row Row, col string) (string, bool) {
		s, ok := row[col].(string)
		return s, ok
	}
	pat := pick(r, []string{"a%", "%b", "a_", "%", "_", "a.b", "%.%"})
	re := c13LikeRef(pat)
	col := pick(r, []string{"s", "t"})
	conds := []cond{
		{col + " IS NULL", func(row Row) bool { v, ok := row[col]; return !ok || v == nil }},
		{col + " IS NOT NULL", func(row Row) bool { v, ok := row[col]; return ok && v != nil }},
		{col + " LIKE " + sqlStr(pat), func(row Row) bool { s, ok := get(row, col); return ok && re.MatchString(s) }},
		{col + " is null", func(row Row) bool { v, ok := row[col]; return !ok || v == nil }},
	}
	cd := conds[ref.Index%len(conds)]
	c := &c13AggCase{CaseRef: ref, Cond: cd.text, N: pick(r, []int{1, 1, 2, 3})}
	c.SQL = fmt.Sprintf("SELECT last_value(id) AS id, count(*) AS c, sum(CASE WHEN %s THEN 1 ELSE 0 END) AS m, max(u) IS NULL AS mn, max(u) IS NOT NULL AS mnn, max(u) IS NULL OR count(*) > 100 AS mo, NOT (max(u) IS NULL) AND count(*) > 0 AS ma FROM stream GROUP BY CountingWindow(%d)", cd.text, c.N)
	nb := 6 + r.Intn(10)
	texts := []string{"a", "ab", "b", "a.b", "", "abc", "ba", "x.y"}
	for i := 1; i <= nb*c.N; i++ {
		row := Row{"id": i}
		// some rows carry none of the columns the condition reads (only id, or id and an unrelated column)
		switch r.Intn(6) {
		case 0: // absent
		case 1:
			row[col] = nil
		default:
			row[col] = pick(r, texts)
		}
		if r.Intn(2) == 0 {
			row["u"] = r.Intn(9)
		}
		c.Rows = append(c.Rows, row)
	}
	attrs := map[string]string{"site": "case_in_aggregate", "cond": map[bool]string{true: "like", false: "isnull"}[ref.Index%len(conds) == 2]}
	res := runWindow(c.SQL, c.Rows, runOpts{Opts: eng.Opts{}, Expect: nb})
	if res.Err != nil {
		ctx.Violate(core.Violation{Kind: "aggcase.execute_error", Attrs: attrs, Detail: res.Err.Error() + "\n  sql: " + c.SQL, Case: c})
		return
	}
	if res.Overloaded || !res.Quiescent {
		ctx.Inconclusive("aggcase: overload or not quiescent")
		return
	}
	byLast := map[int]Row{}
	for _, d := range res.Dels {
		for _, out := range d.Rows {
			if id, ok := toI(out["id"]); ok {
				byLast[int(id)] = out
			}
		}
	}
	nT := 0
	for b := 0; b < nb; b++ {
		want, bare := 0, 0
		anyU := false
		for _, row := range c.Rows[b*c.N : (b+1)*c.N] {
			if v, ok := row["u"]; ok && v != nil {
				anyU = true
			}
			if cd.ref(row) {
				want++
				nT++
			}
			if _, has := row[col]; !has {
				bare++
			}
		}
		out, ok := byLast[(b+1)*c.N]
		if !ok {
			ctx.Violate(core.Violation{Kind: "aggcase.batch_missing", Attrs: attrs, Detail: fmt.Sprintf("no result for rows %d..%d\n  sql: %s", b*c.N+1, (b+1)*c.N, c.SQL), Case: c})
			return
		}
		ctx.Count("aggcase.batches_checked", 1)
		ctx.Count("aggcase.rows_without_the_column", int64(bare))
		if gn, ok1 := out["mn"].(bool); !ok1 || gn != !anyU {
			a2 := map[string]string{"site": "select_over_aggregate", "cond": "isnull"}
			ctx.Violate(core.Violation{Kind: "aggselect.wrong_answer", Attrs: a2,
				Detail: fmt.Sprintf("batch of rows %d..%d: `max(u) IS NULL` = %#v (and `max(u) IS NOT NULL` = %#v), expected %v / %v: u is %s in the batch %s\n  sql: %s",
					b*c.N+1, (b+1)*c.N, out["mn"], out["mnn"], !anyU, anyU, map[bool]string{true: "present", false: "absent or NULL everywhere"}[anyU], core.J(c.Rows[b*c.N:(b+1)*c.N]), c.SQL), Case: c})
			return
		}
		if gnn, ok2 := out["mnn"].(bool); !ok2 || gnn != anyU {
			a2 := map[string]string{"site": "select_over_aggregate", "cond": "isnotnull"}
			ctx.Violate(core.Violation{Kind: "aggselect.wrong_answer", Attrs: a2,
				Detail: fmt.Sprintf("batch of rows %d..%d: `max(u) IS NOT NULL` = %#v, expected %v\n  sql: %s", b*c.N+1, (b+1)*c.N, out["mnn"], anyU, c.SQL), Case: c})
			return
		}
		if go1, ok := out["mo"].(bool); !ok || go1 != !anyU {
			ctx.Violate(core.Violation{Kind: "aggselect.wrong_answer", Attrs: map[string]string{"site": "select_over_aggregate", "cond": "isnull_or"},
				Detail: fmt.Sprintf("batch of rows %d..%d: `max(u) IS NULL OR count(*) > 100` = %#v, expected %v\n  sql: %s", b*c.N+1, (b+1)*c.N, out["mo"], !anyU, c.SQL), Case: c})
			return
		}
		if ga, ok := out["ma"].(bool); !ok || ga != anyU {
			ctx.Violate(core.Violation{Kind: "aggselect.wrong_answer", Attrs: map[string]string{"site": "select_over_aggregate", "cond": "not_isnull_and"},
				Detail: fmt.Sprintf("batch of rows %d..%d: `NOT (max(u) IS NULL) AND count(*) > 0` = %#v, expected %v\n  sql: %s", b*c.N+1, (b+1)*c.N, out["ma"], anyU, c.SQL), Case: c})
			return
		}
		if !numEq(out["m"], want) {
			ctx.Violate(core.Violation{Kind: "aggcase.wrong_count", Attrs: attrs,
				Detail: fmt.Sprintf("batch of rows %d..%d: sum(CASE WHEN %s THEN 1 ELSE 0 END) = %v, the condition is true for %d of its %d rows (%d of them carry no column %s at all): rows %s\n  sql: %s",
					b*c.N+1, (b+1)*c.N, cd.text, out["m"], want, c.N, bare, col, core.J(c.Rows[b*c.N:(b+1)*c.N]), c.SQL), Case: c})
			return
		}
	}
	_ = nT
	ctx.Case("aggcase"+c.SQL+core.J(c.Rows), nT > 0 && nT < len(c.Rows), nil)
}
