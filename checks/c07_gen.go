package checks

import (
	"fmt"
	"math"
	"math/rand"
	"sort"
	"strconv"
	"strings"
)

// C07 — program AST (SELECT items, HAVING predicate), rendering, generator and reference evaluation.
//
// Everything the reference computes is derived from the generator's own AST; the engine is never
// asked for an expected value.

// ---- expression AST -------------------------------------------------------------------------

// c07Expr is a SELECT-item / HAVING-operand expression over aggregate calls and numeric literals.
type c07Expr struct {
	K string `json:"k"` // agg | lit | bin | paren

	// agg: Fn(Col) | Fn(*) | Fn(Col InOp Col2) | Fn(Col InOp InLit)
	Fn    string `json:"fn,omitempty"`
	Col   string `json:"col,omitempty"` // "*" for count(*)
	InOp  string `json:"in_op,omitempty"`
	Col2  string `json:"col2,omitempty"`
	InLit string `json:"in_lit,omitempty"`

	Lit string `json:"lit,omitempty"` // literal text

	Op string   `json:"op,omitempty"`
	L  *c07Expr `json:"l,omitempty"`
	R  *c07Expr `json:"r,omitempty"`
}

func c07Lit(s string) *c07Expr                 { return &c07Expr{K: "lit", Lit: s} }
func c07Bin(op string, l, r *c07Expr) *c07Expr { return &c07Expr{K: "bin", Op: op, L: l, R: r} }
func c07Paren(e *c07Expr) *c07Expr             { return &c07Expr{K: "paren", L: e} }

// sql renders the expression.  tight: no blanks around operators; upper: upper-case function names.
func (e *c07Expr) sql(tight, upper bool) string {
	sp := " "
	if tight {
		sp = ""
	}
	switch e.K {
	case "lit":
		return e.Lit
	case "paren":
		return "(" + e.L.sql(tight, upper) + ")"
	case "bin":
		return e.L.sql(tight, upper) + sp + e.Op + sp + e.R.sql(tight, upper)
	case "agg":
		fn := e.Fn
		if upper {
			fn = strings.ToUpper(fn)
		}
		arg := e.Col
		if e.InOp != "" {
			rhs := e.Col2
			if rhs == "" {
				rhs = e.InLit
			}
			arg = e.Col + sp + e.InOp + sp + rhs
		}
		return fn + "(" + arg + ")"
	}
	return "?"
}

func c07Arith(op string, a, b float64) float64 {
	switch op {
	case "+":
		return a + b
	case "-":
		return a - b
	case "*":
		return a * b
	case "/":
		return a / b
	}
	return math.NaN()
}

// eval computes the expression over one group's rows: nil = SQL NULL, otherwise float64.
// sawNull reports whether an aggregate operand of the expression was NULL.
func (e *c07Expr) eval(rows []Row) (val any, sawNull bool) {
	switch e.K {
	case "lit":
		f, _ := strconv.ParseFloat(e.Lit, 64)
		return f, false
	case "paren":
		return e.L.eval(rows)
	case "bin":
		l, n1 := e.L.eval(rows)
		r, n2 := e.R.eval(rows)
		if l == nil || r == nil {
			return nil, true
		}
		return c07Arith(e.Op, l.(float64), r.(float64)), n1 || n2
	case "agg":
		v := c07Agg(e, rows)
		return v, v == nil
	}
	return nil, true
}

// c07Agg is the plain-aggregate reference: count(*) counts rows; count(x) counts non-NULL inputs;
// sum/avg/min/max range over the non-NULL numeric inputs and are NULL when there is none.  An
// expression argument is evaluated per row (NULL operand ⇒ NULL ⇒ skipped).
func c07Agg(e *c07Expr, rows []Row) any {
	if e.Col == "*" {
		return float64(len(rows))
	}
	var xs []float64
	for _, row := range rows {
		a, ok := toF(row[e.Col])
		if !ok {
			continue
		}
		if e.InOp != "" {
			var b float64
			if e.Col2 != "" {
				b, ok = toF(row[e.Col2])
				if !ok {
					continue
				}
			} else {
				b, _ = strconv.ParseFloat(e.InLit, 64)
			}
			a = c07Arith(e.InOp, a, b)
		}
		xs = append(xs, a)
	}
	if e.Fn == "count" {
		return float64(len(xs))
	}
	if len(xs) == 0 {
		return nil
	}
	switch e.Fn {
	case "sum", "avg":
		s := 0.0
		for _, x := range xs {
			s += x
		}
		if e.Fn == "avg" {
			return s / float64(len(xs))
		}
		return s
	case "min":
		m := xs[0]
		for _, x := range xs {
			if x < m {
				m = x
			}
		}
		return m
	case "max":
		m := xs[0]
		for _, x := range xs {
			if x > m {
				m = x
			}
		}
		return m
	}
	return nil
}

// walk visits every node.
func (e *c07Expr) walk(f func(*c07Expr)) {
	if e == nil {
		return
	}
	f(e)
	e.L.walk(f)
	e.R.walk(f)
}

func c07Uniq(xs []string) string {
	m := map[string]bool{}
	for _, x := range xs {
		m[x] = true
	}
	out := make([]string, 0, len(m))
	for x := range m {
		out = append(out, x)
	}
	sort.Strings(out)
	return strings.Join(out, ",")
}

// fns / ops / innerOps describe the expression for violation attributes.
func (e *c07Expr) fns() string {
	var xs []string
	e.walk(func(n *c07Expr) {
		if n.K == "agg" {
			if n.Col == "*" {
				xs = append(xs, "count_star")
			} else {
				xs = append(xs, n.Fn)
			}
		}
	})
	return c07Uniq(xs)
}

func (e *c07Expr) ops() string {
	var xs []string
	e.walk(func(n *c07Expr) {
		if n.K == "bin" {
			xs = append(xs, n.Op)
		}
	})
	return strings.Join(xs, "") // in syntactic (pre-order) sequence
}

func (e *c07Expr) innerOps() string {
	var xs []string
	e.walk(func(n *c07Expr) {
		if n.K == "agg" && n.InOp != "" {
			xs = append(xs, n.InOp)
		}
	})
	return c07Uniq(xs)
}

// ---- SELECT items ---------------------------------------------------------------------------

type c07Item struct {
	Name  string   `json:"name"`
	Group bool     `json:"group,omitempty"` // a GROUP BY column selected as is
	IDs   bool     `json:"ids,omitempty"`   // collect(id) AS ids
	Shape string   `json:"shape,omitempty"`
	Expr  *c07Expr `json:"expr,omitempty"`
	Text  string   `json:"text"`
}

// ---- HAVING ---------------------------------------------------------------------------------

// c07Pred is a HAVING predicate: atoms `operand cmp literal` combined with AND / OR.
type c07Pred struct {
	K string `json:"k"` // atom | and | or

	// atom
	Not    bool     `json:"not,omitempty"`     // the comparison is written NOT (...)
	OpKind string   `json:"operand,omitempty"` // alias | selected_agg | unselected_agg | unselected_agg_expr | unselected_agg_over_expr
	Alias  string   `json:"alias,omitempty"`
	Shape  string   `json:"alias_item_shape,omitempty"`
	Expr   *c07Expr `json:"expr,omitempty"`
	Cmp    string   `json:"cmp,omitempty"`
	Lit    string   `json:"lit,omitempty"`

	L     *c07Pred `json:"l,omitempty"`
	R     *c07Pred `json:"r,omitempty"`
	Paren bool     `json:"paren,omitempty"`
	BQ    bool     `json:"backquoted_alias,omitempty"` // the alias is written `alias` in HAVING
	// CaseWrap: the atom is written CASE WHEN <atom> THEN 1 ELSE 0 END = 1 (same truth value, another evaluator)
	CaseWrap bool `json:"case_wrapped,omitempty"`
}

func (p *c07Pred) sql(tight, upper bool) string {
	var s string
	switch p.K {
	case "atom":
		if p.OpKind == "group_lit" {
			s = p.Alias + " " + p.Cmp + " " + p.Lit
			break
		}
		lhs := p.Alias
		if p.BQ {
			lhs = "`" + p.Alias + "`"
		}
		if p.OpKind != "alias" {
			lhs = p.Expr.sql(tight, upper)
		}
		s = lhs + " " + p.Cmp + " " + p.Lit
		if p.Not {
			s = "NOT (" + s + ")"
		}
		if p.CaseWrap {
			s = "CASE WHEN " + s + " THEN 1 ELSE 0 END = 1"
		}
	case "and":
		s = p.L.sql(tight, upper) + " AND " + p.R.sql(tight, upper)
	case "or":
		s = p.L.sql(tight, upper) + " OR " + p.R.sql(tight, upper)
	}
	if p.Paren {
		return "(" + s + ")"
	}
	return s
}

// eval is Kleene three-valued: 1 true, 0 false, -1 unknown (a NULL operand).  HAVING keeps a group
// iff the result is 1.
func (p *c07Pred) eval(rows []Row) (tri int, sawNull bool) {
	return p.evalB(rows, nil)
}

// evalB additionally reports (through borderline) whether some atom compares a value with a literal it
// equals up to float rounding ((4-17)*1.8 = -23.400000000000002 vs -23.4): the exact outcome of such a
// comparison depends on the order of floating-point operations, which the statement does not fix.
func (p *c07Pred) evalB(rows []Row, borderline *bool) (tri int, sawNull bool) {
	switch p.K {
	case "atom":
		if p.OpKind == "group_lit" {
			return 1, false // the group column never holds the literal's text: != is true for every group
		}
		v, _ := p.Expr.eval(rows)
		if v == nil {
			return -1, true
		}
		a := v.(float64)
		b, _ := strconv.ParseFloat(p.Lit, 64)
		if borderline != nil && a != b && feq(a, b) {
			*borderline = true
		}
		var t bool
		switch p.Cmp {
		case ">":
			t = a > b && !feq(a, b)
		case ">=":
			t = a > b || feq(a, b)
		case "<":
			t = a < b && !feq(a, b)
		case "<=":
			t = a < b || feq(a, b)
		case "=":
			t = feq(a, b)
		case "!=":
			t = !feq(a, b)
		}
		if p.Not {
			t = !t
		}
		if t {
			return 1, false
		}
		return 0, false
	case "and":
		l, n1 := p.L.evalB(rows, borderline)
		r, n2 := p.R.evalB(rows, borderline)
		switch {
		case l == 0 || r == 0:
			return 0, n1 || n2
		case l == 1 && r == 1:
			return 1, n1 || n2
		}
		return -1, true
	case "or":
		l, n1 := p.L.evalB(rows, borderline)
		r, n2 := p.R.evalB(rows, borderline)
		switch {
		case l == 1 || r == 1:
			return 1, n1 || n2
		case l == 0 && r == 0:
			return 0, n1 || n2
		}
		return -1, true
	}
	return -1, true
}

func (p *c07Pred) atoms(f func(*c07Pred)) {
	if p == nil {
		return
	}
	if p.K == "atom" {
		f(p)
	}
	p.L.atoms(f)
	p.R.atoms(f)
}

// conn names the connective structure: single | and | or | and_or.
func (p *c07Pred) conn() string {
	and, or := false, false
	var rec func(q *c07Pred)
	rec = func(q *c07Pred) {
		if q == nil {
			return
		}
		if q.K == "and" {
			and = true
		}
		if q.K == "or" {
			or = true
		}
		rec(q.L)
		rec(q.R)
	}
	rec(p)
	switch {
	case and && or:
		return "and_or"
	case and:
		return "and"
	case or:
		return "or"
	}
	return "single"
}

// ---- ORDER BY -------------------------------------------------------------------------------

type c07Key struct {
	Col  string `json:"col"`
	Dir  string `json:"dir"`  // "" | ASC | DESC
	Kind string `json:"kind"` // group | item:<shape>
}

// ---- generator ------------------------------------------------------------------------------

var c07LitPool = []string{"2", "3", "10", "100", "0.5", "1.8", "2.5", "32", "1", "4"}

func c07GenPlainAgg(r *rand.Rand) *c07Expr {
	switch r.Intn(9) {
	case 0:
		return &c07Expr{K: "agg", Fn: "count", Col: "*"}
	case 1:
		return &c07Expr{K: "agg", Fn: "count", Col: pick(r, []string{"u", "v", "t"})}
	}
	return &c07Expr{K: "agg", Fn: pick(r, []string{"sum", "avg", "min", "max", "sum", "avg"}), Col: pick(r, []string{"t", "t", "w", "u", "v"})}
}

// c07GenDen is an aggregate that is never zero or NULL (w ≥ 1 in every row): a safe divisor.
func c07GenDen(r *rand.Rand) *c07Expr {
	if r.Intn(2) == 0 {
		return &c07Expr{K: "agg", Fn: "count", Col: "*"}
	}
	return &c07Expr{K: "agg", Fn: pick(r, []string{"sum", "avg", "min", "max"}), Col: "w"}
}

// c07GenInnerAgg is an aggregate over an expression of never-NULL columns (NULL handling of
// expression arguments belongs to C03).
func c07GenInnerAgg(r *rand.Rand) *c07Expr {
	e := &c07Expr{K: "agg", Fn: pick(r, []string{"sum", "avg", "min", "max"}), Col: pick(r, []string{"t", "w"}), InOp: pick(r, []string{"+", "-", "*", "/"})}
	if r.Intn(2) == 0 {
		e.InLit = pick(r, []string{"2", "3", "10", "0.5", "4"})
	} else if e.InOp == "/" {
		e.Col2 = "w"
	} else {
		e.Col2 = pick(r, []string{"t", "w"})
	}
	return e
}

var c07Shapes = []string{
	"agg", "agg",
	"agg_op_lit", "agg_op_lit", "agg_op_lit",
	"lit_op_agg", "lit_op_agg",
	"agg_op_agg", "agg_op_agg",
	"paren_agg_op_lit", "paren_agg", "agg_op_paren_lit",
	"paren_agg_op_agg_op_lit", "paren_agg_op_agg_op_lit",
	"agg_op_lit_op_lit", "agg_op_lit_op_lit",
	"lit_op_agg_op_lit",
	"agg_of_expr",
	"agg_of_expr_op_lit", "agg_of_expr_op_lit",
	"lit_op_agg_of_expr",
	"agg_of_expr_op_agg_of_expr", "agg_of_expr_op_agg",
}

func c07GenExpr(r *rand.Rand, shape string) *c07Expr {
	op := pick(r, []string{"+", "-", "*", "/"})
	lit := c07Lit(pick(r, c07LitPool))
	switch shape {
	case "agg":
		return c07GenPlainAgg(r)
	case "agg_op_lit":
		return c07Bin(op, c07GenPlainAgg(r), lit)
	case "lit_op_agg":
		if op == "/" {
			return c07Bin(op, lit, c07GenDen(r))
		}
		return c07Bin(op, lit, c07GenPlainAgg(r))
	case "agg_op_agg":
		if op == "/" {
			return c07Bin(op, c07GenPlainAgg(r), c07GenDen(r))
		}
		return c07Bin(op, c07GenPlainAgg(r), c07GenPlainAgg(r))
	case "paren_agg":
		return c07Paren(c07GenPlainAgg(r))
	case "agg_op_paren_lit": // sum(v) * (2), sum(v) / (2 + 2): the item ends with the parenthesis of a literal operand
		if r.Intn(2) == 0 {
			return c07Bin(op, c07GenPlainAgg(r), c07Paren(lit))
		}
		return c07Bin(op, c07GenPlainAgg(r), c07Paren(c07Bin(pick(r, []string{"+", "*"}), lit, c07Lit(pick(r, []string{"2", "5"})))))
	case "paren_agg_op_lit":
		return c07Bin(op, c07Paren(c07GenPlainAgg(r)), lit)
	case "paren_agg_op_agg_op_lit":
		inner := c07Bin(pick(r, []string{"-", "-", "+"}), c07GenPlainAgg(r), c07GenPlainAgg(r))
		return c07Bin(pick(r, []string{"*", "*", "/"}), c07Paren(inner), lit)
	case "agg_op_lit_op_lit":
		return c07Bin(pick(r, []string{"+", "-"}), c07Bin(pick(r, []string{"*", "/"}), c07GenPlainAgg(r), lit), c07Lit(pick(r, c07LitPool)))
	case "lit_op_agg_op_lit":
		return c07Bin(pick(r, []string{"+", "-"}), lit, c07Bin(pick(r, []string{"*", "/"}), c07GenPlainAgg(r), c07Lit(pick(r, c07LitPool))))
	case "agg_of_expr":
		return c07GenInnerAgg(r)
	case "agg_of_expr_op_lit":
		return c07Bin(op, c07GenInnerAgg(r), lit)
	case "lit_op_agg_of_expr":
		return c07Bin(pick(r, []string{"+", "-", "*"}), lit, c07GenInnerAgg(r))
	case "agg_of_expr_op_agg_of_expr": // two different per-row expressions in one item
		return c07Bin(pick(r, []string{"+", "-", "*"}), c07GenInnerAgg(r), c07GenInnerAgg(r))
	case "agg_of_expr_op_agg":
		return c07Bin(pick(r, []string{"+", "-", "*"}), c07GenInnerAgg(r), c07GenPlainAgg(r))
	}
	return c07GenPlainAgg(r)
}

// c07GenRows draws the input rows.  t and w are never NULL (w ≥ 1); u and v may be NULL or missing,
// for some keys in every row (so that whole groups aggregate to NULL).
func c07GenRows(r *rand.Rand, c *c07Case) {
	nk := 2 + r.Intn(5)
	keys := plainKeys[:nk]
	gs := []string{"x", "y", "z"}[:1+r.Intn(3)]
	allNullU := map[string]bool{}
	allNullV := map[string]bool{}
	for _, k := range keys {
		allNullU[k] = r.Intn(5) == 0
		allNullV[k] = r.Intn(7) == 0
	}
	small := r.Intn(3) == 0 // few distinct values ⇒ many ORDER BY ties and DISTINCT duplicates
	mk := func(id int, ts int64) Row {
		k := pick(r, keys)
		row := Row{"id": id, "k": k, "g": pick(r, gs)}
		if small {
			row["t"] = 1 + r.Intn(3)
			row["w"] = 1 + r.Intn(2)
		} else {
			row["t"] = 1 + r.Intn(20)
			row["w"] = pick(r, []any{1, 2, 3, 4, 5, 1.5, 2.5})
		}
		switch {
		case allNullU[k] || r.Intn(5) == 0:
			if r.Intn(2) == 0 {
				row["u"] = nil
			}
		default:
			row["u"] = r.Intn(21) - 5
		}
		switch {
		case allNullV[k] || r.Intn(7) == 0:
			if r.Intn(2) == 0 {
				row["v"] = nil
			}
		default:
			row["v"] = float64(r.Intn(81)-40) / 4
		}
		if ts >= 0 {
			row["ts"] = baseTs + ts
		}
		return row
	}
	id := 1
	if c.Mode == "counting" {
		c.N = pick(r, []int{1, 2, 2, 3, 3, 4, 5})
		n := 6 + r.Intn(36)
		for i := 0; i < n; i++ {
			c.Rows = append(c.Rows, mk(id, -1))
			id++
		}
		return
	}
	nw := 2 + r.Intn(3)
	first := int64(2+r.Intn(3)) * 1000
	for w := 0; w < nw; w++ {
		m := 3 + r.Intn(28)
		offs := make([]int, m)
		for i := range offs {
			offs[i] = r.Intn(1000)
		}
		sort.Ints(offs)
		for _, o := range offs {
			c.Rows = append(c.Rows, mk(id, first+int64(w)*1000+int64(o)))
			id++
		}
	}
}

// c07Groups partitions rows by the GROUP BY tuple inside each batch of the reference window model.
type c07Group struct {
	Key   string
	KeyV  Row
	Rows  []Row
	IDs   []int
	Out   Row // reference value per SELECT output name
	Null  map[string]bool
	Keep  bool // HAVING verdict (true when there is no HAVING)
	HNull bool // a HAVING operand was NULL
	DKey  string
	seen  int
}

type c07Batch struct {
	ID     string // counting: id list; tumbling: window start offset (ms)
	Groups []*c07Group
	byKey  map[string]*c07Group
	seen   int
}

// c07Partition is the reference window/grouping model.
//   - counting: per GROUP BY tuple, consecutive slices of N rows in arrival order; one group per batch.
//   - tumbling: rows of one size-aligned 1 s interval, grouped by tuple.
func c07Partition(c *c07Case) []*c07Batch {
	var out []*c07Batch
	if c.Mode == "counting" {
		per := map[string][]Row{}
		var order []string
		for _, row := range c.Rows {
			k := tuple(row, c.GroupCols)
			if _, ok := per[k]; !ok {
				order = append(order, k)
			}
			per[k] = append(per[k], row)
		}
		for _, k := range order {
			rows := per[k]
			for i := 0; (i+1)*c.N <= len(rows); i++ {
				g := c07NewGroup(c, k, rows[i*c.N:(i+1)*c.N])
				out = append(out, &c07Batch{ID: idsStr(g.IDs), Groups: []*c07Group{g}, byKey: map[string]*c07Group{k: g}})
			}
		}
		return out
	}
	byWin := map[int64]*c07Batch{}
	for _, row := range c.Rows {
		off := row["ts"].(int64) - baseTs
		ws := floorDiv(off, 1000) * 1000
		b := byWin[ws]
		if b == nil {
			b = &c07Batch{ID: fmt.Sprint(ws), byKey: map[string]*c07Group{}}
			byWin[ws] = b
			out = append(out, b)
		}
		k := tuple(row, c.GroupCols)
		g := b.byKey[k]
		if g == nil {
			g = &c07Group{Key: k, KeyV: Row{}}
			for _, col := range c.GroupCols {
				g.KeyV[col] = row[col]
			}
			b.byKey[k] = g
			b.Groups = append(b.Groups, g)
		}
		g.Rows = append(g.Rows, row)
		g.IDs = append(g.IDs, row["id"].(int))
	}
	return out
}

func c07NewGroup(c *c07Case, k string, rows []Row) *c07Group {
	g := &c07Group{Key: k, KeyV: Row{}, Rows: rows}
	for _, col := range c.GroupCols {
		g.KeyV[col] = rows[0][col]
	}
	for _, row := range rows {
		g.IDs = append(g.IDs, row["id"].(int))
	}
	return g
}

// c07Canon is the canonical text of one output value (numbers to 9 significant digits).
func c07Canon(v any) string {
	if f, ok := toF(v); ok {
		if f == 0 {
			f = 0 // -0 → 0
		}
		return "F" + strconv.FormatFloat(f, 'g', 9, 64)
	}
	if ids, ok := idList(v); ok && v != nil {
		return "L" + idsStr(sortedInts(ids))
	}
	return tkey(v)
}

// c07Evaluate fills Out / Keep / DKey of every group (project → HAVING verdict).
func c07Evaluate(c *c07Case, bs []*c07Batch) {
	for _, b := range bs {
		for _, g := range b.Groups {
			g.Out = Row{}
			g.Null = map[string]bool{}
			parts := make([]string, 0, len(c.Items))
			for _, it := range c.Items {
				switch {
				case it.Group:
					g.Out[it.Name] = g.KeyV[it.Name]
				case it.IDs:
					g.Out[it.Name] = append([]int(nil), g.IDs...)
				default:
					v, sawNull := it.Expr.eval(g.Rows)
					g.Out[it.Name] = v
					g.Null[it.Name] = sawNull
				}
				parts = append(parts, c07Canon(g.Out[it.Name]))
			}
			g.DKey = strings.Join(parts, "\x01")
			g.Keep = true
			if c.Having != nil {
				tri, sawNull := c.Having.evalB(g.Rows, &c.borderline)
				g.Keep = tri == 1
				g.HNull = sawNull
			}
		}
	}
}

func c07FmtLit(v float64) string {
	if v == math.Trunc(v) && math.Abs(v) < 1e9 {
		return strconv.FormatInt(int64(v), 10)
	}
	return strconv.FormatFloat(math.Round(v*100)/100, 'f', -1, 64)
}

// c07GenHaving draws a predicate of 1–3 atoms; thresholds are taken from the operand's actual values
// over the case's groups so that both outcomes occur.
func c07GenHaving(r *rand.Rand, c *c07Case, bs []*c07Batch) *c07Pred {
	var numeric []*c07Item
	var plain []*c07Item
	for _, it := range c.Items {
		if it.Expr != nil {
			numeric = append(numeric, it)
			if it.Expr.K == "agg" && it.Expr.InOp == "" {
				plain = append(plain, it)
			}
		}
	}
	atom := func() *c07Pred {
		a := &c07Pred{K: "atom"}
		switch kind := r.Intn(10); {
		case kind < 3 && len(numeric) > 0:
			it := pick(r, numeric)
			a.OpKind, a.Alias, a.Shape, a.Expr = "alias", it.Name, it.Shape, it.Expr
			a.BQ = r.Intn(8) == 0
		case kind < 5 && len(plain) > 0:
			it := pick(r, plain)
			a.OpKind, a.Expr = "selected_agg", it.Expr
		case kind < 9:
			a.OpKind, a.Expr = "unselected_agg", c07GenPlainAgg(r)
			if r.Intn(4) == 0 {
				// an aggregate whose argument is evaluated per row (sum(t*3), avg(t + w))
				a.OpKind, a.Expr = "unselected_agg_over_expr", c07GenInnerAgg(r)
			}
		default:
			a.OpKind = "unselected_agg_expr"
			if r.Intn(2) == 0 {
				a.Expr = c07Bin(pick(r, []string{"-", "+"}), c07GenPlainAgg(r), c07GenPlainAgg(r))
			} else {
				a.Expr = c07Bin(pick(r, []string{"*", "+", "-"}), c07GenPlainAgg(r), c07Lit(pick(r, []string{"2", "3", "10"})))
			}
		}
		var vals []float64
		allInt := true
		for _, b := range bs {
			for _, g := range b.Groups {
				if v, _ := a.Expr.eval(g.Rows); v != nil {
					f := v.(float64)
					vals = append(vals, f)
					if f != math.Trunc(f) {
						allInt = false
					}
				}
			}
		}
		a.Cmp = pick(r, []string{">", ">=", "<", "<=", ">", "<", "=", "!="})
		if (a.Cmp == "=" || a.Cmp == "!=") && !allInt {
			a.Cmp = pick(r, []string{">=", "<="})
		}
		th := 1.0
		if len(vals) > 0 {
			sort.Float64s(vals)
			th = vals[len(vals)/4+r.Intn(len(vals)/2+1)] // around the median
			if a.Cmp != "=" && a.Cmp != "!=" {
				switch r.Intn(4) {
				case 0:
					th += 0.5
				case 1:
					th -= 1
				}
			}
		}
		a.Lit = c07FmtLit(th)
		a.Not = r.Intn(9) == 0
		return a
	}
	switch r.Intn(10) {
	case 0, 1, 2, 3:
		a := atom()
		// a HAVING that consists of one CASE comparison (CASE combined with AND/OR in HAVING is outside the
		// statement's quantifier and is not generated)
		a.CaseWrap = r.Intn(4) == 0 && !a.Not
		return a
	case 4, 5:
		if r.Intn(4) == 0 {
			// a comparison of the group column with a text that merely spells a keyword
			lit := pick(r, []string{"'case'", "'lower case'", "'CASE WHEN'", "'end'"})
			return &c07Pred{K: "and", L: &c07Pred{K: "atom", OpKind: "group_lit", Alias: c.GroupCols[0], Cmp: "!=", Lit: lit}, R: atom()}
		}
		return &c07Pred{K: "and", L: atom(), R: atom()}
	case 6, 7:
		return &c07Pred{K: "or", L: atom(), R: atom()}
	}
	a, b, d := atom(), atom(), atom()
	switch r.Intn(4) {
	case 0: // a AND b OR c  ≡ (a AND b) OR c
		return &c07Pred{K: "or", L: &c07Pred{K: "and", L: a, R: b}, R: d}
	case 1: // a OR b AND c  ≡ a OR (b AND c)
		return &c07Pred{K: "or", L: a, R: &c07Pred{K: "and", L: b, R: d}}
	case 2:
		return &c07Pred{K: "and", L: &c07Pred{K: "or", L: a, R: b, Paren: true}, R: d}
	}
	return &c07Pred{K: "and", L: a, R: &c07Pred{K: "or", L: b, R: d, Paren: true}}
}

func genC07(c *c07Case, r *rand.Rand) {
	if r.Intn(100) < 45 {
		c.Mode = "counting"
	} else {
		c.Mode = "tumbling"
	}
	c.Tight = r.Intn(2) == 0
	c.Upper = r.Intn(4) == 0
	c07GenRows(r, c)

	// GROUP BY columns and which of them are selected
	c.GroupCols = []string{"k"}
	if c.Mode == "tumbling" && r.Intn(3) == 0 {
		c.GroupCols = pick(r, [][]string{{"k", "g"}, {"g", "k"}})
	}
	wantHaving, wantOrder, wantLimit := false, false, false
	if c.Mode == "counting" && r.Intn(6) == 0 {
		// the same per-key batches of N rows, formed by GLOBAL WINDOW TRIGGER WHEN count(*) >= N; only the
		// SELECT items are exercised there
		c.Global = true
	} else if c.Mode == "counting" {
		wantHaving = r.Intn(2) == 0
		if r.Intn(10) == 0 {
			wantOrder, wantLimit, c.Distinct = r.Intn(2) == 0, r.Intn(2) == 0, r.Intn(3) == 0
		}
	} else {
		wantHaving = r.Intn(2) == 0
		wantOrder = r.Intn(3) > 0
		wantLimit = r.Intn(2) == 0
		c.Distinct = r.Intn(5) == 0
	}
	selCols := append([]string{}, c.GroupCols...)
	dropCol := false
	if c.Mode == "tumbling" {
		// The engine always delivers the GROUP BY columns, selected or not; the statement does not forbid
		// that (it only bans hidden helper columns).  With DISTINCT the extra column makes rows differ that
		// are equal on the SELECT list, a combination the statement leaves open, so it is not generated.
		if !c.Distinct && r.Intn(6) == 0 {
			dropCol = true
			selCols = selCols[:len(selCols)-1] // the last GROUP BY column is not selected
		}
	}
	c.UnselectedGroupCol = dropCol
	for _, col := range selCols {
		c.Items = append(c.Items, &c07Item{Name: col, Group: true, Text: col})
	}
	ni := 1 + r.Intn(3)
	if c.Distinct {
		ni = 1 + r.Intn(2)
	}
	for i := 0; i < ni; i++ {
		shape := pick(r, c07Shapes)
		if c.Distinct && r.Intn(2) == 0 {
			shape = "agg" // small value domain ⇒ duplicates
		}
		e := c07GenExpr(r, shape)
		if c.Distinct && shape == "agg" {
			e = &c07Expr{K: "agg", Fn: pick(r, []string{"count", "min", "max"}), Col: pick(r, []string{"*", "t", "w"})}
			if e.Col == "*" {
				e.Fn = "count"
			}
		}
		name := fmt.Sprintf("r%d", i+1)
		if r.Intn(3) == 0 {
			// ordinary identifiers that merely contain a keyword's letters (case_n, lowercase, ordered, limits ...)
			name = pick(r, []string{"case_n", "lowercase", "ordered", "limits", "endv", "whenever", "thence", "nullable", "likes", "grouped", "elsewhere", "distinctive"}) + fmt.Sprint(i+1)
		}
		text := e.sql(c.Tight, c.Upper) + " AS " + name
		if r.Intn(10) == 0 {
			// the alias written as a back-quoted name (the quotes are not part of the column's name)
			text = e.sql(c.Tight, c.Upper) + " AS `" + name + "`"
		}
		c.Items = append(c.Items, &c07Item{Name: name, Shape: shape, Expr: e, Text: text})
	}
	if c.Mode == "counting" || (!c.Distinct && r.Intn(3) == 0) {
		c.Items = append(c.Items, &c07Item{Name: "ids", IDs: true, Text: "collect(id) AS ids"})
	}
	bs := c07Partition(c)
	if wantHaving {
		c.Having = c07GenHaving(r, c, bs)
	}
	if wantOrder {
		var cand []c07Key
		for _, it := range c.Items {
			switch {
			case it.Group:
				cand = append(cand, c07Key{Col: it.Name, Kind: "group"})
			case it.Expr != nil:
				cand = append(cand, c07Key{Col: it.Name, Kind: "item:" + it.Shape})
			}
		}
		r.Shuffle(len(cand), func(i, j int) { cand[i], cand[j] = cand[j], cand[i] })
		nk := 1
		if len(cand) > 1 && r.Intn(5) < 2 {
			nk = 2
		}
		for _, k := range cand[:min(nk, len(cand))] {
			k.Dir = pick(r, []string{"", "ASC", "DESC", "DESC"})
			c.Order = append(c.Order, k)
		}
		// a two-key order whose first key ties often (an item, typically count(*)) followed by a group
		// column with the direction left implicit: the default direction of a later key must be ASC
		// whatever the earlier key's direction was
		if nk == 1 && len(cand) > 1 && r.Intn(3) == 0 {
			var item, grp *c07Key
			for i := range cand {
				if cand[i].Kind == "group" && grp == nil {
					grp = &cand[i]
				} else if cand[i].Kind != "group" && item == nil {
					item = &cand[i]
				}
			}
			if item != nil && grp != nil {
				c.Order = []c07Key{{Col: item.Col, Kind: item.Kind, Dir: pick(r, []string{"DESC", "DESC", "ASC"})}, {Col: grp.Col, Kind: grp.Kind, Dir: ""}}
			}
		}
	}
	c.Limit = -1
	if wantLimit {
		maxG := 1
		for _, b := range bs {
			maxG = max(maxG, len(b.Groups))
		}
		c.Limit = 1 + r.Intn(maxG+1)
		if r.Intn(30) == 0 {
			c.Limit = 0
		}
	}
	// render
	var sel []string
	for _, it := range c.Items {
		sel = append(sel, it.Text)
	}
	kw := "SELECT "
	if c.Distinct {
		kw = "SELECT DISTINCT "
	}
	sql := kw + strings.Join(sel, ", ") + " FROM stream GROUP BY " + strings.Join(c.GroupCols, ", ")
	if c.Global {
		sql += fmt.Sprintf(", GLOBAL WINDOW TRIGGER WHEN count(*) >= %d", c.N)
	} else if c.Mode == "counting" {
		sql += fmt.Sprintf(", CountingWindow(%d)", c.N)
	} else {
		sql += ", TumblingWindow('1s')"
	}
	if c.Having != nil {
		sql += " HAVING " + c.Having.sql(c.Tight, c.Upper)
	}
	if c.Mode == "tumbling" {
		sql += " WITH (TIMESTAMP='ts', TIMEUNIT='ms')"
	}
	if len(c.Order) > 0 {
		var ks []string
		for _, k := range c.Order {
			col := k.Col
			if col == "case" {
				col = "`case`"
			}
			if k.Dir != "" {
				ks = append(ks, col+" "+k.Dir)
			} else {
				ks = append(ks, col)
			}
		}
		sql += " ORDER BY " + strings.Join(ks, ", ")
	}
	if c.Limit >= 0 {
		sql += fmt.Sprintf(" LIMIT %d", c.Limit)
	}
	c.SQL = sql
}
