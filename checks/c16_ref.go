package checks

import (
	"fmt"
	"math"
	"sort"
	"strconv"
	"strings"
)

// Reference model of C16 (sequential phase): a table keyed by typed normalised tuples, the
// INNER/LEFT rule and a small WHERE evaluator.  Written from the property statement; no engine
// code is called here.

// c16K is the typed canonical form of one key component: numbers by value (1, 1.0, int64(1) and
// -0.0/0 coincide), strings exactly ('1' differs from 1), NULL is its own marker.
func c16K(v any) string {
	switch x := v.(type) {
	case nil:
		return "N"
	case string:
		return "S" + strconv.Itoa(len(x)) + ":" + x
	case bool:
		return "B" + strconv.FormatBool(x)
	}
	if f, ok := toF(v); ok {
		if f == 0 {
			f = 0 // -0.0 equals 0
		}
		return "F" + strconv.FormatFloat(f, 'g', -1, 64)
	}
	return fmt.Sprintf("O%T:%v", v, v)
}

func c16Tuple(vals []any) (key string, hasNull bool) {
	parts := make([]string, len(vals))
	for i, v := range vals {
		parts[i] = c16K(v)
		if v == nil {
			hasNull = true
		}
	}
	return strings.Join(parts, "\x01"), hasNull
}

type c16Entry struct {
	row  Row
	ver  string
	vals []any
}

type c16VerInfo struct {
	key  string
	vals []any
}

type c16Table struct {
	keys     []string // table-side key columns
	live     map[string]*c16Entry
	everNull map[string]bool        // NULL-containing tuples that were ever stored
	vers     map[string]*c16VerInfo // every version id ever written
	stored   map[string][]any       // every Go-typed tuple ever stored or deleted (labelling only)
}

func newC16Table(keys []string) *c16Table {
	return &c16Table{keys: keys, live: map[string]*c16Entry{}, everNull: map[string]bool{}, vers: map[string]*c16VerInfo{}, stored: map[string][]any{}}
}

func (t *c16Table) rowKey(row Row) []any {
	vals := make([]any, len(t.keys))
	for i, k := range t.keys {
		vals[i] = row[k]
	}
	return vals
}

func (t *c16Table) upsert(row Row) {
	vals := t.rowKey(row)
	k, hasNull := c16Tuple(vals)
	if hasNull {
		t.everNull[k] = true
	}
	ver, _ := row["ver"].(string)
	t.live[k] = &c16Entry{row: row, ver: ver, vals: vals}
	t.vers[ver] = &c16VerInfo{key: k, vals: vals}
	t.stored[c16GoKey(vals)] = vals
}

func (t *c16Table) liveKeys() []string {
	ks := make([]string, 0, len(t.live))
	for k := range t.live {
		ks = append(ks, k)
	}
	sort.Strings(ks)
	return ks
}

func (t *c16Table) del(vals []any) {
	k, _ := c16Tuple(vals)
	delete(t.live, k)
	t.stored[c16GoKey(vals)] = vals
}

// lookup returns the matching entry (nil = no match).  unconstrained=true when the stream tuple has
// a NULL component and the table held a tuple that is NULL in the same places: the statement does
// not say whether NULL matches NULL, so any outcome is accepted.  A NULL component never equals a
// non-NULL one, so a NULL-containing tuple that was never stored must not match.
func (t *c16Table) lookup(vals []any) (e *c16Entry, unconstrained bool) {
	k, hasNull := c16Tuple(vals)
	if hasNull {
		return nil, t.everNull[k]
	}
	return t.live[k], false
}

// ---- WHERE -------------------------------------------------------------------------------------

type c16Where struct {
	Form string  // cat_eq | num_cmp | cat_null | cat_notnull | ver_null | v_cmp | num_and_v | cat_or_v | num_or_v
	Cat  string  // literal for cat_eq
	Op   string  // operator of the numeric comparison on num
	Num  float64 // literal for num
	VOp  string
	VLit float64
}

func c16Cmp(op string, a, b float64) bool {
	switch op {
	case ">":
		return a > b
	case ">=":
		return a >= b
	case "<":
		return a < b
	case "<=":
		return a <= b
	case "=":
		return a == b
	}
	return false
}

func c16Num(f float64) string {
	if f == math.Trunc(f) {
		return strconv.FormatInt(int64(f), 10)
	}
	return strconv.FormatFloat(f, 'f', -1, 64)
}

// render writes the predicate; T is the table reference (alias or table name), S the optional
// stream qualifier ("" or "s.").
func (w *c16Where) render(T, S string) string {
	cat := T + ".cat = " + sqlStr(w.Cat)
	num := T + ".num " + w.Op + " " + c16Num(w.Num)
	v := S + "v " + w.VOp + " " + c16Num(w.VLit)
	switch w.Form {
	case "cat_eq":
		return cat
	case "num_cmp":
		return num
	case "cat_null":
		return T + ".cat IS NULL"
	case "cat_notnull":
		return T + ".cat IS NOT NULL"
	case "ver_null":
		return T + ".ver IS NULL"
	case "v_cmp":
		return v
	case "num_and_v":
		return num + " AND " + v
	case "cat_or_v":
		return cat + " OR " + v
	case "num_or_v":
		return num + " OR " + v
	}
	return "1 = 1"
}

// eval decides the predicate for a stream row and its matched table row (nil: LEFT JOIN without a
// match, every table column NULL).  A comparison with a NULL operand is not true; no form contains
// NOT, so two- and three-valued logic agree on the final decision.  nullInOr reports a NULL operand
// inside an OR whose other side is true (the decision then rests on SQL's NULL OR TRUE = TRUE).
func (w *c16Where) eval(srow Row, trow Row) (keep bool, nullInOr bool) {
	var cat, num any
	if trow != nil {
		cat, num = trow["cat"], trow["num"]
	}
	catEq := false
	if s, ok := cat.(string); ok {
		catEq = s == w.Cat
	}
	numOK := false
	nf, numPresent := toF(num)
	if numPresent {
		numOK = c16Cmp(w.Op, nf, w.Num)
	}
	vOK := false
	if vf, ok := toF(srow["v"]); ok {
		vOK = c16Cmp(w.VOp, vf, w.VLit)
	}
	switch w.Form {
	case "cat_eq":
		return catEq, false
	case "num_cmp":
		return numOK, false
	case "cat_null":
		return cat == nil, false
	case "cat_notnull":
		return cat != nil, false
	case "ver_null":
		return trow == nil || trow["ver"] == nil, false
	case "v_cmp":
		return vOK, false
	case "num_and_v":
		return numOK && vOK, false
	case "cat_or_v":
		return catEq || vOK, cat == nil && vOK
	case "num_or_v":
		return numOK || vOK, !numPresent && vOK
	}
	return true, false
}

// ---- expected outcome of one stream row ---------------------------------------------------------

type c16Expect struct {
	Free    bool      // NULL-vs-NULL lookup: unconstrained
	Match   *c16Entry // matched table row (nil: none)
	JoinOK  bool      // survives the join (LEFT: always; INNER: matched)
	WhereOK bool
	NullOr  bool
	Keep    bool
}

func c16Expected(t *c16Table, left bool, w *c16Where, srow Row, streamKeys []string) c16Expect {
	vals := make([]any, len(streamKeys))
	for i, k := range streamKeys {
		vals[i] = srow[k]
	}
	e, free := t.lookup(vals)
	x := c16Expect{Free: free, Match: e, WhereOK: true}
	if free {
		return x
	}
	x.JoinOK = left || e != nil
	if w != nil {
		var trow Row
		if e != nil {
			trow = e.row
		}
		x.WhereOK, x.NullOr = w.eval(srow, trow)
	}
	x.Keep = x.JoinOK && x.WhereOK
	return x
}

// c16Diff describes, component by component, how a stream tuple and a table tuple differ; used as a
// shape attribute of key-confusion violations.
func c16Diff(stream, table []any) string {
	parts := make([]string, len(stream))
	for i := range stream {
		var tv any
		if i < len(table) {
			tv = table[i]
		}
		if c16K(stream[i]) == c16K(tv) {
			parts[i] = "eq"
			continue
		}
		parts[i] = c16TypeName(stream[i]) + "!=" + c16TypeName(tv)
		for _, v := range []any{stream[i], tv} {
			if s, ok := v.(string); ok && strings.Contains(s, "\x1f") {
				parts[i] += "+us"
				break
			}
		}
	}
	return strings.Join(parts, ",")
}

// c16Types describes the Go types of a pair of equal-valued tuples (missed matches).
func c16Types(stream, table []any) string {
	parts := make([]string, len(stream))
	for i := range stream {
		var tv any
		if i < len(table) {
			tv = table[i]
		}
		parts[i] = c16TypeName(stream[i]) + "~" + c16TypeName(tv)
	}
	return strings.Join(parts, ",")
}

func c16TypeName(v any) string {
	if v == nil {
		return "null"
	}
	return fmt.Sprintf("%T", v)
}

// ---- labelling (never decides a verdict) ---------------------------------------------------------

func c16SmallInt(v any) bool {
	switch v.(type) {
	case int8, int16, uint8, uint16:
		return true
	}
	return false
}

// c16TagJoin writes a tuple the ambiguous way DESIGN suspects of the table index: every component as
// type tag + text, joined with the unit separator and without escaping.
func c16TagJoin(vals []any) string {
	parts := make([]string, len(vals))
	for i, v := range vals {
		switch x := v.(type) {
		case nil:
			parts[i] = "<nil>"
		case string:
			parts[i] = "s:" + x
		default:
			if f, ok := toF(v); ok {
				if f == 0 {
					f = 0 // -0.0 and 0 are the same number
				}
				parts[i] = "n:" + strconv.FormatFloat(f, 'f', -1, 64)
			} else {
				parts[i] = fmt.Sprintf("%T:%v", v, v)
			}
		}
	}
	return strings.Join(parts, "\x1f")
}

// label names the hypothesis that would explain an indirect symptom observed for the stream tuple
// `key`: "us_tagged" when a different tuple that was stored or deleted at some time becomes identical to it once
// components are tagged and joined with an unescaped unit separator; "small_int" when the tuple, or a
// stored tuple with the same values, uses int8/int16/uint8/uint16.
func (t *c16Table) label(key []any) string {
	k, _ := c16Tuple(key)
	tj := c16TagJoin(key)
	small := false
	for _, v := range key {
		small = small || c16SmallInt(v)
	}
	for _, u := range t.stored {
		uk, _ := c16Tuple(u)
		if uk != k && c16TagJoin(u) == tj {
			return "us_tagged"
		}
		if uk == k {
			for _, v := range u {
				small = small || c16SmallInt(v)
			}
		}
	}
	if small {
		return "small_int"
	}
	return "none"
}

// c16GoKey identifies a tuple including the Go types of its components.
func c16GoKey(vals []any) string {
	parts := make([]string, len(vals))
	for i, v := range vals {
		parts[i] = fmt.Sprintf("%T:%#v", v, v)
	}
	return strings.Join(parts, "\x01")
}

// c16Vals renders a key tuple with the Go type of every number that is not a plain int.
func c16Vals(v []any) string {
	parts := make([]string, len(v))
	for i, x := range v {
		switch y := x.(type) {
		case nil:
			parts[i] = "NULL"
		case string:
			parts[i] = fmt.Sprintf("%q", y)
		case int:
			parts[i] = strconv.Itoa(y)
		default:
			parts[i] = fmt.Sprintf("%T(%v)", x, x)
		}
	}
	return "(" + strings.Join(parts, ", ") + ")"
}
