package checks

import (
	"fmt"
	"math"
	"math/rand"
	"strings"

	"verif/internal/core"
)

// C16 — stream-table JOIN: every row is enriched from the table contents at processing time.
//
// Sequential phase (this file + c16_exec.go): a generated history of EmitSync/Emit calls interleaved
// with Upsert/UpsertTable/Delete is run against the engine and against the reference table of
// c16_ref.go; every table row carries a unique `ver`, so a joined result names the table row (and
// the version of it) that the engine used.  Concurrent phase: c16_conc.go.

func init() { register(&Check{ID: "C16", Race: true, Run: runC16, Child: childC16}) }

type c16Op struct {
	Kind string `json:"op"` // emit | upsert | upsert_api | delete | reload
	Row  Row    `json:"row,omitempty"`
	Key  []any  `json:"key,omitempty"`
}

type c16Case struct {
	core.CaseRef
	SQL        string   `json:"sql"`
	Mode       string   `json:"mode"` // sync | async | agg
	Left       bool     `json:"left_join"`
	StreamKeys []string `json:"stream_keys"`
	TableKeys  []string `json:"table_keys"`
	Aliases    string   `json:"aliases"` // none | stream | table | both
	WhereForm  string   `json:"where_form"`
	Window     string   `json:"window,omitempty"`
	N          int      `json:"n,omitempty"`
	Init       []Row    `json:"initial_table"`
	Ops        []c16Op  `json:"ops"`
	Shape      string   `json:"key_shape"`
	SmallInts  bool     `json:"small_int_key_types"`
	ExplicitKF bool     `json:"explicit_key_fields"`
	// Collide: every stream row also carries a top-level field named like the table qualifier used in the
	// statement (the alias m, or the table name meta): the joined row must still win for m.col / meta.col
	Collide bool `json:"stream_field_named_like_table"`

	where   *c16Where
	out     map[string]string // logical column -> output name (direct modes)
	T, S    string
	grpCols []string // agg: logical group columns ("cat", "g")
	barrier Row      // table row of the barrier key (async/agg); nil: the barrier is an unmatched LEFT JOIN row
	barKey  []any
	barV    int
}

// c16Alphabet extends the shared separator-heavy alphabet with strings that imitate a type-tagged,
// unit-separator-joined encoding of a neighbouring component.
var c16Alphabet = append(append([]string{}, keyAlphabet...), "a\x1fs:b", "b\x1fs:c", "s:a", "n:1", "<nil>", "2.5", "1.0")

func c16Domain(r *rand.Rand, c *c16Case) []any {
	var d []any
	nums := []any{1, 1.0, int64(1), 2, 2.0, 2.5, float32(2.5), 3, -1, 0, math.Copysign(0, -1), uint(3), int32(2), uint64(1),
		// the same value in different Go types at magnitudes where float formatting changes shape
		1000000, 1000000.0, int64(1000000), 12345678, 12345678.0, uint64(12345678), 1e15, int64(1000000000000000), -2500000, -2500000.0,
		1e21, 0.000001, 1e-7, float32(1e6), int32(1000000)}
	small := []any{int8(1), int16(2), uint8(3), uint16(1)}
	switch r.Intn(4) {
	case 0: // numbers and their string look-alikes
		for i := 0; i < 3+r.Intn(3); i++ {
			d = append(d, pick(r, nums))
		}
		d = append(d, pick(r, []any{"1", "2.5", "1.0", "2", "-1", "0"}))
	case 1: // plain strings
		for i := 0; i < 2+r.Intn(3); i++ {
			d = append(d, pick(r, plainKeys))
		}
	case 2: // hostile strings
		for i := 0; i < 3+r.Intn(3); i++ {
			d = append(d, pick(r, c16Alphabet))
		}
	default: // mixed
		for i := 0; i < 2+r.Intn(2); i++ {
			d = append(d, pick(r, nums))
		}
		for i := 0; i < 2+r.Intn(2); i++ {
			d = append(d, pick(r, c16Alphabet))
		}
	}
	if r.Intn(4) == 0 {
		d = append(d, nil)
	}
	if r.Intn(12) == 0 {
		d = append(d, pick(r, small))
		c.SmallInts = true
	}
	return d
}

func genC16(ref core.CaseRef, r *rand.Rand) *c16Case {
	c := &c16Case{CaseRef: ref}
	c.Mode = pick(r, []string{"sync", "sync", "sync", "sync", "sync", "sync", "async", "async", "agg", "agg", "agg"})
	c.Left = r.Intn(2) == 0
	ncomp := pick(r, []int{1, 1, 1, 2, 2, 3})
	c.TableKeys = []string{"k1", "k2", "k3"}[:ncomp]
	if r.Intn(2) == 0 {
		c.StreamKeys = c.TableKeys
	} else {
		c.StreamKeys = []string{"a1", "a2", "a3"}[:ncomp]
	}
	// ---- key domains ------------------------------------------------------------------------
	doms := make([][]any, ncomp)
	for i := range doms {
		doms[i] = c16Domain(r, c)
	}
	if ncomp >= 2 && r.Intn(4) == 0 { // tuples that differ only in where the separator-like text sits
		i := r.Intn(ncomp - 1)
		doms[i] = []any{"a", "a\x1fs:b", "a\x1fb"}
		doms[i+1] = []any{"b\x1fs:c", "c", "b\x1fc"}
	}
	var allVals []any
	for _, d := range doms {
		allVals = append(allVals, d...)
	}
	c.Shape = keyShape(allVals)
	if strings.Contains(c.Shape, "us") {
		for _, v := range allVals {
			if s, ok := v.(string); ok && strings.Contains(s, "\x1fs:") {
				c.Shape += "+tagged"
				break
			}
		}
	}
	drawKey := func() []any {
		k := make([]any, ncomp)
		for i := range k {
			k[i] = pick(r, doms[i])
		}
		return k
	}
	ver := 0
	tableRow := func(key []any) Row {
		ver++
		row := Row{"ver": fmt.Sprintf("v%d", ver)}
		for i, k := range c.TableKeys {
			if key[i] == nil && r.Intn(2) == 0 {
				continue // missing instead of explicit NULL
			}
			row[k] = key[i]
		}
		switch r.Intn(6) {
		case 0:
			row["num"] = nil
		case 1:
		case 2:
			row["num"] = float64(r.Intn(10)) + 0.5
		default:
			row["num"] = r.Intn(10)
		}
		switch r.Intn(6) {
		case 0:
			row["cat"] = nil
		case 1:
		default:
			row["cat"] = pick(r, []string{"A", "B", "C"})
		}
		return row
	}
	if r.Intn(5) < 3 {
		w := &c16Where{Cat: pick(r, []string{"A", "B", "C"}), Op: pick(r, []string{">", ">=", "<", "<="}), Num: float64(r.Intn(9)) + pick(r, []float64{0, 0, 0.5}),
			VOp: pick(r, []string{">", ">=", "<", "<="}), VLit: float64(r.Intn(20))}
		w.Form = pick(r, []string{"cat_eq", "num_cmp", "cat_null", "cat_notnull", "ver_null", "v_cmp", "num_and_v", "cat_or_v", "num_or_v"})
		c.where = w
		c.WhereForm = w.Form
	} else {
		c.WhereForm = "none"
	}
	if c.Mode != "sync" && !c.findBarrier(ncomp) {
		c.Mode = "sync" // no row can pass this WHERE under this join type: nothing to wait for
	}
	// ---- aliases, SQL -----------------------------------------------------------------------
	c.Aliases = pick(r, []string{"none", "stream", "table", "both"})
	from := "stream"
	c.S = ""
	if c.Aliases == "stream" || c.Aliases == "both" {
		from += pick(r, []string{" s", " AS s"})
		c.S = "s."
	}
	tbl := "meta"
	c.T = "meta"
	if c.Aliases == "table" || c.Aliases == "both" {
		tbl += pick(r, []string{" m", " AS m"})
		c.T = "m"
	}
	sq := func() string { // optional stream qualifier
		if c.S != "" && r.Intn(2) == 0 {
			return c.S
		}
		return ""
	}
	c.Collide = r.Intn(5) == 0
	joinKw := pick(r, []string{"JOIN", "INNER JOIN"})
	if c.Left {
		joinKw = pick(r, []string{"LEFT JOIN", "LEFT OUTER JOIN"})
	}
	var on []string
	for i := range c.TableKeys {
		on = append(on, sq()+c.StreamKeys[i]+" = "+c.T+"."+c.TableKeys[i])
	}
	whereSQL := ""
	if c.where != nil {
		whereSQL = " WHERE " + c.where.render(c.T, sq())
	}
	c.out = map[string]string{}
	var sel []string
	if c.Mode == "agg" {
		c.N = pick(r, []int{1, 1, 2, 3})
		c.grpCols = []string{"cat"}
		catSel := c.T + ".cat"
		c.out["cat"] = "cat"
		if r.Intn(3) == 0 {
			catSel += " AS jcat"
			c.out["cat"] = "jcat"
		}
		sel = append(sel, catSel)
		grp := []string{c.T + ".cat"}
		if r.Intn(2) == 0 {
			c.grpCols = append(c.grpCols, "g")
			q := sq()
			sel = append(sel, q+"g")
			grp = append(grp, q+"g")
			c.out["g"] = "g"
		}
		sel = append(sel, "count(*) AS c", "collect("+sq()+"id) AS ids")
		if r.Intn(2) == 0 {
			c.Window = "counting"
			grp = append(grp, fmt.Sprintf("CountingWindow(%d)", c.N))
		} else {
			c.Window = "global"
			grp = append(grp, fmt.Sprintf("GLOBAL WINDOW TRIGGER WHEN count(*) >= %d", c.N))
		}
		c.SQL = "SELECT " + strings.Join(sel, ", ") + " FROM " + from + " " + joinKw + " " + tbl + " ON " + strings.Join(on, pick(r, []string{" AND ", " and "})) +
			whereSQL + " GROUP BY " + strings.Join(grp, ", ")
	} else {
		sel = append(sel, sq()+"id")
		c.out["id"] = "id"
		verSel := c.T + ".ver"
		c.out["ver"] = "ver"
		if r.Intn(3) == 0 {
			verSel += " AS jver"
			c.out["ver"] = "jver"
		}
		sel = append(sel, verSel)
		if r.Intn(2) == 0 {
			sel = append(sel, sq()+"v")
			c.out["v"] = "v"
		}
		if r.Intn(2) == 0 {
			x := c.T + ".num"
			c.out["num"] = "num"
			if r.Intn(2) == 0 {
				x += " AS jnum"
				c.out["num"] = "jnum"
			}
			sel = append(sel, x)
		}
		if r.Intn(2) == 0 {
			sel = append(sel, c.T+".cat")
			c.out["cat"] = "cat"
		}
		if r.Intn(3) == 0 { // a stream key column, and the table's copy of it under another name
			sel = append(sel, sq()+c.StreamKeys[0])
			c.out["sk:"+c.StreamKeys[0]] = c.StreamKeys[0]
			if r.Intn(2) == 0 {
				sel = append(sel, c.T+"."+c.TableKeys[0]+" AS tk")
				c.out["tk:"+c.TableKeys[0]] = "tk"
			}
		}
		r.Shuffle(len(sel), func(i, j int) { sel[i], sel[j] = sel[j], sel[i] })
		c.SQL = "SELECT " + strings.Join(sel, ", ") + " FROM " + from + " " + joinKw + " " + tbl + " ON " + strings.Join(on, pick(r, []string{" AND ", " and "})) + whereSQL
	}
	c.ExplicitKF = r.Intn(4) == 0
	// ---- initial table and history ------------------------------------------------------------
	nInit := r.Intn(21)
	seen := map[string]bool{}
	for i := 0; i < nInit; i++ {
		key := drawKey()
		k, _ := c16Tuple(key)
		if seen[k] {
			continue // RegisterTable with duplicate keys is not defined by the statement
		}
		seen[k] = true
		c.Init = append(c.Init, tableRow(key))
	}
	nOps := 50 + r.Intn(251)
	id := 0
	for i := 0; i < nOps; i++ {
		switch x := r.Intn(10); {
		case x < 6:
			id++
			row := Row{"id": id, "v": r.Intn(20), "g": pick(r, []string{"x", "y"})}
			key := drawKey()
			for j, k := range c.StreamKeys {
				if key[j] == nil && r.Intn(2) == 0 {
					continue
				}
				row[k] = key[j]
			}
			c.Ops = append(c.Ops, c16Op{Kind: "emit", Row: row})
		case x < 8:
			c.Ops = append(c.Ops, c16Op{Kind: pick(r, []string{"upsert", "upsert", "upsert_api"}), Row: tableRow(drawKey())})
		default:
			if r.Intn(4) == 0 {
				// the table is loaded again under the same name with its current contents
				c.Ops = append(c.Ops, c16Op{Kind: "reload"})
				break
			}
			c.Ops = append(c.Ops, c16Op{Kind: "delete", Key: drawKey()})
		}
	}
	return c
}

// findBarrier chooses the barrier: a reserved key that the history never touches, a table row for it
// (or none, for predicates that only unmatched LEFT JOIN rows satisfy) and a value of v such that
// the reference WHERE evaluator keeps the barrier stream row.
func (c *c16Case) findBarrier(ncomp int) bool {
	c.barKey = make([]any, ncomp)
	for i := range c.barKey {
		c.barKey[i] = "__barrier__"
	}
	var cands []Row
	for _, cat := range []any{"__bar__", "A", "B", "C", nil} {
		for _, num := range []any{5, nil, 0, 9.5} {
			row := Row{"ver": "barrier", "cat": cat, "num": num}
			for i, k := range c.TableKeys {
				row[k] = c.barKey[i]
			}
			cands = append(cands, row)
		}
	}
	if c.Left {
		cands = append(cands, nil) // unmatched barrier
	}
	for _, t := range cands {
		for _, v := range []int{10, 0, 19, 5, 15} {
			if c.where != nil {
				if ok, _ := c.where.eval(Row{"v": v}, t); !ok {
					continue
				}
			}
			c.barrier, c.barV = t, v
			return true
		}
	}
	return false
}

func (c *c16Case) barrierRow(id int) Row {
	row := Row{"id": id, "g": "b", "v": c.barV}
	for i, k := range c.StreamKeys {
		row[k] = c.barKey[i]
	}
	return row
}

func runC16(ctx *core.Ctx) {
	ctx.SetRule("sequential case = (INNER|LEFT, 1-3 key components over int/float/string/NULL domains incl. separator-like text, aliases, optional WHERE on joined columns, " +
		"mode EmitSync | Emit+sync sink | GROUP BY joined column with counting/global window, initial table 0-20 rows, history of 50-300 emit/upsert/delete operations) from PRNG(seed,index); " +
		"non-trivial = at least 5 rows matched, at least 1 row unmatched and at least 1 row whose lookup result changed because of an earlier Upsert/Delete of the history; " +
		"concurrent case = 4 readers + 2 writers over 3 keys, ~200 operations, non-trivial = at least one read overlapped a write of its key and at least 2 distinct versions were read; distinct by case hash")
	ctx.Assume("NULL-vs-NULL key comparisons are unconstrained: a lookup whose stream tuple has a NULL component is only required not to match when no table tuple that is NULL in the same places was ever stored",
		"asynchronous modes rely on the single processing goroutine handling rows in emission order: a barrier row (reserved key, always matched) is awaited before every table mutation",
		"aggregated mode checks grouping soundness (every aggregated row sits under its own joined value, dropped rows are in no result, no row twice) for every N and completeness only for N=1, independent of how the window cuts batches",
		"concurrent phase: porcupine timeout (2 min) => inconclusive; timestamps are time.Since(start) of one monotonic clock, equal stamps count as concurrent")
	nSeq := ctx.N(450, 12000)
	nConc := ctx.N(60, 1200)
	ctx.Cases("c16seq", nSeq, workers(), func(i int, r *rand.Rand) {
		c := genC16(core.CaseRef{Stream: "c16seq", Index: i}, r)
		execC16(ctx, c)
	})
	c16MultiStream(ctx)
	runC16ConcPhase(ctx, nConc)
}
