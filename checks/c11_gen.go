package checks

import (
	"fmt"
	"math/rand"
	"strings"
	"time"
)

// C11 statement generator: a small statement AST that is rendered to SQL token lists.  The oracle
// derives every expected configuration value from this AST (never from the engine's code).

// ---- tokens and layouts ----------------------------------------------------------------------

type c11TK int

const (
	c11KW  c11TK = iota // keyword (case may be changed by a layout)
	c11FN               // function name directly followed by "(" (layout: all-upper / all-lower)
	c11ID               // identifier / dotted path / back-ticked identifier (verbatim)
	c11NUM              // number (verbatim)
	c11STR              // string literal including its quotes (verbatim)
	c11P                // punctuation / operator
)

type c11Tok struct {
	K     c11TK
	S     string
	Fixed bool // function-name case must not be changed (unaliased call: the text is the column name)
}

func kw(words ...string) []c11Tok {
	out := make([]c11Tok, 0, len(words))
	for _, w := range words {
		for _, p := range strings.Fields(w) {
			out = append(out, c11Tok{K: c11KW, S: p})
		}
	}
	return out
}
func id(s string) c11Tok  { return c11Tok{K: c11ID, S: s} }
func num(s string) c11Tok { return c11Tok{K: c11NUM, S: s} }
func str(s string) c11Tok { return c11Tok{K: c11STR, S: s} }
func pt(s string) c11Tok  { return c11Tok{K: c11P, S: s} }
func fn(s string) c11Tok  { return c11Tok{K: c11FN, S: s} }

// c11Layout describes one rendering of a token list.  The zero value is the canonical layout
// (keywords as written = upper case, one blank between tokens, nothing around parentheses).
type c11Layout struct {
	Kw      int   `json:"kw"`       // 0 as written, 1 lower, 2 Capitalised, 3 random per letter
	Fn      int   `json:"fn"`       // 0 as written, 1 upper, 2 lower
	WS      int   `json:"ws"`       // 0 one blank, 1 several blanks, 2 tabs, 3 \n, 4 \r\n, 5 mixed
	Tight   bool  `json:"tight"`    // no whitespace where one side is punctuation
	FnSpace bool  `json:"fn_space"` // whitespace between a function name and its "("
	Pad     bool  `json:"pad"`      // leading / trailing whitespace
	Seed    int64 `json:"seed"`
}

func (l c11Layout) features() string {
	var f []string
	if l.Kw != 0 {
		f = append(f, fmt.Sprintf("kwcase%d", l.Kw))
	}
	if l.Fn != 0 {
		f = append(f, fmt.Sprintf("fncase%d", l.Fn))
	}
	if l.WS != 0 {
		f = append(f, fmt.Sprintf("ws%d", l.WS))
	}
	if l.Tight {
		f = append(f, "tight")
	}
	if l.FnSpace {
		f = append(f, "fnspace")
	}
	if l.Pad {
		f = append(f, "pad")
	}
	if len(f) == 0 {
		return "canonical"
	}
	return strings.Join(f, "+")
}

func c11RandLayout(r *rand.Rand) c11Layout {
	return c11Layout{Kw: r.Intn(4), Fn: r.Intn(3), WS: r.Intn(6), Tight: r.Intn(3) == 0,
		FnSpace: r.Intn(5) == 0, Pad: r.Intn(3) == 0, Seed: r.Int63()}
}

func c11Wordlike(k c11TK) bool { return k != c11P }

func c11Render(toks []c11Tok, l c11Layout) string {
	r := rand.New(rand.NewSource(l.Seed))
	ws := func() string {
		switch l.WS {
		case 1:
			return strings.Repeat(" ", 1+r.Intn(4))
		case 2:
			return strings.Repeat("\t", 1+r.Intn(2))
		case 3:
			return "\n" + strings.Repeat(" ", r.Intn(5))
		case 4:
			return "\r\n" + strings.Repeat("\t", r.Intn(2))
		case 5:
			return pick(r, []string{" ", "  ", "\t", "\n", "\r\n", " \n  ", "\t \t", "\n\n"})
		}
		return " "
	}
	var b strings.Builder
	if l.Pad {
		b.WriteString(pick(r, []string{" ", "\n", "\t", "  \n "}))
	}
	for i, t := range toks {
		if i > 0 {
			p := toks[i-1]
			switch {
			case p.K == c11FN && t.S == "(":
				if l.FnSpace {
					b.WriteString(ws())
				}
			case c11Wordlike(p.K) && c11Wordlike(t.K):
				b.WriteString(ws())
			case l.Tight:
				// nothing: one side is punctuation
			case p.S == "(" || t.S == ")" || t.S == "," || p.S == "[" || t.S == "[" || t.S == "]" || p.S == "{" || t.S == "}" || t.S == "{":
				if l.WS != 0 && r.Intn(2) == 0 {
					b.WriteString(ws())
				}
			default:
				b.WriteString(ws())
			}
		}
		s := t.S
		switch t.K {
		case c11KW:
			switch l.Kw {
			case 1:
				s = strings.ToLower(s)
			case 2:
				s = strings.ToUpper(s[:1]) + strings.ToLower(s[1:])
			case 3:
				bs := []byte(strings.ToLower(s))
				for j := range bs {
					if r.Intn(2) == 0 {
						bs[j] = strings.ToUpper(string(bs[j]))[0]
					}
				}
				s = string(bs)
			}
		case c11FN:
			if !t.Fixed {
				switch l.Fn {
				case 1:
					s = strings.ToUpper(s)
				case 2:
					s = strings.ToLower(s)
				}
			}
		}
		b.WriteString(s)
	}
	if l.Pad {
		b.WriteString(pick(r, []string{" ", "\n", "\t", " \n"}))
	}
	return b.String()
}

func c11Canon(toks []c11Tok) string { return c11Render(toks, c11Layout{}) }

// ---- text normalisation (documented: the parser re-joins expression tokens with its own spacing,
// turns = / AND / OR of predicates into == / && / ||, and keeps keyword / function-name case) -----

var c11Keywords = map[string]bool{}

func init() {
	for _, w := range strings.Fields("SELECT FROM WHERE GROUP BY ORDER HAVING LIMIT WITH AS CASE WHEN THEN ELSE END AND OR NOT " +
		"IN IS NULL DISTINCT LIKE ASC DESC INNER LEFT OUTER JOIN ON TUMBLINGWINDOW SLIDINGWINDOW COUNTINGWINDOW SESSIONWINDOW " +
		"TIMESTAMP TIMEUNIT MAXOUTOFORDERNESS ALLOWEDLATENESS IDLETIMEOUT STATETTL MATCH_RECOGNIZE PARTITION MEASURES ONE ALL ROW ROWS " +
		"PER MATCH AFTER SKIP PAST LAST NEXT TO FIRST PATTERN DEFINE WITHIN SUBSET") {
		c11Keywords[w] = true
	}
}

// c11Norm tokenises an expression text and re-joins it with single blanks: strings and back-ticked
// identifiers verbatim, keywords upper-cased, function names (word before "(") lower-cased,
// "=" -> "==", AND -> "&&", OR -> "||".
func c11Norm(s string) string {
	var out []string
	i := 0
	isW := func(c byte) bool {
		return c == '_' || c >= 'a' && c <= 'z' || c >= 'A' && c <= 'Z' || c >= '0' && c <= '9'
	}
	for i < len(s) {
		c := s[i]
		switch {
		case c == ' ' || c == '\t' || c == '\n' || c == '\r':
			i++
		case c == '\'' || c == '"' || c == '`':
			j := i + 1
			for j < len(s) && s[j] != c {
				j++
			}
			if j < len(s) {
				j++
			}
			out = append(out, s[i:j])
			i = j
		case isW(c):
			j := i
			for j < len(s) && (isW(s[j]) || s[j] == '.' && j+1 < len(s) && isW(s[j+1])) {
				j++
			}
			w := s[i:j]
			k := j
			for k < len(s) && (s[k] == ' ' || s[k] == '\t' || s[k] == '\n' || s[k] == '\r') {
				k++
			}
			up := strings.ToUpper(w)
			switch {
			case up == "AND":
				w = "&&"
			case up == "OR":
				w = "||"
			case c11Keywords[up]:
				w = up
			case k < len(s) && s[k] == '(' && !(c >= '0' && c <= '9'):
				w = strings.ToLower(w)
			}
			out = append(out, w)
			i = j
		default:
			two := ""
			if i+1 < len(s) {
				two = s[i : i+2]
			}
			switch two {
			case ">=", "<=", "!=", "==", "&&", "||":
				out = append(out, two)
				i += 2
			default:
				if c == '=' {
					out = append(out, "==")
				} else {
					out = append(out, string(c))
				}
				i++
			}
		}
	}
	return strings.Join(out, " ")
}

func c11NoBT(s string) string { return strings.ReplaceAll(s, "`", "") }

// ---- rows and columns ------------------------------------------------------------------------

type c11Col struct {
	Name string // as written in SQL
	Path string // dotted path into the row
	Str  bool
}

var c11NumCols = []c11Col{{"a", "a", false}, {"b", "b", false}, {"v", "v", false}, {"order_id", "order_id", false},
	{"from_ts", "from_ts", false}, {"x1", "x1", false}, {"`limit`", "limit", false}, {"device.info.level", "device.info.level", false}}
var c11StrCols = []c11Col{{"s", "s", true}, {"t", "t", true}, {"k", "k", true}, {"limit1", "limit1", true},
	{"group_name", "group_name", true}, {"`select`", "select", true}, {"device.info.name", "device.info.name", true},
	{"where_x", "where_x", true}}

// c11HostileLits are string-literal contents that look like clauses.
var c11HostileLits = []string{"LIMIT 5", "a ORDER BY b", "x FROM y", "WHERE", "GROUP BY k", "HAVING c > 1", "limit 3", "order by z desc",
	"SELECT * FROM t", "WITH (TIMESTAMP=ts)", "a, b", "f(x), LIMIT 2", "AS alias", "x OR y", "AND", "CASE WHEN", "1 = 1", ") LIMIT 9",
	"TumblingWindow(5s)", "JOIN m ON", "--", "ORDER", "from"}
var c11PlainLits = []string{"abc", "hot", "sensor", "n1", "ok", "k1", "k2", ""}

func c11Lookup(row Row, path string) any {
	var cur any = row
	for _, p := range strings.Split(path, ".") {
		m, ok := cur.(map[string]any)
		if !ok {
			return nil
		}
		cur = m[p]
	}
	return cur
}

// c11GenRow draws a full row: every column present and typed (no NULLs: NULL semantics are C06's).
func c11GenRow(r *rand.Rand, id int, strPool []string) Row {
	ps := func() string { return pick(r, strPool) }
	return Row{"id": id, "a": r.Intn(10), "b": float64(r.Intn(40)) / 4, "v": r.Intn(100), "order_id": r.Intn(5), "from_ts": 1000 + r.Intn(10),
		"x1": r.Intn(3), "limit": r.Intn(10), "s": ps(), "t": ps(), "k": pick(r, []string{"k1", "k2"}), "limit1": ps(), "group_name": pick(r, []string{"g1", "g2"}),
		"select": ps(), "where_x": ps(), "dev": pick(r, []string{"d1", "d2", "d3"}),
		"device": map[string]any{"info": map[string]any{"name": ps(), "level": r.Intn(10)}}}
}

// ---- predicates ------------------------------------------------------------------------------

type c11Pred struct {
	Op   string // and | or | paren | cmp | like | isnull | isnotnull
	L, R *c11Pred
	Col  c11Col
	Pfx  string // alias prefix written before the column (JOIN family)
	Cmp  string
	Num  float64
	NumS string
	Lit  string // string literal content
	Q    byte   // quote character of the literal
}

func c11Quote(content string, q byte) string { return string(q) + content + string(q) }

// c11PickQuote returns a quote character that does not occur in content.
func c11PickQuote(r *rand.Rand, content string) byte {
	hs, hd := strings.Contains(content, "'"), strings.Contains(content, "\"")
	switch {
	case hs:
		return '"'
	case hd:
		return '\''
	case r.Intn(6) == 0:
		return '"'
	}
	return '\''
}

func (p *c11Pred) toks() []c11Tok {
	switch p.Op {
	case "and":
		return append(append(p.L.toks(), kw("AND")...), p.R.toks()...)
	case "or":
		return append(append(p.L.toks(), kw("OR")...), p.R.toks()...)
	case "paren":
		return append(append([]c11Tok{pt("(")}, p.L.toks()...), pt(")"))
	case "cmp":
		if p.Col.Str {
			return []c11Tok{id(p.Pfx + p.Col.Name), pt(p.Cmp), str(c11Quote(p.Lit, p.Q))}
		}
		return []c11Tok{id(p.Pfx + p.Col.Name), pt(p.Cmp), num(p.NumS)}
	case "like":
		return []c11Tok{id(p.Pfx + p.Col.Name), c11Tok{K: c11KW, S: "LIKE"}, str(c11Quote(p.Lit, p.Q))}
	case "isnull":
		return append([]c11Tok{id(p.Pfx + p.Col.Name)}, kw("IS NULL")...)
	case "isnotnull":
		return append([]c11Tok{id(p.Pfx + p.Col.Name)}, kw("IS NOT NULL")...)
	}
	return nil
}

func (p *c11Pred) eval(row Row) bool {
	switch p.Op {
	case "and":
		return p.L.eval(row) && p.R.eval(row)
	case "or":
		return p.L.eval(row) || p.R.eval(row)
	case "paren":
		return p.L.eval(row)
	case "isnull":
		return c11Lookup(row, p.Col.Path) == nil
	case "isnotnull":
		return c11Lookup(row, p.Col.Path) != nil
	case "like":
		s, _ := c11Lookup(row, p.Col.Path).(string)
		pat := p.Lit
		switch {
		case strings.HasPrefix(pat, "%") && strings.HasSuffix(pat, "%") && len(pat) >= 2:
			return strings.Contains(s, pat[1:len(pat)-1])
		case strings.HasPrefix(pat, "%"):
			return strings.HasSuffix(s, pat[1:])
		case strings.HasSuffix(pat, "%"):
			return strings.HasPrefix(s, pat[:len(pat)-1])
		}
		return s == pat
	case "cmp":
		v := c11Lookup(row, p.Col.Path)
		if p.Col.Str {
			s, _ := v.(string)
			if p.Cmp == "!=" {
				return s != p.Lit
			}
			return s == p.Lit
		}
		f, _ := toF(v)
		switch p.Cmp {
		case ">":
			return f > p.Num
		case ">=":
			return f >= p.Num
		case "<":
			return f < p.Num
		case "<=":
			return f <= p.Num
		case "=", "==":
			return f == p.Num
		case "!=":
			return f != p.Num
		}
	}
	return false
}

func (p *c11Pred) lits(dst *[]string) {
	if p == nil {
		return
	}
	p.L.lits(dst)
	p.R.lits(dst)
	if (p.Op == "cmp" && p.Col.Str) || p.Op == "like" {
		*dst = append(*dst, p.Lit)
	}
}

// c11GenPred draws a predicate over the given columns; lits collects the literal pool used so that
// sample rows can be made to match.
func c11GenPred(r *rand.Rand, numCols, strCols []c11Col, pfx string, depth int, hostile bool) *c11Pred {
	if depth > 0 && r.Intn(2) == 0 {
		l := c11GenPred(r, numCols, strCols, pfx, depth-1, hostile)
		rr := c11GenPred(r, numCols, strCols, pfx, depth-1, hostile)
		if r.Intn(3) == 0 {
			return &c11Pred{Op: "or", L: l, R: rr}
		}
		// AND binds tighter than OR: parenthesise OR operands
		if l.Op == "or" {
			l = &c11Pred{Op: "paren", L: l}
		}
		if rr.Op == "or" {
			rr = &c11Pred{Op: "paren", L: rr}
		}
		return &c11Pred{Op: "and", L: l, R: rr}
	}
	lit := func() string {
		if hostile && r.Intn(3) > 0 {
			return pick(r, c11HostileLits)
		}
		if r.Intn(8) == 0 {
			return pick(r, []string{"it's LIMIT 2", "say \"ORDER BY x\"", "o'clock"})
		}
		return pick(r, c11PlainLits)
	}
	switch k := r.Intn(10); {
	case k < 4 && len(numCols) > 0:
		n := r.Intn(12) - 1
		ns := fmt.Sprint(n)
		fv := float64(n)
		if r.Intn(5) == 0 {
			ns = fmt.Sprintf("%d.5", r.Intn(9))
			fmt.Sscan(ns, &fv)
		}
		return &c11Pred{Op: "cmp", Col: pick(r, numCols), Pfx: pfx, Cmp: pick(r, []string{">", ">=", "<", "<=", "=", "!=", "=="}), Num: fv, NumS: ns}
	case k < 8 && len(strCols) > 0:
		l := lit()
		return &c11Pred{Op: "cmp", Col: pick(r, strCols), Pfx: pfx, Cmp: pick(r, []string{"=", "=", "!=", "=="}), Lit: l, Q: c11PickQuote(r, l)}
	case k == 8 && len(strCols) > 0:
		l := lit()
		if strings.ContainsAny(l, "%_'\"") || l == "" {
			l = "LIMIT"
		}
		pat := pick(r, []string{l + "%", "%" + l, "%" + l + "%"})
		return &c11Pred{Op: "like", Col: pick(r, strCols), Pfx: pfx, Lit: pat, Q: '\''}
	default:
		cols := append(append([]c11Col{}, numCols...), strCols...)
		return &c11Pred{Op: pick(r, []string{"isnotnull", "isnotnull", "isnull"}), Col: pick(r, cols), Pfx: pfx}
	}
}

// ---- statement AST ---------------------------------------------------------------------------

type c11Item struct {
	Kind  string // col | lit | arith | fn | case | agg | star
	Toks  []c11Tok
	Alias string
	Col   c11Col // col / agg argument
	Lit   string // lit content
	Agg   string // agg function (lower case)
	Star  bool   // count(*)
}

func (it *c11Item) outName() string {
	if it.Alias != "" {
		return it.Alias
	}
	return c11Canon(it.Toks)
}

type c11Order struct {
	Key  string
	Dir  string // "", ASC, DESC
	Want string // ASC | DESC
}

type c11Win struct {
	Kind  string   // tumbling | sliding | counting | session
	Name  string   // keyword as written
	Args  []string // as written (quoted durations or a count)
	Durs  []time.Duration
	Count int
	Pos   int // position among the GROUP BY entries
}

type c11Opt struct {
	Key, Val string
}

type c11Join struct {
	Type    string // INNER | LEFT
	Written []string
	Table   string
	Alias   string
	AsKw    bool
	On      [][2]string // stream field, table field (without prefixes)
	SPfx    string
	TPfx    string
}

type c11Pat struct {
	Kind     int // 0 literal 1 sequence 2 alternation 3 repetition 4 group
	Sym      string
	Kids     []*c11Pat
	Min, Max int
	Greedy   bool
	QToks    []c11Tok
}

type c11MR struct {
	Partition []string
	Order     []c11Order
	Measures  [][2]string // expr canonical text, alias
	MToks     [][]c11Tok
	AllRows   bool
	HasRows   bool
	Skip      int // 0 past last row 1 to next row 2 to first 3 to last ; -1 not written
	SkipSym   string
	Pattern   *c11Pat
	Within    time.Duration
	WithinS   string
	Defines   [][2]string // symbol, cond canonical text
	DToks     [][]c11Tok
}

type c11Stmt struct {
	Family    string // direct | agg | timewin | join | mr
	Distinct  bool
	Items     []*c11Item
	Source    string
	SrcAlias  string
	SrcAs     bool
	Join      *c11Join
	Join2     *c11Join // optional second JOIN clause
	MR        *c11MR
	Where     *c11Pred
	Group     []c11Col
	Win       *c11Win
	Having    *c11Pred
	With      []c11Opt
	Order     []c11Order
	Limit     int
	LimitZero bool     // LIMIT 0 is written (Config.Limit 0)
	Undoc     string   // "" | doubled_quote | backslash_quote: a literal uses an escape the docs do not define
	Hostile   []string // hostile features present (for Attrs)
	LitPool   []string // literal contents rows should draw from
}

func (s *c11Stmt) addHostile(h string) {
	for _, x := range s.Hostile {
		if x == h {
			return
		}
	}
	s.Hostile = append(s.Hostile, h)
}

func (s *c11Stmt) toks() []c11Tok {
	t := kw("SELECT")
	if s.Distinct {
		t = append(t, kw("DISTINCT")...)
	}
	for i, it := range s.Items {
		if i > 0 {
			t = append(t, pt(","))
		}
		t = append(t, it.Toks...)
		if it.Alias != "" {
			t = append(t, kw("AS")...)
			t = append(t, id(it.Alias))
		}
	}
	t = append(t, kw("FROM")...)
	t = append(t, id(s.Source))
	if s.SrcAlias != "" {
		if s.SrcAs {
			t = append(t, kw("AS")...)
		}
		t = append(t, id(s.SrcAlias))
	}
	for _, j := range []*c11Join{s.Join, s.Join2} {
		if j == nil {
			continue
		}
		t = append(t, kw(j.Written...)...)
		t = append(t, id(j.Table))
		if j.Alias != "" {
			if j.AsKw {
				t = append(t, kw("AS")...)
			}
			t = append(t, id(j.Alias))
		}
		t = append(t, kw("ON")...)
		for i, p := range j.On {
			if i > 0 {
				t = append(t, kw("AND")...)
			}
			t = append(t, id(j.SPfx+p[0]), pt("="), id(j.TPfx+p[1]))
		}
	}
	if m := s.MR; m != nil {
		t = append(t, m.toks()...)
	}
	if s.Where != nil {
		t = append(t, kw("WHERE")...)
		t = append(t, s.Where.toks()...)
	}
	if len(s.Group) > 0 || s.Win != nil {
		t = append(t, kw("GROUP BY")...)
		n := len(s.Group)
		if s.Win != nil {
			n++
		}
		gi := 0
		for i := 0; i < n; i++ {
			if i > 0 {
				t = append(t, pt(","))
			}
			if s.Win != nil && i == s.Win.Pos {
				t = append(t, c11Tok{K: c11KW, S: s.Win.Name}, pt("("))
				for k, a := range s.Win.Args {
					if k > 0 {
						t = append(t, pt(","))
					}
					if strings.HasPrefix(a, "'") {
						t = append(t, str(a))
					} else {
						t = append(t, num(a))
					}
				}
				t = append(t, pt(")"))
				continue
			}
			t = append(t, id(s.Group[gi].Name))
			gi++
		}
	}
	if s.Having != nil {
		t = append(t, kw("HAVING")...)
		t = append(t, s.Having.toks()...)
	}
	if len(s.With) > 0 {
		t = append(t, kw("WITH")...)
		t = append(t, pt("("))
		for i, o := range s.With {
			if i > 0 {
				t = append(t, pt(","))
			}
			t = append(t, c11Tok{K: c11KW, S: o.Key}, pt("="), str("'"+o.Val+"'"))
		}
		t = append(t, pt(")"))
	}
	if len(s.Order) > 0 {
		t = append(t, kw("ORDER BY")...)
		for i, o := range s.Order {
			if i > 0 {
				t = append(t, pt(","))
			}
			t = append(t, id(o.Key))
			if o.Dir != "" {
				t = append(t, kw(o.Dir)...)
			}
		}
	}
	if s.Limit > 0 || s.LimitZero {
		t = append(t, kw("LIMIT")...)
		t = append(t, num(fmt.Sprint(s.Limit)))
	}
	return t
}

func (m *c11MR) toks() []c11Tok {
	t := append(kw("MATCH_RECOGNIZE"), pt("("))
	if len(m.Partition) > 0 {
		t = append(t, kw("PARTITION BY")...)
		for i, p := range m.Partition {
			if i > 0 {
				t = append(t, pt(","))
			}
			t = append(t, id(p))
		}
	}
	t = append(t, kw("ORDER BY")...)
	for i, o := range m.Order {
		if i > 0 {
			t = append(t, pt(","))
		}
		t = append(t, id(o.Key))
		if o.Dir != "" {
			t = append(t, kw(o.Dir)...)
		}
	}
	if len(m.Measures) > 0 {
		t = append(t, kw("MEASURES")...)
		for i := range m.Measures {
			if i > 0 {
				t = append(t, pt(","))
			}
			t = append(t, m.MToks[i]...)
			t = append(t, kw("AS")...)
			t = append(t, id(m.Measures[i][1]))
		}
	}
	if m.HasRows {
		if m.AllRows {
			t = append(t, kw("ALL ROWS PER MATCH")...)
		} else {
			t = append(t, kw("ONE ROW PER MATCH")...)
		}
	}
	switch m.Skip {
	case 0:
		t = append(t, kw("AFTER MATCH SKIP PAST LAST ROW")...)
	case 1:
		t = append(t, kw("AFTER MATCH SKIP TO NEXT ROW")...)
	case 2:
		t = append(t, kw("AFTER MATCH SKIP TO FIRST")...)
		t = append(t, id(m.SkipSym))
	case 3:
		t = append(t, kw("AFTER MATCH SKIP TO LAST")...)
		t = append(t, id(m.SkipSym))
	}
	t = append(t, kw("PATTERN")...)
	t = append(t, pt("("))
	t = append(t, m.Pattern.toks()...)
	t = append(t, pt(")"))
	if m.Within > 0 {
		t = append(t, kw("WITHIN")...)
		t = append(t, str("'"+m.WithinS+"'"))
	}
	t = append(t, kw("DEFINE")...)
	for i := range m.Defines {
		if i > 0 {
			t = append(t, pt(","))
		}
		t = append(t, id(m.Defines[i][0]))
		t = append(t, kw("AS")...)
		t = append(t, m.DToks[i]...)
	}
	return append(t, pt(")"))
}

func (p *c11Pat) toks() []c11Tok {
	switch p.Kind {
	case 0:
		return []c11Tok{id(p.Sym)}
	case 1:
		var t []c11Tok
		for _, k := range p.Kids {
			t = append(t, k.toks()...)
		}
		return t
	case 2:
		var t []c11Tok
		for i, k := range p.Kids {
			if i > 0 {
				t = append(t, pt("|"))
			}
			t = append(t, k.toks()...)
		}
		return t
	case 3:
		return append(p.Kids[0].toks(), p.QToks...)
	case 4:
		return append(append([]c11Tok{pt("(")}, p.Kids[0].toks()...), pt(")"))
	}
	return nil
}

// ---- generator -------------------------------------------------------------------------------

var c11Aliases = []string{"c", "cnt", "total", "avg_v", "lvl", "order_total", "limit_v", "from_x", "where_c", "group_c", "having_x", "by_k",
	"m1", "m2", "out1", "name", "val", "x", "y", "z", "res", "peak", "asc_v", "desc_v"}

type c11Namer struct {
	r    *rand.Rand
	used map[string]bool
}

func (n *c11Namer) alias() string {
	for i := 0; i < 50; i++ {
		a := pick(n.r, c11Aliases)
		if !n.used[a] {
			n.used[a] = true
			return a
		}
	}
	a := fmt.Sprintf("al%d", len(n.used))
	n.used[a] = true
	return a
}

func c11GenStmt(r *rand.Rand) *c11Stmt {
	switch k := r.Intn(20); {
	case k < 8:
		return c11GenDirect(r)
	case k < 14:
		return c11GenAgg(r, false)
	case k < 17:
		return c11GenAgg(r, true)
	case k < 19:
		return c11GenJoin(r)
	default:
		return c11GenMR(r)
	}
}

func c11HostileCol(s *c11Stmt, c c11Col) {
	switch {
	case strings.HasPrefix(c.Name, "`"):
		s.addHostile("ident:backtick")
	case strings.Contains(c.Name, "."):
		s.addHostile("ident:nested")
	case c.Name == "order_id" || c.Name == "from_ts" || c.Name == "limit1" || c.Name == "group_name" || c.Name == "where_x":
		s.addHostile("ident:" + c.Name)
	}
}

func c11HostileLit(s *c11Stmt, l string) {
	for _, h := range c11HostileLits {
		if l == h || strings.Contains(l, h) {
			up := strings.ToUpper(l)
			for _, k := range []string{"LIMIT", "ORDER", "FROM", "WHERE", "GROUP", "HAVING", "WITH", "SELECT", "JOIN"} {
				if strings.Contains(up, k) {
					s.addHostile("lit:" + k)
					return
				}
			}
			s.addHostile("lit:other")
			return
		}
	}
	if strings.ContainsAny(l, "'\"") {
		s.addHostile("lit:quote")
	}
}

func c11PredHostile(s *c11Stmt, p *c11Pred) {
	if p == nil {
		return
	}
	c11PredHostile(s, p.L)
	c11PredHostile(s, p.R)
	switch p.Op {
	case "cmp", "like", "isnull", "isnotnull":
		c11HostileCol(s, p.Col)
		if p.Op == "like" || (p.Op == "cmp" && p.Col.Str) {
			c11HostileLit(s, strings.Trim(p.Lit, "%"))
		}
	}
}

func c11GenDirect(r *rand.Rand) *c11Stmt {
	s := &c11Stmt{Family: "direct", Source: pick(r, []string{"stream", "stream", "sensor_data", "from_stream"})}
	nm := &c11Namer{r: r, used: map[string]bool{}}
	hostile := r.Intn(4) > 0
	s.Distinct = r.Intn(8) == 0
	n := 1 + r.Intn(5)
	seen := map[string]bool{}
	for len(s.Items) < n {
		it := &c11Item{}
		switch k := r.Intn(12); {
		case k < 4:
			c := pick(r, append(append([]c11Col{}, c11NumCols...), c11StrCols...))
			it.Kind, it.Col, it.Toks = "col", c, []c11Tok{id(c.Name)}
			if r.Intn(3) == 0 {
				it.Alias = nm.alias()
			}
			c11HostileCol(s, c)
		case k < 7:
			l := pick(r, c11PlainLits[:6])
			if hostile {
				l = pick(r, c11HostileLits)
			}
			if r.Intn(10) == 0 {
				// also: the OTHER quote character followed by an opening parenthesis inside the literal
				l = pick(r, []string{"it's LIMIT 2", "say \"ORDER BY x\"", "it's (ok)", "\"(none)\"", "5\"(LIMIT 3 FROM x)", "it's(ok)", "o'sum(x)"})
			}
			it.Kind, it.Lit, it.Alias = "lit", l, nm.alias()
			it.Toks = []c11Tok{str(c11Quote(l, c11PickQuote(r, l)))}
			c11HostileLit(s, l)
		case k < 9:
			c := pick(r, c11NumCols[:6])
			it.Kind, it.Alias = "arith", nm.alias()
			it.Toks = []c11Tok{id(c.Name), pt(pick(r, []string{"+", "-", "*", "/"})), num(fmt.Sprint(1 + r.Intn(9)))}
			c11HostileCol(s, c)
		case k < 11:
			c := pick(r, c11StrCols[:5])
			f := pick(r, []string{"upper", "lower", "UPPER", "length"})
			it.Kind = "fn"
			it.Toks = []c11Tok{fn(f), pt("("), id(c.Name), pt(")")}
			if r.Intn(6) > 0 {
				it.Alias = nm.alias()
			} else {
				it.Toks[0].Fixed = true
			}
			c11HostileCol(s, c)
		default:
			c := pick(r, c11NumCols[:6])
			l1, l2 := pick(r, c11PlainLits[:6]), pick(r, c11PlainLits[:6])
			if hostile {
				l1 = pick(r, c11HostileLits)
				c11HostileLit(s, l1)
			}
			it.Kind, it.Alias = "case", nm.alias()
			it.Toks = append(kw("CASE WHEN"), id(c.Name), pt(">"), num(fmt.Sprint(r.Intn(9))))
			it.Toks = append(it.Toks, kw("THEN")...)
			it.Toks = append(it.Toks, str(c11Quote(l1, c11PickQuote(r, l1))))
			it.Toks = append(it.Toks, kw("ELSE")...)
			it.Toks = append(it.Toks, str(c11Quote(l2, '\'')))
			it.Toks = append(it.Toks, kw("END")...)
		}
		on, ex := c11NoBT(it.outName()), "expr:"+strings.ToLower(c11Canon(it.Toks))
		if seen[on] || seen[ex] { // the same expression twice would collide in the engine's expression -> alias map
			continue
		}
		seen[on], seen[ex] = true, true
		s.Items = append(s.Items, it)
	}
	if r.Intn(12) == 0 {
		s.Items = []*c11Item{{Kind: "star", Toks: []c11Tok{pt("*")}}}
	}
	if r.Intn(3) > 0 {
		s.Where = c11GenPred(r, c11NumCols, c11StrCols, "", 2, hostile)
		c11PredHostile(s, s.Where)
		s.Where.lits(&s.LitPool)
	}
	if r.Intn(14) == 0 {
		// a literal with a doubled quote: '' is not defined by the docs, so only "no keyword of
		// the literal becomes a clause" and layout invariance are checked for such statements
		esc := &c11Pred{Op: "cmp", Col: pick(r, c11StrCols[:5]), Cmp: "=", Q: '\''}
		kwd := pick(r, []string{"LIMIT 5", "ORDER BY a", "GROUP BY k", "WHERE x", "FROM y"})
		// (a backslash escape shifts the lexer's quote parity for the rest of the statement, so neither
		// clause expectations nor layout invariance apply: that form only occurs in the totality inputs)
		s.Undoc, esc.Lit = "doubled_quote", "it''s "+kwd
		s.addHostile("lit:" + s.Undoc)
		if s.Where == nil {
			s.Where = esc
		} else {
			l := s.Where
			if l.Op == "or" {
				l = &c11Pred{Op: "paren", L: l}
			}
			s.Where = &c11Pred{Op: "and", L: l, R: esc}
		}
	}
	if s.Undoc == "" && r.Intn(14) == 0 {
		// HAVING written without GROUP BY: the clause must still be reflected in the configuration
		// (what it means for the rows of a query without aggregation is not checked)
		s.Having = c11GenHaving(r, c11NumCols[:4])
	}
	c11GenOrderLimit(r, s)
	return s
}

func c11GenOrderLimit(r *rand.Rand, s *c11Stmt) {
	if r.Intn(3) == 0 {
		var keys []string
		for _, it := range s.Items {
			if it.Alias != "" || it.Kind == "col" {
				keys = append(keys, it.outName())
			}
		}
		r.Shuffle(len(keys), func(i, j int) { keys[i], keys[j] = keys[j], keys[i] })
		for i := 0; i < len(keys) && i < 1+r.Intn(2); i++ {
			d := pick(r, []string{"", "ASC", "DESC", "DESC"})
			w := "ASC"
			if d == "DESC" {
				w = "DESC"
			}
			s.Order = append(s.Order, c11Order{Key: keys[i], Dir: d, Want: w})
		}
	}
	if r.Intn(3) == 0 {
		s.Limit = pick(r, []int{1, 2, 3, 5, 10, 100, 1000})
	} else if r.Intn(10) == 0 {
		s.LimitZero = true // the boundary value, written after whichever clause comes last
	}
}

var c11DurWords = []struct {
	S string
	D time.Duration
}{{"1s", time.Second}, {"5s", 5 * time.Second}, {"500ms", 500 * time.Millisecond}, {"2m", 2 * time.Minute}, {"1h", time.Hour},
	{"10s", 10 * time.Second}, {"30s", 30 * time.Second}, {"90s", 90 * time.Second}, {"24h", 24 * time.Hour}}

func c11GenAgg(r *rand.Rand, timeWin bool) *c11Stmt {
	s := &c11Stmt{Family: "agg", Source: pick(r, []string{"stream", "stream", "sensor_data"})}
	if timeWin {
		s.Family = "timewin"
	}
	nm := &c11Namer{r: r, used: map[string]bool{}}
	hostile := r.Intn(4) > 0
	groupPool := []c11Col{{"k", "k", true}, {"group_name", "group_name", true}, {"order_id", "order_id", false}, {"x1", "x1", false}}
	r.Shuffle(len(groupPool), func(i, j int) { groupPool[i], groupPool[j] = groupPool[j], groupPool[i] })
	s.Group = append(s.Group, groupPool[:r.Intn(3)]...)
	for _, g := range s.Group {
		c11HostileCol(s, g)
		s.Items = append(s.Items, &c11Item{Kind: "col", Col: g, Toks: []c11Tok{id(g.Name)}})
	}
	na := 1 + r.Intn(4)
	usedUnaliased := false
	for i := 0; i < na; i++ {
		it := &c11Item{Kind: "agg"}
		f := pick(r, []string{"count", "sum", "avg", "min", "max", "COUNT", "SUM", "AVG", "MAX"})
		it.Agg = strings.ToLower(f)
		if it.Agg == "count" && r.Intn(2) == 0 {
			it.Star = true
			it.Toks = []c11Tok{fn(f), pt("("), pt("*"), pt(")")}
		} else {
			it.Col = pick(r, c11NumCols[:6])
			it.Toks = []c11Tok{fn(f), pt("("), id(it.Col.Name), pt(")")}
			c11HostileCol(s, it.Col)
		}
		dup := false // the same call twice (in any case) would collide in the engine's expression -> alias map
		for _, o := range s.Items {
			if strings.EqualFold(c11Canon(o.Toks), c11Canon(it.Toks)) {
				dup = true
			}
		}
		if dup {
			continue
		}
		if r.Intn(14) == 0 && !usedUnaliased && !it.Star {
			usedUnaliased = true
			it.Toks[0].Fixed = true
		} else {
			it.Alias = nm.alias()
		}
		s.Items = append(s.Items, it)
	}
	if r.Intn(2) == 0 {
		r.Shuffle(len(s.Items), func(i, j int) { s.Items[i], s.Items[j] = s.Items[j], s.Items[i] })
	}
	if r.Intn(2) == 0 {
		s.Where = c11GenPred(r, c11NumCols[:6], c11StrCols[:5], "", 1, hostile)
		c11PredHostile(s, s.Where)
		s.Where.lits(&s.LitPool)
	}
	w := &c11Win{}
	if !timeWin {
		w.Kind, w.Name, w.Count = "counting", pick(r, []string{"CountingWindow", "COUNTINGWINDOW", "countingwindow"}), pick(r, []int{1, 2, 3, 4, 5})
		w.Args = []string{fmt.Sprint(w.Count)}
		if r.Intn(5) == 0 {
			d := pick(r, c11DurWords)
			s.With = append(s.With, c11Opt{"STATETTL", d.S})
		}
	} else {
		switch r.Intn(3) {
		case 0:
			d := pick(r, c11DurWords)
			w.Kind, w.Name, w.Args, w.Durs = "tumbling", "TumblingWindow", []string{"'" + d.S + "'"}, []time.Duration{d.D}
		case 1:
			d1, d2 := pick(r, c11DurWords), pick(r, c11DurWords)
			w.Kind, w.Name, w.Args, w.Durs = "sliding", "SlidingWindow", []string{"'" + d1.S + "'", "'" + d2.S + "'"}, []time.Duration{d1.D, d2.D}
		default:
			d := pick(r, c11DurWords)
			w.Kind, w.Name, w.Args, w.Durs = "session", "SessionWindow", []string{"'" + d.S + "'"}, []time.Duration{d.D}
		}
		if r.Intn(4) > 0 {
			opts := []c11Opt{}
			if r.Intn(5) > 0 {
				opts = append(opts, c11Opt{"TIMESTAMP", pick(r, []string{"ts", "eventTime", "order_ts", "from_ts"})})
			}
			if r.Intn(2) == 0 {
				opts = append(opts, c11Opt{"TIMEUNIT", pick(r, []string{"ss", "ms", "ns", "mi", "hh", "dd"})})
			}
			for _, k := range []string{"MAXOUTOFORDERNESS", "ALLOWEDLATENESS", "IDLETIMEOUT"} {
				if r.Intn(2) == 0 {
					opts = append(opts, c11Opt{k, pick(r, c11DurWords).S})
				}
			}
			if r.Intn(2) == 0 {
				r.Shuffle(len(opts), func(i, j int) { opts[i], opts[j] = opts[j], opts[i] })
			}
			s.With = opts
		}
	}
	w.Pos = pick(r, []int{len(s.Group), len(s.Group), 0, r.Intn(len(s.Group) + 1)})
	s.Win = w
	// HAVING / ORDER BY over aggregate aliases
	var aggAliases []c11Col
	for _, it := range s.Items {
		if it.Kind == "agg" && it.Alias != "" {
			aggAliases = append(aggAliases, c11Col{Name: it.Alias, Path: it.Alias})
		}
	}
	if len(aggAliases) > 0 && r.Intn(5) < 2 {
		s.Having = c11GenHaving(r, aggAliases)
	}
	if r.Intn(5) < 2 {
		var keys []string
		for _, it := range s.Items {
			if it.Alias != "" || it.Kind == "col" {
				keys = append(keys, it.outName())
			}
		}
		r.Shuffle(len(keys), func(i, j int) { keys[i], keys[j] = keys[j], keys[i] })
		for i := 0; i < len(keys) && i < 1+r.Intn(2); i++ {
			d := pick(r, []string{"", "ASC", "DESC", "DESC"})
			wd := "ASC"
			if d == "DESC" {
				wd = "DESC"
			}
			s.Order = append(s.Order, c11Order{Key: keys[i], Dir: d, Want: wd})
		}
	}
	if r.Intn(4) == 0 {
		s.Limit = pick(r, []int{1, 2, 3, 5, 10, 100})
	} else if r.Intn(8) == 0 {
		s.LimitZero = true // the boundary value, written after whichever clause comes last (often GROUP BY itself)
	}
	return s
}

func c11GenHaving(r *rand.Rand, cols []c11Col) *c11Pred {
	one := func() *c11Pred {
		n := r.Intn(20)
		return &c11Pred{Op: "cmp", Col: pick(r, cols), Cmp: pick(r, []string{">", ">=", "<", "<=", "!="}), Num: float64(n), NumS: fmt.Sprint(n)}
	}
	p := one()
	if r.Intn(3) == 0 {
		p = &c11Pred{Op: pick(r, []string{"and", "or"}), L: p, R: one()}
	}
	return p
}

func c11GenJoin(r *rand.Rand) *c11Stmt {
	s := &c11Stmt{Family: "join", Source: "stream"}
	nm := &c11Namer{r: r, used: map[string]bool{}}
	j := &c11Join{Table: pick(r, []string{"meta", "devices", "order_meta"})}
	sp, tp := "", ""
	if r.Intn(4) > 0 {
		s.SrcAlias, s.SrcAs = pick(r, []string{"s", "st", "src"}), r.Intn(2) == 0
		sp = s.SrcAlias + "."
	}
	if r.Intn(4) > 0 {
		j.Alias, j.AsKw = pick(r, []string{"m", "d", "tb"}), r.Intn(2) == 0
		tp = j.Alias + "."
	} else {
		tp = j.Table + "."
	}
	switch r.Intn(5) {
	case 0:
		j.Type, j.Written = "INNER", []string{"JOIN"}
	case 1:
		j.Type, j.Written = "INNER", []string{"INNER", "JOIN"}
	case 2:
		j.Type, j.Written = "LEFT", []string{"LEFT", "OUTER", "JOIN"}
	default:
		j.Type, j.Written = "LEFT", []string{"LEFT", "JOIN"}
	}
	j.On = [][2]string{{"dev", "id"}}
	if r.Intn(3) == 0 {
		j.On = append(j.On, [2]string{"k", "zone"})
	}
	j.SPfx, j.TPfx = sp, tp
	s.Join = j
	if r.Intn(3) == 0 {
		// a second JOIN clause with its own kind; its table matches every row and none of its columns is
		// selected, so it changes the configuration only
		j2 := &c11Join{Table: "zones", On: [][2]string{{"k", "zone"}}, SPfx: sp}
		if r.Intn(2) == 0 {
			j2.Alias, j2.AsKw = "z", r.Intn(2) == 0
			j2.TPfx = "z."
		} else {
			j2.TPfx = "zones."
		}
		switch r.Intn(4) {
		case 0:
			j2.Type, j2.Written = "INNER", []string{"JOIN"}
		case 1:
			j2.Type, j2.Written = "INNER", []string{"INNER", "JOIN"}
		case 2:
			j2.Type, j2.Written = "LEFT", []string{"LEFT", "OUTER", "JOIN"}
		default:
			j2.Type, j2.Written = "LEFT", []string{"LEFT", "JOIN"}
		}
		s.Join2 = j2
	}
	for _, c := range []string{"a", "v", "order_id", "dev"}[:1+r.Intn(4)] {
		it := &c11Item{Kind: "col", Col: c11Col{Name: sp + c, Path: c}, Toks: []c11Tok{id(sp + c)}}
		if r.Intn(2) == 0 {
			it.Alias = nm.alias()
		}
		s.Items = append(s.Items, it)
	}
	for _, c := range []string{"loc", "owner"}[:1+r.Intn(2)] {
		s.Items = append(s.Items, &c11Item{Kind: "col", Col: c11Col{Name: tp + c, Path: tp + c}, Toks: []c11Tok{id(tp + c)}, Alias: nm.alias()})
	}
	if r.Intn(2) == 0 {
		s.Where = c11GenPred(r, c11NumCols[:5], c11StrCols[:3], sp, 1, true)
		c11PredHostile(s, s.Where)
		s.Where.lits(&s.LitPool)
	}
	if r.Intn(4) == 0 {
		s.Limit = pick(r, []int{1, 5, 10})
	}
	return s
}

func c11GenMR(r *rand.Rand) *c11Stmt {
	s := &c11Stmt{Family: "mr", Source: "stream"}
	s.Items = []*c11Item{{Kind: "star", Toks: []c11Tok{pt("*")}}}
	m := &c11MR{Skip: -1}
	if r.Intn(2) == 0 {
		m.Partition = []string{"dev", "k"}[:1+r.Intn(2)]
	}
	m.Order = []c11Order{{Key: pick(r, []string{"ts", "from_ts", "order_ts", "ts", "timestamp", "TimeStamp"}), Dir: pick(r, []string{"", "", "ASC"}), Want: "ASC"}}
	syms := []string{"A", "B", "C", "Up", "Dn"}
	r.Shuffle(len(syms), func(i, j int) { syms[i], syms[j] = syms[j], syms[i] })
	n := 1 + r.Intn(3)
	syms = syms[:n]
	quant := func(p *c11Pat) *c11Pat {
		q := &c11Pat{Kind: 3, Kids: []*c11Pat{p}, Greedy: true}
		switch r.Intn(7) {
		case 0:
			return p
		case 1:
			q.Min, q.Max, q.QToks = 0, 1, []c11Tok{pt("?")}
		case 2:
			q.Min, q.Max, q.QToks = 0, -1, []c11Tok{pt("*")}
		case 3:
			q.Min, q.Max, q.QToks = 1, -1, []c11Tok{pt("+")}
		case 4:
			k := 1 + r.Intn(4)
			q.Min, q.Max, q.QToks = k, k, []c11Tok{pt("{"), num(fmt.Sprint(k)), pt("}")}
		case 5:
			k := 1 + r.Intn(3)
			q.Min, q.Max, q.QToks = k, -1, []c11Tok{pt("{"), num(fmt.Sprint(k)), pt(","), pt("}")}
		default:
			k := r.Intn(3)
			q.Min, q.Max, q.QToks = k, k+1+r.Intn(3), nil
			q.QToks = []c11Tok{pt("{"), num(fmt.Sprint(q.Min)), pt(","), num(fmt.Sprint(q.Max)), pt("}")}
		}
		if r.Intn(5) == 0 {
			q.Greedy = false
			q.QToks = append(q.QToks, pt("?"))
		}
		return q
	}
	var atoms []*c11Pat
	for i := 0; i < n; i++ {
		a := &c11Pat{Kind: 0, Sym: syms[i]}
		if n >= 2 && i+1 < n && r.Intn(5) == 0 {
			alt := &c11Pat{Kind: 2, Kids: []*c11Pat{a, {Kind: 0, Sym: syms[i+1]}}}
			atoms = append(atoms, quant(&c11Pat{Kind: 4, Kids: []*c11Pat{alt}}))
			i++
			continue
		}
		atoms = append(atoms, quant(a))
	}
	if len(atoms) == 1 {
		m.Pattern = atoms[0]
	} else {
		m.Pattern = &c11Pat{Kind: 1, Kids: atoms}
	}
	if r.Intn(2) == 0 {
		d := pick(r, c11DurWords)
		m.Within, m.WithinS = d.D, d.S
	}
	for _, sy := range syms {
		if r.Intn(5) == 0 && len(m.Defines) > 0 {
			continue
		}
		var t []c11Tok
		if r.Intn(4) == 0 {
			l := pick(r, c11HostileLits[:8])
			c11HostileLit(s, l)
			t = []c11Tok{id("status"), pt("="), str(c11Quote(l, '\''))}
		} else {
			t = []c11Tok{id(pick(r, []string{"temp", "v", "order_id"})), pt(pick(r, []string{">", "<", ">=", "<="})), num(fmt.Sprint(r.Intn(90)))}
			if r.Intn(4) == 0 {
				t = append(t, kw("AND")...)
				t = append(t, id("v"), pt(">"), num("0"))
			}
		}
		m.Defines = append(m.Defines, [2]string{sy, c11Canon(t)})
		m.DToks = append(m.DToks, t)
	}
	nmz := &c11Namer{r: r, used: map[string]bool{}}
	for i := 0; i < 1+r.Intn(3); i++ {
		var t []c11Tok
		sy := pick(r, syms)
		switch r.Intn(4) {
		case 0:
			t = []c11Tok{c11Tok{K: c11FN, S: "MATCH_NUMBER", Fixed: true}, pt("("), pt(")")}
		case 1:
			t = []c11Tok{c11Tok{K: c11FN, S: "LAST", Fixed: true}, pt("("), id(sy + ".temp"), pt(")")}
		case 2:
			t = []c11Tok{c11Tok{K: c11FN, S: "FIRST", Fixed: true}, pt("("), id(sy + ".v"), pt(")")}
		default:
			t = []c11Tok{id(sy + ".temp")}
		}
		m.Measures = append(m.Measures, [2]string{c11Canon(t), nmz.alias()})
		m.MToks = append(m.MToks, t)
	}
	if r.Intn(2) == 0 {
		m.HasRows, m.AllRows = true, r.Intn(3) == 0
	}
	if r.Intn(2) == 0 {
		m.Skip = r.Intn(4)
		m.SkipSym = syms[0]
	}
	s.MR = m
	if r.Intn(4) == 0 {
		s.Limit = pick(r, []int{1, 5})
	}
	return s
}
