package checks

import (
	"fmt"
	"math/rand"
	"regexp"
	"sort"
	"strconv"
	"strings"
	"time"

	"verif/internal/core"
	"verif/internal/eng"
)

// C03 — aggregate functions equal their mathematical definition on the rows of the batch.
//
// Every case is one `SELECT … GROUP BY [k,] CountingWindow(N)` query fed with 3 consecutive batches
// per group (rows of the groups interleaved).  `collect(id) AS ids` names the input rows of every
// delivered result; the oracle (c03_ref.go) applies the documented definition to exactly those
// rows.  Two metamorphic relations are decided engine-against-engine: a fresh instance fed only one
// batch must give what the long-running instance gave for it (no state leaks from earlier batches or
// other groups), and a fresh instance fed a shuffled copy must agree on the order-insensitive
// functions.

func init() { register(&Check{ID: "C03", Run: runC03}) }

type c03Item struct {
	Fn    string  `json:"fn"`
	Shape string  `json:"shape"` // star | bare | nested | expr | map
	Arg   string  `json:"arg"`
	Case  string  `json:"fn_case,omitempty"`
	Arg2  string  `json:"arg2,omitempty"` // sumdiff: sum(Arg) - sum(Arg2), two different expression arguments in one item
	P     float64 `json:"p,omitempty"`    // percentile
	Nth   int     `json:"nth,omitempty"`  // nth_value
	Flag  string  `json:"flag,omitempty"` // deduplicate: none | true | false
	Alias string  `json:"alias"`
	SQL   string  `json:"sql"`
}

func (it *c03Item) variant() string {
	switch it.Fn {
	case "percentile":
		return "p=" + strconv.FormatFloat(it.P, 'g', -1, 64)
	case "nth_value":
		return "k=" + strconv.Itoa(it.Nth)
	case "deduplicate":
		return "flag=" + it.Flag
	}
	return "-"
}

type c03Case struct {
	core.CaseRef
	SQL    string     `json:"sql"`
	N      int        `json:"n"`
	Cols   []string   `json:"cols"`
	Mode   string     `json:"mode"` // all | few | single | global
	Global bool       `json:"global_window,omitempty"`
	Regime string     `json:"regime"` // value regime
	Groups int        `json:"groups"`
	Items  []*c03Item `json:"items"`
	Rows   []Row      `json:"rows"`
	Shuf   int64      `json:"shuffle_seed"`
}

// pspread is a compound item with two calls of one parameterised aggregate that differ only in the
// parameter: percentile(x, 1) - percentile(x, 0), i.e. max - min (both percentiles are unambiguous).
var c03NumFns = []string{"count", "sum", "avg", "min", "max", "stddev", "stddevs", "var", "vars", "median", "percentile", "pspread", "sumdiff"}
var c03PosFns = []string{"first_value", "last_value", "nth_value", "collect"}
var c03AllFns = append(append(append([]string{}, c03NumFns...), c03PosFns...), "deduplicate", "merge_agg")

// order-insensitive functions (statement: "order-insensitive aggregates are invariant under
// permutation of the batch")
var c03OrderFree = map[string]bool{"count": true, "sum": true, "avg": true, "min": true, "max": true, "stddev": true,
	"stddevs": true, "var": true, "vars": true, "median": true, "percentile": true, "pspread": true, "sumdiff": true}

var c03Exprs = []string{"v*2", "v+w", "v-w", "v*w", "v+1.5", "o.x+v", "o.x*2"}

var c03FnName = regexp.MustCompile(`[a-z_]+\(`)

func c03GenItem(fn string, n int, r *rand.Rand) *c03Item {
	it := &c03Item{Fn: fn}
	switch {
	case fn == "sumdiff":
		// each argument reads a single column, so a NULL input is simply skipped by its own sum
		// (a subtraction written without blanks, `w-1`, reaches the parser as a name and a signed literal)
		args := []string{"v*2", "w*3", "v+1.5", "o.x*2", "w-1", "v-1", "o.x-2.5", "v", "w"}
		i := r.Intn(7) // at least one of the two is an expression
		j := r.Intn(len(args) - 1)
		if j >= i {
			j++
		}
		if r.Intn(2) == 0 {
			i, j = j, i
		}
		it.Shape, it.Arg, it.Arg2 = "expr", args[i], args[j]
	case fn == "merge_agg":
		switch r.Intn(5) {
		case 0, 1:
			it.Shape, it.Arg = "bare", "s"
		case 2:
			it.Shape, it.Arg = "bare", "v"
		case 3:
			it.Shape, it.Arg = "nested", "o.x"
		default:
			it.Shape, it.Arg = "map", "m"
		}
	case fn == "deduplicate":
		switch r.Intn(5) {
		case 0, 1:
			it.Shape, it.Arg = "bare", "v"
		case 2:
			it.Shape, it.Arg = "bare", "s"
		case 3:
			it.Shape, it.Arg = "nested", "o.x"
		default:
			it.Shape, it.Arg = "expr", "v*2"
		}
		it.Flag = pick(r, []string{"none", "true", "true", "false"})
	case fn == "first_value" || fn == "last_value" || fn == "nth_value" || fn == "collect":
		switch r.Intn(6) {
		case 0, 1:
			it.Shape, it.Arg = "bare", "v"
		case 2:
			it.Shape, it.Arg = "bare", "s"
		case 3, 4:
			it.Shape, it.Arg = "nested", "o.x"
		default:
			it.Shape, it.Arg = "expr", pick(r, []string{"v*2", "v+w", "v-w"})
		}
	default: // numeric family and count
		switch r.Intn(6) {
		case 0, 1:
			it.Shape, it.Arg = "bare", pick(r, []string{"v", "v", "w"})
		case 2:
			it.Shape, it.Arg = "nested", "o.x"
		default:
			it.Shape, it.Arg = "expr", pick(r, c03Exprs)
		}
		if fn == "count" && r.Intn(3) == 0 {
			it.Shape, it.Arg = "star", "*"
		}
	}
	switch fn {
	case "percentile":
		it.P = pick(r, []float64{0, 0.25, 0.5, 0.5, 0.9, 0.95, 1})
		it.SQL = fmt.Sprintf("percentile(%s, %s)", it.Arg, strconv.FormatFloat(it.P, 'g', -1, 64))
	case "pspread":
		it.SQL = fmt.Sprintf("percentile(%s, 1) - percentile(%s, 0)", it.Arg, it.Arg)
	case "sumdiff":
		it.SQL = fmt.Sprintf("sum(%s) - sum(%s)", it.Arg, it.Arg2)
	case "nth_value":
		it.Nth = 1 + r.Intn(n+1)
		it.SQL = fmt.Sprintf("nth_value(%s, %d)", it.Arg, it.Nth)
	case "deduplicate":
		if it.Flag == "none" {
			it.SQL = fmt.Sprintf("deduplicate(%s)", it.Arg)
		} else {
			it.SQL = fmt.Sprintf("deduplicate(%s, %s)", it.Arg, it.Flag)
		}
	default:
		it.SQL = fmt.Sprintf("%s(%s)", fn, it.Arg)
	}
	if r.Intn(4) == 0 {
		// function names are case-insensitive: FIRST_VALUE(v), Sum(v) ...
		up := r.Intn(2) == 0
		it.SQL = c03FnName.ReplaceAllStringFunc(it.SQL, func(m string) string {
			if up {
				return strings.ToUpper(m)
			}
			return strings.ToUpper(m[:1]) + m[1:]
		})
		it.Case = map[bool]string{true: "upper", false: "capitalised"}[up]
	}
	return it
}

// c03Num draws one numeric input (or NULL / missing) for the regime.
func c03Num(r *rand.Rand, regime string) (any, bool) {
	nullP := 6 // one in nullP is NULL or missing
	switch regime {
	case "dense":
		nullP = 0
	case "nullheavy":
		nullP = 2
	case "ints", "large", "offset":
		nullP = 8
	}
	if nullP > 0 && r.Intn(nullP) == 0 {
		return nil, r.Intn(2) == 0
	}
	switch regime {
	case "offset": // a large common offset with a small spread (epoch-like readings)
		return 1.7e9 + float64(r.Intn(9))*0.5, true
	case "ints":
		return r.Intn(21) - 10, true
	case "large":
		switch r.Intn(3) {
		case 0:
			return float64(r.Intn(1e6)) * 1e3, true
		case 1:
			return -float64(r.Intn(1e6)) * 1e3, true
		}
		return r.Intn(2001) - 1000, true
	}
	switch r.Intn(9) {
	case 0:
		return 0, true
	case 1:
		return float64(r.Intn(5)) + 0.5, true
	case 2:
		return -float64(r.Intn(100)) / 4, true
	case 3:
		return float64(r.Intn(1e6)) * 1e3, true
	case 4:
		return int64(r.Intn(7)), true
	case 5:
		return 0.0, true
	default:
		return r.Intn(21) - 10, true
	}
}

func genC03(ref core.CaseRef, r *rand.Rand) *c03Case {
	c := &c03Case{CaseRef: ref}
	c.N = 1 + r.Intn(12)
	ncols := pick(r, []int{0, 1, 1, 2})
	c.Cols = []string{"g1", "g2"}[:ncols]
	c.Groups = 1
	if ncols > 0 {
		c.Groups = 1 + r.Intn(3)
	}
	c.Regime = pick(r, []string{"mixed", "mixed", "mixed", "dense", "nullheavy", "allnull", "allnull", "ints", "large", "offset"})
	c.Mode = pick(r, []string{"all", "all", "single", "single", "few"})
	// group key tuples (plain keys: grouping itself is C04's subject)
	type key struct {
		g1 string
		g2 int
	}
	all := []key{}
	for _, a := range []string{"a", "b", "c"} {
		for _, b := range []int{1, 2} {
			if ncols < 2 && b == 2 {
				continue
			}
			all = append(all, key{a, b})
		}
	}
	r.Shuffle(len(all), func(i, j int) { all[i], all[j] = all[j], all[i] })
	keys := all[:c.Groups]
	// the batch that is entirely NULL/missing in the "allnull" regime
	nullG, nullB := -1, -1
	if c.Regime == "allnull" {
		nullG, nullB = r.Intn(c.Groups), r.Intn(3)
	}
	valRegime := c.Regime
	if valRegime == "allnull" {
		valRegime = "mixed"
	}
	strs := []string{"a", "b", "c", "dd"}
	perGroup := make([][]Row, c.Groups)
	for g := range keys {
		for j := 0; j < 3*c.N; j++ {
			row := Row{}
			if ncols >= 1 {
				row["g1"] = keys[g].g1
			}
			if ncols >= 2 {
				row["g2"] = keys[g].g2
			}
			dead := g == nullG && j/c.N == nullB
			put := func(name string, v any, present bool) {
				if dead {
					if r.Intn(2) == 0 {
						row[name] = nil
					}
					return
				}
				if present {
					row[name] = v
				}
			}
			v, ok := c03Num(r, valRegime)
			put("v", v, ok)
			v, ok = c03Num(r, valRegime)
			put("w", v, ok)
			// nested object: missing, {} (leaf missing), {"x": NULL}, {"x": number}
			switch {
			case dead:
				switch r.Intn(3) {
				case 0:
					row["o"] = map[string]any{"x": nil}
				case 1:
					row["o"] = map[string]any{}
				}
			case valRegime != "dense" && r.Intn(10) == 0:
			case valRegime != "dense" && r.Intn(10) == 0:
				row["o"] = map[string]any{}
			default:
				x, ok := c03Num(r, valRegime)
				if ok {
					row["o"] = map[string]any{"x": x}
				} else {
					row["o"] = map[string]any{"y": 1}
				}
			}
			switch k := r.Intn(8); {
			case valRegime == "dense" || k >= 2:
				put("s", pick(r, strs), true)
			case k == 0:
				put("s", nil, true)
			}
			switch k := r.Intn(8); {
			case valRegime == "dense" || k >= 2:
				m := map[string]any{pick(r, []string{"a", "b", "c"}): r.Intn(5)}
				if r.Intn(2) == 0 {
					m[pick(r, []string{"a", "b", "c", "d"})] = r.Intn(5) + 10
				}
				put("m", m, true)
			case k == 0:
				put("m", nil, true)
			}
			perGroup[g] = append(perGroup[g], row)
		}
	}
	// interleave the groups, keeping each group's order
	pos := make([]int, c.Groups)
	id := 0
	for {
		live := []int{}
		for g := range perGroup {
			if pos[g] < len(perGroup[g]) {
				live = append(live, g)
			}
		}
		if len(live) == 0 {
			break
		}
		g := pick(r, live)
		// runs of the same group now and then, so that batches also arrive contiguously
		run := 1
		if r.Intn(3) == 0 {
			run = 1 + r.Intn(c.N)
		}
		for ; run > 0 && pos[g] < len(perGroup[g]); run-- {
			id++
			row := perGroup[g][pos[g]]
			row["id"] = id
			c.Rows = append(c.Rows, row)
			pos[g]++
		}
	}
	// select list
	var fns []string
	if ref.Index%7 == 5 {
		// numeric aggregates (plain and parameterised) over batches formed by GLOBAL WINDOW TRIGGER WHEN count(*) >= N
		c.Global, c.Mode = true, "global"
	}
	switch c.Mode {
	case "global":
		for i, k := 0, 2+r.Intn(3); i < k; i++ {
			fns = append(fns, pick(r, []string{"count", "sum", "avg", "min", "max", "percentile", "nth_value", "median", "stddevs"}))
		}
	case "all":
		fns = append([]string{}, c03AllFns...)
		fns = append(fns, "count") // count(*) and count(x) both
	case "few":
		for i, k := 0, 3+r.Intn(3); i < k; i++ {
			fns = append(fns, pick(r, c03AllFns))
		}
	default:
		fns = []string{pick(r, c03AllFns)}
	}
	for i, fn := range fns {
		it := c03GenItem(fn, c.N, r)
		if c.Mode == "all" && i == len(fns)-1 {
			it.Shape, it.Arg, it.SQL = "star", "*", "count(*)"
		}
		it.Alias = fmt.Sprintf("r%d", i)
		c.Items = append(c.Items, it)
	}
	if c.Mode == "all" {
		r.Shuffle(len(c.Items), func(i, j int) { c.Items[i], c.Items[j] = c.Items[j], c.Items[i] })
	}
	if r.Intn(6) == 0 {
		// an aggregate over an expression is given the name of an input column that another item aggregates
		// as a bare column: the other item still reads the input column
		for _, it := range c.Items {
			if it.Shape != "expr" || it.Arg2 != "" {
				continue
			}
			for _, other := range c.Items {
				if other != it && other.Shape == "bare" && (other.Arg == "v" || other.Arg == "w") && !strings.Contains(it.Arg, other.Arg) {
					taken := false
					for _, col := range c.Cols {
						taken = taken || col == other.Arg
					}
					if !taken {
						it.Alias = other.Arg
					}
					break
				}
			}
			if !strings.HasPrefix(it.Alias, "r") {
				break
			}
		}
	}
	sel := append([]string{}, c.Cols...)
	for _, it := range c.Items {
		sel = append(sel, it.SQL+" AS "+it.Alias)
	}
	sel = append(sel, "collect(id) AS ids")
	gb := append(append([]string{}, c.Cols...), fmt.Sprintf("CountingWindow(%d)", c.N))
	if c.Global {
		// the same batches of N rows per group, formed by a global window
		gb[len(gb)-1] = fmt.Sprintf("GLOBAL WINDOW TRIGGER WHEN count(*) >= %d", c.N)
	}
	c.SQL = "SELECT " + strings.Join(sel, ", ") + " FROM stream GROUP BY " + strings.Join(gb, ", ")
	c.Shuf = r.Int63()
	return c
}

func runC03(ctx *core.Ctx) {
	ctx.SetRule("case = one CountingWindow(N) query (N 1..12, 0-2 group columns, 1-3 groups, select list = all functions | 3-5 | one, " +
		"argument shapes bare/nested/expression, value regime) fed 3 batches per group, drawn from PRNG(seed,index); " +
		"non-trivial = at least 3 delivered batches were checked against the reference and some checked (function, batch) had >= 2 usable inputs; " +
		"distinct by (SQL, rows) hash")
	ctx.Assume("the rows of a delivered result are those named by its collect(id) witness column (batch composition itself is C09's subject)",
		"undefined cases accept: NULL or 0 for stddev/var/median/percentile over no input and for stddevs/vars over one input; NaN/Inf never",
		"percentile accepts the interpolation interval around p(n-1) and the nearest-rank value",
		"deduplicate(x,false) is only required to be a duplicate-free list of the batch's values (the guide does not define it)")
	n := ctx.N(400, 12000)
	ctx.Cases("c03", n, workers(), func(i int, r *rand.Rand) {
		c := genC03(core.CaseRef{Stream: "c03", Index: i}, r)
		execC03(ctx, c)
	})
}

type c03Batch struct {
	label string // readable group key
	key   string
	idx   int // 0,1,2 within the group
	rows  []Row
}

func c03Copy(rows []Row) []Row {
	out := make([]Row, len(rows))
	for i, r := range rows {
		out[i] = eng.DeepCopyMap(r)
	}
	return out
}

func c03IDKey(ids []int) string {
	p := make([]string, len(ids))
	for i, v := range ids {
		p[i] = strconv.Itoa(v)
	}
	return strings.Join(p, ",")
}

func c03RowIDs(rows []Row) []int {
	out := make([]int, len(rows))
	for i, r := range rows {
		out[i] = r["id"].(int)
	}
	return out
}

// c03ArgCols lists the input columns an argument reads (for a compact failing-input rendering).
func c03ArgCols(arg string) []string {
	cols := []string{}
	for _, c := range []string{"v", "w", "s", "m"} {
		for _, tok := range strings.FieldsFunc(arg, func(r rune) bool { return strings.ContainsRune("+-*/() ", r) }) {
			if tok == c {
				cols = append(cols, c)
				break
			}
		}
	}
	if strings.Contains(arg, "o.x") {
		cols = append(cols, "o")
	}
	return cols
}

func c03Project(rows []Row, arg string) string {
	cols := c03ArgCols(arg)
	out := make([]Row, len(rows))
	for i, r := range rows {
		p := Row{"id": r["id"]}
		for _, c := range cols {
			if v, ok := r[c]; ok {
				p[c] = v
			}
		}
		out[i] = p
	}
	return core.J(out)
}

// c03Fresh runs the query on a fresh instance fed only `rows`; nil ⇒ no usable single result.
func c03Fresh(sql string, rows []Row) (Row, string) {
	// A CountingWindow(N) instance fed exactly N rows of one key produces exactly one batch, so the
	// run ends as soon as that delivery was recorded (10 s watchdog ⇒ no verdict).
	s, err := eng.New(sql, c03Opts)
	if err != nil {
		return nil, "execute error: " + err.Error()
	}
	rec := eng.Attach(s)
	for _, row := range c03Copy(rows) {
		rec.Emit(row)
	}
	got := rec.WaitDeliveries(1, 10*time.Second)
	over := rec.Overloaded()
	s.Stop()
	dels := rec.Deliveries()
	if over {
		return nil, "overload"
	}
	if !got || len(dels) != 1 || len(dels[0].Rows) != 1 {
		return nil, fmt.Sprintf("%d deliveries", len(dels))
	}
	out := dels[0].Rows[0]
	ids, ok := idList(out["ids"])
	if !ok || !intsEq(sortedInts(ids), sortedInts(c03RowIDs(rows))) {
		return nil, "witness mismatch"
	}
	return out, ""
}

func execC03(ctx *core.Ctx, c *c03Case) {
	// expected batches: per key tuple, consecutive slices of N rows
	perKey := map[string][]Row{}
	order := []string{}
	for _, row := range c.Rows {
		k := tuple(row, c.Cols)
		if _, ok := perKey[k]; !ok {
			order = append(order, k)
		}
		perKey[k] = append(perKey[k], row)
	}
	byIDs := map[string]*c03Batch{}
	for _, k := range order {
		rows := perKey[k]
		for b := 0; (b+1)*c.N <= len(rows); b++ {
			bt := &c03Batch{key: k, idx: b, rows: rows[b*c.N : (b+1)*c.N]}
			lab := []string{}
			for _, col := range c.Cols {
				lab = append(lab, fmt.Sprintf("%s=%v", col, rows[0][col]))
			}
			bt.label = "(" + strings.Join(lab, ",") + ")"
			byIDs[c03IDKey(c03RowIDs(bt.rows))] = bt
		}
	}
	sig := c.SQL + core.J(c.Rows)
	res := runWindow(c.SQL, c03Copy(c.Rows), runOpts{Opts: c03Opts, Expect: len(byIDs)})
	if res.Err != nil {
		if strings.Contains(res.Err.Error(), "PANIC") {
			ctx.Violate(core.Violation{Kind: "query.execute_panic", Attrs: map[string]string{"mode": c.Mode}, Detail: c.SQL + ": " + res.Err.Error(), Case: c})
		} else {
			ctx.Count("queries_rejected", 1)
			ctx.Inconclusive("query rejected by Execute: " + res.Err.Error())
		}
		ctx.Case(sig, false, nil)
		return
	}
	if res.Overloaded {
		ctx.Inconclusive("engine declared overload")
		ctx.Case(sig, false, nil)
		return
	}
	reported := map[string]bool{}
	violate := func(kind string, it *c03Item, bt *c03Batch, got any, detail string) {
		cells := []c03Cell{}
		if it.Shape != "star" {
			cells = c03Cells(it.Arg, bt.rows)
		}
		nulls, usable := "no", 0
		for _, cl := range cells {
			if !cl.present || cl.val == nil {
				nulls = "yes"
			} else {
				usable++
			}
		}
		if it.Shape == "star" {
			usable = len(bt.rows)
		}
		allNull := "no"
		if usable == 0 {
			allNull = "yes"
		}
		attrs := map[string]string{"function": it.Fn, "shape": it.Shape, "arg": it.Arg, "variant": it.variant(), "nulls": nulls,
			"n": strconv.Itoa(usable), "rows": strconv.Itoa(len(bt.rows)), "all_null": allNull, "mode": c.Mode, "got": "-"}
		if strings.HasSuffix(kind, ".wrong_value") {
			attrs["got"] = c03Classify(it, bt.rows, got)
		}
		fl := ""
		if it.Fn == "deduplicate" {
			fl = " " + it.variant()
		}
		ctx.Count("flag."+kind+"["+it.Shape+" "+it.Arg+fl+" nulls="+nulls+" got="+attrs["got"]+"]", 1)
		dk := kind + "|" + it.Shape + "|" + it.Arg + "|" + it.variant() + "|" + nulls + "|" + allNull + "|" + attrs["got"]
		if reported[dk] {
			return
		}
		reported[dk] = true
		ctx.Violate(core.Violation{Kind: kind, Attrs: attrs, Detail: detail, Case: c})
	}
	checked, richest := 0, 0
	seen := map[*c03Batch]bool{}
	ordinal := map[string]int{} // deliveries seen so far per reported group key
	witness := &c03Item{Fn: "collect", Shape: "witness", Arg: "id", Alias: "ids", SQL: "collect(id)"}
	items := append(append([]*c03Item{}, c.Items...), witness)
	for _, d := range res.Dels {
		if len(d.Rows) != 1 {
			ctx.Count("deliveries_skipped_not_one_row", 1)
			continue
		}
		out := d.Rows[0]
		k := tuple(out, c.Cols)
		ord := ordinal[k]
		ordinal[k]++
		ids, ok := idList(out["ids"])
		var bt *c03Batch
		if ok {
			bt = byIDs[c03IDKey(ids)]
		}
		if bt == nil && ord < len(perKey[k])/c.N {
			// The witness names no counting batch.  If it still contains every row of the batch that is
			// due for this key (the ord-th N rows — C09), the witness aggregate itself is off (e.g.
			// values leaked from an earlier batch): judge the delivery against the due batch, the
			// witness column included.  Any other witness means another batch composition: C09's subject.
			due := &c03Batch{key: k, idx: ord, rows: perKey[k][ord*c.N : (ord+1)*c.N]}
			has := map[int]bool{}
			for _, id := range ids {
				has[id] = true
			}
			contains := true
			for _, id := range c03RowIDs(due.rows) {
				contains = contains && has[id]
			}
			if !ok || contains {
				bt = byIDs[c03IDKey(c03RowIDs(due.rows))]
				ctx.Count("deliveries_identified_by_ordinal", 1)
			}
		}
		if bt == nil || seen[bt] {
			ctx.Count("deliveries_skipped_unknown_batch", 1)
			continue
		}
		seen[bt] = true
		checked++
		ctx.Count("batches_checked", 1)
		// --- reference ---------------------------------------------------------------
		for _, it := range items {
			got := out[it.Alias]
			ctx.Count("values_compared", 1)
			ctx.Count("fn."+it.Fn+"."+it.Shape, 1)
			if it.Shape != "star" && it.Shape != "witness" {
				if u := len(c03NonNull(c03Cells(it.Arg, bt.rows))); u > richest {
					richest = u
				} else if u == 0 {
					ctx.Count("values_compared_no_usable_input", 1)
				}
			}
			if (it.Fn == "first_value" || it.Fn == "last_value") && it.Shape != "expr" {
				cells := c03Cells(it.Arg, bt.rows)
				edge := cells[0]
				if it.Fn == "last_value" {
					edge = cells[len(cells)-1]
				}
				if edge.present && edge.val == nil {
					ctx.Count("first_last_edge_row_explicit_null", 1)
				}
			}
			switch it.Fn {
			case "collect", "deduplicate":
				if v, want := c03CheckList(it, bt.rows, got); v != "" {
					violate(it.Fn+"."+v, it, bt, got, fmt.Sprintf("%s = %s (%T), definition gives %s; batch #%d of group %s rows %s; query: %s",
						it.SQL, c03Show(got), got, want, bt.idx+1, bt.label, c03Project(bt.rows, it.Arg), c.SQL))
				}
			case "merge_agg":
				if v, want := c03CheckMerge(it, bt.rows, got); v != "" {
					violate(it.Fn+"."+v, it, bt, got, fmt.Sprintf("%s = %s (%T), definition gives %s; batch #%d of group %s rows %s; query: %s",
						it.SQL, c03Show(got), got, want, bt.idx+1, bt.label, c03Project(bt.rows, it.Arg), c.SQL))
				}
			default:
				exp := c03Scalar(it, bt.rows)
				if !exp.matches(got) {
					violate(it.Fn+".wrong_value", it, bt, got, fmt.Sprintf("%s = %s (%T), definition gives %s; batch #%d of group %s rows %s; query: %s",
						it.SQL, c03Show(got), got, exp.String(), bt.idx+1, bt.label, c03Project(bt.rows, it.Arg), c.SQL))
				}
			}
		}
		// --- no state leak: a fresh instance fed only this batch ------------------------
		fresh, why := c03Fresh(c.SQL, bt.rows)
		ctx.Count("fresh_runs", 1)
		if fresh == nil {
			ctx.Count("fresh_runs_unusable", 1)
			ctx.Inconclusive("fresh-instance run gave no single result: " + why)
			continue
		}
		for _, it := range items {
			ctx.Count("leak_compares", 1)
			if !c03DeepEq(out[it.Alias], fresh[it.Alias]) {
				violate(it.Fn+".state_leak", it, bt, nil, fmt.Sprintf("%s = %s in the long-running instance (batch #%d of group %s, after %d earlier deliveries) but %s in a fresh instance fed only this batch; rows %s; query: %s",
					it.SQL, c03Show(out[it.Alias]), bt.idx+1, bt.label, d.Index, c03Show(fresh[it.Alias]), c03Project(bt.rows, it.Arg), c.SQL))
			}
		}
		// --- permutation invariance -----------------------------------------------------
		if len(bt.rows) < 2 {
			continue
		}
		hasFree := false
		for _, it := range c.Items {
			hasFree = hasFree || c03OrderFree[it.Fn]
		}
		if !hasFree {
			continue
		}
		pr := rand.New(rand.NewSource(c.Shuf + int64(ids[0])))
		sh := append([]Row{}, bt.rows...)
		for tries := 0; tries < 4; tries++ {
			pr.Shuffle(len(sh), func(i, j int) { sh[i], sh[j] = sh[j], sh[i] })
			if !intsEq(c03RowIDs(sh), c03RowIDs(bt.rows)) {
				break
			}
		}
		shuf, why := c03Fresh(c.SQL, sh)
		ctx.Count("shuffle_runs", 1)
		if shuf == nil {
			ctx.Count("fresh_runs_unusable", 1)
			ctx.Inconclusive("shuffled fresh-instance run gave no single result: " + why)
			continue
		}
		for _, it := range c.Items {
			if !c03OrderFree[it.Fn] {
				continue
			}
			ctx.Count("shuffle_compares", 1)
			a, b := fresh[it.Alias], shuf[it.Alias]
			same := false
			fa, oka := toF(a)
			fb, okb := toF(b)
			switch {
			case a == nil || b == nil:
				same = a == nil && b == nil
			case oka && okb:
				same = c03Close(fa, fb, c03Scalar(it, bt.rows).scale)
			default:
				same = c03DeepEq(a, b)
			}
			if !same {
				violate(it.Fn+".order_dependent", it, bt, nil, fmt.Sprintf("%s = %s for the batch in order %v but %s for the same rows in order %v (fresh instances); rows %s; query: %s",
					it.SQL, c03Show(a), c03RowIDs(bt.rows), c03Show(b), c03RowIDs(sh), c03Project(bt.rows, it.Arg), c.SQL))
			}
		}
	}
	if checked < len(byIDs) {
		ctx.Count("batches_not_delivered", int64(len(byIDs)-checked))
		ctx.Inconclusive(fmt.Sprintf("%d of %d expected batches were not delivered/identified (no aggregate value to judge)", len(byIDs)-checked, len(byIDs)))
	}
	var sample any
	if c.Index < 3 {
		fl := []string{}
		for _, it := range c.Items {
			fl = append(fl, it.SQL)
		}
		sort.Strings(fl)
		sample = map[string]any{"sql": c.SQL, "rows": len(c.Rows), "groups": c.Groups, "n": c.N, "regime": c.Regime, "items": fl, "batches_checked": checked, "first_rows": c.Rows[:min(3, len(c.Rows))]}
	}
	ctx.Case(sig, checked >= 3 && richest >= 2, sample)
}

// small buffers: a case feeds at most 108 rows with the blocking strategy, so nothing can be dropped;
// the default 4096-slot channels only cost allocation time per instance (≈15 instances per case).
var c03Opts = eng.Opts{DataChan: 256, ResultChan: 256, WindowOut: 256}
