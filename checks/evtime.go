package checks

import (
	"fmt"
	"math/rand"
	"sort"
	"strings"
	"sync"
	"sync/atomic"
	"time"

	"verif/internal/core"
	"verif/internal/eng"
	"verif/internal/sched"
)

// Shared machinery of the event-time window monitors (C01, C02, C08, C10).

type evRow struct {
	ID int    `json:"id"`
	TS int64  `json:"ts"` // ms relative to baseTs; meaningless for garbage without timestamp
	K  any    `json:"k"`
	V  int    `json:"v"`
	G  string `json:"g,omitempty"` // "" | future | missing | nil | text | toolate
}

// evK2 is a two-column grouping key (columns k, k2).
type evK2 struct {
	A any `json:"k"`
	B any `json:"k2"`
}

type evCase struct {
	core.CaseRef
	Kind    string  `json:"kind"` // tumbling | sliding | session
	SizeMs  int64   `json:"size_ms"`
	SlideMs int64   `json:"slide_ms,omitempty"`
	MooMs   int64   `json:"moo_ms"`
	AlMs    int64   `json:"al_ms"`
	Grouped bool    `json:"grouped"`
	Rows    []evRow `json:"rows"`
	Feed    string  `json:"feed"` // burst | paced | step
	SQL     string  `json:"sql"`
	Pattern string  `json:"pattern"`
	Tail    int64   `json:"sentinel_ts"`
	// back-pressure: a tiny window output buffer and a slow synchronous sink hold the trigger goroutine up
	WinOut      int `json:"window_output_buffer,omitempty"`
	SinkDelayMs int `json:"sink_delay_ms,omitempty"`
	// Base (absolute ms, a multiple of 60 060 000) replaces baseTs when non-zero: "ahead of the clock" cases
	// place the whole sequence a few hours in the future (legitimate: < 24 h), so that far-future garbage can be
	// more than 24 h ahead of the clock and yet less than 24 h ahead of the events already accepted.
	Base int64 `json:"base_abs_ms,omitempty"`
	// FloatTS: timestamps are emitted as float64 (what encoding/json produces for every number)
	FloatTS bool `json:"float_timestamps,omitempty"`
	// K2: GROUP BY k, k2 (rows carry evK2 keys)
	K2 bool `json:"two_key_columns,omitempty"`
	// complete, when set, says whether every result the oracle is going to demand has been delivered.  The
	// delivery COUNT can reach the expected number through results that are merely allowed (intervals holding
	// only late-kept rows), so the count alone does not tell that the engine is done.
	complete func([]eng.Delivery) bool
}

func (c *evCase) base() int64 {
	if c.Base != 0 {
		return c.Base
	}
	return baseTs
}

func durStr(ms int64) string {
	if ms%60000 == 0 && ms > 0 {
		return fmt.Sprintf("%dm", ms/60000)
	}
	if ms%1000 == 0 {
		return fmt.Sprintf("%ds", ms/1000)
	}
	return fmt.Sprintf("%dms", ms)
}

func (c *evCase) buildSQL() {
	c.FloatTS = c.Index%4 == 2
	var w string
	switch c.Kind {
	case "tumbling":
		w = fmt.Sprintf("TumblingWindow('%s')", durStr(c.SizeMs))
	case "sliding":
		w = fmt.Sprintf("SlidingWindow('%s','%s')", durStr(c.SizeMs), durStr(c.SlideMs))
	case "session":
		w = fmt.Sprintf("SessionWindow('%s')", durStr(c.SizeMs))
	}
	sel := "count(*) AS c, sum(v) AS s, min(v) AS mn, max(v) AS mx, collect(id) AS ids, window_start() AS ws, window_end() AS we"
	gb := w
	if c.Grouped {
		sel = "k, " + sel
		gb = "k, " + w
		if c.K2 {
			sel = "k, k2, " + sel[3:]
			gb = "k, k2, " + w
		}
	}
	with := "TIMESTAMP='ts', TIMEUNIT='ms'"
	if c.MooMs > 0 {
		with += fmt.Sprintf(", MAXOUTOFORDERNESS='%s'", durStr(c.MooMs))
	}
	if c.AlMs > 0 {
		with += fmt.Sprintf(", ALLOWEDLATENESS='%s'", durStr(c.AlMs))
	}
	c.SQL = "SELECT " + sel + " FROM stream GROUP BY " + gb + " WITH (" + with + ")"
}

// evTimestamps generates a timestamp sequence of one of the §4.4 patterns (ms offsets ≥ 0).
func evTimestamps(r *rand.Rand, n int, size, moo int64, pattern string) []int64 {
	ts := make([]int64, 0, n)
	start := int64(r.Intn(5)) * size
	if r.Intn(2) == 0 {
		start += int64(r.Intn(int(size)))
	}
	start += 4 * (moo + size) // room for events earlier than the first one
	t := start
	step := func() int64 {
		if size >= 5000 && r.Intn(40) == 0 {
			// the source was silent for more than a day of event time (timestamps stay far in the past).
			// Only with windows of 5 s and more: the engine walks through the empty windows one by one
			// (about a second per 600 000 windows under the race detector), which is slow but not wrong,
			// and the harness's bounded wait must not mistake that for a lost result
			return int64(25+r.Intn(30))*3600*1000 + int64(r.Intn(int(size)))
		}
		switch r.Intn(6) {
		case 0:
			return 0 // duplicate timestamp
		case 1:
			return size // exactly one window further
		case 2:
			return int64(r.Intn(int(2*size) + 1))
		default:
			return int64(r.Intn(int(size/3) + 1))
		}
	}
	for i := 0; i < n; i++ {
		t += step()
		v := t
		switch pattern {
		case "inorder":
		case "boundary":
			if r.Intn(5) == 0 && i+1 < n {
				// the last millisecond of a window: one row makes the watermark rest exactly there
				// (ts = end-1+MOO), then an on-time row with ts = end-1 follows (a duplicate when MOO = 0)
				e := (t/size+1)*size - 1
				ts = append(ts, e+moo, e)
				t = e + moo
				i++
				continue
			}
			if r.Intn(3) == 0 {
				v = (t / size) * size // exactly on a boundary
				t = v
			}
		case "jitter": // out of order within MOO (on time)
			if moo > 0 && r.Intn(2) == 0 {
				v = t - int64(r.Intn(int(moo)+1))
			}
		case "late": // some beyond MOO
			if r.Intn(4) == 0 {
				v = t - moo - 1 - int64(r.Intn(int(3*size)))
			} else if moo > 0 && r.Intn(3) == 0 {
				v = t - int64(r.Intn(int(moo)+1))
			}
		case "early": // events earlier than the first one seen (still on time)
			if i > 0 && i < 4 && moo > 0 {
				v = start - int64(r.Intn(int(moo)+1))
			}
		}
		if v < 0 {
			v = 0
		}
		ts = append(ts, v)
	}
	return ts
}

// evOnTime replays the emit log: row i is on time iff ts ≥ (max valid ts so far, including itself) − MOO.
// Garbage rows (no usable timestamp / far future) never advance the maximum.
func evOnTime(rows []evRow, moo int64) (onTime []bool, wmAt []int64) {
	onTime = make([]bool, len(rows))
	wmAt = make([]int64, len(rows)) // watermark (max − MOO) after the row's arrival; -1<<62 before any
	max := int64(-1 << 62)
	for i, r := range rows {
		if r.G == "" || r.G == "toolate" {
			if r.TS > max {
				max = r.TS
			}
			onTime[i] = r.TS >= max-moo
		}
		wmAt[i] = max - moo
	}
	return
}

type evEmit struct {
	DelsAtStart int // deliveries recorded when this Emit started
}

type evRun struct {
	Dels      []eng.Delivery
	Emits     []evEmit
	Quiescent bool
	Overload  bool
	Err       error
}

var evPerturbOnce sync.Once

// evCtx, when set by the running check, receives what every executed case let the monitor observe:
// the emit/delivery interleaving fingerprint (how many Emit calls had started at each delivery) and
// the feed/back-pressure configuration it ran under.
var evCtx *core.Ctx

func evObserve(c *evCase, out *evRun) {
	ctx := evCtx
	if ctx == nil {
		return
	}
	var b strings.Builder
	for _, d := range out.Dels {
		fmt.Fprintf(&b, "%d,", d.Started)
	}
	ctx.Seen("emit_delivery_interleavings", b.String())
	ctx.Seen("feed_configs", fmt.Sprintf("%s/%s/w%d/s%d", c.Kind, c.Feed, c.WinOut, c.SinkDelayMs))
	ctx.Count("observed.deliveries", int64(len(out.Dels)))
	ctx.Count("observed.emit_calls", int64(len(out.Emits)))
	mid := 0
	for _, d := range out.Dels {
		if int(d.Started) < len(out.Emits) {
			mid++
		}
	}
	ctx.Count("observed.deliveries_while_producer_still_emitting", int64(mid))
}

func evPerturb() {
	evPerturbOnce.Do(func() {
		sched.Seed(12345)
		sched.Set(&sched.Perturb{Prob: map[string]float64{
			"tumbling.": 0.04, "sliding.": 0.04, "session.": 0.04, "proc.chan_read": 0.01,
			// the lock is released around the delivery of a late update: hold the ingest goroutine there often
			"tumbling.late.unlocked": 0.5, "sliding.late.unlocked": 0.5, "session.late.unlocked": 0.5,
		}, MaxSleep: 400 * time.Microsecond})
	})
}

func (c *evCase) rowMap(r evRow) Row {
	m := Row{"id": r.ID, "v": r.V}
	if c.Grouped || c.Kind == "session" {
		m["k"] = r.K
		if k2, ok := r.K.(evK2); ok {
			m["k"], m["k2"] = k2.A, k2.B
		}
	}
	switch r.G {
	case "future":
		if c.Base != 0 {
			m["ts"] = c.Base + 22*3600*1000 + r.TS // > now+24h+MOO, but < 24 h beyond the accepted events
		} else {
			m["ts"] = time.Now().Add(72 * time.Hour).UnixMilli()
		}
	case "missing":
	case "nil":
		m["ts"] = nil
	case "text":
		m["ts"] = "not-a-time"
	default:
		m["ts"] = c.base() + r.TS
		if c.FloatTS {
			m["ts"] = float64(c.base() + r.TS) // the same instant as a JSON decoder delivers it
		}
	}
	return m
}

// run executes the case: rows, then the sentinel; expectWindows (≥0) enables the fast path.
func (c *evCase) run(expectDels int) evRun {
	evPerturb()
	s, err := eng.New(c.SQL, eng.Opts{WindowOut: c.WinOut})
	if err != nil {
		return evRun{Err: err}
	}
	if c.SinkDelayMs > 0 {
		d := time.Duration(c.SinkDelayMs) * time.Millisecond
		s.AddSyncSink(func([]map[string]any) { time.Sleep(d) })
	}
	rec := eng.Attach(s)
	defer s.Stop()
	out := evRun{Emits: make([]evEmit, 0, len(c.Rows)+1)}
	pauses := 0
	emit := func(r evRow) {
		out.Emits = append(out.Emits, evEmit{DelsAtStart: rec.NDeliveries()})
		rec.Emit(c.rowMap(r))
		switch c.Feed {
		case "slow":
			// a producer that pauses for longer than the watermark's own update period (200 ms) a few times
			if len(out.Emits)%3 == 1 && pauses < 7 {
				pauses++
				time.Sleep(230 * time.Millisecond)
			} else {
				time.Sleep(150 * time.Microsecond)
			}
		case "paced":
			time.Sleep(150 * time.Microsecond)
		case "step":
			for k := 0; k < 2000; k++ {
				if s.GetStats()["data_chan_len"] == 0 {
					break
				}
				time.Sleep(50 * time.Microsecond)
			}
			time.Sleep(1200 * time.Microsecond)
		}
	}
	for _, r := range c.Rows {
		emit(r)
	}
	emit(evRow{ID: -1, TS: c.Tail, K: "__sentinel__", V: 0})
	if expectDels >= 0 && rec.WaitDeliveries(expectDels, 3*time.Second+time.Duration(c.SinkDelayMs*(expectDels+2))*time.Millisecond) {
		out.Quiescent = rec.Quiesce(3, 8*time.Millisecond, 5*time.Second)
	} else {
		out.Quiescent = rec.Quiesce(3, 260*time.Millisecond, 60*time.Second)
		// confirmation: the statistics cannot show a trigger goroutine that has not yet looked at the last
		// watermark; a delivery arriving during a further 300 ms restarts the wait
		for k := 0; k < 5 && out.Quiescent; k++ {
			n0 := rec.NDeliveries()
			time.Sleep(300 * time.Millisecond)
			if rec.NDeliveries() == n0 {
				break
			}
			out.Quiescent = rec.Quiesce(3, 260*time.Millisecond, 60*time.Second)
		}
		if out.Quiescent && expectDels >= 0 && rec.NDeliveries() < expectDels {
			// something is missing: give a loaded machine a lot more time before calling it lost
			rec.WaitDeliveries(expectDels, 4*time.Second)
		}
	}
	if c.complete != nil && !c.complete(rec.Deliveries()) {
		// Something the oracle demands is still absent.  It is only called lost after the engine has stayed
		// silent for four consecutive rounds of 3 polls 260 ms apart (> 3 s, many watermark ticks) - a loaded
		// machine can hold the trigger goroutine up far longer than the fast path above waits.
		quiet := 0
		for round := 0; quiet < 4 && round < 40; round++ {
			n0 := rec.NDeliveries()
			ok := rec.Quiesce(3, 260*time.Millisecond, 10*time.Second)
			if c.complete(rec.Deliveries()) {
				break
			}
			if ok && rec.NDeliveries() == n0 {
				quiet++
			} else {
				quiet = 0
			}
		}
		out.Quiescent = quiet >= 4 || c.complete(rec.Deliveries())
		if evCtx != nil {
			evCtx.Count("observed.cases_that_needed_the_long_wait", 1)
		}
	}
	out.Dels = rec.Deliveries()
	out.Overload = rec.Overloaded()
	evObserve(c, &out)
	return out
}

// evWin is one delivered result row decoded.
type evWin struct {
	Del    int
	Start  int64 // ms relative to baseTs
	End    int64
	K      any
	IDs    []int
	Row    Row
	WinID  string
	Start0 int64 // Started counter at delivery
}

var evDecodeErrs int64

func evDecode(dels []eng.Delivery) ([]evWin, error) {
	var out []evWin
	for _, d := range dels {
		for _, row := range d.Rows {
			ws, ok1 := toI(row["ws"])
			we, ok2 := toI(row["we"])
			ids, ok3 := idList(row["ids"])
			if !ok1 || !ok2 || !ok3 {
				atomic.AddInt64(&evDecodeErrs, 1)
				return nil, fmt.Errorf("undecodable result row %s", core.J(row))
			}
			if ws%1e6 != 0 || we%1e6 != 0 {
				return nil, fmt.Errorf("window bounds not on a millisecond: %s", core.J(row))
			}
			wid, _ := row["window_id"].(string)
			out = append(out, evWin{Del: d.Index, Start: ws/1e6 - baseTs, End: we/1e6 - baseTs, K: row["k"], IDs: ids, Row: row, WinID: wid, Start0: d.Started})
		}
	}
	return out, nil
}

func floorDiv(a, b int64) int64 {
	q := a / b
	if a%b != 0 && (a < 0) != (b < 0) {
		q--
	}
	return q
}

// evAggCheck verifies count/sum/min/max of a result row against its witness ids.
func evAggCheck(w evWin, byID map[int]evRow) string {
	if len(w.IDs) == 0 {
		return "empty witness list"
	}
	var sum float64
	mn, mx := 0, 0
	for i, id := range w.IDs {
		r, ok := byID[id]
		if !ok {
			return fmt.Sprintf("witness id %d is not an input row", id)
		}
		sum += float64(r.V)
		if i == 0 || r.V < mn {
			mn = r.V
		}
		if i == 0 || r.V > mx {
			mx = r.V
		}
	}
	if !numEq(w.Row["c"], len(w.IDs)) || !numEq(w.Row["s"], sum) || !numEq(w.Row["mn"], mn) || !numEq(w.Row["mx"], mx) {
		return fmt.Sprintf("aggregates c=%v s=%v mn=%v mx=%v differ from the witness rows' c=%d s=%v mn=%d mx=%d", w.Row["c"], w.Row["s"], w.Row["mn"], w.Row["mx"], len(w.IDs), sum, mn, mx)
	}
	return ""
}

func evKeyDomain(r *rand.Rand, grouped bool) []any {
	if !grouped {
		return []any{nil}
	}
	n := 1 + r.Intn(4)
	out := []any{}
	for i := 0; i < n; i++ {
		out = append(out, plainKeys[i])
	}
	return out
}

func evShape(c *evCase) map[string]string {
	first := "normal"
	if len(c.Rows) > 0 && c.Rows[0].G != "" {
		first = "garbage:" + c.Rows[0].G
	}
	// is there an on-time row earlier than the first valid row's aligned slot?
	early := "no"
	align := c.SizeMs
	if c.Kind == "sliding" {
		align = c.SlideMs
	}
	var firstValid *evRow
	for i := range c.Rows {
		if c.Rows[i].G == "" {
			firstValid = &c.Rows[i]
			break
		}
	}
	if firstValid != nil && c.Kind != "session" {
		on, _ := evOnTime(c.Rows, c.MooMs)
		slot := floorDiv(firstValid.TS, align) * align
		for i, r := range c.Rows {
			if r.G == "" && on[i] && r.TS < slot {
				early = "yes"
			}
		}
	}
	return map[string]string{"kind": c.Kind, "first_row": first, "early_on_time_row": early,
		"moo": fmt.Sprint(c.MooMs > 0), "al": fmt.Sprint(c.AlMs > 0), "pattern": c.Pattern, "feed": c.Feed}
}

func evSample(c *evCase, nd int) any {
	n := len(c.Rows)
	if n > 6 {
		n = 6
	}
	return map[string]any{"sql": c.SQL, "rows": len(c.Rows), "first_rows": c.Rows[:n], "feed": c.Feed, "pattern": c.Pattern, "deliveries": nd}
}

func sortedKeys[M ~map[string]V, V any](m M) []string {
	ks := make([]string, 0, len(m))
	for k := range m {
		ks = append(ks, k)
	}
	sort.Strings(ks)
	return ks
}

func idsStr(ids []int) string { return strings.Trim(fmt.Sprint(ids), "[]") }
