//go:build verif

package checks

import (
	"fmt"
	"math/rand"

	"verif/internal/core"
	"verif/internal/eng"
)

// c16multi: one stream joined with TWO tables in one statement, every combination of INNER (written JOIN or
// INNER JOIN) and LEFT [OUTER] for the two joins.  A row is output iff every INNER join finds its table row;
// the columns of a LEFT join without a match are NULL.  Direct query, EmitSync, sequential reference.

type c16MultiCase struct {
	core.CaseRef
	SQL   string   `json:"sql"`
	Joins []string `json:"joins"`
	T1    []Row    `json:"table_one"`
	T2    []Row    `json:"table_two"`
	Rows  []Row    `json:"rows"`
}

func c16MultiStream(ctx *core.Ctx) {
	n := ctx.N(36, 600)
	ctx.Cases("c16multi", n, workers(), func(i int, r *rand.Rand) {
		c16MultiOne(ctx, core.CaseRef{Stream: "c16multi", Index: i}, r)
	})
}

func c16MultiOne(ctx *core.Ctx, ref core.CaseRef, r *rand.Rand) {
	kws := []string{"JOIN", "INNER JOIN", "LEFT JOIN", "LEFT OUTER JOIN"}
	j1, j2 := kws[ref.Index%4], kws[(ref.Index/4)%4]
	left := func(kw string) bool { return kw[0] == 'L' }
	c := &c16MultiCase{CaseRef: ref, Joins: []string{j1, j2}}
	c.SQL = fmt.Sprintf("SELECT s.id AS id, s.v AS v, a.x AS ax, b.y AS bv FROM stream s %s t1 a ON s.k1 = a.k %s t2 b ON s.k2 = b.k", j1, j2)
	m1, m2 := map[int]Row{}, map[int]Row{}
	for k := 0; k < 6; k++ {
		if r.Intn(2) == 0 {
			row := Row{"k": k, "x": 100 + k}
			m1[k] = row
			c.T1 = append(c.T1, row)
		}
		if r.Intn(2) == 0 {
			row := Row{"k": k, "y": fmt.Sprintf("y%d", k)}
			m2[k] = row
			c.T2 = append(c.T2, row)
		}
	}
	for i := 1; i <= 24; i++ {
		c.Rows = append(c.Rows, Row{"id": i, "v": r.Intn(50), "k1": r.Intn(6), "k2": r.Intn(6)})
	}
	attrs := map[string]string{"joins": j1 + " + " + j2, "mode": "two_tables"}
	viol := func(kind, detail string) {
		ctx.Violate(core.Violation{Kind: kind, Attrs: attrs, Detail: detail + "\nSQL: " + c.SQL, Case: c})
	}
	s, err := eng.New(c.SQL, eng.Opts{})
	if err != nil {
		viol("join.execute_error", err.Error())
		return
	}
	defer s.Stop()
	cp := func(rows []Row) []map[string]any {
		out := make([]map[string]any, len(rows))
		for i, row := range rows {
			out[i] = c16Copy(row)
		}
		return out
	}
	var rerr error
	err, pan := c16Safe(func() error {
		if _, e := s.RegisterTable("t1", cp(c.T1), "k"); e != nil {
			return e
		}
		_, e := s.RegisterTable("t2", cp(c.T2), "k")
		return e
	})
	if err != nil || pan {
		rerr = err
		viol("join.register_error", fmt.Sprintf("RegisterTable failed: %v (panic %v)", rerr, pan))
		return
	}
	kept, dropped := 0, 0
	for _, row := range c.Rows {
		var got map[string]any
		err, pan := c16Safe(func() error {
			var e error
			got, e = s.EmitSync(c16Copy(row))
			return e
		})
		if pan {
			viol("join.panic", fmt.Sprintf("EmitSync(%v) panicked: %v", row, err))
			return
		}
		t1, ok1 := m1[row["k1"].(int)]
		t2, ok2 := m2[row["k2"].(int)]
		want := (ok1 || left(j1)) && (ok2 || left(j2))
		ctx.Count("multi.rows_checked", 1)
		if !want {
			dropped++
			if got != nil {
				viol("join.inner_unmatched_not_dropped", fmt.Sprintf("row %v has %s and %s, so the %s / %s combination must drop it; it was output as %v",
					row, map[bool]string{true: "a match in t1", false: "no match in t1"}[ok1], map[bool]string{true: "a match in t2", false: "no match in t2"}[ok2], j1, j2, got))
				return
			}
			continue
		}
		kept++
		if got == nil {
			viol("join.left_unmatched_dropped", fmt.Sprintf("row %v (t1 match %v, t2 match %v) must be output by %s / %s but was dropped (err %v)", row, ok1, ok2, j1, j2, err))
			return
		}
		var wantX, wantY any
		if ok1 {
			wantX = t1["x"]
		}
		if ok2 {
			wantY = t2["y"]
		}
		if !valEq(got["ax"], wantX) || !valEq(got["bv"], wantY) || !numEq(got["id"], row["id"]) {
			viol("join.wrong_table_columns", fmt.Sprintf("row %v: expected ax=%v bv=%v, got %v", row, wantX, wantY, got))
			return
		}
	}
	ctx.Case("c16multi"+c.SQL+core.J(c.T1)+core.J(c.T2)+core.J(c.Rows), kept > 0 && (dropped > 0 || (left(j1) && left(j2))), nil)
}
