package checks

import (
	"encoding/json"
	"fmt"
	"math/rand"
	"os"
	"sort"
	"strings"
	"sync"
	"sync/atomic"
	"time"

	"github.com/rulego/streamsql/types"

	"verif/internal/core"
	"verif/internal/eng"
	"verif/internal/sched"
)

// C19 — every emitted row is either processed exactly once or counted as dropped.

func init() { register(&Check{ID: "C19", Race: true, Run: runC19, Child: childC19}) }

type c19Cfg struct {
	core.CaseRef
	Strategy    string  `json:"strategy"`
	Producers   int     `json:"producers"`
	Buf         int     `json:"buffer"`
	MaxBuf      int     `json:"max_buffer"`
	Growth      float64 `json:"growth_factor"`
	MinInc      int     `json:"min_increment"`
	Threshold   float64 `json:"trigger_threshold"`
	SinkDelayUs int     `json:"sink_delay_us"`
	RowsPer     int     `json:"rows_per_producer"`
	BlockMs     int     `json:"block_timeout_ms"`
	Perturb     bool    `json:"perturb"`
	PerturbSeed int64   `json:"perturb_seed"`
	// NilRows: every producer also emits a nil map now and then (a JSON null payload): an accepted input
	NilRows bool `json:"nil_rows,omitempty"`
	// ExpTimeoutMs: ExpansionConfig.ExpansionTimeout (0 = the 5 s of the presets)
	ExpTimeoutMs int `json:"expansion_timeout_ms,omitempty"`
}

func genC19(ref core.CaseRef, r *rand.Rand, quick bool) *c19Cfg {
	c := &c19Cfg{CaseRef: ref}
	c.Strategy = []string{"expand", "expand", "block", "drop"}[ref.Index%4]
	c.Producers = pick(r, []int{1, 1, 2, 4, 8})
	c.Buf = pick(r, []int{1, 2, 8, 64})
	c.Growth = pick(r, []float64{1.5, 2, 1.1, 4})
	c.MinInc = pick(r, []int{1, 2, 16, 1000})
	c.Threshold = pick(r, []float64{0.5, 0.8, 0.9, 1.0})
	switch r.Intn(4) {
	case 0:
		c.MaxBuf = c.Buf // ceiling = initial size: never expands
	case 1:
		c.MaxBuf = c.Buf * 4
	default:
		c.MaxBuf = pick(r, []int{128, 1000, 5000})
	}
	c.SinkDelayUs = pick(r, []int{0, 0, 50, 1000})
	c.RowsPer = 2000 + r.Intn(3000)
	if !quick {
		c.RowsPer = 5000 + r.Intn(20000)
	}
	if c.SinkDelayUs >= 1000 {
		c.RowsPer = 300 + r.Intn(500)
	}
	if c.SinkDelayUs >= 50 && c.Producers*c.RowsPer > 60000 {
		c.RowsPer = 60000 / c.Producers // a slow consumer works through at most 60 000 rows
	}
	if c.Strategy == "block" && r.Intn(3) == 0 {
		c.BlockMs = 1 + r.Intn(3) // block WITH a timeout may drop (and must count)
	}
	c.Perturb = r.Intn(4) > 0
	c.PerturbSeed = r.Int63()
	if ref.Index%6 == 1 {
		// many small expansions while several producers keep refilling the slots a fast consumer frees: the
		// buffer grows one slot at a time from below its trigger threshold, so every expansion samples a
		// queue that is still being written to
		c.Strategy, c.Producers, c.Buf, c.Growth, c.MinInc = "expand", pick(r, []int{8, 16}), pick(r, []int{4, 8, 16}), 1.01, 1
		c.Threshold, c.MaxBuf, c.SinkDelayUs, c.BlockMs, c.Perturb = pick(r, []float64{0.5, 0.8}), 4096, 0, 0, true
		c.RowsPer = 600 + r.Intn(600)
		if !quick {
			c.RowsPer *= 3
		}
	}
	c.NilRows = ref.Index%4 == 3 || ref.Index%8 == 2
	if ref.Index%12 == 4 {
		// a big backlog behind a stalled consumer is migrated with a configured expansion timeout of 1 ms
		c.Strategy, c.Producers, c.Buf, c.Growth, c.MinInc, c.Threshold = "expand", 2, 20000, 1.5, 1000, 0.9
		c.MaxBuf, c.SinkDelayUs, c.BlockMs, c.RowsPer, c.ExpTimeoutMs, c.Perturb = 200000, 10, 0, 20000, 1, false
	}
	return c
}

func runC19(ctx *core.Ctx) {
	ctx.SetRule("configuration = (strategy drop|block|expand, 1-8 producers, buffer 1-64, growth factor/min increment/threshold/ceiling incl. ceiling=initial size, consumer delay 0-1ms, block timeout 0 or few ms, yield-point perturbation) from PRNG(seed,index), each run in its own child process; " +
		"unique row ids make the queue history unambiguous. non-trivial = rows actually queued up (buffer filled at least once: an expansion was performed, a row was dropped, or a sender blocked); distinct by configuration hash")
	ctx.Assume("quiescence = all Emit calls returned, data_chan_len 0 and processed+dropped stable over 3 polls; conservation is judged only then",
		"capacity is sampled by a statistics reader and observed exactly at every expansion through the expand.swap hook",
		"overlap counters (migration vs consumer / sender) come from the verif yield hooks; without targeted overlaps an expand configuration is inconclusive, not a pass")
	n := ctx.N(24, 400)
	var expandNoOverlap int64
	ctx.Cases("c19", n, workers()/2, func(i int, r *rand.Rand) {
		c := genC19(core.CaseRef{Stream: "c19", Index: i}, r, ctx.Quick())
		if ctx.Replay != "" {
			b, _ := json.Marshal(c)
			childC19(ctx, b)
			return
		}
		t0 := time.Now()
		out := ctx.RunChild(c, 300*time.Second)
		if d := time.Since(t0); d > 10*time.Second && os.Getenv("C19_DEBUG") != "" {
			fmt.Fprintf(os.Stderr, "c19 case %d took %v: %s\n", i, d, core.J(c))
		}
		attrs := map[string]string{"strategy": c.Strategy, "producers": fmt.Sprint(c.Producers), "perturb": fmt.Sprint(c.Perturb)}
		switch {
		case out.TimedOut:
			ctx.Violate(core.Violation{Kind: "conservation.hang", Attrs: attrs, Detail: "batch did not finish within 300 s; goroutine dump:\n" + out.Log, Case: c})
		case out.Result == nil:
			ctx.Violate(core.Violation{Kind: "conservation.process_crash", Attrs: attrs, Detail: fmt.Sprintf("child exited with %d without a result:\n%s", out.ExitCode, out.Log), Case: c})
		default:
			if c.Strategy == "expand" && out.Result.Counters["expansions"] > 0 && out.Result.Counters["migration_overlapped_consumer"]+out.Result.Counters["migration_overlapped_sender"] == 0 {
				atomic.AddInt64(&expandNoOverlap, 1)
			}
			ctx.Merge(out.Result)
		}
	})
	ctx.Count("expand_runs_without_targeted_overlap", expandNoOverlap)
	if ctx.Replay == "" && ctx.Counter("expansions") > 0 && ctx.Counter("migration_overlapped_consumer")+ctx.Counter("migration_overlapped_sender") == 0 {
		ctx.Inconclusive("no migration ever overlapped a consumer receive or a sender: the targeted interleaving was not observed")
	}
}

func childC19(ctx *core.Ctx, raw []byte) {
	var c c19Cfg
	if err := json.Unmarshal(raw, &c); err != nil {
		ctx.Inconclusive("bad batch")
		return
	}
	attrs := map[string]string{"strategy": c.Strategy, "producers": fmt.Sprint(c.Producers), "perturb": fmt.Sprint(c.Perturb), "sink_delay": fmt.Sprint(c.SinkDelayUs > 0)}
	viol := func(kind, detail string) {
		ctx.Violate(core.Violation{Kind: kind, Attrs: attrs, Detail: detail, Case: &c})
	}
	// hook-side overlap monitors
	var migrating, consumerReads, overlapConsumer, overlapSender, expansions, maxCapSeen int64
	var capViol atomic.Value
	sched.OnPoint(map[string]func(){
		"expand.before_lock":  func() { atomic.StoreInt64(&migrating, 1) },
		"expand.migrate_item": func() { atomic.StoreInt64(&migrating, 2) },
		"proc.chan_read": func() {
			atomic.AddInt64(&consumerReads, 1)
			if atomic.LoadInt64(&migrating) != 0 {
				atomic.AddInt64(&overlapConsumer, 1)
			}
		},
		"send.before_rlock": func() {
			if atomic.LoadInt64(&migrating) != 0 {
				atomic.AddInt64(&overlapSender, 1)
			}
		},
	})
	sched.OnObserve("expand.swap", func(kv []any) {
		atomic.StoreInt64(&migrating, 0)
		atomic.AddInt64(&expansions, 1)
		if len(kv) >= 2 {
			if nc, ok := kv[1].(int); ok {
				for {
					old := atomic.LoadInt64(&maxCapSeen)
					if int64(nc) <= old || atomic.CompareAndSwapInt64(&maxCapSeen, old, int64(nc)) {
						break
					}
				}
				if c.MaxBuf > 0 && nc > c.MaxBuf {
					capViol.Store(fmt.Sprintf("expansion %v -> %v exceeds MaxBufferSize %d", kv[0], kv[1], c.MaxBuf))
				}
			}
		}
	})
	if c.Perturb {
		sched.Seed(c.PerturbSeed)
		pp := &sched.Perturb{Prob: map[string]float64{
			"proc.chan_read": 0.02, "expand.migrate_item": 0.3, "expand.before_lock": 0.5, "send.before_rlock": 0.01,
		}, MaxSleep: 400 * time.Microsecond, SleepShare: 0.6}
		if c.Growth < 1.05 {
			// thousands of one-slot expansions: delay only the gap between sampling the queue and locking it
			pp.Prob["expand.migrate_item"], pp.Prob["proc.chan_read"], pp.MaxSleep = 0.002, 0.002, 150*time.Microsecond
		}
		sched.Set(pp)
	}
	exp := types.ExpansionConfig{GrowthFactor: c.Growth, MinIncrement: c.MinInc, TriggerThreshold: c.Threshold, ExpansionTimeout: 5 * time.Second}
	if c.ExpTimeoutMs > 0 {
		exp.ExpansionTimeout = time.Duration(c.ExpTimeoutMs) * time.Millisecond
	}
	s, err := eng.New("SELECT id, p FROM stream", eng.Opts{Strategy: c.Strategy, DataChan: c.Buf, MaxBuffer: c.MaxBuf, Expansion: &exp,
		BlockTimeout: time.Duration(c.BlockMs) * time.Millisecond, ResultChan: 16})
	if err != nil {
		viol("conservation.execute_error", err.Error())
		return
	}
	type rec struct{ p, id int }
	var mu sync.Mutex
	var seen []rec
	var nilSeen, nilEmits int64
	s.AddSyncSink(func(batch []map[string]any) {
		if c.SinkDelayUs > 0 {
			time.Sleep(time.Duration(c.SinkDelayUs) * time.Microsecond)
		}
		mu.Lock()
		for _, row := range batch {
			if row["p"] == nil && row["id"] == nil {
				nilSeen++ // the result of a nil row
				continue
			}
			p, _ := toI(row["p"])
			id, _ := toI(row["id"])
			seen = append(seen, rec{int(p), int(id)})
		}
		mu.Unlock()
	})
	// statistics reader: samples the capacity while the producers run
	stopStats := make(chan struct{})
	var statsWG sync.WaitGroup
	var capSamples, maxCapSampled, maxLen int64
	statsWG.Add(1)
	go func() {
		defer statsWG.Done()
		for {
			select {
			case <-stopStats:
				return
			default:
			}
			st := s.GetStats()
			capSamples++
			if st["data_chan_cap"] > maxCapSampled {
				maxCapSampled = st["data_chan_cap"]
			}
			if st["data_chan_len"] > maxLen {
				maxLen = st["data_chan_len"]
			}
			time.Sleep(100 * time.Microsecond)
		}
	}()
	var wg sync.WaitGroup
	var emits int64
	for p := 0; p < c.Producers; p++ {
		wg.Add(1)
		go func(p int) {
			defer wg.Done()
			for j := 0; j < c.RowsPer; j++ {
				if c.NilRows && j%211 == 100 {
					atomic.AddInt64(&emits, 1)
					atomic.AddInt64(&nilEmits, 1)
					s.Emit(nil)
				}
				atomic.AddInt64(&emits, 1)
				s.Emit(Row{"id": j, "p": p})
			}
		}(p)
	}
	prodDone := make(chan struct{})
	go func() { wg.Wait(); close(prodDone) }()
	// producers that are merely slow (many rows behind a slow consumer on a loaded machine) are not stuck: the
	// verdict needs 30 s without a single row being processed while Emit calls are still outstanding
	progress := func() int64 {
		mu.Lock()
		defer mu.Unlock()
		return int64(len(seen)) + nilSeen
	}
	lastN, lastChange, started := progress(), time.Now(), time.Now()
waitProducers:
	for {
		select {
		case <-prodDone:
			break waitProducers
		case <-time.After(2 * time.Second):
		}
		if n := progress(); n != lastN {
			lastN, lastChange = n, time.Now()
		}
		if time.Since(lastChange) > 30*time.Second {
			viol("conservation.producer_stuck", fmt.Sprintf("producers still blocked in Emit and no row processed for 30 s (strategy %s, %d of %d Emit calls started, %d rows processed)", c.Strategy, atomic.LoadInt64(&emits), c.Producers*c.RowsPer, lastN))
			return
		}
		if time.Since(started) > 170*time.Second {
			ctx.Inconclusive("c19: producers slow but progressing after 170 s (loaded machine)")
			return
		}
	}
	// quiescence: nothing queued, counters stable
	total := atomic.LoadInt64(&emits)
	stable, last := 0, int64(-1)
	settled := false
	deadline := time.Now().Add(60 * time.Second)
	for time.Now().Before(deadline) {
		st := s.GetStats()
		mu.Lock()
		n := int64(len(seen)) + nilSeen
		mu.Unlock()
		sum := n + st["input_dropped_count"]
		if st["data_chan_len"] == 0 && sum == last {
			stable++
			if stable >= 3 && (sum == total || stable >= 40) {
				settled = true
				break
			}
		} else {
			stable = 0
		}
		last = sum
		time.Sleep(25 * time.Millisecond)
	}
	close(stopStats)
	statsWG.Wait()
	st := s.GetStats()
	s.Stop()
	sched.Set(nil)
	if !settled {
		// the consumer was still working through its backlog when the watchdog expired: no verdict
		ctx.Inconclusive(fmt.Sprintf("c19: not quiescent within 60 s after the last Emit (data_chan_len %d)", st["data_chan_len"]))
		return
	}
	mu.Lock()
	got := append([]rec(nil), seen...)
	nilGot := nilSeen
	mu.Unlock()
	ctx.Count("nil_rows_emitted", atomic.LoadInt64(&nilEmits))
	ctx.Count("nil_rows_processed", nilGot)
	dropped := st["input_dropped_count"]
	ctx.Count("rows_emitted", total)
	ctx.Count("rows_processed", int64(len(got)))
	ctx.Count("rows_dropped_counted", dropped)
	ctx.Count("expansions", atomic.LoadInt64(&expansions))
	ctx.Count("migration_overlapped_consumer", atomic.LoadInt64(&overlapConsumer))
	ctx.Count("migration_overlapped_sender", atomic.LoadInt64(&overlapSender))
	ctx.Count("capacity_samples", capSamples)
	ctx.Max("max.data_chan_len_sampled", maxLen)
	ctx.Count("perturbation_actions", sched.Acted())
	if v, _ := capViol.Load().(string); v != "" {
		viol("conservation.capacity_exceeds_max", v)
	}
	if c.MaxBuf > 0 && maxCapSampled > int64(c.MaxBuf) && int64(c.Buf) <= int64(c.MaxBuf) {
		viol("conservation.capacity_exceeds_max", fmt.Sprintf("data_chan_cap sampled at %d, MaxBufferSize %d", maxCapSampled, c.MaxBuf))
	}
	// duplicates
	dup := map[rec]int{}
	for _, r := range got {
		dup[r]++
	}
	for r, n := range dup {
		if n > 1 {
			viol("conservation.row_processed_twice", fmt.Sprintf("row (producer %d, id %d) reached query processing %d times (strategy %s, %d expansions)", r.p, r.id, n, c.Strategy, expansions))
			break
		}
	}
	if int64(len(got))+nilGot+dropped != total {
		viol("conservation.count_mismatch", fmt.Sprintf("processed %d (of which %d results of nil rows) + input_dropped_count %d = %d ≠ %d Emit calls (%d of them with a nil row) after quiescence (strategy %s, buffer %d, %d expansions, block timeout %dms, expansion timeout %dms)",
			int64(len(got))+nilGot, nilGot, dropped, int64(len(got))+nilGot+dropped, total, atomic.LoadInt64(&nilEmits), c.Strategy, c.Buf, expansions, c.BlockMs, c.ExpTimeoutMs))
	}
	if c.Strategy == "block" && c.BlockMs == 0 && dropped != 0 {
		viol("conservation.block_dropped", fmt.Sprintf("block strategy without timeout dropped %d rows", dropped))
	}
	// per-producer order
	lastID := map[int]int{}
	inversions := 0
	var firstInv string
	for _, r := range got {
		if prev, ok := lastID[r.p]; ok && r.id < prev {
			inversions++
			if firstInv == "" {
				firstInv = fmt.Sprintf("producer %d: id %d processed after id %d", r.p, r.id, prev)
			}
		}
		if prev, ok := lastID[r.p]; !ok || r.id > prev {
			lastID[r.p] = r.id
		}
	}
	if inversions > 0 {
		viol("conservation.order_inverted", fmt.Sprintf("%d order inversions within single producers (%s); strategy %s, %d expansions, %d migrations overlapped a consumer receive",
			inversions, firstInv, c.Strategy, expansions, overlapConsumer))
	}
	queued := expansions > 0 || dropped > 0 || maxLen >= int64(c.Buf)
	keys := []string{}
	b, _ := json.Marshal(c)
	keys = append(keys, string(b))
	sort.Strings(keys)
	ctx.Case(strings.Join(keys, ""), queued, map[string]any{"config": c, "processed": len(got), "dropped": dropped, "expansions": expansions,
		"overlap_consumer": overlapConsumer, "overlap_sender": overlapSender, "max_cap": maxCapSampled})
}
