package checks

import (
	"fmt"
	"math"
	"math/rand"
	"sort"
	"strconv"
	"strings"
)

// C06 expression AST, generator, layouts (printer) and the reference interpreter.
//
// The reference interpreter is written from the property statement only: float64 arithmetic,
// NULL/missing operand ⇒ arithmetic NULL and comparison not-true, AND/OR/NOT, CASE first-true /
// ELSE / NULL.  Where the statement leaves the meaning open (text/bool operands in arithmetic,
// ordering of strings, NOT over an unknown comparison, NULL arguments of ordinary functions, exact
// rounding ties) the reference answers "unpinned" and only invariance / absence of panic is checked.

type c6Kind int

const (
	c6Num c6Kind = iota
	c6Str
	c6Col
	c6Neg
	c6Arith
	c6Cmp
	c6And
	c6Or
	c6Not
	c6Case
	c6Call
)

type c6Node struct {
	K       c6Kind
	T       byte    // static type: 'N' numeric, 'B' boolean, 'S' string
	Op      string  // arithmetic / comparison operator, function name, column name
	F       float64 // numeric literal value
	Lit     string  // numeric literal text (without sign)
	S       string  // string literal
	Args    []*c6Node
	HasElse bool // CASE: Args = cond,val,cond,val,...[,else]
}

// ---- reference values ----------------------------------------------------------------------------

type c6V struct {
	k byte // 'n' number, 's' string, 'b' bool (truth in t3/t2), '0' NULL, '?' unpinned
	f float64
	s string
	// boolean results carry the truth under Kleene three-valued logic (t3: 'T','F','U') and under
	// the "comparison with NULL is false" two-valued reading (t2: 'T','F').  The statement only
	// says "not-true", so a verdict is reached only where both readings agree on true / not-true.
	t3, t2 byte
}

var (
	c6Null     = c6V{k: '0'}
	c6Unpinned = c6V{k: '?'}
)

func c6N(f float64) c6V { return c6V{k: 'n', f: f} }
func c6S(s string) c6V  { return c6V{k: 's', s: s} }
func c6B(t3, t2 byte) c6V {
	return c6V{k: 'b', t3: t3, t2: t2}
}

// truth reduces a boolean reference value to (isTrue, pinned).
func (v c6V) truth() (bool, bool) {
	if v.k != 'b' {
		return false, false
	}
	a, b := v.t3 == 'T', v.t2 == 'T'
	if a != b {
		return false, false
	}
	return a, true
}

func (v c6V) String() string {
	switch v.k {
	case 'n':
		return strconv.FormatFloat(v.f, 'g', -1, 64)
	case 's':
		return strconv.Quote(v.s)
	case 'b':
		if t, ok := v.truth(); ok {
			if t {
				return "TRUE"
			}
			return "not-true"
		}
		return "unpinned-truth"
	case '0':
		return "NULL"
	}
	return "unpinned"
}

func c6FromGo(x any, present bool) c6V {
	if !present || x == nil {
		return c6Null
	}
	switch t := x.(type) {
	case string:
		return c6S(t)
	case bool:
		if t {
			return c6B('T', 'T')
		}
		return c6B('F', 'F')
	}
	if f, ok := toF(x); ok {
		return c6N(f)
	}
	return c6Unpinned
}

// c6Eval is the reference interpreter.
func c6Eval(n *c6Node, row Row) c6V {
	switch n.K {
	case c6Num:
		return c6N(n.F)
	case c6Str:
		return c6S(n.S)
	case c6Col:
		x, ok := row[n.Op]
		v := c6FromGo(x, ok)
		switch n.T {
		case 'B':
			if v.k == '0' {
				return c6B('U', 'F')
			}
			if v.k != 'b' {
				return c6Unpinned
			}
		}
		return v
	case c6Neg:
		a := c6Eval(n.Args[0], row)
		switch a.k {
		case 'n':
			return c6N(-a.f)
		case '0':
			return c6Null
		}
		return c6Unpinned
	case c6Arith:
		a, b := c6Eval(n.Args[0], row), c6Eval(n.Args[1], row)
		if a.k != '?' && b.k != '?' && (a.k == '0' || b.k == '0') {
			return c6Null // a NULL or missing operand makes the result NULL, whatever the other operand is
		}
		if a.k == '?' || b.k == '?' || (a.k != 'n' && a.k != '0') || (b.k != 'n' && b.k != '0') {
			return c6Unpinned // text / bool operand: meaning left open by the statement
		}
		if a.k == '0' || b.k == '0' {
			return c6Null
		}
		switch n.Op {
		case "+":
			return c6N(a.f + b.f)
		case "-":
			return c6N(a.f - b.f)
		case "*":
			return c6N(a.f * b.f)
		case "/":
			if b.f == 0 {
				return c6Unpinned // never generated on purpose; stay silent if it happens
			}
			return c6N(a.f / b.f)
		}
		return c6Unpinned
	case c6Cmp:
		a, b := c6Eval(n.Args[0], row), c6Eval(n.Args[1], row)
		if a.k == '?' || b.k == '?' || a.k == 'b' || b.k == 'b' {
			return c6Unpinned
		}
		if a.k == '0' || b.k == '0' {
			return c6B('U', 'F')
		}
		if a.k != b.k {
			return c6Unpinned // number against text
		}
		var r bool
		if a.k == 'n' {
			switch n.Op {
			case "=", "==":
				r = a.f == b.f
			case "!=", "<>":
				r = a.f != b.f
			case "<":
				r = a.f < b.f
			case "<=":
				r = a.f <= b.f
			case ">":
				r = a.f > b.f
			case ">=":
				r = a.f >= b.f
			default:
				return c6Unpinned
			}
		} else {
			switch n.Op {
			case "=", "==":
				r = a.s == b.s
			case "!=", "<>":
				r = a.s != b.s
			default:
				return c6Unpinned // collation is not pinned
			}
		}
		if r {
			return c6B('T', 'T')
		}
		return c6B('F', 'F')
	case c6And, c6Or:
		a, b := c6Eval(n.Args[0], row), c6Eval(n.Args[1], row)
		if a.k != 'b' || b.k != 'b' {
			return c6Unpinned
		}
		if n.K == c6And {
			return c6B(c6And3(a.t3, b.t3), c6And3(a.t2, b.t2))
		}
		return c6B(c6Or3(a.t3, b.t3), c6Or3(a.t2, b.t2))
	case c6Not:
		a := c6Eval(n.Args[0], row)
		if a.k != 'b' {
			return c6Unpinned
		}
		return c6B(c6Not3(a.t3), c6Not3(a.t2))
	case c6Case:
		whens := n.whens()
		for i := 0; i+1 < len(whens); i += 2 {
			c := c6Eval(n.Args[i], row)
			t, ok := c.truth()
			if !ok {
				return c6Unpinned
			}
			if t {
				return c6Eval(n.Args[i+1], row)
			}
		}
		if n.HasElse {
			return c6Eval(n.Args[len(n.Args)-1], row)
		}
		return c6Null
	case c6Call:
		return c6EvalCall(n, row)
	}
	return c6Unpinned
}

func (n *c6Node) whens() []*c6Node {
	if n.HasElse {
		return n.Args[:len(n.Args)-1]
	}
	return n.Args
}

func c6And3(a, b byte) byte {
	if a == 'F' || b == 'F' {
		return 'F'
	}
	if a == 'T' && b == 'T' {
		return 'T'
	}
	return 'U'
}
func c6Or3(a, b byte) byte {
	if a == 'T' || b == 'T' {
		return 'T'
	}
	if a == 'F' && b == 'F' {
		return 'F'
	}
	return 'U'
}
func c6Not3(a byte) byte {
	switch a {
	case 'T':
		return 'F'
	case 'F':
		return 'T'
	}
	return 'U'
}

// c6EvalCall: documented value of the small set of built-ins the expression generator nests.
// NULL / non-numeric arguments of ordinary functions are outside the documented domain ⇒ unpinned.
func c6EvalCall(n *c6Node, row Row) c6V {
	args := make([]c6V, len(n.Args))
	for i, a := range n.Args {
		args[i] = c6Eval(a, row)
		if args[i].k == '?' {
			return c6Unpinned
		}
	}
	num := func(i int) (float64, bool) { return args[i].f, args[i].k == 'n' }
	switch n.Op {
	case "coalesce":
		for _, a := range args {
			if a.k != '0' {
				return a
			}
		}
		return c6Null
	case "if_null":
		if args[0].k != '0' {
			return args[0]
		}
		return args[1]
	case "is_null":
		if args[0].k == '0' {
			return c6B('T', 'T')
		}
		return c6B('F', 'F')
	case "is_not_null":
		if args[0].k != '0' {
			return c6B('T', 'T')
		}
		return c6B('F', 'F')
	}
	// ordinary functions: every argument must be of the documented type
	switch n.Op {
	case "abs", "sqrt", "floor", "ceiling", "round", "sign", "exp":
		f, ok := num(0)
		if !ok {
			return c6Unpinned
		}
		switch n.Op {
		case "abs":
			return c6N(math.Abs(f))
		case "sqrt":
			if f < 0 {
				return c6Unpinned
			}
			return c6N(math.Sqrt(f))
		case "floor":
			return c6N(math.Floor(f))
		case "ceiling":
			return c6N(math.Ceil(f))
		case "round":
			if math.Abs(f-math.Trunc(f)) == 0.5 {
				return c6Unpinned // tie rule not documented
			}
			return c6N(math.Round(f))
		case "sign":
			switch {
			case f > 0:
				return c6N(1)
			case f < 0:
				return c6N(-1)
			}
			return c6N(0)
		case "exp":
			return c6N(math.Exp(f))
		}
	case "power", "mod", "greatest", "least":
		a, ok1 := num(0)
		b, ok2 := num(1)
		if !ok1 || !ok2 {
			return c6Unpinned
		}
		switch n.Op {
		case "power":
			return c6N(math.Pow(a, b))
		case "mod":
			if b == 0 {
				return c6Unpinned
			}
			return c6N(math.Mod(a, b))
		case "greatest":
			return c6N(math.Max(a, b))
		case "least":
			return c6N(math.Min(a, b))
		}
	case "length", "upper", "lower", "trim":
		if args[0].k != 's' || !c6ASCII(args[0].s) {
			return c6Unpinned
		}
		switch n.Op {
		case "length":
			return c6N(float64(len(args[0].s)))
		case "upper":
			return c6S(strings.ToUpper(args[0].s))
		case "lower":
			return c6S(strings.ToLower(args[0].s))
		case "trim":
			return c6S(strings.TrimSpace(args[0].s))
		}
	case "concat", "startswith", "endswith":
		for _, a := range args {
			if a.k != 's' {
				return c6Unpinned
			}
		}
		switch n.Op {
		case "concat":
			s := ""
			for _, a := range args {
				s += a.s
			}
			return c6S(s)
		case "startswith":
			if strings.HasPrefix(args[0].s, args[1].s) {
				return c6B('T', 'T')
			}
			return c6B('F', 'F')
		case "endswith":
			if strings.HasSuffix(args[0].s, args[1].s) {
				return c6B('T', 'T')
			}
			return c6B('F', 'F')
		}
	}
	return c6Unpinned
}

func c6ASCII(s string) bool {
	for i := 0; i < len(s); i++ {
		if s[i] >= 0x80 {
			return false
		}
	}
	return true
}

// ---- features --------------------------------------------------------------------------------------

func (n *c6Node) walk(fn func(*c6Node)) {
	fn(n)
	for _, a := range n.Args {
		a.walk(fn)
	}
}

func (n *c6Node) depth() int {
	d := 0
	for _, a := range n.Args {
		if x := a.depth(); x > d {
			d = x
		}
	}
	if n.K == c6Num || n.K == c6Str || n.K == c6Col {
		return 0
	}
	return d + 1
}

func (n *c6Node) cols() []string {
	set := map[string]bool{}
	n.walk(func(m *c6Node) {
		if m.K == c6Col {
			set[m.Op] = true
		}
	})
	out := make([]string, 0, len(set))
	for k := range set {
		out = append(out, k)
	}
	sort.Strings(out)
	return out
}

// rootTag names the top construct of a (minimal failing) expression.
func (n *c6Node) rootTag() string {
	switch n.K {
	case c6Num:
		if n.F != math.Trunc(n.F) {
			return "lit_float"
		}
		return "lit_int"
	case c6Str:
		return "lit_string"
	case c6Col:
		return "column"
	case c6Neg:
		return "neg"
	case c6Arith:
		return n.Op
	case c6Cmp:
		return n.Op
	case c6And:
		return "and"
	case c6Or:
		return "or"
	case c6Not:
		return "not"
	case c6Case:
		return "case"
	case c6Call:
		return n.Op
	}
	return "?"
}

func (n *c6Node) clause() string {
	switch n.K {
	case c6Num, c6Str:
		return "literal"
	case c6Col:
		return "column"
	case c6Neg, c6Arith:
		return "arith"
	case c6Cmp:
		return "cmp"
	case c6And, c6Or, c6Not:
		return "logic"
	case c6Case:
		return "case"
	case c6Call:
		return "func"
	}
	return "expr"
}

// features is the sorted set of construct classes in the expression.
func (n *c6Node) features() string {
	set := map[string]bool{}
	n.walk(func(m *c6Node) {
		switch m.K {
		case c6Num:
			if m != n {
				set["numlit"] = true
			}
		case c6Str:
			set["strlit"] = true
		case c6Neg:
			set["neg"] = true
		case c6Arith:
			set["arith"] = true
		case c6Cmp:
			set["cmp"] = true
			if m.Op == "!=" || m.Op == "<>" || m.Op == "==" {
				set["op"+m.Op] = true
			}
		case c6And:
			set["and"] = true
		case c6Or:
			set["or"] = true
		case c6Not:
			set["not"] = true
		case c6Case:
			set["case"] = true
			if !m.HasElse {
				set["case_noelse"] = true
			}
		case c6Call:
			set["func"] = true
		case c6Col:
			if m.T == 'B' {
				set["boolcol"] = true
			}
		}
	})
	out := make([]string, 0, len(set))
	for k := range set {
		out = append(out, k)
	}
	sort.Strings(out)
	return strings.Join(out, ",")
}

// rowShape describes the dynamic types of the columns the expression reads in this row.
func c6RowShape(n *c6Node, row Row, base func(string) string) string {
	parts := []string{}
	for _, c := range n.cols() {
		v, ok := row[c]
		t := "absent"
		if ok {
			switch x := v.(type) {
			case nil:
				t = "null"
			case string:
				t = "text"
			case bool:
				t = "bool"
			case float64:
				t = "float"
			default:
				_ = x
				t = "int"
			}
		}
		parts = append(parts, base(c)+":"+t)
	}
	return strings.Join(parts, ",")
}

// ---- printer -----------------------------------------------------------------------------------------

type c6Layout struct {
	Name    string
	Paren   bool // wrap every compound node (and the root)
	Tight   bool // no blanks around operators
	Wide    bool // two blanks / tab around operators
	UpperFn bool // upper-case function names
	LowerKw bool // lower-case keywords
}

var (
	c6Bare  = c6Layout{Name: "bare"}
	c6Paren = c6Layout{Name: "paren", Paren: true}
	c6Tight = c6Layout{Name: "tight", Tight: true}
	c6Wide  = c6Layout{Name: "wide", Wide: true}
	c6Upper = c6Layout{Name: "upperfn", UpperFn: true, LowerKw: true}
)

func (l c6Layout) kw(s string) string {
	if l.LowerKw {
		return strings.ToLower(s)
	}
	return s
}

func (l c6Layout) op(s string) string {
	switch {
	case l.Tight:
		return s
	case l.Wide:
		return "  " + s + "\t"
	}
	return " " + s + " "
}

func c6Prec(n *c6Node) int {
	switch n.K {
	case c6Or:
		return 1
	case c6And:
		return 2
	case c6Not:
		return 3
	case c6Cmp:
		return 4
	case c6Arith:
		if n.Op == "+" || n.Op == "-" {
			return 5
		}
		return 6
	case c6Neg:
		return 7
	}
	return 9
}

// render prints n; parent precedence pp and right-operand flag decide the minimal parentheses.
func (l c6Layout) render(n *c6Node) string {
	s := l.r(n, 0, false)
	if l.Paren && c6Compound(n) && !strings.HasPrefix(s, "(") {
		s = "(" + s + ")"
	}
	return s
}

func c6Compound(n *c6Node) bool {
	switch n.K {
	case c6Arith, c6Cmp, c6And, c6Or, c6Neg:
		return true
	}
	return false
}

func (l c6Layout) r(n *c6Node, pp int, right bool) string {
	var s string
	switch n.K {
	case c6Num:
		if n.F < 0 || math.Signbit(n.F) {
			s = "-" + n.Lit
			if (l.Tight || l.Paren) && pp > 0 {
				return "(" + s + ")"
			}
			return s
		}
		return n.Lit
	case c6Str:
		return sqlStr(n.S)
	case c6Col:
		return n.Op
	case c6Neg:
		inner := l.r(n.Args[0], 7, false)
		if strings.HasPrefix(inner, "-") {
			inner = "(" + inner + ")" // "--" would start a SQL comment
		}
		s = "-" + inner
		if pp > 0 && (right || l.Paren || l.Tight) {
			return "(" + s + ")"
		}
		return s
	case c6Arith, c6Cmp:
		p := c6Prec(n)
		s = l.r(n.Args[0], p, false) + l.op(n.Op) + l.r(n.Args[1], p, true)
		if l.Paren && pp > 0 || p < pp || (p == pp && right) {
			return "(" + s + ")"
		}
		return s
	case c6And, c6Or:
		p := c6Prec(n)
		kw := "AND"
		if n.K == c6Or {
			kw = "OR"
		}
		sep := " "
		if l.Wide {
			sep = "  "
		}
		s = l.r(n.Args[0], p, false) + sep + l.kw(kw) + sep + l.r(n.Args[1], p, true)
		if l.Paren && pp > 0 || p < pp || (p == pp && right) {
			return "(" + s + ")"
		}
		return s
	case c6Not:
		inner := l.r(n.Args[0], 0, false)
		if !(strings.HasPrefix(inner, "(") && c6Balanced(inner)) {
			inner = "(" + inner + ")"
		}
		s = l.kw("NOT") + " " + inner
		if pp > 3 {
			return "(" + s + ")"
		}
		return s
	case c6Case:
		var b strings.Builder
		b.WriteString(l.kw("CASE"))
		whens := n.whens()
		for i := 0; i+1 < len(whens); i += 2 {
			b.WriteString(" " + l.kw("WHEN") + " " + l.sub(n.Args[i]) + " " + l.kw("THEN") + " " + l.sub(n.Args[i+1]))
		}
		if n.HasElse {
			b.WriteString(" " + l.kw("ELSE") + " " + l.sub(n.Args[len(n.Args)-1]))
		}
		b.WriteString(" " + l.kw("END"))
		s = b.String()
		if pp > 0 {
			return "(" + s + ")"
		}
		return s
	case c6Call:
		name := n.Op
		if l.UpperFn {
			name = strings.ToUpper(name)
		}
		parts := make([]string, len(n.Args))
		for i, a := range n.Args {
			parts[i] = l.sub(a)
		}
		sep := ", "
		if l.Tight {
			sep = ","
		}
		return name + "(" + strings.Join(parts, sep) + ")"
	}
	return "?"
}

// sub renders a sub-expression in a delimited position (function argument, CASE part).
func (l c6Layout) sub(n *c6Node) string {
	s := l.r(n, 0, false)
	if l.Paren && c6Compound(n) && !(strings.HasPrefix(s, "(") && c6Balanced(s)) {
		s = "(" + s + ")"
	}
	return s
}

// c6Balanced reports whether the leading "(" of s closes at the very end of s.
func c6Balanced(s string) bool {
	d := 0
	inq := false
	for i := 0; i < len(s); i++ {
		switch {
		case s[i] == '\'':
			inq = !inq
		case inq:
		case s[i] == '(':
			d++
		case s[i] == ')':
			d--
			if d == 0 && i != len(s)-1 {
				return false
			}
		}
	}
	return d == 0
}

// ---- generator ---------------------------------------------------------------------------------------

type c6Gen struct {
	r          *rand.Rand
	x, y, s, b string // column names (unique per case: the engine caches by expression text)
	rows       []Row
}

func c6Lit(f float64) *c6Node {
	return &c6Node{K: c6Num, T: 'N', F: f, Lit: strconv.FormatFloat(math.Abs(f), 'f', -1, 64)}
}

func (g *c6Gen) numLit() *c6Node {
	switch g.r.Intn(10) {
	case 0:
		return c6Lit(0.5)
	case 1:
		return c6Lit(2.25)
	case 2:
		return c6Lit(float64(-(1 + g.r.Intn(5))))
	case 3:
		return c6Lit(100)
	case 4:
		return c6Lit(1.5)
	}
	return c6Lit(float64(g.r.Intn(11)))
}

func (g *c6Gen) nonZeroLit() *c6Node {
	return c6Lit(pick(g.r, []float64{2, 4, 0.5, -2, 3, 8, 10, 0.25}))
}

func (g *c6Gen) numCol() *c6Node {
	return &c6Node{K: c6Col, T: 'N', Op: pick(g.r, []string{g.x, g.x, g.y})}
}

func (g *c6Gen) num(d int) *c6Node {
	if d <= 0 {
		if g.r.Intn(3) == 0 {
			return g.numLit()
		}
		return g.numCol()
	}
	switch k := g.r.Intn(20); {
	case k < 9: // arithmetic
		op := pick(g.r, []string{"+", "-", "*", "/", "+", "-", "*"})
		a := g.num(d - 1)
		var b *c6Node
		if op == "/" {
			b = g.divisor(d - 1)
		} else {
			b = g.num(d - 1 - g.r.Intn(2))
		}
		return &c6Node{K: c6Arith, T: 'N', Op: op, Args: []*c6Node{a, b}}
	case k < 10:
		return &c6Node{K: c6Neg, T: 'N', Args: []*c6Node{g.num(d - 1)}}
	case k < 14:
		return g.caseExpr(d, 'N')
	case k < 18:
		return g.numCall(d)
	case k < 19:
		return g.numLit()
	}
	return g.numCol()
}

// divisor yields an expression that is non-zero (per the reference) on every row; otherwise a
// non-zero literal.  Division by zero is never generated.
func (g *c6Gen) divisor(d int) *c6Node {
	if g.r.Intn(2) == 0 {
		return g.nonZeroLit()
	}
	c := g.num(d)
	for _, row := range g.rows {
		v := c6Eval(c, row)
		if v.k == 'n' && v.f != 0 && !math.IsInf(v.f, 0) {
			continue
		}
		if v.k == '0' {
			continue
		}
		return g.nonZeroLit() // zero, or unpinned (text could be coerced to 0 by the engine)
	}
	return c
}

func (g *c6Gen) numCall(d int) *c6Node {
	call := func(name string, args ...*c6Node) *c6Node {
		return &c6Node{K: c6Call, T: 'N', Op: name, Args: args}
	}
	switch g.r.Intn(13) {
	case 0, 1:
		return call("abs", g.num(d-1))
	case 2:
		return call("sqrt", call("abs", g.num(d-1)))
	case 3:
		return call("floor", g.num(d-1))
	case 4:
		return call("ceiling", g.num(d-1))
	case 5:
		return call("round", g.num(d-1))
	case 6:
		return call("power", g.num(d-1), c6Lit(float64(2+g.r.Intn(2))))
	case 7:
		return call("mod", g.num(d-1), c6Lit(float64(2+g.r.Intn(4))))
	case 8:
		return call("sign", g.num(d-1))
	case 9:
		return call(pick(g.r, []string{"greatest", "least"}), g.num(d-1), g.num(d-1))
	case 10:
		return call("length", g.str(0))
	case 11:
		return call("coalesce", g.numCol(), g.num(d-1))
	}
	return call("if_null", g.numCol(), g.numLit())
}

func (g *c6Gen) caseExpr(d int, t byte) *c6Node {
	n := &c6Node{K: c6Case, T: t}
	val := func() *c6Node {
		if t == 'S' {
			return g.strLit()
		}
		return g.num(d - 1 - g.r.Intn(2))
	}
	for i := 0; i < 1+g.r.Intn(3); i++ {
		n.Args = append(n.Args, g.boolean(d-1-g.r.Intn(2)), val())
	}
	if g.r.Intn(4) > 0 {
		n.HasElse = true
		n.Args = append(n.Args, val())
	}
	return n
}

func (g *c6Gen) strLit() *c6Node {
	return &c6Node{K: c6Str, T: 'S', S: pick(g.r, []string{"ab", "Ab", "abc", "x y", "", "7", "lo-w"})}
}

func (g *c6Gen) str(d int) *c6Node {
	col := &c6Node{K: c6Col, T: 'S', Op: g.s}
	if d <= 0 {
		if g.r.Intn(4) == 0 {
			return g.strLit()
		}
		return col
	}
	call := func(name string, args ...*c6Node) *c6Node {
		return &c6Node{K: c6Call, T: 'S', Op: name, Args: args}
	}
	switch g.r.Intn(6) {
	case 0:
		return call("upper", g.str(d-1))
	case 1:
		return call("lower", g.str(d-1))
	case 2:
		return call("trim", g.str(d-1))
	case 3:
		return call("concat", g.str(d-1), g.strLit())
	case 4:
		return g.caseExpr(d, 'S')
	}
	return col
}

func (g *c6Gen) cmp(d int) *c6Node {
	if g.r.Intn(5) == 0 { // string comparison
		op := pick(g.r, []string{"=", "=", "!=", "=", ">", "<>", "<=", ">=", "<"})
		if g.r.Intn(3) == 0 {
			// the bare text column against a literal it can be equal to: the boundary of <= and >=
			return &c6Node{K: c6Cmp, T: 'B', Op: op, Args: []*c6Node{{K: c6Col, T: 'S', Op: g.s}, g.strLit()}}
		}
		return &c6Node{K: c6Cmp, T: 'B', Op: op, Args: []*c6Node{g.str(min(d, 1)), g.strLit()}}
	}
	op := pick(g.r, []string{"=", "!=", "<", "<=", ">", ">=", ">", "<", ">=", "<=", "<>", "=", "!="})
	a := g.num(d)
	var b *c6Node
	if g.r.Intn(2) == 0 {
		b = g.numLit()
	} else {
		b = g.num(d)
	}
	return &c6Node{K: c6Cmp, T: 'B', Op: op, Args: []*c6Node{a, b}}
}

// flatMix: plain `column OP literal` comparisons joined by AND and OR without any parentheses, AND nested
// below OR as precedence demands (c1 OR c2 AND c3, c1 AND c2 OR c3, c1 OR c2 AND c3 OR c4): the shape for
// which a left-to-right fold of the chain and the proper grouping disagree.
func (g *c6Gen) flatMix() *c6Node {
	c := func() *c6Node {
		return &c6Node{K: c6Cmp, T: 'B', Op: pick(g.r, []string{">", ">=", "<", "<=", "=", "!="}), Args: []*c6Node{g.numCol(), g.numLit()}}
	}
	and := func(a, b *c6Node) *c6Node { return &c6Node{K: c6And, T: 'B', Args: []*c6Node{a, b}} }
	or := func(a, b *c6Node) *c6Node { return &c6Node{K: c6Or, T: 'B', Args: []*c6Node{a, b}} }
	switch g.r.Intn(4) {
	case 0:
		return or(c(), and(c(), c()))
	case 1:
		return or(and(c(), c()), c())
	case 2:
		return or(or(c(), and(c(), c())), c())
	}
	return or(c(), and(and(c(), c()), c()))
}

func (g *c6Gen) boolean(d int) *c6Node {
	if d <= 0 {
		if g.r.Intn(6) == 0 {
			return &c6Node{K: c6Col, T: 'B', Op: g.b}
		}
		return g.cmp(0)
	}
	if g.r.Intn(12) == 0 {
		return g.flatMix()
	}
	switch k := g.r.Intn(20); {
	case k < 6:
		return g.cmp(d - 1)
	case k < 10:
		return &c6Node{K: c6And, T: 'B', Args: []*c6Node{g.boolean(d - 1), g.boolean(d - 1 - g.r.Intn(2))}}
	case k < 14:
		return &c6Node{K: c6Or, T: 'B', Args: []*c6Node{g.boolean(d - 1), g.boolean(d - 1 - g.r.Intn(2))}}
	case k < 17:
		return &c6Node{K: c6Not, T: 'B', Args: []*c6Node{g.boolean(d - 1)}}
	case k < 18:
		return &c6Node{K: c6Col, T: 'B', Op: g.b}
	case k < 19:
		return &c6Node{K: c6Call, T: 'B', Op: pick(g.r, []string{"is_null", "is_not_null"}), Args: []*c6Node{g.numCol()}}
	}
	return &c6Node{K: c6Call, T: 'B', Op: pick(g.r, []string{"startswith", "endswith"}),
		Args: []*c6Node{g.str(0), &c6Node{K: c6Str, T: 'S', S: pick(g.r, []string{"a", "b", "A", "c"})}}}
}

// rows: the first five rows fix the "type presented first" orders (int, float, text, NULL,
// absent); the others are drawn per column.
func (g *c6Gen) genRows(n int) {
	numv := func(kind int) (any, bool) {
		switch kind {
		case 0:
			return g.r.Intn(30) - 9, true
		case 1:
			return float64(g.r.Intn(121)-40) / 4, true
		case 2:
			return pick(g.r, []string{"ab", "7", "2.5", "x"}), true
		case 3:
			return nil, true
		case 4:
			return nil, false
		case 5:
			return g.r.Intn(2) == 0, true
		}
		return int64(g.r.Intn(30) - 9), true
	}
	strv := func(kind int) (any, bool) {
		switch kind {
		case 3:
			return nil, true
		case 4:
			return nil, false
		case 5:
			return g.r.Intn(100), true
		}
		return pick(g.r, []string{"ab", "Ab", "abc", "", "x y", "7", " b ", "cab", "lo-w"}), true
	}
	boolv := func(kind int) (any, bool) {
		switch kind {
		case 3:
			return nil, true
		case 4:
			return nil, false
		}
		return g.r.Intn(2) == 0, true
	}
	kinds := []int{0, 0, 0, 0, 0, 1, 1, 1, 1, 1, 3, 3, 4, 4, 2, 5, 6}
	for i := 0; i < n; i++ {
		row := Row{"id": i + 1}
		kx, ky, ks, kb := pick(g.r, kinds), pick(g.r, kinds), pick(g.r, kinds), pick(g.r, kinds)
		switch i {
		case 0:
			kx, ky, ks, kb = 0, 0, 0, 0
		case 1:
			kx, ky, ks, kb = 1, 1, 0, 0
		case 2:
			kx, ky = 2, pick(g.r, []int{0, 2})
		case 3:
			kx, ky, ks, kb = 3, pick(g.r, []int{0, 3}), 3, 3
		case 4:
			kx, ky, ks, kb = 4, pick(g.r, []int{1, 4}), 4, 4
		}
		set := func(col string, v any, ok bool) {
			if ok {
				row[col] = v
			}
		}
		v, ok := numv(kx)
		set(g.x, v, ok)
		v, ok = numv(ky)
		set(g.y, v, ok)
		v, ok = strv(ks)
		set(g.s, v, ok)
		v, ok = boolv(kb)
		set(g.b, v, ok)
		g.rows = append(g.rows, row)
	}
}

func c6RowString(row Row) string {
	keys := make([]string, 0, len(row))
	for k := range row {
		keys = append(keys, k)
	}
	sort.Strings(keys)
	parts := make([]string, len(keys))
	for i, k := range keys {
		parts[i] = fmt.Sprintf("%s:%#v", k, row[k])
	}
	return "{" + strings.Join(parts, ", ") + "}"
}
