package checks

import (
	"fmt"
	"math/rand"
	"sort"
	"strings"
)

// C15 reference model: pattern AST, DEFINE condition AST with a tiny three-valued evaluator, and a
// brute-force matcher that enumerates, by direct recursion on the pattern AST, every labelling of
// a run of consecutive partition rows that spells a pattern word and satisfies DEFINE and WITHIN.
// Nothing here calls into the engine.

// ---- pattern AST -------------------------------------------------------------------------------

type c15Pat struct {
	Kind string // lit | seq | alt | rep | perm
	Sym  byte
	Kids []*c15Pat
	Min  int
	Max  int // -1 = unbounded
	Lazy bool
}

func (p *c15Pat) quantText() string {
	s := ""
	switch {
	case p.Min == 0 && p.Max == 1:
		s = "?"
	case p.Min == 0 && p.Max < 0:
		s = "*"
	case p.Min == 1 && p.Max < 0:
		s = "+"
	case p.Max < 0:
		s = fmt.Sprintf("{%d,}", p.Min)
	case p.Min == p.Max:
		s = fmt.Sprintf("{%d}", p.Min)
	default:
		s = fmt.Sprintf("{%d,%d}", p.Min, p.Max)
	}
	if p.Lazy {
		s += "?"
	}
	return s
}

func (p *c15Pat) quantKind() string {
	switch {
	case p.Min == 0 && p.Max == 1:
		return "opt"
	case p.Min == 0 && p.Max < 0:
		return "star"
	case p.Min == 1 && p.Max < 0:
		return "plus"
	case p.Max < 0:
		return "atleast"
	case p.Min == p.Max:
		return "exact"
	}
	return "range"
}

// render gives the PATTERN text.  ctx: 0 = top / alternation level, 1 = inside a sequence,
// 2 = operand of a quantifier.
func (p *c15Pat) render(ctx int) string {
	switch p.Kind {
	case "lit":
		return string(p.Sym)
	case "seq":
		parts := make([]string, len(p.Kids))
		for i, k := range p.Kids {
			parts[i] = k.render(1)
		}
		s := strings.Join(parts, " ")
		if ctx >= 1 {
			return "(" + s + ")"
		}
		return s
	case "alt":
		parts := make([]string, len(p.Kids))
		for i, k := range p.Kids {
			if k.Kind == "alt" {
				parts[i] = "(" + k.render(0) + ")"
			} else {
				parts[i] = k.render(0)
			}
		}
		s := strings.Join(parts, " | ")
		if ctx >= 1 {
			return "(" + s + ")"
		}
		return s
	case "rep":
		k := p.Kids[0]
		var atom string
		switch k.Kind {
		case "lit", "perm":
			atom = k.render(2)
		case "rep":
			atom = "(" + k.render(0) + ")"
		default:
			atom = k.render(2) // seq / alt parenthesise themselves for ctx>=1
		}
		return atom + p.quantText()
	case "perm":
		parts := make([]string, len(p.Kids))
		for i, k := range p.Kids {
			parts[i] = k.render(0)
		}
		return "PERMUTE(" + strings.Join(parts, ", ") + ")"
	}
	return "?"
}

func (p *c15Pat) walk(fn func(*c15Pat)) {
	fn(p)
	for _, k := range p.Kids {
		k.walk(fn)
	}
}

func (p *c15Pat) depth() int {
	d := 0
	for _, k := range p.Kids {
		if kd := k.depth(); kd > d {
			d = kd
		}
	}
	if p.Kind == "lit" {
		return 0
	}
	return d + 1
}

// shape lists the constructs used (sorted, comma separated) for Attrs.
func (p *c15Pat) shape() string {
	set := map[string]bool{}
	p.walk(func(q *c15Pat) {
		switch q.Kind {
		case "rep":
			set[q.quantKind()] = true
			if q.Kids[0].Kind != "lit" {
				set["group"] = true
			}
			if q.Kids[0].Kind == "rep" || c15Nullable(q.Kids[0]) {
				set["nested_nullable"] = true
			}
		case "alt":
			set["alt"] = true
		case "perm":
			set["permute"] = true
		case "seq":
			set["seq"] = true
		}
	})
	out := make([]string, 0, len(set))
	for k := range set {
		out = append(out, k)
	}
	sort.Strings(out)
	if len(out) == 0 {
		return "literal"
	}
	return strings.Join(out, ",")
}

func c15Nullable(p *c15Pat) bool {
	switch p.Kind {
	case "lit":
		return false
	case "seq", "perm":
		for _, k := range p.Kids {
			if !c15Nullable(k) {
				return false
			}
		}
		return true
	case "alt":
		for _, k := range p.Kids {
			if c15Nullable(k) {
				return true
			}
		}
		return false
	case "rep":
		return p.Min == 0 || c15Nullable(p.Kids[0])
	}
	return false
}

// ---- DEFINE condition AST ------------------------------------------------------------------------

type c15Term struct {
	Kind  string // const | field | prev | first | last | count | sum | avg | symref
	Field string
	Sym   byte // symref; scoped aggregate (0 = unscoped)
	N     int  // prev offset
	K     int  // constant
}

func (t c15Term) sql() string {
	q := func() string {
		if t.Sym != 0 {
			return string(t.Sym) + "." + t.Field
		}
		return t.Field
	}
	switch t.Kind {
	case "const":
		return fmt.Sprint(t.K)
	case "field":
		return t.Field
	case "prev":
		if t.N == 1 {
			return "PREV(" + t.Field + ")"
		}
		return fmt.Sprintf("PREV(%s, %d)", t.Field, t.N)
	case "first":
		return "FIRST(" + t.Field + ")"
	case "last":
		return "LAST(" + t.Field + ")"
	case "count":
		if t.Sym == 0 {
			return "COUNT(*)"
		}
		return "COUNT(" + q() + ")"
	case "sum":
		return "SUM(" + q() + ")"
	case "avg":
		return "AVG(" + q() + ")"
	case "symref":
		return string(t.Sym) + "." + t.Field
	}
	return "?"
}

func c15Num(v any) (float64, bool) {
	if v == nil {
		return 0, true
	}
	f, ok := toF(v)
	return f, !ok
}

// eval evaluates the term over the match so far: rows/labels INCLUDE the event being classified
// as their last element (SQL:2016 running semantics in DEFINE).
func (t c15Term) eval(rows []Row, labels []byte) (val float64, null bool) {
	cur := len(rows) - 1
	switch t.Kind {
	case "const":
		return float64(t.K), false
	case "field":
		return c15Num(rows[cur][t.Field])
	case "prev":
		i := cur - t.N
		if i < 0 {
			return 0, true
		}
		return c15Num(rows[i][t.Field])
	case "first":
		return c15Num(rows[0][t.Field])
	case "last":
		return c15Num(rows[cur][t.Field])
	case "symref":
		for i := cur; i >= 0; i-- {
			if labels[i] == t.Sym {
				return c15Num(rows[i][t.Field])
			}
		}
		return 0, true
	case "count", "sum", "avg":
		n, s := 0, 0.0
		for i := range rows {
			if t.Sym != 0 && labels[i] != t.Sym {
				continue
			}
			if t.Kind == "count" && t.Sym == 0 {
				n++
				continue
			}
			v, isNull := c15Num(rows[i][t.Field])
			if isNull {
				continue
			}
			n++
			s += v
		}
		switch t.Kind {
		case "count":
			return float64(n), false
		case "sum":
			if n == 0 {
				return 0, true
			}
			return s, false
		default:
			if n == 0 {
				return 0, true
			}
			return s / float64(n), false
		}
	}
	return 0, true
}

type c15Cond struct {
	Op   string // cmp | and | or
	Cmp  string
	A, B c15Term
	L, R *c15Cond
}

func (c *c15Cond) sql() string {
	switch c.Op {
	case "cmp":
		return c.A.sql() + " " + c.Cmp + " " + c.B.sql()
	case "and":
		return c.L.sqlP() + " AND " + c.R.sqlP()
	case "or":
		return c.L.sqlP() + " OR " + c.R.sqlP()
	}
	return "?"
}

func (c *c15Cond) sqlP() string {
	if c.Op == "cmp" {
		return c.sql()
	}
	return "(" + c.sql() + ")"
}

// kinds lists the term kinds used, for Attrs.
func (c *c15Cond) kinds(set map[string]bool) {
	if c == nil {
		return
	}
	if c.Op == "cmp" {
		for _, t := range []c15Term{c.A, c.B} {
			if t.Kind != "const" && t.Kind != "field" {
				k := t.Kind
				if t.Sym != 0 && k != "symref" {
					k += "_scoped"
				}
				set[k] = true
			}
		}
		return
	}
	set[c.Op] = true
	c.L.kinds(set)
	c.R.kinds(set)
}

// eval: 1 true, 0 false, -1 unknown (SQL three-valued logic; DEFINE holds only when true).
func (c *c15Cond) eval(rows []Row, labels []byte) int {
	switch c.Op {
	case "cmp":
		a, an := c.A.eval(rows, labels)
		b, bn := c.B.eval(rows, labels)
		if an || bn {
			return -1
		}
		var r bool
		switch c.Cmp {
		case ">":
			r = a > b
		case "<":
			r = a < b
		case ">=":
			r = a >= b
		case "<=":
			r = a <= b
		case "==":
			r = a == b
		case "!=":
			r = a != b
		}
		if r {
			return 1
		}
		return 0
	case "and":
		l, r := c.L.eval(rows, labels), c.R.eval(rows, labels)
		if l == 0 || r == 0 {
			return 0
		}
		if l == 1 && r == 1 {
			return 1
		}
		return -1
	case "or":
		l, r := c.L.eval(rows, labels), c.R.eval(rows, labels)
		if l == 1 || r == 1 {
			return 1
		}
		if l == 0 && r == 0 {
			return 0
		}
		return -1
	}
	return -1
}

// ---- brute-force matcher -------------------------------------------------------------------------

type c15Spec struct {
	Pat    *c15Pat
	Defs   map[byte]*c15Cond
	Within int64 // < 0: no bound (the engine's default of one hour is never reached)
}

// defineHolds evaluates the DEFINE of sym for rows[len-1] given the match so far.
func (s *c15Spec) defineHolds(sym byte, rows []Row, labels []byte) bool {
	c := s.Defs[sym]
	if c == nil {
		return true
	}
	return c.eval(rows, labels) == 1
}

type c15Matcher struct {
	spec   *c15Spec
	rows   []Row // rows of one partition in arrival order
	start  int
	labels []byte
	accept func(sym byte, pos int) bool
	steps  int
	limit  int
	over   bool
	reach  int // furthest row position any DEFINE-satisfying partial labelling got to
}

func c15Ts(r Row) int64 {
	n, _ := toI(r["ts"])
	return n
}

func (m *c15Matcher) match(p *c15Pat, pos int, k func(int)) {
	if m.over {
		return
	}
	switch p.Kind {
	case "lit":
		if pos >= len(m.rows) {
			return
		}
		m.steps++
		if m.steps > m.limit {
			m.over = true
			return
		}
		m.labels = append(m.labels, p.Sym)
		if m.accept(p.Sym, pos) {
			if pos+1 > m.reach {
				m.reach = pos + 1
			}
			k(pos + 1)
		}
		m.labels = m.labels[:len(m.labels)-1]
	case "seq":
		m.seq(p.Kids, 0, pos, k)
	case "alt":
		for _, kid := range p.Kids {
			m.match(kid, pos, k)
		}
	case "perm":
		m.perm(p.Kids, 0, pos, k)
	case "rep":
		m.rep(p, 0, pos, k)
	}
}

func (m *c15Matcher) seq(kids []*c15Pat, i, pos int, k func(int)) {
	if i == len(kids) {
		k(pos)
		return
	}
	m.match(kids[i], pos, func(np int) { m.seq(kids, i+1, np, k) })
}

func (m *c15Matcher) perm(kids []*c15Pat, used uint, pos int, k func(int)) {
	if used == (1<<uint(len(kids)))-1 {
		k(pos)
		return
	}
	for i := range kids {
		if used&(1<<uint(i)) != 0 {
			continue
		}
		i := i
		m.match(kids[i], pos, func(np int) { m.perm(kids, used|(1<<uint(i)), np, k) })
	}
}

// rep: iterations that consume nothing only serve to reach Min, so a nullable operand makes the
// effective minimum 0 and only consuming iterations are explored (this also terminates (A?)*).
func (m *c15Matcher) rep(p *c15Pat, count, pos int, k func(int)) {
	effMin := p.Min
	if c15Nullable(p.Kids[0]) {
		effMin = 0
	}
	if count >= effMin {
		k(pos)
	}
	if p.Max < 0 || count < p.Max {
		m.match(p.Kids[0], pos, func(np int) {
			if np > pos {
				m.rep(p, count+1, np, k)
			}
		})
	}
}

// validFrom enumerates every non-empty valid labelling of a run starting at rows[start].
// ok=false when the enumeration budget was exceeded.
func (s *c15Spec) validFrom(rows []Row, start, limit int) (set map[string]bool, steps, reach int, ok bool) {
	set = map[string]bool{}
	m := &c15Matcher{spec: s, rows: rows, start: start, limit: limit}
	t0 := c15Ts(rows[start])
	m.accept = func(sym byte, pos int) bool {
		if s.Within >= 0 && c15Ts(rows[pos])-t0 > s.Within {
			return false
		}
		return s.defineHolds(sym, rows[start:pos+1], m.labels)
	}
	m.match(s.Pat, start, func(np int) {
		if np > start {
			set[string(m.labels)] = true
		}
	})
	return set, m.steps, m.reach, !m.over
}

// isWord reports whether labels spells a word of the pattern language (independent of DEFINE).
func (s *c15Spec) isWord(labels string) (is, ok bool) {
	rows := make([]Row, len(labels))
	m := &c15Matcher{spec: s, rows: rows, limit: 400000}
	m.accept = func(sym byte, pos int) bool { return labels[pos] == sym }
	found := false
	m.match(s.Pat, 0, func(np int) {
		if np == len(labels) {
			found = true
			m.over = true // stop early
		}
	})
	if found {
		return true, true
	}
	return false, !m.over
}

// extendable reports whether labels is a proper prefix of a longer pattern word.
func (s *c15Spec) extendable(labels string) bool {
	rows := make([]Row, len(labels)+1)
	m := &c15Matcher{spec: s, rows: rows, limit: 400000}
	m.accept = func(sym byte, pos int) bool { return pos >= len(labels) || labels[pos] == sym }
	m.match(s.Pat, 0, func(int) {})
	return m.reach > len(labels)
}

// sampleWord draws a word of the pattern by a random derivation (unbounded repeats stop quickly).
func c15SampleWord(p *c15Pat, r *rand.Rand, out []byte) []byte {
	switch p.Kind {
	case "lit":
		return append(out, p.Sym)
	case "seq":
		for _, k := range p.Kids {
			out = c15SampleWord(k, r, out)
		}
	case "alt":
		out = c15SampleWord(p.Kids[r.Intn(len(p.Kids))], r, out)
	case "perm":
		for _, i := range r.Perm(len(p.Kids)) {
			out = c15SampleWord(p.Kids[i], r, out)
		}
	case "rep":
		n := p.Min
		if p.Max < 0 {
			n += r.Intn(4)
		} else if p.Max > p.Min {
			n += r.Intn(p.Max - p.Min + 1)
		}
		for i := 0; i < n; i++ {
			out = c15SampleWord(p.Kids[0], r, out)
		}
	}
	return out
}

// ---- upper bound on the engine's number of simultaneous partial matches ---------------------------
//
// The engine drops partial matches once a partition holds more than 10000 of them, and that guard
// cannot be observed through the public API.  Its partial matches are the distinct paths through
// the position (Glushkov) automaton of the pattern with quantifiers unrolled the way cep/pattern.go
// documents it ({n,m} = n copies + (m-n) optional copies, {n,} = n copies + a starred copy, PERMUTE =
// alternation of all orders).  c15RunBound counts those paths per partition, treating every
// history-dependent DEFINE as true, SKIP as never pruning and WITHIN as absent (all over-estimates).

type c15Glu struct {
	sym    []byte
	follow []map[int]bool
	first  []int
	over   bool
}

type c15Frag struct {
	nullable    bool
	first, last []int
}

func (g *c15Glu) link(from, to []int) {
	for _, a := range from {
		for _, b := range to {
			g.follow[a][b] = true
		}
	}
}

func (g *c15Glu) seq(a, b c15Frag) c15Frag {
	g.link(a.last, b.first)
	out := c15Frag{nullable: a.nullable && b.nullable}
	out.first = append(out.first, a.first...)
	if a.nullable {
		out.first = append(out.first, b.first...)
	}
	out.last = append(out.last, b.last...)
	if b.nullable {
		out.last = append(out.last, a.last...)
	}
	return out
}

func (g *c15Glu) build(p *c15Pat) c15Frag {
	if g.over || len(g.sym) > 150 {
		g.over = true
		return c15Frag{nullable: true}
	}
	empty := c15Frag{nullable: true}
	switch p.Kind {
	case "lit":
		id := len(g.sym)
		g.sym = append(g.sym, p.Sym)
		g.follow = append(g.follow, map[int]bool{})
		return c15Frag{first: []int{id}, last: []int{id}}
	case "seq":
		out := empty
		for _, k := range p.Kids {
			out = g.seq(out, g.build(k))
		}
		return out
	case "alt":
		out := c15Frag{}
		for _, k := range p.Kids {
			f := g.build(k)
			out.nullable = out.nullable || f.nullable
			out.first = append(out.first, f.first...)
			out.last = append(out.last, f.last...)
		}
		return out
	case "perm":
		out := c15Frag{}
		var rec func(order []int)
		rec = func(order []int) {
			if len(order) == len(p.Kids) {
				cur := empty // every order gets its own copies of all operands, as in the engine
				for _, i := range order {
					cur = g.seq(cur, g.build(p.Kids[i]))
				}
				out.nullable = out.nullable || cur.nullable
				out.first = append(out.first, cur.first...)
				out.last = append(out.last, cur.last...)
				return
			}
			for i := range p.Kids {
				dup := false
				for _, j := range order {
					dup = dup || j == i
				}
				if !dup {
					rec(append(append([]int{}, order...), i))
				}
			}
		}
		rec(nil)
		return out
	case "rep":
		out := empty
		for i := 0; i < p.Min; i++ {
			out = g.seq(out, g.build(p.Kids[0]))
		}
		if p.Max < 0 {
			f := g.build(p.Kids[0])
			g.link(f.last, f.first)
			f.nullable = true
			out = g.seq(out, f)
		} else {
			for i := 0; i < p.Max-p.Min; i++ {
				f := g.build(p.Kids[0])
				f.nullable = true
				out = g.seq(out, f)
			}
		}
		return out
	}
	return empty
}

func (c *c15Cond) historyFree() bool {
	if c == nil {
		return true
	}
	if c.Op == "cmp" {
		for _, t := range []c15Term{c.A, c.B} {
			if t.Kind != "const" && t.Kind != "field" {
				return false
			}
		}
		return true
	}
	return c.L.historyFree() && c.R.historyFree()
}

// c15RunBound returns an upper bound on the number of partial matches the engine can hold at once
// for the partition rows (ok=false: the unrolled pattern is too large to bound).
func (s *c15Spec) c15RunBound(rows []Row) (bound float64, ok bool) {
	g := &c15Glu{}
	top := g.build(s.Pat)
	if g.over {
		return 0, false
	}
	n := len(g.sym)
	may := func(m int, row Row) bool {
		c := s.Defs[g.sym[m]]
		if c == nil || !c.historyFree() {
			return true
		}
		return c.eval([]Row{row}, []byte{g.sym[m]}) == 1
	}
	var starts [][]float64
	for _, row := range rows {
		total := 0.0
		for i, cnt := range starts {
			next := make([]float64, n)
			for m, v := range cnt {
				if v == 0 {
					continue
				}
				for m2 := range g.follow[m] {
					if may(m2, row) {
						next[m2] += v
					}
				}
			}
			starts[i] = next
			for _, v := range next {
				total += v
			}
		}
		seed := make([]float64, n)
		for _, m := range top.first {
			if may(m, row) {
				seed[m]++ // the engine de-duplicates match states within one closure
			}
		}
		for m := range seed {
			if seed[m] > 1 {
				seed[m] = 1
			}
			total += seed[m]
		}
		starts = append(starts, seed)
		if total > bound {
			bound = total
		}
	}
	return bound, true
}
