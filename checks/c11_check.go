package checks

import (
	"encoding/json"
	"fmt"
	"math/rand"
	"os"
	"reflect"
	"regexp"
	"runtime/debug"
	"sort"
	"strings"
	"time"

	"github.com/rulego/streamsql/rsql"
	"github.com/rulego/streamsql/types"

	"verif/internal/core"
	"verif/internal/eng"
)

// ---- guarded parse ---------------------------------------------------------------------------

type c11ParseRes struct {
	Cfg      *types.Config
	Cond     string
	Err      error
	Panic    any
	Stack    string
	Dur      time.Duration
	TimedOut bool
}

const c11Watchdog = 5 * time.Second

// c11Parse calls rsql.Parse in its own goroutine (with recover) under a watchdog.  A parse that
// does not come back is abandoned (the goroutine cannot be killed) and reported as TimedOut.
func c11Parse(sql string) c11ParseRes {
	ch := make(chan c11ParseRes, 1)
	go func() {
		var res c11ParseRes
		t0 := time.Now()
		defer func() {
			if p := recover(); p != nil {
				res.Panic = p
				res.Stack = string(debug.Stack())
			}
			res.Dur = time.Since(t0)
			ch <- res
		}()
		res.Cfg, res.Cond, res.Err = rsql.Parse(sql)
	}()
	tm := time.NewTimer(c11Watchdog)
	defer tm.Stop()
	select {
	case r := <-ch:
		return r
	case <-tm.C:
		return c11ParseRes{TimedOut: true, Dur: c11Watchdog}
	}
}

// c11Totality applies the totality clauses to one parse outcome.  ok=false: no usable outcome.
func c11Totality(ctx *core.Ctx, sql, class string, cs any) (c11ParseRes, bool) {
	res := c11Parse(sql)
	attrs := map[string]string{"class": class}
	if res.TimedOut {
		again := c11Parse(sql)
		if again.TimedOut {
			ctx.Violate(core.Violation{Kind: "total.no_termination", Attrs: attrs,
				Detail: fmt.Sprintf("rsql.Parse did not return within %v on two attempts; input=%q", c11Watchdog, sql), Case: cs})
		} else {
			ctx.Inconclusive("parse exceeded the watchdog once, not reproducible")
		}
		return res, false
	}
	ctx.Max("max.parse_us", res.Dur.Microseconds())
	if res.Panic != nil {
		attrs["panic"] = c11PanicSite(res.Stack)
		ctx.Violate(core.Violation{Kind: "total.panic", Attrs: attrs,
			Detail: fmt.Sprintf("rsql.Parse panicked: %v\ninput=%q\n%s", res.Panic, sql, trimStack(res.Stack)), Case: cs})
		return res, false
	}
	if (res.Err != nil) == (res.Cfg != nil) {
		ctx.Violate(core.Violation{Kind: "total.error_xor_config", Attrs: attrs,
			Detail: fmt.Sprintf("rsql.Parse returned err=%v and config nil=%v (exactly one expected); input=%q", res.Err, res.Cfg == nil, sql), Case: cs})
		return res, false
	}
	return res, true
}

var c11FrameRe = regexp.MustCompile(`github\.com/rulego/streamsql/([A-Za-z0-9_/]+)\.([A-Za-z0-9_.()*]+)`)

func c11PanicSite(stack string) string {
	for _, m := range c11FrameRe.FindAllStringSubmatch(stack, -1) {
		return m[1] + "." + m[2]
	}
	return "unknown"
}

func trimStack(s string) string {
	if len(s) > 1800 {
		return s[:1800] + "…"
	}
	return s
}

// ---- statement case --------------------------------------------------------------------------

type c11StmtCase struct {
	core.CaseRef
	Family  string      `json:"family"`
	SQL     string      `json:"sql"`
	Layouts []c11Layout `json:"layouts"`
	Texts   []string    `json:"layout_texts"`
	Hostile []string    `json:"hostile"`
	Rows    []Row       `json:"rows,omitempty"`
}

type c11Run struct {
	ctx  *core.Ctx
	s    *c11Stmt
	c    *c11StmtCase
	seen map[string]bool
}

func (u *c11Run) attrs(extra ...string) map[string]string {
	h := append([]string{}, u.s.Hostile...)
	sort.Strings(h)
	a := map[string]string{"family": u.s.Family, "hostile": strings.Join(h, ","), "select_literal_with_parens": fmt.Sprint(u.s.parenLit()), "unaliased_call_item": fmt.Sprint(u.s.unaliasedCall())}
	for i := 0; i+1 < len(extra); i += 2 {
		a[extra[i]] = extra[i+1]
	}
	return a
}

// parenLit reports whether a string literal in the select list contains "(" and ")".
func (s *c11Stmt) parenLit() bool {
	for _, it := range s.Items {
		for _, t := range it.Toks {
			if t.K == c11STR && strings.Contains(t.S, "(") && strings.Contains(t.S, ")") {
				return true
			}
		}
	}
	return false
}

// unaliasedCall reports whether a function-call select item has no alias.
func (s *c11Stmt) unaliasedCall() bool {
	for _, it := range s.Items {
		if (it.Kind == "fn" || it.Kind == "agg") && it.Alias == "" {
			return true
		}
	}
	return false
}

func (u *c11Run) viol(kind, field, detail string, extra ...string) {
	if u.seen[kind+"/"+field] {
		return
	}
	u.seen[kind+"/"+field] = true
	u.ctx.Count("flagged."+kind+"["+field+"]", 1)
	// C11_DEBUG=<substring of kind[field]> prints every matching flagged case (diagnostic aid only)
	if dbg := os.Getenv("C11_DEBUG"); dbg != "" && strings.Contains(kind+"["+field+"]", dbg) {
		fmt.Fprintf(os.Stderr, "C11_DEBUG %s[%s] #%d %v\n  %s\n  SQL: %s\n", kind, field, u.c.Index, u.s.Hostile, detail, u.c.SQL)
	}
	extra = append(extra, "field", field)
	u.ctx.Violate(core.Violation{Kind: kind, Attrs: u.attrs(extra...), Detail: detail + "\nSQL: " + u.c.SQL, Case: u.c})
}

func c11Dur(v any) (time.Duration, bool) {
	switch x := v.(type) {
	case time.Duration:
		return x, true
	}
	if f, ok := toF(v); ok {
		return time.Duration(f), true
	}
	return 0, false
}

func c11EqName(got, want string) bool { return c11Norm(c11NoBT(got)) == c11Norm(c11NoBT(want)) }

// faithful compares the configuration returned for the canonical rendering with the AST.
func (u *c11Run) faithful(cfg *types.Config, cond string) {
	s := u.s
	// --- select items -----------------------------------------------------------------------
	wantOrder := make([]string, len(s.Items))
	for i, it := range s.Items {
		wantOrder[i] = it.outName()
	}
	if len(cfg.FieldOrder) != len(wantOrder) {
		u.viol("faithful.field_order", "length", fmt.Sprintf("FieldOrder=%q, select items (alias or text) in order=%q", cfg.FieldOrder, wantOrder))
	} else {
		for i := range wantOrder {
			if !c11EqName(cfg.FieldOrder[i], wantOrder[i]) {
				k := s.Items[i].Kind
				if s.Items[i].Alias == "" {
					k += "_unaliased"
				}
				u.viol("faithful.field_order", k, fmt.Sprintf("FieldOrder[%d]=%q but item %d is %q (FieldOrder=%q)", i, cfg.FieldOrder[i], i, wantOrder[i], cfg.FieldOrder), "item", k)
				break
			}
		}
	}
	isAgg := s.Family == "agg" || s.Family == "timewin"
	if !isAgg {
		want := make([]string, len(s.Items))
		for i, it := range s.Items {
			want[i] = c11Canon(it.Toks)
			if it.Alias != "" {
				want[i] += ":" + it.Alias
			}
		}
		ok, bad := len(cfg.SimpleFields) == len(want), "length"
		for i := 0; ok && i < len(want); i++ {
			if ok = c11EqName(cfg.SimpleFields[i], want[i]); !ok {
				bad = s.Items[i].Kind
				if s.Items[i].Alias == "" {
					bad += "_unaliased"
				}
			}
		}
		if !ok {
			u.viol("faithful.simple_fields", bad, fmt.Sprintf("SimpleFields=%q, written items=%q", cfg.SimpleFields, want), "item", bad)
		}
		for k, t := range cfg.SelectFields {
			if string(t) != "expression" && !strings.HasPrefix(k, "__") {
				u.viol("faithful.select_fields", "aggregate_in_direct", fmt.Sprintf("SelectFields[%q]=%q in a statement without aggregate", k, t))
			}
		}
	} else {
		matched := map[string]bool{}
		for _, it := range s.Items {
			if it.Kind != "agg" {
				continue
			}
			key := ""
			for k := range cfg.SelectFields {
				if c11EqName(k, it.outName()) {
					key = k
				}
			}
			al := "aliased"
			if it.Alias == "" {
				al = "unaliased"
			}
			if key == "" {
				u.viol("faithful.select_fields", "missing", fmt.Sprintf("no SelectFields entry for item %q (SelectFields=%v)", it.outName(), cfg.SelectFields), "item", al)
				continue
			}
			matched[key] = true
			if !strings.EqualFold(string(cfg.SelectFields[key]), it.Agg) {
				u.viol("faithful.select_fields", "type", fmt.Sprintf("SelectFields[%q]=%q, written function %q", key, cfg.SelectFields[key], it.Agg), "item", al)
			}
			wantIn := it.Col.Name
			if it.Star {
				wantIn = "*"
			}
			if !c11EqName(cfg.FieldAlias[key], wantIn) {
				u.viol("faithful.field_alias", "input", fmt.Sprintf("FieldAlias[%q]=%q, written argument %q", key, cfg.FieldAlias[key], wantIn), "item", al)
			}
		}
		for k, t := range cfg.SelectFields {
			if !matched[k] && string(t) != "expression" && string(t) != "post_aggregation" && !strings.HasPrefix(k, "__") {
				u.viol("faithful.select_fields", "extra", fmt.Sprintf("SelectFields[%q]=%q corresponds to no written aggregate item", k, t))
			}
		}
	}
	// --- group by / window --------------------------------------------------------------------
	wantG := []string{}
	for _, g := range s.Group {
		wantG = append(wantG, g.Name)
	}
	if !c11StrsEq(cfg.GroupFields, wantG) {
		u.viol("faithful.group_fields", "GroupFields", fmt.Sprintf("GroupFields=%q, written GROUP BY columns=%q", cfg.GroupFields, wantG), "winpos", u.winPos())
	}
	wc := cfg.WindowConfig
	if cfg.NeedWindow != isAgg {
		u.viol("faithful.window", "need_window", fmt.Sprintf("NeedWindow=%v for a %s statement", cfg.NeedWindow, s.Family))
	}
	if s.Win != nil {
		if wc.Type != s.Win.Kind {
			u.viol("faithful.window", "type", fmt.Sprintf("WindowConfig.Type=%q, written %s", wc.Type, s.Win.Name))
		}
		if s.Win.Kind == "counting" {
			n, ok := int64(0), false
			if len(wc.Params) == 1 {
				n, ok = toI(wc.Params[0])
			}
			if !ok || int(n) != s.Win.Count {
				u.viol("faithful.window", "params", fmt.Sprintf("WindowConfig.Params=%v, written %s(%d)", wc.Params, s.Win.Name, s.Win.Count))
			}
		} else {
			ok := len(wc.Params) == len(s.Win.Durs)
			for i := 0; ok && i < len(s.Win.Durs); i++ {
				d, isd := c11Dur(wc.Params[i])
				ok = isd && d == s.Win.Durs[i]
			}
			if !ok {
				u.viol("faithful.window", "params", fmt.Sprintf("WindowConfig.Params=%v, written %s(%s) = %v", wc.Params, s.Win.Name, strings.Join(s.Win.Args, ","), s.Win.Durs))
			}
		}
	} else if len(wc.Params) != 0 {
		u.viol("faithful.window", "params", fmt.Sprintf("WindowConfig.Params=%v without a window in the statement", wc.Params))
	}
	// --- WITH options -------------------------------------------------------------------------
	var wTs string
	var wUnit, wMoo, wAl, wIdle, wTTL time.Duration
	for _, o := range s.With {
		d := time.Duration(0)
		for _, w := range c11DurWords {
			if w.S == o.Val {
				d = w.D
			}
		}
		switch o.Key {
		case "TIMESTAMP":
			wTs = o.Val
		case "TIMEUNIT":
			wUnit = map[string]time.Duration{"dd": 24 * time.Hour, "hh": time.Hour, "mi": time.Minute, "ss": time.Second, "ms": time.Millisecond, "ns": time.Nanosecond}[o.Val]
		case "MAXOUTOFORDERNESS":
			wMoo = d
		case "ALLOWEDLATENESS":
			wAl = d
		case "IDLETIMEOUT":
			wIdle = d
		case "STATETTL":
			wTTL = d
		}
	}
	withKeys := []string{}
	for _, o := range s.With {
		withKeys = append(withKeys, o.Key)
	}
	wk := strings.Join(withKeys, ",")
	chk := func(field string, got, want any) {
		if got != want {
			u.viol("faithful.with", field, fmt.Sprintf("WindowConfig.%s=%v, written WITH options give %v (WITH %v)", field, got, want, s.With), "with", wk)
		}
	}
	chk("TsProp", wc.TsProp, wTs)
	chk("TimeUnit", wc.TimeUnit, wUnit)
	chk("MaxOutOfOrderness", wc.MaxOutOfOrderness, wMoo)
	chk("AllowedLateness", wc.AllowedLateness, wAl)
	chk("IdleTimeout", wc.IdleTimeout, wIdle)
	chk("CountStateTTL", wc.CountStateTTL, wTTL)
	wantTC := types.ProcessingTime
	if wTs != "" {
		wantTC = types.EventTime
	}
	chk("TimeCharacteristic", wc.TimeCharacteristic, wantTC)
	// --- WHERE / HAVING -----------------------------------------------------------------------
	wantW := ""
	if s.Where != nil {
		wantW = c11Norm(c11Canon(s.Where.toks()))
	}
	if c11Norm(cond) != wantW && s.Undoc == "" {
		u.viol("faithful.where_text", "condition", fmt.Sprintf("returned condition %q normalises to %q, written WHERE normalises to %q", cond, c11Norm(cond), wantW))
	}
	wantH := ""
	if s.Having != nil {
		wantH = c11Norm(c11Canon(s.Having.toks()))
	}
	if c11Norm(cfg.Having) != wantH {
		next := "end"
		switch {
		case len(s.With) > 0:
			next = "with"
		case len(s.Order) > 0:
			next = "order_by"
		case s.Limit > 0 || s.LimitZero:
			next = "limit"
		}
		u.viol("faithful.having_text", "Having", fmt.Sprintf("Config.Having=%q, written HAVING predicate %q", cfg.Having, wantH), "having_followed_by", next, "has_having", fmt.Sprint(s.Having != nil))
	}
	// --- ORDER BY / LIMIT / DISTINCT ----------------------------------------------------------
	okO := len(cfg.OrderBy) == len(s.Order)
	for i := 0; okO && i < len(s.Order); i++ {
		okO = c11EqName(cfg.OrderBy[i].Expression, s.Order[i].Key) && string(cfg.OrderBy[i].Direction) == s.Order[i].Want
	}
	if !okO {
		u.viol("faithful.order_by", "OrderBy", fmt.Sprintf("Config.OrderBy=%+v, written ORDER BY keys=%+v", cfg.OrderBy, s.Order), "written_keys", fmt.Sprint(len(s.Order)))
	}
	if cfg.Limit != s.Limit {
		u.viol("faithful.limit", "Limit", fmt.Sprintf("Config.Limit=%d, written LIMIT %d (0 = none)", cfg.Limit, s.Limit))
	}
	if cfg.Distinct != s.Distinct {
		u.viol("faithful.distinct", "Distinct", fmt.Sprintf("Config.Distinct=%v, written DISTINCT=%v", cfg.Distinct, s.Distinct))
	}
	// --- JOIN ---------------------------------------------------------------------------------
	if cfg.SourceAlias != s.SrcAlias {
		u.viol("faithful.source_alias", "SourceAlias", fmt.Sprintf("Config.SourceAlias=%q, written %q", cfg.SourceAlias, s.SrcAlias))
	}
	if j := s.Join; j != nil {
		al := j.Alias
		if al == "" {
			al = j.Table
		}
		want := types.JoinConfig{Table: j.Table, Alias: al, JoinType: j.Type}
		for _, p := range j.On {
			want.OnPairs = append(want.OnPairs, types.JoinOnPair{StreamField: p[0], TableField: p[1]})
		}
		wants := []types.JoinConfig{want}
		written := strings.Join(j.Written, "_")
		if j2 := s.Join2; j2 != nil {
			al2 := j2.Alias
			if al2 == "" {
				al2 = j2.Table
			}
			w2 := types.JoinConfig{Table: j2.Table, Alias: al2, JoinType: j2.Type}
			for _, p := range j2.On {
				w2.OnPairs = append(w2.OnPairs, types.JoinOnPair{StreamField: p[0], TableField: p[1]})
			}
			wants = append(wants, w2)
			written += "+" + strings.Join(j2.Written, "_")
		}
		if !reflect.DeepEqual(cfg.JoinConfigs, wants) {
			u.viol("faithful.join", "JoinConfigs", fmt.Sprintf("Config.JoinConfigs=%+v, written %+v", cfg.JoinConfigs, wants), "join_written", written)
		}
	} else if len(cfg.JoinConfigs) != 0 {
		u.viol("faithful.join", "JoinConfigs", fmt.Sprintf("Config.JoinConfigs=%+v without a JOIN", cfg.JoinConfigs))
	}
	// --- MATCH_RECOGNIZE ------------------------------------------------------------------------
	if m := s.MR; m != nil {
		u.faithfulMR(cfg.MatchRecognize, m, cfg)
	} else if cfg.MatchRecognize != nil {
		u.viol("faithful.match_recognize", "spurious", "Config.MatchRecognize set without a MATCH_RECOGNIZE clause")
	}
}

func (u *c11Run) winPos() string {
	if u.s.Win == nil {
		return "none"
	}
	switch {
	case len(u.s.Group) == 0:
		return "only"
	case u.s.Win.Pos == 0:
		return "first"
	case u.s.Win.Pos == len(u.s.Group):
		return "last"
	}
	return "middle"
}

func (u *c11Run) faithfulMR(g *types.MatchRecognizeSpec, m *c11MR, cfg *types.Config) {
	if g == nil {
		u.viol("faithful.match_recognize", "missing", "Config.MatchRecognize is nil")
		return
	}
	if cfg.Mode != types.ExecCEP {
		u.viol("faithful.match_recognize", "mode", fmt.Sprintf("Config.Mode=%v, expected the CEP mode", cfg.Mode))
	}
	if !c11StrsEq(g.PartitionBy, m.Partition) {
		u.viol("faithful.match_recognize", "PartitionBy", fmt.Sprintf("PartitionBy=%q, written %q", g.PartitionBy, m.Partition))
	}
	ok := len(g.OrderBy) == len(m.Order)
	for i := 0; ok && i < len(m.Order); i++ {
		ok = g.OrderBy[i].Expression == m.Order[i].Key && string(g.OrderBy[i].Direction) == m.Order[i].Want
	}
	if !ok {
		u.viol("faithful.match_recognize", "OrderBy", fmt.Sprintf("MatchRecognize.OrderBy=%+v, written %+v", g.OrderBy, m.Order))
	}
	ok = len(g.Measures) == len(m.Measures)
	for i := 0; ok && i < len(m.Measures); i++ {
		ok = c11Norm(g.Measures[i].Expr) == c11Norm(m.Measures[i][0]) && g.Measures[i].Alias == m.Measures[i][1]
	}
	if !ok {
		u.viol("faithful.match_recognize", "Measures", fmt.Sprintf("Measures=%+v, written %v", g.Measures, m.Measures))
	}
	wantRows := types.RowsPerMatchOne
	if m.AllRows {
		wantRows = types.RowsPerMatchAll
	}
	if g.RowsPerMatch != wantRows {
		u.viol("faithful.match_recognize", "RowsPerMatch", fmt.Sprintf("RowsPerMatch=%v, written all_rows=%v", g.RowsPerMatch, m.AllRows))
	}
	wantSkip, wantSym := 0, ""
	if m.Skip > 0 {
		wantSkip = m.Skip
	}
	if m.Skip >= 2 {
		wantSym = m.SkipSym
	}
	if int(g.Skip) != wantSkip || g.SkipSymbol != wantSym {
		u.viol("faithful.match_recognize", "Skip", fmt.Sprintf("Skip=%v symbol=%q, written skip kind %d symbol %q (0 past last row, 1 to next row, 2 to first, 3 to last)", g.Skip, g.SkipSymbol, wantSkip, wantSym))
	}
	if d := c11PatDiff(g.Pattern, m.Pattern, "pattern"); d != "" {
		u.viol("faithful.match_recognize", "Pattern", "pattern tree differs from the written pattern "+c11Canon(m.Pattern.toks())+": "+d)
	}
	if g.Within != m.Within {
		u.viol("faithful.match_recognize", "Within", fmt.Sprintf("Within=%v, written %v", g.Within, m.Within))
	}
	ok = len(g.Defines) == len(m.Defines)
	for i := 0; ok && i < len(m.Defines); i++ {
		ok = g.Defines[i].Symbol == m.Defines[i][0] && c11Norm(g.Defines[i].Cond) == c11Norm(m.Defines[i][1])
	}
	if !ok {
		u.viol("faithful.match_recognize", "Defines", fmt.Sprintf("Defines=%+v, written %v", g.Defines, m.Defines))
	}
}

func c11PatDiff(g *types.PatternNode, w *c11Pat, path string) string {
	if g == nil || w == nil {
		if g == nil && w == nil {
			return ""
		}
		return path + ": one side is nil"
	}
	if int(g.Kind) != w.Kind {
		return fmt.Sprintf("%s: kind %d, expected %d", path, g.Kind, w.Kind)
	}
	if g.Symbol != w.Sym {
		return fmt.Sprintf("%s: symbol %q, expected %q", path, g.Symbol, w.Sym)
	}
	if w.Kind == 3 {
		if g.Quant == nil || g.Quant.Min != w.Min || g.Quant.Max != w.Max || g.Quant.Greedy != w.Greedy {
			return fmt.Sprintf("%s: quantifier %+v, expected {%d,%d greedy=%v}", path, g.Quant, w.Min, w.Max, w.Greedy)
		}
	}
	if len(g.Children) != len(w.Kids) {
		return fmt.Sprintf("%s: %d children, expected %d", path, len(g.Children), len(w.Kids))
	}
	for i := range w.Kids {
		if d := c11PatDiff(g.Children[i], w.Kids[i], fmt.Sprintf("%s/%d", path, i)); d != "" {
			return d
		}
	}
	return ""
}

func c11StrsEq(a, b []string) bool {
	if len(a) != len(b) {
		return false
	}
	for i := range a {
		if a[i] != b[i] {
			return false
		}
	}
	return true
}

// ---- layout projection -----------------------------------------------------------------------

var c11PlaceholderRe = regexp.MustCompile(`__([a-z_]+?)_\d+__`)

// c11Project turns a config into a generic tree whose strings are token-normalised (whitespace
// inside expression texts, keyword and function-name case, hash-named internal placeholders).
func c11Project(cfg *types.Config, cond string) (any, error) {
	b, err := json.Marshal(cfg)
	if err != nil {
		return nil, err
	}
	var m map[string]any
	if err := json.Unmarshal(b, &m); err != nil {
		return nil, err
	}
	delete(m, "performanceConfig")
	if w, ok := m["windowConfig"].(map[string]any); ok {
		delete(w, "performanceConfig")
	}
	m["(returned condition)"] = cond
	return c11NormAny(m), nil
}

func c11NormStr(s string) string {
	return c11PlaceholderRe.ReplaceAllString(c11Norm(s), "__${1}_N__")
}

func c11NormAny(v any) any {
	switch x := v.(type) {
	case string:
		return c11NormStr(x)
	case map[string]any:
		out := make(map[string]any, len(x))
		for k, e := range x {
			if k == "selectFields" { // aggregate type = function name as written: case-folded
				if sf, ok := e.(map[string]any); ok {
					lf := make(map[string]any, len(sf))
					for fk, fv := range sf {
						if fs, ok := fv.(string); ok {
							fv = strings.ToLower(fs)
						}
						lf[c11NormStr(fk)] = fv
					}
					out[k] = lf
					continue
				}
			}
			out[c11NormStr(k)] = c11NormAny(e)
		}
		return out
	case []any:
		out := make([]any, len(x))
		for i, e := range x {
			out[i] = c11NormAny(e)
		}
		return out
	}
	return v
}

func c11Diff(a, b any, path string) string {
	switch x := a.(type) {
	case map[string]any:
		y, ok := b.(map[string]any)
		if !ok {
			return fmt.Sprintf("%s: %v vs %v", path, core.J(a), core.J(b))
		}
		keys := map[string]bool{}
		for k := range x {
			keys[k] = true
		}
		for k := range y {
			keys[k] = true
		}
		ks := make([]string, 0, len(keys))
		for k := range keys {
			ks = append(ks, k)
		}
		sort.Strings(ks)
		for _, k := range ks {
			xv, xo := x[k]
			yv, yo := y[k]
			if xo != yo {
				return fmt.Sprintf("%s/%s: present=%v vs present=%v (%s vs %s)", path, k, xo, yo, core.J(xv), core.J(yv))
			}
			if d := c11Diff(xv, yv, path+"/"+k); d != "" {
				return d
			}
		}
		return ""
	case []any:
		y, ok := b.([]any)
		if !ok || len(x) != len(y) {
			return fmt.Sprintf("%s: %s vs %s", path, core.J(a), core.J(b))
		}
		for i := range x {
			if d := c11Diff(x[i], y[i], fmt.Sprintf("%s[%d]", path, i)); d != "" {
				return d
			}
		}
		return ""
	}
	if !reflect.DeepEqual(a, b) {
		return fmt.Sprintf("%s: %s vs %s", path, core.J(a), core.J(b))
	}
	return ""
}

func c11TopKey(d string) string {
	d = strings.TrimPrefix(d, "/")
	for i := 0; i < len(d); i++ {
		if d[i] == '/' || d[i] == ':' || d[i] == '[' {
			return d[:i]
		}
	}
	return d
}

// ---- results through the public API ------------------------------------------------------------

type c11Out struct {
	Err  string   `json:"err,omitempty"`
	Rows []string `json:"rows"` // JSON of each result row (direct: one per input row, "" = filtered)
	Raw  []Row    `json:"-"`
}

func c11EmitSync(s interface {
	EmitSync(map[string]any) (map[string]any, error)
}, row Row) (out map[string]any, err error) {
	defer func() {
		if p := recover(); p != nil {
			err = fmt.Errorf("PANIC in EmitSync: %v", p)
		}
	}()
	return s.EmitSync(row)
}

func c11RunDirect(sql string, st *c11Stmt, rows []Row, tables []Row) c11Out {
	s, err := eng.New(sql, eng.Opts{})
	if err != nil {
		return c11Out{Err: "Execute: " + err.Error()}
	}
	defer s.Stop()
	if st.Join != nil {
		if _, err := s.RegisterTable(st.Join.Table, tables); err != nil {
			return c11Out{Err: "RegisterTable: " + err.Error()}
		}
		if st.Join2 != nil {
			zones := []map[string]any{{"zone": "k1", "region": "r1"}, {"zone": "k2", "region": "r2"}}
			if _, err := s.RegisterTable(st.Join2.Table, zones, "zone"); err != nil {
				return c11Out{Err: "RegisterTable: " + err.Error()}
			}
		}
	}
	var o c11Out
	for _, row := range rows {
		out, err := c11EmitSync(s, eng.DeepCopyMap(row))
		if err != nil {
			o.Rows = append(o.Rows, "error: "+err.Error())
			o.Raw = append(o.Raw, nil)
			continue
		}
		if len(out) == 0 {
			o.Rows = append(o.Rows, "")
			o.Raw = append(o.Raw, nil)
			continue
		}
		o.Rows = append(o.Rows, core.J(out))
		o.Raw = append(o.Raw, out)
	}
	return o
}

func c11RunAgg(sql string, rows []Row, expect int, settle bool) (c11Out, bool) {
	s, err := eng.New(sql, eng.Opts{})
	if err != nil {
		return c11Out{Err: "Execute: " + err.Error()}, true
	}
	rec := eng.Attach(s)
	defer s.Stop()
	for _, row := range rows {
		rec.Emit(eng.DeepCopyMap(row))
	}
	quiet := true
	if expect >= 0 && !settle {
		rec.WaitDeliveries(expect, 2*time.Second)
		quiet = rec.Quiesce(2, 3*time.Millisecond, 2*time.Second)
	} else {
		quiet = rec.Quiesce(3, 40*time.Millisecond, 10*time.Second)
	}
	var o c11Out
	for _, d := range rec.Deliveries() {
		for _, r := range d.Rows {
			delete(r, "window_id")
			o.Rows = append(o.Rows, core.J(r))
			o.Raw = append(o.Raw, r)
		}
	}
	sort.Strings(o.Rows)
	return o, quiet && !rec.Overloaded()
}

func c11OutEq(a, b c11Out) bool {
	return a.Err == b.Err && c11StrsEq(a.Rows, b.Rows)
}

// c11AggRows builds, per key tuple, exactly N rows that pass WHERE, interleaved with rejected rows.
func c11AggRows(r *rand.Rand, s *c11Stmt) (rows []Row, keys [][]any, ok bool) {
	pool := append(append([]string{}, s.LitPool...), "abc", "k1", "zzz")
	nkeys := 1
	if len(s.Group) > 0 && r.Intn(2) == 0 {
		nkeys = 2
	}
	id := 0
	seenKey := map[string]bool{}
	for k := 0; k < nkeys; k++ {
		var key []any
		var base Row
		for try := 0; ; try++ {
			if try > 300 {
				return nil, nil, false
			}
			base = c11GenRow(r, 0, pool)
			if s.Where != nil && !s.Where.eval(base) {
				continue
			}
			key = key[:0]
			for _, g := range s.Group {
				key = append(key, base[g.Path])
			}
			if seenKey[core.J(key)] {
				continue
			}
			break
		}
		seenKey[core.J(key)] = true
		keys = append(keys, append([]any{}, key...))
		have := 0
		for try := 0; have < s.Win.Count; try++ {
			if try > 600 {
				return nil, nil, false
			}
			row := c11GenRow(r, 0, pool)
			for i, g := range s.Group {
				row[g.Path] = key[i]
			}
			pass := s.Where == nil || s.Where.eval(row)
			if !pass && r.Intn(3) > 0 {
				continue // keep only some rejected rows
			}
			id++
			row["id"] = id
			rows = append(rows, row)
			if pass {
				have++
			}
		}
	}
	return rows, keys, true
}

// refAgg computes the expected result rows (one per key) for statements without HAVING/LIMIT.
func c11RefAgg(s *c11Stmt, rows []Row, keys [][]any) []Row {
	var out []Row
	for _, key := range keys {
		var grp []Row
		for _, row := range rows {
			if s.Where != nil && !s.Where.eval(row) {
				continue
			}
			same := true
			for i, g := range s.Group {
				same = same && tkey(row[g.Path]) == tkey(key[i])
			}
			if same {
				grp = append(grp, row)
			}
		}
		res := Row{}
		for _, it := range s.Items {
			name := c11NoBT(it.outName())
			if it.Kind == "col" {
				res[name] = grp[0][it.Col.Path]
				continue
			}
			if it.Star {
				res[name] = len(grp)
				continue
			}
			sum, mn, mx := 0.0, 0.0, 0.0
			for i, g := range grp {
				f, _ := toF(c11Lookup(g, it.Col.Path))
				sum += f
				if i == 0 || f < mn {
					mn = f
				}
				if i == 0 || f > mx {
					mx = f
				}
			}
			switch it.Agg {
			case "count":
				res[name] = len(grp)
			case "sum":
				res[name] = sum
			case "avg":
				res[name] = sum / float64(len(grp))
			case "min":
				res[name] = mn
			case "max":
				res[name] = mx
			}
		}
		out = append(out, res)
	}
	return out
}

func c11RowMatches(got, want Row) bool {
	if len(got) != len(want) {
		return false
	}
	for k, w := range want {
		g, ok := got[k]
		if !ok || !valEq(w, g) {
			return false
		}
	}
	return true
}

// ---- the statement check ---------------------------------------------------------------------

func execC11Stmt(ctx *core.Ctx, ref core.CaseRef, r *rand.Rand, nLayouts int) {
	s := c11GenStmt(r)
	toks := s.toks()
	c := &c11StmtCase{CaseRef: ref, Family: s.Family, Hostile: s.Hostile}
	c.Layouts = append(c.Layouts, c11Layout{})
	for i := 1; i < nLayouts; i++ {
		c.Layouts = append(c.Layouts, c11RandLayout(r))
	}
	for _, l := range c.Layouts {
		c.Texts = append(c.Texts, c11Render(toks, l))
	}
	c.SQL = c.Texts[0]
	u := &c11Run{ctx: ctx, s: s, c: c, seen: map[string]bool{}}
	rowRng := rand.New(rand.NewSource(r.Int63()))
	ctx.Count("stmt.family."+s.Family, 1)
	if len(s.Hostile) > 0 {
		ctx.Count("stmt.with_keywordlike_literal_or_identifier", 1)
	}

	res := make([]c11ParseRes, len(c.Texts))
	okAll := true
	for i, t := range c.Texts {
		var ok bool
		res[i], ok = c11Totality(ctx, t, "generated_statement", c)
		okAll = okAll && ok
		ctx.Count("stmt.parses", 1)
	}
	nontrivial := false
	defer func() {
		var sample any
		if ref.Index < 4 {
			sample = map[string]any{"family": s.Family, "sql": c.SQL, "layout_1": c.Texts[len(c.Texts)-1], "hostile": s.Hostile}
		}
		ctx.Case(strings.Join(c.Texts, "\x00"), nontrivial, sample)
	}()
	if !okAll {
		return
	}
	if res[0].Err != nil && s.Undoc != "" {
		ctx.Count("stmt.undocumented_quote_escape_rejected", 1)
	} else if res[0].Err != nil {
		u.viol("faithful.parse_error", "error", "a statement of the documented grammar was rejected: "+res[0].Err.Error(), "error", c11ErrClass(res[0].Err.Error()))
	} else if s.Undoc == "backslash_quote" {
		// under the lexer's (documented: none) reading the quote parity is shifted for the rest of the
		// statement: no clause expectation can be derived; only totality and layout invariance apply
		ctx.Count("stmt.backslash_quote_layout_only", 1)
	} else {
		u.faithful(res[0].Cfg, res[0].Cond)
		ctx.Count("stmt.configs_compared_field_by_field", 1)
	}
	// layout metamorphic: configs
	var proj0 any
	if res[0].Err == nil {
		p, err := c11Project(res[0].Cfg, res[0].Cond)
		if err != nil {
			ctx.Inconclusive("config not serialisable: " + err.Error())
			return
		}
		proj0 = p
	}
	distinctTexts := map[string]bool{}
	for i := range c.Texts {
		distinctTexts[c.Texts[i]] = true
		if i == 0 {
			continue
		}
		ctx.Count("layout.pairs_compared", 1)
		if (res[i].Err != nil) != (res[0].Err != nil) {
			cause := u.layoutCause(toks, c.Layouts[i], func(t string) bool {
				p := c11Parse(t)
				return !p.TimedOut && p.Panic == nil && (p.Err != nil) != (res[0].Err != nil)
			})
			u.viol("layout.parse_outcome_differs", cause, fmt.Sprintf("canonical layout: err=%v ; layout %s: err=%v\nlayout text: %q", res[0].Err, c.Layouts[i].features(), res[i].Err, c.Texts[i]), "cause", cause)
			continue
		}
		if res[0].Err != nil {
			continue
		}
		p, err := c11Project(res[i].Cfg, res[i].Cond)
		if err != nil {
			continue
		}
		if u.seen["faithful.order_by/OrderBy"] {
			// the field is already reported as not reflecting the statement; its garbage text is
			// not comparable token-wise
			delete(proj0.(map[string]any), "orderBy")
			delete(p.(map[string]any), "orderBy")
		}
		if d := c11Diff(proj0, p, ""); d != "" {
			top := c11TopKey(d)
			cause := u.layoutCause(toks, c.Layouts[i], func(t string) bool {
				q := c11Parse(t)
				if q.TimedOut || q.Panic != nil || q.Err != nil {
					return false
				}
				pp, err := c11Project(q.Cfg, q.Cond)
				return err == nil && c11TopKey(c11Diff(proj0, pp, "")) == top
			})
			u.viol("layout.config_differs", top+"/"+cause, fmt.Sprintf("configs of two layouts differ at %s (canonical vs %s)\nlayout text: %q", d, c.Layouts[i].features(), c.Texts[i]), "cause", cause, "config_key", top)
		}
	}
	nontrivial = res[0].Err == nil && len(distinctTexts) >= 2
	if res[0].Err != nil {
		return
	}
	// results
	switch s.Family {
	case "direct", "join":
		pool := append(append([]string{}, s.LitPool...), "abc", "zzz", "k1")
		for i := 0; i < 5; i++ {
			c.Rows = append(c.Rows, c11GenRow(rowRng, i+1, pool))
		}
		tables := []Row{{"id": "d1", "zone": "k1", "loc": "north", "owner": "o1"}, {"id": "d2", "zone": "k2", "loc": "south LIMIT 1", "owner": "o2"}}
		outs := make([]c11Out, len(c.Texts))
		for i, t := range c.Texts {
			outs[i] = c11RunDirect(t, s, c.Rows, tables)
			ctx.Count("result.rows_through_emitsync", int64(len(c.Rows)))
		}
		if outs[0].Err != "" {
			same := true
			for i := range outs {
				same = same && outs[i].Err != ""
			}
			if same {
				if os.Getenv("C11_DEBUG") == "execute" {
					fmt.Fprintf(os.Stderr, "C11_DEBUG execute: %s\n  SQL: %s\n", outs[0].Err, c.SQL)
				}
				if s.Undoc != "" {
					ctx.Count("result.undocumented_quote_escape_rejected_by_execute", 1)
					return
				}
				ctx.Inconclusive("Execute rejected every layout of a parsed statement")
				ctx.Count("result.execute_error_all_layouts", 1)
				return
			}
		}
		for i := 1; i < len(outs); i++ {
			if !c11OutEq(outs[0], outs[i]) {
				cause := u.layoutCause(toks, c.Layouts[i], func(t string) bool { return !c11OutEq(outs[0], c11RunDirect(t, s, c.Rows, tables)) })
				u.viol("layout.result_differs", cause, fmt.Sprintf("EmitSync results differ between the canonical layout and layout %s:\n canonical: %s\n layout:    %s\nlayout text: %q", c.Layouts[i].features(), core.J(outs[0]), core.J(outs[i]), c.Texts[i]), "cause", cause)
			}
		}
		if s.Family == "direct" && !s.Distinct && s.Limit == 0 && !s.LimitZero && outs[0].Err == "" && s.Undoc == "" && s.Having == nil {
			u.refDirect(outs[0])
		}
	case "agg":
		rows, keys, ok := c11AggRows(rowRng, s)
		if !ok {
			ctx.Count("result.agg_rows_not_constructible", 1)
			return
		}
		c.Rows = rows
		expect := len(keys)
		settle := s.Having != nil || s.Limit > 0 || s.LimitZero
		outs := make([]c11Out, len(c.Texts))
		for i, t := range c.Texts {
			o, quiet := c11RunAgg(t, rows, expect, settle)
			if !quiet {
				ctx.Inconclusive("aggregate run not quiescent / overloaded")
				return
			}
			outs[i] = o
			ctx.Count("result.rows_through_counting_window", int64(len(rows)))
		}
		for i := 1; i < len(outs); i++ {
			if c11OutEq(outs[0], outs[i]) {
				continue
			}
			// re-run both with a full settle before deciding
			a, qa := c11RunAgg(c.Texts[0], rows, expect, true)
			b, qb := c11RunAgg(c.Texts[i], rows, expect, true)
			if !qa || !qb {
				ctx.Inconclusive("aggregate re-run not quiescent")
				continue
			}
			if c11OutEq(a, b) {
				ctx.Inconclusive("aggregate results differed once between layouts, not reproducible")
				continue
			}
			cause := u.layoutCause(toks, c.Layouts[i], func(t string) bool {
				o, q := c11RunAgg(t, rows, expect, true)
				return q && !c11OutEq(a, o)
			})
			u.viol("layout.result_differs", cause, fmt.Sprintf("CountingWindow results differ between the canonical layout and layout %s:\n canonical: %s\n layout:    %s\nlayout text: %q", c.Layouts[i].features(), core.J(a), core.J(b), c.Texts[i]), "cause", cause)
		}
		if s.Having == nil && s.Limit == 0 && !s.LimitZero && !s.Distinct && outs[0].Err == "" {
			want := c11RefAgg(s, rows, keys)
			got := outs[0].Raw
			ok := len(got) == len(want)
			used := make([]bool, len(got))
			for _, w := range want {
				found := false
				for j, g := range got {
					if !used[j] && c11RowMatches(g, w) {
						used[j], found = true, true
						break
					}
				}
				ok = ok && found
			}
			ctx.Count("result.aggregate_rows_checked_against_reference", int64(len(want)))
			if !ok {
				if !settle {
					// make sure nothing was still on its way
					o, q := c11RunAgg(c.Texts[0], rows, expect, true)
					if !q {
						ctx.Inconclusive("aggregate reference re-run not quiescent")
						return
					}
					got = o.Raw
				}
				u.viol("result.aggregate_differs_from_written_statement", "rows", fmt.Sprintf("results %s, the written statement (WHERE, GROUP BY, CountingWindow(%d), aggregates) gives %s on rows %s", core.J(got), s.Win.Count, core.J(want), core.J(rows)), "where", fmt.Sprint(s.Where != nil), "winpos", u.winPos())
			}
		}
	}
}

func c11ErrClass(e string) string {
	e = strings.TrimSpace(e)
	if i := strings.IndexAny(e, "\n"); i > 0 {
		e = e[:i]
	}
	e = regexp.MustCompile(`'[^']*'|"[^"]*"|\d+`).ReplaceAllString(e, "_")
	if len(e) > 60 {
		e = e[:60]
	}
	return e
}

// refDirect checks the canonical EmitSync outputs against what the written statement says for
// column items, string-literal items and the WHERE predicate (rows carry no NULLs).
func (u *c11Run) refDirect(o c11Out) {
	s := u.s
	for i, row := range u.c.Rows {
		pass := s.Where == nil || s.Where.eval(row)
		got := o.Raw[i]
		u.ctx.Count("result.direct_rows_checked_against_reference", 1)
		if strings.HasPrefix(o.Rows[i], "error: ") {
			u.viol("result.direct_differs_from_written_statement", "emit_error", fmt.Sprintf("EmitSync failed on row %s: %s", core.J(row), o.Rows[i]))
			return
		}
		if !pass {
			if len(got) != 0 {
				u.viol("result.direct_differs_from_written_statement", "where_should_reject", fmt.Sprintf("row %s does not satisfy the written WHERE but was emitted as %s", core.J(row), o.Rows[i]))
				return
			}
			continue
		}
		if len(got) == 0 {
			u.viol("result.direct_differs_from_written_statement", "where_should_accept", fmt.Sprintf("row %s satisfies the written WHERE (or there is none) but nothing was emitted", core.J(row)))
			return
		}
		if s.Items[0].Kind == "star" {
			for k, v := range row {
				if _, nested := v.(map[string]any); nested {
					continue
				}
				if g, ok := got[k]; !ok || !valEq(v, g) {
					u.viol("result.direct_differs_from_written_statement", "star_item", fmt.Sprintf("SELECT *: column %q is %v (present=%v), row value %v; row %s → %s", k, g, ok, v, core.J(row), o.Rows[i]))
					return
				}
			}
			continue
		}
		names := map[string]bool{}
		for _, it := range s.Items {
			names[c11Norm(c11NoBT(it.outName()))] = true
		}
		for k := range got {
			if !names[c11Norm(k)] {
				u.viol("result.direct_differs_from_written_statement", "extra_column", fmt.Sprintf("output column %q corresponds to no written select item; row %s → %s", k, core.J(row), o.Rows[i]))
				return
			}
		}
		for _, it := range s.Items {
			name := c11NoBT(it.outName())
			switch it.Kind {
			case "col":
				want := c11Lookup(row, it.Col.Path)
				if g, ok := got[name]; !ok || !valEq(want, g) {
					u.viol("result.direct_differs_from_written_statement", "column_item", fmt.Sprintf("item %q: output %q=%v (present=%v), row value %v; row %s → %s", c11Canon(it.Toks), name, g, ok, want, core.J(row), o.Rows[i]), "item", "col")
					return
				}
			case "lit":
				if g, ok := got[name]; !ok || g != it.Lit {
					u.viol("result.direct_differs_from_written_statement", "literal_item", fmt.Sprintf("item %s AS %s: output %v (present=%v), literal content %q; output row %s", c11Canon(it.Toks), name, g, ok, it.Lit, o.Rows[i]), "item", "lit")
					return
				}
			}
		}
	}
}

// layoutCause finds which single layout feature reproduces a difference (else "combination").
func (u *c11Run) layoutCause(toks []c11Tok, l c11Layout, differs func(text string) bool) string {
	singles := []struct {
		name string
		l    c11Layout
	}{
		{"keyword_case", c11Layout{Kw: l.Kw, Seed: l.Seed}},
		{"function_case", c11Layout{Fn: l.Fn, Seed: l.Seed}},
		{"whitespace_kind", c11Layout{WS: l.WS, Seed: l.Seed}},
		{"no_space_around_punctuation", c11Layout{Tight: l.Tight, Seed: l.Seed}},
		{"space_before_call_paren", c11Layout{FnSpace: l.FnSpace, Seed: l.Seed}},
		{"leading_trailing_space", c11Layout{Pad: l.Pad, Seed: l.Seed}},
	}
	for _, sg := range singles {
		if sg.l == (c11Layout{Seed: l.Seed}) {
			continue
		}
		if differs(c11Render(toks, sg.l)) {
			return sg.name
		}
	}
	return "combination"
}
