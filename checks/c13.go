package checks

import (
	"fmt"
	"math/rand"
	"os"
	"regexp"
	"sort"
	"strings"
	"time"

	"verif/internal/core"
	"verif/internal/eng"
)

// C13 — LIKE and IS [NOT] NULL have SQL semantics on every evaluation path.
//
// Reference for LIKE: the anchored regexp obtained by mapping % -> (?s).*, _ -> (?s). and every
// other character through regexp.QuoteMeta.  Reference for IS NULL: "absent or nil".
// One engine instance per (pattern, site); the texts are then pushed through it row by row.
//
// Sites: where   SELECT id FROM stream WHERE s LIKE 'p'                          (row accepted?)
//        having  ... last_value(s) AS ls ... GROUP BY CountingWindow(1) HAVING ls LIKE 'p' (batch survives?)
//        case    SELECT id, CASE WHEN s LIKE 'p' THEN 1 ELSE 0 END AS m           (m = 1 / 0)
//        select  SELECT id, s LIKE 'p' AS m                                       (m = true / false)
//
// Clause kinds (each with site / pattern-shape / text-shape attributes):
//   like.wrong_decision     definite answer differs from the reference for a string text
//   like.result_null        CASE / SELECT site yields NULL (or a non-boolean) where an answer is due
//   like.null_text_true     x absent or NULL, yet `x LIKE p` counted as true
//   like.execute_error      the site refuses a statement whose pattern is an ordinary string literal
//   notlike.*               the same for NOT LIKE (negation of the reference; NULL texts not judged)
//   isnull.wrong_decision / isnull.result_null / isnull.execute_error
//   engine.panic

func init() { register(&Check{ID: "C13", Run: runC13}) }

var c13Alphabet = []byte{'%', '_', 'a', 'b', '.'}

type c13Case struct {
	core.CaseRef
	Site    string `json:"site"`
	Op      string `json:"op"`
	Pattern string `json:"pattern,omitempty"`
	Operand string `json:"operand,omitempty"`
	SQL     string `json:"sql"`
	Text    string `json:"failing_text,omitempty"`
	NTexts  int    `json:"texts"`
}

// c13All enumerates all strings over the alphabet of length <= n, shortest first.
func c13All(n int) []string {
	out := []string{""}
	prev := []string{""}
	for l := 1; l <= n; l++ {
		var cur []string
		for _, p := range prev {
			for _, ch := range c13Alphabet {
				cur = append(cur, p+string(ch))
			}
		}
		out = append(out, cur...)
		prev = cur
	}
	return out
}

// c13LikeRef is the definition: whole-text match, % any sequence, _ exactly one character.
func c13LikeRef(pattern string) *regexp.Regexp {
	var b strings.Builder
	b.WriteString(`^(?s:`)
	for _, ch := range pattern {
		switch ch {
		case '%':
			b.WriteString(`.*`)
		case '_':
			b.WriteString(`.`)
		default:
			b.WriteString(regexp.QuoteMeta(string(ch)))
		}
	}
	b.WriteString(`)$`)
	return regexp.MustCompile(b.String())
}

func c13Count2(n int) string {
	switch {
	case n == 0:
		return "0"
	case n == 1:
		return "1"
	}
	return "2+"
}

// c13PatternShape names the shape of a pattern for known-finding matching.
func c13PatternShape(p string) (shape, meta string) {
	metas := map[string]bool{}
	for _, ch := range p {
		switch {
		case ch == '\\':
			metas["backslash"] = true
		case ch == '(' || ch == ')':
			metas["paren"] = true
		case strings.ContainsRune(`^$*+?[]{}|`, ch):
			metas["regex_meta"] = true
		case ch > 127:
			metas["non_ascii"] = true
		}
	}
	ml := []string{}
	for k := range metas {
		ml = append(ml, k)
	}
	sort.Strings(ml)
	meta = strings.Join(ml, "+")
	if meta == "" {
		meta = "none"
	}
	if p == "" {
		return "empty", meta
	}
	core := strings.Trim(p, "%")
	lead := len(p) - len(strings.TrimLeft(p, "%"))
	trail := len(p) - len(strings.TrimRight(p, "%"))
	if core == "" {
		if len(p) == 1 {
			return "percent_only_single", meta
		}
		return "percent_only_repeated", meta
	}
	ck := "literal"
	hasUs, hasPct := strings.Contains(core, "_"), strings.Contains(core, "%")
	switch {
	case hasUs && hasPct:
		ck = "underscore+inner_percent"
	case hasUs:
		ck = "underscore"
	case hasPct:
		ck = "inner_percent"
	}
	if strings.Contains(core, "%%") {
		ck += "+inner_double"
	}
	switch {
	case ck == "literal" && lead >= 2 && trail == 0:
		return "leading_double_percent", meta
	case ck == "literal" && lead == 0 && trail >= 2:
		return "trailing_double_percent", meta
	case ck == "literal" && lead == 0 && trail == 0:
		return "exact_literal", meta
	case ck == "literal" && lead == 1 && trail == 0:
		return "suffix", meta
	case ck == "literal" && lead == 0 && trail == 1:
		return "prefix", meta
	case ck == "literal" && lead == 1 && trail == 1:
		return "contains", meta
	}
	return "lead" + c13Count2(lead) + "_" + ck + "_trail" + c13Count2(trail), meta
}

func c13TextShape(v any, present bool) string {
	if !present {
		return "missing"
	}
	s, ok := v.(string)
	if !ok {
		if v == nil {
			return "null"
		}
		return fmt.Sprintf("%T", v)
	}
	if s == "" {
		return "empty"
	}
	hp, hu := strings.Contains(s, "%"), strings.Contains(s, "_")
	sfx := ""
	for _, ch := range s {
		if ch > 127 {
			sfx = "+non_ascii"
			break
		}
	}
	switch {
	case hp && hu:
		return "has_percent+underscore" + sfx
	case hp:
		return "has_percent" + sfx
	case hu:
		return "has_underscore" + sfx
	}
	return "plain" + sfx
}

type c13SiteDef struct {
	sync bool
	sql  func(operand, cond string) string // cond is written over "$X"
}

var c13Sites = map[string]c13SiteDef{
	"where": {sync: true, sql: func(x, cond string) string { return "SELECT id FROM stream WHERE " + strings.ReplaceAll(cond, "$X", x) }},
	"case": {sync: true, sql: func(x, cond string) string {
		return "SELECT id, CASE WHEN " + strings.ReplaceAll(cond, "$X", x) + " THEN 1 ELSE 0 END AS m FROM stream"
	}},
	"select": {sync: true, sql: func(x, cond string) string {
		return "SELECT id, " + strings.ReplaceAll(cond, "$X", x) + " AS m FROM stream"
	}},
	"having": {sql: func(x, cond string) string {
		return "SELECT last_value(id) AS id, last_value(" + x + ") AS lv FROM stream GROUP BY CountingWindow(1) HAVING " + strings.ReplaceAll(cond, "$X", "lv")
	}},
}

var c13SiteNames = []string{"where", "having", "case", "select"}

// c13Exec runs rows through one instance and returns, per row, what the site answered:
// "true", "false", "null" (NULL where an answer is due) or "other:<v>".
func c13Exec(site, sql string, rows []Row, sentinels []int) (got []string, status string, extra string) {
	def := c13Sites[site]
	s, err := eng.New(sql, eng.Opts{})
	if err != nil {
		if strings.Contains(err.Error(), "PANIC") {
			return nil, "panic", err.Error()
		}
		return nil, "execute_error", err.Error()
	}
	defer s.Stop()
	got = make([]string, len(rows))
	if def.sync {
		for i, row := range rows {
			out, err, pan := c12EmitSync(s, c12CopyRow(row))
			if pan != nil {
				return nil, "panic", fmt.Sprintf("EmitSync(%s): %v", c13ShowRow(row), pan)
			}
			switch {
			case site == "where":
				got[i] = fmt.Sprint(err == nil && out != nil)
			case err != nil || out == nil:
				got[i] = "null"
				if err != nil {
					extra = err.Error()
				}
			default:
				got[i] = c13Answer(site, out["m"])
			}
		}
		return got, "ok", extra
	}
	a := &c12AsyncInst{s: s, rec: eng.Attach(s)}
	for _, row := range rows {
		a.rec.Emit(c12CopyRow(row))
	}
	settled := false
	if len(sentinels) > 0 { // rows are processed in order: a delivered sentinel means every earlier row was decided
		deadline := time.Now().Add(2 * time.Second)
		for !settled && time.Now().Before(deadline) {
			ids := a.ids()
			for _, id := range sentinels {
				settled = settled || ids[id]
			}
			if !settled {
				time.Sleep(time.Millisecond)
			}
		}
		if settled {
			a.rec.Quiesce(2, 2*time.Millisecond, time.Second)
		}
	}
	status = "ok"
	if !settled {
		status = "needs_quiescence"
	}
	ids := a.ids()
	for i := range rows {
		got[i] = fmt.Sprint(ids[i])
	}
	if a.rec.Overloaded() {
		return got, "overload", ""
	}
	return got, status, ""
}

func c13Answer(site string, m any) string {
	switch x := m.(type) {
	case nil:
		return "null"
	case bool:
		return fmt.Sprint(x)
	}
	if site == "case" {
		if numEq(m, 1) {
			return "true"
		}
		if numEq(m, 0) {
			return "false"
		}
	}
	return fmt.Sprintf("other:%T(%v)", m, m)
}

func c13ShowRow(row Row) string {
	keys := []string{}
	for k := range row {
		if k != "id" {
			keys = append(keys, k)
		}
	}
	sort.Strings(keys)
	parts := []string{}
	for _, k := range keys {
		parts = append(parts, fmt.Sprintf("%s=%s", k, c13ShowVal(row[k])))
	}
	return "{" + strings.Join(parts, ", ") + "}"
}

func c13ShowVal(v any) string {
	switch x := v.(type) {
	case nil:
		return "NULL"
	case string:
		return fmt.Sprintf("%q", x)
	case map[string]any:
		keys := []string{}
		for k := range x {
			keys = append(keys, k)
		}
		sort.Strings(keys)
		parts := []string{}
		for _, k := range keys {
			parts = append(parts, k+":"+c13ShowVal(x[k]))
		}
		return "{" + strings.Join(parts, ",") + "}"
	}
	return fmt.Sprintf("%T(%v)", v, v)
}

// c13Judge compares the answers with the wanted ones ("T" true, "F" false, "N" anything but true,
// "-" not judged) and reports one violation per (kind, attrs) group.  It returns true when every
// judged answer was as wanted.
type c13Group struct {
	v core.Violation
	n int
}

func c13Judge(prefix string, got, want []string, rows []Row, attrsOf func(i int, exp, g string) map[string]string, describe func(i int) string, cs *c13Case) (groups []*c13Group, ok bool) {
	ok = true
	idx := map[string]*c13Group{}
	for i := range rows {
		w, g := want[i], got[i]
		kind, exp := "", ""
		switch w {
		case "T", "F":
			exp = map[string]string{"T": "true", "F": "false"}[w]
			if g == exp {
				continue
			}
			if g == "null" {
				kind = prefix + ".result_null"
			} else {
				kind = prefix + ".wrong_decision"
			}
		case "N":
			exp = "not_true"
			if g != "true" {
				continue
			}
			kind = prefix + ".null_text_true"
		default:
			continue
		}
		ok = false
		attrs := attrsOf(i, exp, g)
		key := kind + core.J(attrs)
		grp := idx[key]
		if grp == nil {
			vc := *cs
			vc.Text = describe(i)
			grp = &c13Group{v: core.Violation{Kind: kind, Attrs: attrs, Case: &vc,
				Detail: fmt.Sprintf("site %s, %s: for %s the reference says %s, the engine answered %s", cs.Site, cs.SQL, describe(i), exp, g)}}
			idx[key] = grp
			groups = append(groups, grp)
		}
		grp.n++
	}
	// an instance that answers NULL for every judged row is one defect, not one per text shape
	judged, nulls := 0, 0
	for i := range rows {
		if want[i] == "T" || want[i] == "F" {
			judged++
			if got[i] == "null" {
				nulls++
			}
		}
	}
	if judged >= 4 && nulls == judged {
		vc := *cs
		first := 0
		for i := len(rows) - 1; i >= 0; i-- {
			if want[i] == "F" || (want[i] == "T" && want[first] != "T") || (want[i] == "T" && i < first) {
				first = i
			}
		}
		for i := range rows {
			if want[i] == "T" {
				first = i
				break
			}
		}
		vc.Text = describe(first)
		attrs := attrsOf(first, "true_or_false", "null")
		delete(attrs, "text_shape")
		delete(attrs, "value_kind")
		return []*c13Group{{n: judged, v: core.Violation{Kind: prefix + ".result_always_null", Attrs: attrs, Case: &vc,
			Detail: fmt.Sprintf("site %s, %s: the engine answered NULL for every one of the %d judged rows (e.g. %s, where the reference says %s)", cs.Site, cs.SQL, judged, describe(first), map[string]string{"T": "true", "F": "false"}[want[first]])}}}, false
	}
	return groups, ok
}

func c13Flush(ctx *core.Ctx, groups []*c13Group) {
	for _, g := range groups {
		if core.EnvInt("C13_DEBUG", 0) > 0 {
			fmt.Printf("DBG\t%s\t%s\t%d\t%s\n", g.v.Kind, core.J(g.v.Attrs), g.n, g.v.Detail)
		}
		if g.n > 1 {
			g.v.Detail += fmt.Sprintf(" [%d rows of this instance fail the same way; first (shortest) one shown]", g.n)
		}
		ctx.Count("flagged."+g.v.Kind+"["+g.v.Attrs["site"]+"]", int64(g.n))
		if core.EnvInt("C13_DEBUG", 0) > 0 {
			a := g.v.Attrs
			ctx.Count(fmt.Sprintf("dbg.%s[%s|%s|%s|meta=%s|text=%s|%s%s|%s->%s]", g.v.Kind, a["site"], a["op"], a["pattern_shape"], a["pattern_meta"], a["text_shape"], a["operand"], a["value_kind"], a["expected"], a["got"]), int64(g.n))
		}
		ctx.Violate(g.v)
	}
}

// c13RunInstance executes one instance, judges it and — for the asynchronous HAVING site — repeats
// the read-out after full engine quiescence whenever the quick read-out is not clean.
func c13RunInstance(ctx *core.Ctx, prefix string, cs *c13Case, rows []Row, want []string, sentinels []int,
	baseAttrs map[string]string, attrsOf func(i int, exp, g string) map[string]string, describe func(i int) string) (executed bool) {
	got, status, extra := c13Exec(cs.Site, cs.SQL, rows, sentinels)
	switch status {
	case "panic":
		ctx.Violate(core.Violation{Kind: "engine.panic", Attrs: baseAttrs, Detail: fmt.Sprintf("%s: %s", cs.SQL, extra), Case: cs})
		return false
	case "execute_error":
		ctx.Count("flagged."+prefix+".execute_error["+cs.Site+"]", 1)
		if core.EnvInt("C13_DEBUG", 0) > 0 {
			fmt.Printf("DBG\t%s.execute_error\t%s\t1\t%s :: %s\n", prefix, core.J(baseAttrs), cs.SQL, c13Trunc(extra))
		}
		ctx.Violate(core.Violation{Kind: prefix + ".execute_error", Attrs: baseAttrs, Detail: fmt.Sprintf("Execute(%q) failed: %s", cs.SQL, c13Trunc(extra)), Case: cs})
		return false
	case "overload":
		ctx.Inconclusive("engine declared overload")
		return false
	}
	groups, clean := c13Judge(prefix, got, want, rows, attrsOf, describe, cs)
	if !c13Sites[cs.Site].sync && (!clean || status == "needs_quiescence") {
		// judge an asynchronous site only on a read-out taken after the engine went quiet
		got, status = c13ExecQuiet(cs.SQL, rows)
		ctx.Count("having.full_quiescence_waits", 1)
		if status != "ok" {
			ctx.Inconclusive("having site: " + status)
			return false
		}
		groups, _ = c13Judge(prefix, got, want, rows, attrsOf, describe, cs)
	}
	c13Flush(ctx, groups)
	return true
}

func c13ExecQuiet(sql string, rows []Row) (got []string, status string) {
	s, err := eng.New(sql, eng.Opts{})
	if err != nil {
		return nil, "execute_error on re-run"
	}
	defer s.Stop()
	a := &c12AsyncInst{s: s, rec: eng.Attach(s)}
	for _, row := range rows {
		a.rec.Emit(c12CopyRow(row))
	}
	if !a.rec.Quiesce(3, 250*time.Millisecond, 60*time.Second) {
		return nil, "not quiescent"
	}
	if a.rec.Overloaded() {
		return nil, "engine declared overload"
	}
	ids := a.ids()
	got = make([]string, len(rows))
	for i := range rows {
		got[i] = fmt.Sprint(ids[i])
	}
	return got, "ok"
}

func c13Trunc(s string) string {
	s = strings.ReplaceAll(s, "\n", " ")
	if len(s) > 200 {
		return s[:200] + "…"
	}
	return s
}

func runC13(ctx *core.Ctx) {
	maxLen := ctx.N(3, 4)
	all := c13All(maxLen)
	ctx.SetRule(fmt.Sprintf("case = one engine instance for (site, LIKE | NOT LIKE | IS [NOT] NULL, pattern or operand) fed with its text/row list; "+
		"stream c13like is bounded-exhaustive: ALL %d patterns x ALL %d texts over the alphabet {%%,_,a,b,.} of length <= %d (plus a NULL and a missing text) at each of the 4 sites; "+
		"c13long / c13notlike / c13null are PRNG-sampled; non-trivial = the statement executed and the reference both accepts and rejects texts of the case; distinct by (site, operator, pattern/operand, rows) hash",
		len(all), len(all), maxLen))
	if !ctx.Quick() {
		ctx.SetExhaustive(true)
	}
	ctx.Extra("exhaustive_space", fmt.Sprintf("LIKE: alphabet {%%,_,a,b,.}, patterns of length <= %d (%d) x texts of length <= %d (%d) x sites {where,having,case,select}; everything else is sampled", maxLen, len(all), maxLen, len(all)))
	ctx.Assume("the HAVING site is read from sink deliveries: after a sentinel row known to match was delivered, and again after full engine quiescence (3 polls 250 ms apart) whenever that read-out is not clean",
		"x LIKE p for an absent/NULL x must not count as true; at the CASE site the ELSE branch is due; NOT LIKE on absent/NULL x is not judged",
		"patterns containing a single quote are not generated (escaping syntax is outside the property)")

	texts := all
	only := os.Getenv("C13_ONLY") // triage aid: run a single case stream (the evidence then says so)
	if only != "" {
		ctx.Extra("debug_only_stream", only)
		ctx.SetExhaustive(false)
	}
	run := func(stream string, n int, fn func(i int, r *rand.Rand)) {
		if only == "" || only == stream {
			ctx.Cases(stream, n, workers(), fn)
		}
	}
	run("c13like", len(all)*len(c13SiteNames), func(i int, r *rand.Rand) {
		site := c13SiteNames[i%len(c13SiteNames)]
		c13LikeCase(ctx, core.CaseRef{Stream: "c13like", Index: i}, site, "LIKE", all[i/len(c13SiteNames)], texts, true)
	})
	// NOT LIKE: smaller enumerated space (patterns of length <= 2 | 3, texts of length <= 3)
	nlPatterns, nlTexts := c13All(ctx.N(2, 3)), c13All(3)
	run("c13notlike", len(nlPatterns)*len(c13SiteNames), func(i int, r *rand.Rand) {
		site := c13SiteNames[i%len(c13SiteNames)]
		c13LikeCase(ctx, core.CaseRef{Stream: "c13notlike", Index: i}, site, "NOT LIKE", nlPatterns[i/len(c13SiteNames)], nlTexts, true)
	})
	// sampled longer pairs: repeated wildcards, regex metacharacters in pattern and text
	run("c13long", ctx.N(400, 6000), func(i int, r *rand.Rand) {
		site := c13SiteNames[i%len(c13SiteNames)]
		pattern, ts := c13GenLong(r, i)
		c13LikeCase(ctx, core.CaseRef{Stream: "c13long", Index: i}, site, "LIKE", pattern, ts, false)
	})
	// patterns WITHOUT wildcards (an equality in disguise) that contain backslashes, dots and quotes-free metacharacters
	plain := []string{"a\\b", "\\", "a\\", "\\b", "a\\\\b", "a.b", "a\\.b", "(a)", "a|b"}
	plainTexts := []string{"a\\b", "a\\\\b", "ab", "a", "\\", "\\\\", "a\\", "\\b", "", "a.b", "axb", "a\\.b", "(a)", "a|b", "b"}
	run("c13plain", len(plain)*len(c13SiteNames)*2, func(i int, r *rand.Rand) {
		site := c13SiteNames[i%len(c13SiteNames)]
		j := i / len(c13SiteNames)
		c13LikeCase(ctx, core.CaseRef{Stream: "c13plain", Index: i}, site, []string{"LIKE", "NOT LIKE"}[j%2], plain[j/2], plainTexts, true)
	})
	// letter case: a pattern and its other-case twin are run one after the other in the same process (every
	// character other than % and _ matches only itself, whatever text-keyed caches the engine keeps)
	casePairs := [][2]string{{"ab%", "AB%"}, {"%a.b", "%A.B"}, {"a_b%", "A_B%"}, {"%ab%", "%AB%"}, {"kq%", "KQ%"}, {"%w.v", "%W.V"}, {"p_r%t", "P_R%T"}, {"Ab", "aB"}}
	caseTexts := []string{"abz", "ABz", "Abz", "xa.b", "xA.B", "a_bq", "A_Bq", "axb", "AXB", "zabz", "zABz", "kqz", "KQz", "w.v", "W.V", "part", "PART", "pArt", "Ab", "aB", "ab", "AB", ""}
	run("c13case", len(casePairs)*len(c13SiteNames)*2, func(i int, r *rand.Rand) {
		site := c13SiteNames[i%len(c13SiteNames)]
		pair := casePairs[(i/len(c13SiteNames))%len(casePairs)]
		first, second := pair[0], pair[1]
		if i >= len(casePairs)*len(c13SiteNames) {
			first, second = second, first
		}
		c13LikeCase(ctx, core.CaseRef{Stream: "c13case", Index: i}, site, "LIKE", first, caseTexts, false)
		c13LikeCase(ctx, core.CaseRef{Stream: "c13case", Index: i}, site, "LIKE", second, caseTexts, false)
	})
	run("c13null", ctx.N(3, 40)*len(c13NullOperands)*2*len(c13SiteNames), func(i int, r *rand.Rand) {
		c13NullCase(ctx, core.CaseRef{Stream: "c13null", Index: i}, r)
	})
	run("c13nullpair", ctx.N(1, 12)*len(c13NullOperands)*2*len(c13SiteNames), func(i int, r *rand.Rand) {
		c13NullCaseP(ctx, core.CaseRef{Stream: "c13nullpair", Index: i}, r, true)
	})
	// (run sequentially: the mode switch of this stream is a package variable)
	ctx.Cases("c13likenull", ctx.N(1, 8)*len(c13NullOperands)*2*len(c13SiteNames), 1, func(i int, r *rand.Rand) {
		c13LikeNullCase(ctx, core.CaseRef{Stream: "c13likenull", Index: i}, r)
	})
	c13AggStream(ctx)
}

func c13LikeCase(ctx *core.Ctx, ref core.CaseRef, site, op, pattern string, texts []string, withNull bool) {
	re := c13LikeRef(pattern)
	rows := make([]Row, 0, len(texts)+6)
	want := make([]string, 0, len(texts)+6)
	nT, nF := 0, 0
	add := func(v any, present bool) {
		row := Row{"id": len(rows)}
		if present {
			row["s"] = v
		}
		w := "-"
		if s, ok := v.(string); ok && present {
			m := re.MatchString(s)
			if op == "NOT LIKE" {
				m = !m
			}
			if m {
				w = "T"
				nT++
			} else {
				w = "F"
				nF++
			}
		} else if op == "LIKE" {
			w = "N"
			if site == "case" {
				w = "F" // CASE WHEN <not true> ... ELSE 0
			}
		}
		rows = append(rows, row)
		want = append(want, w)
	}
	for _, t := range texts {
		add(t, true)
	}
	if withNull {
		add(nil, true)
		add(nil, false)
	}
	// sentinels (HAVING read-out): texts the reference accepts, appended last
	var sentinels []int
	if site == "having" {
		cands := []string{}
		if op == "LIKE" {
			for _, fill := range [][2]string{{"", "a"}, {"b", "a"}, {"ab", "b"}} {
				cands = append(cands, strings.NewReplacer("%", fill[0], "_", fill[1]).Replace(pattern))
			}
		} else {
			cands = []string{"zz", "", "z.z.z.z.z"}
		}
		for _, c := range cands {
			if re.MatchString(c) == (op == "LIKE") {
				sentinels = append(sentinels, len(rows))
				add(c, true)
			}
		}
	}
	// the keyword in the letter case people write it in: every seventh case lower, every eleventh capitalised
	written := op
	switch {
	case ref.Index%7 == 3:
		written = strings.ToLower(op)
	case ref.Index%11 == 5:
		written = map[string]string{"LIKE": "Like", "NOT LIKE": "Not Like"}[op]
	}
	sql := c13Sites[site].sql("s", "$X "+written+" "+sqlStr(pattern))
	cs := &c13Case{CaseRef: ref, Site: site, Op: op, Pattern: pattern, SQL: sql, NTexts: len(rows)}
	shape, meta := c13PatternShape(pattern)
	base := map[string]string{"site": site, "op": op, "pattern_shape": shape, "pattern_meta": meta, "keyword_written": written}
	attrsOf := func(i int, exp, g string) map[string]string {
		m := map[string]string{"expected": exp, "got": strings.SplitN(g, ":", 2)[0]}
		for k, v := range base {
			m[k] = v
		}
		v, present := rows[i]["s"]
		m["text_shape"] = c13TextShape(v, present)
		return m
	}
	describe := func(i int) string {
		v, present := rows[i]["s"]
		if !present {
			return "a row without column s"
		}
		if v == nil {
			return "s = NULL"
		}
		return fmt.Sprintf("text %q", v)
	}
	prefix := "like"
	if op == "NOT LIKE" {
		prefix = "notlike"
	}
	executed := c13RunInstance(ctx, prefix, cs, rows, want, sentinels, base, attrsOf, describe)
	if executed {
		ctx.Count("pairs."+prefix+"."+site, int64(len(rows)))
	}
	ctx.Count("instances."+prefix+"."+site, 1)
	var sample any
	if ref.Index%997 == 5 || ref.Index < 2 {
		sample = map[string]any{"stream": ref.Stream, "site": site, "sql": sql, "texts": len(rows), "reference_true": nT, "reference_false": nF}
	}
	ctx.Case(ref.Stream+"|"+site+"|"+op+"|"+pattern+"|"+fmt.Sprint(len(rows)), executed && nT > 0 && nF > 0, sample)
}

var c13LongTokens = []string{"%", "%", "%%", "_", "_", "a", "b", "c", ".", "ab", "%_%", "%%%", "__", "a%", "%a", "-", " ", "é"}
var c13MetaTokens = []string{".", "^", "$", "*", "+", "?", "(", ")", "[", "]", "{", "}", "\\", "|", "(a)", "[ab]", "a|b", ".*", "a+", "\\d", "^a", "b$", "{2}"}
var c13TextChars = []string{"a", "b", "c", ".", "%", "_", "-", " ", "é", "^", "$", "*", "+", "?", "(", ")", "[", "]", "{", "}", "\\", "|", "\n"}

// c13GenLong draws a longer pattern (repeated wildcards; every third case with regex
// metacharacters) and ~48 texts: instantiations of the pattern, near misses, random strings.
func c13GenLong(r *rand.Rand, i int) (string, []string) {
	n := 2 + r.Intn(6)
	useMeta := i%3 == 0
	var b strings.Builder
	for k := 0; k < n; k++ {
		if useMeta && r.Intn(3) == 0 {
			b.WriteString(pick(r, c13MetaTokens))
		} else {
			b.WriteString(pick(r, c13LongTokens))
		}
	}
	pattern := b.String()
	if r.Intn(25) == 0 {
		pattern = ""
	}
	randText := func(max int) string {
		var t strings.Builder
		for k := r.Intn(max + 1); k > 0; k-- {
			t.WriteString(pick(r, c13TextChars))
		}
		return t.String()
	}
	seen := map[string]bool{}
	texts := []string{}
	push := func(t string) {
		if !seen[t] && !strings.Contains(t, "'") {
			seen[t] = true
			texts = append(texts, t)
		}
	}
	push("")
	push(pattern) // the pattern text itself (its wildcards match themselves)
	for k := 0; k < 24; k++ {
		var t strings.Builder
		for _, ch := range pattern {
			switch ch {
			case '%':
				t.WriteString(randText(3))
			case '_':
				t.WriteString(pick(r, c13TextChars))
			default:
				t.WriteRune(ch)
			}
		}
		inst := t.String()
		push(inst)
		if rs := []rune(inst); len(rs) > 0 { // near misses
			j := r.Intn(len(rs))
			switch r.Intn(3) {
			case 0:
				push(string(rs[:j]) + string(rs[j+1:]))
			case 1:
				push(string(rs[:j]) + pick(r, c13TextChars) + string(rs[j:]))
			default:
				push(string(rs[:j]) + pick(r, c13TextChars) + string(rs[j+1:]))
			}
		}
	}
	for k := 0; k < 8; k++ {
		push(randText(6))
	}
	return pattern, texts
}
