package checks

import (
	"fmt"
	"math/rand"
	"sort"
	"strings"
	"time"

	"verif/internal/core"
	"verif/internal/eng"
)

// C17 — GLOBAL WINDOW TRIGGER WHEN p: a group fires exactly at the rows where p holds on the
// aggregates of the rows received since the group's last fire, then restarts from empty.
//
// Witness column: every generated query selects collect(id), so each delivered result names exactly
// the input rows it aggregated.  The oracle (c17_ref.go) keeps, per typed group tuple, the rows
// since the last fire, evaluates the predicate with its own three-valued evaluator over its own
// running aggregates, and compares the delivered sequence of every group with it.

func init() { register(&Check{ID: "C17", Race: false, Run: runC17}) }

type c17Case struct {
	core.CaseRef
	SQL      string   `json:"sql"`
	Pred     string   `json:"predicate"`
	Cols     []string `json:"group_cols"`
	OutCols  []string `json:"group_out_cols"`
	Selected []string `json:"selected_aggs"`
	Rows     []Row    `json:"rows"`
	Shape    string   `json:"key_shape"`
	NGroups  int      `json:"ngroups"`
	PredSel  string   `json:"pred_aggs_selected"`

	pred *c17Node
	sel  []c17Sel
}

type c17Sel struct {
	Agg   c17Agg
	Alias string
}

var c17Pool = []c17Agg{
	{"count", "*"}, {"count", "v"}, {"sum", "v"}, {"avg", "v"}, {"min", "v"}, {"max", "v"},
	{"count", "w"}, {"sum", "w"}, {"avg", "w"}, {"min", "w"}, {"max", "w"},
	// aggregates over an expression that is evaluated per row
	{"sum", "v*2"}, {"max", "v + w"}, {"min", "v*2"},
}

// c17Value draws an aggregate input: small ints, halves and quarters (all exactly representable),
// now and then a large value, NULL, or missing (present=false).
func c17Value(r *rand.Rand) (any, bool) {
	switch r.Intn(14) {
	case 0:
		return nil, true
	case 1:
		return nil, false
	case 2:
		return float64(r.Intn(9)) + 0.5, true
	case 3:
		return -float64(r.Intn(40)) / 4, true
	case 4:
		return int64(r.Intn(7)), true
	case 5:
		if r.Intn(4) == 0 {
			return float64(r.Intn(1e6)) * 1e3, true
		}
		return 0, true
	default:
		return r.Intn(21) - 5, true
	}
}

func c17FnCase(r *rand.Rand, fn string) string {
	switch r.Intn(4) {
	case 0:
		return strings.ToUpper(fn)
	case 1:
		return strings.ToUpper(fn[:1]) + fn[1:]
	}
	return fn
}

func genC17(ref core.CaseRef, r *rand.Rand) *c17Case {
	c := &c17Case{CaseRef: ref}
	ncols := pick(r, []int{0, 1, 1, 1, 1, 2, 2})
	c.Cols = []string{"g1", "g2"}[:ncols]
	// ---- group tuples -----------------------------------------------------------------------
	var tuples [][]any
	want := 1 + r.Intn(4)
	if ncols == 0 {
		want = 1
	}
	flavour := r.Intn(6)
	switch {
	case ncols == 2 && flavour == 0:
		tuples = [][]any{{"a|b", "c"}, {"a", "b|c"}, {"a", "c"}, {"a|b", "b|c"}}[:max(2, want)]
	case ncols == 2 && flavour == 1:
		tuples = [][]any{{"a", nil}, {"a", ""}, {nil, "a"}, {"", "a"}}[:max(2, want)]
	case ncols == 1 && flavour == 0:
		tuples = [][]any{{nil}, {""}, {"a"}, {" "}}[:max(2, want)]
	case ncols == 1 && flavour == 1:
		// texts that spell what a key encoding might reserve for NULL, next to NULL itself
		tuples = [][]any{{nil}, {`\N`}, {`\\N`}, {"NULL"}}[:max(2, want)]
	default:
		hostile := r.Intn(2) == 0
		doms := make([][]any, ncols)
		for i := range doms {
			switch r.Intn(4) {
			case 0:
				for _, v := range []int{1, 2, 3, 10, -1}[:2+r.Intn(3)] {
					doms[i] = append(doms[i], v)
				}
				if r.Intn(3) == 0 {
					doms[i] = append(doms[i], 1.0) // same group as the int 1
				}
			case 1:
				for _, v := range []float64{1.5, 2.5, -0.25}[:2+r.Intn(2)] {
					doms[i] = append(doms[i], v)
				}
			default:
				src := plainKeys
				if hostile {
					src = keyAlphabet
				}
				for j := 0; j < 2+r.Intn(3); j++ {
					doms[i] = append(doms[i], pick(r, src))
				}
				if hostile && r.Intn(3) == 0 {
					doms[i] = append(doms[i], nil)
				}
			}
		}
		seen := map[string]bool{}
		for try := 0; try < 40 && len(tuples) < want; try++ {
			t := make([]any, ncols)
			row := Row{}
			for i := range t {
				t[i] = pick(r, doms[i])
				row[c.Cols[i]] = t[i]
			}
			k := tuple(row, c.Cols)
			if seen[k] && r.Intn(4) != 0 { // keep a few value-equal duplicates (1 and 1.0)
				continue
			}
			seen[k] = true
			tuples = append(tuples, t)
		}
		if len(tuples) == 0 {
			tuples = [][]any{make([]any, ncols)}
		}
	}
	var allVals []any
	for _, t := range tuples {
		allVals = append(allVals, t...)
	}
	c.Shape = keyShape(allVals)
	// ---- rows -------------------------------------------------------------------------------
	n := 20 + r.Intn(181)
	if r.Intn(5) == 0 {
		n = 20 + r.Intn(30)
	}
	groups := map[string]bool{}
	skew := r.Intn(3) == 0
	for i := 1; i <= n; i++ {
		row := Row{"id": i}
		t := tuples[r.Intn(len(tuples))]
		if skew && r.Intn(2) == 0 {
			t = tuples[0]
		}
		for j, col := range c.Cols {
			if t[j] == nil && r.Intn(2) == 0 {
				continue // missing instead of explicit NULL
			}
			row[col] = t[j]
		}
		blank := r.Intn(9) == 0 // a row that carries no reading at all still counts as a row
		for _, f := range []string{"v", "w"} {
			if v, present := c17Value(r); present && !blank {
				row[f] = v
			} else if blank && r.Intn(2) == 0 {
				row[f] = nil
			}
		}
		groups[tuple(row, c.Cols)] = true
		c.Rows = append(c.Rows, row)
	}
	c.NGroups = len(groups)
	// ---- select list and predicate ----------------------------------------------------------
	nsel := r.Intn(5)
	for i := 0; i < nsel; i++ {
		c.sel = append(c.sel, c17Sel{Agg: pick(r, c17Pool), Alias: fmt.Sprintf("a%d", i)})
	}
	ncmp := 1 + r.Intn(3)
	cmps := make([]*c17Node, ncmp)
	nSelected := 0
	for i := range cmps {
		var a c17Agg
		if len(c.sel) > 0 && r.Intn(2) == 0 {
			a = pick(r, c.sel).Agg // also selected
		} else {
			a = pick(r, c17Pool)
		}
		for _, s := range c.sel {
			if s.Agg == a {
				nSelected++
				break
			}
		}
		cmps[i] = &c17Node{Kind: "cmp", Cmp: c17GenCmp(r, a, c.Rows)}
	}
	switch {
	case nSelected == 0:
		c.PredSel = "none"
	case nSelected == ncmp:
		c.PredSel = "all"
	default:
		c.PredSel = "some"
	}
	c.pred = c17Combine(r, cmps)
	c.Pred = c.pred.render(r, 0)
	var sel []string
	c.OutCols = make([]string, ncols)
	for i, col := range c.Cols {
		c.OutCols[i] = col
		if r.Intn(5) == 0 {
			c.OutCols[i] = "k" + col
			sel = append(sel, col+" AS "+c.OutCols[i])
		} else {
			sel = append(sel, col)
		}
	}
	sel = append(sel, "collect(id) AS ids")
	for _, s := range c.sel {
		txt := c17FnCase(r, s.Agg.Fn) + "(" + s.Agg.Field + ") AS " + s.Alias
		sel = append(sel, txt)
		c.Selected = append(c.Selected, s.Agg.String()+" AS "+s.Alias)
	}
	r.Shuffle(len(sel), func(i, j int) { sel[i], sel[j] = sel[j], sel[i] })
	c.SQL = "SELECT " + strings.Join(sel, ", ") + " FROM stream"
	if ncols > 0 {
		c.SQL += " GROUP BY " + strings.Join(c.Cols, ", ") + ", GLOBAL WINDOW"
	} else if r.Intn(2) == 0 {
		c.SQL += " GROUP BY GLOBAL WINDOW"
	} else {
		c.SQL += " GLOBAL WINDOW"
	}
	c.SQL += " TRIGGER WHEN " + c.Pred
	if ref.Index%5 == 3 {
		// a state TTL that never expires during the case: a group that fired still starts again from empty
		c.SQL += " WITH (STATETTL='1h')"
	}
	return c
}

// c17GenCmp draws a comparison whose literal lies in the range the aggregate really takes on short
// runs of the generated rows, so that predicates flip between false and true.
func c17GenCmp(r *rand.Rand, a c17Agg, rows []Row) *c17Cmp {
	cmp := &c17Cmp{Agg: a, Flip: r.Intn(6) == 0}
	ops := []string{">=", ">", "<=", "<", "=", "!="}
	if a.Fn == "count" {
		cmp.Op = pick(r, []string{">=", ">=", ">", "=", "=", "!=", "<", "<="})
		cmp.Lit = float64(1 + r.Intn(7))
		if cmp.Op == "<" || cmp.Op == "<=" || cmp.Op == "!=" {
			cmp.Lit = float64(1 + r.Intn(3))
		}
	} else {
		st := newC17State()
		start := r.Intn(len(rows))
		for _, row := range rows[start:min(len(rows), start+1+r.Intn(6))] {
			st.add(row)
		}
		v, ok := st.value(a)
		if !ok {
			v = float64(r.Intn(10))
		}
		switch r.Intn(4) {
		case 0:
			v += 1
		case 1:
			v -= 0.5
		case 2:
			v = float64(int64(v))
		}
		cmp.Lit = v
		cmp.Op = pick(r, ops[:4])
		if (a.Fn == "min" || a.Fn == "max") && r.Intn(4) == 0 {
			cmp.Op = pick(r, ops[4:])
		}
	}
	cmp.LitText = fmt.Sprint(cmp.Lit)
	if strings.ContainsAny(cmp.LitText, "e") { // keep literals in plain notation
		cmp.LitText = fmt.Sprintf("%.2f", cmp.Lit)
	}
	return cmp
}

func c17Combine(r *rand.Rand, leaves []*c17Node) *c17Node {
	if len(leaves) == 1 {
		return leaves[0]
	}
	k := 1 + r.Intn(len(leaves)-1)
	return &c17Node{Kind: pick(r, []string{"and", "or"}), L: c17Combine(r, leaves[:k]), R: c17Combine(r, leaves[k:])}
}

func runC17(ctx *core.Ctx) {
	ctx.SetRule("case = (0-2 typed group columns, 1-4 group tuples, 20-200 rows with NULL/missing inputs, 0-4 selected aggregates, " +
		"predicate of 1-3 count/sum/avg/min/max comparisons with AND/OR/parentheses) drawn from PRNG(seed,index); " +
		"non-trivial = at least 2 fires checked and (a group fired twice or at least 2 groups fired) and at least one row where the predicate was false; distinct by (SQL, rows) hash")
	ctx.Assume("a missing fire at the end of a group's rows is declared only after the engine stayed quiet for 3 polls 250 ms apart",
		"surplus deliveries arriving after the settle period are not seen",
		"rows at which the predicate is UNKNOWN under SQL three-valued logic (an aggregate over no non-NULL input, or sum/avg within 1e-9 of the literal) may or may not fire; the reference follows the engine there",
		"collect(id) is trusted to name the rows a result aggregated (witness column)")
	n := ctx.N(300, 8000)
	ctx.Cases("c17", n, workers(), func(i int, r *rand.Rand) {
		c := genC17(core.CaseRef{Stream: "c17", Index: i}, r)
		execC17(ctx, c)
	})
	c17NestedStream(ctx)
	c17TTLStream(ctx)
	c17BlankStream(ctx)
}

func execC17(ctx *core.Ctx, c *c17Case) {
	attrs := map[string]string{"key_shape": c.Shape, "ncols": fmt.Sprint(len(c.Cols)), "pred_aggs_selected": c.PredSel,
		"pred_shape": c.pred.shape()}
	viol := func(kind, detail string, extra map[string]string) {
		a := map[string]string{}
		for k, v := range attrs {
			a[k] = v
		}
		for k, v := range extra {
			a[k] = v
		}
		ctx.Violate(core.Violation{Kind: kind, Attrs: a, Detail: detail + "\nSQL: " + c.SQL, Case: c})
	}
	s, err := eng.New(c.SQL, eng.Opts{})
	if err != nil {
		kind := "global.execute_error"
		if strings.Contains(err.Error(), "PANIC") {
			kind = "global.execute_panic"
		}
		viol(kind, err.Error(), nil)
		ctx.Case(c.SQL+core.J(c.Rows), false, nil)
		return
	}
	rec := eng.Attach(s)
	defer s.Stop()
	for _, row := range c.Rows {
		cp := make(Row, len(row))
		for k, v := range row {
			cp[k] = v
		}
		rec.Emit(cp)
	}
	ref := newC17Ref(c)
	expect := ref.expectedFires()
	got := c17Wait(rec, expect)
	quiet := rec.Quiesce(2, 2*time.Millisecond, 2*time.Second) && got
	var out c17Outcome
	for attempt := 0; ; attempt++ {
		out = ref.check(rec.Deliveries())
		if out.Kind == "" || !out.Tail || attempt > 0 {
			break
		}
		// a fire that is still missing: only a long engine-quiet wait makes it a verdict
		quiet = rec.Quiesce(3, 250*time.Millisecond, 20*time.Second)
	}
	if rec.Overloaded() {
		ctx.Inconclusive("engine declared overload")
		return
	}
	ctx.Count("rows_emitted", int64(len(c.Rows)))
	ctx.Count("fires_checked", int64(out.Fires))
	ctx.Count("aggregate_values_compared", int64(out.Values))
	ctx.Count("predicate_evaluations", int64(out.Evals))
	ctx.Count("rows_predicate_unknown", int64(out.Unknown))
	ctx.Count("fires_at_unknown_rows", int64(out.UnknownFires))
	ctx.Count("empty_aggregate_values_unconstrained", int64(out.EmptyVals))
	ctx.Count("pred_aggs_selected."+c.PredSel, 1)
	if out.Kind != "" {
		if out.Tail && !quiet {
			ctx.Inconclusive("not quiescent")
			return
		}
		viol(out.Kind, out.Detail, out.Attrs)
	}
	if out.Kind == "" && c.NGroups >= 2 {
		// "Rows of other groups neither trigger nor contribute": a group fed alone must fire at exactly the
		// rows, and over exactly the rows, at which it fired in the mixed stream - also where the predicate is
		// UNKNOWN (an aggregate without a non-NULL input) and the reference therefore follows the engine.
		if kind, detail := c17Isolation(ctx, c, ref, rec.Deliveries()); kind != "" {
			viol(kind, detail, nil)
			out.Kind = kind
		}
	}
	nontrivial := out.Kind == "" && out.Fires >= 2 && (out.Refired || out.GroupsFired >= 2) && out.FalseRows > 0
	var sample any
	if c.Index < 3 {
		sample = map[string]any{"sql": c.SQL, "rows": len(c.Rows), "groups": c.NGroups, "fires": out.Fires, "first_rows": c.Rows[:min(3, len(c.Rows))]}
	}
	ctx.Case(c.SQL+core.J(c.Rows), nontrivial, sample)
}

// c17Fires lists, per group key, the id lists of its fires in delivery order.
func c17Fires(c *c17Case, dels []eng.Delivery) map[string][]string {
	out := map[string][]string{}
	for _, d := range dels {
		for _, res := range d.Rows {
			parts := make([]string, len(c.OutCols))
			for i, oc := range c.OutCols {
				parts[i] = tkey(res[oc])
			}
			gk := strings.Join(parts, "\x01")
			ids, _ := idList(res["ids"])
			out[gk] = append(out[gk], idsStr(ids))
		}
	}
	return out
}

func c17Isolation(ctx *core.Ctx, c *c17Case, ref *c17Ref, dels []eng.Delivery) (kind, detail string) {
	mixed := c17Fires(c, dels)
	gks := make([]string, 0, len(ref.groups))
	for gk := range ref.groups {
		gks = append(gks, gk)
	}
	sort.Strings(gks)
	if len(gks) > 2 {
		gks = gks[:2]
	}
	for _, gk := range gks {
		s, err := eng.New(c.SQL, eng.Opts{})
		if err != nil {
			return "", ""
		}
		rec := eng.Attach(s)
		n := 0
		for _, row := range c.Rows {
			if id, ok := toI(row["id"]); !ok || ref.owner[int(id)] != gk {
				continue
			}
			cp := make(Row, len(row))
			for k, v := range row {
				cp[k] = v
			}
			rec.Emit(cp)
			n++
		}
		want := mixed[gk]
		if !rec.WaitDeliveries(len(want), 2*time.Second) || !rec.Quiesce(2, 2*time.Millisecond, 2*time.Second) {
			rec.Quiesce(3, 250*time.Millisecond, 20*time.Second)
		}
		solo := c17Fires(c, rec.Deliveries())[gk]
		over := rec.Overloaded()
		s.Stop()
		if over {
			ctx.Inconclusive("isolation re-run: engine declared overload")
			continue
		}
		ctx.Count("isolation.groups_refed_alone", 1)
		ctx.Count("isolation.fires_compared", int64(len(want)))
		if strings.Join(solo, ";") != strings.Join(want, ";") {
			return "global.other_groups_influence", fmt.Sprintf("group %q fires over rows %v when its %d rows are mixed with the other groups' rows, but over %v when the same rows are fed alone: other groups' rows triggered or suppressed a fire", gk, want, n, solo)
		}
	}
	return "", ""
}

// c17Wait waits until `expect` deliveries were recorded, or gives up early once the sink log has not
// grown for 1.5 s (the verdict-relevant long quiet wait follows in execC17); watchdog 15 s.
func c17Wait(rec *eng.Rec, expect int) bool {
	deadline := time.Now().Add(15 * time.Second)
	last, since := -1, time.Now()
	for {
		n := rec.NDeliveries()
		if n >= expect {
			return true
		}
		if n != last {
			last, since = n, time.Now()
		}
		if time.Since(since) > 1500*time.Millisecond || time.Now().After(deadline) {
			return false
		}
		time.Sleep(200 * time.Microsecond)
	}
}
