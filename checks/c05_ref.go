package checks

import (
	"fmt"
	"math"
	"reflect"
	"sort"
	"strconv"
	"strings"
)

// Reference model of C05: a direct query is a row-wise filter and projection.  Everything here is
// written from the property statement and docs/NESTED_FIELD_ACCESS.md; no engine code is called.
//
// Values are first brought into a canonical form (c05Norm): NULL = nil, every number = float64,
// string, bool, map[string]any, []any.  Missing and NULL are the same NULL.

// c05Norm converts any Go value the generator produces (or the engine returns) into canonical form.
func c05Norm(v any) any {
	switch x := v.(type) {
	case nil:
		return nil
	case string:
		return x
	case bool:
		return x
	case map[string]any:
		out := make(map[string]any, len(x))
		for k, e := range x {
			out[k] = c05Norm(e)
		}
		return out
	case []any:
		out := make([]any, len(x))
		for i, e := range x {
			out[i] = c05Norm(e)
		}
		return out
	}
	if f, ok := toF(v); ok {
		return f
	}
	rv := reflect.ValueOf(v)
	switch rv.Kind() {
	case reflect.Slice, reflect.Array:
		if rv.Kind() == reflect.Slice && rv.IsNil() {
			return nil
		}
		out := make([]any, rv.Len())
		for i := range out {
			out[i] = c05Norm(rv.Index(i).Interface())
		}
		return out
	case reflect.Map:
		if rv.IsNil() {
			return nil
		}
		out := map[string]any{}
		for _, k := range rv.MapKeys() {
			out[fmt.Sprint(k.Interface())] = c05Norm(rv.MapIndex(k).Interface())
		}
		return out
	case reflect.Ptr, reflect.Interface:
		if rv.IsNil() {
			return nil
		}
		return c05Norm(rv.Elem().Interface())
	}
	return fmt.Sprintf("<%T:%v>", v, v)
}

func c05NormRow(m map[string]any) map[string]any {
	if m == nil {
		return nil
	}
	return c05Norm(m).(map[string]any)
}

// c05Eq compares two canonical values: numbers with the tolerance of DESIGN §4.5, NaN equals NaN,
// containers element-wise.
func c05Eq(a, b any) bool {
	switch x := a.(type) {
	case nil:
		return b == nil
	case float64:
		y, ok := b.(float64)
		return ok && feq(x, y)
	case string:
		y, ok := b.(string)
		return ok && x == y
	case bool:
		y, ok := b.(bool)
		return ok && x == y
	case map[string]any:
		y, ok := b.(map[string]any)
		if !ok || len(x) != len(y) {
			return false
		}
		for k, e := range x {
			f, ok := y[k]
			if !ok || !c05Eq(e, f) {
				return false
			}
		}
		return true
	case []any:
		y, ok := b.([]any)
		if !ok || len(x) != len(y) {
			return false
		}
		for i := range x {
			if !c05Eq(x[i], y[i]) {
				return false
			}
		}
		return true
	}
	return false
}

// c05Show renders a canonical value compactly and unambiguously (strings quoted).
func c05Show(v any) string {
	switch x := v.(type) {
	case nil:
		return "NULL"
	case float64:
		if math.IsNaN(x) || math.IsInf(x, 0) {
			return fmt.Sprint(x)
		}
		return strconv.FormatFloat(x, 'g', -1, 64)
	case string:
		return strconv.Quote(x)
	case bool:
		return fmt.Sprint(x)
	case map[string]any:
		keys := make([]string, 0, len(x))
		for k := range x {
			keys = append(keys, k)
		}
		sort.Strings(keys)
		parts := make([]string, len(keys))
		for i, k := range keys {
			parts[i] = k + ":" + c05Show(x[k])
		}
		return "{" + strings.Join(parts, ", ") + "}"
	case []any:
		parts := make([]string, len(x))
		for i, e := range x {
			parts[i] = c05Show(e)
		}
		return "[" + strings.Join(parts, ", ") + "]"
	}
	return fmt.Sprintf("%#v", v)
}

func c05ShowRes(m map[string]any) string {
	if m == nil {
		return "(no result)"
	}
	return c05Show(m)
}

// ---- field references ------------------------------------------------------------------------

// c05Lookup resolves ref against a canonical row.  A step that cannot be taken (missing key, NULL or
// scalar parent, index out of range, index on a non-array) gives NULL; shape says why.
func c05Lookup(row map[string]any, ref *c05Ref) (val any, shape string) {
	var cur any = row
	for i, st := range ref.Steps {
		if st.IsIdx {
			arr, ok := cur.([]any)
			if !ok {
				if cur == nil {
					return nil, "parent_null"
				}
				return nil, "index_on_non_array"
			}
			ix := st.Idx
			if ix < 0 {
				ix += len(arr)
			}
			if ix < 0 || ix >= len(arr) {
				return nil, "index_out_of_range"
			}
			cur = arr[ix]
			continue
		}
		m, ok := cur.(map[string]any)
		if !ok {
			if cur == nil {
				return nil, "parent_null"
			}
			return nil, "parent_scalar"
		}
		v, ok := m[st.Key]
		if !ok {
			if i == 0 {
				return nil, "missing"
			}
			return nil, "nested_missing"
		}
		cur = v
	}
	if cur == nil {
		return nil, "null"
	}
	return cur, "present"
}

// ---- arithmetic ------------------------------------------------------------------------------

// c05EvalArith evaluates a pinned arithmetic expression: float64 arithmetic, NULL operand ⇒ NULL.
// ok=false means an operand was not a number (never happens for pinned expressions by construction).
func c05EvalArith(row map[string]any, e *c05Expr) (val any, ok bool) {
	switch {
	case e.Lit != nil:
		if e.Lit.IsStr {
			return nil, false
		}
		return e.Lit.Num, true
	case e.Ref != nil:
		v, _ := c05Lookup(row, e.Ref)
		if v == nil {
			return nil, true
		}
		f, isNum := v.(float64)
		if !isNum {
			return nil, false
		}
		return f, true
	}
	l, ok1 := c05EvalArith(row, e.L)
	r, ok2 := c05EvalArith(row, e.R)
	if !ok1 || !ok2 {
		return nil, false
	}
	if l == nil || r == nil {
		return nil, true
	}
	a, b := l.(float64), r.(float64)
	switch e.Op {
	case "+":
		return a + b, true
	case "-":
		return a - b, true
	case "*":
		return a * b, true
	case "/":
		if b == 0 {
			return nil, false
		}
		return a / b, true
	}
	return nil, false
}

// ---- predicates ------------------------------------------------------------------------------

// c05EvalPred decides "true" vs "not true" under SQL three-valued logic (a comparison with a NULL operand is
// UNKNOWN, NOT UNKNOWN is UNKNOWN, and a row is produced only when the predicate is TRUE).  ok=false: an atom's
// operand types are outside what the property pins down.
func c05EvalPred(row map[string]any, p *c05Pred) (truth bool, ok bool) {
	if !c05HasNot(p) {
		return c05EvalPred2(row, p)
	}
	t, ok := c05Eval3(row, p)
	return t == 1, ok
}

func c05HasNot(p *c05Pred) bool {
	if p == nil {
		return false
	}
	if p.Op == "NOT" {
		return true
	}
	for _, k := range p.Kids {
		if c05HasNot(k) {
			return true
		}
	}
	return false
}

// c05Eval3: 1 TRUE, 0 FALSE, -1 UNKNOWN.
func c05Eval3(row map[string]any, p *c05Pred) (int, bool) {
	switch p.Op {
	case "NOT":
		t, ok := c05Eval3(row, p.Kids[0])
		if t >= 0 {
			t = 1 - t
		}
		return t, ok
	case "AND", "OR":
		res, allOK := 1, true
		if p.Op == "OR" {
			res = 0
		}
		unknown := false
		for _, k := range p.Kids {
			t, o := c05Eval3(row, k)
			allOK = allOK && o
			switch {
			case t < 0:
				unknown = true
			case p.Op == "AND" && t == 0:
				res = 0
			case p.Op == "OR" && t == 1:
				res = 1
			}
		}
		if (p.Op == "AND" && res == 0) || (p.Op == "OR" && res == 1) {
			return res, allOK
		}
		if unknown {
			return -1, allOK
		}
		return res, allOK
	case "cmp":
		if p.Pinned {
			if v, _ := c05Lookup(row, p.Ref); v == nil {
				return -1, true
			}
		}
	}
	t, ok := c05EvalPred2(row, p)
	if t {
		return 1, ok
	}
	return 0, ok
}

// c05EvalPred2 is the two-valued evaluation (UNKNOWN collapsed to not-true), exact for predicates without NOT.
func c05EvalPred2(row map[string]any, p *c05Pred) (truth bool, ok bool) {
	switch p.Op {
	case "AND":
		res, allOK := true, true
		for _, k := range p.Kids {
			t, o := c05EvalPred(row, k)
			allOK = allOK && o
			res = res && t
		}
		return res, allOK
	case "OR":
		res, allOK := false, true
		for _, k := range p.Kids {
			t, o := c05EvalPred(row, k)
			allOK = allOK && o
			res = res || t
		}
		return res, allOK
	case "isnull":
		v, _ := c05Lookup(row, p.Ref)
		return v == nil, true
	case "notnull":
		v, _ := c05Lookup(row, p.Ref)
		return v != nil, true
	case "cmp":
		if !p.Pinned {
			return false, false
		}
		v, _ := c05Lookup(row, p.Ref)
		if v == nil {
			return false, true // comparison with NULL is never true
		}
		op := p.Cmp
		if p.LitLeft {
			op = c05FlipOp(op)
		}
		if p.Lit.IsStr {
			s, isStr := v.(string)
			if !isStr {
				return false, false
			}
			return c05CmpOrd(strings.Compare(s, p.Lit.Str), op), true
		}
		f, isNum := v.(float64)
		if !isNum {
			return false, false
		}
		c := 0
		switch {
		case feq(f, p.Lit.Num):
			c = 0
		case f < p.Lit.Num:
			c = -1
		default:
			c = 1
		}
		return c05CmpOrd(c, op), true
	}
	return false, false
}

// c05FlipOp mirrors an operator for "literal op column".
func c05FlipOp(op string) string {
	switch op {
	case "<":
		return ">"
	case "<=":
		return ">="
	case ">":
		return "<"
	case ">=":
		return "<="
	}
	return op
}

func c05CmpOrd(c int, op string) bool {
	switch op {
	case "=":
		return c == 0
	case "!=", "<>":
		return c != 0
	case "<":
		return c < 0
	case "<=":
		return c <= 0
	case ">":
		return c > 0
	case ">=":
		return c >= 0
	}
	return false
}

// c05Atoms lists the leaves of a predicate.
func c05Atoms(p *c05Pred, out []*c05Pred) []*c05Pred {
	if p == nil {
		return out
	}
	if p.Op == "AND" || p.Op == "OR" || p.Op == "NOT" {
		for _, k := range p.Kids {
			out = c05Atoms(k, out)
		}
		return out
	}
	return append(out, p)
}

// c05EvalPredFlipped evaluates p with the decision of atom `flip` inverted.
func c05EvalPredFlipped(row map[string]any, p, flip *c05Pred) bool {
	if p == flip {
		t, _ := c05EvalPred(row, p)
		return !t
	}
	switch p.Op {
	case "NOT":
		return !c05EvalPredFlipped(row, p.Kids[0], flip)
	case "AND":
		for _, k := range p.Kids {
			if !c05EvalPredFlipped(row, k, flip) {
				return false
			}
		}
		return true
	case "OR":
		for _, k := range p.Kids {
			if c05EvalPredFlipped(row, k, flip) {
				return true
			}
		}
		return false
	}
	t, _ := c05EvalPred(row, p)
	return t
}

// c05AtomShape describes an atom together with the value it met in row:
// "<ref kind>/<operand type>:<operator>:<value shape>[:lit_left]", e.g. "column/num:!=:null",
// "index/num:>=:index_out_of_range", "path/any:IS NULL:parent_scalar".
func c05AtomShape(row map[string]any, a *c05Pred) string {
	_, shape := c05Lookup(row, a.Ref)
	op := a.Cmp
	switch a.Op {
	case "isnull":
		op = "IS NULL"
	case "notnull":
		op = "IS NOT NULL"
	}
	s := a.RefKind + "/" + a.ColType + ":" + op + ":" + shape
	if a.LitLeft {
		s += ":lit_left"
	}
	return s
}

// c05Culprit names the single atom whose inverted decision explains the engine's decision, or
// "ambiguous" / "none".
func c05Culprit(row map[string]any, p *c05Pred, engineDecision bool) string {
	atoms := c05Atoms(p, nil)
	found := ""
	n := 0
	for _, a := range atoms {
		if c05EvalPredFlipped(row, p, a) == engineDecision {
			s := c05AtomShape(row, a)
			if n == 0 || s != found {
				n++
			}
			found = s
		}
	}
	switch n {
	case 0:
		return "none"
	case 1:
		return found
	}
	return "ambiguous"
}

// c05NullAtoms lists the shapes of the comparison / IS NULL atoms whose operand is NULL in row.
func c05NullAtoms(row map[string]any, p *c05Pred) string {
	set := map[string]bool{}
	for _, a := range c05Atoms(p, nil) {
		if v, _ := c05Lookup(row, a.Ref); v == nil {
			set[c05AtomShape(row, a)] = true
		}
	}
	return c05SetStr(set)
}
