package checks

import (
	"fmt"
	"math/rand"
	"os"
	"strings"

	"verif/internal/core"
)

// IS [NOT] NULL part of C13.  Reference: x IS NULL <=> x is absent or nil; for a nested path a.b
// "absent" includes an absent/NULL parent; coalesce(s,t) is NULL iff both are; upper(s) is judged
// only on rows where s is a non-empty string (the value is then certainly not NULL).

type c13Operand struct {
	Name string // attribute value
	Expr string
	// ref returns (isNull, judged)
	ref func(row Row) (bool, bool)
	// kind describes the operand's state in the row for the attrs
	kind func(row Row) string
}

func c13Lookup(row Row, path ...string) (v any, state string) {
	var cur any = map[string]any(row)
	for i, k := range path {
		m, ok := cur.(map[string]any)
		if !ok {
			if cur == nil {
				return nil, "parent_null"
			}
			return nil, "parent_not_a_map"
		}
		nv, present := m[k]
		if !present {
			if i < len(path)-1 {
				return nil, "parent_missing"
			}
			return nil, "missing"
		}
		cur = nv
		if i < len(path)-1 && cur == nil {
			return nil, "parent_null"
		}
	}
	if cur == nil {
		return nil, "null"
	}
	return cur, "present"
}

func c13ValKind(v any, state string) string {
	if state != "present" {
		return state
	}
	switch x := v.(type) {
	case string:
		if x == "" {
			return "present:empty_string"
		}
		return "present:string"
	case bool:
		return fmt.Sprintf("present:bool_%v", x)
	case map[string]any:
		return "present:map"
	}
	if f, ok := toF(v); ok {
		if f == 0 {
			return "present:zero"
		}
		return "present:number"
	}
	return fmt.Sprintf("present:%T", v)
}

func c13PathOperand(name string, path ...string) c13Operand {
	expr := path[0]
	for _, p := range path[1:] {
		expr += "." + p
	}
	return c13Operand{Name: name, Expr: expr,
		ref: func(row Row) (bool, bool) {
			_, st := c13Lookup(row, path...)
			if st == "parent_not_a_map" {
				return false, false // a scalar has no fields: left open
			}
			return st != "present", true
		},
		kind: func(row Row) string { v, st := c13Lookup(row, path...); return c13ValKind(v, st) },
	}
}

var c13NullOperands = []c13Operand{
	c13PathOperand("column", "s"),
	c13PathOperand("nested2", "a", "b"),
	c13PathOperand("nested3", "a", "c", "d"),
	{Name: "function:coalesce", Expr: "coalesce(s, t)",
		ref: func(row Row) (bool, bool) {
			_, s1 := c13Lookup(row, "s")
			_, s2 := c13Lookup(row, "t")
			return s1 != "present" && s2 != "present", true
		},
		kind: func(row Row) string {
			v1, s1 := c13Lookup(row, "s")
			v2, s2 := c13Lookup(row, "t")
			return "s:" + c13ValKind(v1, s1) + ",t:" + c13ValKind(v2, s2)
		}},
	{Name: "function:upper", Expr: "upper(s)",
		ref: func(row Row) (bool, bool) {
			v, st := c13Lookup(row, "s")
			s, ok := v.(string)
			if st != "present" || !ok || s == "" {
				return false, false
			}
			return false, true
		},
		kind: func(row Row) string { v, st := c13Lookup(row, "s"); return "s:" + c13ValKind(v, st) }},
}

var c13Scalars = []any{"a", "abc", "", "NULL", "nil", 0, 0.0, 1, -2.5, false, true, nil, c12Missing{}, nil, c12Missing{}, "x"}

func c13GenNested(r *rand.Rand) any {
	switch r.Intn(12) {
	case 0:
		return c12Missing{}
	case 1:
		return nil
	case 2:
		return map[string]any{}
	case 3:
		return map[string]any{"b": nil}
	case 4:
		return map[string]any{"b": "v"}
	case 5:
		return map[string]any{"b": 0, "c": map[string]any{"d": 1}}
	case 6:
		return map[string]any{"b": "", "c": map[string]any{}}
	case 7:
		return map[string]any{"c": nil}
	case 8:
		return map[string]any{"c": map[string]any{"d": nil}}
	case 9:
		return map[string]any{"b": false, "c": map[string]any{"d": "", "e": 1}}
	case 10:
		return map[string]any{"b": pick(r, c13Scalars[:11]), "c": map[string]any{"d": pick(r, c13Scalars[:11])}}
	}
	return "scalar"
}

func c13NullCase(ctx *core.Ctx, ref core.CaseRef, r *rand.Rand) { c13NullCaseP(ctx, ref, r, false) }

// c13LikeNullCase joins a NULL test with a LIKE over another column by AND / OR: `t LIKE 'a%' OR <operand> IS
// NULL`.  A LIKE over a NULL or missing text is UNKNOWN (never true), so the NULL test alone decides an OR when
// it is true; rows whose t is not a text are not judged.
func c13LikeNullCase(ctx *core.Ctx, ref core.CaseRef, r *rand.Rand) {
	c13LikeMode = true
	defer func() { c13LikeMode = false }()
	c13NullCaseP(ctx, ref, r, true)
}

// c13LikeMode is only set by the (sequentially run) stream c13likenull.
var c13LikeMode bool

// c13NullCaseP with pair = true tests TWO columns in one predicate: `<operand> IS NULL OR t IS NULL`,
// `<operand> IS NOT NULL AND t IS NOT NULL`, ... (each test must look at its own column).
func c13NullCaseP(ctx *core.Ctx, ref core.CaseRef, r *rand.Rand, pair bool) {
	i := ref.Index
	site := c13SiteNames[i%len(c13SiteNames)]
	if pair && site == "having" {
		site = "where"
	}
	like := pair && c13LikeMode
	if like && site == "select" {
		site = "case" // sites with a two-valued answer
	}
	likeFirst := r.Intn(3) > 0
	likePat := pick(r, []string{"a%", "a_", "%b%", "a_c", "_", "%"}) // the lowering differs with the pattern's shape
	likeRe := c13LikeRef(likePat)
	i /= len(c13SiteNames)
	op := []string{"IS NULL", "IS NOT NULL"}[i%2]
	i /= 2
	od := c13NullOperands[i%len(c13NullOperands)]
	spelling := "upper"
	if r.Intn(3) == 0 {
		spelling = "varied_case_or_spacing"
		op = map[string]string{"IS NULL": pick(r, []string{"is null", "Is Null", "IS  NULL"}), "IS NOT NULL": pick(r, []string{"is not null", "Is Not Null", "IS NOT  NULL"})}[op]
	}
	isNot := len(op) > 8
	conj := ""
	if pair {
		conj = pick(r, []string{"OR", "AND", "or", "And"})
	}
	n := 40 + r.Intn(40)
	rows := make([]Row, 0, n+2)
	want := make([]string, 0, n+2)
	nT, nF := 0, 0
	add := func(row Row) {
		row["id"] = len(rows)
		w := "-"
		if null, judged := od.ref(row); judged {
			first := null != isNot
			if like {
				tv, ok := row["t"]
				ts, isText := tv.(string)
				second := isText && likeRe.MatchString(ts) // t LIKE p; UNKNOWN counts as not true
				switch {
				case ok && tv != nil && !isText:
					judged = false // LIKE over a number or a boolean is not what the statement is about
				case strings.EqualFold(conj, "or"):
					first = first || second
				default:
					first = first && second
				}
			} else if pair {
				tv, ok := row["t"]
				second := (!ok || tv == nil) != isNot
				if strings.EqualFold(conj, "or") {
					first = first || second
				} else {
					first = first && second
				}
			}
			switch {
			case !judged:
			case first:
				w = "T"
				nT++
			default:
				w = "F"
				nF++
			}
		}
		rows = append(rows, row)
		want = append(want, w)
	}
	for k := 0; k < n; k++ {
		row := Row{}
		for _, col := range []string{"s", "t"} {
			v := pick(r, c13Scalars)
			if _, miss := v.(c12Missing); !miss {
				row[col] = v
			}
		}
		a := c13GenNested(r)
		if _, miss := a.(c12Missing); !miss {
			row["a"] = a
		}
		add(row)
	}
	var sentinels []int
	if site == "having" {
		for _, cand := range []Row{
			{"s": "q", "t": "q", "a": map[string]any{"b": "v", "c": map[string]any{"d": 1}}},
			{},
			{"s": nil, "t": nil, "a": nil},
		} {
			if null, judged := od.ref(cand); judged && null != isNot {
				sentinels = append(sentinels, len(rows))
				add(cand)
			}
		}
	}
	cond := "$X " + op
	if pair {
		cond = "$X " + op + " " + conj + " t " + op
	}
	if like && likeFirst {
		cond = "t LIKE '" + likePat + "' " + conj + " $X " + op
	} else if like {
		cond = "$X " + op + " " + conj + " t LIKE '" + likePat + "'"
	}
	sql := c13Sites[site].sql(od.Expr, cond)
	if os.Getenv("C13_DEBUG") != "" && like {
		fmt.Fprintln(os.Stderr, "c13likenull:", sql, "T", nT, "F", nF)
	}
	cs := &c13Case{CaseRef: ref, Site: site, Op: op, Operand: od.Expr, SQL: sql, NTexts: len(rows)}
	opAttr := "IS NULL"
	if isNot {
		opAttr = "IS NOT NULL"
	}
	base := map[string]string{"site": site, "op": opAttr, "operand": od.Name, "spelling": spelling}
	if pair {
		base["second_test"] = strings.ToUpper(conj) + " t " + opAttr
	}
	if like {
		base["second_test"] = strings.ToUpper(conj) + " t LIKE '" + likePat + "'"
		base["like_written_first"] = fmt.Sprint(likeFirst)
	}
	attrsOf := func(i int, exp, g string) map[string]string {
		m := map[string]string{"expected": exp, "got": g, "value_kind": od.kind(rows[i])}
		if len(g) > 6 && g[:6] == "other:" {
			m["got"] = "other"
		}
		for k, v := range base {
			m[k] = v
		}
		return m
	}
	describe := func(i int) string { return "row " + c13ShowRow(rows[i]) }
	executed := c13RunInstance(ctx, "isnull", cs, rows, want, sentinels, base, attrsOf, describe)
	if executed {
		ctx.Count("pairs.isnull."+site, int64(len(rows)))
	}
	ctx.Count("instances.isnull."+site, 1)
	var sample any
	if ref.Index < 2 {
		sample = map[string]any{"stream": ref.Stream, "site": site, "sql": sql, "rows": len(rows), "reference_true": nT, "reference_false": nF, "first_row": c13ShowRow(rows[0])}
	}
	sig := ref.Stream + "|" + sql
	for _, row := range rows {
		sig += c13ShowRow(row)
	}
	ctx.Case(sig, executed && nT > 0 && nF > 0, sample)
}
