//go:build verif

package checks

import (
	"fmt"
	"math"
	"math/big"
	"math/rand"
	"strconv"

	"verif/internal/core"
)

// c05unsigned: "produced iff the WHERE predicate is true for the row" for rows whose compared column is an
// unsigned Go integer at the top of its range (math.MaxUint64 as an "unlimited" sentinel, counters past 2^63).
// Only FRACTIONAL literals are used: against those the general engine compares as float64 and is right on the
// unchanged tree, while the same values against integer literals are mis-decided there already (C06/C12 known
// finding) and are therefore left to those checks.  The reference compares exactly (math/big) - no literal used
// here is within 2^11 of any value, so exact and float64 comparison agree.

type c05UnsignedCase struct {
	core.CaseRef
	SQL string `json:"sql"`
	Row string `json:"row"`
}

func c05UnsignedStream(ctx *core.Ctx) {
	vals := []any{
		uint64(math.MaxUint64), uint64(math.MaxUint64 - 1), uint64(math.MaxUint64 - 4096),
		uint64(math.MaxUint64) - (uint64(1) << 53) + 1, uint64(math.MaxUint64) - (uint64(1) << 52),
		uint(math.MaxUint64), uint(math.MaxUint64 - 12345),
		uint64(1) << 63, uint64(1)<<63 + 4096, uint64(3) << 62,
		uint64(1) << 62, uint64(1) << 53, uint64(7), uint(9), uint32(math.MaxUint32), uint64(0),
	}
	lits := []string{"100.5", "0.5", "-1.5", "-100.25", "4294967295.5", "1.5"}
	ops := []string{">", "<", ">=", "<="}
	cmp := func(v any, op, lit string) bool {
		var u uint64
		switch x := v.(type) {
		case uint64:
			u = x
		case uint:
			u = uint64(x)
		case uint32:
			u = uint64(x)
		}
		a := new(big.Float).SetPrec(128).SetUint64(u)
		f, _ := strconv.ParseFloat(lit, 64)
		c := a.Cmp(new(big.Float).SetPrec(128).SetFloat64(f))
		switch op {
		case ">":
			return c > 0
		case "<":
			return c < 0
		case ">=":
			return c >= 0
		}
		return c <= 0
	}
	shapes := []string{"single", "and", "or"}
	n := len(lits) * len(ops) * len(shapes)
	ctx.Cases("c05unsigned", n, 1, func(ci int, r *rand.Rand) {
		lit, op, shape := lits[ci%len(lits)], ops[(ci/len(lits))%len(ops)], shapes[ci/(len(lits)*len(ops))]
		var sql string
		var want func(v any) bool
		switch shape {
		case "single":
			sql = fmt.Sprintf("SELECT id, quota FROM stream WHERE quota %s %s", op, lit)
			want = func(v any) bool { return cmp(v, op, lit) }
		case "and":
			sql = fmt.Sprintf("SELECT id, quota FROM stream WHERE quota %s %s AND id > 0", op, lit)
			want = func(v any) bool { return cmp(v, op, lit) }
		default:
			sql = fmt.Sprintf("SELECT id, quota FROM stream WHERE quota %s %s OR id < 0", op, lit)
			want = func(v any) bool { return cmp(v, op, lit) }
		}
		perm := r.Perm(len(vals))
		rows := make([]Row, len(vals))
		for i, p := range perm {
			rows[i] = Row{"id": i + 1, "quota": vals[p]}
		}
		outs, err := c6Run(sql, rows, c6Rot(len(rows), 0))
		c := &c05UnsignedCase{CaseRef: core.CaseRef{Stream: "c05unsigned", Index: ci}, SQL: sql}
		attrs := map[string]string{"mode": "unsigned_top_of_range", "shape": shape, "op": op}
		if err != nil {
			ctx.Violate(core.Violation{Kind: "projection.execute_error", Attrs: attrs, Detail: err.Error() + "\n  sql: " + sql, Case: c})
			return
		}
		for i, p := range perm {
			v := vals[p]
			c.Row = fmt.Sprintf("quota=%T(%v)", v, v)
			if outs[i].Panic != "" {
				ctx.Violate(core.Violation{Kind: "projection.panic", Attrs: attrs, Detail: outs[i].Panic + "\n  sql: " + sql + "\n  row: " + c.Row, Case: c})
				return
			}
			produced := !outs[i].Filtered && outs[i].Err == "" && outs[i].Res != nil
			ctx.Count("unsigned.rows_decided", 1)
			if w := want(v); produced != w {
				ctx.Violate(core.Violation{Kind: "filter.wrong_decision", Attrs: attrs,
					Detail: fmt.Sprintf("EmitSync on a row with %s: produced=%v, but the predicate is %v for it (exact comparison)\n  sql: %s", c.Row, produced, w, sql), Case: c})
				return
			}
			if produced && !numEq(outs[i].Res["quota"], v) {
				ctx.Violate(core.Violation{Kind: "projection.wrong_value", Attrs: attrs,
					Detail: fmt.Sprintf("row with %s delivered quota=%T(%v)\n  sql: %s", c.Row, outs[i].Res["quota"], outs[i].Res["quota"], sql), Case: c})
				return
			}
		}
		ctx.Case(fmt.Sprintf("c05unsigned|%s|%s|%s", shape, op, lit), true, nil)
	})
}
