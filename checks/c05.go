package checks

import (
	"fmt"
	"math/rand"
	"os"
	"sort"
	"strings"
	"sync"
	"sync/atomic"
	"time"

	"github.com/rulego/streamsql"

	"verif/internal/core"
	"verif/internal/eng"
)

// C05 — non-aggregate queries are a stateless, ordered, row-wise filter and projection.
//
// Oracle parts (DESIGN §5 C05):
//  1. reference filter/projection over the generator's own statement AST (c05_ref.go);
//  2. three-way path equality: EmitSync return value / Emit + sync sink / Emit + ToChannel();
//  3. history independence: the same rows in another order, and identical rows at different
//     positions, give identical per-row results;
//  4. order: a single producer's results reach the sync sink and the channel in emission order
//     (small cases here, load runs in c05_load.go).

func init() { register(&Check{ID: "C05", Race: true, Run: runC05}) }

type c05Case struct {
	core.CaseRef
	Mode    string   `json:"mode"` // reference | invariance
	SQL     string   `json:"sql"`
	Loose   []string `json:"unpinned_constructs,omitempty"`
	Profile string   `json:"row_profile"`
	Rows    []Row    `json:"rows"`
	OrderB  []int    `json:"order_b_ids"`
	PathB   string   `json:"order_b_path"`

	stmt *c05Stmt
}

func genC05(ref core.CaseRef, r *rand.Rand) *c05Case {
	c := &c05Case{CaseRef: ref, Mode: "reference"}
	if r.Intn(4) == 0 {
		c.Mode = "invariance"
	}
	c.stmt = c05GenStmt(r, c.Mode == "invariance")
	c.SQL = c.stmt.SQL
	c.Loose = c.stmt.Loose
	c.Rows, c.Profile = c05GenRows(r, 20)
	perm := r.Perm(len(c.Rows))
	if sort.IntsAreSorted(perm) {
		perm[0], perm[len(perm)-1] = perm[len(perm)-1], perm[0]
	}
	for _, p := range perm {
		c.OrderB = append(c.OrderB, p+1)
	}
	c.PathB = pick(r, []string{"sync", "sink", "chan"})
	return c
}

func runC05(ctx *core.Ctx) {
	ctx.SetRule("case = (statement AST: 1-6 select items of kinds column/alias/nested path/array index/literal/arithmetic/* , WHERE of depth <= 3, " +
		"20 rows of flat/nested/array data with NULL and missing fields) drawn from PRNG(seed,index), executed on four fresh instances " +
		"(EmitSync, Emit+sync sink, Emit+channel, permuted order); non-trivial = at least one row produced a result that was compared on all " +
		"three paths and, when there is a WHERE, it accepted at least one and rejected at least one row; load run non-trivial = all rows emitted " +
		"and the sink sequence checked; distinct by (SQL, rows) hash")
	ctx.Assume("reference semantics: float64 arithmetic, NULL/missing operand => NULL, comparison with NULL not true, strings compare bytewise",
		"'/' is generated in reference mode only with a float-typed dividend and a non-zero literal divisor",
		"constructs the statement leaves open (text/bool/mixed operands, int/int division, string-vs-number and column-vs-column comparisons) are checked for path/history invariance, key set and absence of panic only",
		"an Emit-path result is declared missing only after the input buffer was empty and the expected count was not reached for 5 s; Stop() is used as the final barrier",
		"channel gaps in load runs are accepted iff output_dropped_count >= number of missing results")
	// the load runs go first so that their verdicts are among the printed violations
	runC05Load(ctx)
	runC05Concurrent(ctx)
	n := ctx.N(300, 8000)
	ctx.Cases("c05", n, workers(), func(i int, r *rand.Rand) {
		c := genC05(core.CaseRef{Stream: "c05", Index: i}, r)
		execC05(ctx, c)
	})
	c05EmptyStream(ctx)
	c05TypesStream(ctx)
	c05UnsignedStream(ctx)
}

// ---- running one path ------------------------------------------------------------------------

type c05Rec struct {
	mu    sync.Mutex
	res   map[int]map[string]any
	seq   []int
	dup   []int
	noID  []string
	multi int // batches with != 1 rows
}

func newC05Rec() *c05Rec { return &c05Rec{res: map[int]map[string]any{}} }

func (rc *c05Rec) add(batch []map[string]any) {
	norm := make([]map[string]any, len(batch))
	for i, m := range batch {
		norm[i] = c05NormRow(m)
	}
	rc.mu.Lock()
	defer rc.mu.Unlock()
	if len(batch) != 1 {
		rc.multi++
	}
	for _, m := range norm {
		rc.addOneLocked(m)
	}
}

func (rc *c05Rec) addOneLocked(m map[string]any) {
	f, ok := m["id"].(float64)
	if !ok {
		if len(rc.noID) < 3 {
			rc.noID = append(rc.noID, c05ShowRes(m))
		}
		return
	}
	id := int(f)
	if _, seen := rc.res[id]; seen {
		rc.dup = append(rc.dup, id)
		return
	}
	rc.res[id] = m
	rc.seq = append(rc.seq, id)
}

func (rc *c05Rec) count() int { rc.mu.Lock(); defer rc.mu.Unlock(); return len(rc.seq) + len(rc.dup) }

type c05PathOut struct {
	ExecErr    error
	Rec        *c05Rec
	Panics     []string
	SyncErrs   []string
	Overloaded bool
	Watchdog   string
	Stats      map[string]int64
	Aliased    []string // results that changed when the caller reused the map it had passed to EmitSync
}

func c05SafeEmitSync(s *streamsql.Streamsql, row Row) (res map[string]any, err error, pan string) {
	defer func() {
		if p := recover(); p != nil {
			pan = fmt.Sprint(p)
		}
	}()
	res, err = s.EmitSync(row)
	return
}

func c05SafeEmit(s *streamsql.Streamsql, row Row) (pan string) {
	defer func() {
		if p := recover(); p != nil {
			pan = fmt.Sprint(p)
		}
	}()
	s.Emit(row)
	return
}

// c05WaitDrained waits until the consumer has taken every emitted row from the input buffer.
func c05WaitDrained(s *streamsql.Streamsql, max time.Duration) bool {
	deadline := time.Now().Add(max)
	for {
		if s.GetStats()["data_chan_len"] == 0 {
			return true
		}
		if time.Now().After(deadline) {
			return false
		}
		time.Sleep(100 * time.Microsecond)
	}
}

func c05WaitCount(rc *c05Rec, n int, max time.Duration) bool {
	deadline := time.Now().Add(max)
	for {
		if rc.count() >= n {
			return true
		}
		if time.Now().After(deadline) {
			return false
		}
		time.Sleep(100 * time.Microsecond)
	}
}

// c05RunPath feeds rows (each a private deep copy) to a fresh instance through one API path.
// expect is the number of results the Emit paths wait for before Stop() is used as the barrier.
func c05RunPath(sql, path string, rows []Row, expect int) *c05PathOut {
	out := &c05PathOut{Rec: newC05Rec()}
	s, err := eng.New(sql, eng.Opts{})
	if err != nil {
		out.ExecErr = err
		return out
	}
	stopped := false
	defer func() {
		if !stopped {
			s.Stop()
		}
	}()
	switch path {
	case "sync":
		for _, row := range rows {
			in := c05Copy(row).(map[string]any)
			res, err, pan := c05SafeEmitSync(s, in)
			if pan == "" && err == nil && res != nil {
				// the call has returned: the caller owns its map again and reuses it for its next reading
				// (top-level fields only).  The result it was handed must be a value of its own.
				snap := c05Copy(res).(map[string]any)
				for k := range in {
					in[k] = "__reused_by_caller__"
				}
				in["__next__"] = 1
				if core.J(snap) != core.J(res) && len(out.Aliased) < 3 { // (printed form: NaN equals NaN)
					out.Aliased = append(out.Aliased, fmt.Sprintf("id=%v: EmitSync returned %s; after the caller overwrote the top-level fields of the map it had passed, the same result reads %s", row["id"], trunc05(core.J(snap), 300), trunc05(core.J(res), 300)))
				}
				res = snap
			}
			if pan != "" {
				out.Panics = append(out.Panics, fmt.Sprintf("EmitSync(id=%v): %s", row["id"], pan))
				continue
			}
			if err != nil {
				if len(out.SyncErrs) < 3 {
					out.SyncErrs = append(out.SyncErrs, fmt.Sprintf("id=%v: %v", row["id"], err))
				}
				continue
			}
			if res != nil {
				out.Rec.add([]map[string]any{res})
			}
		}
		return out
	case "sink":
		// a faulty synchronous sink registered first panics on every second result: sinks are isolated from each
		// other, the recording sink behind it still receives every result
		var calls int64
		s.AddSyncSink(func([]map[string]any) {
			if atomic.AddInt64(&calls, 1)%2 == 0 {
				panic("c05: faulty sink")
			}
		})
		s.AddSyncSink(out.Rec.add)
	case "chan":
		ch := s.ToChannel()
		quit := make(chan struct{})
		done := make(chan struct{})
		go func() {
			defer close(done)
			for {
				select {
				case b := <-ch:
					out.Rec.add(b)
				case <-quit:
					for {
						select {
						case b := <-ch:
							out.Rec.add(b)
						default:
							return
						}
					}
				}
			}
		}()
		defer func() {
			// runs after the Stop below: nothing is sent any more, drain what is buffered
			close(quit)
			<-done
		}()
	}
	for _, row := range rows {
		if pan := c05SafeEmit(s, c05Copy(row).(map[string]any)); pan != "" {
			out.Panics = append(out.Panics, fmt.Sprintf("Emit(id=%v): %s", row["id"], pan))
		}
	}
	if !c05WaitDrained(s, 30*time.Second) {
		out.Watchdog = "input buffer not drained within 30 s"
	} else {
		c05WaitCount(out.Rec, expect, 5*time.Second)
	}
	s.Stop() // barrier: joins the processing goroutine, no sink call after it returns
	stopped = true
	out.Stats = s.GetStats()
	if out.Stats["input_dropped_count"] != 0 || out.Stats["output_dropped_count"] != 0 {
		out.Overloaded = true
	}
	return out
}

// ---- one case --------------------------------------------------------------------------------

var (
	c05Debug     = os.Getenv("C05_DEBUG") != ""
	c05DebugSeen sync.Map
)

func trunc05(s string, n int) string {
	if len(s) > n {
		return s[:n] + "..."
	}
	return s
}

type c05Reporter struct {
	ctx  *core.Ctx
	c    any
	seen map[string]bool
}

func (rp *c05Reporter) violate(kind string, attrs map[string]string, detail string) {
	keys := make([]string, 0, len(attrs))
	for k := range attrs {
		keys = append(keys, k)
	}
	sort.Strings(keys)
	sig := kind
	for _, k := range keys {
		sig += "|" + k + "=" + attrs[k]
	}
	if rp.seen[sig] {
		return
	}
	rp.seen[sig] = true
	rp.ctx.Count("violations_reported."+kind, 1)
	if c05Debug {
		n, _ := c05DebugSeen.LoadOrStore(sig, new(int64))
		if atomic.AddInt64(n.(*int64), 1) == 1 {
			fmt.Fprintf(os.Stderr, "C05DEBUG %s\n    %s\n", sig, strings.ReplaceAll(trunc05(detail, 700), "\n", " "))
		}
	}
	rp.ctx.Violate(core.Violation{Kind: kind, Attrs: attrs, Detail: detail, Case: rp.c})
}

func yesNo(b bool) string {
	if b {
		return "yes"
	}
	return "no"
}

func c05ErrClass(err error) string {
	s := err.Error()
	switch {
	case strings.Contains(s, "PANIC"):
		return "panic"
	case strings.Contains(s, "SQL parsing failed"):
		return "parse"
	case strings.Contains(s, "compile filter error"), strings.Contains(s, "failed to register filter"):
		return "filter_compile"
	case strings.Contains(s, "failed to create stream"):
		return "create_stream"
	}
	return "other"
}

func execC05(ctx *core.Ctx, c *c05Case) {
	st := c.stmt
	rp := &c05Reporter{ctx: ctx, c: c, seen: map[string]bool{}}
	base := func() map[string]string {
		return map[string]string{"mode": c.Mode}
	}
	ctx.Count("cases_"+c.Mode, 1)
	for _, it := range st.Items {
		ctx.Count("items."+it.Kind, 1)
	}

	// canonical rows and reference results
	norm := make(map[int]map[string]any, len(c.Rows))
	for _, row := range c.Rows {
		norm[row["id"].(int)] = c05NormRow(row)
	}

	// 1. EmitSync path (its result count is what the Emit paths wait for)
	ps := c05RunPath(c.SQL, "sync", c.Rows, 0)
	if ps.ExecErr != nil {
		// every fresh instance must take the same decision on the same text
		p2 := c05RunPath(c.SQL, "sink", nil, 0)
		if p2.ExecErr == nil {
			a := base()
			a["what"] = "execute"
			rp.violate("paths.execute_disagree", a, fmt.Sprintf("Execute(%q) failed on one fresh instance (%v) and succeeded on another", c.SQL, ps.ExecErr))
		}
		if c05ErrClass(ps.ExecErr) == "panic" {
			a := base()
			a["site"] = "Execute"
			a["items"] = st.itemKinds()
			rp.violate("panic", a, fmt.Sprintf("Execute(%q) panicked: %v", c.SQL, ps.ExecErr))
		} else if c.Mode == "reference" {
			c05ReportRejected(rp, c, ps.ExecErr)
		} else {
			ctx.Count("invariance_statements_rejected", 1)
		}
		ctx.Case(c.SQL+core.J(c.Rows), false, nil)
		return
	}
	expect := len(ps.Rec.seq)
	pk := c05RunPath(c.SQL, "sink", c.Rows, expect)
	pc := c05RunPath(c.SQL, "chan", c.Rows, expect)
	rowsB := make([]Row, len(c.OrderB))
	byID := map[int]Row{}
	for _, row := range c.Rows {
		byID[row["id"].(int)] = row
	}
	for i, id := range c.OrderB {
		rowsB[i] = byID[id]
	}
	pb := c05RunPath(c.SQL, c.PathB, rowsB, expect)

	paths := []struct {
		name string
		out  *c05PathOut
	}{{"sync", ps}, {"sink", pk}, {"chan", pc}, {"orderB_" + c.PathB, pb}}
	for _, p := range paths {
		if p.out.ExecErr != nil {
			a := base()
			a["what"] = "execute"
			rp.violate("paths.execute_disagree", a, fmt.Sprintf("Execute(%q) succeeded on the first instance and failed on a later one (%s): %v", c.SQL, p.name, p.out.ExecErr))
			ctx.Case(c.SQL+core.J(c.Rows), false, nil)
			return
		}
		for _, pan := range p.out.Panics {
			a := base()
			a["site"] = strings.SplitN(pan, "(", 2)[0]
			a["items"] = st.itemKinds()
			rp.violate("panic", a, fmt.Sprintf("panic reached the caller on path %s: %s; sql=%q", p.name, pan, c.SQL))
		}
		for _, al := range p.out.Aliased {
			a := base()
			a["star"] = yesNo(st.Star)
			a["items"] = st.itemKinds()
			rp.violate("result.shares_callers_map", a, fmt.Sprintf("the result depends on what the caller does with its own map after the call returned (path %s): %s; sql=%q", p.name, al, c.SQL))
		}
		if p.out.Watchdog != "" {
			ctx.Inconclusive("watchdog: " + p.out.Watchdog)
			return
		}
		if p.out.Overloaded {
			ctx.Inconclusive("engine declared overload")
			return
		}
		if len(p.out.Rec.noID) > 0 {
			a := base()
			a["path"] = p.name
			a["star"] = yesNo(st.Star)
			rp.violate("projection.missing_key", a, fmt.Sprintf("path %s delivered a result without the selected column id: %s; sql=%q", p.name, p.out.Rec.noID[0], c.SQL))
		}
		if len(p.out.Rec.dup) > 0 {
			a := base()
			a["path"] = strings.SplitN(p.name, "_", 2)[0]
			rp.violate("result.more_than_one_per_row", a, fmt.Sprintf("path %s delivered more than one result for row id(s) %v; sql=%q", p.name, p.out.Rec.dup, c.SQL))
		}
		if p.out.Rec.multi > 0 {
			ctx.Count("batches_with_not_exactly_one_row", int64(p.out.Rec.multi))
		}
	}
	if len(ps.SyncErrs) > 0 {
		ctx.Count("emitsync_errors", int64(len(ps.SyncErrs)))
		if c.Mode == "reference" {
			a := base()
			a["items"] = st.itemKinds()
			a["where_ops"] = st.whereOps()
			rp.violate("emitsync.error", a, fmt.Sprintf("EmitSync returned an error for a direct query: %s; sql=%q", ps.SyncErrs[0], c.SQL))
		}
	}
	ctx.Count("rows_emitted", int64(4*len(c.Rows)))

	// 2. reference comparison (sync path), per row
	accepted, rejected, wrongRows := 0, 0, 0
	wherePinned := true
	for _, row := range c.Rows {
		id := row["id"].(int)
		nrow := norm[id]
		got := ps.Rec.res[id]
		want := true
		decided := true
		if st.Where != nil {
			want, decided = c05EvalPred(nrow, st.Where)
		}
		if !decided {
			wherePinned = false
		}
		if got != nil {
			accepted++
		} else {
			rejected++
		}
		if decided {
			ctx.Count("where_decisions_checked", 1)
			if want != (got != nil) {
				wrongRows++
				if wrongRows <= 6 {
					c05ExplainWhere(rp, c, row, nrow, want, c05WhoAgrees(id, want, pk, pc),
						fmt.Sprintf("sql=%q row=%s: the reference predicate is %v, EmitSync returned %s (sync sink: %s, channel: %s)",
							c.SQL, c05Show(nrow), want, c05ShowRes(got), c05ShowRes(pk.Rec.res[id]), c05ShowRes(pc.Rec.res[id])))
				}
			}
		}
		if got == nil {
			continue
		}
		c05CheckProjection(ctx, rp, c, nrow, got, "sync")
	}
	// the Emit paths are compared with the reference too when they differ from EmitSync (below);
	// here: 3. three-way equality per id
	compared := 0
	for _, row := range c.Rows {
		id := row["id"].(int)
		a, b, d := ps.Rec.res[id], pk.Rec.res[id], pc.Rec.res[id]
		if a != nil && b != nil && d != nil {
			compared++
		}
		for _, o := range []struct {
			name string
			res  map[string]any
		}{{"sink", b}, {"chan", d}} {
			ctx.Count("path_pairs_compared", 1)
			if (a == nil) != (o.res == nil) {
				at := base()
				at["paths"] = "sync!=" + o.name
				at["what"] = "presence"
				at["sync"] = map[bool]string{true: "nil", false: "result"}[a == nil]
				at["where_ops"] = st.whereOps()
				rp.violate("paths.disagree", at, fmt.Sprintf("sql=%q row=%s: EmitSync returned %s but the %s path delivered %s", c.SQL, c05Show(norm[id]), c05ShowRes(a), o.name, c05ShowRes(o.res)))
				continue
			}
			if a != nil && !c05Eq(a, o.res) {
				at := base()
				at["paths"] = "sync!=" + o.name
				at["what"] = "value"
				at["items"] = c05DiffItems(st, a, o.res)
				rp.violate("paths.disagree", at, fmt.Sprintf("sql=%q row=%s: EmitSync returned %s but the %s path delivered %s", c.SQL, c05Show(norm[id]), c05ShowRes(a), o.name, c05ShowRes(o.res)))
				if o.res != nil {
					c05CheckProjection(ctx, rp, c, norm[id], o.res, o.name)
				}
			}
		}
	}
	ctx.Count("results_compared_three_way", int64(compared))

	// 4. history independence: other order, same path
	var refPath *c05PathOut
	switch c.PathB {
	case "sync":
		refPath = ps
	case "sink":
		refPath = pk
	default:
		refPath = pc
	}
	for _, row := range c.Rows {
		id := row["id"].(int)
		a, b := refPath.Rec.res[id], pb.Rec.res[id]
		ctx.Count("history_pairs_compared", 1)
		if (a == nil) != (b == nil) || (a != nil && !c05Eq(a, b)) {
			at := base()
			at["path"] = c.PathB
			at["what"] = "permuted_order"
			at["items"] = c05DiffItems(st, a, b)
			rp.violate("history.result_depends_on_earlier_rows", at, fmt.Sprintf("sql=%q row=%s: result %s when emitted at position %d of the original order, %s at position %d of the permuted order (path %s)",
				c.SQL, c05Show(norm[id]), c05ShowRes(a), id, c05ShowRes(b), c05IndexOf(c.OrderB, id)+1, c.PathB))
		}
	}
	// identical rows at different positions
	sigs := map[string]int{}
	for _, row := range c.Rows {
		id := row["id"].(int)
		cp := map[string]any{}
		for k, v := range norm[id] {
			if k != "id" {
				cp[k] = v
			}
		}
		sig := c05Show(cp)
		first, ok := sigs[sig]
		if !ok {
			sigs[sig] = id
			continue
		}
		ctx.Count("duplicate_row_pairs_compared", 1)
		for _, p := range paths[:3] {
			a, b := c05WithoutID(p.out.Rec.res[first]), c05WithoutID(p.out.Rec.res[id])
			if (a == nil) != (b == nil) || (a != nil && !c05Eq(a, b)) {
				at := base()
				at["path"] = p.name
				at["what"] = "identical_rows"
				at["items"] = c05DiffItems(st, a, b)
				rp.violate("history.result_depends_on_earlier_rows", at, fmt.Sprintf("sql=%q: rows %d and %d have identical content %s but results %s and %s (path %s)",
					c.SQL, first, id, sig, c05ShowRes(a), c05ShowRes(b), p.name))
			}
		}
	}

	// 5. order at the sync sink and on the channel (single producer)
	for _, p := range []struct {
		name  string
		out   *c05PathOut
		order []int
	}{{"sink", pk, nil}, {"chan", pc, nil}, {c.PathB, pb, c.OrderB}} {
		if p.name == "sync" {
			continue
		}
		ctx.Count("order_sequences_checked", 1)
		if i, ok := c05OrderViolation(p.out.Rec.seq, p.order); !ok {
			at := base()
			at["path"] = p.name
			at["load"] = "no"
			rp.violate("order.out_of_emission_order", at, fmt.Sprintf("sql=%q: single producer, path %s received ids %v; id %d arrived after id %d which was emitted later",
				c.SQL, p.name, p.out.Rec.seq, p.out.Rec.seq[i], p.out.Rec.seq[i-1]))
		}
	}

	nontrivial := compared >= 1 && (st.Where == nil || (accepted >= 1 && rejected >= 1))
	if st.Where != nil {
		switch {
		case accepted == 0:
			ctx.Count("cases_where_rejects_all", 1)
		case rejected == 0:
			ctx.Count("cases_where_accepts_all", 1)
		}
		if !wherePinned {
			ctx.Count("cases_where_not_pinned", 1)
		}
	}
	var sample any
	if c.Index < 4 {
		sample = map[string]any{"sql": c.SQL, "mode": c.Mode, "rows": len(c.Rows), "accepted": accepted, "rejected": rejected,
			"first_row": c.Rows[0], "first_result": ps.Rec.res[1], "order_b_path": c.PathB}
	}
	ctx.Case(c.SQL+core.J(c.Rows), nontrivial, sample)
}

func c05IndexOf(xs []int, v int) int {
	for i, x := range xs {
		if x == v {
			return i
		}
	}
	return -1
}

func c05WithoutID(m map[string]any) map[string]any {
	if m == nil {
		return nil
	}
	out := make(map[string]any, len(m))
	for k, v := range m {
		if k != "id" {
			out[k] = v
		}
	}
	return out
}

// c05WhoAgrees says which paths share EmitSync's (wrong) decision for row id.
func c05WhoAgrees(id int, want bool, pk, pc *c05PathOut) string {
	wrong := []string{"sync"}
	if (pk.Rec.res[id] != nil) != want {
		wrong = append(wrong, "sink")
	}
	if (pc.Rec.res[id] != nil) != want {
		wrong = append(wrong, "chan")
	}
	if len(wrong) == 3 {
		return "all"
	}
	return strings.Join(wrong, "+")
}

// c05DiffItems names the kinds of the select items whose values differ between two results.
func c05DiffItems(st *c05Stmt, a, b map[string]any) string {
	if a == nil || b == nil {
		return "presence"
	}
	ks := map[string]bool{}
	for _, it := range st.Items {
		if it.Kind == "star" {
			continue
		}
		va, oka := a[it.Out]
		vb, okb := b[it.Out]
		if oka != okb || !c05Eq(va, vb) {
			ks[it.Kind] = true
		}
	}
	if len(ks) == 0 {
		return "star_or_extra_keys"
	}
	return c05SetStr(ks)
}

// c05OrderViolation checks that seq respects the emission order (ids ascending when order is nil).
func c05OrderViolation(seq []int, order []int) (int, bool) {
	pos := func(id int) int { return id }
	if order != nil {
		m := map[int]int{}
		for i, id := range order {
			m[id] = i
		}
		pos = func(id int) int { return m[id] }
	}
	for i := 1; i < len(seq); i++ {
		if pos(seq[i]) <= pos(seq[i-1]) {
			return i, false
		}
	}
	return 0, true
}

// c05CheckProjection compares one delivered result with the reference projection of its row.
func c05CheckProjection(ctx *core.Ctx, rp *c05Reporter, c *c05Case, nrow, got map[string]any, path string) {
	st := c.stmt
	want := map[string]bool{}
	check := func(it *c05Item, out string, exp any, src string) {
		ctx.Count("values_compared", 1)
		gv, ok := got[out]
		if !ok {
			return // reported as missing key
		}
		if !c05Eq(exp, gv) {
			a := map[string]string{"mode": c.Mode, "item": it.Kind, "src": src, "tag": it.Tag, "star": yesNo(st.Star), "path": path, "aliased": yesNo(it.Alias != "")}
			rp.violate("projection.wrong_value", a, fmt.Sprintf("sql=%q row=%s: output column %q (item %s) is %s, expected %s (path %s; source %s)",
				c.SQL, c05Show(nrow), out, it.SQL("AS"), c05Show(gv), c05Show(exp), path, src))
		}
	}
	kindOf := map[string]*c05Item{}
	for _, it := range st.Items {
		switch it.Kind {
		case "star":
			for k, v := range nrow {
				want[k] = true
				kindOf[k] = it
				check(it, k, v, "present")
			}
		case "strlit":
			want[it.Out], kindOf[it.Out] = true, it
			check(it, it.Out, it.Lit.Str, "literal")
		case "numlit":
			want[it.Out], kindOf[it.Out] = true, it
			check(it, it.Out, it.Lit.Num, "literal")
		case "arith":
			want[it.Out], kindOf[it.Out] = true, it
			v, ok := c05EvalArith(nrow, it.Expr)
			if ok {
				src := "operands_present"
				if v == nil {
					shapes := map[string]bool{}
					it.Expr.walk(func(x *c05Expr) {
						if x.Ref != nil {
							if _, sh := c05Lookup(nrow, x.Ref); sh != "present" {
								shapes[sh] = true
							}
						}
					})
					src = "operand:" + c05SetStr(shapes)
				}
				check(it, it.Out, v, src)
			}
		case "loose_arith":
			want[it.Out], kindOf[it.Out] = true, it
		default:
			want[it.Out], kindOf[it.Out] = true, it
			v, shape := c05Lookup(nrow, it.Ref)
			check(it, it.Out, v, shape)
		}
	}
	for k := range want {
		if _, ok := got[k]; !ok {
			it := kindOf[k]
			src := ""
			if it.Ref != nil {
				_, src = c05Lookup(nrow, it.Ref)
			}
			a := map[string]string{"mode": c.Mode, "item": it.Kind, "src": src, "tag": it.Tag, "star": yesNo(st.Star), "path": path, "aliased": yesNo(it.Alias != "")}
			rp.violate("projection.missing_key", a, fmt.Sprintf("sql=%q row=%s: the result %s lacks the selected output column %q (item %s; a missing source must appear as NULL) (path %s)",
				c.SQL, c05Show(nrow), c05ShowRes(got), k, it.SQL("AS"), path))
		}
	}
	for k := range got {
		if !want[k] {
			a := map[string]string{"mode": c.Mode, "star": yesNo(st.Star), "path": path, "items": st.itemKinds()}
			rp.violate("projection.extra_key", a, fmt.Sprintf("sql=%q row=%s: the result %s contains column %q that was not selected (path %s)",
				c.SQL, c05Show(nrow), c05ShowRes(got), k, path))
		}
	}
}

// c05ReportRejected is called when Execute refused a reference-mode statement.  Each WHERE atom and
// each select item is executed on its own (fresh instance) so that the violation names the smallest
// rejected construct; if every part is accepted alone the whole statement is reported.
func c05ReportRejected(rp *c05Reporter, c *c05Case, execErr error) {
	st := c.stmt
	try := func(sql string) error {
		s, err := eng.New(sql, eng.Opts{})
		if err == nil {
			s.Stop()
		}
		return err
	}
	found := false
	for _, a := range c05Atoms(st.Where, nil) {
		cp := *a
		cp.Paren = false
		sql := "SELECT id FROM stream WHERE " + cp.sql(c05Style{}, 0)
		if err := try(sql); err != nil {
			found = true
			op := a.Cmp
			switch a.Op {
			case "isnull":
				op = "IS NULL"
			case "notnull":
				op = "IS NOT NULL"
			}
			at := map[string]string{"mode": c.Mode, "construct": "where_atom", "op": op, "ref": a.RefKind, "operand": a.ColType,
				"lit_left": yesNo(a.LitLeft), "error": c05ErrClass(err)}
			rp.violate("execute.rejected", at, fmt.Sprintf("statement of the supported grammar rejected: %q: %v (found in %q)", sql, err, c.SQL))
		}
	}
	for _, it := range st.Items {
		if it.Kind == "star" || (it.Ref != nil && it.Out == "id") {
			continue
		}
		sql := "SELECT id, " + it.SQL("AS") + " FROM stream"
		if err := try(sql); err != nil {
			found = true
			at := map[string]string{"mode": c.Mode, "construct": "select_item", "item": it.Kind, "tag": it.Tag, "aliased": yesNo(it.Alias != ""), "error": c05ErrClass(err)}
			rp.violate("execute.rejected", at, fmt.Sprintf("statement of the supported grammar rejected: %q: %v (found in %q)", sql, err, c.SQL))
		}
	}
	if !found {
		at := map[string]string{"mode": c.Mode, "construct": "combination", "where_ops": st.whereOps(), "items": st.itemKinds(), "star": yesNo(st.Star),
			"keywords": map[bool]string{true: "lower", false: "upper"}[st.Style.Lower], "error": c05ErrClass(execErr)}
		rp.violate("execute.rejected", at, fmt.Sprintf("statement of the supported grammar rejected (each item and each WHERE atom is accepted on its own): %q: %v", c.SQL, execErr))
	}
}

// c05EngineDecides runs `SELECT id FROM stream WHERE <pred>` on a fresh instance for one row.
func c05EngineDecides(pred string, row Row) (accepted bool, err error) {
	s, err := eng.New("SELECT id FROM stream WHERE "+pred, eng.Opts{})
	if err != nil {
		return false, err
	}
	defer s.Stop()
	res, err, pan := c05SafeEmitSync(s, c05Copy(row).(map[string]any))
	if pan != "" {
		return false, fmt.Errorf("PANIC: %s", pan)
	}
	return res != nil, err
}

// c05ExplainWhere reports a wrong WHERE decision.  To name the smallest construct the engine gets
// wrong for this row, each atom is executed alone and then each ordered pair of atoms under the
// connectives the predicate uses; only if all of those are decided correctly is the whole predicate
// reported ("combination").
func c05ExplainWhere(rp *c05Reporter, c *c05Case, row Row, nrow map[string]any, want bool, who, detail string) {
	st := c.stmt
	exp := func(b bool) string { return map[bool]string{true: "row_accepted", false: "row_rejected"}[b] }
	atoms := c05Atoms(st.Where, nil)
	plain := func(a *c05Pred) *c05Pred { cp := *a; cp.Paren = false; return &cp }
	found := false
	for _, a := range atoms {
		if !a.Pinned && a.Op == "cmp" {
			continue
		}
		ref, _ := c05EvalPred(nrow, a)
		sql := plain(a).sql(c05Style{}, 0)
		got, err := c05EngineDecides(sql, row)
		if err != nil || got == ref {
			continue
		}
		found = true
		at := map[string]string{"mode": c.Mode, "expected": exp(ref), "construct": "atom", "atom": c05AtomShape(nrow, a), "path": who}
		d := fmt.Sprintf("sql=%q row=%s: the reference predicate is %v, EmitSync returned %s", "SELECT id FROM stream WHERE "+sql, c05Show(nrow), ref,
			map[bool]string{true: "a result", false: "(no result)"}[got])
		if len(atoms) > 1 {
			d += "; found in: " + detail
		}
		rp.violate("where.wrong_decision", at, d)
	}
	if found || len(atoms) == 1 {
		if !found {
			at := map[string]string{"mode": c.Mode, "expected": exp(want), "construct": "atom", "atom": c05AtomShape(nrow, atoms[0]), "path": who, "reproduced_alone": "no"}
			rp.violate("where.wrong_decision", at, detail)
		}
		return
	}
	ops := map[string]bool{}
	var walk func(p *c05Pred)
	walk = func(p *c05Pred) {
		if p.Op == "AND" || p.Op == "OR" {
			ops[p.Op] = true
			for _, k := range p.Kids {
				walk(k)
			}
		}
	}
	walk(st.Where)
	for _, op := range []string{"OR", "AND"} {
		if !ops[op] {
			continue
		}
		for i := 0; i < len(atoms) && !found; i++ {
			for j := 0; j < len(atoms) && !found; j++ {
				if i == j || (!atoms[i].Pinned && atoms[i].Op == "cmp") || (!atoms[j].Pinned && atoms[j].Op == "cmp") {
					continue
				}
				pair := &c05Pred{Op: op, Kids: []*c05Pred{plain(atoms[i]), plain(atoms[j])}}
				ref, _ := c05EvalPred(nrow, pair)
				sql := pair.sql(c05Style{}, 0)
				got, err := c05EngineDecides(sql, row)
				if err != nil || got == ref {
					continue
				}
				found = true
				at := map[string]string{"mode": c.Mode, "expected": exp(ref), "construct": "pair", "op": op,
					"first": c05AtomShape(nrow, atoms[i]), "second": c05AtomShape(nrow, atoms[j]), "path": who}
				rp.violate("where.wrong_decision", at, fmt.Sprintf("sql=%q row=%s: the reference predicate is %v, EmitSync returned %s; found in: %s",
					"SELECT id FROM stream WHERE "+sql, c05Show(nrow), ref, map[bool]string{true: "a result", false: "(no result)"}[got], detail))
			}
		}
		if found {
			return
		}
	}
	at := map[string]string{"mode": c.Mode, "expected": exp(want), "construct": "combination", "culprit": c05Culprit(nrow, st.Where, !want),
		"null_atoms": c05NullAtoms(nrow, st.Where), "where_ops": st.whereOps(), "path": who}
	rp.violate("where.wrong_decision", at, detail)
}
