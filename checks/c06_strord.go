//go:build verif

package checks

import (
	"fmt"
	"math/rand"

	"verif/internal/core"
	"verif/internal/eng"
)

// c06strord: `text column OP 'literal'` for every comparison operator, with texts below, equal to and above the
// literal.  Collation is not pinned by the statement, but the answer must not depend on the evaluation site:
// the bare WHERE (comparison shortcut), the parenthesised WHERE (general evaluator), the SELECT item and the CASE
// condition must agree, and for = / != / <= / >= / < / > on EQUAL texts the answer is fixed by any collation.
func c06StrOrd(ctx *core.Ctx) {
	lits := []string{"m", "ab", "Ab", "", "7", "lo-w", "x y"}
	ops := []string{"=", "!=", "<", "<=", ">", ">="}
	n := ctx.N(len(lits)*len(ops), len(lits)*len(ops))
	ctx.Cases("c06strord", n, workers(), func(i int, r *rand.Rand) {
		lit, op := lits[i%len(lits)], ops[(i/len(lits))%len(ops)]
		texts := []string{lit, lit + "a", "", "a", "z", "M", "m", "0"}
		if len(lit) > 0 {
			texts = append(texts, lit[:len(lit)-1])
		}
		sqls := map[string]string{
			"where":       fmt.Sprintf("SELECT id FROM stream WHERE s %s %s", op, sqlStr(lit)),
			"where_paren": fmt.Sprintf("SELECT id FROM stream WHERE (s %s %s)", op, sqlStr(lit)),
			"select":      fmt.Sprintf("SELECT id, s %s %s AS r FROM stream", op, sqlStr(lit)),
			"case":        fmt.Sprintf("SELECT id, CASE WHEN s %s %s THEN 1 ELSE 0 END AS r FROM stream", op, sqlStr(lit)),
		}
		got := map[string][]string{}
		for site, sql := range sqls {
			s, err := eng.New(sql, eng.Opts{})
			if err != nil {
				ctx.Violate(core.Violation{Kind: "cmp.execute_error", Attrs: map[string]string{"site": site, "op": op}, Detail: err.Error() + "\n  sql: " + sql})
				return
			}
			for j, t := range texts {
				out, _ := s.EmitSync(Row{"id": j, "s": t})
				v := "false"
				switch site {
				case "where", "where_paren":
					if _, has := out["id"]; has { // (a rejected row comes back as nil or as an empty map)
						v = "true"
					}
				default:
					if out != nil && (out["r"] == true || numEq(out["r"], 1)) {
						v = "true"
					}
				}
				got[site] = append(got[site], v)
			}
			s.Stop()
		}
		ctx.Count("strord.decisions_compared", int64(4*len(texts)))
		for j, t := range texts {
			ref := got["where_paren"][j]
			for _, site := range []string{"where", "select", "case"} {
				if got[site][j] != ref {
					ctx.Violate(core.Violation{Kind: "strord.site_differs", Attrs: map[string]string{"a": "where_paren", "b": site, "op": op},
						Detail: fmt.Sprintf("s %s %s with s=%q: %s at the parenthesised WHERE, %s at site %s (%s)", op, sqlStr(lit), t, ref, got[site][j], site, sqls[site])})
					return
				}
			}
			if t == lit {
				want := map[string]string{"=": "true", "!=": "false", "<": "false", "<=": "true", ">": "false", ">=": "true"}[op]
				if ref != want {
					ctx.Violate(core.Violation{Kind: "cmp.equal_texts", Attrs: map[string]string{"op": op, "site": "where_paren"},
						Detail: fmt.Sprintf("s %s %s with s equal to the literal is %s (%s)", op, sqlStr(lit), ref, sqls["where_paren"])})
					return
				}
			}
		}
		ctx.Case(fmt.Sprintf("c06strord|%s|%s", op, lit), true, nil)
	})
}
