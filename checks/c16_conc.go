package checks

import (
	"encoding/json"
	"fmt"
	"math/rand"
	"os"
	"os/exec"
	"path/filepath"
	"runtime"
	"sort"
	"strings"
	"sync"
	"time"

	"github.com/anishathalye/porcupine"
	"github.com/rulego/streamsql/stream"

	"verif/internal/core"
	"verif/internal/eng"
)

// Concurrent phase of C16: 4 readers (EmitSync lookups) and 2 writers (Upsert/UpsertTable/Delete)
// work on 3 keys of one table.  Every operation is recorded at the client boundary with call and
// return stamps of one monotonic clock; every write carries a unique version id, so a read names
// the write it saw.  porcupine decides whether each key's sub-history is linearizable with respect
// to a register-with-delete.

type c16ConcCase struct {
	core.CaseRef
	SQL     string   `json:"sql"`
	Left    bool     `json:"left_join"`
	Keys    []any    `json:"keys"`
	Init    []string `json:"initial_versions"` // per key, "" = absent
	Seeds   []int64  `json:"goroutine_seeds"`
	ReadOps int      `json:"ops_per_reader"`
	WrOps   int      `json:"ops_per_writer"`

	variants [][]any // per key: equal-valued representations readers/writers may use
}

type c16In struct {
	Op  string // read | write | delete
	Key int
	Ver string
}

type c16Out struct{ Ver string }

func genC16Conc(ref core.CaseRef, r *rand.Rand) *c16ConcCase {
	c := &c16ConcCase{CaseRef: ref, Left: r.Intn(2) == 0}
	sets := [][][]any{
		{{1, 1.0, int64(1)}, {"a"}, {2.5, float32(2.5)}},
		{{"1"}, {1, 1.0}, {"a|b"}},
		{{"d1"}, {"d2"}, {"d3"}},
		{{0, 0.0}, {""}, {"\x1f"}},
	}
	c.variants = sets[r.Intn(len(sets))]
	for _, v := range c.variants {
		c.Keys = append(c.Keys, v[0])
	}
	for range c.Keys {
		if r.Intn(3) == 0 {
			c.Init = append(c.Init, "")
		} else {
			c.Init = append(c.Init, fmt.Sprintf("init%d", len(c.Init)))
		}
	}
	for i := 0; i < 6; i++ {
		c.Seeds = append(c.Seeds, r.Int63())
	}
	c.ReadOps = 30 + r.Intn(11)
	c.WrOps = 25 + r.Intn(11)
	join := "JOIN"
	if c.Left {
		join = "LEFT JOIN"
	}
	c.SQL = "SELECT id, m.ver FROM stream " + join + " meta m ON k = m.k"
	return c
}

func c16Model(init string) porcupine.Model {
	return porcupine.Model{
		Init: func() interface{} { return init },
		Step: func(state, input, output interface{}) (bool, interface{}) {
			in := input.(c16In)
			switch in.Op {
			case "write":
				return true, in.Ver
			case "delete":
				return true, ""
			default:
				return output.(c16Out).Ver == state.(string), state
			}
		},
		Equal: func(a, b interface{}) bool { return a.(string) == b.(string) },
		DescribeOperation: func(input, output interface{}) string {
			in := input.(c16In)
			if in.Op == "read" {
				return fmt.Sprintf("read(k%d)->%q", in.Key, output.(c16Out).Ver)
			}
			return fmt.Sprintf("%s(k%d,%s)", in.Op, in.Key, in.Ver)
		},
	}
}

func execC16Conc(ctx *core.Ctx, c *c16ConcCase) {
	attrs := map[string]string{"mode": "concurrent", "join": map[bool]string{true: "LEFT", false: "INNER"}[c.Left]}
	sig := c.SQL + core.J(c.Keys) + core.J(c.Seeds)
	s, err := eng.New(c.SQL, eng.Opts{})
	if err != nil {
		ctx.Violate(core.Violation{Kind: "join.execute_error", Attrs: attrs, Detail: err.Error(), Case: c})
		ctx.Case(sig, false, nil)
		return
	}
	defer s.Stop()
	var initRows []map[string]any
	for i, v := range c.Init {
		if v != "" {
			initRows = append(initRows, Row{"k": c.Keys[i], "ver": v})
		}
	}
	var src *stream.MemoryTableSource
	err, _ = c16Safe(func() error {
		var e error
		src, e = s.RegisterTable("meta", initRows)
		return e
	})
	if err != nil || src == nil {
		ctx.Violate(core.Violation{Kind: "join.register_error", Attrs: attrs, Detail: fmt.Sprint(err), Case: c})
		ctx.Case(sig, false, nil)
		return
	}
	var (
		mu      sync.Mutex
		ops     []porcupine.Operation
		problem string
		wg      sync.WaitGroup
	)
	record := func(op porcupine.Operation) {
		mu.Lock()
		ops = append(ops, op)
		mu.Unlock()
	}
	fail := func(msg string) {
		mu.Lock()
		if problem == "" {
			problem = msg
		}
		mu.Unlock()
	}
	start := time.Now()
	gate := make(chan struct{})
	pause := func(r *rand.Rand) {
		switch r.Intn(6) {
		case 0:
			runtime.Gosched()
		case 1:
			time.Sleep(time.Duration(r.Intn(30)) * time.Microsecond)
		}
	}
	for g := 0; g < 6; g++ {
		wg.Add(1)
		go func(g int) {
			defer wg.Done()
			r := rand.New(rand.NewSource(c.Seeds[g]))
			<-gate
			if g < 4 { // reader
				for i := 0; i < c.ReadOps; i++ {
					ki := r.Intn(len(c.Keys))
					row := Row{"id": g*1000 + i, "k": pick(r, c.variants[ki])}
					var got map[string]any
					call := time.Since(start).Nanoseconds()
					err, _ := c16Safe(func() error {
						var e error
						got, e = s.EmitSync(row)
						return e
					})
					ret := time.Since(start).Nanoseconds()
					if err != nil {
						fail(fmt.Sprintf("reader %d: EmitSync(%v) failed: %v", g, row, err))
						return
					}
					ver := ""
					if len(got) > 0 {
						if v, ok := got["ver"].(string); ok {
							ver = v
						} else if got["ver"] != nil {
							fail(fmt.Sprintf("reader %d: joined ver is %v", g, got["ver"]))
							return
						}
						if !c.Left && got["ver"] == nil {
							fail(fmt.Sprintf("reader %d: INNER JOIN returned a row without table columns: %v", g, got))
							return
						}
					} else if c.Left {
						fail(fmt.Sprintf("reader %d: LEFT JOIN dropped row %v", g, row))
						return
					}
					record(porcupine.Operation{ClientId: g, Input: c16In{Op: "read", Key: ki}, Call: call, Output: c16Out{Ver: ver}, Return: ret})
					pause(r)
				}
				return
			}
			for i := 0; i < c.WrOps; i++ { // writer
				ki := r.Intn(len(c.Keys))
				kv := pick(r, c.variants[ki])
				in := c16In{Op: "write", Key: ki, Ver: fmt.Sprintf("w%d_%d", g, i)}
				var f func() error
				switch r.Intn(10) {
				case 0, 1, 2:
					in = c16In{Op: "delete", Key: ki}
					if r.Intn(2) == 0 {
						f = func() error { src.Delete(kv); return nil }
					} else {
						f = func() error { src.Delete([]any{kv}); return nil }
					}
				case 3, 4, 5:
					f = func() error { return s.UpsertTable("meta", Row{"k": kv, "ver": in.Ver}) }
				default:
					f = func() error { src.Upsert(Row{"k": kv, "ver": in.Ver}); return nil }
				}
				call := time.Since(start).Nanoseconds()
				err, _ := c16Safe(f)
				ret := time.Since(start).Nanoseconds()
				if err != nil {
					fail(fmt.Sprintf("writer %d: %s failed: %v", g, in.Op, err))
					return
				}
				record(porcupine.Operation{ClientId: g, Input: in, Call: call, Output: c16Out{}, Return: ret})
				pause(r)
			}
		}(g)
	}
	close(gate)
	wg.Wait()
	if problem != "" {
		kind := "join.concurrent_op_failed"
		if strings.Contains(problem, "PANIC") {
			kind = "join.panic"
		}
		ctx.Violate(core.Violation{Kind: kind, Attrs: attrs, Detail: problem + "\nSQL: " + c.SQL, Case: c})
		ctx.Case(sig, false, nil)
		return
	}
	// partition by key; each key is a register with delete
	perKey := make([][]porcupine.Operation, len(c.Keys))
	for _, op := range ops {
		k := op.Input.(c16In).Key
		perKey[k] = append(perKey[k], op)
	}
	overlaps, versRead, noMatch := 0, map[string]bool{}, 0
	for k, h := range perKey {
		for _, a := range h {
			if a.Input.(c16In).Op != "read" {
				continue
			}
			if v := a.Output.(c16Out).Ver; v == "" {
				noMatch++
			} else {
				versRead[v] = true
			}
			for _, b := range h {
				if b.Input.(c16In).Op != "read" && a.Call <= b.Return && b.Call <= a.Return {
					overlaps++
				}
			}
		}
		res, _ := porcupine.CheckOperationsVerbose(c16Model(c.Init[k]), h, 2*time.Minute)
		switch res {
		case porcupine.Unknown:
			ctx.Inconclusive("porcupine timeout")
			return
		case porcupine.Illegal:
			sort.Slice(h, func(i, j int) bool { return h[i].Call < h[j].Call })
			var b strings.Builder
			m := c16Model("")
			for i, op := range h {
				if i >= 120 {
					fmt.Fprintf(&b, "… (%d operations)", len(h))
					break
				}
				fmt.Fprintf(&b, "[%d,%d] c%d %s\n", op.Call, op.Return, op.ClientId, m.DescribeOperation(op.Input, op.Output))
			}
			ctx.Violate(core.Violation{Kind: "join.not_linearizable", Attrs: attrs,
				Detail: fmt.Sprintf("history of key %#v (initial version %q) is not linearizable as a register with delete; operations [call,return] ns:\n%s\nSQL: %s", c.Keys[k], c.Init[k], b.String(), c.SQL), Case: c})
			ctx.Case(sig, false, nil)
			return
		}
	}
	ctx.Count("conc.operations_recorded", int64(len(ops)))
	ctx.Count("conc.read_write_overlaps", int64(overlaps))
	ctx.Count("conc.reads_without_match", int64(noMatch))
	ctx.Count("conc.histories_checked", 1)
	var sample any
	if c.Index < 2 {
		sample = map[string]any{"sql": c.SQL, "mode": "concurrent", "operations": len(ops), "read_write_overlaps": overlaps, "versions_read": len(versRead)}
	}
	ctx.Case(sig, overlaps >= 1 && len(versRead) >= 2, sample)
}

// ---- process isolation ---------------------------------------------------------------------------
//
// An unsynchronised table index would not fail politely: `fatal error: concurrent map read and map
// write` kills the process and every monitor in it.  The concurrent histories therefore run in child
// processes (vcheck child C16 …); a child that dies is reported as a violation with its crash output.

type c16Batch struct {
	Seed int64  `json:"seed"`
	Tier string `json:"tier"`
	From int    `json:"from"`
	To   int    `json:"to"`
}

func runC16ConcPhase(ctx *core.Ctx, n int) {
	bin := os.Getenv("VERIF_BIN")
	if bin == "" || ctx.Replay != "" {
		ctx.Cases("c16conc", n, max(1, workers()/4), func(i int, r *rand.Rand) {
			execC16Conc(ctx, genC16Conc(core.CaseRef{Stream: "c16conc", Index: i}, r))
		})
		return
	}
	per := 5
	if n > 100 {
		per = 20
	}
	var batches []c16Batch
	for from := 0; from < n; from += per {
		batches = append(batches, c16Batch{Seed: ctx.Seed, Tier: ctx.Tier, From: from, To: min(n, from+per)})
	}
	dir := filepath.Join(core.Root(), "tmp")
	_ = os.MkdirAll(dir, 0o755)
	core.Parallel(len(batches), max(1, workers()/4), func(bi int) {
		b := batches[bi]
		base := filepath.Join(dir, fmt.Sprintf("c16conc.%d.%d", os.Getpid(), bi))
		caseFile, outFile, logFile := base+".case.json", base+".out.json", base+".log"
		defer func() {
			_ = os.Remove(caseFile)
			_ = os.Remove(outFile)
			_ = os.Remove(logFile)
		}()
		raw, _ := json.Marshal(b)
		if err := os.WriteFile(caseFile, raw, 0o644); err != nil {
			ctx.Inconclusive("cannot write child batch file")
			return
		}
		lf, err := os.Create(logFile)
		if err != nil {
			ctx.Inconclusive("cannot create child log file")
			return
		}
		cmd := exec.Command(bin, "child", "C16", caseFile, outFile)
		cmd.Stdout, cmd.Stderr = lf, lf
		done := make(chan error, 1)
		if err := cmd.Start(); err != nil {
			lf.Close()
			ctx.Inconclusive("cannot start child process")
			return
		}
		go func() { done <- cmd.Wait() }()
		var werr error
		select {
		case werr = <-done:
		case <-time.After(10 * time.Minute):
			_ = cmd.Process.Kill()
			<-done
			lf.Close()
			ctx.Inconclusive("child watchdog (10 min)")
			return
		}
		lf.Close()
		var res core.ChildResult
		ob, rerr := os.ReadFile(outFile)
		_ = werr // a child that reported data races exits with the race detector's code 66 although its results are complete
		if rerr == nil && json.Unmarshal(ob, &res) == nil {
			ctx.Merge(&res)
			return
		}
		logText, _ := os.ReadFile(logFile)
		txt := string(logText)
		sigLine := ""
		for _, line := range strings.Split(txt, "\n") {
			if strings.HasPrefix(line, "fatal error:") || strings.HasPrefix(line, "panic:") {
				sigLine = line
				break
			}
		}
		if sigLine == "" {
			ctx.Inconclusive("child process failed without a crash signature")
			return
		}
		if len(txt) > 4000 {
			txt = txt[:4000] + "…"
		}
		ctx.Violate(core.Violation{Kind: "join.process_crash", Attrs: map[string]string{"mode": "concurrent", "signature": sigLine},
			Detail: fmt.Sprintf("the process running concurrent histories %d..%d died: %s\n%s", b.From, b.To-1, sigLine, txt),
			Case:   map[string]any{"stream": "c16conc", "index": b.From, "to": b.To - 1, "note": "one of these histories crashed the process; schedule dependent"}})
	})
}

func childC16(ctx *core.Ctx, batch []byte) {
	var b c16Batch
	if err := json.Unmarshal(batch, &b); err != nil {
		ctx.Inconclusive("bad batch")
		return
	}
	for i := b.From; i < b.To; i++ {
		execC16Conc(ctx, genC16Conc(core.CaseRef{Stream: "c16conc", Index: i}, ctx.Rng("c16conc", i)))
	}
}
