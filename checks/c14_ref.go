package checks

import (
	"fmt"
	"strconv"
	"strings"
)

// Reference model for C14, written from the repository's documentation of the analytic functions
// (README "Analytic functions", docs/FUNCTIONS_USAGE_GUIDE.md, the doc comments in
// functions/functions_analytical.go, functions/analytic_acc.go, functions/analytic_state.go,
// types/analytic.go and the expectations spelled out in test/e2e/analytic*_test.go).  Nothing in
// here calls engine code.
//
// Documented semantics used (NULL and a missing column are the same NULL):
//
//	lag(x[,n[,def[,ignoreNull]]])  value of the n-th previous row of the partition (n default 1); def (literal or
//	                               column of the current row) when fewer than n previous rows exist, else NULL;
//	                               ignoreNull (default true): NULL rows are not "previous rows" (they still get an
//	                               output); ignoreNull=false: NULL rows count as previous rows.
//	latest(x[,def])                latest non-NULL value including the current row; def/NULL before any.
//	had_changed(ign, x...)         true on the first row ("首次视为变化") and whenever a listed column differs from its
//	                               baseline; ign=true: a NULL neither triggers nor replaces the baseline.
//	changed_col(ign, x)            the new value when it differs from the previous one (first value counts), else NULL;
//	                               ign=true: NULL rows give NULL and leave the baseline alone.
//	changed_cols(p, ign, x...)     per listed column the changed_col rule; output column p+name only when changed.
//	acc_sum/count/avg/min/max(x[,start[,reset]])
//	                               running value over the partition; non-numeric values only count for acc_count;
//	                               NULL never counts; avg/min/max are NULL while nothing was accumulated; with start:
//	                               accumulation begins at the first row where start holds (that row included); with
//	                               reset: a row where reset holds zeroes the accumulator, is not accumulated itself and
//	                               stops accumulation until start holds again.
//	OVER (PARTITION BY … WHEN p)   one independent state per typed key tuple; a row where p does not hold leaves the
//	                               state alone and repeats the partition's previous output (NULL if none).
//	wrappers                       the analytic results are substituted into the surrounding expression; `-` with a
//	                               NULL operand gives NULL (analytic.go comment, TestRuntimeFix_B1); coalesce(lag(x),c);
//	                               CASE WHEN lag(x) > c THEN 'up' ELSE 'down' END with NULL → ELSE.
//
// Left open by the documentation, therefore only checked for invariance (parity / isolation) or
// accepted with several outcomes:
//   - had_changed(true, …) on leading rows whose listed columns are all NULL (is a NULL row "the first"?);
//   - acc_sum before any numeric value was accumulated (0 or NULL);
//   - `+`, `*` wrappers with a NULL operand (only `-` is documented to propagate NULL);
//   - a wrapper expression combined with WHEN (is the cached value the wrapper's or the call's?);
//   - WHEN containing an analytic call; start and reset holding on the same row (never generated);
//   - AND/OR inside start/reset arguments (never generated, the docs only show single comparisons).

// c14Exp is an expectation for one output value.
type c14Exp struct {
	Any  bool
	Alts []any
}

func c14Exact(v any) c14Exp { return c14Exp{Alts: []any{v}} }

var c14AnyExp = c14Exp{Any: true}

func (e c14Exp) single() (any, bool) {
	if e.Any || len(e.Alts) != 1 {
		return nil, false
	}
	return e.Alts[0], true
}

func (e c14Exp) match(got any) bool {
	if e.Any {
		return true
	}
	for _, a := range e.Alts {
		if c14ValEq(a, got) {
			return true
		}
	}
	return false
}

func (e c14Exp) String() string {
	if e.Any {
		return "<any>"
	}
	parts := make([]string, len(e.Alts))
	for i, a := range e.Alts {
		parts[i] = c14Show(a)
	}
	return strings.Join(parts, " or ")
}

func c14Show(v any) string {
	switch x := v.(type) {
	case nil:
		return "NULL"
	case string:
		return strconv.Quote(x)
	}
	return fmt.Sprintf("%v(%T)", v, v)
}

// c14ValEq: NULL equals only NULL, numbers compare by value across Go types, strings and booleans
// exactly, different kinds never.
func c14ValEq(a, b any) bool {
	if a == nil || b == nil {
		return a == nil && b == nil
	}
	fa, oka := toF(a)
	fb, okb := toF(b)
	if oka || okb {
		return oka && okb && feq(fa, fb)
	}
	switch x := a.(type) {
	case string:
		y, ok := b.(string)
		return ok && x == y
	case bool:
		y, ok := b.(bool)
		return ok && x == y
	}
	return false
}

// ---- predicates ------------------------------------------------------------------------------

type c14Cmp struct {
	Col string `json:"col"`
	Op  string `json:"op"`
	C   int    `json:"c"`
}

func (c c14Cmp) sql() string { return fmt.Sprintf("%s %s %d", c.Col, c.Op, c.C) }

// eval is three-valued: known=false when the column is NULL/missing or not a number.
func (c c14Cmp) eval(row Row) (val, known bool) {
	f, ok := toF(row[c.Col])
	if !ok {
		return false, false
	}
	k := float64(c.C)
	switch c.Op {
	case ">":
		return f > k, true
	case "<":
		return f < k, true
	case ">=":
		return f >= k, true
	case "<=":
		return f <= k, true
	case "=", "==":
		return f == k, true
	}
	return false, false
}

type c14Pred struct {
	Terms []c14Cmp `json:"terms"`
	Conn  string   `json:"conn"` // AND | OR (OR only over the never-NULL column g)
}

func (p *c14Pred) sql() string {
	parts := make([]string, len(p.Terms))
	for i, t := range p.Terms {
		parts[i] = t.sql()
	}
	return strings.Join(parts, " "+p.Conn+" ")
}

// holds: the predicate is satisfied (unknown counts as not satisfied, as for SQL WHERE/WHEN).
func (p *c14Pred) holds(row Row) bool {
	if p.Conn == "OR" {
		for _, t := range p.Terms {
			if v, k := t.eval(row); k && v {
				return true
			}
		}
		return false
	}
	for _, t := range p.Terms {
		if v, k := t.eval(row); !k || !v {
			return false
		}
	}
	return true
}

func (p *c14Pred) cols() []string {
	var out []string
	for _, t := range p.Terms {
		out = append(out, t.Col)
	}
	return out
}

// ---- calls -----------------------------------------------------------------------------------

type c14Call struct {
	Fn        string   `json:"fn"`
	Cols      []string `json:"cols"`
	Offset    int      `json:"offset,omitempty"` // 0 = not given
	HasDef    bool     `json:"has_def,omitempty"`
	DefLit    any      `json:"def_lit,omitempty"`
	DefCol    string   `json:"def_col,omitempty"`
	HasIgn    bool     `json:"has_ign,omitempty"` // lag: 4th argument given
	Ign       bool     `json:"ign,omitempty"`
	Start     *c14Cmp  `json:"start,omitempty"`
	Reset     *c14Cmp  `json:"reset,omitempty"`
	BoolStyle string   `json:"-"`
}

func c14Lit(v any) string {
	switch x := v.(type) {
	case string:
		return sqlStr(x)
	case float64:
		return strconv.FormatFloat(x, 'f', -1, 64)
	}
	return fmt.Sprint(v)
}

func (c *c14Call) sql() string {
	switch c.Fn {
	case "lag":
		args := []string{c.Cols[0]}
		if c.Offset > 0 {
			args = append(args, strconv.Itoa(c.Offset))
		}
		if c.HasDef {
			if c.DefCol != "" {
				args = append(args, c.DefCol)
			} else {
				args = append(args, c14Lit(c.DefLit))
			}
		}
		if c.HasIgn {
			args = append(args, strconv.FormatBool(c.Ign))
		}
		return "lag(" + strings.Join(args, ", ") + ")"
	case "latest":
		if c.HasDef {
			return "latest(" + c.Cols[0] + ", " + c14Lit(c.DefLit) + ")"
		}
		return "latest(" + c.Cols[0] + ")"
	case "had_changed", "changed_col":
		return c.Fn + "(" + strconv.FormatBool(c.Ign) + ", " + strings.Join(c.Cols, ", ") + ")"
	}
	// acc_*
	args := []string{c.Cols[0]}
	if c.Start != nil {
		args = append(args, c.Start.sql())
	}
	if c.Reset != nil {
		args = append(args, c.Reset.sql())
	}
	return c.Fn + "(" + strings.Join(args, ", ") + ")"
}

func (c *c14Call) argCols() []string {
	out := append([]string(nil), c.Cols...)
	if c.DefCol != "" {
		out = append(out, c.DefCol)
	}
	if c.Start != nil {
		out = append(out, c.Start.Col)
	}
	if c.Reset != nil {
		out = append(out, c.Reset.Col)
	}
	return out
}

func (c *c14Call) shape() string {
	switch c.Fn {
	case "lag":
		def := "none"
		if c.HasDef {
			def = "lit"
			if c.DefCol != "" {
				def = "col"
			}
		}
		ign := "default"
		if c.HasIgn {
			ign = strconv.FormatBool(c.Ign)
		}
		return fmt.Sprintf("n=%d,def=%s,ignoreNull=%s", max(1, c.Offset), def, ign)
	case "latest":
		if c.HasDef {
			return "def=lit"
		}
		return "plain"
	case "had_changed", "changed_col":
		return fmt.Sprintf("ignoreNull=%v,cols=%d", c.Ign, len(c.Cols))
	}
	switch {
	case c.Reset != nil:
		return "start+reset"
	case c.Start != nil:
		return "start"
	}
	return "plain"
}

// c14CallState is the per-partition state of one call.
type c14CallState struct {
	hist      []any // lag: the partition's previous rows (after NULL skipping)
	latest    any
	hasLatest bool
	first     bool // had_changed: a first row was taken
	base      []any
	prev      any // changed_col
	hasPrev   bool
	sum       float64 // acc_*
	nnum      int64
	nother    int64
	min, max  float64
	started   bool
}

func c14Truth(c *c14Cmp, row Row) bool {
	v, k := c.eval(row)
	return k && v
}

func (c *c14Call) apply(st *c14CallState, row Row) c14Exp {
	switch c.Fn {
	case "lag":
		val := row[c.Cols[0]]
		n := max(1, c.Offset)
		var out any
		if len(st.hist) >= n {
			out = st.hist[len(st.hist)-n]
		} else if c.HasDef {
			if c.DefCol != "" {
				out = row[c.DefCol]
			} else {
				out = c.DefLit
			}
		}
		ign := true
		if c.HasIgn {
			ign = c.Ign
		}
		if !(ign && val == nil) {
			st.hist = append(st.hist, val)
		}
		return c14Exact(out)
	case "latest":
		if v := row[c.Cols[0]]; v != nil {
			st.latest, st.hasLatest = v, true
		}
		if st.hasLatest {
			return c14Exact(st.latest)
		}
		if c.HasDef {
			return c14Exact(c.DefLit)
		}
		return c14Exact(nil)
	case "had_changed":
		vals := make([]any, len(c.Cols))
		allNil := true
		for i, col := range c.Cols {
			vals[i] = row[col]
			if vals[i] != nil {
				allNil = false
			}
		}
		if !st.first {
			if c.Ign && allNil {
				return c14AnyExp // undocumented: does an all-NULL row count as "the first"?
			}
			st.first = true
			st.base = vals
			return c14Exact(true)
		}
		changed := false
		for i, v := range vals {
			if c.Ign && v == nil {
				continue
			}
			if !c14ValEq(st.base[i], v) {
				changed = true
			}
			st.base[i] = v
		}
		return c14Exact(changed)
	case "changed_col":
		return c14Exact(c14ChangedCol(st, c.Ign, row[c.Cols[0]]))
	}
	// acc_*
	if c.Reset != nil && c14Truth(c.Reset, row) {
		st.sum, st.nnum, st.nother, st.min, st.max, st.started = 0, 0, 0, 0, 0, false
		return c.accResult(st)
	}
	if c.Start != nil {
		if !c14Truth(c.Start, row) && !st.started {
			return c.accResult(st)
		}
		st.started = true
	}
	val := row[c.Cols[0]]
	if f, ok := toF(val); ok {
		if st.nnum == 0 || f < st.min {
			st.min = f
		}
		if st.nnum == 0 || f > st.max {
			st.max = f
		}
		st.nnum++
		st.sum += f
	} else if val != nil {
		st.nother++
	}
	return c.accResult(st)
}

func c14ChangedCol(st *c14CallState, ign bool, val any) any {
	if ign && val == nil {
		return nil
	}
	var out any
	if !st.hasPrev || !c14ValEq(st.prev, val) {
		out = val
	}
	st.prev, st.hasPrev = val, true
	return out
}

func (c *c14Call) accResult(st *c14CallState) c14Exp {
	switch c.Fn {
	case "acc_count":
		return c14Exact(st.nnum + st.nother)
	case "acc_sum":
		if st.nnum == 0 {
			return c14Exp{Alts: []any{0.0, nil}} // empty sum: 0 or NULL, the docs do not say
		}
		return c14Exact(st.sum)
	}
	if st.nnum == 0 {
		return c14Exact(nil)
	}
	switch c.Fn {
	case "acc_avg":
		return c14Exact(st.sum / float64(st.nnum))
	case "acc_min":
		return c14Exact(st.min)
	}
	return c14Exact(st.max)
}

// ---- items -----------------------------------------------------------------------------------

// c14Item is one SELECT item (or the analytic call of a WHERE clause).
type c14Item struct {
	Wrap         string     `json:"wrap"` // "" | col- | const- | diff | sum3 | prod | coalesce | case | cols
	Calls        []*c14Call `json:"calls,omitempty"`
	Const        int        `json:"const,omitempty"`
	WrapCol      string     `json:"wrap_col,omitempty"`
	Prefix       string     `json:"prefix,omitempty"` // changed_cols
	Cols         []string   `json:"cols,omitempty"`   // changed_cols
	Ign          bool       `json:"ign,omitempty"`    // changed_cols
	Alias        string     `json:"alias"`
	Part         []string   `json:"part,omitempty"`
	When         *c14Pred   `json:"when,omitempty"`
	WhenAnalytic bool       `json:"when_analytic,omitempty"`
	Inv          bool       `json:"invariance_only,omitempty"`
	WrapWhen     bool       `json:"wrapper_with_when,omitempty"`
	Quote        string     `json:"-"`

	// reference state
	parts map[string]*c14PartState
	over  bool // more distinct partitions than the cap were seen: only parity from here on
}

type c14PartState struct {
	calls   []*c14CallState
	cols    []*c14CallState // changed_cols: one per column
	last    map[string]c14Exp
	hasLast bool
	missing bool // some row of this partition lacked one of the item's argument columns
	ids     []int
	// lastCalls: the calls' outputs at the partition's last WHEN-true row (wrapper + WHEN)
	lastCalls []c14Exp
}

func (it *c14Item) fn() string {
	if it.Wrap == "cols" {
		return "changed_cols"
	}
	return it.Calls[0].Fn
}

func (it *c14Item) kindGroup() string {
	if it.Wrap != "" && it.Wrap != "cols" {
		return "wrapper"
	}
	f := it.fn()
	if strings.HasPrefix(f, "acc_") {
		return "acc"
	}
	return f
}

func (it *c14Item) outCols() []string {
	if it.Wrap == "cols" {
		out := make([]string, len(it.Cols))
		for i, c := range it.Cols {
			out[i] = it.Prefix + c
		}
		return out
	}
	return []string{it.Alias}
}

func (it *c14Item) argCols() []string {
	var out []string
	if it.Wrap == "cols" {
		out = append(out, it.Cols...)
	}
	for _, c := range it.Calls {
		out = append(out, c.argCols()...)
	}
	if it.WrapCol != "" {
		out = append(out, it.WrapCol)
	}
	return out
}

func (it *c14Item) overShape() string {
	s := "none"
	switch {
	case len(it.Part) > 0 && (it.When != nil || it.WhenAnalytic):
		s = "partition+when"
	case len(it.Part) > 0:
		s = "partition"
	case it.When != nil || it.WhenAnalytic:
		s = "when"
	}
	return s
}

func (it *c14Item) shape() string {
	if it.Wrap == "cols" {
		return fmt.Sprintf("ignoreNull=%v,cols=%d", it.Ign, len(it.Cols))
	}
	parts := make([]string, len(it.Calls))
	for i, c := range it.Calls {
		parts[i] = c.Fn + "[" + c.shape() + "]"
	}
	return strings.Join(parts, " ")
}

func (it *c14Item) overSQL() string {
	if len(it.Part) == 0 && it.When == nil && !it.WhenAnalytic {
		return ""
	}
	var inner []string
	if len(it.Part) > 0 {
		inner = append(inner, "PARTITION BY "+strings.Join(it.Part, ", "))
	}
	if it.WhenAnalytic {
		inner = append(inner, "WHEN had_changed(true, w)")
	} else if it.When != nil {
		inner = append(inner, "WHEN "+it.When.sql())
	}
	return " OVER (" + strings.Join(inner, " ") + ")"
}

// exprSQL renders the item without alias.  A single trailing OVER applies to the whole field
// (all calls of a wrapper share the partition), which is the only documented placement.
func (it *c14Item) exprSQL() string {
	var e string
	switch it.Wrap {
	case "cols":
		q := it.Quote
		if q == "" {
			q = "\""
		}
		e = "changed_cols(" + q + it.Prefix + q + ", " + strconv.FormatBool(it.Ign) + ", " + strings.Join(it.Cols, ", ") + ")"
	case "":
		e = it.Calls[0].sql()
	case "col-":
		e = it.WrapCol + " - " + it.Calls[0].sql()
	case "const-":
		e = strconv.Itoa(it.Const) + " - " + it.Calls[0].sql()
	case "diff":
		e = it.Calls[0].sql() + " - " + it.Calls[1].sql()
	case "sum3":
		e = it.Calls[0].sql() + " + " + it.Calls[1].sql() + " + " + it.Calls[2].sql()
	case "prod":
		e = it.Calls[0].sql() + " * " + it.Calls[1].sql()
	case "coalesce":
		e = "coalesce(" + it.Calls[0].sql() + ", " + strconv.Itoa(it.Const) + ")"
	case "case":
		e = "CASE WHEN " + it.Calls[0].sql() + " > " + strconv.Itoa(it.Const) + " THEN 'up' ELSE 'down' END"
	}
	return e + it.overSQL()
}

func (it *c14Item) reset() {
	it.parts = map[string]*c14PartState{}
	it.over = false
}

func (it *c14Item) allAny() map[string]c14Exp {
	out := map[string]c14Exp{}
	for _, c := range it.outCols() {
		out[c] = c14AnyExp
	}
	return out
}

// step feeds one counting row and returns the expected value per output column, plus the
// partition state (for diagnosis).
func (it *c14Item) step(row Row, cap int) (map[string]c14Exp, *c14PartState, string) {
	key := tuple(row, it.Part)
	ps := it.parts[key]
	if ps == nil {
		ps = &c14PartState{}
		for range it.Calls {
			ps.calls = append(ps.calls, &c14CallState{})
		}
		for range it.Cols {
			ps.cols = append(ps.cols, &c14CallState{})
		}
		it.parts[key] = ps
		if len(it.Part) > 0 && len(it.parts) > cap {
			it.over = true
		}
	}
	if id, ok := row["id"].(int); ok {
		ps.ids = append(ps.ids, id)
	}
	for _, c := range it.argCols() {
		if _, ok := row[c]; !ok {
			ps.missing = true
		}
	}
	if it.over || it.Inv {
		// keep no expectation: above the cap (or undocumented combination) only parity/isolation apply
		return it.allAny(), ps, key
	}
	if it.When != nil && !it.When.holds(row) {
		if it.WrapWhen {
			// reading 1: the wrapper's previous output is repeated; reading 2: every call repeats its previous
			// output and the surrounding expression is evaluated on the current row
			alts := []any{}
			r1 := c14Exact(nil)
			if ps.hasLast {
				r1 = ps.last[it.Alias]
			}
			vals := make([]c14Exp, len(it.Calls))
			for i := range it.Calls {
				vals[i] = c14Exact(nil)
				if i < len(ps.lastCalls) {
					vals[i] = ps.lastCalls[i]
				}
			}
			r2 := it.wrap(vals, row)
			x1, ok1 := r1.single()
			x2, ok2 := r2.single()
			if !ok1 || !ok2 {
				return it.allAny(), ps, key
			}
			alts = append(alts, x1, x2)
			return map[string]c14Exp{it.Alias: {Alts: alts}}, ps, key
		}
		if ps.hasLast {
			return ps.last, ps, key
		}
		out := map[string]c14Exp{}
		for _, c := range it.outCols() {
			out[c] = c14Exact(nil)
		}
		return out, ps, key
	}
	out := map[string]c14Exp{}
	if it.Wrap == "cols" {
		for i, col := range it.Cols {
			out[it.Prefix+col] = c14Exact(c14ChangedCol(ps.cols[i], it.Ign, row[col]))
		}
	} else {
		vals := make([]c14Exp, len(it.Calls))
		for i, c := range it.Calls {
			vals[i] = c.apply(ps.calls[i], row)
		}
		out[it.Alias] = it.wrap(vals, row)
		ps.lastCalls = vals
	}
	ps.last, ps.hasLast = out, true
	return out, ps, key
}

func (it *c14Item) wrap(vals []c14Exp, row Row) c14Exp {
	if it.Wrap == "" {
		return vals[0]
	}
	xs := make([]any, len(vals))
	for i, v := range vals {
		x, ok := v.single()
		if !ok {
			return c14AnyExp
		}
		xs[i] = x
	}
	num := func(v any) (float64, bool, bool) { // value, isNull, ok
		if v == nil {
			return 0, true, true
		}
		f, ok := toF(v)
		return f, false, ok
	}
	minus := func(a, b any) c14Exp {
		fa, na, oka := num(a)
		fb, nb, okb := num(b)
		if !oka || !okb {
			return c14AnyExp // non-numeric operand: not documented
		}
		if na || nb {
			return c14Exact(nil)
		}
		return c14Exact(fa - fb)
	}
	switch it.Wrap {
	case "col-":
		return minus(row[it.WrapCol], xs[0])
	case "const-":
		return minus(it.Const, xs[0])
	case "diff":
		return minus(xs[0], xs[1])
	case "sum3", "prod":
		acc := 0.0
		if it.Wrap == "prod" {
			acc = 1
		}
		for _, x := range xs {
			f, null, ok := num(x)
			if !ok || null {
				return c14AnyExp // `+`/`*` with a NULL operand: not documented
			}
			if it.Wrap == "prod" {
				acc *= f
			} else {
				acc += f
			}
		}
		return c14Exact(acc)
	case "coalesce":
		if xs[0] != nil {
			return c14Exact(xs[0])
		}
		return c14Exact(it.Const)
	case "case":
		f, null, ok := num(xs[0])
		if !ok {
			return c14AnyExp
		}
		if !null && f > float64(it.Const) {
			return c14Exact("up")
		}
		return c14Exact("down")
	}
	return c14AnyExp
}

// ---- WHERE -----------------------------------------------------------------------------------

type c14Where struct {
	Plain *c14Pred `json:"plain,omitempty"`
	Call  *c14Item `json:"call,omitempty"` // analytic call (Wrap ""), with optional PARTITION BY
	Form  string   `json:"form,omitempty"` // bare | =true | ==true | =false | cmp
	Cmp   string   `json:"cmp,omitempty"`
	C     int      `json:"c,omitempty"`
}

func (w *c14Where) kind() string {
	switch {
	case w == nil:
		return "none"
	case w.Call != nil:
		return "analytic"
	}
	return "plain"
}

func (w *c14Where) sql() string {
	var parts []string
	if w.Plain != nil {
		parts = append(parts, w.Plain.sql())
	}
	if w.Call != nil {
		e := w.Call.exprSQL()
		switch w.Form {
		case "=true":
			e += " = true"
		case "==true":
			e += " == true"
		case "=false":
			e += " = false"
		case "cmp":
			e += fmt.Sprintf(" %s %d", w.Cmp, w.C)
		}
		parts = append(parts, e)
	}
	return strings.Join(parts, " AND ")
}

// decide returns the filter outcome for a row given the analytic call's value: pass, known.
func (w *c14Where) decide(row Row, callVal c14Exp) (pass, known bool) {
	if w.Plain != nil && !w.Plain.holds(row) {
		return false, true
	}
	if w.Call == nil {
		return true, true
	}
	v, ok := callVal.single()
	if !ok {
		return false, false
	}
	switch w.Form {
	case "bare":
		if w.Call.fn() == "had_changed" {
			b, ok := v.(bool)
			return b, ok
		}
		return v != nil, true // value-typed analytic in WHERE: selected iff non-NULL (TestRuntimeFix_B2)
	case "=true", "==true", "=false":
		b, ok := v.(bool)
		if !ok {
			return false, false
		}
		return b == (w.Form != "=false"), true
	case "cmp":
		if _, isNum := toF(v); !isNum {
			return false, false // NULL or non-numeric comparison: expression semantics, not decided here
		}
		return c14Cmp{Col: "x", Op: w.Cmp, C: w.C}.eval(Row{"x": v})
	}
	return false, false
}
