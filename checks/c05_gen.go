package checks

import (
	"fmt"
	"math/rand"
	"sort"
	"strconv"
	"strings"
)

// Statement AST and generators of C05.  The oracle (c05_ref.go) interprets this AST; the engine
// only ever sees its SQL rendering.

// ---- references --------------------------------------------------------------------------------

type c05Step struct {
	Key   string
	Idx   int
	IsIdx bool
}

type c05Ref struct{ Steps []c05Step }

func c05P(parts ...any) *c05Ref {
	r := &c05Ref{}
	for _, p := range parts {
		switch x := p.(type) {
		case string:
			r.Steps = append(r.Steps, c05Step{Key: x})
		case int:
			r.Steps = append(r.Steps, c05Step{Idx: x, IsIdx: true})
		}
	}
	return r
}

func (r *c05Ref) SQL() string {
	var b strings.Builder
	for i, st := range r.Steps {
		if st.IsIdx {
			b.WriteString("[" + strconv.Itoa(st.Idx) + "]")
			continue
		}
		if i > 0 {
			b.WriteByte('.')
		}
		b.WriteString(st.Key)
	}
	return b.String()
}

// Kind classifies the syntactic shape: column | path | index | index_neg | index_path.
func (r *c05Ref) Kind() string {
	if len(r.Steps) == 1 {
		return "column"
	}
	nIdx, neg := 0, false
	for _, st := range r.Steps {
		if st.IsIdx {
			nIdx++
			neg = neg || st.Idx < 0
		}
	}
	switch {
	case nIdx == 0:
		return "path"
	case neg:
		return "index_neg"
	case len(r.Steps) == 2:
		return "index"
	}
	return "index_path"
}

var (
	c05NumRefs = []*c05Ref{c05P("a"), c05P("a"), c05P("b"), c05P("b"), c05P("f"), c05P("f"), c05P("o", "n"), c05P("o", "p", "q"),
		c05P("o", "p", "z", "w"), c05P("arr", 0), c05P("arr", 1), c05P("arr", 2), c05P("am", 0, "x"), c05P("am", 1, "x")}
	c05NumRefsNeg = []*c05Ref{c05P("arr", -1), c05P("arr", -2)}
	c05StrRefs    = []*c05Ref{c05P("s"), c05P("s"), c05P("s"), c05P("o", "s"), c05P("o", "p", "r"), c05P("am", 0, "y"), c05P("am", 1, "y")}
	c05OtherRefs  = []*c05Ref{c05P("t"), c05P("m"), c05P("o"), c05P("o", "p"), c05P("o", "p", "z"), c05P("arr"), c05P("am"), c05P("am", 0),
		c05P("am", 2), c05P("zz"), c05P("o", "k"), c05P("arr", 5), c05P("t"), c05P("m"), c05P("o"), c05P("o", "p"), c05P("arr"), c05P("am"), c05P("zz"), c05P("o", "k"),
		c05P("o", "n", "x"), c05P("a", "x"), c05P("am", 0, "x", "deep")}
	c05TopFields = []string{"id", "a", "b", "f", "s", "t", "m", "o", "arr", "am", "zz"}
)

// ---- literals ----------------------------------------------------------------------------------

type c05Lit struct {
	IsStr  bool
	IsBool bool
	Str    string
	Num    float64
	Bool   bool
	Text   string // SQL rendering
	Shape  string
}

func c05NumLit(f float64) *c05Lit {
	l := &c05Lit{Num: f, Text: strconv.FormatFloat(f, 'f', -1, 64)}
	isInt := f == float64(int64(f))
	switch {
	case f == 0:
		l.Shape = "zero"
	case f < 0 && isInt:
		l.Shape = "neg_int"
	case f < 0:
		l.Shape = "neg_float"
	case isInt:
		l.Shape = "int"
	default:
		l.Shape = "float"
	}
	return l
}

func c05StrLit(s, shape string) *c05Lit {
	return &c05Lit{IsStr: true, Str: s, Text: sqlStr(s), Shape: shape}
}

// ---- arithmetic ----------------------------------------------------------------------------------

type c05Expr struct {
	Op    string // "" for a leaf
	L, R  *c05Expr
	Ref   *c05Ref
	Lit   *c05Lit
	Paren bool // redundant parentheses
}

func (e *c05Expr) prec() int {
	switch e.Op {
	case "+", "-":
		return 1
	case "*", "/":
		return 2
	}
	return 3
}

func (e *c05Expr) sql(parent int, right bool) string {
	var s string
	switch {
	case e.Ref != nil:
		return e.Ref.SQL()
	case e.Lit != nil:
		return e.Lit.Text
	default:
		s = e.L.sql(e.prec(), false) + " " + e.Op + " " + e.R.sql(e.prec(), true)
	}
	if e.Paren || e.prec() < parent || (e.prec() == parent && right) {
		return "(" + s + ")"
	}
	return s
}

func (e *c05Expr) SQL() string { return e.sql(0, false) }

func (e *c05Expr) walk(fn func(*c05Expr)) {
	fn(e)
	if e.L != nil {
		e.L.walk(fn)
	}
	if e.R != nil {
		e.R.walk(fn)
	}
}

// floatTyped: the expression has a float-typed leaf, so "/" means real division in any SQL dialect.
func (e *c05Expr) floatTyped() bool {
	ft := false
	e.walk(func(x *c05Expr) {
		if x.Ref != nil && len(x.Ref.Steps) == 1 && x.Ref.Steps[0].Key == "f" {
			ft = true
		}
		if x.Lit != nil && !x.Lit.IsStr && x.Lit.Shape == "float" {
			ft = true
		}
	})
	return ft
}

func (e *c05Expr) tag() string {
	ops, kinds := map[string]bool{}, map[string]bool{}
	e.walk(func(x *c05Expr) {
		if x.Op != "" {
			ops[x.Op] = true
		}
		if x.Ref != nil {
			kinds[x.Ref.Kind()] = true
		}
		if x.Paren {
			kinds["redundant_parens"] = true
		}
	})
	return c05SetStr(kinds) + ";" + c05SetStr(ops)
}

func c05SetStr(m map[string]bool) string {
	ks := make([]string, 0, len(m))
	for k := range m {
		ks = append(ks, k)
	}
	sort.Strings(ks)
	return strings.Join(ks, ",")
}

func c05GenArith(r *rand.Rand, depth int, top bool) *c05Expr {
	if depth == 0 || (!top && r.Intn(3) == 0) {
		if !top && r.Intn(10) < 3 {
			return &c05Expr{Lit: c05NumLit(pick(r, []float64{1, 2, 2, 3, 10, 0.5, 2.5}))}
		}
		if r.Intn(12) == 0 {
			return &c05Expr{Ref: pick(r, c05NumRefsNeg)}
		}
		return &c05Expr{Ref: pick(r, c05NumRefs)}
	}
	e := &c05Expr{Op: pick(r, []string{"+", "+", "-", "*", "*", "/"})}
	e.L = c05GenArith(r, depth-1, false)
	if e.Op == "/" {
		e.R = &c05Expr{Lit: c05NumLit(pick(r, []float64{2, 4, 0.5}))}
		if !e.L.floatTyped() {
			// keep "/" unambiguous: make the dividend float-typed
			e.L = &c05Expr{Op: "+", L: e.L, R: &c05Expr{Ref: c05P("f")}}
		}
	} else {
		e.R = c05GenArith(r, depth-1, false)
	}
	hasRef := false
	e.walk(func(x *c05Expr) { hasRef = hasRef || x.Ref != nil })
	if !hasRef {
		e.L = &c05Expr{Ref: pick(r, c05NumRefs)}
		if e.Op == "/" && !e.L.floatTyped() {
			e.L = &c05Expr{Ref: c05P("f")}
		}
	}
	if !top && r.Intn(8) == 0 {
		e.Paren = true
	}
	return e
}

// c05GenLooseArith: arithmetic whose SQL meaning the property does not pin down (text, bool or
// mixed-type operands, integer/integer division, division by a column).
func c05GenLooseArith(r *rand.Rand) (*c05Expr, string) {
	num := func() *c05Expr { return &c05Expr{Ref: pick(r, c05NumRefs)} }
	switch r.Intn(7) {
	case 0:
		return &c05Expr{Op: "+", L: &c05Expr{Ref: c05P("s")}, R: &c05Expr{Lit: c05NumLit(1)}}, "text+num"
	case 1:
		return &c05Expr{Op: pick(r, []string{"+", "*"}), L: num(), R: &c05Expr{Ref: pick(r, c05StrRefs)}}, "num_op_text"
	case 2:
		return &c05Expr{Op: "+", L: &c05Expr{Ref: c05P("t")}, R: &c05Expr{Lit: c05NumLit(1)}}, "bool+num"
	case 3:
		return &c05Expr{Op: pick(r, []string{"*", "-", "+"}), L: &c05Expr{Ref: c05P("m")}, R: &c05Expr{Lit: c05NumLit(2)}}, "mixed_op_num"
	case 4:
		return &c05Expr{Op: "/", L: &c05Expr{Ref: c05P("a")}, R: &c05Expr{Lit: c05NumLit(2)}}, "int_div_int"
	case 5:
		return &c05Expr{Op: "/", L: num(), R: &c05Expr{Ref: pick(r, []*c05Ref{c05P("a"), c05P("b")})}}, "div_by_column"
	}
	return &c05Expr{Op: "+", L: &c05Expr{Ref: c05P("s")}, R: &c05Expr{Lit: c05StrLit("_x", "plain")}}, "text+text"
}

// ---- select items --------------------------------------------------------------------------------

type c05Item struct {
	Kind   string // column | path | index | index_neg | index_path | strlit | numlit | arith | star | loose_arith
	Ref    *c05Ref
	Lit    *c05Lit
	Expr   *c05Expr
	Alias  string
	BQ     bool // the alias is written as a back-quoted name (the quotes are not part of the column's name)
	Out    string
	Pinned bool
	Tag    string
}

func (it *c05Item) SQL(as string) string {
	var s string
	switch {
	case it.Kind == "star":
		return "*"
	case it.Ref != nil:
		s = it.Ref.SQL()
	case it.Lit != nil:
		s = it.Lit.Text
	default:
		s = it.Expr.SQL()
	}
	if it.Alias != "" && it.BQ {
		s += " " + as + " `" + it.Alias + "`"
	} else if it.Alias != "" {
		s += " " + as + " " + it.Alias
	}
	return s
}

// ---- predicates ----------------------------------------------------------------------------------

type c05Pred struct {
	Op      string // AND | OR | cmp | isnull | notnull
	Kids    []*c05Pred
	Ref     *c05Ref
	Ref2    *c05Ref // column-vs-column comparison (not pinned)
	Cmp     string
	Lit     *c05Lit
	LitLeft bool
	ColType string // num | str | bool | mixed
	RefKind string
	Pinned  bool
	Paren   bool
	Loose   string
}

func (p *c05Pred) prec() int {
	switch p.Op {
	case "OR":
		return 1
	case "AND":
		return 2
	}
	return 3
}

type c05Style struct {
	Lower bool
}

func (st c05Style) kw(s string) string {
	if st.Lower {
		return strings.ToLower(s)
	}
	return s
}

func (p *c05Pred) sql(st c05Style, parent int) string {
	var s string
	switch p.Op {
	case "NOT":
		return st.kw("NOT") + " (" + p.Kids[0].sql(st, 0) + ")"
	case "AND", "OR":
		parts := make([]string, len(p.Kids))
		for i, k := range p.Kids {
			parts[i] = k.sql(st, p.prec())
		}
		s = strings.Join(parts, " "+st.kw(p.Op)+" ")
		if p.Paren || p.prec() < parent {
			return "(" + s + ")"
		}
		return s
	case "isnull":
		s = p.Ref.SQL() + " " + st.kw("IS NULL")
	case "notnull":
		s = p.Ref.SQL() + " " + st.kw("IS NOT NULL")
	default:
		switch {
		case p.Ref2 != nil:
			s = p.Ref.SQL() + " " + p.Cmp + " " + p.Ref2.SQL()
		case p.LitLeft:
			s = p.Lit.Text + " " + p.Cmp + " " + p.Ref.SQL()
		default:
			s = p.Ref.SQL() + " " + p.Cmp + " " + p.Lit.Text
		}
	}
	if p.Paren {
		return "(" + s + ")"
	}
	return s
}

var (
	c05NumLits = []float64{-1, 0, 2, 3, 3, 5, 5, 7, 2.5, 4.5, 10, -2.5, 1}
	c05StrVals = []string{"a", "b", "c", "x", "y", "abc", ""}
)

func c05GenAtom(r *rand.Rand, loose bool) *c05Pred {
	if loose {
		p := &c05Pred{Op: "cmp"}
		switch r.Intn(6) {
		case 0:
			p.Ref, p.ColType, p.Cmp, p.Lit, p.Loose = pick(r, c05StrRefs), "str", pick(r, []string{">", "=", "<", "!="}), c05NumLit(pick(r, []float64{3, 5})), "text_vs_num"
		case 1:
			p.Ref, p.ColType, p.Cmp, p.Lit, p.Loose = pick(r, c05NumRefs), "num", pick(r, []string{"=", "!=", ">"}), c05StrLit(pick(r, []string{"5", "3", "x"}), "plain"), "num_vs_text"
		case 2:
			b := r.Intn(2) == 0
			p.Ref, p.ColType, p.Cmp, p.Loose = c05P("t"), "bool", pick(r, []string{"=", "!="}), "bool_literal"
			p.Lit = &c05Lit{IsBool: true, Bool: b, Text: fmt.Sprint(b), Shape: "bool"}
		case 3:
			p.Ref, p.ColType, p.Cmp, p.Lit, p.Loose = c05P("m"), "mixed", pick(r, []string{"=", "!=", ">", "<="}), c05NumLit(pick(r, c05NumLits)), "mixed_vs_num"
		case 4:
			p.Ref, p.ColType, p.Cmp, p.Lit, p.Loose = c05P("m"), "mixed", pick(r, []string{"=", "!=", "<"}), c05StrLit(pick(r, []string{"5", "abc", "x"}), "plain"), "mixed_vs_text"
		default:
			p.Ref, p.Ref2, p.ColType, p.Cmp, p.Loose = pick(r, c05NumRefs), pick(r, c05NumRefs), "num", pick(r, []string{"<", "=", ">=", "!="}), "column_vs_column"
		}
		p.RefKind = p.Ref.Kind()
		return p
	}
	p := &c05Pred{Pinned: true}
	switch k := r.Intn(100); {
	case k < 6:
		// a 64-bit integer column whose magnitude is at or beyond 2^53 (identifiers, nanosecond stamps),
		// compared with an ordinary small literal: never used in arithmetic, the decision is unambiguous
		p.Op, p.ColType = "cmp", "num"
		p.Ref = c05P("big")
		p.Cmp = pick(r, []string{"=", "!=", "<", "<=", ">", ">=", "<>"})
		p.Lit = c05NumLit(pick(r, c05NumLits))
	case k < 55:
		p.Op, p.ColType = "cmp", "num"
		p.Ref = pick(r, c05NumRefs)
		if r.Intn(20) == 0 {
			p.Ref = pick(r, c05NumRefsNeg)
		}
		p.Cmp = pick(r, []string{"=", "=", "!=", "!=", "<", "<=", ">", ">", ">=", ">="})
		if r.Intn(40) == 0 {
			p.Cmp = "<>"
		}
		p.Lit = c05NumLit(pick(r, c05NumLits))
		p.LitLeft = r.Intn(12) == 0
	case k < 75:
		p.Op, p.ColType = "cmp", "str"
		p.Ref = pick(r, c05StrRefs)
		p.Cmp = pick(r, []string{"=", "=", "=", "!=", "!=", "<", ">", "<=", ">="})
		if r.Intn(40) == 0 {
			p.Cmp = "<>"
		}
		v := pick(r, append([]string{"zz"}, c05StrVals...))
		shape := "plain"
		if v == "" {
			shape = "empty"
		}
		p.Lit = c05StrLit(v, shape)
		p.LitLeft = r.Intn(15) == 0
	default:
		p.Op = "isnull"
		if k >= 87 {
			p.Op = "notnull"
		}
		switch r.Intn(3) {
		case 0:
			p.Ref = pick(r, c05NumRefs)
		case 1:
			p.Ref = pick(r, c05StrRefs)
		default:
			p.Ref = pick(r, c05OtherRefs)
		}
		p.ColType = "any"
	}
	p.RefKind = p.Ref.Kind()
	return p
}

// c05GenPred builds a predicate with up to `depth` levels of connectives above the atoms.
func c05GenPred(r *rand.Rand, depth int, looseLeft *int) *c05Pred {
	if depth == 0 {
		loose := *looseLeft > 0 && r.Intn(2) == 0
		if loose {
			*looseLeft--
		}
		a := c05GenAtom(r, loose)
		a.Paren = r.Intn(12) == 0
		return a
	}
	if r.Intn(7) == 0 {
		return &c05Pred{Op: "NOT", Kids: []*c05Pred{c05GenPred(r, depth-1, looseLeft)}}
	}
	p := &c05Pred{Op: pick(r, []string{"AND", "OR", "OR"})}
	n := 2 + r.Intn(2)
	for i := 0; i < n; i++ {
		d := 0
		if depth > 1 && r.Intn(2) == 0 {
			d = 1 + r.Intn(depth-1)
		}
		p.Kids = append(p.Kids, c05GenPred(r, d, looseLeft))
	}
	p.Paren = r.Intn(3) == 0
	return p
}

func (p *c05Pred) depth() int {
	d := 0
	for _, k := range p.Kids {
		if kd := k.depth(); kd > d {
			d = kd
		}
	}
	return d + 1
}

// ---- statement -----------------------------------------------------------------------------------

type c05Stmt struct {
	Items []*c05Item
	Where *c05Pred
	Style c05Style
	Star  bool
	Loose []string // unpinned constructs used (invariance mode)
	SQL   string
}

func (s *c05Stmt) render(r *rand.Rand) {
	parts := make([]string, len(s.Items))
	for i, it := range s.Items {
		parts[i] = it.SQL(s.Style.kw("AS"))
	}
	sep := func() string {
		if r.Intn(10) == 0 {
			return pick(r, []string{"\n", "  ", "\n  ", " \t"})
		}
		return " "
	}
	comma := ", "
	if r.Intn(8) == 0 {
		comma = pick(r, []string{",", " , ", ",\n  "})
	}
	sql := s.Style.kw("SELECT") + " " + strings.Join(parts, comma) + sep() + s.Style.kw("FROM") + " stream"
	if s.Where != nil {
		sql += sep() + s.Style.kw("WHERE") + " " + s.Where.sql(s.Style, 0)
	}
	s.SQL = sql
}

func c05GenStmt(r *rand.Rand, loose bool) *c05Stmt {
	st := &c05Stmt{Style: c05Style{Lower: r.Intn(4) == 0}}
	used := map[string]bool{"id": true}
	aliases := []string{"o1", "o2", "o3", "o4", "o5", "o6", "o7", "res", "val_x", "Out"}
	r.Shuffle(len(aliases), func(i, j int) { aliases[i], aliases[j] = aliases[j], aliases[i] })
	nextAlias := func() string {
		for _, a := range aliases {
			if !used[a] {
				return a
			}
		}
		return fmt.Sprintf("x%d", len(used))
	}
	st.Star = r.Intn(8) == 0
	n := 1 + r.Intn(6)
	if st.Star {
		st.Items = append(st.Items, &c05Item{Kind: "star", Pinned: true})
		for _, f := range c05TopFields {
			used[f] = true
		}
		n = 0
		if r.Intn(10) < 4 {
			n = 1 + r.Intn(2)
		}
	}
	looseItems := 0
	if loose && r.Intn(3) > 0 {
		looseItems = 1
	}
	for i := 0; i < n; i++ {
		it := &c05Item{Pinned: true}
		k := r.Intn(100)
		if looseItems > 0 && i == n-1 {
			k = 100
		}
		switch {
		case k < 52:
			switch q := r.Intn(10); {
			case q < 4:
				it.Ref = c05P(pick(r, []string{"a", "b", "f", "s", "t", "m", "o", "arr", "am", "zz"}))
			case q < 6:
				it.Ref = pick(r, c05NumRefs)
			case q < 7:
				it.Ref = pick(r, c05NumRefsNeg)
			case q < 8:
				it.Ref = pick(r, c05StrRefs)
			default:
				it.Ref = pick(r, c05OtherRefs)
			}
			it.Kind = it.Ref.Kind()
			if st.Star || r.Intn(2) == 0 {
				it.Alias = nextAlias()
				if !st.Star && r.Intn(15) == 0 {
					// alias that is also the name of an (unselected) input field
					cand := pick(r, []string{"a", "b", "s", "zz", "m"})
					if !used[cand] && cand != it.Ref.SQL() {
						it.Alias = cand
						it.Tag = "alias_shadows_field"
					}
				}
			}
		case k < 62:
			it.Kind = "strlit"
			v := pick(r, [][2]string{{"lit", "plain"}, {"lit", "plain"}, {"hello world", "space"}, {"", "empty"}, {"a,b", "comma"}, {"x(y)", "paren"}, {"5", "digits"}, {"a.b", "dot"}})
			it.Lit = c05StrLit(v[0], v[1])
			it.Tag = v[1]
			it.Alias = nextAlias()
		case k < 72:
			it.Kind = "numlit"
			it.Lit = c05NumLit(pick(r, []float64{5, 5, 1, 100, 2.5, 0.25, 0, -3, -0.5}))
			it.Tag = it.Lit.Shape
			it.Alias = nextAlias()
		case k < 100:
			it.Kind = "arith"
			it.Expr = c05GenArith(r, 1+r.Intn(2), true)
			it.Tag = it.Expr.tag()
			it.Alias = nextAlias()
		default:
			it.Kind, it.Pinned = "loose_arith", false
			it.Expr, it.Tag = c05GenLooseArith(r)
			it.Alias = nextAlias()
			st.Loose = append(st.Loose, "item:"+it.Tag)
			looseItems--
		}
		it.Out = it.Alias
		if it.Out == "" {
			it.Out = it.Ref.SQL()
		}
		if used[it.Out] {
			it.Alias = nextAlias()
			it.Out = it.Alias
		}
		used[it.Out] = true
		it.BQ = it.Alias != "" && r.Intn(10) == 0
		st.Items = append(st.Items, it)
	}
	if !st.Star {
		id := &c05Item{Kind: "column", Ref: c05P("id"), Out: "id", Pinned: true}
		pos := r.Intn(len(st.Items) + 1)
		st.Items = append(st.Items, nil)
		copy(st.Items[pos+1:], st.Items[pos:])
		st.Items[pos] = id
	}
	looseAtoms := 0
	if loose && (len(st.Loose) == 0 || r.Intn(2) == 0) {
		looseAtoms = 1 + r.Intn(2)
	}
	if looseAtoms == 0 && r.Intn(12) == 0 {
		// the comparison-shortcut shape: an unparenthesised AND chain of plain `column OP literal` atoms, one
		// of them over the 64-bit column (true for its large positive values), the others easy to satisfy
		kids := []*c05Pred{{Op: "cmp", ColType: "num", Pinned: true, Ref: c05P("big"), Cmp: pick(r, []string{">", ">=", "!=", "<>"}), Lit: c05NumLit(pick(r, c05NumLits))}}
		for n := 1 + r.Intn(2); n > 0; n-- {
			k := &c05Pred{Op: "cmp", ColType: "num", Pinned: true, Ref: pick(r, []*c05Ref{c05P("a"), c05P("b"), c05P("f")}), Cmp: pick(r, []string{">", ">=", "!=", "<", "<="}), Lit: c05NumLit(pick(r, []float64{-1, 0, 2, 5, 10}))}
			if r.Intn(3) == 0 {
				k = &c05Pred{Op: "cmp", ColType: "str", Pinned: true, Ref: c05P("s"), Cmp: pick(r, []string{"!=", ">=", "<="}), Lit: c05StrLit(pick(r, []string{"a", "c", "zz"}), "plain")}
			}
			kids = append(kids, k)
		}
		r.Shuffle(len(kids), func(i, j int) { kids[i], kids[j] = kids[j], kids[i] })
		for _, k := range kids {
			k.RefKind = k.Ref.Kind()
		}
		st.Where = &c05Pred{Op: "AND", Kids: kids}
	} else if looseAtoms > 0 || r.Intn(10) < 8 {
		depth := pick(r, []int{0, 0, 0, 1, 1, 1, 2, 2, 3})
		before := looseAtoms
		st.Where = c05GenPred(r, depth, &looseAtoms)
		if before > 0 && looseAtoms == before {
			// no loose atom was placed: AND one in
			st.Where = &c05Pred{Op: pick(r, []string{"AND", "OR"}), Kids: []*c05Pred{st.Where, c05GenAtom(r, true)}}
		}
		for _, a := range c05Atoms(st.Where, nil) {
			if a.Loose != "" {
				st.Loose = append(st.Loose, "where:"+a.Loose)
			}
		}
	}
	st.render(r)
	return st
}

// features summarises the statement for violation attributes.
func (s *c05Stmt) whereOps() string {
	ops := map[string]bool{}
	for _, a := range c05Atoms(s.Where, nil) {
		switch a.Op {
		case "isnull":
			ops["IS NULL"] = true
		case "notnull":
			ops["IS NOT NULL"] = true
		default:
			ops[a.Cmp] = true
		}
	}
	var walk func(p *c05Pred)
	walk = func(p *c05Pred) {
		if p == nil {
			return
		}
		if p.Op == "AND" || p.Op == "OR" {
			ops[p.Op] = true
			for _, k := range p.Kids {
				walk(k)
			}
		}
	}
	walk(s.Where)
	return c05SetStr(ops)
}

func (s *c05Stmt) itemKinds() string {
	ks := map[string]bool{}
	for _, it := range s.Items {
		ks[it.Kind] = true
	}
	return c05SetStr(ks)
}

// ---- rows ----------------------------------------------------------------------------------------

func c05GenNum(r *rand.Rand, floaty int) any {
	// floaty: 0 = ints, 1 = mixed, 2 = floats
	isFloat := floaty == 2 || (floaty == 1 && r.Intn(2) == 0)
	if isFloat {
		v := float64(r.Intn(12)-2) + pick(r, []float64{0, 0.5, 0.5, 0.25})
		if r.Intn(10) == 0 {
			return float32(v)
		}
		return v
	}
	v := r.Intn(12) - 2
	switch r.Intn(10) {
	case 0:
		return int64(v)
	case 1:
		return int32(v)
	}
	return v
}

// c05Put stores a generated scalar with NULL / missing variants.
func c05Put(r *rand.Rand, row map[string]any, key string, gen func() any) {
	switch r.Intn(12) {
	case 0:
		row[key] = nil
	case 1:
		// missing
	default:
		row[key] = gen()
	}
}

func c05GenRow(r *rand.Rand, id int, profile string) Row {
	row := Row{"id": id}
	c05Put(r, row, "a", func() any { return c05GenNum(r, 0) })
	c05Put(r, row, "b", func() any { return c05GenNum(r, 1) })
	c05Put(r, row, "f", func() any { return c05GenNum(r, 2) })
	c05Put(r, row, "s", func() any { return pick(r, c05StrVals) })
	c05Put(r, row, "t", func() any { return r.Intn(2) == 0 })
	c05Put(r, row, "big", func() any {
		return pick(r, []any{int64(1) << 53, -(int64(1) << 53), int64(1) << 60, int64(9007199254740993), int(1700000000123456789), int64(-1234567890123456789), uint64(1) << 62})
	})
	c05Put(r, row, "m", func() any {
		return pick(r, []any{5, 3.5, "5", "abc", "x", true, false, int64(2), "", 0})
	})
	if profile == "nested" || profile == "all" {
		switch r.Intn(12) {
		case 0: // missing
		case 1:
			row["o"] = nil
		case 2:
			row["o"] = pick(r, []any{"notamap", 7, true})
		default:
			o := map[string]any{}
			c05Put(r, o, "n", func() any { return c05GenNum(r, 1) })
			c05Put(r, o, "s", func() any { return pick(r, c05StrVals) })
			switch r.Intn(8) {
			case 0: // missing
			case 1:
				o["p"] = nil
			case 2:
				o["p"] = pick(r, []any{"leaf", 3})
			default:
				p := map[string]any{}
				c05Put(r, p, "q", func() any { return c05GenNum(r, 1) })
				c05Put(r, p, "r", func() any { return pick(r, c05StrVals) })
				switch r.Intn(5) {
				case 0:
				case 1:
					p["z"] = nil
				default:
					z := map[string]any{}
					c05Put(r, z, "w", func() any { return c05GenNum(r, 1) })
					p["z"] = z
				}
				o["p"] = p
			}
			row["o"] = o
		}
	}
	if profile == "arrays" || profile == "all" {
		switch k := r.Intn(20); {
		case k == 0: // missing
		case k == 1:
			row["arr"] = nil
		case k == 2:
			if r.Intn(3) == 0 {
				row["arr"] = "notarr"
			}
		case k == 3:
			n := r.Intn(4)
			a := make([]int, n)
			for i := range a {
				a[i] = r.Intn(12) - 2
			}
			row["arr"] = a
		case k == 4:
			n := r.Intn(4)
			a := make([]float64, n)
			for i := range a {
				a[i] = float64(r.Intn(12)) + 0.5
			}
			row["arr"] = a
		default:
			n := r.Intn(5)
			a := make([]any, n)
			for i := range a {
				if r.Intn(10) == 0 {
					a[i] = nil
				} else {
					a[i] = c05GenNum(r, 1)
				}
			}
			row["arr"] = a
		}
		elem := func() map[string]any {
			e := map[string]any{}
			c05Put(r, e, "x", func() any { return c05GenNum(r, 1) })
			c05Put(r, e, "y", func() any { return pick(r, c05StrVals) })
			return e
		}
		switch k := r.Intn(12); {
		case k == 0:
		case k == 1:
			row["am"] = nil
		case k == 2:
			n := r.Intn(4)
			a := make([]map[string]any, n)
			for i := range a {
				a[i] = elem()
			}
			row["am"] = a
		default:
			n := r.Intn(4)
			a := make([]any, n)
			for i := range a {
				switch r.Intn(10) {
				case 0:
					a[i] = nil
				case 1:
					a[i] = pick(r, []any{"scalar", 4})
				default:
					a[i] = elem()
				}
			}
			row["am"] = a
		}
	}
	return row
}

// c05Copy deep-copies a generated row (every container type the generator uses).
func c05Copy(v any) any {
	switch x := v.(type) {
	case map[string]any:
		out := make(map[string]any, len(x))
		for k, e := range x {
			out[k] = c05Copy(e)
		}
		return out
	case []any:
		out := make([]any, len(x))
		for i, e := range x {
			out[i] = c05Copy(e)
		}
		return out
	case []map[string]any:
		out := make([]map[string]any, len(x))
		for i, e := range x {
			out[i] = c05Copy(e).(map[string]any)
		}
		return out
	case []int:
		return append([]int{}, x...)
	case []float64:
		return append([]float64{}, x...)
	}
	return v
}

func c05GenRows(r *rand.Rand, n int) ([]Row, string) {
	profile := pick(r, []string{"flat", "nested", "arrays", "all", "all", "all"})
	rows := make([]Row, n)
	for i := range rows {
		rows[i] = c05GenRow(r, i+1, profile)
	}
	if r.Intn(10) < 4 && n >= 4 {
		for k := 0; k < 1+r.Intn(3); k++ {
			j := 1 + r.Intn(n-1)
			i := r.Intn(j)
			cp := c05Copy(rows[i]).(map[string]any)
			cp["id"] = j + 1
			rows[j] = cp
		}
	}
	return rows, profile
}
