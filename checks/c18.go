package checks

import (
	"encoding/json"
	"fmt"
	"math/rand"
	"regexp"
	"runtime"
	"strings"
	"sync"
	"sync/atomic"
	"time"

	"github.com/rulego/streamsql"
	"github.com/rulego/streamsql/functions"

	"verif/internal/core"
	"verif/internal/eng"
	"verif/internal/sched"
)

// C18 — lifecycle operations are safe under any interleaving and Stop is a barrier.

func init() { register(&Check{ID: "C18", Race: true, Run: runC18, Child: childC18}) }

var c18Queries = []struct{ Name, SQL string }{
	{"direct", "SELECT id, v, v * 2 AS d FROM stream WHERE v >= 0"},
	{"direct_vpanic", "SELECT id, vpanic(v) AS d FROM stream"},
	{"analytic", "SELECT id, k, lag(v) OVER (PARTITION BY k) AS pv, acc_sum(v) OVER (PARTITION BY k) AS tot, lag(v) OVER (PARTITION BY k WHEN v > 10) AS gv FROM stream"},
	{"cep", "SELECT * FROM stream MATCH_RECOGNIZE (ORDER BY ts MEASURES MATCH_NUMBER() AS mn, COUNT(*) AS n, FIRST(A.id) AS fid ONE ROW PER MATCH PATTERN (A+) DEFINE A AS v > 0)"},
	{"tumbling_pt", "SELECT k, count(*) AS c, sum(v) AS s FROM stream GROUP BY k, TumblingWindow('20ms')"},
	{"tumbling_et", "SELECT k, count(*) AS c, sum(v) AS s FROM stream GROUP BY k, TumblingWindow('1s') WITH (TIMESTAMP='ts', TIMEUNIT='ms', MAXOUTOFORDERNESS='200ms', ALLOWEDLATENESS='1s')"},
	{"sliding_pt", "SELECT k, count(*) AS c FROM stream GROUP BY k, SlidingWindow('40ms','20ms')"},
	{"sliding_et", "SELECT k, count(*) AS c FROM stream GROUP BY k, SlidingWindow('2s','1s') WITH (TIMESTAMP='ts', TIMEUNIT='ms', ALLOWEDLATENESS='2s')"},
	{"session_pt", "SELECT k, count(*) AS c FROM stream GROUP BY k, SessionWindow('20ms')"},
	{"session_et", "SELECT k, count(*) AS c FROM stream GROUP BY k, SessionWindow('1s') WITH (TIMESTAMP='ts', TIMEUNIT='ms', ALLOWEDLATENESS='1s')"},
	{"counting", "SELECT k, count(*) AS c, sum(v) AS s FROM stream GROUP BY k, CountingWindow(3)"},
	{"global", "SELECT k, count(*) AS c, max(v) AS m FROM stream GROUP BY k, GLOBAL WINDOW TRIGGER WHEN count(*) >= 4"},
}

type c18Batch struct {
	core.CaseRef
	Query     string `json:"query"`
	SQL       string `json:"sql"`
	Strategy  string `json:"strategy"`
	Sink      string `json:"sink"` // fast | slow | panicking | reentrant | blocking
	Producers int    `json:"producers"`
	StopAtMs  int    `json:"stop_after_ms"`
	Rows      int    `json:"rows_per_producer"`
	SchedSeed int64  `json:"sched_seed"`
	Mode      string `json:"mode"`             // chaos | survival | flush
	BlockMs   int    `json:"block_timeout_ms"` // block strategy: 0 = wait without timeout
}

func genC18(ref core.CaseRef, r *rand.Rand) *c18Batch {
	b := &c18Batch{CaseRef: ref}
	q := c18Queries[ref.Index%len(c18Queries)]
	b.Query, b.SQL = q.Name, q.SQL
	if q.Name == "sliding_pt" && (ref.Index/len(c18Queries))%2 == 1 {
		// a window far longer than the batch: Stop arrives before the first window ends, and nothing of the
		// window may outlive it
		b.SQL = strings.Replace(b.SQL, "'40ms','20ms'", "'60s','20ms'", 1)
	}
	b.Strategy = []string{"drop", "block", "expand"}[(ref.Index/len(c18Queries))%3]
	b.Sink = pick(r, []string{"fast", "fast", "slow", "panicking", "reentrant", "blocking"})
	b.Producers = 2 + r.Intn(3)
	b.StopAtMs = r.Intn(60)
	b.Rows = 200 + r.Intn(1500)
	b.SchedSeed = r.Int63()
	b.Mode = "chaos"
	if b.Strategy == "block" {
		b.BlockMs = pick(r, []int{0, 0, 2})
		if b.BlockMs == 0 && b.Sink == "reentrant" {
			// a sink that re-emits into a full bounded queue under block-without-timeout cannot be satisfied
			b.BlockMs = 2
		}
	}
	if b.Strategy == "block" && ref.Index%12 >= 4 && ref.Index%2 == 1 {
		// window queries: a block timeout far beyond Stop's grace period behind a slow or blocked sink (the
		// 2-slot window output fills up): Stop must not wait for that timeout anywhere
		b.BlockMs = 300000
		if (ref.Index/(3*len(c18Queries)))%2 == 1 {
			b.BlockMs = 0 // ... or no timeout at all: producers parked in Emit are released by Stop
		}
		b.Sink = pick(r, []string{"slow", "blocking"})
	}
	if ref.Index%11 == 7 || q.Name == "direct_vpanic" || (ref.Index%5 == 1 && (q.Name == "counting" || q.Name == "global" || q.Name == "direct")) {
		b.Mode = "survival"
		b.Strategy = "block"
		b.BlockMs = 0 // block without a timeout never drops, so every surviving row is owed to the recorder
		if b.Sink != "fast" {
			// (a sink that re-emits into a full bounded queue under block-without-timeout cannot be satisfied)
			b.Sink = "panicking"
		}
	}
	if ref.Index%12 == 0 || ref.Index%12 == 2 { // direct / analytic queries
		if ref.Index%24 < 12 {
			b.Mode = "syncstop"
			b.Strategy = pick(r, []string{"drop", "block", "expand"})
			b.Sink = "slow"
			b.BlockMs = 2
		}
	}
	if q.Name == "cep" && r.Intn(2) == 0 && ref.Index%24 != 3 {
		b.Mode = "flush"
		b.Strategy = "block"
		b.Sink = "fast"
	}
	if q.Name == "cep" && (b.Mode == "survival" || ref.Index%24 == 3) && b.Mode != "flush" {
		// a row function that panics inside DEFINE: the panic must not wedge the pattern engine (later rows are
		// processed, Stop returns and flushes)
		b.Mode, b.Strategy, b.BlockMs = "survival", "block", 0
		b.Query = "cep_vpanic"
		b.SQL = "SELECT * FROM stream MATCH_RECOGNIZE (ORDER BY ts MEASURES MATCH_NUMBER() AS mn, COUNT(*) AS n, FIRST(A.id) AS fid ONE ROW PER MATCH PATTERN (A+ B) DEFINE A AS vpanic(v) > 0, B AS v > 40)"
		if b.Sink != "fast" {
			b.Sink = "panicking"
		}
	}
	return b
}

func runC18(ctx *core.Ctx) {
	ctx.SetRule("batch = (one of 12 queries covering direct, analytic, CEP, tumbling/sliding/session × {processing, event time}, counting, global) × {drop, block, expand} × sink behaviour {fast, slow, panicking, re-entrant, blocking forever}, 2-4 producers (Emit and EmitSync), a statistics/TriggerWindow reader, a sink registrar and two Stop callers on a PRNG schedule with yield-point perturbation, each in its own child process under the race detector; plus survival batches (panicking row function / panicking sink) and CEP Stop-flush batches. " +
		"non-trivial = Stop overlapped at least one in-flight Emit or sink call; distinct by batch hash")
	ctx.Assume("a hang is declared only when the 120 s watchdog (24× Stop's own grace) fires and the dump shows engine frames; it is re-run before being reported",
		"sink-after-Stop is decided by an atomic flag set only after Stop returned (sound); batches with a sink that blocks forever are exempt from that clause and from goroutine accounting until the sink is released",
		"engine goroutines get 200 polls × 10 ms to unwind after Stop before they count as leaked")
	n := ctx.N(72, 1500)
	ctx.Cases("c18", n, workers(), func(i int, r *rand.Rand) {
		b := genC18(core.CaseRef{Stream: "c18", Index: i}, r)
		if ctx.Replay != "" {
			raw, _ := json.Marshal(b)
			childC18(ctx, raw)
			return
		}
		attrs := map[string]string{"query": b.Query, "strategy": b.Strategy, "sink": b.Sink, "mode": b.Mode}
		out := ctx.RunChild(b, 120*time.Second)
		if out.TimedOut {
			// deadlock has no other observable than time: re-run twice before reporting
			again := 0
			for k := 0; k < 2; k++ {
				if o2 := ctx.RunChild(b, 120*time.Second); o2.TimedOut {
					again++
				}
			}
			if again == 2 && strings.Contains(out.Log, "rulego/streamsql/") {
				ctx.Violate(core.Violation{Kind: "lifecycle.hang", Attrs: attrs, Detail: "batch hung 3 times out of 3 (watchdog 120 s); goroutine dump of the first:\n" + out.Log, Case: b})
			} else {
				ctx.Inconclusive("watchdog fired but the hang did not reproduce")
			}
			return
		}
		if strings.Contains(out.Log, "fatal error:") || strings.Contains(out.Log, "\npanic:") || strings.HasPrefix(out.Log, "panic:") {
			ctx.Violate(core.Violation{Kind: "lifecycle.process_died", Attrs: attrs, Detail: "the process died:\n" + out.Log, Case: b})
			return
		}
		if out.Result == nil {
			ctx.Violate(core.Violation{Kind: "lifecycle.process_died", Attrs: attrs, Detail: fmt.Sprintf("child exit %d without result:\n%s", out.ExitCode, out.Log), Case: b})
			return
		}
		ctx.Merge(out.Result)
	})
}

var c18Once sync.Once

func c18RegisterFns() {
	c18Once.Do(func() {
		_ = functions.RegisterCustomFunction("vpanic", functions.TypeCustom, "verif", "panics on marker rows", 1, 1,
			func(ctx *functions.FunctionContext, args []any) (any, error) {
				if f, ok := toF(args[0]); ok && f == 666 {
					panic("vpanic marker row")
				}
				return args[0], nil
			})
	})
}

var streamsqlFrame = regexp.MustCompile(`github\.com/rulego/streamsql[/.(]`)

// engineGoroutines counts goroutines with a streamsql frame that are not harness goroutines.
func engineGoroutines() (int, string) {
	buf := make([]byte, 4<<20)
	n := runtime.Stack(buf, true)
	count := 0
	var sample string
	for _, g := range strings.Split(string(buf[:n]), "\n\n") {
		if !streamsqlFrame.MatchString(g) {
			continue
		}
		if strings.Contains(g, "verif/checks.") || strings.Contains(g, "verif/internal/") {
			continue // a harness goroutine currently inside an engine call
		}
		count++
		if sample == "" {
			sample = g
		}
	}
	return count, sample
}

func childC18(ctx *core.Ctx, raw []byte) {
	var b c18Batch
	if err := json.Unmarshal(raw, &b); err != nil {
		ctx.Inconclusive("bad batch")
		return
	}
	c18RegisterFns()
	attrs := map[string]string{"query": b.Query, "strategy": b.Strategy, "sink": b.Sink, "mode": b.Mode}
	viol := func(kind, detail string) {
		ctx.Violate(core.Violation{Kind: kind, Attrs: attrs, Detail: detail + "\n  sql: " + b.SQL, Case: &b})
	}
	before, _ := engineGoroutines()
	sched.Seed(b.SchedSeed)
	sched.Set(&sched.Perturb{Prob: map[string]float64{"stop.": 0.5, "sink.": 0.05, "expand.": 0.2, "proc.chan_read": 0.01,
		"tumbling.": 0.02, "sliding.": 0.02, "session.": 0.02, "counting.": 0.01, "send.before_rlock": 0.01}, MaxSleep: 500 * time.Microsecond})
	sched.Trace(true)
	s, err := eng.New(b.SQL, eng.Opts{Strategy: b.Strategy, DataChan: 4, ResultChan: 2, WindowOut: 2, MaxBuffer: 64, SinkPool: 2, SinkWorkers: 2,
		BlockTimeout: time.Duration(b.BlockMs) * time.Millisecond})
	if err != nil {
		viol("lifecycle.execute_error", err.Error())
		return
	}
	var stopped int32    // set only AFTER Stop() returned
	var stopCalled int32 // set before Stop() is called
	var sinkCalls, sinkAfterStop, inSink, overlapSink, overlapEmit, inEmit int64
	var afterStopDetail atomic.Value
	release := make(chan struct{})
	var releaseOnce sync.Once
	doRelease := func() { releaseOnce.Do(func() { close(release) }) }
	var delivered sync.Map // id -> true (survival / flush)
	var nDelivered int64
	var recorderRows int64 // result rows seen by the synchronous recorder sink
	var panicCalls int64
	enter := func(name string, batch []map[string]any) {
		atomic.AddInt64(&sinkCalls, 1)
		if atomic.LoadInt32(&stopped) == 1 {
			atomic.AddInt64(&sinkAfterStop, 1)
			afterStopDetail.Store(fmt.Sprintf("sink %s invoked with %d rows after Stop() had returned", name, len(batch)))
		}
		if name == "sync-recorder" {
			atomic.AddInt64(&recorderRows, int64(len(batch)))
		}
		for _, row := range batch {
			atomic.AddInt64(&nDelivered, 1)
			if id, ok := toI(row["id"]); ok {
				delivered.Store(id, true)
			}
		}
	}
	mkSink := func(kind, name string) func([]map[string]any) {
		return func(batch []map[string]any) {
			atomic.AddInt64(&inSink, 1)
			defer atomic.AddInt64(&inSink, -1)
			enter(name, batch)
			switch kind {
			case "slow":
				time.Sleep(300 * time.Microsecond)
			case "panicking":
				if atomic.AddInt64(&panicCalls, 1)%3 == 0 {
					panic("sink panic (every third invocation)")
				}
				for _, row := range batch {
					if v, ok := toF(row["v"]); ok && v == 667 {
						panic("sink marker panic")
					}
					if c, ok := toF(row["c"]); ok && int(c)%5 == 0 {
						panic("sink panic")
					}
				}
			case "reentrant":
				_ = s.GetStats()
				s.Emit(Row{"id": -5, "k": "re", "v": 1, "ts": baseTs})
				s.AddSink(func([]map[string]any) {})
			case "blocking":
				<-release
			}
		}
	}
	if b.Mode == "flush" && b.Index%2 == 1 {
		// faulty sinks registered in front of the recorder: the matches flushed at Stop still reach the recorder
		s.AddSink(func([]map[string]any) { panic("faulty asynchronous sink in front of the recorder") })
		s.AddSyncSink(func([]map[string]any) { panic("faulty synchronous sink in front of the recorder") })
		ctx.Count("flush_batches_with_faulty_sinks_in_front", 1)
	}
	s.AddSyncSink(mkSink("fast", "sync-recorder"))
	asyncKind := b.Sink
	if b.Sink == "panicking" {
		// slow asynchronous sinks in front of the panicking one keep the two sink workers and their queue busy,
		// so some of the panicking sink's invocations are dispatched while the pool is saturated
		for k := 1; k <= 3; k++ {
			s.AddSink(mkSink("slow", fmt.Sprintf("async-slow-%d", k)))
		}
	}
	s.AddSink(mkSink(asyncKind, "async-"+asyncKind))
	if b.Sink == "panicking" || b.Sink == "reentrant" {
		s.AddSyncSink(mkSink(b.Sink, "sync-"+b.Sink))
	}
	if b.Sink == "slow" {
		// several slow synchronous sinks: an EmitSync caught by Stop between two of them must still be joined
		s.AddSyncSink(mkSink("slow", "sync-slow-1"))
		s.AddSyncSink(mkSink("slow", "sync-slow-2"))
		s.AddSyncSink(mkSink("fast", "sync-after-slow"))
	}

	mkRow := func(p, j int) Row {
		v := (p*7+j)%50 + 1
		// event time: blocks of 20 rows 40 ms apart, the next block 1.2 s after the last row of the previous one
		// (the 1 s windows and sessions of the block before have fired and are still within their allowed
		// lateness); every block sends two rows back into the previous block, which re-emit a fired window while
		// the on-time rows around them keep the watermark moving
		blk, off := int64(j/20), int64(j%20)
		ts := baseTs + blk*1960 + off*40
		if blk > 0 && (off == 3 || off == 11) {
			ts = baseTs + (blk-1)*1960 + 19*40 + 100
		}
		return Row{"id": p*1000000 + j, "k": plainKeys[(p+j)%3], "v": v, "ts": ts}
	}
	switch b.Mode {
	case "syncstop":
		s.Stop() // the instance created above is not used: this mode runs several short-lived instances
		c18SyncStop(ctx, &b, viol)
	case "survival":
		c18Survival(ctx, &b, s, viol, &delivered, &recorderRows)
	case "flush":
		c18Flush(ctx, &b, s, viol, &recorderRows, &stopped)
	default:
		var wg sync.WaitGroup
		isDirect := !s.IsAggregationQuery() && !s.IsCEPQuery()
		for p := 0; p < b.Producers; p++ {
			wg.Add(1)
			go func(p int) {
				defer wg.Done()
				defer func() {
					if r := recover(); r != nil {
						viol("lifecycle.panic_in_api", fmt.Sprintf("producer %d: Emit/EmitSync panicked: %v", p, r))
					}
				}()
				for j := 0; j < b.Rows; j++ {
					atomic.AddInt64(&inEmit, 1)
					if isDirect && (p == 0 && j%3 == 0 || p == 1 && j%2 == 0) {
						_, _ = s.EmitSync(mkRow(p, j))
					} else {
						s.Emit(mkRow(p, j))
					}
					atomic.AddInt64(&inEmit, -1)
					if j%64 == 0 {
						runtime.Gosched()
					}
				}
			}(p)
		}
		wg.Add(1)
		go func() { // statistics / trigger reader
			defer wg.Done()
			defer func() {
				if r := recover(); r != nil {
					viol("lifecycle.panic_in_api", fmt.Sprintf("GetStats/GetDetailedStats/TriggerWindow panicked: %v", r))
				}
			}()
			for i := 0; i < 400; i++ {
				_ = s.GetStats()
				_ = s.GetDetailedStats()
				if i%5 == 0 {
					s.TriggerWindow()
				}
				time.Sleep(100 * time.Microsecond)
			}
		}()
		wg.Add(1)
		go func() { // sink registrar
			defer wg.Done()
			defer func() {
				if r := recover(); r != nil {
					viol("lifecycle.panic_in_api", fmt.Sprintf("AddSink/AddSyncSink panicked: %v", r))
				}
			}()
			for i := 0; i < 20; i++ {
				s.AddSink(mkSink("fast", fmt.Sprintf("late-async-%d", i)))
				if i%4 == 0 {
					s.AddSyncSink(mkSink("fast", fmt.Sprintf("late-sync-%d", i)))
				}
				time.Sleep(time.Duration(b.StopAtMs*50+100) * time.Microsecond)
			}
		}()
		var stopDur [2]time.Duration
		var swg sync.WaitGroup
		for k := 0; k < 2; k++ {
			swg.Add(1)
			go func(k int) {
				defer swg.Done()
				defer func() {
					if r := recover(); r != nil {
						viol("lifecycle.panic_in_api", fmt.Sprintf("Stop #%d panicked: %v", k+1, r))
					}
				}()
				time.Sleep(time.Duration(b.StopAtMs+k*2) * time.Millisecond)
				atomic.StoreInt32(&stopCalled, 1)
				if atomic.LoadInt64(&inEmit) > 0 {
					atomic.AddInt64(&overlapEmit, 1)
				}
				if atomic.LoadInt64(&inSink) > 0 {
					atomic.AddInt64(&overlapSink, 1)
				}
				t0 := time.Now()
				s.Stop()
				stopDur[k] = time.Since(t0)
				if b.Sink != "blocking" {
					atomic.StoreInt32(&stopped, 1)
				}
			}(k)
		}
		// both Stop calls must return even while a sink blocks forever (bounded by the parent's watchdog);
		// only then are blocked sinks released, so that producers stuck inside such a sink can finish
		swg.Wait()
		if b.Sink == "blocking" {
			doRelease()
		}
		// Stop returned: every API call still in flight must come back (a producer blocked by
		// back-pressure is released by Stop).  Microseconds are expected; 30 s is the watchdog.
		allBack := make(chan struct{})
		go func() { wg.Wait(); close(allBack) }()
		select {
		case <-allBack:
		case <-time.After(30 * time.Second):
			viol("lifecycle.call_blocked_after_stop", fmt.Sprintf("30 s after Stop returned, Emit/EmitSync/GetStats/AddSink calls were still blocked (calls inside Emit: %d; strategy %s, block timeout %dms)", atomic.LoadInt64(&inEmit), b.Strategy, b.BlockMs))
			doRelease()
			return
		}
		ctx.Max("max.stop_duration_ms", max64(stopDur[0].Milliseconds(), stopDur[1].Milliseconds()))
		// Emit after Stop: silent no-op
		callsBefore := atomic.LoadInt64(&sinkCalls)
		func() {
			defer func() {
				if r := recover(); r != nil {
					viol("lifecycle.emit_after_stop_panics", fmt.Sprintf("Emit after Stop panicked: %v", r))
				}
			}()
			for j := 0; j < 20; j++ {
				s.Emit(mkRow(9, j))
			}
			s.Stop() // third Stop: idempotent
		}()
		time.Sleep(20 * time.Millisecond)
		if b.Sink != "blocking" {
			if n := atomic.LoadInt64(&sinkCalls) - callsBefore; n > 0 {
				viol("lifecycle.emit_after_stop_has_effect", fmt.Sprintf("%d sink calls were caused by Emit calls issued after Stop returned", n))
			}
		}
	}
	doRelease()
	if n := atomic.LoadInt64(&sinkAfterStop); n > 0 && b.Sink != "blocking" {
		d, _ := afterStopDetail.Load().(string)
		viol("lifecycle.sink_after_stop", fmt.Sprintf("%d sink invocations started after Stop() had returned; last: %s", n, d))
	}
	// goroutine accounting with a settle period
	left, sample := 0, ""
	for i := 0; i < 200; i++ {
		left, sample = engineGoroutines()
		if left <= before {
			break
		}
		time.Sleep(10 * time.Millisecond)
	}
	if left > before {
		viol("lifecycle.goroutine_leak", fmt.Sprintf("%d engine goroutines still alive 2 s after Stop returned (and after blocked sinks were released); one of them:\n%s", left-before, sample))
	}
	h, np := sched.Trace(false)
	sched.Set(nil)
	ctx.Count("sink_calls", atomic.LoadInt64(&sinkCalls))
	ctx.Count("stop_overlapped_emit", atomic.LoadInt64(&overlapEmit))
	ctx.Count("stop_overlapped_sink", atomic.LoadInt64(&overlapSink))
	ctx.Count("hook_points_hit", int64(np))
	ctx.Count("perturbation_actions", sched.Acted())
	ctx.Count("mode."+b.Mode, 1)
	ctx.Count("query."+b.Query, 1)
	ctx.Distinct(fmt.Sprintf("trace-%x", h))
	raw2, _ := json.Marshal(b)
	nontrivial := atomic.LoadInt64(&overlapEmit)+atomic.LoadInt64(&overlapSink) > 0 || b.Mode != "chaos"
	var sample2 any
	if b.Index < 4 {
		sample2 = map[string]any{"batch": b, "sink_calls": sinkCalls, "hook_points": np, "trace_hash": fmt.Sprintf("%x", h)}
	}
	ctx.Case(string(raw2), nontrivial, sample2)
}

// c18Survival: a panicking row (custom function) and a panicking sink must not stop later rows.
func c18Survival(ctx *core.Ctx, b *c18Batch, s *streamsql.Streamsql, viol func(string, string), delivered *sync.Map, recorderRows *int64) {
	direct := !s.IsAggregationQuery() && !s.IsCEPQuery()
	n := 300
	marker := map[int]bool{40: true, 41: true, 150: true}
	for j := 0; j < n; j++ {
		v := j%50 + 1
		if marker[j] {
			if b.Query == "direct_vpanic" || b.Query == "cep_vpanic" {
				v = 666 // the row function panics
			} else {
				v = 667 // the panicking sink panics on this value (direct queries project v)
			}
		}
		func() {
			defer func() {
				if r := recover(); r != nil {
					viol("lifecycle.panic_reaches_caller", fmt.Sprintf("Emit of row %d let a panic escape to the caller: %v", j, r))
				}
			}()
			s.Emit(Row{"id": j, "k": plainKeys[j%3], "v": v, "ts": baseTs + int64(j)*40})
		}()
	}
	if !direct {
		// windowed queries: no panic reaches the caller, and the instance keeps delivering: for the two window
		// kinds whose results follow from the rows alone (block strategy without a timeout never drops) every
		// result is owed to the recorder sink although the sinks next to it keep panicking
		owed := int64(0)
		switch b.Query {
		case "counting":
			owed = 3 * int64(n/3/3) // CountingWindow(3), three keys with n/3 rows each
		case "global":
			owed = 3 * int64(n/3/4) // fires at count(*) >= 4
		}
		if owed > 0 {
			deadline := time.Now().Add(20 * time.Second)
			for atomic.LoadInt64(recorderRows) < owed && time.Now().Before(deadline) {
				time.Sleep(5 * time.Millisecond)
			}
			if got := atomic.LoadInt64(recorderRows); got != owed {
				time.Sleep(300 * time.Millisecond)
				if got = atomic.LoadInt64(recorderRows); got != owed {
					viol("lifecycle.results_stop_after_sink_panic", fmt.Sprintf("%s query: %d results are owed to the recorder sink for %d rows, %d arrived while neighbouring sinks kept panicking (engine idle for 20 s)", b.Query, owed, n, got))
				}
			}
			ctx.Count("survival_window_results_checked", owed)
		}
		time.Sleep(150 * time.Millisecond)
		got := 0
		delivered.Range(func(_, _ any) bool { got++; return true })
		_ = got
		s.Stop()
		return
	}
	// direct query, block strategy: every non-marker row must be delivered to the sync recorder
	deadline := time.Now().Add(20 * time.Second)
	missing := []int{}
	for {
		missing = missing[:0]
		for j := 0; j < n; j++ {
			if marker[j] && b.Query == "direct_vpanic" {
				continue
			}
			if _, ok := delivered.Load(int64(j)); !ok {
				missing = append(missing, j)
			}
		}
		if len(missing) == 0 || time.Now().After(deadline) {
			break
		}
		time.Sleep(5 * time.Millisecond)
	}
	if len(missing) > 0 {
		viol("lifecycle.rows_after_panic_not_processed", fmt.Sprintf("%d rows were never delivered after a panicking row/sink (first missing ids %v, markers at 40, 41, 150); the engine was idle for 20 s", len(missing), missing[:min(8, len(missing))]))
	}
	ctx.Count("survival_rows_checked", int64(n))
	s.Stop()
}

// c18Flush: an unfinished accepting CEP run must be delivered before Stop returns.
func c18Flush(ctx *core.Ctx, b *c18Batch, s *streamsql.Streamsql, viol func(string, string), nDelivered *int64, stopped *int32) {
	for j := 0; j < 25; j++ {
		s.Emit(Row{"id": j, "k": "a", "v": 5, "ts": baseTs + int64(j)*10}) // all rows satisfy A: the run never closes
	}
	for i := 0; i < 4000 && s.GetStats()["data_chan_len"] != 0; i++ {
		time.Sleep(500 * time.Microsecond)
	}
	time.Sleep(30 * time.Millisecond) // the row taken last is being processed
	before := atomic.LoadInt64(nDelivered)
	s.Stop()
	after := atomic.LoadInt64(nDelivered) // read immediately: the flush must already have been delivered
	atomic.StoreInt32(stopped, 1)
	if after == before && before == 0 {
		time.Sleep(300 * time.Millisecond)
		late := atomic.LoadInt64(nDelivered)
		viol("lifecycle.cep_flush_not_delivered_before_stop_returns", fmt.Sprintf("25 rows all matching A in PATTERN (A+): nothing had reached the recording sink when Stop returned (300 ms later: %d rows; faulty sinks registered in front of it: %v)", late, b.Index%2 == 1))
	}
	ctx.Count("flush_batches", 1)
	ctx.Count("flush_matches_delivered_at_stop", after)
}

// c18SyncStop: Stop must join EmitSync calls that are in flight.  Several short-lived instances; each has
// three slow synchronous sinks (so an EmitSync call spends most of its time between two sinks), callers
// that do nothing but EmitSync, and a Stop after a few milliseconds.  A flag is set only AFTER Stop
// returned; a sink entered after that is a violation.
func c18SyncStop(ctx *core.Ctx, b *c18Batch, viol func(string, string)) {
	rounds := 8
	var overlaps, after int64
	var detail atomic.Value
	for round := 0; round < rounds; round++ {
		s, err := eng.New(b.SQL, eng.Opts{Strategy: b.Strategy, DataChan: 4, ResultChan: 2, SinkPool: 2, SinkWorkers: 2, BlockTimeout: 2 * time.Millisecond})
		if err != nil {
			viol("lifecycle.execute_error", err.Error())
			return
		}
		var stopped int32
		var inSync int64
		for k := 0; k < 3; k++ {
			k := k
			s.AddSyncSink(func(batch []map[string]any) {
				if atomic.LoadInt32(&stopped) == 1 {
					atomic.AddInt64(&after, 1)
					detail.Store(fmt.Sprintf("synchronous sink #%d was entered (for row %v) after Stop() had returned: an EmitSync call in flight was not joined", k+1, batch[0]["id"]))
				}
				time.Sleep(200 * time.Microsecond)
			})
		}
		var wg sync.WaitGroup
		quit := make(chan struct{})
		for p := 0; p < 3; p++ {
			wg.Add(1)
			go func(p int) {
				defer wg.Done()
				defer func() { _ = recover() }()
				for j := 0; ; j++ {
					select {
					case <-quit:
						return
					default:
					}
					atomic.AddInt64(&inSync, 1)
					_, err := s.EmitSync(Row{"id": p*1000000 + j, "k": plainKeys[j%3], "v": j%50 + 1, "ts": baseTs + int64(j)})
					atomic.AddInt64(&inSync, -1)
					if err != nil && atomic.LoadInt32(&stopped) == 1 {
						return // EmitSync refuses after Stop
					}
				}
			}(p)
		}
		time.Sleep(time.Duration(2+round) * time.Millisecond)
		if atomic.LoadInt64(&inSync) > 0 {
			atomic.AddInt64(&overlaps, 1)
		}
		s.Stop()
		atomic.StoreInt32(&stopped, 1)
		time.Sleep(3 * time.Millisecond) // a call that was not joined is still between two slow sinks
		close(quit)
		wg.Wait()
	}
	if n := atomic.LoadInt64(&after); n > 0 {
		d, _ := detail.Load().(string)
		viol("lifecycle.sink_after_stop", fmt.Sprintf("%d sink invocations after Stop() had returned in %d rounds; %s", n, rounds, d))
	}
	ctx.Count("syncstop_rounds", int64(rounds))
	ctx.Count("stop_overlapped_emit", atomic.LoadInt64(&overlaps))
}
