// Package checks wires, per property, a workload to its oracle.
package checks

import (
	"encoding/json"
	"fmt"
	"os"

	"verif/internal/core"
)

// Check is one property's monitor.
type Check struct {
	ID    string
	Race  bool                              // build with -race
	Run   func(ctx *core.Ctx)               // parent entry point
	Child func(ctx *core.Ctx, batch []byte) // isolated batch entry point (optional)
}

// Registry maps property ids to checks; filled by init() of each cNN.go.
var Registry = map[string]*Check{}

func register(c *Check) { Registry[c.ID] = c }

// RunChild executes one isolated batch in this (child) process.
func RunChild(prop, caseFile, outFile string) int {
	c, ok := Registry[prop]
	if !ok || c.Child == nil {
		fmt.Fprintf(os.Stderr, "no child entry for %s\n", prop)
		return 2
	}
	b, err := os.ReadFile(caseFile)
	if err != nil {
		fmt.Fprintln(os.Stderr, err)
		return 2
	}
	var hdr struct {
		Seed int64  `json:"seed"`
		Tier string `json:"tier"`
	}
	_ = json.Unmarshal(b, &hdr)
	ctx := core.NewCtx(prop, hdr.Tier, hdr.Seed)
	ctx.Child = true
	c.Child(ctx, b)
	if err := ctx.ChildDump(outFile); err != nil {
		fmt.Fprintln(os.Stderr, err)
		return 2
	}
	return 0
}
