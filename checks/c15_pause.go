//go:build verif

package checks

import (
	"fmt"
	"math/rand"
	"time"

	"verif/internal/core"
	"verif/internal/eng"
)

// c15pause: streams ordered by a sequence number (1, 2, 3 ...) with an explicit short WITHIN and a producer that
// pauses inside a match for longer than that duration in wall-clock terms.  WITHIN is about the ORDER BY values,
// not about how long the producer took: the match is still reported.  (The pause is part of the workload; the
// verdict is the content delivered after Stop, which flushes.)

type c15PauseCase struct {
	core.CaseRef
	SQL  string `json:"sql"`
	Rows []Row  `json:"rows"`
}

func c15PauseStream(ctx *core.Ctx) {
	n := ctx.N(3, 24)
	ctx.Cases("c15pause", n, 8, func(i int, r *rand.Rand) {
		greedy := i%2 == 1
		pat, want := "(A B)", map[string]string{"x": "1..3", "y": "2..4"}
		if greedy {
			pat, want = "(A+ B)", map[string]string{"x": "1..5", "y": "2..6"}
		}
		c := &c15PauseCase{CaseRef: core.CaseRef{Stream: "c15pause", Index: i}}
		c.SQL = "SELECT * FROM stream MATCH_RECOGNIZE (PARTITION BY p ORDER BY ts MEASURES FIRST(A.id) AS fid, LAST(B.id) AS lid ONE ROW PER MATCH PATTERN " + pat + " WITHIN '200ms' DEFINE A AS v > 5, B AS v <= 5)"
		attrs := map[string]string{"pattern": pat, "order_by": "sequence_numbers", "within": "200ms", "producer_pause": "450ms"}
		viol := func(kind, detail string) {
			ctx.Violate(core.Violation{Kind: kind, Attrs: attrs, Detail: detail + "\n  sql: " + c.SQL, Case: c})
		}
		s, err := eng.New(c.SQL, eng.Opts{})
		if err != nil {
			viol("match.execute_error", err.Error())
			return
		}
		rec := eng.Attach(s)
		// two interleaved partitions; ids double as sequence numbers
		type ev struct {
			id int
			p  string
			v  int
		}
		seq := []ev{{1, "x", 9}, {2, "y", 8}}
		if greedy {
			seq = append(seq, ev{3, "x", 7}, ev{4, "y", 6})
			seq = append(seq, ev{5, "x", 1}, ev{6, "y", 2})
		} else {
			seq = append(seq, ev{3, "x", 1}, ev{4, "y", 2})
		}
		for k, e := range seq {
			row := Row{"id": e.id, "p": e.p, "ts": e.id, "v": e.v}
			c.Rows = append(c.Rows, row)
			rec.Emit(row)
			if k == 1 {
				time.Sleep(450 * time.Millisecond) // both partitions are in the middle of a match
			}
		}
		rec.WaitDeliveries(2, 3*time.Second)
		rec.Quiesce(3, 50*time.Millisecond, 3*time.Second)
		s.Stop()
		got := map[string]string{}
		for _, d := range rec.Deliveries() {
			for _, out := range d.Rows {
				p := "?" // ONE ROW PER MATCH delivers the measures only: the first row's id tells the partition
				if f, ok := toF(out["fid"]); ok {
					p = map[int]string{1: "x", 2: "y"}[int(f)]
				}
				got[p] += fmt.Sprintf("%v..%v", out["fid"], out["lid"])
			}
		}
		for p, w := range want {
			if got[p] != w {
				viol("match.omitted", fmt.Sprintf("partition %s: rows %s (sequence numbers as ORDER BY values, at most 4 apart, WITHIN '200ms') spell %s; expected the match %s, delivered %q (all deliveries: %v). The producer paused 450 ms inside the match.", p, core.J(c.Rows), pat, w, got[p], rec.Deliveries()))
				return
			}
		}
		ctx.Count("pause.matches_checked", int64(len(want)))
		ctx.Case(fmt.Sprintf("c15pause|%s|%d", pat, i), true, nil)
	})
}
