package checks

import (
	"fmt"
	"math/rand"
	"os"
	"sort"
	"strconv"
	"strings"
	"sync"

	"verif/internal/core"
	"verif/internal/eng"
)

// C06 — scalar expressions follow SQL arithmetic, comparison, logic, CASE and NULL rules.
//
// Streams of cases:
//   expr  generated expression × 12 typed rows: reference interpreter, layout/site invariance,
//         in-process history invariance (c06.go, c06_ast.go)
//   hist  sampled expressions evaluated in fresh child processes, one per "row presented first"
//         order (c06_hist.go)
//   func  direct sweep of the deterministic built-in scalar functions through SQL and through
//         functions.Get(name).Execute (c06_func.go)

func init() { register(&Check{ID: "C06", Run: runC06, Child: childC06}) }

func runC06(ctx *core.Ctx) {
	ctx.SetRule("expr: case = (expression AST of depth<=4 over 4 typed columns, 12 rows int/float/text/bool/NULL/absent) from PRNG(seed,index), " +
		"evaluated in 7 layouts/sites + 1 re-run; non-trivial = expression has an operator over a column and >=4 rows with a pinned reference " +
		"taking >=2 distinct values; func: case = (function, argument tuples), non-trivial = >=3 in-domain tuples compared with the reference; " +
		"hist: case = batch of expressions evaluated in one fresh child process per first-row order; distinct by (SQL, rows) hash")
	ctx.Assume(
		"comparison results are judged as TRUE vs not-true (false and NULL are both accepted as not-true, as the statement says)",
		"where Kleene logic and 'comparison with NULL is false' disagree (NOT over an unknown), only invariance is checked",
		"text/bool operands in arithmetic, string ordering, NULL arguments of ordinary functions, exact rounding ties: invariance and absence of panic only",
		"column names are unique per case so that the engine's process-wide caches (keyed by expression text) see a history the case controls",
		"history invariance: in-process re-run for every case; fresh child process per first-row order for the 'hist' sample",
	)
	c06Expr(ctx)
	c06StrOrd(ctx)
	c06Func(ctx)
	c06Hist(ctx)
	c06Order(ctx)
}

// ---- running SQL against the real engine -----------------------------------------------------------

type c6Out struct {
	Res      Row
	Err      string
	Panic    string
	Filtered bool
}

// c6Run executes sql on a fresh instance and pushes rows (copies) through EmitSync in the given order.
func c6Run(sql string, rows []Row, order []int) (outs []c6Out, execErr error) {
	s, err := eng.New(sql, eng.Opts{})
	if err != nil {
		return nil, err
	}
	defer func() {
		defer func() { _ = recover() }()
		s.Stop()
	}()
	outs = make([]c6Out, len(rows))
	for _, i := range order {
		func() {
			defer func() {
				if p := recover(); p != nil {
					outs[i].Panic = fmt.Sprint(p)
				}
			}()
			cp := make(Row, len(rows[i]))
			for k, v := range rows[i] {
				cp[k] = eng.DeepCopy(v)
			}
			res, err := s.EmitSync(cp)
			if err != nil {
				outs[i].Err = err.Error()
				return
			}
			if res == nil {
				outs[i].Filtered = true
				return
			}
			outs[i].Res = res
		}()
	}
	return outs, nil
}

// c6Dump appends one line per reported violation to $VERIF_C06_DUMP (triage aid, off by default).
var c6DumpMu sync.Mutex

func c6Dump(sig, sql string) {
	p := os.Getenv("VERIF_C06_DUMP")
	if p == "" {
		return
	}
	c6DumpMu.Lock()
	defer c6DumpMu.Unlock()
	if f, err := os.OpenFile(p, os.O_APPEND|os.O_CREATE|os.O_WRONLY, 0o644); err == nil {
		fmt.Fprintf(f, "%s\t%s\n", sig, sql)
		f.Close()
	}
}

func c6Rot(n, k int) []int {
	o := make([]int, n)
	for i := range o {
		o[i] = (i + k) % n
	}
	return o
}

// c6Canon is the canonical form used for invariance comparison; boolish collapses false and NULL.
func c6Canon(o c6Out, mode string, boolish bool) string {
	if o.Panic != "" {
		return "panic"
	}
	if o.Err != "" {
		return "error"
	}
	if mode == "where" {
		if o.Filtered {
			return "rejected"
		}
		return "accepted"
	}
	if o.Filtered {
		return "filtered"
	}
	v := o.Res["r"]
	switch x := v.(type) {
	case nil:
		if boolish {
			return "nottrue"
		}
		return "nil"
	case bool:
		if x {
			return "true"
		}
		if boolish {
			return "nottrue"
		}
		return "false"
	case string:
		return "str:" + x
	}
	if f, ok := toF(v); ok {
		if f == 0 {
			f = 0 // -0 and 0 are the same number
		}
		return "num:" + strconv.FormatFloat(c6Round(f)+0, 'g', 12, 64)
	}
	return fmt.Sprintf("other:%T:%v", v, v)
}

func c6Round(f float64) float64 {
	s := strconv.FormatFloat(f, 'g', 12, 64)
	g, err := strconv.ParseFloat(s, 64)
	if err != nil {
		return f
	}
	return g
}

func c6GotClass(o c6Out, mode string) string {
	c := c6Canon(o, mode, false)
	if i := strings.IndexByte(c, ':'); i > 0 {
		return c[:i]
	}
	return c
}

// c6Judge compares one engine output with the reference value.  ok=true also for unpinned.
func c6Judge(ref c6V, o c6Out, mode string) (ok bool, what string) {
	if o.Panic != "" {
		return false, "panic"
	}
	if o.Err != "" {
		return false, "emit_error"
	}
	if mode == "where" {
		t, pinned := ref.truth()
		if !pinned {
			return true, ""
		}
		acc := !o.Filtered
		switch {
		case acc == t:
			return true, ""
		case acc && ref.t3 == 'U':
			return false, "null_operand_accepted"
		case acc:
			return false, "false_accepted"
		}
		return false, "true_rejected"
	}
	if o.Filtered {
		return false, "row_missing"
	}
	got := o.Res["r"]
	switch ref.k {
	case '?':
		return true, ""
	case '0':
		if got == nil {
			return true, ""
		}
		return false, "null_expected_got_value"
	case 'n':
		if got == nil {
			return false, "unexpected_null"
		}
		if _, isNum := toF(got); isNum && numEq(got, ref.f) {
			return true, ""
		}
		return false, "wrong_value"
	case 's':
		if got == nil {
			return false, "unexpected_null"
		}
		if s, isStr := got.(string); isStr && s == ref.s {
			return true, ""
		}
		return false, "wrong_value"
	case 'b':
		t, pinned := ref.truth()
		if !pinned {
			return true, ""
		}
		b, isBool := got.(bool)
		switch {
		case t && isBool && b:
			return true, ""
		case t && got == nil:
			return false, "unexpected_null"
		case t:
			return false, "true_expected"
		case got == nil || (isBool && !b):
			return true, ""
		case ref.t3 == 'U':
			return false, "null_operand_true"
		}
		return false, "false_expected"
	}
	return true, ""
}

// ---- variants (layout × site) -----------------------------------------------------------------------

type c6Variant struct {
	Name   string
	Layout c6Layout
	Mode   string // "value" | "where"
	AST    *c6Node
}

func (v c6Variant) sql() string {
	e := v.Layout.render(v.AST)
	if v.Mode == "where" {
		return "SELECT id FROM stream WHERE " + e
	}
	return "SELECT " + e + " AS r, id FROM stream"
}

var c6IdCol = &c6Node{K: c6Col, T: 'N', Op: "id"}

// c6InCase embeds a inside a CASE expression whose reference value is a function of a's.
func c6InCase(a *c6Node) *c6Node {
	if a.T == 'B' {
		return &c6Node{K: c6Case, T: 'N', HasElse: true, Args: []*c6Node{a, c6Lit(1), c6Lit(0)}}
	}
	return &c6Node{K: c6Case, T: a.T, Args: []*c6Node{
		{K: c6Cmp, T: 'B', Op: ">", Args: []*c6Node{c6IdCol, c6Lit(0)}}, a}}
}

// c6WherePred turns a into a predicate whose reference truth is known: a itself when boolean,
// a > k (k from the reference value) when numeric, a = 'v' when text.
func c6WherePred(a *c6Node, rows []Row, r *rand.Rand) *c6Node {
	switch a.T {
	case 'B':
		return a
	case 'N':
		vals := []float64{}
		for _, row := range rows {
			if v := c6Eval(a, row); v.k == 'n' {
				vals = append(vals, v.f)
			}
		}
		k := 1.0
		if len(vals) > 0 {
			sort.Float64s(vals)
			k = float64(int(vals[len(vals)/2])) // near the median, an integer literal
			if k < 0 {
				k = -k
			}
			if k > 1e6 {
				k = 1e6
			}
		}
		op := ">"
		if r != nil && r.Intn(2) == 0 {
			op = "<="
		}
		return &c6Node{K: c6Cmp, T: 'B', Op: op, Args: []*c6Node{a, c6Lit(k)}}
	}
	lit := "ab"
	for _, row := range rows {
		if v := c6Eval(a, row); v.k == 's' && !strings.ContainsAny(v.s, "'") {
			lit = v.s
			break
		}
	}
	op := "="
	if r != nil {
		op = pick(r, []string{"=", "=", "<=", ">=", "<", "!="}) // the literal equals some row's text: the boundary of every ordering
	}
	return &c6Node{K: c6Cmp, T: 'B', Op: op, Args: []*c6Node{a, {K: c6Str, T: 'S', S: lit}}}
}

// ---- the expr stream -----------------------------------------------------------------------------------

type c06Case struct {
	core.CaseRef
	Expr    string   `json:"expr"`
	Type    string   `json:"type"`
	Rows    []string `json:"rows"`
	SQL     string   `json:"sql,omitempty"`
	Row     string   `json:"row,omitempty"`
	Minimal string   `json:"minimal_sql,omitempty"`
}

func c06Expr(ctx *core.Ctx) {
	n := ctx.N(1500, 24000)
	ctx.Cases("expr", n, workers(), func(i int, r *rand.Rand) {
		c6ExprCase(ctx, i, r)
	})
}

func c6GenCase(tag string, i int, r *rand.Rand) (*c6Gen, *c6Node) {
	g := &c6Gen{r: r}
	suf := tag + strconv.Itoa(i)
	g.x, g.y, g.s, g.b = "x"+suf, "y"+suf, "s"+suf, "b"+suf
	g.genRows(12)
	// graded sizes: many small expressions isolate constructs, deeper ones mix them
	d := pick(r, []int{1, 1, 1, 2, 2, 2, 3, 3, 4})
	var a *c6Node
	switch k := r.Intn(20); {
	case k < 11:
		a = g.num(d)
	case k < 18:
		a = g.boolean(d)
	default:
		a = g.str(min(d, 2))
	}
	return g, a
}

func (g *c6Gen) base(col string) string {
	switch col {
	case g.x:
		return "x"
	case g.y:
		return "y"
	case g.s:
		return "s"
	case g.b:
		return "b"
	}
	return col
}

type c6Reporter struct {
	ctx  *core.Ctx
	c    *c06Case
	g    *c6Gen
	seen map[string]bool
}

func (rp *c6Reporter) violate(kind string, attrs map[string]string, detail string, sql, row, minimal string) {
	keys := make([]string, 0, len(attrs))
	for k := range attrs {
		keys = append(keys, k)
	}
	sort.Strings(keys)
	sig := kind
	for _, k := range keys {
		sig += "|" + k + "=" + attrs[k]
	}
	if rp.seen[sig] {
		rp.ctx.Count("violations_deduplicated_within_case", 1)
		return
	}
	rp.seen[sig] = true
	rp.ctx.Count("violations."+kind, 1)
	c6Dump(sig, minimal)
	cc := *rp.c
	cc.SQL, cc.Row, cc.Minimal = sql, row, minimal
	rp.ctx.Violate(core.Violation{Kind: kind, Attrs: attrs, Detail: detail, Case: &cc})
}

func c6ExprCase(ctx *core.Ctx, i int, r *rand.Rand) {
	g, a := c6GenCase("e", i, r)
	c := &c06Case{CaseRef: core.CaseRef{Stream: "expr", Index: i}, Expr: c6Bare.render(a), Type: string(a.T)}
	for _, row := range g.rows {
		c.Rows = append(c.Rows, c6RowString(row))
	}
	rp := &c6Reporter{ctx: ctx, c: c, g: g, seen: map[string]bool{}}
	nrows := len(g.rows)
	variants := []c6Variant{
		{"bare", c6Bare, "value", a},
		{"paren", c6Paren, "value", a},
		{"tight", c6Tight, "value", a},
		{"wide", c6Wide, "value", a},
		{"upperfn", c6Upper, "value", a},
		{"in_case", c6Bare, "value", c6InCase(a)},
		{"where", pick(r, []c6Layout{c6Bare, c6Bare, c6Paren, c6Tight}), "where", c6WherePred(a, g.rows, r)},
	}
	rots := make([]int, len(variants))
	for k := range rots {
		rots[k] = r.Intn(nrows)
	}
	rerunRot := (rots[0] + 1 + r.Intn(nrows-1)) % nrows
	outs := make([][]c6Out, len(variants))
	pinnedVals := map[string]bool{}
	pinnedRows := 0
	for _, row := range g.rows {
		if v := c6Eval(a, row); v.k != '?' {
			if _, ok := v.truth(); v.k == 'b' && !ok {
				continue
			}
			pinnedRows++
			pinnedVals[v.String()] = true
		}
	}
	for k, v := range variants {
		sql := v.sql()
		o, err := c6Run(sql, g.rows, c6Rot(nrows, rots[k]))
		if err != nil {
			min := c6Shrink(v.AST, func(m *c6Node) bool {
				_, e := c6Run(c6Variant{v.Name, v.Layout, v.Mode, c6Rewrap(m, v.Mode, g.rows)}.sql(), nil, nil)
				return e != nil
			})
			msql := c6Variant{v.Name, v.Layout, v.Mode, c6Rewrap(min, v.Mode, g.rows)}.sql()
			_, merr := c6Run(msql, nil, nil)
			if merr == nil {
				min, msql, merr = v.AST, sql, err
			}
			rp.violate(min.clause()+".execute_error",
				map[string]string{"root": min.rootTag(), "layout": v.Layout.Name, "site": c6Site(v), "features": min.features(), "row": "", "got": "execute_error", "text": c6TextFlags(msql)},
				fmt.Sprintf("Execute rejected a well-formed expression: %s\n  error: %v\n  (generated from: %s)", msql, c6Short(merr.Error()), sql), sql, "", msql)
			ctx.Count("expr.execute_errors", 1)
			continue
		}
		outs[k] = o
		ctx.Count("expr.instances", 1)
		reported := false
		for ri, row := range g.rows {
			ref := c6Eval(v.AST, row)
			ok, what := c6Judge(ref, o[ri], v.Mode)
			ctx.Count("expr.values_observed", 1)
			if ref.k != '?' {
				if _, p := ref.truth(); ref.k != 'b' || p {
					ctx.Count("expr.values_compared_with_reference", 1)
				}
			}
			if ok {
				continue
			}
			ctx.Count("expr.reference_mismatches", 1)
			if reported {
				continue // one diagnosis (with shrinking) per variant and case; the rest is counted
			}
			reported = true
			c6ReportRef(rp, v, row, ref, o[ri], what, sql)
		}
	}
	// invariance across layouts and sites, judged only where the reference is silent (a pinned
	// row on which two variants differ already failed the reference above)
	if outs[0] != nil {
		boolish := a.T == 'B'
		for k := 1; k < 5; k++ {
			if outs[k] == nil {
				continue
			}
			for ri, row := range g.rows {
				if c6Pinned(c6Eval(a, row)) {
					continue
				}
				ca, cb := c6Canon(outs[0][ri], "value", boolish), c6Canon(outs[k][ri], "value", boolish)
				ctx.Count("expr.invariance_pairs_compared", 1)
				if ca != cb {
					c6ReportInv(rp, variants[0], variants[k], row, ca, cb, rots[0], rots[k])
					break
				}
			}
		}
		// in_case and where against the engine's own bare value
		for ri, row := range g.rows {
			if c6Pinned(c6Eval(a, row)) {
				continue
			}
			bare := outs[0][ri]
			if outs[5] != nil {
				want, ok := c6ExpectInCase(a, bare)
				got := c6Canon(outs[5][ri], "value", false)
				if ok {
					ctx.Count("expr.invariance_pairs_compared", 1)
					if got != want {
						c6ReportInv(rp, variants[0], variants[5], row, c6Canon(bare, "value", boolish)+" (⇒ in_case "+want+")", got, rots[0], rots[5])
						break
					}
				}
			}
		}
		for ri, row := range g.rows {
			if outs[6] == nil || c6Pinned(c6Eval(variants[6].AST, row)) {
				continue
			}
			want, ok := c6ExpectWhere(variants[6].AST, a, outs[0][ri])
			if !ok {
				continue
			}
			got := c6Canon(outs[6][ri], "where", false)
			ctx.Count("expr.invariance_pairs_compared", 1)
			if got != want {
				c6ReportInv(rp, variants[0], variants[6], row, c6Canon(outs[0][ri], "value", boolish)+" (⇒ where "+want+")", got, rots[0], rots[6])
				break
			}
		}
		// history, in process: the same text on a fresh instance, rows presented in another order
		if o2, err := c6Run(variants[0].sql(), g.rows, c6Rot(nrows, rerunRot)); err == nil {
			for ri, row := range g.rows {
				ca, cb := c6Canon(outs[0][ri], "value", false), c6Canon(o2[ri], "value", false)
				ctx.Count("expr.history_pairs_compared", 1)
				if ca != cb {
					rp.violate("invariance.history", map[string]string{"mode": "in_process", "root": a.rootTag(), "features": a.features(), "row": c6RowShape(a, row, g.base)},
						fmt.Sprintf("%s\n  row %s\n  first run (rows rotated by %d): %s; second run on a fresh instance (rotated by %d): %s",
							variants[0].sql(), c6RowString(row), rots[0], ca, rerunRot, cb), variants[0].sql(), c6RowString(row), "")
					break
				}
			}
		}
	}
	nontrivial := len(a.cols()) > 0 && a.depth() >= 1 && pinnedRows >= 4 && len(pinnedVals) >= 2
	var sample any
	if i < 3 {
		sample = map[string]any{"stream": "expr", "expr": c.Expr, "where": variants[6].sql(), "rows": c.Rows[:3], "pinned_rows": pinnedRows}
	}
	ctx.Case("expr|"+c.Expr+strings.Join(c.Rows, ";"), nontrivial, sample)
}

func c6Pinned(v c6V) bool {
	if v.k == '?' {
		return false
	}
	if v.k == 'b' {
		_, ok := v.truth()
		return ok
	}
	return true
}

func c6Site(v c6Variant) string {
	if v.Mode == "where" {
		return "where"
	}
	if v.Name == "in_case" {
		return "in_case"
	}
	return "select"
}

func c6Short(s string) string {
	s = strings.Join(strings.Fields(s), " ")
	if len(s) > 300 {
		s = s[:300] + "…"
	}
	return s
}

// c6ExpectInCase: what the in_case variant must show given the engine's own bare result.
func c6ExpectInCase(a *c6Node, bare c6Out) (string, bool) {
	if bare.Panic != "" || bare.Err != "" {
		return "", false
	}
	if a.T == 'B' {
		switch x := bare.Res["r"].(type) {
		case bool:
			if x {
				return "num:1", true
			}
			return "num:0", true
		case nil:
			return "num:0", true
		}
		return "", false
	}
	return c6Canon(bare, "value", false), true
}

// c6ExpectWhere: acceptance implied by the engine's own bare value of a.
func c6ExpectWhere(pred, a *c6Node, bare c6Out) (string, bool) {
	if bare.Panic != "" || bare.Err != "" {
		return "", false
	}
	v := bare.Res["r"]
	acc := func(b bool) (string, bool) {
		if b {
			return "accepted", true
		}
		return "rejected", true
	}
	switch a.T {
	case 'B':
		switch x := v.(type) {
		case bool:
			return acc(x)
		case nil:
			return acc(false)
		}
	case 'N':
		if v == nil {
			return acc(false)
		}
		if f, ok := toF(v); ok {
			k := pred.Args[1].F
			if pred.Op == ">" {
				return acc(f > k)
			}
			return acc(f <= k)
		}
	case 'S':
		if v == nil {
			return acc(false)
		}
		if s, ok := v.(string); ok {
			switch c := strings.Compare(s, pred.Args[1].S); pred.Op {
			case "=":
				return acc(c == 0)
			case "!=":
				return acc(c != 0)
			case "<=":
				return acc(c <= 0)
			case ">=":
				return acc(c >= 0)
			case "<":
				return acc(c < 0)
			}
		}
	}
	return "", false
}

// c6Rewrap rebuilds the predicate / value form of a sub-expression for the given mode.
func c6Rewrap(m *c6Node, mode string, rows []Row) *c6Node {
	if mode == "where" && m.T != 'B' {
		return c6WherePred(m, rows, nil)
	}
	return m
}

// c6Shrink descends into compound sub-expressions for which fails() still holds and returns the
// smallest failing one found (delta debugging against the real engine; bounded by the AST size).
func c6Shrink(a *c6Node, fails func(*c6Node) bool) *c6Node {
	cur := a
	for steps := 0; steps < 8; steps++ {
		next := (*c6Node)(nil)
		for _, ch := range cur.Args {
			if ch.K == c6Num || ch.K == c6Str || ch.K == c6Col {
				continue
			}
			if fails(ch) {
				next = ch
				break
			}
		}
		if next == nil {
			return cur
		}
		cur = next
	}
	return cur
}

func c6ReportRef(rp *c6Reporter, v c6Variant, row Row, ref c6V, out c6Out, what, sql string) {
	g := rp.g
	one := []Row{row}
	failsWhat := func(m *c6Node) (bool, string, c6V, c6Out, string) {
		w := c6Rewrap(m, v.Mode, one)
		msql := c6Variant{v.Name, v.Layout, v.Mode, w}.sql()
		o, err := c6Run(msql, one, []int{0})
		if err != nil {
			return false, "", c6V{}, c6Out{}, msql // execute errors are diagnosed separately
		}
		r := c6Eval(w, row)
		ok, wh := c6Judge(r, o[0], v.Mode)
		return !ok, wh, r, o[0], msql
	}
	min := c6Shrink(v.AST, func(m *c6Node) bool { f, _, _, _, _ := failsWhat(m); return f })
	mwhat, mref, mout, msql := what, ref, out, sql
	if min != v.AST {
		if f, w, r, o, s := failsWhat(min); f {
			mwhat, mref, mout, msql = w, r, o, s
		} else {
			min = v.AST
		}
	}
	rp.ctx.Count("expr.shrunk_diagnoses", 1)
	kind := min.clause() + "." + mwhat
	site := c6Site(v)
	if site == "in_case" && min != v.AST {
		site = "select" // the minimal failing sub-expression no longer sits inside the wrapping CASE
	}
	if v.Mode == "where" {
		kind = "where." + mwhat
	}
	attrs := map[string]string{"root": min.rootTag(), "layout": v.Layout.Name, "site": site, "features": min.features(),
		"row": c6RowShape(min, row, g.base), "got": c6GotClass(mout, v.Mode), "text": c6TextFlags(msql)}
	detail := fmt.Sprintf("%s\n  row %s\n  reference: %s   engine: %s", msql, c6RowString(row), mref, c6Describe(mout, v.Mode))
	if msql != sql {
		detail += fmt.Sprintf("\n  (minimal failing sub-expression of: %s — there reference %s, engine %s)", sql, ref, c6Describe(out, v.Mode))
	}
	rp.violate(kind, attrs, detail, sql, c6RowString(row), msql)
}

// c6TextFlags lists the textual traits of the expression that the engine's path-selection
// heuristics look at (parenthesis, quote, dot, CASE/NOT keywords).
func c6TextFlags(sql string) string {
	e := sql
	if i := strings.Index(e, " WHERE "); i >= 0 {
		e = e[i+7:]
	} else {
		e = strings.TrimPrefix(e, "SELECT ")
		if j := strings.LastIndex(e, " AS r, id FROM stream"); j >= 0 {
			e = e[:j]
		}
	}
	up := strings.ToUpper(e)
	fl := []string{}
	add := func(c bool, n string) {
		if c {
			fl = append(fl, n)
		}
	}
	add(strings.Contains(up, "CASE "), "case")
	add(strings.Contains(e, "."), "dot")
	add(strings.Contains(up, "NOT "), "not")
	add(strings.Contains(e, "("), "paren")
	add(strings.Contains(e, "'"), "quote")
	return strings.Join(fl, ",")
}

func c6Describe(o c6Out, mode string) string {
	switch {
	case o.Panic != "":
		return "PANIC " + c6Short(o.Panic)
	case o.Err != "":
		return "EmitSync error: " + c6Short(o.Err)
	case mode == "where":
		if o.Filtered {
			return "row rejected"
		}
		return "row accepted"
	case o.Filtered:
		return "no result row"
	}
	return fmt.Sprintf("%#v", o.Res["r"])
}

// c6TextInNumericContext reports whether, on this row, a text or boolean value is an operand of arithmetic, of a
// unary minus, or of a comparison whose other operand is a number: the one situation in which the engine's
// evaluators are known to coerce differently (see the text/bool arithmetic findings).
func c6TextInNumericContext(n *c6Node, row Row) bool {
	found := false
	tb := func(x *c6Node) bool { v := c6Eval(x, row); return v.k == 's' || v.k == 'b' || v.k == '?' }
	num := func(x *c6Node) bool { v := c6Eval(x, row); return v.k == 'n' }
	n.walk(func(m *c6Node) {
		switch m.K {
		case c6Arith:
			if tb(m.Args[0]) || tb(m.Args[1]) {
				found = true
			}
		case c6Neg:
			if tb(m.Args[0]) {
				found = true
			}
		case c6Cmp:
			if (tb(m.Args[0]) && num(m.Args[1])) || (tb(m.Args[1]) && num(m.Args[0])) {
				found = true
			}
			// booleans have no order: < <= > >= over a boolean operand needs the same coercion to a number
			if m.Op == "<" || m.Op == "<=" || m.Op == ">" || m.Op == ">=" {
				if c6Eval(m.Args[0], row).k == 'b' || c6Eval(m.Args[1], row).k == 'b' {
					found = true
				}
			}
		case c6Call:
			// numeric functions over a text / boolean argument (abs(s), mod(t, 2), ...)
			if m.T == 'N' {
				for _, a := range m.Args {
					if a.T == 'N' && tb(a) {
						found = true
					}
				}
			}
		}
	})
	return found
}

func c6ReportInv(rp *c6Reporter, va, vb c6Variant, row Row, ca, cb string, rota, rotb int) {
	a := va.AST
	kind := "invariance.layout"
	if c6Site(vb) != "select" {
		kind = "invariance.site"
	}
	rp.violate(kind, map[string]string{"a": va.Name, "b": vb.Name, "layout": vb.Layout.Name, "root": a.rootTag(), "features": a.features(),
		"row": c6RowShape(a, row, rp.g.base), "numeric_context_over_text_or_bool": yesNo(c6TextInNumericContext(a, row))},
		fmt.Sprintf("same expression, same row, different result (the reference leaves this row's value open, the renderings must still agree)\n  A [%s, rows rotated by %d]: %s → %s\n  B [%s, rows rotated by %d]: %s → %s\n  row %s",
			va.Name, rota, va.sql(), ca, vb.Name, rotb, vb.sql(), cb, c6RowString(row)), vb.sql(), c6RowString(row), "")
}
