package checks

import (
	"fmt"
	"math/rand"
	"os"
	"path/filepath"
	"regexp"
	"sort"
	"strconv"
	"strings"
	"sync"

	"github.com/rulego/streamsql/logger"

	"verif/internal/core"
)

// C11 — the SQL parser is total, layout-insensitive and faithful to the clauses written.
//
// Three monitors around rsql.Parse (and the public API for results):
//  1. totality: every input (token soup, mutated SQL literals harvested at run time from /repo's
//     tests and docs, raw bytes, broken generated statements) is parsed under recover() and a
//     watchdog in THIS process; the inputs of a batch are written to tmp/c11/inflight-*.txt before
//     the first of them is parsed, so a fatal (unrecoverable) runtime error leaves the culprit on disk.
//  2. faithfulness: statements rendered from this check's own AST; the returned *types.Config and
//     condition are compared field by field with the AST.
//  3. layout metamorphic + keyword-like literals/identifiers: same AST, other keyword case and
//     whitespace ⇒ same (normalised) config and same results through EmitSync / CountingWindow.

func init() { register(&Check{ID: "C11", Run: runC11}) }

const c11Batch = 200

type c11TotCase struct {
	core.CaseRef
	Pos   int    `json:"pos_in_batch"`
	Class string `json:"class"`
	Input string `json:"input_go_quoted"`
}

func runC11(ctx *core.Ctx) {
	logger.SetDefault(logger.NewDiscardLogger())
	ctx.SetRule("totality case = batch of 200 PRNG inputs (token soup / mutated harvested SQL / raw bytes / broken generated statements / repetition bombs), " +
		"non-trivial = the batch made Parse return both configs and errors; statement case = (AST, layouts, sample rows) from PRNG(seed,index), " +
		"non-trivial = canonical rendering parsed to a config and at least 2 distinct layout texts were compared; distinct by input text hash")
	ctx.Assume("totality over all byte strings is sampled, not decided",
		"totality inputs are parsed in-process under recover(); each batch of 200 inputs is written to tmp/c11/inflight-<pid>-<slot>.txt before its first input is parsed and the file is removed after the batch, so an unrecoverable fatal error leaves its batch on disk",
		"a parse exceeding the 5 s watchdog is a violation only if it reproduces on a second attempt (else inconclusive); its goroutine cannot be killed and is abandoned",
		"harvested SQL literals depend on /repo's current *_test.go / *.md / doc.go files (sorted, de-duplicated); the other generators depend on the seed only",
		"configs of two layouts are compared after token normalisation of every string (whitespace inside expression texts, keyword / function-name case, hash-suffixed internal placeholders)",
		"function-name case is varied between all-upper and all-lower only for aliased calls; unaliased calls keep their text because it is the output column name",
		"literals with quotes use the other quote kind; a doubled quote ('') is not defined by the docs: such statements are checked only for keywords of the literal not becoming clauses and for layout invariance (no WHERE-text / result reference); backslash escapes occur only in totality inputs",
		"result equality: EmitSync on 5 rows without NULLs (direct, JOIN with a registered table); CountingWindow(N) statements fed exactly N accepted rows per key; time windows, MATCH_RECOGNIZE: configs only")

	dir := filepath.Join(core.Root(), "tmp", "c11")
	_ = os.MkdirAll(dir, 0o755)
	if left, _ := filepath.Glob(filepath.Join(dir, "inflight-*.txt")); len(left) > 0 && ctx.Replay == "" {
		ctx.Extra("leftover_inflight_files_from_an_earlier_crashed_run", left)
	}
	corpus, files := c11Harvest()
	ctx.Extra("harvested_sql_literals", len(corpus))
	ctx.Extra("harvest_files", files)
	if len(corpus) < 20 {
		corpus = append(corpus, c11SeedCorpus...)
	}

	slots := make(chan int, workers())
	for i := 0; i < workers(); i++ {
		slots <- i
	}
	nTot := ctx.N(100000, 3000000) / c11Batch
	ctx.Cases("c11.total", nTot, workers(), func(i int, r *rand.Rand) {
		slot := <-slots
		defer func() { slots <- slot }()
		c11TotalBatch(ctx, core.CaseRef{Stream: "c11.total", Index: i}, r, corpus, filepath.Join(dir, fmt.Sprintf("inflight-%d-%d.txt", os.Getpid(), slot)))
	})
	nStmt := ctx.N(800, 20000)
	nLay := ctx.N(3, 4)
	ctx.Cases("c11.stmt", nStmt, workers(), func(i int, r *rand.Rand) {
		execC11Stmt(ctx, core.CaseRef{Stream: "c11.stmt", Index: i}, r, nLay)
	})
}

var c11WriteMu sync.Mutex

func c11TotalBatch(ctx *core.Ctx, ref core.CaseRef, r *rand.Rand, corpus []string, file string) {
	inputs := make([]string, c11Batch)
	classes := make([]string, c11Batch)
	var sb strings.Builder
	for j := range inputs {
		inputs[j], classes[j] = c11GenInput(r, corpus)
		sb.WriteString(strconv.Quote(inputs[j]))
		sb.WriteByte('\n')
	}
	if err := os.WriteFile(file, []byte(sb.String()), 0o644); err != nil {
		ctx.Inconclusive("cannot write the in-flight input file: " + err.Error())
		return
	}
	nCfg, nErr := 0, 0
	for j, in := range inputs {
		cs := &c11TotCase{CaseRef: ref, Pos: j, Class: classes[j], Input: strconv.Quote(in)}
		res, ok := c11Totality(ctx, in, classes[j], cs)
		ctx.Count("total.inputs."+classes[j], 1)
		if !ok {
			continue
		}
		if res.Err != nil {
			nErr++
		} else {
			nCfg++
		}
	}
	_ = os.Remove(file)
	ctx.Count("total.inputs", int64(len(inputs)))
	ctx.Count("total.returned_config", int64(nCfg))
	ctx.Count("total.returned_error", int64(nErr))
	var sample any
	if ref.Index < 2 {
		sample = map[string]any{"stream": "c11.total", "batch": ref.Index, "first_inputs": []string{strconv.Quote(inputs[0]), strconv.Quote(inputs[1]), strconv.Quote(inputs[2])}, "classes": classes[:3]}
	}
	ctx.Evals(int64(len(inputs) - 1))
	ctx.Case(strings.Join(inputs, "\x00"), nCfg > 0 && nErr > 0, sample)
}

// ---- harvest ---------------------------------------------------------------------------------

var (
	c11BackquoteRe = regexp.MustCompile("`([^`]{6,})`")
	c11DquoteRe    = regexp.MustCompile(`"((?:[^"\\\n]|\\.){6,})"`)
	c11FenceRe     = regexp.MustCompile("(?s)```[a-zA-Z]*\n(.*?)```")
	c11SelectRe    = regexp.MustCompile(`(?i)\bselect\b`)
	c11MdStmtRe    = regexp.MustCompile(`(?is)\bselect\b.*?(?:;|\n\s*\n|\z)`)
)

var c11SeedCorpus = []string{
	"SELECT deviceId, AVG(temperature) AS avg_temp FROM stream GROUP BY deviceId, TumblingWindow('5s')",
	"SELECT * FROM stream WHERE temperature > 30 LIMIT 10",
	"SELECT device, COUNT(*) AS c FROM stream GROUP BY device, SlidingWindow('30s','10s') WITH (TIMESTAMP='ts', TIMEUNIT='ms') HAVING c > 1 ORDER BY c DESC LIMIT 3",
}

func c11RepoDir() string {
	if d := os.Getenv("VERIF_REPO"); d != "" {
		return d
	}
	return "/repo"
}

// c11Harvest collects SQL-looking literals from the repository's tests and docs (whatever is
// there now); unreadable or vanished files are skipped.
func c11Harvest() ([]string, int) {
	set := map[string]bool{}
	files := 0
	add := func(s string) {
		s = strings.TrimSpace(s)
		if len(s) >= 12 && len(s) <= 3000 && c11SelectRe.MatchString(s) {
			set[s] = true
		}
	}
	_ = filepath.Walk(c11RepoDir(), func(p string, info os.FileInfo, err error) error {
		if err != nil {
			return nil
		}
		if info.IsDir() {
			if n := info.Name(); n == ".git" || n == "vendor" || n == "node_modules" {
				return filepath.SkipDir
			}
			return nil
		}
		name := info.Name()
		isGo := strings.HasSuffix(name, "_test.go") || name == "doc.go"
		isMd := strings.HasSuffix(strings.ToLower(name), ".md")
		if !isGo && !isMd || info.Size() > 4<<20 {
			return nil
		}
		b, err := os.ReadFile(p)
		if err != nil {
			return nil
		}
		files++
		txt := string(b)
		if isMd {
			for _, m := range c11FenceRe.FindAllStringSubmatch(txt, -1) {
				for _, st := range c11MdStmtRe.FindAllString(m[1], -1) {
					add(strings.TrimSuffix(strings.TrimSpace(st), ";"))
				}
			}
		}
		for _, m := range c11BackquoteRe.FindAllStringSubmatch(txt, -1) {
			add(m[1])
		}
		if isGo {
			for _, m := range c11DquoteRe.FindAllStringSubmatch(txt, -1) {
				if u, err := strconv.Unquote(`"` + m[1] + `"`); err == nil {
					add(u)
				} else {
					add(m[1])
				}
			}
		}
		return nil
	})
	out := make([]string, 0, len(set))
	for s := range set {
		out = append(out, s)
	}
	sort.Strings(out)
	return out, files
}

// ---- totality input generators ---------------------------------------------------------------

var c11Vocab = strings.Fields("SELECT select FROM from WHERE where GROUP BY group by ORDER order HAVING having LIMIT limit WITH with AS as DISTINCT distinct " +
	"AND OR NOT LIKE IS NULL and or not like is null CASE WHEN THEN ELSE END case when then else end OVER PARTITION over partition " +
	"TumblingWindow SlidingWindow CountingWindow SessionWindow GLOBAL WINDOW TRIGGER tumblingwindow TIMESTAMP TIMEUNIT MAXOUTOFORDERNESS ALLOWEDLATENESS IDLETIMEOUT STATETTL " +
	"MATCH_RECOGNIZE MEASURES ONE ROW ROWS PER MATCH AFTER SKIP PAST LAST TO NEXT FIRST PATTERN DEFINE SUBSET WITHIN PERMUTE ALL " +
	"JOIN INNER LEFT OUTER ON ASC DESC join left on " +
	"a b c stream t1 device.info.name sensors x1 order_id limit1 `q` `a b` count sum avg max min upper lag had_changed window_start concat coalesce unknownfn " +
	"* * , , , ( ( ) ) [ ] { } . .. ? | + - / = == != < > <= >= ! % ; : ' \" ` -- /* */ # @ $ ^ & ~ \\ " +
	"0 1 5 -1 3.14 1e9 007 1.2.3 99999999999999999999 -0 .5 5. 'it\\'s 'it''s " +
	"'5s' '1h' 'abc' '' 'x'' \"d\" 'LIMIT 5' 'ts' 'ms' 'ss' '%a%' '5x' '-5s' true false nil")

func c11GenInput(r *rand.Rand, corpus []string) (string, string) {
	switch k := r.Intn(24); {
	case k >= 22:
		// a statement cut off right after a word, followed by a lone opening quote or bracket (somebody still typing)
		s := pick(r, corpus)
		if r.Intn(2) == 0 {
			s = pick(r, []string{
				"SELECT * FROM s MATCH_RECOGNIZE (PARTITION BY `dev` ORDER BY `ts` MEASURES FIRST(A.v) AS `fv`, LAST(B.v) AS lv ONE ROW PER MATCH AFTER MATCH SKIP TO LAST `B` PATTERN (A B+) SUBSET `U` = (A, B) DEFINE A AS v > 1, `B` AS v < 1)",
				"SELECT `a b`, count(*) AS `c` FROM s GROUP BY `a b`, TumblingWindow('1s') HAVING `c` > 1 ORDER BY `c` DESC LIMIT 3",
				"SELECT s.`x` AS y, m.`w` FROM s JOIN meta m ON s.`k` = m.`k` WHERE `x` > 1"})
		}
		var cuts []int
		for i := 1; i < len(s); i++ {
			if s[i] == ' ' || s[i] == '(' || s[i] == ',' {
				cuts = append(cuts, i+1)
			}
		}
		if len(cuts) > 0 {
			s = s[:pick(r, cuts)]
		}
		return s + pick(r, []string{"`", "`", "'", "\"", "(", "[", "`x", "'x"}), "statement_cut_off_at_an_opening_quote"
	case k >= 20:
		return c11SemanticError(r), "well_formed_statement_with_semantic_error"
	case k < 6:
		return c11Soup(r), "token_soup"
	case k < 12:
		return c11Mutate(r, pick(r, corpus)), "mutated_harvested_sql"
	case k < 15:
		n := r.Intn(120)
		if r.Intn(10) == 0 {
			n = r.Intn(3000)
		}
		b := make([]byte, n)
		for i := range b {
			switch r.Intn(6) {
			case 0:
				b[i] = pick(r, []byte{0, 0xff, 0xfe, 0xc0, 0x80, 0xe2, 0x28, 0xa1, '\'', '"', '`', '(', ')', ',', '\n'})
			case 1:
				b[i] = byte(' ' + r.Intn(95))
			default:
				b[i] = byte(r.Intn(256))
			}
		}
		if r.Intn(3) == 0 {
			return "SELECT " + string(b), "raw_bytes"
		}
		return string(b), "raw_bytes"
	case k < 19:
		toks := c11GenStmt(r).toks()
		// break a generated statement at the token level
		for n := 1 + r.Intn(3); n > 0 && len(toks) > 1; n-- {
			i := r.Intn(len(toks))
			switch r.Intn(5) {
			case 0:
				toks = append(toks[:i], toks[i+1:]...)
			case 1:
				toks = append(toks[:i+1], toks[i:]...)
			case 2:
				toks = toks[:i+1]
			case 3:
				j := r.Intn(len(toks))
				toks[i], toks[j] = toks[j], toks[i]
			default:
				toks[i] = c11Tok{K: c11ID, S: pick(r, c11Vocab)}
			}
		}
		return c11Render(toks, c11RandLayout(r)), "broken_generated_statement"
	default:
		return c11Bomb(r), "repetition_bomb"
	}
}

// c11SemanticError: a statement that is syntactically fine and wrong in exactly one semantic respect (a function
// that does not exist, an aggregate where none is allowed, a bad window argument), with the offending call buried
// in expressions of very different lengths, written with and without blanks around the operators: the error
// paths compute positions and contexts from the text, so they see these lengths.
func c11SemanticError(r *rand.Rand) string {
	sep := pick(r, []string{"", "", " ", "  "})
	ops := []string{"+", "-", "*", "/"}
	n := 1 + r.Intn(14)
	if r.Intn(6) == 0 {
		n = 20 + r.Intn(60)
	}
	var e strings.Builder
	for i := 0; i < n; i++ {
		if i > 0 {
			e.WriteString(sep + pick(r, ops) + sep)
		}
		e.WriteString(pick(r, []string{"a", "b", "c", "x", "temperature", "d.v", "2", "3.5", "`k 1`"}))
	}
	bad := pick(r, []string{"nofn", "xsum9", "no_such_function", "Avgg", "f", "lagg", "NOFN"}) + "(" + e.String() + ")"
	cmp := sep + pick(r, []string{">", "<=", "=", "!="}) + sep + "0"
	switch r.Intn(7) {
	case 0:
		return "SELECT " + bad + " FROM s"
	case 1:
		return "SELECT " + bad + ",b FROM s"
	case 2:
		return "select " + bad + " as v from s where x" + cmp
	case 3:
		return "SELECT a FROM s WHERE " + bad + cmp
	case 4:
		return "SELECT k, count(*) AS c FROM s GROUP BY k, TumblingWindow('1s') HAVING " + bad + cmp
	case 5:
		return "SELECT k, sum(" + bad + ") AS c FROM s GROUP BY k, CountingWindow(3)"
	}
	return "SELECT CASE WHEN " + bad + cmp + " THEN 1 ELSE 0 END AS r FROM s"
}

func c11Soup(r *rand.Rand) string {
	n := r.Intn(40)
	if r.Intn(20) == 0 {
		n = r.Intn(600)
	}
	var b strings.Builder
	if r.Intn(2) == 0 {
		b.WriteString(pick(r, []string{"SELECT ", "select ", "SELECT * FROM s ", "SELECT a FROM s WHERE ", "SELECT a FROM s GROUP BY ", "SELECT a FROM s MATCH_RECOGNIZE ( ", "SELECT a FROM s WITH ("}))
	}
	for i := 0; i < n; i++ {
		b.WriteString(pick(r, c11Vocab))
		b.WriteString(pick(r, []string{" ", " ", " ", "", "\n", "\t", "  "}))
	}
	return b.String()
}

func c11Mutate(r *rand.Rand, s string) string {
	b := []byte(s)
	for n := 1 + r.Intn(4); n > 0; n-- {
		if len(b) == 0 {
			b = []byte(pick(r, c11Vocab))
			continue
		}
		i := r.Intn(len(b))
		j := i + r.Intn(min(len(b)-i, 12)+1)
		switch r.Intn(7) {
		case 0: // insert bytes / token
			ins := []byte(pick(r, c11Vocab))
			if r.Intn(2) == 0 {
				ins = []byte{byte(r.Intn(256))}
			}
			b = append(b[:i], append(ins, b[i:]...)...)
		case 1: // delete slice
			b = append(b[:i], b[j:]...)
		case 2: // flip bit
			b[i] ^= 1 << uint(r.Intn(8))
		case 3: // duplicate slice
			b = append(b[:j], append(append([]byte{}, b[i:j]...), b[j:]...)...)
		case 4: // truncate
			b = b[:i]
		case 5: // replace byte with a structural character
			b[i] = pick(r, []byte("()',\"`= \n\x00*.[]{}|?-"))
		default: // change case of a slice
			for k := i; k < j; k++ {
				if b[k] >= 'a' && b[k] <= 'z' {
					b[k] -= 32
				} else if b[k] >= 'A' && b[k] <= 'Z' {
					b[k] += 32
				}
			}
		}
	}
	return string(b)
}

// c11Bomb produces inputs that run into the parser's iteration / recursion bounds.
func c11Bomb(r *rand.Rand) string {
	n := 50 + r.Intn(1500)
	unit := pick(r, []string{"(", ")", "a,", "a AND ", "a = 1 OR ", "CASE WHEN a THEN ", "'x',", "f(", "x.", "[0]", "-", "- 1", "!", "A B ", "(A|", "A{1,2}", "WITH (", "TIMESTAMP=", "JOIN t ON a = b ", "OVER (", "\n", "`", "GROUP BY "})
	pre := pick(r, []string{"SELECT ", "SELECT a FROM s WHERE ", "SELECT a FROM s GROUP BY ", "SELECT a FROM s HAVING ", "SELECT a FROM s WITH (", "SELECT * FROM s MATCH_RECOGNIZE (ORDER BY ts PATTERN (", "SELECT a FROM s ORDER BY ", "SELECT a FROM s ", "SELECT a FROM s LIMIT ", "SELECT f(", "SELECT lag(a) OVER (PARTITION BY "})
	post := pick(r, []string{"", " FROM s", ")", ") DEFINE A AS a > 1)", " LIMIT 1"})
	return pre + strings.Repeat(unit, n) + post
}
