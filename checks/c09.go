package checks

import (
	"fmt"
	"github.com/rulego/streamsql"
	"math/rand"
	"strings"
	"time"

	"verif/internal/core"
	"verif/internal/eng"
	"verif/internal/sched"
)

// C09 — counting windows: per key, the i-th delivery aggregates rows (i-1)N+1..iN of that key.

func init() { register(&Check{ID: "C09", Race: true, Run: runC09}) }

type c09Case struct {
	core.CaseRef
	SQL    string   `json:"sql"`
	N      int      `json:"n"`
	Cols   []string `json:"cols"`
	Rows   []Row    `json:"rows"`
	Feed   string   `json:"feed"`
	Shape  string   `json:"key_shape"`
	NKeys  int      `json:"nkeys"`
	Buffer int      `json:"window_output_buffer"`
	// Strategy "expand": a 4-slot input buffer that the burst overruns and the engine grows (ceiling far above the
	// row count, so nothing may be dropped); "" = block
	Strategy string `json:"overflow_strategy,omitempty"`
	FnKey    bool   `json:"function_key,omitempty"` // GROUP BY upper(k1): the window must partition by the computed value
	// KeyForm of the first grouping column: "" plain name | "nested" (GROUP BY d.k1, rows carry d:{k1:..}) |
	// "backquoted" (GROUP BY `k1`)
	KeyForm string `json:"first_key_form,omitempty"`
	// Monitor: a monitoring loop reads and resets the statistics every few rows while rows keep arriving
	Monitor bool `json:"stats_reader_and_reset,omitempty"`
	// ManualTrigger: the public TriggerWindow hook is called while keys hold partial batches; a counting window
	// fires on the count only
	ManualTrigger bool `json:"manual_trigger,omitempty"`
}

func genC09(ref core.CaseRef, r *rand.Rand) *c09Case {
	c := &c09Case{CaseRef: ref}
	c.N = pick(r, []int{1, 1, 2, 3, 5, 8, 13})
	ncols := pick(r, []int{0, 1, 1, 1, 2, 2, 3})
	c.Cols = []string{"k1", "k2", "k3"}[:ncols]
	// key domain per column: one scalar type per column
	type dom struct{ vals []any }
	doms := make([]dom, ncols)
	hostile := r.Intn(3) > 0
	allVals := []any{}
	for i := range doms {
		switch r.Intn(4) {
		case 0: // ints
			for _, v := range []int{1, 2, 3, 10, -1}[:2+r.Intn(3)] {
				doms[i].vals = append(doms[i].vals, v)
			}
		case 1: // floats
			for _, v := range []float64{1.5, 2.5, -0.25}[:2+r.Intn(2)] {
				doms[i].vals = append(doms[i].vals, v)
			}
		default:
			src := plainKeys
			if hostile {
				src = keyAlphabet
			}
			k := 1 + r.Intn(4)
			for j := 0; j < k; j++ {
				doms[i].vals = append(doms[i].vals, pick(r, src))
			}
			if hostile && r.Intn(3) == 0 {
				doms[i].vals = append(doms[i].vals, nil)
				if r.Intn(2) == 0 {
					doms[i].vals = append(doms[i].vals, `\N`) // a text that spells a NULL marker, next to NULL
				}
			}
		}
		allVals = append(allVals, doms[i].vals...)
	}
	if ncols >= 1 && ref.Index%8 == 3 {
		// a computed grouping key, different spellings of one value interleaved with other values
		c.FnKey = true
		doms[0].vals = []any{"aa", "Aa", "bb", "BB", "c", "aA"}
		allVals = append(allVals, "aa", "Aa")
	}
	c.Shape = keyShape(allVals)
	n := 0
	switch r.Intn(4) {
	case 0: // exact multiple
		n = c.N * (1 + r.Intn(6)) * max(1, ncols)
	case 1:
		n = 1 + r.Intn(12)
	default:
		n = 10 + r.Intn(150)
	}
	keys := map[string]bool{}
	for i := 1; i <= n; i++ {
		row := Row{"id": i, "v": r.Intn(100) - 20}
		for j, col := range c.Cols {
			v := pick(r, doms[j].vals)
			if v == nil && r.Intn(2) == 0 {
				continue // missing instead of explicit NULL
			}
			row[col] = v
		}
		keys[c.keyOf(row)] = true
		c.Rows = append(c.Rows, row)
	}
	c.NKeys = len(keys)
	c.Feed = pick(r, []string{"burst", "burst", "paced", "yield"})
	c.Buffer = pick(r, []int{4096, 4096, 2, 1})
	if ref.Index%40 == 7 {
		// idle gaps longer than the block timeout between windows: a result must not be lost to a stale timeout
		c.Feed, c.Buffer = "gaps", 4096
		if len(c.Rows) > 40 {
			c.Rows = c.Rows[:40]
		}
	}
	if ref.Index%6 == 5 && c.Feed != "gaps" {
		// (window output stays large: outside the block strategy a full window output displaces results, which
		// the engine reports as dropped and the monitor then calls inconclusive)
		c.Strategy, c.Feed, c.Buffer = "expand", "burst", 4096
	}
	c.Monitor = ref.Index%9 == 2
	c.ManualTrigger = ref.Index%9 == 5
	sel := []string{}
	for _, col := range c.Cols {
		sel = append(sel, col)
	}
	sel = append(sel, "count(*) AS c", "collect(id) AS ids", "first_value(id) AS f", "last_value(id) AS l", "sum(v) AS s")
	gb := append(append([]string{}, c.Cols...), fmt.Sprintf("CountingWindow(%d)", c.N))
	if c.FnKey {
		sel[0], gb[0] = "upper(k1) AS k1", "upper(k1)"
	} else if ncols >= 1 && ref.Index%8 == 6 {
		c.KeyForm = pick(r, []string{"nested", "backquoted"})
		if c.KeyForm == "nested" {
			sel[0], gb[0] = "d.k1 AS k1", "d.k1"
		} else {
			sel[0], gb[0] = "`k1` AS k1", "`k1`"
		}
	}
	c.SQL = "SELECT " + strings.Join(sel, ", ") + " FROM stream GROUP BY " + strings.Join(gb, ", ")
	return c
}

func runC09(ctx *core.Ctx) {
	evCtx = ctx
	ctx.SetRule("case = (N, 0-3 typed key columns, key domain, row list, feed mode) drawn from PRNG(seed,index); " +
		"non-trivial = at least 2 deliveries observed and at least 2 distinct keys or a trailing remainder; distinct by (SQL, rows) hash")
	ctx.Assume("a missing delivery is declared only after the engine stayed quiet for >5 s with empty buffers",
		"surplus deliveries that arrive after the settle period are not seen")
	// yield-point perturbation of the Add → trigger-channel → window-goroutine hand-off
	sched.Seed(ctx.Seed*131 + 9)
	sched.Set(&sched.Perturb{Prob: map[string]float64{"counting.add": 0.02, "proc.chan_read": 0.01}, MaxSleep: 100 * time.Microsecond})
	defer sched.Set(nil)
	n := ctx.N(2000, 60000)
	ctx.Cases("c09", n, workers(), func(i int, r *rand.Rand) {
		c := genC09(core.CaseRef{Stream: "c09", Index: i}, r)
		execC09(ctx, c)
	})
	c09MixedStream(ctx)
	c09TTLStream(ctx)
	c09ProducersStream(ctx)
	for k, v := range sched.Hits() {
		ctx.Count("hook_hits."+k, v)
	}
	ctx.Count("perturbation_actions", sched.Acted())
}

// keyOf is the typed key tuple a row is grouped under (the computed value for a function key).
func (c *c09Case) keyOf(row Row) string {
	if !c.FnKey {
		return tuple(row, c.Cols)
	}
	cp := Row{}
	for k, v := range row {
		cp[k] = v
	}
	if s, ok := row["k1"].(string); ok {
		cp["k1"] = strings.ToUpper(s)
	}
	return tuple(cp, c.Cols)
}

func execC09(ctx *core.Ctx, c *c09Case) {
	// reference: per typed key, consecutive slices of N ids in arrival order
	perKey := map[string][]Row{}
	order := []string{}
	for _, row := range c.Rows {
		k := c.keyOf(row)
		if _, ok := perKey[k]; !ok {
			order = append(order, k)
		}
		perKey[k] = append(perKey[k], row)
	}
	expect := 0
	remainder := false
	for _, k := range order {
		expect += len(perKey[k]) / c.N
		if len(perKey[k])%c.N != 0 {
			remainder = true
		}
	}
	ro := runOpts{Opts: eng.Opts{WindowOut: c.Buffer}, Expect: expect}
	if c.Strategy == "expand" {
		ro.Opts.Strategy, ro.Opts.DataChan, ro.Opts.MaxBuffer = "expand", 4, 1<<16
		ctx.Count("cases_expand_strategy", 1)
	}
	if c.FnKey {
		ctx.Count("cases_function_key", 1)
	}
	if c.Monitor {
		ctx.Count("cases_with_stats_reset", 1)
		ro.Each = func(s *streamsql.Streamsql, i int) {
			if i%5 == 3 {
				_ = s.GetStats()
				_ = s.GetDetailedStats()
				if st := s.Stream(); st != nil {
					st.ResetStats()
				}
			}
		}
	}
	if c.ManualTrigger {
		ctx.Count("cases_with_manual_trigger", 1)
		ro.Each = func(s *streamsql.Streamsql, i int) {
			if i%4 == 1 {
				s.TriggerWindow()
			}
		}
	}
	switch c.Feed {
	case "gaps":
		ro.Opts.BlockTimeout = 30 * time.Millisecond
		ro.PaceFn = func(i int) {
			if i%c.N == c.N-1 {
				time.Sleep(45 * time.Millisecond)
			}
		}
	case "paced":
		ro.Pace = 50 * time.Microsecond
	case "yield":
		ro.PaceFn = func(i int) {
			if i%3 == 0 {
				time.Sleep(time.Microsecond)
			}
		}
	}
	feed := c.Rows
	if c.KeyForm == "nested" {
		// the rows as the caller sends them: the first key column lives inside the object d
		feed = make([]Row, len(c.Rows))
		for i, row := range c.Rows {
			cp := Row{}
			for k, v := range row {
				if k != "k1" {
					cp[k] = v
				}
			}
			if v, ok := row["k1"]; ok {
				cp["d"] = map[string]any{"k1": v}
			} else if i%2 == 0 {
				cp["d"] = map[string]any{}
			}
			feed[i] = cp
		}
	}
	if c.KeyForm != "" {
		ctx.Count("cases_key_form_"+c.KeyForm, 1)
	}
	res := runWindow(c.SQL, feed, ro)
	attrs := map[string]string{"key_shape": c.Shape, "ncols": fmt.Sprint(len(c.Cols)), "first_key_form": c.KeyForm}
	if res.Err != nil {
		ctx.Violate(core.Violation{Kind: "counting.execute_error", Attrs: attrs, Detail: res.Err.Error(), Case: c})
		return
	}
	if res.Overloaded {
		if c.Buffer == 4096 && len(c.Rows) < 4096 {
			// fewer results than buffer slots: the window output can never have been full, so a dropped
			// result is not back-pressure but a lost window
			ctx.Violate(core.Violation{Kind: "counting.result_dropped_without_backpressure", Attrs: attrs,
				Detail: fmt.Sprintf("the engine counted dropped results/rows (stats %v) although only %d rows were sent into buffers of 4096 slots; %d deliveries seen, %d expected", res.Stats, len(c.Rows), len(res.Dels), expect), Case: c})
			return
		}
		ctx.Inconclusive("engine declared overload")
		return
	}
	ctx.Count("deliveries_checked", int64(len(res.Dels)))
	ctx.Count("rows_emitted", int64(len(c.Rows)))
	viol := func(kind, detail string) {
		ctx.Violate(core.Violation{Kind: kind, Attrs: attrs, Detail: detail, Case: c})
	}
	next := map[string]int{} // per key: index of next expected batch
	seen := map[int]bool{}
	bad := false
	for _, d := range res.Dels {
		if len(d.Rows) != 1 {
			viol("counting.batch_mixed_keys", fmt.Sprintf("delivery %d holds %d result rows (one key per counting batch expected): %s", d.Index, len(d.Rows), core.J(d.Rows)))
			bad = true
			break
		}
		out := d.Rows[0]
		k := tuple(out, c.Cols)
		rows, ok := perKey[k]
		if !ok {
			viol("counting.unknown_key", fmt.Sprintf("delivery %d reports key %q that no input row has: %s", d.Index, k, core.J(out)))
			bad = true
			break
		}
		i := next[k]
		next[k]++
		if (i+1)*c.N > len(rows) {
			viol("counting.surplus_delivery", fmt.Sprintf("key %q: delivery #%d but only %d rows (N=%d): %s", k, i+1, len(rows), c.N, core.J(out)))
			bad = true
			break
		}
		want := rows[i*c.N : (i+1)*c.N]
		wantIDs := make([]int, len(want))
		sum := 0.0
		for j, w := range want {
			wantIDs[j] = w["id"].(int)
			f, _ := toF(w["v"])
			sum += f
		}
		ids, ok := idList(out["ids"])
		if !ok || !intsEq(ids, wantIDs) {
			viol("counting.wrong_rows", fmt.Sprintf("key %q delivery #%d: collect(id)=%v, expected rows %v (N=%d)", k, i+1, out["ids"], wantIDs, c.N))
			bad = true
			break
		}
		for _, id := range ids {
			if seen[id] {
				viol("counting.row_in_two_results", fmt.Sprintf("id %d appears in two deliveries", id))
				bad = true
			}
			seen[id] = true
		}
		if !numEq(out["c"], c.N) || !numEq(out["f"], wantIDs[0]) || !numEq(out["l"], wantIDs[len(wantIDs)-1]) || !numEq(out["s"], sum) {
			viol("counting.wrong_aggregate", fmt.Sprintf("key %q delivery #%d: got c=%v f=%v l=%v s=%v, expected c=%d f=%d l=%d s=%v", k, i+1, out["c"], out["f"], out["l"], out["s"], c.N, wantIDs[0], wantIDs[len(wantIDs)-1], sum))
			bad = true
			break
		}
	}
	if !bad {
		for _, k := range order {
			if next[k] != len(perKey[k])/c.N {
				if !res.Quiescent {
					ctx.Inconclusive("not quiescent")
					return
				}
				viol("counting.missing_delivery", fmt.Sprintf("key %q: %d deliveries observed, %d expected (%d rows, N=%d) after the engine went quiet", k, next[k], len(perKey[k])/c.N, len(perKey[k]), c.N))
				break
			}
		}
	}
	nontrivial := len(res.Dels) >= 2 && (c.NKeys >= 2 || remainder)
	sig := c.SQL + core.J(c.Rows)
	var sample any
	if c.Index < 3 {
		sample = map[string]any{"sql": c.SQL, "rows": len(c.Rows), "keys": c.NKeys, "deliveries": len(res.Dels), "feed": c.Feed, "first_rows": c.Rows[:min(3, len(c.Rows))]}
	}
	ctx.Case(sig, nontrivial, sample)
}
